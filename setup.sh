#!/bin/sh
# MANIFEST.setup_cmd — build everything from files on disk, offline.
set -e
cd "$(dirname "$0")"
export CARGO_NET_OFFLINE=true
python3 translate.py
(cd lean && lake build EvalexprVerif driver)
# every module that checks register in props.json
python3 - <<'PY'
import json, subprocess
props = json.load(open("props.json"))
mods = set()
for cfg in props.values():
    mods.add(cfg["module"]); mods.update(cfg.get("agree", [])); mods.update(cfg.get("lemmas", []))
subprocess.check_call(["lake", "build"] + sorted(mods), cwd="lean")
PY
(cd harness && cargo build --offline && cargo build --offline --features c15threads && cargo build --offline --profile dev0)
echo "setup done"
