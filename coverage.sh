#!/bin/sh
# coverage.sh [quick|thorough] — measure which regions of /repo/src the correspondence harness executes.
# Not a check and not a proof: a measurement of how densely the hand-written model is validated against the code
# (DESIGN §12c). Works entirely in /tmp/cov (copies of /repo and of the harness, the nightly toolchain's
# instrument-coverage + llvm-cov, a vendor directory unpacked from the offline crate cache) and removes it afterwards.
# Writes notes/coverage.md.
set -e
tier="${1:-quick}"
V=/verif
S=/tmp/cov
N=$(ls -d ~/.rustup/toolchains/nightly-x86_64-unknown-linux-gnu/lib/rustlib/x86_64-unknown-linux-gnu/bin)
rm -rf $S; mkdir -p $S/vendor $S/prof $S/out $S/repo
rsync -a --exclude target "$V/harness/" $S/harness/
rsync -a --exclude target --exclude .git /repo/ $S/repo/
rm -f $S/repo/rust-toolchain.toml $S/harness/rust-toolchain.toml
for c in ~/.cargo/registry/cache/*-d8f576cf6a597a10/*.crate; do
  n=$(basename "$c" .crate); tar xzf "$c" -C $S/vendor
  echo "{\"files\":{},\"package\":\"$(sha256sum "$c" | cut -d' ' -f1)\"}" > "$S/vendor/$n/.cargo-checksum.json"
done
cat > $S/harness/.cargo/config.toml <<EOF
[net]
offline = true
[source.crates-io]
replace-with = "vendored"
[source.vendored]
directory = "$S/vendor"
EOF
sed -i "s#path = \"/repo\"#path = \"$S/repo\"#" $S/harness/Cargo.toml
(cd $S/harness && RUSTFLAGS="-C instrument-coverage" CARGO_TARGET_DIR=$S/target cargo +nightly build --offline --features c15threads 2>&1 | tail -1)
export VERIF_DRIVER=$V/lean/.lake/build/bin/driver
for p in $(python3 -c "import json;print(' '.join(k for k in json.load(open('$V/props.json')) if not k.startswith('_')))"); do
  (cd $S/harness && LLVM_PROFILE_FILE=$S/prof/$p-%p.profraw $S/target/debug/harness $p $tier 1 $S/out/$p.json > $S/out/$p.log 2>&1) || echo "harness $p exited non-zero"
done
$N/llvm-profdata merge -sparse $S/prof/*.profraw -o $S/all.profdata
{
  echo "# Coverage of /repo/src by the correspondence harness ($tier tier, all 16 slices, seed 1)"
  echo
  echo "Measured by \`coverage.sh\` ($(date -u +%Y-%m-%d)) on /repo $(git -C /repo rev-parse --short HEAD): nightly \`-C instrument-coverage\`, \`llvm-cov report\`."
  echo "A measurement of validation density for the hand-written model — not a check, not a proof."
  echo
  echo '```'
  $N/llvm-cov report $S/target/debug/harness -instr-profile=$S/all.profdata --ignore-filename-regex='vendor|harness/src|rustc|rustlib' 2>/dev/null | sed "s#tmp/cov/repo/src/##" | grep -v "^root/\|^Files which" | sed "s/   */  /g; s/^--*$/---/"
  echo '```'
  echo
  echo "## Lines never executed (outside the Display impls)"
  echo
  echo '```'
  $N/llvm-cov show $S/target/debug/harness -instr-profile=$S/all.profdata --ignore-filename-regex='vendor|harness/src|rustc|rustlib' 2>/dev/null | python3 -c "
import re,sys
cur=None
for l in sys.stdin:
    if l.startswith('$S/repo/src') and l.rstrip().endswith(':'):
        cur=l.strip().replace('$S/repo/src/','').rstrip(':'); continue
    m=re.match(r'\s*(\d+)\|\s*0\|(.*)',l)
    if m and cur and 'display.rs' not in cur:
        print('%-48s %5s %s' % (cur, m.group(1), m.group(2).rstrip()[:100]))
"
  echo '```'
} > $V/notes/coverage.md
rm -rf $S
echo "wrote $V/notes/coverage.md"
