#!/usr/bin/env python3
"""sync_fingerprints.py — after the set of TRANSLATED functions grew (translate_fn.py), drop their entries from
Spec/Fingerprints.lean.  Refuses to change the hash of any entry that stays: that would be a statement that the model
was re-validated against new text, which only a human edit of Spec/Fingerprints.lean may make."""
import re, sys, os
ROOT = os.path.dirname(os.path.abspath(__file__))
spec = os.path.join(ROOT, "lean/EvalexprVerif/Spec/Fingerprints.lean")
s = open(spec).read()
for g in re.findall(r"def fp(\w+) : List Nat", s):
    gen = open(os.path.join(ROOT, f"lean/EvalexprVerif/Generated/Fp{g}.lean")).read()
    m = re.search(r"def fp" + g + r" : List Nat := \[(.*?)\]\n", gen, re.S)
    m2 = re.search(r"def fp" + g + r" : List Nat := \[(.*?)\]\n", s, re.S)
    body, old = m.group(1), m2.group(1)
    oldmap = dict((n, h) for h, n in re.findall(r"0x([0-9a-f]+)\s+/- (.*?) -/", old))
    newmap = dict((n, h) for h, n in re.findall(r"0x([0-9a-f]+)\s+/- (.*?) -/", body))
    for n, h in newmap.items():
        if oldmap.get(n) != h:
            sys.exit(f"refusing: {g}: entry {n} would change ({oldmap.get(n)} -> {h})")
    if len(oldmap) != len(newmap):
        print(g, len(oldmap), "->", len(newmap))
    s = s[:m2.start(1)] + body + s[m2.end(1):]
open(spec, "w").write(s)
