def hello := "world"
