/-
Spec/RefBuiltin.lean — what the README's function table says each builtin returns (property C10).
Written from the documentation: name ↦ reference outcome for an argument value.
Unclaimed points (`shl`/`shr` by an amount outside 0..63, `min`/`max` with a NaN among the
arguments) are `any`.
-/
import EvalexprVerif.Model.Builtin

namespace Evalexpr.Spec

inductive BuiltinRef where
  | value (v : Value)               -- exactly this value
  | error                           -- an error, never a value
  | any                             -- not claimed
  | smallestOf (args : List Value)  -- an argument that is numerically smallest, keeping its type
  | largestOf (args : List Value)

/-- argument converted to float, as documented for the math functions -/
def num? : Value → Option Float
  | .int i => some i.toFloat
  | .float f => some f
  | _ => none

def math1 (f : Float → Float) (arg : Value) : BuiltinRef :=
  match num? arg with
  | some x => .value (.float (f x))
  | none => .error

/-- two-argument math functions take a 2-tuple `(a, b)` -/
def math2 (f : Float → Float → Float) (arg : Value) : BuiltinRef :=
  match arg with
  | .tuple [a, b] =>
    match num? a, num? b with
    | some x, some y => .value (.float (f x y))
    | _, _ => .error
  | _ => .error

def pred1 (f : Float → Bool) (arg : Value) : BuiltinRef :=
  match num? arg with
  | some x => .value (.boolean (f x))
  | none => .error

def int2 (f : Int64 → Int64 → BuiltinRef) (arg : Value) : BuiltinRef :=
  match arg with
  | .tuple [.int a, .int b] => f a b
  | _ => .error

def isNum : Value → Bool
  | .int _ | .float _ => true
  | _ => false

def hasNaN (vs : List Value) : Bool :=
  vs.any fun v => match v with | .float f => f.isNaN | _ => false

/-- `min`/`max` of one or more numbers -/
def extremum (mk : List Value → BuiltinRef) (arg : Value) : BuiltinRef :=
  let args : List Value := match arg with
    | .tuple t => t
    | .empty => []
    | v => [v]
  if args.isEmpty then .error
  else if !args.all isNum then .error
  else if hasNaN args then .any
  else mk args

def scalar : Value → Bool
  | .string _ | .int _ | .float _ | .boolean _ => true
  | _ => false

def typeName : Value → Str
  | .string _ => cl!"string" | .float _ => cl!"float" | .int _ => cl!"int"
  | .boolean _ => cl!"boolean" | .tuple _ => cl!"tuple" | .empty => cl!"empty"

/-- substring by the same unit `len` uses (UTF-8 bytes): the characters whose byte offsets lie in
`[start, end)`, provided both offsets are character boundaries -/
def byteOffsets : Str → Nat → List Nat
  | [], n => [n]
  | c :: cs, n => n :: byteOffsets cs (n + c.utf8Size)

def substringRef (s : Str) (start stop : Nat) : BuiltinRef :=
  let offs := byteOffsets s 0
  if start ≤ stop && offs.contains start && offs.contains stop then
    let chars := (s.zip offs).filter (fun (_, o) => start ≤ o && o < stop)
    .value (.string (chars.map (·.1)))
  else .error

/-- two's-complement shift semantics for amounts 0..63 -/
def shlRef (a k : Int64) : BuiltinRef :=
  if 0 ≤ k.toInt && k.toInt ≤ 63 then
    .value (.int (Int64.ofInt (a.toInt * 2 ^ k.toInt.toNat)))   -- wrapped to 64 bits
  else .any
def shrRef (a k : Int64) : BuiltinRef :=
  if 0 ≤ k.toInt && k.toInt ≤ 63 then
    .value (.int (Int64.ofInt (a.toInt / 2 ^ k.toInt.toNat)))   -- floor division (arithmetic shift)
  else .any

def refBuiltin (b : Builtin) (arg : Value) : BuiltinRef :=
  match b with
  | .ln => math1 Float.log arg
  | .log => math2 (fun x base => Float.log x / Float.log base) arg
  | .log2 => math1 Float.log2 arg
  | .log10 => math1 Float.log10 arg
  | .exp => math1 Float.exp arg
  | .exp2 => math1 Float.exp2 arg
  | .pow => math2 Float.pow arg
  | .cos => math1 Float.cos arg
  | .acos => math1 Float.acos arg
  | .cosh => math1 Float.cosh arg
  | .acosh => math1 F64.acosh arg
  | .sin => math1 Float.sin arg
  | .asin => math1 Float.asin arg
  | .sinh => math1 Float.sinh arg
  | .asinh => math1 F64.asinh arg
  | .tan => math1 Float.tan arg
  | .atan => math1 Float.atan arg
  | .tanh => math1 Float.tanh arg
  | .atanh => math1 F64.atanh arg
  | .atan2 => math2 Float.atan2 arg
  | .sqrt => math1 Float.sqrt arg
  | .cbrt => math1 Float.cbrt arg
  | .hypot => math2 F64.hypot arg
  | .floor => math1 Float.floor arg
  | .round => math1 Float.round arg
  | .ceil => math1 Float.ceil arg
  -- the IEEE-754 classes, read off the bit pattern (std's `f64::is_*`, modelled in Model/F64)
  | .isNan => pred1 F64.isNaN arg
  | .isFinite => pred1 F64.isFinite arg
  | .isInfinite => pred1 F64.isInfinite arg
  | .isNormal => pred1 F64.isNormal arg
  | .abs =>
    match arg with
    | .float f => .value (.float f.abs)
    | .int i => if i.toInt == -2 ^ 63 then .error else .value (.int (Int64.ofInt i.toInt.natAbs))
    | _ => .error
  | .typeof => .value (.string (typeName arg))
  | .min => extremum .smallestOf arg
  | .max => extremum .largestOf arg
  | .if_ =>
    match arg with
    | .tuple [.boolean c, a, b] => .value (if c then a else b)
    | _ => .error
  | .contains =>
    match arg with
    | .tuple [.tuple t, v] => if scalar v then .value (.boolean (t.any (Value.beq · v))) else .error
    | _ => .error
  | .containsAny =>
    match arg with
    | .tuple [.tuple t, .tuple vs] =>
      if vs.all scalar then .value (.boolean (vs.any fun v => t.any (Value.beq · v))) else .error
    | _ => .error
  | .len =>
    match arg with
    | .string s => .value (.int (Int64.ofNat ((byteOffsets s 0).getLast?.getD 0)))
    | .tuple t => .value (.int (Int64.ofNat t.length))
    | _ => .error
  | .strToLowercase =>
    match arg with | .string s => .value (.string (strToLower s)) | _ => .error
  | .strToUppercase =>
    match arg with | .string s => .value (.string (strToUpper s)) | _ => .error
  | .strTrim =>
    match arg with
    | .string s => .value (.string ((s.dropWhile isWhitespace).reverse.dropWhile isWhitespace).reverse)
    | _ => .error
  | .strFrom => .value (.string arg.strFrom)
  | .strSubstring =>
    match arg with
    | .tuple [.string s, .int a] =>
      if a.toInt < 0 then .error else substringRef s a.toInt.toNat ((byteOffsets s 0).getLast?.getD 0)
    | .tuple [.string s, .int a, .int b] =>
      if a.toInt < 0 || b.toInt < 0 then .error else substringRef s a.toInt.toNat b.toInt.toNat
    | _ => .error
  | .bitand => int2 (fun a b => .value (.int (a &&& b))) arg
  | .bitor => int2 (fun a b => .value (.int (a ||| b))) arg
  | .bitxor => int2 (fun a b => .value (.int (a ^^^ b))) arg
  | .bitnot => match arg with | .int a => .value (.int (~~~a)) | _ => .error
  | .shl => int2 shlRef arg
  | .shr => int2 shrRef arg

/-- the language's own `<=` on numbers: integers exactly, otherwise after promotion to double -/
def numLe : Value → Value → Bool
  | .int a, .int b => a.toInt ≤ b.toInt
  | a, b => match num? a, num? b with
    | some x, some y => x ≤ y
    | _, _ => false

/-- a builtin's result meets the documented outcome -/
def MeetsB (r : Res Value) : BuiltinRef → Prop
  | .value v => r = .ok v
  | .error => ∃ e, r = .error e ∧ e.isPanic = false
  | .any => ∀ e, r = .error e → e.isPanic = false
  | .smallestOf args => ∃ v, r = .ok v ∧ v ∈ args ∧ ∀ a ∈ args, numLe v a = true
  | .largestOf args => ∃ v, r = .ok v ∧ v ∈ args ∧ ∀ a ∈ args, numLe a v = true

end Evalexpr.Spec
