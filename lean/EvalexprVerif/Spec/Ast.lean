/-
Spec/Ast.lean — expression ASTs, the documented precedence table, and the canonical renderer of
property C02: an AST is rendered to tokens with exactly the parentheses the README's precedence
table requires (plus the redundant ones the AST carries as `paren`), and `toTree` is the operator
tree the documentation promises for it. Written from the README, not from the tree builder.
-/
import EvalexprVerif.Spec.RefArith

namespace Evalexpr.Spec

/-- the nine assignment operators -/
inductive AssignOp where
  | assign | add | sub | mul | div | mod | exp | and | or
  deriving DecidableEq, Repr, Inhabited

/-- literal tokens -/
inductive Lit where
  | int (i : Int64) | float (f : Float) | boolean (b : Bool) | string (s : Str)
  deriving Inhabited

/-- infix expressions over the 14 binary, 2 prefix and 9 assignment operators, function
application, literals, variables and parentheses -/
inductive Expr where
  | lit (l : Lit)
  | var (x : Str)
  | call (f : Str) (arg : Expr)
  | neg (e : Expr)
  | not (e : Expr)
  | bin (op : BinOp) (l r : Expr)
  | assign (op : AssignOp) (x : Str) (rhs : Expr)
  | paren (e : Expr)          -- a redundant pair of parentheses
  deriving Inhabited

/-- README: "Supported binary operators" precedence column -/
def BinOp.docPrec : BinOp → Nat
  | .exp => 120
  | .mul | .div | .mod => 100
  | .add | .sub => 95
  | .lt | .gt | .leq | .geq | .eq | .neq => 80
  | .and => 75
  | .or => 70

/-- README: unary `-` and `!` have precedence 110; assignments 50 -/
def unaryPrec : Nat := 110
def assignPrec : Nat := 50

def BinOp.token : BinOp → Token
  | .add => .plus | .sub => .minus | .mul => .star | .div => .slash | .mod => .percent
  | .exp => .hat | .eq => .eq | .neq => .neq | .gt => .gt | .lt => .lt | .geq => .geq
  | .leq => .leq | .and => .and | .or => .or

def AssignOp.token : AssignOp → Token
  | .assign => .assign | .add => .plusAssign | .sub => .minusAssign | .mul => .starAssign
  | .div => .slashAssign | .mod => .percentAssign | .exp => .hatAssign | .and => .andAssign
  | .or => .orAssign

def AssignOp.toOperator : AssignOp → Operator
  | .assign => .assign | .add => .addAssign | .sub => .subAssign | .mul => .mulAssign
  | .div => .divAssign | .mod => .modAssign | .exp => .expAssign | .and => .andAssign
  | .or => .orAssign

def Lit.token : Lit → Token
  | .int i => .int i | .float f => .float f | .boolean b => .boolean b | .string s => .string s

def Lit.value : Lit → Value
  | .int i => .int i | .float f => .float f | .boolean b => .boolean b | .string s => .string s

/-- the binding strength of the head of an expression; `none` = an atom (literal, variable, call,
parenthesised group), which never needs parentheses -/
def Expr.headPrec : Expr → Option Nat
  | .lit _ | .var _ | .call _ _ | .paren _ => none
  | .neg _ | .not _ => some unaryPrec
  | .bin op _ _ => some op.docPrec
  | .assign _ _ _ => some assignPrec

def precLt (child : Option Nat) (p : Nat) : Bool :=
  match child with | none => false | some c => c < p
def precLe (child : Option Nat) (p : Nat) : Bool :=
  match child with | none => false | some c => c ≤ p

/-- a left operand needs parentheses iff it binds weaker than the operator
(equal precedence groups left-to-right) -/
def needsParenLeft (op : BinOp) (l : Expr) : Bool := precLt l.headPrec op.docPrec
/-- a right operand needs them iff it does not bind tighter -/
def needsParenRight (op : BinOp) (r : Expr) : Bool := precLe r.headPrec op.docPrec
/-- the operand of a prefix operator needs them iff it binds weaker than the prefix operator
(`^` binds tighter: `-a^b` is `-(a^b)`) -/
def needsParenUnary (e : Expr) : Bool := precLt e.headPrec unaryPrec
/-- the right-hand side of an assignment: only another assignment can bind as weakly; `=` groups
right-to-left with `=`, every other combination needs parentheses -/
def needsParenRhs (op : AssignOp) (rhs : Expr) : Bool :=
  match rhs with
  | .assign op' _ _ => !(op == .assign && op' == .assign)
  | _ => false
/-- the argument of a function application is written bare only if it is a single operand -/
def needsParenArg (arg : Expr) : Bool := arg.headPrec.isSome

def wrap (b : Bool) (ts : List Token) : List Token :=
  if b then .lBrace :: ts ++ [.rBrace] else ts

/-- canonical token rendering -/
def render : Expr → List Token
  | .lit l => [l.token]
  | .var x => [.identifier x]
  | .call f a => .identifier f :: wrap (needsParenArg a) (render a)
  | .neg e => .minus :: wrap (needsParenUnary e) (render e)
  | .not e => .not :: wrap (needsParenUnary e) (render e)
  | .bin op l r =>
    wrap (needsParenLeft op l) (render l) ++ op.token :: wrap (needsParenRight op r) (render r)
  | .assign op x rhs => .identifier x :: op.token :: wrap (needsParenRhs op rhs) (render rhs)
  | .paren e => .lBrace :: render e ++ [.rBrace]

def wrapTree (b : Bool) (n : Node) : Node := if b then ⟨.rootNode, [n]⟩ else n

/-- the operator tree the documentation promises, with a `RootNode` for every pair of parentheses
in the rendering -/
def toTree : Expr → Node
  | .lit l => ⟨.const l.value, []⟩
  | .var x => ⟨.varRead x, []⟩
  | .call f a => ⟨.fn f, [wrapTree (needsParenArg a) (toTree a)]⟩
  | .neg e => ⟨.neg, [wrapTree (needsParenUnary e) (toTree e)]⟩
  | .not e => ⟨.not, [wrapTree (needsParenUnary e) (toTree e)]⟩
  | .bin op l r =>
    ⟨op.toOperator, [wrapTree (needsParenLeft op l) (toTree l), wrapTree (needsParenRight op r) (toTree r)]⟩
  | .assign op x rhs =>
    ⟨op.toOperator, [⟨.varWrite x, []⟩, wrapTree (needsParenRhs op rhs) (toTree rhs)]⟩
  | .paren e => ⟨.rootNode, [toTree e]⟩

mutual
/-- parenthesis wrapper nodes ignored -/
def stripRoots : Node → Node
  | ⟨op, cs⟩ =>
    match op, stripRootsList cs with
    | .rootNode, [c] => c
    | op, cs' => ⟨op, cs'⟩
def stripRootsList : List Node → List Node
  | [] => []
  | c :: cs => stripRoots c :: stripRootsList cs
end

/-- the AST itself as a tree (no parenthesis nodes at all) -/
def toAstTree : Expr → Node
  | .lit l => ⟨.const l.value, []⟩
  | .var x => ⟨.varRead x, []⟩
  | .call f a => ⟨.fn f, [toAstTree a]⟩
  | .neg e => ⟨.neg, [toAstTree e]⟩
  | .not e => ⟨.not, [toAstTree e]⟩
  | .bin op l r => ⟨op.toOperator, [toAstTree l, toAstTree r]⟩
  | .assign op x rhs => ⟨op.toOperator, [⟨.varWrite x, []⟩, toAstTree rhs]⟩
  | .paren e => toAstTree e

/-- `f x op y`: a function application standing left of an assignment operator (tokens) -/
def callAssignTokens (op : AssignOp) : List Token :=
  [.identifier cl!"f", .identifier cl!"x", op.token, .identifier cl!"y"]
/-- what "function application binds tighter than any operator" promises for it: the assignment's
left operand is the whole application -/
def callAssignTree (op : AssignOp) : Node :=
  ⟨.rootNode, [⟨op.toOperator, [⟨.fn cl!"f", [⟨.varWrite cl!"x", []⟩]⟩, ⟨.varRead cl!"y", []⟩]⟩]⟩
/-- `a = f x = y` -/
def chainCallAssignTokens : List Token :=
  [.identifier cl!"a", .assign, .identifier cl!"f", .identifier cl!"x", .assign, .identifier cl!"y"]
def chainCallAssignTree : Node :=
  ⟨.rootNode, [⟨.assign, [⟨.varWrite cl!"a", []⟩,
    ⟨.assign, [⟨.fn cl!"f", [⟨.varWrite cl!"x", []⟩]⟩, ⟨.varRead cl!"y", []⟩]⟩]⟩]⟩

end Evalexpr.Spec
