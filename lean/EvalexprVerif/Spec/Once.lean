/-
Spec/Once.lean — the vocabulary of the counting form of property C08 ("exactly once").

A *user-function application site* of a tree, for a context `c`, is a node whose operator is
`.fn id` with `c.userFn id = some _`. `callSites c n` lists the identifiers of these nodes in
post-order (children left to right, then the node itself): the order in which applications complete.
`fnCalls c n` counts them. `nodeSize` counts all nodes, `evalMutCount` is the mutable evaluator
instrumented with a counter of `Operator.evalMut` invocations.
-/
import EvalexprVerif.Model.Eval

namespace Evalexpr.Spec
open Evalexpr

/-- the names recorded in a call log, in call order -/
def logNames (l : List (Str × Value)) : List Str := l.map (·.1)

/-- the contribution of one operator to the list of application sites: `[id]` for a function node
whose identifier the context defines, nothing otherwise (a builtin call is not logged) -/
def opSite (c : Ctx) : Operator → List Str
  | .fn id => if (c.userFn id).isSome then [id] else []
  | _ => []

mutual
/-- identifiers of the user-function application nodes of a tree, in post-order -/
def callSites (c : Ctx) : Node → List Str
  | ⟨op, cs⟩ => callSitesList c cs ++ opSite c op
def callSitesList (c : Ctx) : List Node → List Str
  | [] => []
  | n :: ns => callSites c n ++ callSitesList c ns
end

mutual
/-- the number of user-function application nodes of a tree -/
def fnCalls (c : Ctx) : Node → Nat
  | ⟨op, cs⟩ => fnCallsList c cs + (opSite c op).length
def fnCallsList (c : Ctx) : List Node → Nat
  | [] => 0
  | n :: ns => fnCalls c n + fnCallsList c ns
end

mutual
/-- the number of nodes of a tree -/
def nodeSize : Node → Nat
  | ⟨_, cs⟩ => nodeSizeList cs + 1
def nodeSizeList : List Node → Nat
  | [] => 0
  | n :: ns => nodeSize n + nodeSizeList ns
end

mutual
/-- `Node.evalMut` with a counter: the third component is the number of times `Operator.evalMut`
was invoked -/
def evalMutCount : Node → St → Res Value × St × Nat
  | ⟨op, cs⟩, s =>
    match evalMutCountList cs s with
    | (.error e, s, k) => (.error e, s, k)
    | (.ok args, s, k) => ((op.evalMut args s).1, (op.evalMut args s).2, k + 1)
def evalMutCountList : List Node → St → Res (List Value) × St × Nat
  | [], s => (.ok [], s, 0)
  | c :: cs, s =>
    match evalMutCount c s with
    | (.error e, s, k) => (.error e, s, k)
    | (.ok v, s, k) =>
      match evalMutCountList cs s with
      | (.error e, s, k') => (.error e, s, k + k')
      | (.ok vs, s, k') => (.ok (v :: vs), s, k + k')
end

end Evalexpr.Spec
