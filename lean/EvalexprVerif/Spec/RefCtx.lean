/-
Spec/RefCtx.lean — the abstract map model of property C04: a context is a partial function from
names to values (plus functions and the builtin switch); the type rule is stated once.
-/
import EvalexprVerif.Model.Eval

namespace Evalexpr.Spec

structure RefCtx where
  vars : Str → Option Value
  funs : Str → Option UserFn
  noBuiltins : Bool

def RefCtx.empty : RefCtx := ⟨fun _ => none, fun _ => none, false⟩

/-- the one type rule: a bound name keeps the type of its current value -/
def RefCtx.setValue (c : RefCtx) (id : Str) (v : Value) : Res RefCtx :=
  match c.vars id with
  | some old =>
    if old.type = v.type then .ok { c with vars := fun k => if k = id then some v else c.vars k }
    else .error (Err.expectedType old v)
  | none => .ok { c with vars := fun k => if k = id then some v else c.vars k }

def RefCtx.setFunction (c : RefCtx) (id : Str) (f : UserFn) : RefCtx :=
  { c with funs := fun k => if k = id then some f else c.funs k }
def RefCtx.clearVariables (c : RefCtx) : RefCtx := { c with vars := fun _ => none }
def RefCtx.clearFunctions (c : RefCtx) : RefCtx := { c with funs := fun _ => none }
def RefCtx.clear (c : RefCtx) : RefCtx := c.clearVariables.clearFunctions
def RefCtx.setBuiltinsDisabled (c : RefCtx) (d : Bool) : RefCtx := { c with noBuiltins := d }

/-- abstraction: the association lists read as partial functions -/
def absCtx (h : HashMapCtx) : RefCtx :=
  ⟨fun k => alookup k h.vars, fun k => alookup k h.funs, h.noBuiltins⟩

/-- keys of an association list are pairwise distinct -/
def keysNodup {β : Type} : List (Str × β) → Prop
  | [] => True
  | (k, _) :: rest => (∀ p ∈ rest, p.1 ≠ k) ∧ keysNodup rest

/-- the representation invariant of `HashMapCtx` -/
def HashMapCtx.Inv (h : HashMapCtx) : Prop := keysNodup h.vars ∧ keysNodup h.funs

/-- two abstract contexts are observably equal -/
def RefCtx.Equiv (a b : RefCtx) : Prop :=
  (∀ k, a.vars k = b.vars k) ∧ (∀ k, a.funs k = b.funs k) ∧ a.noBuiltins = b.noBuiltins

end Evalexpr.Spec

namespace Evalexpr.Spec

/-- the context operations of property C04 (API calls and expression assignments) -/
inductive CtxOp where
  | setValue (id : Str) (v : Value)                  -- `set_value`
  | assign (id : Str) (v : Value)                    -- the expression `id = v`
  | opAssign (op : Operator) (id : Str) (v : Value)  -- the expression `id op= v`, `op` one of the 8 op-assign operators
  | setFunction (id : Str) (f : UserFn)
  | clearVariables | clearFunctions | clear
  | setBuiltinsDisabled (d : Bool)

/-- what an operation returns, as far as the property observes it -/
abbrev Obs := Res Unit

def obsOf {α} : Res α → Obs
  | .ok _ => .ok ()
  | .error e => .error e

/-- the abstract map model: one transition per operation. `x op= v` reads `x` (unknown-variable
error if unbound), applies the plain operator to (old, v), and assigns the result under the type
rule; any error leaves the context unchanged. Function calls inside these operands do not occur
(the operands are values). -/
def specStep (c : RefCtx) : CtxOp → Obs × RefCtx
  | .setValue id v | .assign id v =>
    match c.setValue id v with
    | .ok c' => (.ok (), c')
    | .error e => (.error e, c)
  | .opAssign op id v =>
    match c.vars id with
    | none => (.error (.variableIdentifierNotFound id), c)
    | some old =>
      match op.assignBase with
      | none => (.error (.panic cl!"eval_mut: unreachable!()"), c)
      | some base =>
        match base.evalPure [old, v] with
        | .error e => (.error e, c)
        | .ok r =>
          match c.setValue id r with
          | .ok c' => (.ok (), c')
          | .error e => (.error e, c)
  | .setFunction id f => (.ok (), c.setFunction id f)
  | .clearVariables => (.ok (), c.clearVariables)
  | .clearFunctions => (.ok (), c.clearFunctions)
  | .clear => (.ok (), c.clear)
  | .setBuiltinsDisabled d => (.ok (), c.setBuiltinsDisabled d)

/-- the same operation on the model's `HashMapContext` (expression assignments go through the
evaluator's `Operator::eval_mut`) -/
def modelStep (h : HashMapCtx) : CtxOp → Obs × HashMapCtx
  | .setValue id v =>
    match h.setValue id v with
    | .ok h' => (.ok (), h')
    | .error e => (.error e, h)
  | .assign id v =>
    match Operator.evalMut .assign [.string id, v] ⟨.hashMap h, []⟩ with
    | (r, ⟨.hashMap h', _⟩) => (obsOf r, h')
    | (r, _) => (obsOf r, h)
  | .opAssign op id v =>
    match Operator.evalMut op [.string id, v] ⟨.hashMap h, []⟩ with
    | (r, ⟨.hashMap h', _⟩) => (obsOf r, h')
    | (r, _) => (obsOf r, h)
  | .setFunction id f => (.ok (), { h with funs := ainsert id f h.funs })
  | .clearVariables => (.ok (), h.clearVariables)
  | .clearFunctions => (.ok (), h.clearFunctions)
  | .clear => (.ok (), h.clear)
  | .setBuiltinsDisabled d => (.ok (), { h with noBuiltins := d })

def isOpAssign : Operator → Bool
  | .addAssign | .subAssign | .mulAssign | .divAssign | .modAssign | .expAssign | .andAssign
  | .orAssign => true
  | _ => false

def CtxOp.wf : CtxOp → Bool
  | .opAssign op _ _ => isOpAssign op
  | _ => true

end Evalexpr.Spec
