/-
Spec/SmallStep.lean — a small-step abstract machine for read-only evaluation
(`Node::eval_with_context`, model function `Node.evalRO`) and the concurrent system built from it.

Purpose (C15): the big-step model function evaluates a whole tree atomically, so a statement about
it can only speak about schedules of WHOLE evaluations. The machine below cuts one evaluation into
steps such that every step performs AT MOST ONE access to the shared context, and that access is a
READ (`Access`: `get_value`, `call_function`'s lookup of the user function,
`are_builtin_functions_disabled` — the three `&self` methods `Operator::eval` calls on the context).
Everything else a step does is thread-local: it moves the control stack, applies a context-free
operator, executes a user function (an opaque pure function `Value → Res Value`; executing it is one
step and appends to the thread's OWN call log), or runs the builtin switch.

That granularity is a fact about the definition, not a comment: `MState.pending` — the function that
says what the next step of a state is — does not take the context at all. It answers either
`local st'` (the successor is already determined) or `read q k` (ONE access `q`, and the successor is
`k` of the answer); `step c st` is `st'`, respectively `k (c.read q)`. The context is an input of
`step` only; by its type a step cannot change it.

Plain structural definitions; executable (`rfl` evaluates them, see the example in
`Spec/Properties/C15.lean`).
-/
import EvalexprVerif.Model.Eval

namespace Evalexpr.Machine
open Evalexpr

/-! ### one access to the shared context -/

/-- the reads `Operator::eval` performs on a context (all through `&self`) -/
inductive Access where
  /-- `Context::get_value(identifier)` -/
  | getValue (id : Str)
  /-- the lookup inside `Context::call_function(identifier, _)`: which user function, if any -/
  | userFn (id : Str)
  /-- `Context::are_builtin_functions_disabled()` -/
  | builtinsDisabled

/-- the type of the answer to an access -/
def Access.Ans : Access → Type
  | .getValue _ => Option Value
  | .userFn _ => Option UserFn
  | .builtinsDisabled => Bool

/-- performing ONE access on the shared context -/
def read (c : Ctx) : (q : Access) → q.Ans
  | .getValue id => c.getValue id
  | .userFn id => c.userFn id
  | .builtinsDisabled => c.builtinsDisabled

/-! ### machine states -/

/-- a suspended operator node: the operator, the values of the children evaluated so far (in
evaluation order), the children still to evaluate. Pushed when the machine descends into a child,
popped when the child returns (or when an error unwinds through it). -/
structure Frame where
  op : Operator
  done : List Value
  todo : List Node

/-- what the thread is doing right now -/
inductive Focus where
  /-- about to evaluate the node `n` -/
  | enter (n : Node)
  /-- inside the `for child in self.children()` loop of an `op` node: `done` are the argument
  values computed so far, `todo` the remaining children -/
  | kids (op : Operator) (done : List Value) (todo : List Node)
  /-- all children are evaluated: `op.eval(&arguments, context)` is next -/
  | apply (op : Operator) (args : List Value)
  /-- the context's lookup found the user function `f`; executing it is next -/
  | call (id : Str) (arg : Value) (f : UserFn)
  /-- `context.call_function(id, arg)` has answered `r`; the match on `r` is next -/
  | fnRet (id : Str) (arg : Value) (r : Res Value)
  /-- builtins are enabled and the context did not know `id`: the builtin switch is next -/
  | builtin (id : Str) (arg : Value)
  /-- a node has evaluated to `v`; `v` is being returned to the suspended parent -/
  | ret (v : Value)
  /-- `?`: the error is propagating, one suspended frame per step -/
  | raise (e : Err)
  /-- the evaluation has returned `r` to its caller; terminal -/
  | finished (r : Res Value)

/-- the state of ONE thread: focus, control stack (innermost frame first) and the thread's own log
of user-function calls. The shared context is not part of it. -/
structure MState where
  focus : Focus
  stack : List Frame
  log : List (Str × Value)

/-- a result leaves the operator application -/
def ofRes : Res Value → Focus
  | .ok v => .ret v
  | .error e => .raise e

/-- the initial state of evaluating `n` with call log `log` -/
def init (n : Node) (log : List (Str × Value) := []) : MState := ⟨.enter n, [], log⟩

/-- what the next step is: thread-local, or exactly one context read with a continuation -/
inductive Pending where
  | local (st' : MState)
  | read (q : Access) (k : q.Ans → MState)

/-- `op.eval(args, context)` as steps: the two context-dependent arms read, the others are pure -/
def applyPending (K : List Frame) (log : List (Str × Value)) : Operator → List Value → Pending
  | .varRead id, [] =>
    .read (.getValue id) fun (o : Option Value) =>
      match o with
      | some v => ⟨.ret v, K, log⟩
      | none => ⟨.raise (.variableIdentifierNotFound id), K, log⟩
  | .varRead _, args => .local ⟨.raise (wrongArgs 0 args.length), K, log⟩
  | .fn id, [arg] =>
    .read (.userFn id) fun (o : Option UserFn) =>
      match o with
      | some f => ⟨.call id arg f, K, log⟩
      | none => ⟨.fnRet id arg (.error (.functionIdentifierNotFound id)), K, log⟩
  | .fn _, args => .local ⟨.raise (wrongArgs 1 args.length), K, log⟩
  | op, args => .local ⟨ofRes (op.evalPure args), K, log⟩

/-- the next step of a state. NOTE: no context argument. -/
def MState.pending : MState → Pending
  | ⟨.enter ⟨op, cs⟩, K, log⟩ => .local ⟨.kids op [] cs, K, log⟩
  | ⟨.kids op done [], K, log⟩ => .local ⟨.apply op done, K, log⟩
  | ⟨.kids op done (c :: cs), K, log⟩ => .local ⟨.enter c, ⟨op, done, cs⟩ :: K, log⟩
  | ⟨.apply op args, K, log⟩ => applyPending K log op args
  | ⟨.call id arg f, K, log⟩ => .local ⟨.fnRet id arg (f arg), K, log ++ [(id, arg)]⟩
  | ⟨.fnRet id arg (.error (.functionIdentifierNotFound x)), K, log⟩ =>
    .read .builtinsDisabled fun (disabled : Bool) =>
      if !disabled then ⟨.builtin id arg, K, log⟩
      else ⟨.raise (.functionIdentifierNotFound x), K, log⟩
  | ⟨.fnRet _ _ r, K, log⟩ => .local ⟨ofRes r, K, log⟩
  | ⟨.builtin id arg, K, log⟩ =>
    .local ⟨(match builtinFunction id with
      | some b => ofRes (b.call arg)
      | none => .raise (.functionIdentifierNotFound id)), K, log⟩
  | ⟨.ret v, ⟨op, done, todo⟩ :: K, log⟩ => .local ⟨.kids op (done ++ [v]) todo, K, log⟩
  | ⟨.ret v, [], log⟩ => .local ⟨.finished (.ok v), [], log⟩
  | ⟨.raise e, _ :: K, log⟩ => .local ⟨.raise e, K, log⟩
  | ⟨.raise e, [], log⟩ => .local ⟨.finished (.error e), [], log⟩
  | ⟨.finished r, K, log⟩ => .local ⟨.finished r, K, log⟩

/-- **one step** of a thread over the shared context `c`: at most one read of `c`. A finished
thread stutters. -/
def step (c : Ctx) (st : MState) : MState :=
  match st.pending with
  | .local st' => st'
  | .read q k => k (read c q)

/-- `k` steps -/
def run (c : Ctx) : Nat → MState → MState
  | 0, st => st
  | k + 1, st => run c k (step c st)

/-- the thread has returned -/
def MState.result? (st : MState) : Option (Res Value × List (Str × Value)) :=
  match st.focus with
  | .finished r => some (r, st.log)
  | _ => none

def MState.isFinished (st : MState) : Bool := st.result?.isSome

/-! ### step bound -/

mutual
/-- an upper bound for the number of steps from `enter n` to the matching `ret`/`raise`: one step
to enter, the children, at most four for the operator (`apply`, `call`, `fnRet`, `builtin`) -/
def cost : Node → Nat
  | ⟨_, cs⟩ => 1 + costList cs + 4
/-- the child loop: per child one step to descend and one to return (or unwind), one to leave -/
def costList : List Node → Nat
  | [] => 1
  | c :: cs => 1 + cost c + 1 + costList cs
end

/-- fuel that suffices for `n` (linear in the size of the tree); the `+ 1` is the final return -/
def bound (n : Node) : Nat := cost n + 1

/-! ### the concurrent system -/

/-- thread `i` moves; an out-of-range index is a no-op (and a finished thread stutters) -/
def stepThread (c : Ctx) : Nat → List MState → List MState
  | _, [] => []
  | 0, t :: ts => step c t :: ts
  | i + 1, t :: ts => t :: stepThread c i ts

/-- run a schedule — the list of thread indices in the order in which they move — over ONE shared
context. The context is a parameter, not part of the state: no schedule can change it. -/
def runSched (c : Ctx) : List Nat → List MState → List MState
  | [], sys => sys
  | i :: sched, sys => runSched c sched (stepThread c i sys)

/-- all threads start at their trees with empty logs -/
def initSys (ns : List Node) : List MState := ns.map (fun n => init n [])

/-- a schedule is fair enough for `ns` if it lets every thread move at least `bound` times -/
def FairFor (ns : List Node) (sched : List Nat) : Prop :=
  ∀ i n, ns[i]? = some n → bound n ≤ sched.count i

/-- round robin: `rounds` times the indices `0 … k-1` -/
def roundRobin (k rounds : Nat) : List Nat := (List.replicate rounds (List.range k)).flatten

end Evalexpr.Machine
