/-
Spec/AstLoose.lean — a second, more permissive renderer for property C02: like `render`, but a
prefix operator that is the right operand of `^` is written WITHOUT parentheses (`2 ^ -3`,
`a ^ --b`, `a ^ -f x`) — the everyday spelling, and the reading "prefix `-` and `!` bind tighter
than everything except `^`" — unless this would produce the shape the property excludes (the
documentation's two rules conflict there): a prefix operator as right operand of `^` whose own
operand is followed by `^`, i.e. unless the prefix chain's core is itself a `^` expression or the
whole operand is followed by `^` in the enclosing expression.
-/
import EvalexprVerif.Spec.Ast

namespace Evalexpr.Spec

def isPrefixExpr : Expr → Bool
  | .neg _ | .not _ => true
  | _ => false

/-- after stripping prefix operators, is the operand a `^` expression? -/
def prefixCoreIsExp : Expr → Bool
  | .neg e | .not e => prefixCoreIsExp e
  | .bin .exp _ _ => true
  | _ => false

def isExpOp : BinOp → Bool
  | .exp => true
  | _ => false

/-- right operand of `op`, in a position that is followed by `^` iff `nextIsExp` -/
def needsParenRightL (op : BinOp) (r : Expr) (nextIsExp : Bool) : Bool :=
  if isExpOp op && isPrefixExpr r && !prefixCoreIsExp r && !nextIsExp then false
  else needsParenRight op r

/-- loose rendering; `nextIsExp`: the token following this expression is `^` -/
def renderL : Expr → Bool → List Token
  | .lit l, _ => [l.token]
  | .var x, _ => [.identifier x]
  | .call f a, nx =>
    .identifier f :: (if needsParenArg a then .lBrace :: renderL a false ++ [.rBrace] else renderL a nx)
  | .neg e, nx =>
    .minus :: (if needsParenUnary e then .lBrace :: renderL e false ++ [.rBrace] else renderL e nx)
  | .not e, nx =>
    .not :: (if needsParenUnary e then .lBrace :: renderL e false ++ [.rBrace] else renderL e nx)
  | .bin op l r, nx =>
    (if needsParenLeft op l then .lBrace :: renderL l false ++ [.rBrace] else renderL l (isExpOp op)) ++
      op.token ::
      (if needsParenRightL op r nx then .lBrace :: renderL r false ++ [.rBrace] else renderL r nx)
  | .assign op x rhs, nx =>
    .identifier x :: op.token ::
      (if needsParenRhs op rhs then .lBrace :: renderL rhs false ++ [.rBrace] else renderL rhs nx)
  | .paren e, _ => .lBrace :: renderL e false ++ [.rBrace]

/-- the promised tree for the loose rendering (a `RootNode` per pair of parentheses written) -/
def toTreeL : Expr → Bool → Node
  | .lit l, _ => ⟨.const l.value, []⟩
  | .var x, _ => ⟨.varRead x, []⟩
  | .call f a, nx =>
    ⟨.fn f, [if needsParenArg a then ⟨.rootNode, [toTreeL a false]⟩ else toTreeL a nx]⟩
  | .neg e, nx =>
    ⟨.neg, [if needsParenUnary e then ⟨.rootNode, [toTreeL e false]⟩ else toTreeL e nx]⟩
  | .not e, nx =>
    ⟨.not, [if needsParenUnary e then ⟨.rootNode, [toTreeL e false]⟩ else toTreeL e nx]⟩
  | .bin op l r, nx =>
    ⟨op.toOperator,
      [if needsParenLeft op l then ⟨.rootNode, [toTreeL l false]⟩ else toTreeL l (isExpOp op),
       if needsParenRightL op r nx then ⟨.rootNode, [toTreeL r false]⟩ else toTreeL r nx]⟩
  | .assign op x rhs, nx =>
    ⟨op.toOperator, [⟨.varWrite x, []⟩,
      if needsParenRhs op rhs then ⟨.rootNode, [toTreeL rhs false]⟩ else toTreeL rhs nx]⟩
  | .paren e, _ => ⟨.rootNode, [toTreeL e false]⟩

end Evalexpr.Spec
