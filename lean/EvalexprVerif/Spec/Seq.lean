/-
Spec/Seq.lean — sequences of property C05: `,` aggregates, `;` sequences, the tuple operator binds
tighter than the chain operator, further nesting only through parentheses, an absent element is the
empty value. A level (the whole input, or the inside of a pair of parentheses) is a chain (by `;`)
of tuples (by `,`) of optional operands; an operand is an expression of Spec/Ast or a parenthesised
level. Written from the README sections on the aggregation and chaining operators.
-/
import EvalexprVerif.Spec.Ast

namespace Evalexpr.Spec

inductive Operand where
  | expr (e : Expr)
  | group (members : List (List (Option Operand)))   -- `( … ; … )`
  deriving Inhabited

abbrev Member := List (Option Operand)
abbrev Level := List Member

def intercalateTok (sep : Token) : List (List Token) → List Token
  | [] => []
  | [x] => x
  | x :: y :: rest => x ++ sep :: intercalateTok sep (y :: rest)

mutual
def renderOperand : Operand → List Token
  | .expr e => render e
  | .group ms => .lBrace :: renderLevelAux ms ++ [.rBrace]
def renderOpt : Option Operand → List Token
  | none => []
  | some o => renderOperand o
/-- elements of one member, separated by `,` -/
def renderMemberAux : List (Option Operand) → List Token
  | [] => []
  | [x] => renderOpt x
  | x :: y :: rest => renderOpt x ++ .comma :: renderMemberAux (y :: rest)
/-- members of one level, separated by `;` -/
def renderLevelAux : List (List (Option Operand)) → List Token
  | [] => []
  | [m] => renderMemberAux m
  | m :: m' :: rest => renderMemberAux m ++ .semicolon :: renderLevelAux (m' :: rest)
end

def renderLevel (l : Level) : List Token := renderLevelAux l

def rootOf (children : List Node) : Node := ⟨.rootNode, children⟩

mutual
/-- the tree of an operand in expression position -/
def operandTree : Operand → Node
  | .expr e => toTree e
  | .group ms => levelTreeAux ms
/-- every element of a sequence sits under its own root node; an absent element is an empty root -/
def elemTree : Option Operand → Node
  | none => rootOf []
  | some o => rootOf [operandTree o]
def elemTrees : List (Option Operand) → List Node
  | [] => []
  | x :: rest => elemTree x :: elemTrees rest
/-- a member of a chain: a single element, or the tuple of its elements -/
def memberTree : List (Option Operand) → Node
  | [] => rootOf []
  | [x] => elemTree x
  | x :: y :: rest => ⟨.tuple, elemTree x :: elemTrees (y :: rest)⟩
def memberTrees : List (List (Option Operand)) → List Node
  | [] => []
  | m :: rest => memberTree m :: memberTrees rest
/-- the root node of a level: no separator → the element itself; only `,` → a tuple;
any `;` → a chain of members -/
def levelTreeAux : List (List (Option Operand)) → Node
  | [] => rootOf []
  | [[]] => rootOf []
  | [[x]] => elemTree x
  | [m] => rootOf [memberTree m]
  | m :: m' :: rest => rootOf [⟨.chain, memberTree m :: memberTrees (m' :: rest)⟩]
end

def levelTree (l : Level) : Node := levelTreeAux l

mutual
/-- well-formedness: every member has at least one (possibly absent) element, every level at least
one member -/
def Operand.wf : Operand → Bool
  | .expr _ => true
  | .group ms => levelWf ms
def optWf : Option Operand → Bool
  | none => true
  | some o => o.wf
def memberWf : List (Option Operand) → Bool
  | [] => false
  | [x] => optWf x
  | x :: y :: rest => optWf x && memberWf (y :: rest)
def levelWf : List (List (Option Operand)) → Bool
  | [] => false
  | [m] => memberWf m
  | m :: m' :: rest => memberWf m && levelWf (m' :: rest)
end

end Evalexpr.Spec
