/-
Spec/Tables.lean — the expected tables, written down by hand from the documentation (README function
table, the `Context` documentation, the serde section) and from the audited reading of the source.
`Proofs/Agree*.lean` prove that the tables extracted from /repo/src on every run equal these.
NOT generated: a change here is a change of the specification.
-/
namespace Evalexpr.Spec.Tables

/-- the 49 builtins: name, the helper that wraps it, the numeric-trait method it calls -/
def builtinTable : List (String × String × String) := [
  ("math::ln", "simple_math1", "ln"), ("math::log", "simple_math2", "log"), ("math::log2", "simple_math1", "log2"),
  ("math::log10", "simple_math1", "log10"), ("math::exp", "simple_math1", "exp"), ("math::exp2", "simple_math1", "exp2"),
  ("math::pow", "simple_math2", "pow"), ("math::cos", "simple_math1", "cos"), ("math::acos", "simple_math1", "acos"),
  ("math::cosh", "simple_math1", "cosh"), ("math::acosh", "simple_math1", "acosh"), ("math::sin", "simple_math1", "sin"),
  ("math::asin", "simple_math1", "asin"), ("math::sinh", "simple_math1", "sinh"), ("math::asinh", "simple_math1", "asinh"),
  ("math::tan", "simple_math1", "tan"), ("math::atan", "simple_math1", "atan"), ("math::tanh", "simple_math1", "tanh"),
  ("math::atanh", "simple_math1", "atanh"), ("math::atan2", "simple_math2", "atan2"), ("math::sqrt", "simple_math1", "sqrt"),
  ("math::cbrt", "simple_math1", "cbrt"), ("math::hypot", "simple_math2", "hypot"), ("floor", "simple_math1", "floor"),
  ("round", "simple_math1", "round"), ("ceil", "simple_math1", "ceil"), ("math::is_nan", "float_is", "is_nan"),
  ("math::is_finite", "float_is", "is_finite"), ("math::is_infinite", "float_is", "is_infinite"), ("math::is_normal", "float_is", "is_normal"),
  ("math::abs", "closure", ""), ("typeof", "closure", ""), ("min", "closure", ""),
  ("max", "closure", ""), ("if", "closure", ""), ("contains", "closure", ""),
  ("contains_any", "closure", ""), ("len", "closure", ""), ("str::to_lowercase", "closure", ""),
  ("str::to_uppercase", "closure", ""), ("str::trim", "closure", ""), ("str::from", "closure", ""),
  ("str::substring", "closure", ""), ("bitand", "int_function2", "bitand"), ("bitor", "int_function2", "bitor"),
  ("bitxor", "int_function2", "bitxor"), ("bitnot", "int_function1", "bitnot"), ("shl", "int_function2", "bit_shift_left"),
  ("shr", "int_function2", "bit_shift_right")]

/-- `EvalexprFloat for f64`: each trait method is the `std` method of the same meaning (`pow` ↦ `powf`, `ln` ↦ `ln`, …) -/
def floatTrait : List (String × String) := [
  ("pow", "( * self ) . powf ( * exponent )"),
  ("ln", "( * self ) . ln ( )"),
  ("log", "( * self ) . log ( * base )"),
  ("log2", "( * self ) . log2 ( )"),
  ("log10", "( * self ) . log10 ( )"),
  ("exp", "( * self ) . exp ( )"),
  ("exp2", "( * self ) . exp2 ( )"),
  ("cos", "( * self ) . cos ( )"),
  ("cosh", "( * self ) . cosh ( )"),
  ("acos", "( * self ) . acos ( )"),
  ("acosh", "( * self ) . acosh ( )"),
  ("sin", "( * self ) . sin ( )"),
  ("sinh", "( * self ) . sinh ( )"),
  ("asin", "( * self ) . asin ( )"),
  ("asinh", "( * self ) . asinh ( )"),
  ("tan", "( * self ) . tan ( )"),
  ("tanh", "( * self ) . tanh ( )"),
  ("atan", "( * self ) . atan ( )"),
  ("atanh", "( * self ) . atanh ( )"),
  ("atan2", "( * self ) . atan2 ( * x )"),
  ("sqrt", "( * self ) . sqrt ( )"),
  ("cbrt", "( * self ) . cbrt ( )"),
  ("hypot", "( * self ) . hypot ( * other )"),
  ("floor", "( * self ) . floor ( )"),
  ("round", "( * self ) . round ( )"),
  ("ceil", "( * self ) . ceil ( )"),
  ("is_nan", "( * self ) . is_nan ( )"),
  ("is_finite", "( * self ) . is_finite ( )"),
  ("is_infinite", "( * self ) . is_infinite ( )"),
  ("is_normal", "( * self ) . is_normal ( )"),
  ("abs", "( * self ) . abs ( )"),
  ("min", "( * self ) . min ( * other )"),
  ("max", "( * self ) . max ( * other )"),
  ("random", "# [ cfg ( feature = \"rand\" ) ] let result = Ok ( rand :: random ( ) ) ; # [ cfg ( not ( feature = \"rand\" ) ) ] let result = Err ( EvalexprError :: RandNotEnabled ) ; result")]

/-- `EvalexprInt for i64`: checked arithmetic with the matching error constructor, wrapping shifts, checked abs -/
def intTrait : List (String × String) := [
  ("from_usize", "int . try_into ( ) . map_err ( | _ | EvalexprError :: IntFromUsize { usize_int : int } )"),
  ("into_usize", "if * self >= 0 { ( * self as u64 ) . try_into ( ) . map_err ( | _ | EvalexprError :: IntIntoUsize { int : * self } ) } else { Err ( EvalexprError :: IntIntoUsize { int : * self } ) }"),
  ("from_hex_str", "Self :: from_str_radix ( literal , 16 ) . map_err ( | _ | ( ) )"),
  ("checked_add", "let result = ( * self ) . checked_add ( * rhs ) ; if let Some ( result ) = result { Ok ( result ) } else { Err ( EvalexprError :: addition_error ( Value :: < NumericTypes > :: from_int ( * self ) , Value :: < NumericTypes > :: from_int ( * rhs ) , ) ) }"),
  ("checked_sub", "let result = ( * self ) . checked_sub ( * rhs ) ; if let Some ( result ) = result { Ok ( result ) } else { Err ( EvalexprError :: subtraction_error ( Value :: < NumericTypes > :: from_int ( * self ) , Value :: < NumericTypes > :: from_int ( * rhs ) , ) ) }"),
  ("checked_neg", "let result = ( * self ) . checked_neg ( ) ; if let Some ( result ) = result { Ok ( result ) } else { Err ( EvalexprError :: negation_error ( Value :: < NumericTypes > :: from_int ( * self ) , ) ) }"),
  ("checked_mul", "let result = ( * self ) . checked_mul ( * rhs ) ; if let Some ( result ) = result { Ok ( result ) } else { Err ( EvalexprError :: multiplication_error ( Value :: < NumericTypes > :: from_int ( * self ) , Value :: < NumericTypes > :: from_int ( * rhs ) , ) ) }"),
  ("checked_div", "let result = ( * self ) . checked_div ( * rhs ) ; if let Some ( result ) = result { Ok ( result ) } else { Err ( EvalexprError :: division_error ( Value :: < NumericTypes > :: from_int ( * self ) , Value :: < NumericTypes > :: from_int ( * rhs ) , ) ) }"),
  ("checked_rem", "let result = ( * self ) . checked_rem ( * rhs ) ; if let Some ( result ) = result { Ok ( result ) } else { Err ( EvalexprError :: modulation_error ( Value :: < NumericTypes > :: from_int ( * self ) , Value :: < NumericTypes > :: from_int ( * rhs ) , ) ) }"),
  ("abs", "( * self ) . checked_abs ( ) . ok_or_else ( || EvalexprError :: negation_error ( Value :: < NumericTypes > :: from_int ( * self ) ) )"),
  ("bitand", "BitAnd :: bitand ( * self , * rhs )"),
  ("bitor", "BitOr :: bitor ( * self , * rhs )"),
  ("bitxor", "BitXor :: bitxor ( * self , * rhs )"),
  ("bitnot", "Not :: not ( * self )"),
  ("bit_shift_left", "self . wrapping_shl ( * rhs as u32 )"),
  ("bit_shift_right", "self . wrapping_shr ( * rhs as u32 )")]

/-- the seven typed projections: (name fragment, variant arms, expected-type constructor) -/
def kinds : List (String × String × String) := [
  ("string", "String:payload", "expected_string"),
  ("int", "Int:payload", "expected_int"),
  ("float", "Float:payload", "expected_float"),
  ("number", "Float:payload|Int:int_as_float", "expected_number"),
  ("boolean", "Boolean:payload", "expected_boolean"),
  ("tuple", "Tuple:payload", "expected_tuple"),
  ("empty", "Empty:unit", "expected_empty")]

/-- the rows of one level: the three untyped evaluators (bodies given), then for every kind the
context-free form (delegates to the `_mut` form of the same kind on a fresh `HashMapContext`), the
`_with_context` form (matches on the untyped read-only evaluator) and the `_with_context_mut` form
(matches on the untyped mutable evaluator); each match projects exactly its variant(s), raises
exactly its `expected_*` error on any other value, and passes errors through. -/
def levelRows (level roBody mutBody : String) : List (String × String × String × String) :=
  [(level, "eval", "fresh:eval_with_context_mut", ""),
   (level, "eval_with_context", "body", roBody),
   (level, "eval_with_context_mut", "body", mutBody)] ++
  (kinds.map fun (k, arms, exp) =>
    [(level, "eval_" ++ k, "fresh:eval_" ++ k ++ "_with_context_mut", ""),
     (level, "eval_" ++ k ++ "_with_context", "match:eval_with_context", arms ++ "|*:" ++ exp ++ "|Err:pass"),
     (level, "eval_" ++ k ++ "_with_context_mut", "match:eval_with_context_mut", arms ++ "|*:" ++ exp ++ "|Err:pass")]).flatten

/-- the 48 evaluation entry points -/
def entryPoints : List (String × String × String × String) :=
  levelRows "string"
    "tree :: tokens_to_operator_tree ( token :: tokenize ( string ) ? ) ? . eval_with_context ( context )"
    "tree :: tokens_to_operator_tree ( token :: tokenize ( string ) ? ) ? . eval_with_context_mut ( context )" ++
  levelRows "tree"
    "let mut arguments = Vec :: new ( ) ; for child in self . children ( ) { arguments . push ( child . eval_with_context ( context ) ? ) ; } self . operator ( ) . eval ( & arguments , context )"
    "let mut arguments = Vec :: new ( ) ; for child in self . children ( ) { arguments . push ( child . eval_with_context_mut ( context ) ? ) ; } self . operator ( ) . eval_mut ( & arguments , context )"

/-- audited inventory of constructs that can panic; each is discharged by a model guard (see Proofs/NoPanic) -/
def panicSites : List (String × Nat) := [
  ("function/builtin.rs::index[0]", 2), ("function/builtin.rs::index[1]", 2),
  ("function/builtin.rs:builtin_function:index[0]", 8), ("function/builtin.rs:builtin_function:index[1]", 5),
  ("function/builtin.rs:builtin_function:index[2]", 1), ("function/builtin.rs:builtin_function:swap_remove", 1),
  ("operator/mod.rs:eval:index[0]", 43), ("operator/mod.rs:eval:index[1]", 38),
  ("operator/mod.rs:eval:unwrap", 2), ("operator/mod.rs:eval_mut:index[0]", 2),
  ("operator/mod.rs:eval_mut:index[1]", 2), ("operator/mod.rs:eval_mut:unreachable!", 1),
  ("token/mod.rs:partial_tokens_to_tokens:index[0]", 1), ("token/mod.rs:partial_tokens_to_tokens:index[cutoff ..]", 1),
  ("tree/iter.rs:next:unwrap", 2), ("tree/mod.rs:insert_back_prioritized:unwrap", 4),
  ("tree/mod.rs:tokens_to_operator_tree:unreachable!", 2), ("value/numeric_types/default_numeric_types.rs:abs:raw abs", 1)]

/-- the operator variants each identifier iterator keeps -/
def iterFilters : List (String × List String) := [
  ("iter_identifiers", [
  "FunctionIdentifier", "VariableIdentifierRead", "VariableIdentifierWrite"]),
  ("iter_identifiers_mut", [
  "FunctionIdentifier", "VariableIdentifierRead", "VariableIdentifierWrite"]),
  ("iter_variable_identifiers", [
  "VariableIdentifierRead", "VariableIdentifierWrite"]),
  ("iter_variable_identifiers_mut", [
  "VariableIdentifierRead", "VariableIdentifierWrite"]),
  ("iter_read_variable_identifiers", [
  "VariableIdentifierRead"]),
  ("iter_read_variable_identifiers_mut", [
  "VariableIdentifierRead"]),
  ("iter_write_variable_identifiers", [
  "VariableIdentifierWrite"]),
  ("iter_write_variable_identifiers_mut", [
  "VariableIdentifierWrite"]),
  ("iter_function_identifiers", [
  "FunctionIdentifier"]),
  ("iter_function_identifiers_mut", [
  "FunctionIdentifier"])]

/-- serde derives and attributes -/
def serdeShape : List (String × String) := [
  ("HashMapContext.attrs", "#[derive(Clone, Debug)] #[cfg_attr(feature = \"serde\", derive(serde::Serialize, serde::Deserialize))] #[cfg_attr(feature = \"serde\", serde(bound = \"\"))]"),
  ("HashMapContext.fields", "variables: HashMap<String, Value<NumericTypes>>, #[cfg_attr(feature = \"serde\", serde(skip))] functions: HashMap<String, Function<NumericTypes>>, /// True if builtin functions are disabled. without_builtin_functions: bool,"),
  ("Value.attrs", "#[derive(Clone, Debug, PartialEq)] #[cfg_attr(feature = \"serde\", derive(serde::Serialize, serde::Deserialize))] #[cfg_attr(feature = \"serde\", serde(bound = \"\"))]"),
  ("Node.visit_str", "match build_operator_tree(v) { Ok(node) => Ok(node), Err(error) => Err(E::custom(error)),"),
  ("Node.deserialize", "deserializer.deserialize_str(NodeVisitor(PhantomData))")]

/-- the Context implementations of the three provided contexts -/
def contextPolicies : List (String × String) := [
  ("EmptyContext.get_value", "None"),
  ("EmptyContext.call_function", "Err ( EvalexprError :: FunctionIdentifierNotFound ( identifier . to_string ( ) , ) )"),
  ("EmptyContext.are_builtin_functions_disabled", "true"),
  ("EmptyContext.set_builtin_functions_disabled", "if disabled { Ok ( ( ) ) } else { Err ( EvalexprError :: BuiltinFunctionsCannotBeEnabled ) }"),
  ("EmptyContextWithBuiltinFunctions.get_value", "None"),
  ("EmptyContextWithBuiltinFunctions.call_function", "Err ( EvalexprError :: FunctionIdentifierNotFound ( identifier . to_string ( ) , ) )"),
  ("EmptyContextWithBuiltinFunctions.are_builtin_functions_disabled", "false"),
  ("EmptyContextWithBuiltinFunctions.set_builtin_functions_disabled", "if disabled { Err ( EvalexprError :: BuiltinFunctionsCannotBeDisabled ) } else { Ok ( ( ) ) }"),
  ("HashMapContext.get_value", "self . variables . get ( identifier )"),
  ("HashMapContext.call_function", "if let Some ( function ) = self . functions . get ( identifier ) { function . call ( argument ) } else { Err ( EvalexprError :: FunctionIdentifierNotFound ( identifier . to_string ( ) , ) ) }"),
  ("HashMapContext.are_builtin_functions_disabled", "self . without_builtin_functions"),
  ("HashMapContext.set_builtin_functions_disabled", "self . without_builtin_functions = disabled ; Ok ( ( ) )")]

/-- crate attributes -/
def crateAttrs : List String := [
  "deny ( missing_docs )", "forbid ( unsafe_code )",
  "allow ( clippy :: get_first )"]

end Evalexpr.Spec.Tables
