/-
Spec/Literals.lean — the literal grammar of property C06, as decidable predicates on words:
decimal and `0x` hexadecimal integer literals, float literals in positional or scientific notation
(without a sign inside the word: a signed exponent is split by the lexer into three partial tokens),
booleans; every other word is an identifier.
-/
import EvalexprVerif.Spec.Lex

namespace Evalexpr.Spec

def isDigits (w : Str) : Bool := !w.isEmpty && w.all F64.isDigit

/-- DecLit := digit+ -/
def isDecLit (w : Str) : Bool := isDigits w

def decValue (w : Str) : Nat := w.foldl (fun a c => a * 10 + (c.toNat - 48)) 0

def isHexDigit (c : Char) : Bool :=
  ('0' ≤ c && c ≤ '9') || ('a' ≤ c && c ≤ 'f') || ('A' ≤ c && c ≤ 'F')

def hexDigitValue (c : Char) : Nat :=
  if '0' ≤ c && c ≤ '9' then c.toNat - 48 else if 'a' ≤ c && c ≤ 'f' then c.toNat - 87 else c.toNat - 55

/-- HexLit := `0x` hexdigit+ -/
def isHexLit (w : Str) : Bool :=
  match w with
  | '0' :: 'x' :: ds => !ds.isEmpty && ds.all isHexDigit
  | _ => false

def hexValue (ds : Str) : Nat := ds.foldl (fun a c => a * 16 + hexDigitValue c) 0

/-- mantissa := digit+ | digit+ `.` digit* | `.` digit+ -/
def isMantissa (w : Str) : Bool :=
  let ip := w.takeWhile F64.isDigit
  let rest := w.dropWhile F64.isDigit
  match rest with
  | [] => !ip.isEmpty
  | '.' :: fp => fp.all F64.isDigit && !(ip.isEmpty && fp.isEmpty)
  | _ => false

/-- split a word at its first `e` / `E` -/
def splitExp (w : Str) : Str × Option Str :=
  match w.span (fun c => c != 'e' && c != 'E') with
  | (m, []) => (m, none)
  | (m, _ :: ex) => (m, some ex)

/-- FloatLit (single word) := mantissa ( (`e`|`E`) digit+ )? -/
def isFloatLit (w : Str) : Bool :=
  match splitExp w with
  | (m, none) => isMantissa m
  | (m, some ex) => isMantissa m && isDigits ex

/-- the rational value of a float literal `m (e x)?` with an optionally signed exponent, as
(numerator, denominator): digits of the mantissa without the dot, times 10^(exponent − #fraction digits) -/
def floatLitValue (mantissa : Str) (expNeg : Bool) (expDigits : Str) : Nat × Nat :=
  let ip := mantissa.takeWhile F64.isDigit
  let fp := (mantissa.dropWhile F64.isDigit).drop 1
  let m := decValue (ip ++ fp)
  let e : Int := (if expNeg then -(decValue expDigits : Int) else decValue expDigits) - fp.length
  if e ≥ 0 then (m * 10 ^ e.toNat, 1) else (m, 10 ^ (-e).toNat)

end Evalexpr.Spec
