/-
Spec/WellFormed.lean — the reference recogniser of property C13, on token adjacency only:
(i) unbalanced parentheses; (ii) a prefix operator, or a binary operator other than `,` `;`,
without an operand on a side that needs one; (iii) two operands juxtaposed outside the
function-application form. Independent of the tree builder.
-/
import EvalexprVerif.Model.Eval

namespace Evalexpr.Spec

/-- tokens that are a binary operator when they follow an operand (14 binary + 9 assignment) -/
def isBinaryTok : Token → Bool
  | .plus | .minus | .star | .slash | .percent | .hat | .eq | .neq | .gt | .lt | .geq | .leq
  | .and | .or | .assign | .plusAssign | .minusAssign | .starAssign | .slashAssign
  | .percentAssign | .hatAssign | .andAssign | .orAssign => true
  | _ => false

def isMinus : Token → Bool
  | .minus => true
  | _ => false

/-- tokens that can begin an operand: `(`, identifier, literal, or a prefix operator -/
def startsOperand (t : Token) : Bool := t.isLeftsidedValue || t.isNot || isMinus t

/-- parenthesis balance: never negative, zero at the end -/
def balancedFrom : Nat → List Token → Bool
  | d, [] => d == 0
  | d, .lBrace :: rest => balancedFrom (d + 1) rest
  | 0, .rBrace :: _ => false
  | d + 1, .rBrace :: rest => balancedFrom d rest
  | d, _ :: rest => balancedFrom d rest

def balanced (ts : List Token) : Bool := balancedFrom 0 ts

/-- (iii) two operands juxtaposed: an operand end directly followed by an operand start or `!`,
except identifier-then-operand (function application) -/
def juxtaposedAt (prev : Option Token) (t : Token) : Bool :=
  match prev with
  | none => false
  | some p => p.isRightsidedValue && (t.isNot || (t.isLeftsidedValue && !p.isIdentifier))

/-- (ii-left) a binary operator (a `-` counts as binary only after an operand) without a left
operand: it does not follow an operand end. `-` is never in this class (it becomes a prefix). -/
def lacksLeftAt (prev : Option Token) (t : Token) : Bool :=
  isBinaryTok t && !isMinus t &&
    (match prev with | none => true | some p => !p.isRightsidedValue)

/-- (ii-right) a prefix or binary operator not followed by the start of an operand -/
def lacksRightAt (t : Token) (next : Option Token) : Bool :=
  (isBinaryTok t || t.isNot) &&
    (match next with | none => true | some n => !startsOperand n)

def scan (prev : Option Token) : List Token → Bool
  | [] => false
  | t :: rest =>
    juxtaposedAt prev t || lacksLeftAt prev t || lacksRightAt t rest.head? || scan (some t) rest

def juxtaposedIn (prev : Option Token) : List Token → Bool
  | [] => false
  | t :: rest => juxtaposedAt prev t || juxtaposedIn (some t) rest

def lacksOperandIn (prev : Option Token) : List Token → Bool
  | [] => false
  | t :: rest => lacksLeftAt prev t || lacksRightAt t rest.head? || lacksOperandIn (some t) rest

/-- the recogniser -/
def illFormed (ts : List Token) : Bool :=
  !balanced ts || juxtaposedIn none ts || lacksOperandIn none ts

mutual
/-- a tree with an operator (other than the n-ary `,` `;` and the parenthesis node) that has the
wrong number of operands -/
def deficient : Node → Bool
  | ⟨op, cs⟩ =>
    (match op.maxArgumentAmount with
      | some n => !op.isRoot && cs.length != n
      | none => false) || deficientList cs
def deficientList : List Node → Bool
  | [] => false
  | c :: cs => deficient c || deficientList cs
end

end Evalexpr.Spec
