/-
Spec/BigStep.lean — the evaluation-order semantics of property C08 as an inductive relation, and
the "stop at the first applied assignment" evaluator of property C11.

`Eval n s r s'`: evaluating node `n` from state `s` (context + log of user-function calls) yields
result `r` and state `s'`. The rules say, and nothing else: the children are evaluated exactly once
each, in list order, each from the state the previous one left; the first child whose result is an
error ends the evaluation with that error and the state reached; otherwise the operator is applied
once to the list of child values.
-/
import EvalexprVerif.Model.Eval

namespace Evalexpr.Spec

mutual
/-- strict, left-to-right, first-error-wins evaluation with a mutable context -/
inductive Eval : Node → St → Res Value → St → Prop where
  | apply (op : Operator) (cs : List Node) (s s' : St) (args : List Value) :
      EvalList cs s (.ok args) s' →
      Eval ⟨op, cs⟩ s (op.evalMut args s').1 (op.evalMut args s').2
  | childError (op : Operator) (cs : List Node) (s s' : St) (e : Err) :
      EvalList cs s (.error e) s' → Eval ⟨op, cs⟩ s (.error e) s'
inductive EvalList : List Node → St → Res (List Value) → St → Prop where
  | nil (s : St) : EvalList [] s (.ok []) s
  | consError (c : Node) (cs : List Node) (s s' : St) (e : Err) :
      Eval c s (.error e) s' → EvalList (c :: cs) s (.error e) s'
  | consOk (c : Node) (cs : List Node) (s s₁ s₂ : St) (v : Value) (vs : List Value) :
      Eval c s (.ok v) s₁ → EvalList cs s₁ (.ok vs) s₂ → EvalList (c :: cs) s (.ok (v :: vs)) s₂
  | consOkError (c : Node) (cs : List Node) (s s₁ s₂ : St) (v : Value) (e : Err) :
      Eval c s (.ok v) s₁ → EvalList cs s₁ (.error e) s₂ → EvalList (c :: cs) s (.error e) s₂
end

def Operator.isAssignKind (op : Operator) : Bool :=
  match op with
  | .assign | .addAssign | .subAssign | .mulAssign | .divAssign | .modAssign | .expAssign
  | .andAssign | .orAssign => true
  | _ => false

/-- outcome of the mutable run stopped where it would apply an assignment operator -/
inductive Stop (α : Type) where
  | finished (r : Res α)
  | reachedAssign

mutual
/-- the mutable evaluation, stopped at the first point where an assignment operator would be
applied (all its operands evaluated successfully) -/
def evalStop : Node → St → Stop Value × St
  | ⟨op, cs⟩, s =>
    match evalStopList cs s with
    | (.reachedAssign, s) => (.reachedAssign, s)
    | (.finished (.error e), s) => (.finished (.error e), s)
    | (.finished (.ok args), s) =>
      if Operator.isAssignKind op then (.reachedAssign, s)
      else let (r, s') := op.evalMut args s; (.finished r, s')
def evalStopList : List Node → St → Stop (List Value) × St
  | [], s => (.finished (.ok []), s)
  | c :: cs, s =>
    match evalStop c s with
    | (.reachedAssign, s) => (.reachedAssign, s)
    | (.finished (.error e), s) => (.finished (.error e), s)
    | (.finished (.ok v), s) =>
      match evalStopList cs s with
      | (.reachedAssign, s) => (.reachedAssign, s)
      | (.finished (.error e), s) => (.finished (.error e), s)
      | (.finished (.ok vs), s) => (.finished (.ok (v :: vs)), s)
end

/-- the projection of property C11 -/
def projectStop : Stop Value × St → Res Value × St
  | (.finished r, s) => (r, s)
  | (.reachedAssign, s) => (.error .contextNotMutable, s)

mutual
/-- no assignment operator anywhere in the tree -/
def noAssign : Node → Bool
  | ⟨op, cs⟩ => !Operator.isAssignKind op && noAssignList cs
def noAssignList : List Node → Bool
  | [] => true
  | c :: cs => noAssign c && noAssignList cs
end

end Evalexpr.Spec
