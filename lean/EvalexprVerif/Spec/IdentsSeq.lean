/-
Spec/IdentsSeq.lean — property C14 over the whole domain of C05: the identifier occurrences of a
SEQUENCE LEVEL (chains of tuples of optional operands; operands are expressions or parenthesised
levels, absent elements and empty groups included), left to right in the source.
-/
import EvalexprVerif.Spec.Idents
import EvalexprVerif.Spec.Seq

namespace Evalexpr.Spec

mutual
def occOperand : Operand → List (IdentClass × Str)
  | .expr e => occ e
  | .group ms => occLevelAux ms
def occOpt : Option Operand → List (IdentClass × Str)
  | none => []
  | some o => occOperand o
def occMember : List (Option Operand) → List (IdentClass × Str)
  | [] => []
  | x :: rest => occOpt x ++ occMember rest
def occLevelAux : List (List (Option Operand)) → List (IdentClass × Str)
  | [] => []
  | m :: rest => occMember m ++ occLevelAux rest
end

/-- identifier occurrences of a level, in source order -/
def occLevel (l : Level) : List (IdentClass × Str) := occLevelAux l

end Evalexpr.Spec
