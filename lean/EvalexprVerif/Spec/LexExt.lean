/-
Spec/LexExt.lean — C06/C07 for literals EMBEDDED between other tokens in every spelling the
property names (`5e-3-2e-3`, `0x1e-3`, `a-1e+2`):

* `PTok.PrintableX` extends `PTok.Printable` by float tokens written in scientific notation with a
  SIGNED exponent (`<mantissa>e±<digits>`, three partial tokens for the lexer);
* `AdmissibleX` relaxes `Admissible`: the "a sign after `<mantissa>e` needs a gap somewhere"
  clause is only demanded of IDENTIFIER tokens (a word that is itself a literal — `0x1e`, `1e5` —
  is emitted before the lexer ever looks ahead), so `0x1e-3` is an admissible rendering of
  `30 - 3`; and only if what follows the sign is a WORD token (the lexer re-joins
  `<mantissa>e`, sign and the next partial token only if the three parse as a float, which a
  string literal, a parenthesis or an operator never does), so `1e+"3"` and `1e-(2)` are
  admissible renderings of three tokens.

`Admissible → AdmissibleX` and `Printable → PrintableX`, so the extended round trip
(`C07_roundtrip_ext`, Proofs/LexExt.lean) subsumes `C07_roundtrip`.
-/
import EvalexprVerif.Spec.Lex
import EvalexprVerif.Spec.Literals

namespace Evalexpr.Spec

/-- the text is `<mantissa> (e|E) (+|-) <digits>` -/
def isSignedFloatText (w : Str) : Bool :=
  match splitExp w with
  | (m, some (s :: ex)) => isMantissa m && (s == '+' || s == '-') && isDigits ex
  | _ => false

/-- the text denotes the token; besides `Printable`: a float written with a signed exponent -/
def PTok.PrintableX (p : PTok) : Prop :=
  p.Printable ∨
    (isSignedFloatText p.text = true ∧ ∃ f, p.tok = .float f ∧ F64.parse p.text = some f)

def isIdentTok : Token → Bool
  | .identifier _ => true
  | _ => false

/-- `Admissible` with the mantissa-`e` clause restricted to identifier tokens followed (after the
sign) by a word token -/
def AdmissibleX : List (Gap × PTok) → Gap → Prop
  | [], g => ∀ s ∈ g, s.valid = true
  | (g0, p) :: rest, g =>
    (∀ s ∈ g0, s.valid = true) ∧
    (match rest with
      | (g1, q) :: rest' =>
        (fuses p.tok q.tok = true → g1 ≠ []) ∧
        (looksLikeMantissaE p.text = true → isIdentTok p.tok = true → isSign q.tok = true →
          ∀ gr r rest'', rest' = (gr, r) :: rest'' → isWordTok r.tok = true → g1 ≠ [] ∨ gr ≠ [])
      | [] => True) ∧
    (isSlash p.tok = true → (renderFrom rest g).head? ≠ some '/' ∧ (renderFrom rest g).head? ≠ some '*') ∧
    AdmissibleX rest g

end Evalexpr.Spec
