/-
C03 — Operators compute exact, correctly typed results or a typed error.
-/
import EvalexprVerif.Spec.RefArith
import EvalexprVerif.Proofs.AgreeFnOperator

set_option linter.unusedSimpArgs false

namespace Evalexpr.Spec.C03
open Evalexpr Evalexpr.Spec

theorem strLt_eq_lexLt (a b : Str) : strLt a b = lexLt a b := by
  induction a generalizing b with
  | nil => cases b <;> rfl
  | cons x xs ih =>
    cases b with
    | nil => rfl
    | cons y ys =>
      simp only [strLt, lexLt, ih]
      by_cases h1 : x.toNat < y.toNat
      · simp [h1]
      · by_cases h2 : y.toNat < x.toNat
        · have : ¬ x.toNat = y.toNat := by omega
          simp [h1, h2, this]
        · have : x.toNat = y.toNat := by omega
          simp [h1, this]

theorem i64Of_eq (z : Int) : i64Of z = if fits z then some (Int64.ofInt z) else none := by
  simp [i64Of, inI64, fits]

theorem meets_checked (z : Int) (e : Err) (he : isArithError e = true) :
    Meets (Except.map Value.int (match i64Of z with | some r => .ok r | none => .error e))
      (exactInt z) := by
  by_cases h : fits z = true <;> simp [i64Of_eq, exactInt, h, Meets, Except.map, he]

theorem meets_add (a b : Int64) :
    Meets (Except.map Value.int (checkedAdd a b)) (exactInt (a.toInt + b.toInt)) :=
  meets_checked _ _ rfl
theorem meets_sub (a b : Int64) :
    Meets (Except.map Value.int (checkedSub a b)) (exactInt (a.toInt - b.toInt)) :=
  meets_checked _ _ rfl
theorem meets_mul (a b : Int64) :
    Meets (Except.map Value.int (checkedMul a b)) (exactInt (a.toInt * b.toInt)) :=
  meets_checked _ _ rfl
theorem meets_div (a b : Int64) :
    Meets (Except.map Value.int (checkedDiv a b))
      (if b.toInt == 0 then .arith else exactInt (a.toInt.tdiv b.toInt)) := by
  unfold checkedDiv
  by_cases h : b.toInt = 0
  · simp [h, Meets, Except.map, isArithError]
  · simp only [beq_iff_eq, h, if_false]; exact meets_checked _ _ rfl
theorem meets_rem (a b : Int64) :
    Meets (Except.map Value.int (checkedRem a b))
      (if b.toInt == 0 then .arith
       else if a.toInt == -2 ^ 63 && b.toInt == -1 then .valueOrArith (.int 0)
       else exactInt (a.toInt.tmod b.toInt)) := by
  unfold checkedRem
  by_cases h : b.toInt = 0
  · simp [h, Meets, Except.map, isArithError]
  · by_cases h2 : (a.toInt == -2 ^ 63 && b.toInt == -1) = true
    · rw [if_neg (by simpa using h), if_pos h2, if_neg (by simpa using h), if_pos h2]
      exact Or.inr ⟨_, rfl, rfl⟩
    · rw [if_neg (by simpa using h), if_neg h2, if_neg (by simpa using h), if_neg h2]
      exact meets_checked _ _ rfl

/-- **C03 (binary)**: for every operator and every pair of operand values, in every context,
the evaluator's result meets the reference outcome. -/
theorem C03_binary (op : BinOp) (a b : Value) (s : St) :
    Meets (op.toOperator.eval [a, b] s).1 (refBinary op a b) := by
  cases op <;> cases a <;> cases b
  case add.int.int => exact meets_add _ _
  case sub.int.int => exact meets_sub _ _
  case mul.int.int => exact meets_mul _ _
  case div.int.int => exact meets_div _ _
  case mod.int.int => exact meets_rem _ _
  all_goals
    simp [BinOp.toOperator, Operator.eval, Operator.evalPure, refBinary, arithRef, orderRef,
      Meets, arith, compare, logic, expectNumberOrString, Value.asNumber, Value.asBoolean,
      isNumber, toDouble, isArithError, isTypeError, Value.type, Cmp.onStr, Cmp.onInt,
      Cmp.onFloat, Except.map, strLt_eq_lexLt]
  all_goals rfl

theorem meets_neg (a : Int64) :
    Meets (Except.map Value.int (checkedNeg a)) (exactInt (-a.toInt)) :=
  meets_checked _ _ rfl

/-- **C03 (unary)** -/
theorem C03_unary (op : UnOp) (a : Value) (s : St) :
    Meets (op.toOperator.eval [a] s).1 (refUnary op a) := by
  cases op <;> cases a
  case neg.int => exact meets_neg _
  all_goals
    simp [UnOp.toOperator, Operator.eval, Operator.evalPure, refUnary, Meets, Value.asNumber,
      Value.asBoolean, isArithError, isTypeError, Except.map]

/-! ### about the code as translated on this run
`Gen.Operator.eval` is the body of `Operator::eval` (src/operator/mod.rs) rendered by `translate_fn.py`; by
`fn_Operator_eval_agree` the two main theorems are statements about that text. -/
theorem C03_binary_generated (op : BinOp) (a b : Value) (s : St) :
    Meets (Gen.Operator.eval op.toOperator [a, b] s).1 (refBinary op a b) := by
  rw [AgreeFn.fn_Operator_eval_agree]; exact C03_binary op a b s
theorem C03_unary_generated (op : UnOp) (a : Value) (s : St) :
    Meets (Gen.Operator.eval op.toOperator [a] s).1 (refUnary op a) := by
  rw [AgreeFn.fn_Operator_eval_agree]; exact C03_unary op a s

/-- the value an in-range integer result denotes is the exact mathematical result -/
theorem exactInt_value (z : Int) (v : Value) (h : exactInt z = .value v) :
    ∃ r : Int64, v = .int r ∧ r.toInt = z := by
  unfold exactInt at h
  by_cases hf : fits z = true
  · simp [hf] at h
    refine ⟨Int64.ofInt z, h.symm, ?_⟩
    simp [fits] at hf
    exact Int64.toInt_ofInt_of_le hf.1 hf.2
  · simp [hf] at h

theorem meets_value_exact (r : Res Value) (z : Int) (x : Int64) (h : Meets r (exactInt z))
    (hr : r = .ok (.int x)) : x.toInt = z := by
  unfold exactInt at h
  by_cases hf : fits z = true
  · simp only [hf, if_true, Meets] at h
    rw [hr] at h
    have hx : x = Int64.ofInt z := by injection h with h; injection h
    subst hx
    simp [fits] at hf
    exact Int64.toInt_ofInt_of_le hf.1 hf.2
  · simp only [hf, Meets] at h
    obtain ⟨e, he, _⟩ := h
    rw [hr] at he; cases he

/-- **C03 (no wrap-around)**: an integer result of `+ - * / %` on two ints, and of unary `-`,
is the exact mathematical result. -/
theorem C03_no_wrap_add (a b r : Int64) (s : St)
    (h : (Operator.eval .add [.int a, .int b] s).1 = .ok (.int r)) : r.toInt = a.toInt + b.toInt :=
  meets_value_exact _ _ _ (C03_binary .add (.int a) (.int b) s) h

theorem C03_no_wrap_sub (a b r : Int64) (s : St)
    (h : (Operator.eval .sub [.int a, .int b] s).1 = .ok (.int r)) : r.toInt = a.toInt - b.toInt :=
  meets_value_exact _ _ _ (C03_binary .sub (.int a) (.int b) s) h

theorem C03_no_wrap_mul (a b r : Int64) (s : St)
    (h : (Operator.eval .mul [.int a, .int b] s).1 = .ok (.int r)) : r.toInt = a.toInt * b.toInt :=
  meets_value_exact _ _ _ (C03_binary .mul (.int a) (.int b) s) h

theorem C03_no_wrap_neg (a r : Int64) (s : St)
    (h : (Operator.eval .neg [.int a] s).1 = .ok (.int r)) : r.toInt = -a.toInt :=
  meets_value_exact _ _ _ (C03_unary .neg (.int a) s) h

theorem C03_no_wrap_div (a b r : Int64) (s : St)
    (h : (Operator.eval .div [.int a, .int b] s).1 = .ok (.int r)) :
    b.toInt ≠ 0 ∧ r.toInt = a.toInt.tdiv b.toInt := by
  have hm := C03_binary .div (.int a) (.int b) s
  have hr : refBinary .div (.int a) (.int b) =
      if b.toInt == 0 then .arith else exactInt (a.toInt.tdiv b.toInt) := rfl
  rw [hr] at hm
  by_cases hb : b.toInt = 0
  · simp only [hb, beq_self_eq_true, if_true, Meets] at hm
    obtain ⟨e, he, _⟩ := hm
    simp only [BinOp.toOperator] at he
    rw [h] at he; cases he
  · refine ⟨hb, ?_⟩
    rw [if_neg (by simpa using hb)] at hm
    exact meets_value_exact _ _ _ hm h

/-- **C03 (overflow is an error, exactly when the exact result does not fit)** for `+`. -/
theorem C03_arith_iff_add (a b : Int64) (s : St) :
    (∃ e, (Operator.eval .add [.int a, .int b] s).1 = .error e ∧ isArithError e = true)
      ↔ ¬ (-2 ^ 63 ≤ a.toInt + b.toInt ∧ a.toInt + b.toInt < 2 ^ 63) := by
  have hm := C03_binary .add (.int a) (.int b) s
  simp only [BinOp.toOperator] at hm
  have : refBinary .add (.int a) (.int b) = exactInt (a.toInt + b.toInt) := rfl
  rw [this] at hm
  unfold exactInt at hm
  by_cases hf : fits (a.toInt + b.toInt) = true
  · simp [hf, Meets] at hm
    simp [fits] at hf
    simp [hm, hf]
  · simp [hf, Meets] at hm
    simp [fits] at hf
    constructor
    · intro _ h; exact absurd h.2 (by have := hf h.1; omega)
    · intro _; exact hm

/-! ### non-vacuity: concrete instances (kernel evaluation) -/

/-- `MAX + 1` is an arithmetic error, not a wrapped value -/
example (s : St) : ∃ e, (Operator.eval .add [.int 9223372036854775807, .int 1] s).1 = .error e ∧
    isArithError e = true := by
  have := (C03_arith_iff_add 9223372036854775807 1 s).mpr (by decide)
  exact this

/-- `7 / 2 = 3`, `-7 % 2 = -1` (truncation, dividend's sign) -/
example (s : St) : (Operator.eval .div [.int 7, .int 2] s).1 = .ok (.int 3) := by rfl
example (s : St) : (Operator.eval .mod [.int (-7), .int 2] s).1 = .ok (.int (-1)) := by rfl
example (s : St) : ∃ e, (Operator.eval .div [.int 1, .int 0] s).1 = .error e := ⟨_, rfl⟩

end Evalexpr.Spec.C03
