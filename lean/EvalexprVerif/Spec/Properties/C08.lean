/-
C08 — Strict left-to-right evaluation; the first error wins.

The reference interpreter is the big-step relation `Spec.Eval` (Spec/BigStep.lean): children exactly
once each, in order, state threaded, first failing child ends the evaluation, operator applied once
afterwards. `C08_adequate`: the evaluator model computes exactly that relation, for every tree,
context and log. Proofs: Proofs/EvalOps, Proofs/EvalOrder.
-/
import EvalexprVerif.Proofs.EvalOrder
import EvalexprVerif.Proofs.EvalOnce
import EvalexprVerif.Proofs.AgreeFnTree

namespace Evalexpr.Spec.C08
open Evalexpr Evalexpr.Spec

/-- **C08 (main)**: the evaluator is the reference interpreter -/
theorem C08_adequate (n : Node) (s s' : St) (r : Res Value) : Eval n s r s' ↔ n.evalMut s = (r, s') :=
  Evalexpr.Spec.C08_adequate n s s' r
theorem C08_deterministic (n : Node) (s s₁ s₂ : St) (r₁ r₂ : Res Value)
    (h₁ : Eval n s r₁ s₁) (h₂ : Eval n s r₂ s₂) : r₁ = r₂ ∧ s₁ = s₂ :=
  Evalexpr.Spec.C08_deterministic n s s₁ s₂ r₁ r₂ h₁ h₂
/-- effects before the failing sub-expression persist, none after it occur -/
theorem C08_first_error (op : Operator) (pre post : List Node) (k : Node) (s s₁ s₂ : St)
    (vs : List Value) (e : Err)
    (hpre : evalMutList pre s = (.ok vs, s₁)) (hk : k.evalMut s₁ = (.error e, s₂)) :
    (Node.mk op (pre ++ k :: post)).evalMut s = (.error e, s₂) :=
  Evalexpr.Spec.C08_first_error op pre post k s s₁ s₂ vs e hpre hk
/-- all operands are evaluated before the operator is applied: no short-circuiting -/
theorem C08_all_operands (op : Operator) (cs : List Node) (s s' : St) (vs : List Value)
    (h : evalMutList cs s = (.ok vs, s')) : (Node.mk op cs).evalMut s = op.evalMut vs s' :=
  Evalexpr.Spec.C08_all_operands op cs s s' vs h
theorem C08_log_grows (n : Node) (s : St) : ∃ l, (n.evalMut s).2.log = s.log ++ l :=
  Evalexpr.Spec.C08_log_grows n s
/-- **C08 about the code as translated on this run**: `Gen.Node.eval_with_context_mut` — the body of
`Node::eval_with_context_mut` (src/tree/mod.rs) rendered by `translate_fn.py`, calling the rendered `Operator::eval_mut` —
computes exactly the big-step relation (`fn_Node_eval_with_context_mut_agree` + `C08_adequate`); likewise the read-only walker
computes the model's read-only evaluator -/
theorem C08_adequate_generated (n : Node) (s s' : St) (r : Res Value) :
    Eval n s r s' ↔ Gen.Node.eval_with_context_mut n s = (r, s') := by
  rw [AgreeFn.fn_Node_eval_with_context_mut_agree]; exact C08_adequate n s s' r
theorem C08_generated_ro (n : Node) (s : St) : Gen.Node.eval_with_context n s = n.evalRO s :=
  AgreeFn.fn_Node_eval_with_context_agree n s
/-- `false && f(1)` still calls `f` -/
theorem C08_no_short_circuit_example :
    let ctx : Ctx := .hashMap { funs := [(['f'], fun v => .ok v)] }
    let tree : Node := ⟨.and, [⟨.const (.boolean false), []⟩, ⟨.fn ['f'], [⟨.const (.int 1), []⟩]⟩]⟩
    (tree.evalMut ⟨ctx, []⟩).2.log = [(['f'], .int 1)] := Evalexpr.Spec.C08_no_short_circuit_example

/-! ### "exactly once": counting theorems (definitions in Spec/Once.lean, proofs in Proofs/EvalOnce.lean)

`callSites c n`: identifiers of the nodes `.fn id` of `n` with `c.userFn id = some _` (the
user-function application sites), in post-order; `fnCalls c n`: their number. The call log records
one entry per invocation of a user function, so comparing the log with `callSites` counts
executions: none skipped (no short-circuit), none repeated, in source order. -/

/-- a context for the examples: `f` is the identity, `bad` fails, and `typeof` shadows the builtin
of that name by answering `FunctionIdentifierNotFound` (finding K2: the builtin then runs) -/
def exCtx : Ctx := .hashMap { funs := [
  (['f'], fun v => .ok v),
  (['b', 'a', 'd'], fun _ => .error (.customMessage ['n', 'o'])),
  (cl!"typeof", fun _ => .error (.functionIdentifierNotFound cl!"typeof"))] }
def exLit (i : Int64) : Node := ⟨.const (.int i), []⟩
def exCall (id : Str) (arg : Node) : Node := ⟨.fn id, [arg]⟩

/-- **C08 (functions are fixed)**: evaluation can bind variables but never defines, removes or
replaces a user function, and never flips the builtin switch — so "the user-function application
sites of a tree" means the same thing before, during and after its evaluation -/
theorem C08_userFns_preserved (n : Node) (s : St) :
    (∀ id, (n.evalMut s).2.ctx.userFn id = s.ctx.userFn id) ∧
      (n.evalMut s).2.ctx.builtinsDisabled = s.ctx.builtinsDisabled :=
  ⟨userFns_preserved n s, builtinsDisabled_preserved n s⟩
theorem C08_userFns_preserved_RO (n : Node) (s : St) :
    (∀ id, (n.evalRO s).2.ctx.userFn id = s.ctx.userFn id) ∧
      (n.evalRO s).2.ctx.builtinsDisabled = s.ctx.builtinsDisabled :=
  ⟨userFns_preserved_RO n s, builtinsDisabled_preserved_RO n s⟩
/-- `f = 1` binds the variable `f` and leaves the function `f` in place -/
example :
    let r := (Node.mk .assign [⟨.varWrite ['f'], []⟩, exLit 1]).evalMut ⟨exCtx, []⟩
    resOk r.1 = true ∧ (r.2.ctx.getValue ['f']).isSome = true ∧
      (r.2.ctx.userFn ['f']).isSome = true := by
  decide

/-- **C08 (exactly once, count)**: a successful evaluation makes exactly as many user-function
calls as the tree has user-function application sites -/
theorem C08_once_count (n : Node) (s s' : St) (v : Value) (h : n.evalMut s = (.ok v, s')) :
    s'.log.length = s.log.length + fnCalls s.ctx n :=
  Evalexpr.Spec.C08_once_count n s s' v h
theorem C08_once_count_RO (n : Node) (s s' : St) (v : Value) (h : n.evalRO s = (.ok v, s')) :
    s'.log.length = s.log.length + fnCalls s.ctx n :=
  Evalexpr.Spec.C08_once_count_RO n s s' v h
/-- `f(false) && f(true)`: two sites, two calls, although the left operand decides the result;
the builtin call in `typeof(1)` without a shadowing function is not a site -/
example :
    let tree : Node :=
      ⟨.and, [exCall ['f'] ⟨.const (.boolean false), []⟩,
        exCall ['f'] ⟨.const (.boolean true), []⟩]⟩
    fnCalls exCtx tree = 2 ∧ (tree.evalMut ⟨exCtx, []⟩).2.log.length = 2 ∧
      resOk (tree.evalMut ⟨exCtx, []⟩).1 = true ∧
      fnCalls .emptyWithBuiltins (exCall cl!"typeof" (exLit 1)) = 0 := by
  decide

/-- **C08 (exactly once, order)**: on success the names in the call log are, after those already
there, exactly the application sites of the tree in post-order: arguments before the function that
takes them, siblings left to right -/
theorem C08_once_order (n : Node) (s s' : St) (v : Value) (h : n.evalMut s = (.ok v, s')) :
    s'.log.map (·.1) = s.log.map (·.1) ++ callSites s.ctx n :=
  Evalexpr.Spec.C08_once_order n s s' v h
theorem C08_once_order_RO (n : Node) (s s' : St) (v : Value) (h : n.evalRO s = (.ok v, s')) :
    s'.log.map (·.1) = s.log.map (·.1) ++ callSites s.ctx n :=
  Evalexpr.Spec.C08_once_order_RO n s s' v h
/-- `typeof((f(1), max(2, 3)))` with `typeof` shadowed (K2): the argument's `f` first, then
`typeof`, logged once although the builtin runs after it; `max` is a builtin and not a site -/
example :
    let tree : Node :=
      exCall cl!"typeof"
        ⟨.tuple, [exCall ['f'] (exLit 1), exCall cl!"max" ⟨.tuple, [exLit 2, exLit 3]⟩]⟩
    callSites exCtx tree = [['f'], cl!"typeof"] ∧
      (tree.evalMut ⟨exCtx, []⟩).2.log.map (·.1) = [['f'], cl!"typeof"] ∧
      resOk (tree.evalMut ⟨exCtx, []⟩).1 = true := by
  decide

/-- **C08 (failure: a prefix)**: when the evaluation fails, the calls made are an initial segment of
the application sites in post-order: in source order, none twice, none after the failure point -/
theorem C08_once_prefix (n : Node) (s s' : St) (e : Err) (h : n.evalMut s = (.error e, s')) :
    ∃ p, p <+: callSites s.ctx n ∧ s'.log.map (·.1) = s.log.map (·.1) ++ p :=
  Evalexpr.Spec.C08_once_prefix n s s' e h
theorem C08_once_prefix_RO (n : Node) (s s' : St) (e : Err) (h : n.evalRO s = (.error e, s')) :
    ∃ p, p <+: callSites s.ctx n ∧ s'.log.map (·.1) = s.log.map (·.1) ++ p :=
  Evalexpr.Spec.C08_once_prefix_RO n s s' e h
/-- whatever the result, no site is executed more than once -/
theorem C08_at_most_once (n : Node) (s : St) :
    (n.evalMut s).2.log.length ≤ s.log.length + fnCalls s.ctx n :=
  Evalexpr.Spec.C08_at_most_once n s
/-- `f(1) + (bad(2) + f(3))`: `f`, then `bad`, which fails; the second `f` is never called -/
example :
    let tree : Node :=
      ⟨.add, [exCall ['f'] (exLit 1), ⟨.add, [exCall cl!"bad" (exLit 2), exCall ['f'] (exLit 3)]⟩]⟩
    callSites exCtx tree = [['f'], cl!"bad", ['f']] ∧
      (tree.evalMut ⟨exCtx, []⟩).2.log.map (·.1) = [['f'], cl!"bad"] ∧
      resOk (tree.evalMut ⟨exCtx, []⟩).1 = false := by
  decide

/-- **C08 (operators applied once)**: the evaluator instrumented with a counter of
`Operator.evalMut` invocations computes the same result and state; on success the counter is the
number of nodes of the tree (with `C08_adequate`: one application per node), and it never exceeds
that number -/
theorem C08_ops_once (n : Node) (s : St) :
    ((evalMutCount n s).1, (evalMutCount n s).2.1) = n.evalMut s ∧
      (evalMutCount n s).2.2 ≤ nodeSize n ∧
      (∀ v s', n.evalMut s = (.ok v, s') → (evalMutCount n s).2.2 = nodeSize n) :=
  ⟨evalMutCount_result n s, C08_ops_at_most_once n s,
    fun v s' h => Evalexpr.Spec.C08_ops_once n s s' v h⟩
/-- `f(1) + f(2)`: five nodes, five applications; `bad(1) + f(2)`: the failing `bad` node is the
second and last application -/
example :
    let ok : Node := ⟨.add, [exCall ['f'] (exLit 1), exCall ['f'] (exLit 2)]⟩
    let ko : Node := ⟨.add, [exCall cl!"bad" (exLit 1), exCall ['f'] (exLit 2)]⟩
    nodeSize ok = 5 ∧ (evalMutCount ok ⟨exCtx, []⟩).2.2 = 5 ∧
      nodeSize ko = 5 ∧ (evalMutCount ko ⟨exCtx, []⟩).2.2 = 2 := by
  decide

end Evalexpr.Spec.C08
