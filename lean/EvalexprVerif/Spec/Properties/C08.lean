/-
C08 — Strict left-to-right evaluation; the first error wins.

The reference interpreter is the big-step relation `Spec.Eval` (Spec/BigStep.lean): children exactly
once each, in order, state threaded, first failing child ends the evaluation, operator applied once
afterwards. `C08_adequate`: the evaluator model computes exactly that relation, for every tree,
context and log. Proofs: Proofs/EvalOps, Proofs/EvalOrder.
-/
import EvalexprVerif.Proofs.EvalOrder

namespace Evalexpr.Spec.C08
open Evalexpr Evalexpr.Spec

/-- **C08 (main)**: the evaluator is the reference interpreter -/
theorem C08_adequate (n : Node) (s s' : St) (r : Res Value) : Eval n s r s' ↔ n.evalMut s = (r, s') :=
  Evalexpr.Spec.C08_adequate n s s' r
theorem C08_deterministic (n : Node) (s s₁ s₂ : St) (r₁ r₂ : Res Value)
    (h₁ : Eval n s r₁ s₁) (h₂ : Eval n s r₂ s₂) : r₁ = r₂ ∧ s₁ = s₂ :=
  Evalexpr.Spec.C08_deterministic n s s₁ s₂ r₁ r₂ h₁ h₂
/-- effects before the failing sub-expression persist, none after it occur -/
theorem C08_first_error (op : Operator) (pre post : List Node) (k : Node) (s s₁ s₂ : St)
    (vs : List Value) (e : Err)
    (hpre : evalMutList pre s = (.ok vs, s₁)) (hk : k.evalMut s₁ = (.error e, s₂)) :
    (Node.mk op (pre ++ k :: post)).evalMut s = (.error e, s₂) :=
  Evalexpr.Spec.C08_first_error op pre post k s s₁ s₂ vs e hpre hk
/-- all operands are evaluated before the operator is applied: no short-circuiting -/
theorem C08_all_operands (op : Operator) (cs : List Node) (s s' : St) (vs : List Value)
    (h : evalMutList cs s = (.ok vs, s')) : (Node.mk op cs).evalMut s = op.evalMut vs s' :=
  Evalexpr.Spec.C08_all_operands op cs s s' vs h
theorem C08_log_grows (n : Node) (s : St) : ∃ l, (n.evalMut s).2.log = s.log ++ l :=
  Evalexpr.Spec.C08_log_grows n s
/-- `false && f(1)` still calls `f` -/
theorem C08_no_short_circuit_example :
    let ctx : Ctx := .hashMap { funs := [(['f'], fun v => .ok v)] }
    let tree : Node := ⟨.and, [⟨.const (.boolean false), []⟩, ⟨.fn ['f'], [⟨.const (.int 1), []⟩]⟩]⟩
    (tree.evalMut ⟨ctx, []⟩).2.log = [(['f'], .int 1)] := Evalexpr.Spec.C08_no_short_circuit_example

end Evalexpr.Spec.C08
