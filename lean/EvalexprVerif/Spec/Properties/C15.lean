/-
C15 — Expressions, values and contexts are safe to share across threads.
What a theorem carries: read-only evaluation has no write in its footprint (`C15_frame`), its result
does not depend on what other evaluations logged (`C15_log_irrelevant`), hence ANY order of whole
evaluations over one shared context gives every job exactly its stand-alone result and leaves the
context unchanged (`C15_schedule`). The premise that evaluation touches nothing but its arguments is
the purity inventory re-extracted from the source on every run (`impureSites_agree`: no static, no
interior mutability, no lock, no atomic, no `unsafe`, no `Rc`; `crateAttrs_forbid_unsafe`).
Send + Sync of the 8 public types is decided by rustc (compile-time assertions in the harness).
Interleavings INSIDE evaluations are covered at the level of the model by the small-step machine of
`Spec/SmallStep.lean` (second half of this file: `C15_one_access`, `C15_smallstep_adequate`,
`C15_interleaving*`): every step reads the shared context at most once and never writes it, the
machine computes exactly `Node.evalRO`, and under EVERY schedule of single steps each thread obtains
its sequential result. That the compiled Rust performs no access to shared memory other than those
reads rests on the purity inventory and on rustc's aliasing guarantee for `&`; the real interleavings
are sampled (2–96 threads sharing Arc<Node> and Arc<context>).
-/
import EvalexprVerif.Proofs.EvalOrder
import EvalexprVerif.Proofs.AgreePurity
import EvalexprVerif.Proofs.Interleave
import EvalexprVerif.Proofs.AgreeFnTree

namespace Evalexpr.Spec.C15
open Evalexpr Evalexpr.Spec

theorem C15_frame (n : Node) (s : St) : (n.evalRO s).2.ctx = s.ctx := Evalexpr.Spec.C11_readonly n s
/-- the same about the code as translated on this run (`Gen.Node.eval_with_context`: the rendered body of
`Node::eval_with_context`) -/
theorem C15_frame_generated (n : Node) (s : St) : (Gen.Node.eval_with_context n s).2.ctx = s.ctx := by
  rw [AgreeFn.fn_Node_eval_with_context_agree]; exact C15_frame n s
theorem C15_log_irrelevant (n : Node) (c : Ctx) (l : List (Str × Value)) :
    (n.evalRO ⟨c, l⟩).1 = (n.evalRO ⟨c, []⟩).1 ∧
      (n.evalRO ⟨c, l⟩).2.log = l ++ (n.evalRO ⟨c, []⟩).2.log := Evalexpr.Spec.C15_log_irrelevant n c l
/-- **C15 (schedule independence, evaluation granularity)** -/
theorem C15_schedule (jobs : List Node) (c : Ctx) (l : List (Str × Value)) :
    (runSchedule jobs ⟨c, l⟩).1 = jobs.map (fun j => (j.evalRO ⟨c, []⟩).1) ∧
      (runSchedule jobs ⟨c, l⟩).2.ctx = c := Evalexpr.Spec.C15_schedule jobs c l
/-- in particular any two orders of the same jobs give each job the same result -/
theorem C15_permutation (jobs jobs' : List Node) (c : Ctx) (h : jobs'.Perm jobs) (j : Node) :
    (j, (j.evalRO ⟨c, []⟩).1) ∈ jobs.zip (runSchedule jobs ⟨c, []⟩).1 ↔
      (j, (j.evalRO ⟨c, []⟩).1) ∈ jobs'.zip (runSchedule jobs' ⟨c, []⟩).1 := by
  rw [(C15_schedule jobs c []).1, (C15_schedule jobs' c []).1]
  have hz : ∀ js : List Node, (j, (j.evalRO ⟨c, []⟩).1) ∈ js.zip (js.map fun j => (j.evalRO ⟨c, []⟩).1) ↔ j ∈ js := by
    intro js
    induction js with
    | nil => simp
    | cons a as ih =>
      simp only [List.map_cons, List.zip_cons_cons, List.mem_cons, Prod.mk.injEq]
      constructor
      · rintro (⟨rfl, _⟩ | h)
        · exact Or.inl rfl
        · exact Or.inr (ih.mp h)
      · rintro (rfl | h)
        · exact Or.inl ⟨rfl, rfl⟩
        · exact Or.inr (ih.mpr h)
  rw [hz, hz]
  exact (h.mem_iff).symm

/-! ### C15 at the granularity of single context accesses

`C15_schedule` above interleaves WHOLE evaluations. The statements below interleave INSIDE
evaluations: every thread is a small-step machine (`Spec/SmallStep.lean`: control stack of frames —
operator, argument values computed so far, remaining children — plus the thread's OWN call log), a
step performs at most ONE read of the shared context (`get_value`, the user-function lookup of
`call_function`, `are_builtin_functions_disabled`; `C15_one_access`) and is otherwise thread-local;
the machine computes exactly `Node.evalRO` (`C15_smallstep_adequate`); a schedule is an ARBITRARY
`List Nat` of thread indices (out-of-range indices are no-ops, finished threads stutter), and the
threads may evaluate different trees — "the same precompiled expression" is `C15_interleaving_same`.
The shared context is a parameter of `Machine.step` / `Machine.runSched` and not part of any state:
that it is never changed holds by the types alone.
What this does NOT carry: that the compiled Rust code performs no other access to shared memory than
the model's three reads (that is the purity inventory + rustc's `&` guarantee, see the header). -/

section Interleaving
open Evalexpr.Machine

/-- every step is thread-local, or depends on the shared context through the answer to ONE read that
the thread's own state determines -/
theorem C15_one_access (st : MState) :
    (∃ st', ∀ c, step c st = st') ∨
      (∃ (q : Access) (k : q.Ans → MState), ∀ c, step c st = k (read c q)) :=
  Machine.step_one_access st

/-- **adequacy of the machine**: any fuel `f ≥ bound n` (linear in the size of `n`) runs the initial
state of `(n, log)` to the terminal state carrying exactly the result and the final log of
`n.evalRO ⟨c, log⟩` -/
theorem C15_smallstep_adequate (c : Ctx) (n : Node) (log : List (Str × Value)) (f : Nat)
    (hf : bound n ≤ f) :
    run c f (init n log) = ⟨.finished (n.evalRO ⟨c, log⟩).1, [], (n.evalRO ⟨c, log⟩).2.log⟩ :=
  Machine.adequacy c n log f hf

/-- **C15 (interleaving, access granularity).** `ns[i] = n` is the tree of thread `i`; all threads
share `c`. For EVERY schedule:
1. the state of thread `i` after the schedule is the state it reaches ALONE after as many steps as
   the schedule gave it;
2. whenever thread `i` is finished after the schedule, its result and its log are exactly those of
   the sequential `n.evalRO ⟨c, []⟩`;
3. if the schedule gave thread `i` at least `bound n` steps, it is finished (with that result);
4. once finished it stays finished, in the same state, however the schedule continues. -/
theorem C15_interleaving (c : Ctx) (ns : List Node) (sched : List Nat) (i : Nat) (n : Node)
    (hn : ns[i]? = some n) :
    (runSched c sched (initSys ns))[i]? = some (run c (sched.count i) (init n [])) ∧
    (∀ st r l, (runSched c sched (initSys ns))[i]? = some st → st.result? = some (r, l) →
      r = (n.evalRO ⟨c, []⟩).1 ∧ l = (n.evalRO ⟨c, []⟩).2.log) ∧
    (bound n ≤ sched.count i →
      (runSched c sched (initSys ns))[i]? =
        some ⟨.finished (n.evalRO ⟨c, []⟩).1, [], (n.evalRO ⟨c, []⟩).2.log⟩) ∧
    (∀ st r l sched', (runSched c sched (initSys ns))[i]? = some st → st.result? = some (r, l) →
      (runSched c (sched ++ sched') (initSys ns))[i]? = some st) :=
  ⟨by rw [Machine.interleave_init, hn]; rfl,
   fun st r l hst hr => Machine.interleave_result c sched ns i n st r l hn hst hr,
   fun hf => Machine.interleave_finishes c sched ns i n hn hf,
   fun st r l sched' hst hr => Machine.interleave_stable c sched sched' _ i st r l hst hr⟩

/-- part 1 for an arbitrary system state (not only initial ones) -/
theorem C15_interleaving_state (c : Ctx) (sched : List Nat) (sys : List MState) (i : Nat) :
    (runSched c sched sys)[i]? = sys[i]?.map (run c (sched.count i)) :=
  Machine.interleave_state c sched sys i

/-- all threads at once: under every schedule that lets each thread move at least `bound` times,
every thread ends finished and the (result, log) pairs are those of the sequential evaluations -/
theorem C15_interleaving_all (c : Ctx) (sched : List Nat) (ns : List Node)
    (hfair : FairFor ns sched) :
    (runSched c sched (initSys ns)).map MState.result? =
      ns.map (fun n => some ((n.evalRO ⟨c, []⟩).1, (n.evalRO ⟨c, []⟩).2.log)) :=
  Machine.interleave_all c sched ns hfair

/-- the property as worded: `k` threads, the SAME expression, the same shared context -/
theorem C15_interleaving_same (c : Ctx) (n : Node) (k : Nat) (sched : List Nat)
    (hfair : ∀ i, i < k → bound n ≤ sched.count i) :
    (runSched c sched (initSys (List.replicate k n))).map MState.result? =
      List.replicate k (some ((n.evalRO ⟨c, []⟩).1, (n.evalRO ⟨c, []⟩).2.log)) := by
  rw [C15_interleaving_all c sched _ ?_, List.map_replicate]
  intro i m hm
  rw [List.getElem?_replicate] at hm
  split at hm
  · cases hm; exact hfair i ‹_›
  · cases hm

/-- such schedules exist: round robin (`0, 1, …, k-1` repeated) with enough rounds -/
theorem C15_fair_exists (ns : List Node) (rounds : Nat) (h : ∀ n, n ∈ ns → bound n ≤ rounds) :
    FairFor ns (roundRobin ns.length rounds) := Machine.fairFor_roundRobin ns rounds h

/-- non-vacuity, evaluated: two threads evaluate `x + f(1)` (a variable read and a user-function
call) over one shared context under the alternating schedule `0,1,0,1,…`. After 10 moves each, both
are strictly inside their evaluations; thread 0 alone ahead by its whole evaluation changes nothing
for thread 1; after 21 moves each, both are finished with `42` and their own log `[f(1)]`. -/
example :
    let c : Ctx := .hashMap { vars := [(['x'], .int 41)], funs := [(['f'], fun v => .ok v)] }
    let t : Node := ⟨.add, [⟨.varRead ['x'], []⟩, ⟨.fn ['f'], [⟨.const (.int 1), []⟩]⟩]⟩
    roundRobin 2 3 = [0, 1, 0, 1, 0, 1] ∧
    (runSched c (roundRobin 2 10) (initSys [t, t])).map MState.isFinished = [false, false] ∧
    (runSched c (List.replicate 21 0 ++ roundRobin 2 10) (initSys [t, t])).map MState.isFinished
      = [true, false] ∧
    (runSched c (roundRobin 2 21) (initSys [t, t])).map MState.result? =
      [some (.ok (.int 42), [(['f'], .int 1)]), some (.ok (.int 42), [(['f'], .int 1)])] := by
  refine ⟨rfl, rfl, rfl, rfl⟩

/-- non-vacuity, by the theorem: the same system under 31 rounds of alternation (`bound t = 31`) -/
example :
    let c : Ctx := .hashMap { vars := [(['x'], .int 41)], funs := [(['f'], fun v => .ok v)] }
    let t : Node := ⟨.add, [⟨.varRead ['x'], []⟩, ⟨.fn ['f'], [⟨.const (.int 1), []⟩]⟩]⟩
    (runSched c (roundRobin 2 31) (initSys [t, t])).map MState.result? =
      [t, t].map (fun n => some ((n.evalRO ⟨c, []⟩).1, (n.evalRO ⟨c, []⟩).2.log)) := by
  intro c t
  refine C15_interleaving_all c _ [t, t] (C15_fair_exists [t, t] 31 ?_)
  intro n hn
  simp only [List.mem_cons, List.not_mem_nil, or_false, or_self] at hn
  subst hn
  decide

end Interleaving

end Evalexpr.Spec.C15
