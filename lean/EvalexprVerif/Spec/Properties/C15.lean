/-
C15 — Expressions, values and contexts are safe to share across threads.
What a theorem carries: read-only evaluation has no write in its footprint (`C15_frame`), its result
does not depend on what other evaluations logged (`C15_log_irrelevant`), hence ANY order of whole
evaluations over one shared context gives every job exactly its stand-alone result and leaves the
context unchanged (`C15_schedule`). The premise that evaluation touches nothing but its arguments is
the purity inventory re-extracted from the source on every run (`impureSites_agree`: no static, no
interior mutability, no lock, no atomic, no `unsafe`, no `Rc`; `crateAttrs_forbid_unsafe`).
Send + Sync of the 8 public types is decided by rustc (compile-time assertions in the harness);
interleavings INSIDE one evaluation rest on rustc's aliasing guarantee for `&` and are only sampled
(2–16 threads sharing Arc<Node> and Arc<context>).
-/
import EvalexprVerif.Proofs.EvalOrder
import EvalexprVerif.Proofs.AgreePurity

namespace Evalexpr.Spec.C15
open Evalexpr Evalexpr.Spec

theorem C15_frame (n : Node) (s : St) : (n.evalRO s).2.ctx = s.ctx := Evalexpr.Spec.C11_readonly n s
theorem C15_log_irrelevant (n : Node) (c : Ctx) (l : List (Str × Value)) :
    (n.evalRO ⟨c, l⟩).1 = (n.evalRO ⟨c, []⟩).1 ∧
      (n.evalRO ⟨c, l⟩).2.log = l ++ (n.evalRO ⟨c, []⟩).2.log := Evalexpr.Spec.C15_log_irrelevant n c l
/-- **C15 (schedule independence, evaluation granularity)** -/
theorem C15_schedule (jobs : List Node) (c : Ctx) (l : List (Str × Value)) :
    (runSchedule jobs ⟨c, l⟩).1 = jobs.map (fun j => (j.evalRO ⟨c, []⟩).1) ∧
      (runSchedule jobs ⟨c, l⟩).2.ctx = c := Evalexpr.Spec.C15_schedule jobs c l
/-- in particular any two orders of the same jobs give each job the same result -/
theorem C15_permutation (jobs jobs' : List Node) (c : Ctx) (h : jobs'.Perm jobs) (j : Node) :
    (j, (j.evalRO ⟨c, []⟩).1) ∈ jobs.zip (runSchedule jobs ⟨c, []⟩).1 ↔
      (j, (j.evalRO ⟨c, []⟩).1) ∈ jobs'.zip (runSchedule jobs' ⟨c, []⟩).1 := by
  rw [(C15_schedule jobs c []).1, (C15_schedule jobs' c []).1]
  have hz : ∀ js : List Node, (j, (j.evalRO ⟨c, []⟩).1) ∈ js.zip (js.map fun j => (j.evalRO ⟨c, []⟩).1) ↔ j ∈ js := by
    intro js
    induction js with
    | nil => simp
    | cons a as ih =>
      simp only [List.map_cons, List.zip_cons_cons, List.mem_cons, Prod.mk.injEq]
      constructor
      · rintro (⟨rfl, _⟩ | h)
        · exact Or.inl rfl
        · exact Or.inr (ih.mp h)
      · rintro (rfl | h)
        · exact Or.inl ⟨rfl, rfl⟩
        · exact Or.inr (ih.mpr h)
  rw [hz, hz]
  exact (h.mem_iff).symm

end Evalexpr.Spec.C15
