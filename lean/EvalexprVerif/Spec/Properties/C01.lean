/-
C01 — The library never panics, whatever the input.
Every model function returns `.error (.panic site)` exactly where the Rust has an `unwrap()`,
`unreachable!()`, slice index, … ; C01 is the statement that this outcome is unreachable:
`C01_lex` (every string), `C01_build` (EVERY token sequence: a stack-shape invariant shows the
`unwrap`s of insert_back_prioritized and both `unreachable!()`s of the token loop cannot fire),
`C01_eval_mut` / `C01_eval_ro` (every tree — also ill-formed and hand-built ones — in every context
whose user functions do not panic), `C10_no_panic` (every builtin on every argument), and
`C01_run_string` / `C01_run_tree`: all 48 entry points. `C01_depth`: the tree is no deeper than
(#tokens + #separators + 1), which bounds every recursion by the input length (the README tells users
to bound input length). The inventory of potentially panicking constructs is re-extracted from the
source on every run and proved equal to the audited list (`panicSites_agree`): a new `unwrap`, index
or `unreachable!` is a broken obligation.
PARTIAL (runtime, not modelled): stack and heap are unbounded in the model. The harness measures that
the maximal nestings of a 4096-character input fit an 8 MiB stack; memory exhaustion by exponential
value growth within the 4096-character bound is known finding K1.
Proofs: Proofs/NoPanic*.lean, Proofs/Malformed*.lean, Proofs/BuiltinMeets.
-/
import EvalexprVerif.Proofs.NoPanic
import EvalexprVerif.Proofs.BuiltinMeets
import EvalexprVerif.Proofs.AgreePanic
import EvalexprVerif.Proofs.ParseLoose
import EvalexprVerif.Proofs.AgreeFnTree

namespace Evalexpr.Spec.C01
open Evalexpr Evalexpr.Spec

theorem builtinsNoPanic : BuiltinsNoPanic := fun b arg => Evalexpr.Spec.C10_no_panic b arg

theorem C01_lex (s : List Char) : (tokenize s).isPanic = false := Evalexpr.Spec.C01_lex s
theorem C01_build (ts : List Token) : (tokensToOperatorTree ts).isPanic = false := Evalexpr.Spec.C01_build ts
theorem C01_build_string (s : List Char) : (buildOperatorTree s).isPanic = false :=
  Evalexpr.Spec.C01_build_string s
theorem C01_builtin (b : Builtin) (arg : Value) : (b.call arg).isPanic = false := Evalexpr.Spec.C10_no_panic b arg
theorem C01_eval_mut (n : Node) (s : St) (hc : NoPanicCtx s.ctx) :
    (n.evalMut s).1.isPanic = false ∧ NoPanicCtx (n.evalMut s).2.ctx :=
  Evalexpr.Spec.C01_eval_mut builtinsNoPanic n s hc
theorem C01_eval_ro (n : Node) (s : St) (hc : NoPanicCtx s.ctx) :
    (n.evalRO s).1.isPanic = false ∧ NoPanicCtx (n.evalRO s).2.ctx :=
  Evalexpr.Spec.C01_eval_ro builtinsNoPanic n s hc
/-- **C01 (all 48 entry points)** -/
theorem C01_run_tree (k : Kind) (m : Mode) (n : Node) (s : St) (hc : NoPanicCtx s.ctx) :
    (runTree k m n s).1.isPanic = false := Evalexpr.Spec.C01_run_tree builtinsNoPanic k m n s hc
theorem C01_run_string (k : Kind) (m : Mode) (src : List Char) (s : St) (hc : NoPanicCtx s.ctx) :
    (runString k m src s).1.isPanic = false := Evalexpr.Spec.C01_run_string builtinsNoPanic k m src s hc
/-- recursion depth is bounded by the input length -/
theorem C01_depth (ts : List Token) (t : Node) (h : tokensToOperatorTree ts = .ok t) :
    Node.depth t ≤ 2 * ts.length + 1 := Evalexpr.Spec.C01_depth_linear ts t h

/-- … in terms of the input string: no deeper than twice its length plus one -/
theorem C01_depth_string (s : List Char) (t : Node) (h : buildOperatorTree s = .ok t) :
    Node.depth t ≤ 2 * s.length + 1 := by
  unfold buildOperatorTree at h
  cases ht : tokenize s with
  | error e => rw [ht] at h; cases h
  | ok ts =>
    rw [ht] at h
    have h1 := C01_depth ts t h
    have h2 := Evalexpr.Spec.tokenize_length s ts ht
    omega

/-! ### the same about the code AS TRANSLATED on this run

`Generated/FnOperator.lean` / `FnTree.lean` are the bodies of `Operator::eval`, `Operator::eval_mut`,
`Node::eval_with_context` and `Node::eval_with_context_mut` rendered by `translate_fn.py`, with every slice index
(`arguments[0]`, `arguments[1]`), `unwrap()` and `unreachable!()` of the Rust text kept as an explicit panic outcome
(`Rs.index`, `Rs.unwrap`, `Rs.panic`). Through the agreement theorems the no-panic theorems above are statements about
that text: none of these sites can fire, for any tree (also hand-built, wrong-arity ones), argument list and context. -/

theorem C01_generated_eval_ro (n : Node) (s : St) (hc : NoPanicCtx s.ctx) :
    (Gen.Node.eval_with_context n s).1.isPanic = false := by
  rw [AgreeFn.fn_Node_eval_with_context_agree]; exact (C01_eval_ro n s hc).1
theorem C01_generated_eval_mut (n : Node) (s : St) (hc : NoPanicCtx s.ctx) :
    (Gen.Node.eval_with_context_mut n s).1.isPanic = false := by
  rw [AgreeFn.fn_Node_eval_with_context_mut_agree]; exact (C01_eval_mut n s hc).1
/-- the operator application alone, on ANY argument list (wrong lengths included: the index sites are guarded) -/
theorem C01_generated_operator_eval (op : Operator) (args : List Value) (s : St) (hc : NoPanicCtx s.ctx) :
    (Gen.Operator.eval_mut op args s).1.isPanic = false := by
  rw [AgreeFn.fn_Operator_eval_mut_agree]
  have h := C01_eval_mut ⟨op, args.map (fun v => ⟨.const v, []⟩)⟩ s hc
  have hl : ∀ (vs : List Value) (s : St), evalMutList (vs.map (fun v => (⟨.const v, []⟩ : Node))) s = (.ok vs, s) := by
    intro vs
    induction vs with
    | nil => intro s; rfl
    | cons v vs ih => intro s; simp [evalMutList, Node.evalMut, ih, Operator.evalMut, Operator.eval, Operator.evalPure]
  simp only [Node.evalMut, hl] at h
  exact h.1

/-- the three provided kinds of context satisfy the hypothesis when their user functions do -/
example : NoPanicCtx .empty := fun _ _ _ h => by cases h
example : NoPanicCtx .emptyWithBuiltins := fun _ _ _ h => by cases h
example : NoPanicCtx (.hashMap {}) := fun _ _ _ h => by cases h

end Evalexpr.Spec.C01
