/-
C10 — Builtin functions compute what the documentation says.
`C10_builtin_gen`: EVERY builtin on EVERY argument value meets the reference `Spec.refBuiltin`
(written from the README's function table): the exact value, an error where the documentation says
error (never a made-up value, never a panic), an argument that bounds all arguments for min/max, no
panic at the unclaimed points — 49 per-builtin lemmas, among them value-exact shifts
(`shl_exact`/`shr_exact`), checked `abs`, byte-consistent `len`/`str::substring`.
Two side conditions, both explicit in the statement:
 * `SizeOk arg` for `len` only (a string / tuple of ≥ 2^63 bytes / elements — which cannot exist —
   would make `from_usize` fail; without it the statement is false: `C10_len_counterexample`);
 * `FloatOrderLaws` for min/max only when ints and floats are MIXED: two facts about the
   i64→f64 conversion (never NaN, monotone). `Int64.toFloat` is an opaque constant of Lean core,
   so they cannot be proved; they are hypotheses, not axioms. Everything about the order of doubles
   themselves is proved from core's IEEE model (Proofs/FloatOrder.lean).
`C10_builtin_unconditional` covers the other 46 builtins with no hypothesis at all.
Proofs: Proofs/BuiltinBasic, BuiltinSubstring, BuiltinShift, FloatOrder, BuiltinMinMax, BuiltinMeets.
-/
import EvalexprVerif.Proofs.BuiltinMeets
import EvalexprVerif.Proofs.AgreeBuiltin
import EvalexprVerif.Proofs.AgreeNumeric
import EvalexprVerif.Proofs.AgreeFnBuiltin

namespace Evalexpr.Spec.C10
open Evalexpr Evalexpr.Spec

/-- **C10 (main)** -/
theorem C10_builtin_gen (b : Builtin) (arg : Value)
    (hsz : b = .len → SizeOk arg)
    (hl : b = .min ∨ b = .max → MixedArgs (minMaxArgs arg) → FloatOrderLaws) :
    MeetsB (b.call arg) (refBuiltin b arg) := Evalexpr.Spec.C10_builtin_gen b arg hsz hl
theorem C10_builtin_unconditional (b : Builtin) (arg : Value)
    (h1 : b ≠ .len) (h2 : b ≠ .min) (h3 : b ≠ .max) : MeetsB (b.call arg) (refBuiltin b arg) :=
  Evalexpr.Spec.C10_builtin_unconditional b arg h1 h2 h3
theorem C10_len (arg : Value) (h : SizeOk arg) : MeetsB (Builtin.call .len arg) (refBuiltin .len arg) :=
  Evalexpr.Spec.C10_len arg h
theorem C10_len_counterexample :
    ¬ MeetsB (Builtin.call .len (.tuple (List.replicate (2 ^ 63) .empty)))
      (refBuiltin .len (.tuple (List.replicate (2 ^ 63) .empty))) := Evalexpr.Spec.C10_len_counterexample
/-- min/max: unconditional unless ints and floats are mixed -/
theorem C10_minmax_unmixed (arg : Value) (h : ¬ MixedArgs (minMaxArgs arg)) :
    MeetsB (Builtin.call .min arg) (refBuiltin .min arg) ∧
    MeetsB (Builtin.call .max arg) (refBuiltin .max arg) := Evalexpr.Spec.C10_minmax_unmixed arg h
theorem C10_minmax (laws : FloatOrderLaws) (arg : Value) :
    MeetsB (Builtin.call .min arg) (refBuiltin .min arg) ∧
    MeetsB (Builtin.call .max arg) (refBuiltin .max arg) := Evalexpr.Spec.C10_minmax laws arg
/-- no builtin ever panics, on any argument (used by C01) -/
theorem C10_no_panic (b : Builtin) (arg : Value) : (b.call arg).isPanic = false := Evalexpr.Spec.C10_no_panic b arg
/-- shifts by 0..63 are exact two's-complement shifts -/
theorem C10_shl_exact (a k : Int64) (h0 : 0 ≤ k.toInt) (h1 : k.toInt ≤ 63) :
    a <<< k = Int64.ofInt (a.toInt * 2 ^ k.toInt.toNat) := shl_exact a k h0 h1
theorem C10_shr_exact (a k : Int64) (h0 : 0 ≤ k.toInt) (h1 : k.toInt ≤ 63) :
    a >>> k = Int64.ofInt (a.toInt / 2 ^ k.toInt.toNat) := shr_exact a k h0 h1
/-- `len` and `str::substring` use the same unit -/
theorem C10_len_substring (s t : Str) (a b : Int64)
    (h : Builtin.call .strSubstring (.tuple [.string s, .int a, .int b]) = .ok (.string t)) :
    (utf8Len t : Int) = b.toInt - a.toInt := Evalexpr.Spec.C10_len_substring s t a b h
theorem C10_substring_full (s : Str) (hs : utf8Len s < 2 ^ 63) :
    Builtin.call .strSubstring (.tuple [.string s, .int 0, .int (Int64.ofNat (utf8Len s))]) = .ok (.string s) :=
  Evalexpr.Spec.C10_substring_full s hs
theorem C10_math_type_error (arg : Value) (h : num? arg = none) :
    ∃ e, Builtin.call .sin arg = .error e ∧ e.isPanic = false := Evalexpr.Spec.C10_math_type_error arg h

/-- the side conditions are satisfiable at ordinary arguments -/
example : SizeOk (.string cl!"äb") := by show utf8Len cl!"äb" < 2 ^ 63; decide
example : ¬ MixedArgs (minMaxArgs (.tuple [.float 1.5, .float 2.5])) := by
  rintro ⟨⟨i, hi⟩, _⟩
  simp [minMaxArgs] at hi
/-- `math::abs` of the minimal integer is an error (the defect repaired by 29fd79a panicked) -/
example : ∃ e, Builtin.call .abs (.int (-9223372036854775808)) = .error e ∧ e.isPanic = false := by
  have := C10_builtin_unconditional .abs (.int (-9223372036854775808)) (by decide) (by decide) (by decide)
  exact this

/-- **C10 about the code as translated on this run**: `Gen.builtin_function` is the body of `builtin_function`
(src/function/builtin.rs) rendered by `translate_fn.py` — the dispatch on the name, every closure, the expansions of
`simple_math!` / `int_function!`. Whatever name it resolves, the resolved closure meets the documented reference on every
argument (under the two stated hypotheses for `len` / mixed `min` / `max`), and it resolves exactly the documented names. -/
theorem C10_builtin_generated (id : Str) (arg : Value) (f : Value → Res Value)
    (hf : Gen.builtin_function id = some f) :
    ∃ b, builtinFunction id = some b ∧ f arg = b.call arg ∧
      ((b = .len → SizeOk arg) → (b = .min ∨ b = .max → MixedArgs (minMaxArgs arg) → FloatOrderLaws) →
        MeetsB (f arg) (refBuiltin b arg)) := by
  have h := AgreeFn.fn_builtin_function_agree id arg
  rw [hf] at h
  cases hb : builtinFunction id with
  | none => rw [hb] at h; cases h
  | some b =>
    rw [hb] at h
    simp only [Option.map_some, Option.some.injEq] at h
    exact ⟨b, rfl, h, fun h1 h2 => h ▸ C10_builtin_gen b arg h1 h2⟩

end Evalexpr.Spec.C10
