/-
C09 — Function resolution: call forms, shadowing and the builtin switch.
The full statement "a function defined in the context always takes precedence" is FALSE of the code
(known finding K2, witness `C09_K2_witness`): a context function that itself answers
FunctionIdentifierNotFound is replaced by the builtin. Proved: resolution whenever the context
function answers anything else, the fallback and the switch for all three context kinds, separate
namespaces, and the call forms (instances of C02_parse / C05_tree). Proofs: Proofs/ContextRefine.
-/
import EvalexprVerif.Proofs.ContextRefine
import EvalexprVerif.Proofs.ParseSeq
import EvalexprVerif.Proofs.AgreeBuiltin
import EvalexprVerif.Proofs.AgreeContext
import EvalexprVerif.Proofs.AgreeToken
import EvalexprVerif.Proofs.AgreeFnOperator

namespace Evalexpr.Spec.C09
open Evalexpr Evalexpr.Spec

/-- the property's resolution clause at full strength — false at K2 -/
def C09_resolution_full : Prop :=
  ∀ (id : Str) (arg : Value) (s : St) (f : UserFn), s.ctx.userFn id = some f →
    (callFunction id arg s).1 = f arg

theorem C09_K2_witness :
    let f : UserFn := fun _ => .error (.functionIdentifierNotFound ['z', 'z'])
    let s : St := ⟨.hashMap { funs := [(cl!"max", f)] }, []⟩
    (callFunction cl!"max" (.tuple [.int 1, .int 3]) s).1 = .ok (.int 3) := Evalexpr.Spec.C09_K2_witness

theorem C09_resolution_full_false : ¬ C09_resolution_full := by
  intro h
  have h1 := h cl!"max" (.tuple [.int 1, .int 3])
    ⟨.hashMap { funs := [(cl!"max", fun _ => .error (.functionIdentifierNotFound ['z', 'z']))] }, []⟩
    (fun _ => .error (.functionIdentifierNotFound ['z', 'z'])) rfl
  have h2 := C09_K2_witness
  simp only at h2
  rw [h2] at h1
  cases h1

/-- **C09 (partial)**: everything but the K2 corner -/
theorem C09_resolution_partial (id : Str) (arg : Value) (s : St) (f : UserFn)
    (hf : s.ctx.userFn id = some f) (hne : ∀ x, f arg ≠ .error (.functionIdentifierNotFound x)) :
    callFunction id arg s = (f arg, { s with log := s.log ++ [(id, arg)] }) :=
  Evalexpr.Spec.C09_resolution_partial id arg s f hf hne
theorem C09_fallback (id : Str) (arg : Value) (s : St) (hf : s.ctx.userFn id = none) :
    callFunction id arg s =
      (if s.ctx.builtinsDisabled then .error (.functionIdentifierNotFound id)
       else match builtinFunction id with
         | some b => b.call arg
         | none => .error (.functionIdentifierNotFound id), s) := Evalexpr.Spec.C09_fallback id arg s hf
theorem C09_all_builtins_unknown (p : Str × Builtin) (hp : p ∈ builtinTable) (arg : Value) (s : St)
    (hf : s.ctx.userFn p.1 = none) (hd : s.ctx.builtinsDisabled = true) :
    (Operator.eval (.fn p.1) [arg] s).1 = .error (.functionIdentifierNotFound p.1) :=
  Evalexpr.Spec.C09_all_builtins_unknown p hp arg s hf hd
theorem C09_builtin_lookup (p : Str × Builtin) (hp : p ∈ builtinTable) : builtinFunction p.1 = some p.2 :=
  Evalexpr.Spec.C09_builtin_lookup p hp
theorem C09_policy_empty : Ctx.builtinsDisabled .empty = true ∧ (∀ id, Ctx.userFn .empty id = none) ∧
    Ctx.setBuiltinsDisabled .empty false = .error .builtinFunctionsCannotBeEnabled := Evalexpr.Spec.C09_policy_empty
theorem C09_policy_emptyWithBuiltins : Ctx.builtinsDisabled .emptyWithBuiltins = false ∧
    (∀ id, Ctx.userFn .emptyWithBuiltins id = none) ∧
    Ctx.setBuiltinsDisabled .emptyWithBuiltins true = .error .builtinFunctionsCannotBeDisabled :=
  Evalexpr.Spec.C09_policy_emptyWithBuiltins
theorem C09_switch_untouched (h : HashMapCtx) :
    h.clearVariables.noBuiltins = h.noBuiltins ∧ h.clearFunctions.noBuiltins = h.noBuiltins ∧
      h.clear.noBuiltins = h.noBuiltins := Evalexpr.Spec.C09_switch_untouched h
theorem C09_namespaces (h : HashMapCtx) (fs : List (Str × UserFn)) (vs : List (Str × Value)) (id : Str) :
    Ctx.getValue (.hashMap { h with funs := fs }) id = Ctx.getValue (.hashMap h) id ∧
    Ctx.userFn (.hashMap { h with vars := vs }) id = Ctx.userFn (.hashMap h) id :=
  Evalexpr.Spec.C09_namespaces h fs vs id

/-! ### call forms (instances of the parse theorems) -/
/-- `f x` is `f(x)`; `f g x` is `f(g(x))` -/
theorem C09_form_juxtaposition (f g x : Str) :
    tokensToOperatorTree [.identifier f, .identifier g, .identifier x] =
      .ok ⟨.rootNode, [⟨.fn f, [⟨.fn g, [⟨.varRead x, []⟩]⟩]⟩]⟩ :=
  Evalexpr.Spec.C02_parse (.call f (.call g (.var x)))
/-- `f(a, b)` passes the 2-tuple; `f()` passes the empty value -/
theorem C09_form_tuple (a b : Str) :
    tokensToOperatorTree [.lBrace, .identifier a, .comma, .identifier b, .rBrace] =
      .ok ⟨.rootNode, [⟨.rootNode, [⟨.tuple, [⟨.rootNode, [⟨.varRead a, []⟩]⟩, ⟨.rootNode, [⟨.varRead b, []⟩]⟩]⟩]⟩]⟩ :=
  Evalexpr.Spec.C05_tree [[some (.group [[some (.expr (.var a)), some (.expr (.var b))]])]] rfl

/-! ### about the code as translated on this run
`Gen.Operator.eval (.fn id) [arg]` is the `FunctionIdentifier` arm of `Operator::eval` (src/operator/mod.rs) rendered by
`translate_fn.py`, calling the rendered `builtin_function`. -/

/-- a function the context defines takes precedence (unless it answers with the unknown-function error itself: K2) -/
theorem C09_resolution_partial_generated (id : Str) (arg : Value) (s : St) (f : UserFn)
    (hf : s.ctx.userFn id = some f) (hne : ∀ x, f arg ≠ .error (.functionIdentifierNotFound x)) :
    Gen.Operator.eval (.fn id) [arg] s = (f arg, { s with log := s.log ++ [(id, arg)] }) := by
  rw [AgreeFn.fn_Operator_eval_agree]
  show callFunction id arg s = _
  exact C09_resolution_partial id arg s f hf hne

/-- builtins are consulted only if the context defines no such function and has not disabled them -/
theorem C09_fallback_generated (id : Str) (arg : Value) (s : St) (hf : s.ctx.userFn id = none) :
    Gen.Operator.eval (.fn id) [arg] s =
      (if s.ctx.builtinsDisabled then .error (.functionIdentifierNotFound id)
       else match builtinFunction id with
         | some b => b.call arg
         | none => .error (.functionIdentifierNotFound id), s) := by
  rw [AgreeFn.fn_Operator_eval_agree]
  show callFunction id arg s = _
  exact C09_fallback id arg s hf

end Evalexpr.Spec.C09
