/-
C16 — Serde support round-trips expressions and contexts.
Modelled part (Model/Serde.lean, over the serde data model): `C16_node` (deserializing an expression
is precompiling the string: same tree, same error), `C16_value` (every value, nested tuples by
induction, floats carried as f64 hence bit-exact), `C16_context` / `C16_nofun` (a context round-trips
to identical variables and builtin switch, and resolves no user function). The shape the derives
prescribe is re-extracted from the source (`serdeShape_agree`: derives present, `serde(skip)` on
`functions`, the three fields, `visit_str` ↦ `build_operator_tree`, `E::custom(error)`).
PARTIAL: `serde_derive` and the concrete format (`ron`) are third-party code, exercised by the
harness (ron round trips of strings and contexts against the real crate), not modelled.
-/
import EvalexprVerif.Proofs.SerdeRoundtrip
import EvalexprVerif.Proofs.AgreeSerde
import EvalexprVerif.Proofs.AgreeFnSweep

namespace Evalexpr.Spec.C16
open Evalexpr Evalexpr.Spec

theorem C16_node (s : List Char) : deserializeNode s = buildOperatorTree s := Evalexpr.Spec.C16_node s
theorem C16_value (v : Value) : Value.ofData v.toData = some v := Evalexpr.Spec.C16_value v
theorem C16_context (h : HashMapCtx) (hinv : HashMapCtx.Inv h) :
    HashMapCtx.ofData h.toData = some { vars := h.vars, funs := [], noBuiltins := h.noBuiltins } :=
  Evalexpr.Spec.C16_context h hinv
theorem C16_nofun (h h' : HashMapCtx) (hinv : HashMapCtx.Inv h) (hr : HashMapCtx.ofData h.toData = some h') (id : Str) :
    Ctx.userFn (.hashMap h') id = none ∧ (∀ k, Ctx.getValue (.hashMap h') k = Ctx.getValue (.hashMap h) k) ∧
      h'.noBuiltins = h.noBuiltins := Evalexpr.Spec.C16_nofun h h' hinv hr id

/-- a context with a negative zero, a nested tuple, the switch set and a function: the function is dropped -/
example : HashMapCtx.ofData
    (HashMapCtx.toData { vars := [(['a'], .float (Float.ofBits 0x8000000000000000)), (['b'], .tuple [.int 1, .tuple [.empty]])],
                         funs := [(['f'], fun v => .ok v)], noBuiltins := true })
    = some { vars := [(['a'], .float (Float.ofBits 0x8000000000000000)), (['b'], .tuple [.int 1, .tuple [.empty]])],
             funs := [], noBuiltins := true } :=
  C16_context _ ⟨⟨by simp, ⟨by simp, trivial⟩⟩, ⟨by simp, trivial⟩⟩

/-- **C16 about the code as translated on this run**: the rendered `NodeVisitor::visit_str` (src/feature_serde/mod.rs)
returns, for every string, exactly what the rendered `build_operator_tree` returns — the same tree, or the same error
(whose Display text is the message; boundary: `de::Error::custom(e)` is determined by `e`) -/
theorem C16_node_generated (s : List Char) :
    Gen.NodeVisitor.visit_str () s = Gen.build_operator_tree s := by
  rw [AgreeFn.fn_NodeVisitor_visit_str_agree, AgreeFn.fn_build_operator_tree_agree]; exact C16_node s

end Evalexpr.Spec.C16
