/-
C13 — Malformed expressions are rejected, never given a meaning.
For EVERY token sequence: unbalanced parentheses are rejected when the tree is built
(`C13_unbalanced`) and balanced input is never reported as unbalanced (`C13_balanced_ok`); two
juxtaposed operands outside the function-application form are rejected (`C13_juxtaposed`); a prefix
or binary operator (other than `,` `;`) lacking an operand yields, if a tree is built at all, a tree
with an operator of the wrong arity (`C13_operand`, a potential argument over open operand slots),
which never evaluates successfully because evaluation is eager (`C13_deficient`). `C13_main` combines
them against the independent recogniser `Spec.illFormed`.
Proofs: Proofs/Malformed*.lean (12 files), Proofs/EvalOrder.
-/
import EvalexprVerif.Proofs.Malformed
import EvalexprVerif.Proofs.EvalOrder
import EvalexprVerif.Proofs.AgreeOperator
import EvalexprVerif.Proofs.AgreeToken
import EvalexprVerif.Proofs.LexRoundtrip
import EvalexprVerif.Proofs.LexExt
import EvalexprVerif.Model.Interface
import EvalexprVerif.Proofs.AgreeFnTokensToTree

namespace Evalexpr.Spec.C13
open Evalexpr Evalexpr.Spec

theorem C13_juxtaposed (ts : List Token) (h : juxtaposedIn none ts = true) :
    ∃ e, tokensToOperatorTree ts = .error e := Evalexpr.Spec.C13_juxtaposed ts h
theorem C13_unbalanced (ts : List Token) (h : balanced ts = false) :
    ∃ e, tokensToOperatorTree ts = .error e := Evalexpr.Spec.C13_unbalanced ts h
theorem C13_balanced_ok (ts : List Token) (h : balanced ts = true) :
    tokensToOperatorTree ts ≠ .error .unmatchedLBrace ∧ tokensToOperatorTree ts ≠ .error .unmatchedRBrace :=
  Evalexpr.Spec.C13_balanced_ok ts h
theorem C13_operand (ts : List Token) (h : lacksOperandIn none ts = true) (t : Node)
    (ht : tokensToOperatorTree ts = .ok t) : deficient t = true := Evalexpr.Spec.C13_operand ts h t ht
theorem C13_deficient (t : Node) (h : deficient t = true) (s : St) :
    (∀ v, (t.evalMut s).1 ≠ .ok v) ∧ (∀ v, (t.evalRO s).1 ≠ .ok v) := Evalexpr.Spec.C13_deficient t h s

/-- build, then evaluate (mutable / read-only) -/
def evalTokensMut (ts : List Token) (s : St) : Res Value :=
  match tokensToOperatorTree ts with
  | .ok t => (t.evalMut s).1
  | .error e => .error e
def evalTokensRO (ts : List Token) (s : St) : Res Value :=
  match tokensToOperatorTree ts with
  | .ok t => (t.evalRO s).1
  | .error e => .error e

/-- **C13 (main)**: a token sequence the recogniser classifies as ill-formed never evaluates
successfully, in any context, through either evaluator -/
theorem C13_main (ts : List Token) (h : illFormed ts = true) (s : St) :
    (∀ v, evalTokensMut ts s ≠ .ok v) ∧ (∀ v, evalTokensRO ts s ≠ .ok v) := by
  unfold illFormed at h
  simp only [Bool.or_eq_true, Bool.not_eq_true'] at h
  have herr : (∃ e, tokensToOperatorTree ts = .error e) ∨ lacksOperandIn none ts = true := by
    rcases h with (h | h) | h
    · exact Or.inl (C13_unbalanced ts h)
    · exact Or.inl (C13_juxtaposed ts h)
    · exact Or.inr h
  unfold evalTokensMut evalTokensRO
  rcases herr with ⟨e, he⟩ | hl
  · rw [he]; constructor <;> intro v hv <;> cases hv
  · cases ht : tokensToOperatorTree ts with
    | error e => constructor <;> intro v hv <;> cases hv
    | ok t =>
      have hd := C13_operand ts hl t ht
      exact C13_deficient t hd s

/-- **C13 about the code as translated on this run**: the rendered `tokens_to_operator_tree` terminates on EVERY token
sequence; it rejects unbalanced and juxtaposed input, never reports balanced input as unbalanced, and a tree it builds for
input that lacks an operand is deficient (and therefore never evaluates, `C13_deficient`) -/
theorem C13_generated (ts : List Token) :
    ∃ r, Gen.tokens_to_operator_tree ts = some r ∧
      (balanced ts = false → ∃ e, r = .error e) ∧
      (juxtaposedIn none ts = true → ∃ e, r = .error e) ∧
      (balanced ts = true → r ≠ .error .unmatchedLBrace ∧ r ≠ .error .unmatchedRBrace) ∧
      (lacksOperandIn none ts = true → ∀ t, r = .ok t → deficient t = true) := by
  refine ⟨tokensToOperatorTree ts, AgreeFn.fn_tokens_to_operator_tree_agree ts, ?_, ?_, ?_, ?_⟩
  · exact C13_unbalanced ts
  · exact C13_juxtaposed ts
  · exact C13_balanced_ok ts
  · intro h t ht; exact C13_operand ts h t ht

/-- a typed projection never turns a failure into a success -/
theorem project_ok_inv (k : Kind) (r : Res Value) (v : Value) (h : k.project r = .ok v) : ∃ w, r = .ok w := by
  cases r with
  | error e => simp [Kind.project] at h
  | ok w => exact ⟨w, rfl⟩

/-- **C13 at the level of source text, for EVERY entry point**: a printable token sequence the recogniser
classifies as ill-formed, written with ANY admissible gap assignment (whitespace of every class, comments,
literals in every spelling), evaluates successfully through none of the 24 string-level entry points
(every result type × context-free / read-only / mutable), in any context — `C07_roundtrip_ext` + `C13_main`. -/
theorem C13_string (ps : List (Gap × PTok)) (g : Gap)
    (hp : ∀ p ∈ ps, p.2.PrintableX) (ha : AdmissibleX ps g)
    (h : illFormed (ps.map (·.2.tok)) = true) (k : Kind) (m : Mode) (s : St) :
    ∀ v, (runString k m (renderFrom ps g) s).1 ≠ .ok v := by
  intro v hv
  have hb : buildOperatorTree (renderFrom ps g) = tokensToOperatorTree (ps.map (·.2.tok)) := by
    unfold buildOperatorTree
    rw [Evalexpr.Spec.C07_roundtrip_ext ps g hp ha]
  have hmain := fun s => C13_main (ps.map (·.2.tok)) h s
  unfold runString at hv
  rw [hb] at hv
  unfold evalTokensMut evalTokensRO at hmain
  cases ht : tokensToOperatorTree (ps.map (·.2.tok)) with
  | error e => rw [ht] at hv; simp at hv
  | ok t =>
    simp only [ht] at hv hmain
    simp only [runTree] at hv
    obtain ⟨w, hw⟩ := project_ok_inv k _ v hv
    cases m with
    | fresh => exact (hmain St.fresh).1 w (by simpa [runTreeUntyped] using hw)
    | ro => exact (hmain s).2 w (by simpa [runTreeUntyped] using hw)
    | mut_ => exact (hmain s).1 w (by simpa [runTreeUntyped] using hw)

/-- … and precompilation of unbalanced source text fails, however it is spaced -/
theorem C13_string_unbalanced (ps : List (Gap × PTok)) (g : Gap)
    (hp : ∀ p ∈ ps, p.2.PrintableX) (ha : AdmissibleX ps g)
    (h : balanced (ps.map (·.2.tok)) = false) : ∃ e, buildOperatorTree (renderFrom ps g) = .error e := by
  unfold buildOperatorTree
  rw [Evalexpr.Spec.C07_roundtrip_ext ps g hp ha]
  exact C13_unbalanced _ h

/-! ### the recogniser is not vacuous: it flags the inputs of the repaired defect and accepts ordinary ones -/
example : illFormed [.plus, .int 1, .int 2] = true := by decide            -- `+ 1 2`
example : illFormed [.int 1, .plus, .int 2, .lBrace, .rBrace] = true := by decide   -- `1 + 2()`
example : illFormed [.eq, .int 1, .not, .boolean true] = true := by decide  -- `== 1 !true`
example : illFormed [.lBrace, .int 1] = true := by decide
example : illFormed [.int 1, .plus] = true := by decide
example : illFormed [.int 1, .plus, .minus, .int 2] = false := by decide    -- `1 + -2`
example : illFormed [.identifier ['f'], .identifier ['g'], .int 1] = false := by decide   -- `f g 1`
example : illFormed [.int 1, .comma, .semicolon, .int 2] = false := by decide  -- `1,;2`

end Evalexpr.Spec.C13
