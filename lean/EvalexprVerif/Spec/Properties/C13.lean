/-
C13 — Malformed expressions are rejected, never given a meaning.
For EVERY token sequence: unbalanced parentheses are rejected when the tree is built
(`C13_unbalanced`) and balanced input is never reported as unbalanced (`C13_balanced_ok`); two
juxtaposed operands outside the function-application form are rejected (`C13_juxtaposed`); a prefix
or binary operator (other than `,` `;`) lacking an operand yields, if a tree is built at all, a tree
with an operator of the wrong arity (`C13_operand`, a potential argument over open operand slots),
which never evaluates successfully because evaluation is eager (`C13_deficient`). `C13_main` combines
them against the independent recogniser `Spec.illFormed`.
Proofs: Proofs/Malformed*.lean (12 files), Proofs/EvalOrder.
-/
import EvalexprVerif.Proofs.Malformed
import EvalexprVerif.Proofs.EvalOrder
import EvalexprVerif.Proofs.AgreeOperator
import EvalexprVerif.Proofs.AgreeToken

namespace Evalexpr.Spec.C13
open Evalexpr Evalexpr.Spec

theorem C13_juxtaposed (ts : List Token) (h : juxtaposedIn none ts = true) :
    ∃ e, tokensToOperatorTree ts = .error e := Evalexpr.Spec.C13_juxtaposed ts h
theorem C13_unbalanced (ts : List Token) (h : balanced ts = false) :
    ∃ e, tokensToOperatorTree ts = .error e := Evalexpr.Spec.C13_unbalanced ts h
theorem C13_balanced_ok (ts : List Token) (h : balanced ts = true) :
    tokensToOperatorTree ts ≠ .error .unmatchedLBrace ∧ tokensToOperatorTree ts ≠ .error .unmatchedRBrace :=
  Evalexpr.Spec.C13_balanced_ok ts h
theorem C13_operand (ts : List Token) (h : lacksOperandIn none ts = true) (t : Node)
    (ht : tokensToOperatorTree ts = .ok t) : deficient t = true := Evalexpr.Spec.C13_operand ts h t ht
theorem C13_deficient (t : Node) (h : deficient t = true) (s : St) :
    (∀ v, (t.evalMut s).1 ≠ .ok v) ∧ (∀ v, (t.evalRO s).1 ≠ .ok v) := Evalexpr.Spec.C13_deficient t h s

/-- build, then evaluate (mutable / read-only) -/
def evalTokensMut (ts : List Token) (s : St) : Res Value :=
  match tokensToOperatorTree ts with
  | .ok t => (t.evalMut s).1
  | .error e => .error e
def evalTokensRO (ts : List Token) (s : St) : Res Value :=
  match tokensToOperatorTree ts with
  | .ok t => (t.evalRO s).1
  | .error e => .error e

/-- **C13 (main)**: a token sequence the recogniser classifies as ill-formed never evaluates
successfully, in any context, through either evaluator -/
theorem C13_main (ts : List Token) (h : illFormed ts = true) (s : St) :
    (∀ v, evalTokensMut ts s ≠ .ok v) ∧ (∀ v, evalTokensRO ts s ≠ .ok v) := by
  unfold illFormed at h
  simp only [Bool.or_eq_true, Bool.not_eq_true'] at h
  have herr : (∃ e, tokensToOperatorTree ts = .error e) ∨ lacksOperandIn none ts = true := by
    rcases h with (h | h) | h
    · exact Or.inl (C13_unbalanced ts h)
    · exact Or.inl (C13_juxtaposed ts h)
    · exact Or.inr h
  unfold evalTokensMut evalTokensRO
  rcases herr with ⟨e, he⟩ | hl
  · rw [he]; constructor <;> intro v hv <;> cases hv
  · cases ht : tokensToOperatorTree ts with
    | error e => constructor <;> intro v hv <;> cases hv
    | ok t =>
      have hd := C13_operand ts hl t ht
      exact C13_deficient t hd s

/-! ### the recogniser is not vacuous: it flags the inputs of the repaired defect and accepts ordinary ones -/
example : illFormed [.plus, .int 1, .int 2] = true := by decide            -- `+ 1 2`
example : illFormed [.int 1, .plus, .int 2, .lBrace, .rBrace] = true := by decide   -- `1 + 2()`
example : illFormed [.eq, .int 1, .not, .boolean true] = true := by decide  -- `== 1 !true`
example : illFormed [.lBrace, .int 1] = true := by decide
example : illFormed [.int 1, .plus] = true := by decide
example : illFormed [.int 1, .plus, .minus, .int 2] = false := by decide    -- `1 + -2`
example : illFormed [.identifier ['f'], .identifier ['g'], .int 1] = false := by decide   -- `f g 1`
example : illFormed [.int 1, .comma, .semicolon, .int 2] = false := by decide  -- `1,;2`

end Evalexpr.Spec.C13
