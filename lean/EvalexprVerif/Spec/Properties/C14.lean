/-
C14 — Identifier iterators describe exactly the identifiers of the expression.
`C14_preorder`: the explicit-stack loop of `NodeIter` visits exactly the descendants in pre-order, for
every tree (the fuel of the model loop suffices); `C14_mut_same` / `C14_mut_idents`: the mutable
iterator visits the same occurrences; `C14_classes` / `C14_class_sublist`: the class-specific
iterators are the corresponding sub-sequences; `C14_source`: on the tree of ANY expression AST the
iterators list every identifier occurrence in source order, correctly classified; `C14_unknown_var` /
`C14_unknown_fn`: evaluation can only report an unknown identifier the iterators list;
`C14_rename`: consistently (injectively) renaming the variables through the mutable iterator and in
the context does not change the result. The last three need user functions that do not themselves
answer with unknown-identifier errors (`NoFabricate`); without it the renaming claim is false
(`C14_rename_unrestricted_false`, proved). Proofs: Proofs/Iterators, IterClean, IterEval, IterRename.
-/
import EvalexprVerif.Proofs.IteratorsSeq
import EvalexprVerif.Proofs.IteratorsSeqEval
import EvalexprVerif.Proofs.Iterators
import EvalexprVerif.Proofs.AgreeIter
import EvalexprVerif.Spec.Properties.C02
import EvalexprVerif.Proofs.AgreeFnSweep

namespace Evalexpr.Spec.C14
open Evalexpr Evalexpr.Spec

theorem C14_preorder (n : Node) : n.iter = preorderList n.children := Evalexpr.Spec.C14_preorder n
theorem C14_mut_same (n : Node) : n.iterOperatorsMut = n.iter.map (·.op) := Evalexpr.Spec.C14_mut_same n
theorem C14_mut_idents (n : Node) (k : IterKind) : n.iterIdentsMut k = n.iterIdents k :=
  Evalexpr.Spec.C14_mut_idents n k
theorem C14_classes (n : Node) (k : IterKind) :
    n.iterIdents k = ((identOccurrences n).filter (fun p => k.keeps p.1)).map (·.2) :=
  Evalexpr.Spec.C14_classes n k
theorem C14_class_sublist (n : Node) (k : IterKind) : (n.iterIdents k).Sublist (n.iterIdents .identifiers) :=
  Evalexpr.Spec.C14_class_sublist n k
/-- **C14 (source order and class)** -/
theorem C14_source (e : Expr) : identOccurrences ⟨.rootNode, [toTree e]⟩ = occ e := Evalexpr.Spec.C14_source e
/-- the same over the whole domain of C05: on the tree of ANY sequence level (chains of tuples of optional
operands, parenthesised levels, absent elements and empty groups `()`), the iterators list every identifier
occurrence in source order, correctly classified -/
theorem C14_source_level (l : Level) : identOccurrences (levelTree l) = occLevel l :=
  Evalexpr.Spec.C14_source_level l

/-- … and that is the tree the builder returns for the level's tokens -/
theorem C14_source_level_built (l : Level) (h : levelWf l = true) :
    (tokensToOperatorTree (renderLevel l)).map identOccurrences = .ok (occLevel l) :=
  Evalexpr.Spec.C14_source_level_built l h

/-- **C14 at the level of source text**: precompiling ANY admissible spelling (whitespace of every class,
comments, literals in every spelling) of the rendering of ANY expression AST yields a tree whose identifier
occurrences are exactly the source occurrences of the AST, in order and correctly classified
(`C02_string_ext` + `C14_source`) -/
theorem C14_source_string (e : Expr) (ps : List (Gap × PTok)) (g : Gap)
    (hts : ps.map (·.2.tok) = render e) (hp : ∀ p ∈ ps, p.2.PrintableX) (ha : AdmissibleX ps g) :
    (buildOperatorTree (renderFrom ps g)).map identOccurrences = .ok (occ e) := by
  rw [Evalexpr.Spec.C02.C02_string_ext e ps g hts hp ha]
  show Except.ok (identOccurrences ⟨.rootNode, [toTree e]⟩) = _
  rw [C14_source e]

/-- `a; ; f x, ()`: the occurrences after an absent element and before an empty group are all listed -/
example : occLevel [[some (.expr (.var cl!"a"))], [none], [some (.expr (.call cl!"f" (.var cl!"x"))), some (.group [[]])]]
    = [(.read, cl!"a"), (.function, cl!"f"), (.read, cl!"x")] := rfl

theorem C14_rename_occurrences (n : Node) (k : IterKind) (f : Str → Str) :
    identOccurrences (n.renameDesc k f) =
      (identOccurrences n).map (fun p => (p.1, if k.keeps p.1 then f p.2 else p.2)) :=
  Evalexpr.Spec.C14_rename_occurrences n k f
theorem C14_unknown_var (e : Expr) (s : St) (x : Str) (hnf : NoFabricate s.ctx)
    (h : ((Node.mk .rootNode [toTree e]).evalMut s).1 = .error (.variableIdentifierNotFound x)) :
    x ∈ (Node.mk .rootNode [toTree e]).iterIdents .variable := Evalexpr.Spec.C14_unknown_var e s x hnf h
theorem C14_unknown_fn (e : Expr) (s : St) (f : Str) (hnf : NoFabricate s.ctx)
    (h : ((Node.mk .rootNode [toTree e]).evalMut s).1 = .error (.functionIdentifierNotFound f)) :
    f ∈ (Node.mk .rootNode [toTree e]).iterIdents .function := Evalexpr.Spec.C14_unknown_fn e s f hnf h
/-- **C14 (renaming)** -/
theorem C14_rename (e : Expr) (r : Str → Str) (hinj : Function.Injective r) (h : HashMapCtx)
    (log : List (Str × Value)) (hnf : NoFabricate (.hashMap h)) :
    let t : Node := ⟨.rootNode, [toTree e]⟩
    let out := t.evalMut ⟨.hashMap h, log⟩
    let out' := (t.renameDesc .variable r).evalMut ⟨.hashMap (renameVars r h), log⟩
    out'.1 = renameRes r out.1 ∧ out'.2.log = out.2.log ∧
      (∃ h₁, out.2.ctx = .hashMap h₁ ∧ out'.2.ctx = .hashMap (renameVars r h₁)) :=
  Evalexpr.Spec.C14_rename e r hinj h log hnf

/-- the same three facts over the whole domain of C05 (any sequence level) -/
theorem C14_unknown_var_level (l : Level) (s : St) (x : Str) (hnf : NoFabricate s.ctx)
    (h : ((levelTree l).evalMut s).1 = .error (.variableIdentifierNotFound x)) :
    x ∈ (levelTree l).iterIdents .variable := Evalexpr.Spec.C14_unknown_var_level l s x hnf h
theorem C14_unknown_fn_level (l : Level) (s : St) (f : Str) (hnf : NoFabricate s.ctx)
    (h : ((levelTree l).evalMut s).1 = .error (.functionIdentifierNotFound f)) :
    f ∈ (levelTree l).iterIdents .function := Evalexpr.Spec.C14_unknown_fn_level l s f hnf h
theorem C14_rename_level (l : Level) (r : Str → Str) (hinj : Function.Injective r) (h : HashMapCtx)
    (log : List (Str × Value)) (hnf : NoFabricate (.hashMap h)) :
    let t : Node := levelTree l
    let out := t.evalMut ⟨.hashMap h, log⟩
    let out' := (t.renameDesc .variable r).evalMut ⟨.hashMap (renameVars r h), log⟩
    out'.1 = renameRes r out.1 ∧ out'.2.log = out.2.log ∧
      (∃ h₁, out.2.ctx = .hashMap h₁ ∧ out'.2.ctx = .hashMap (renameVars r h₁)) :=
  Evalexpr.Spec.C14_rename_level l r hinj h log hnf

/-- `d = a + f(b + c)`: write d, read a, function f, read b, read c -/
example : occ (.assign .assign ['d'] (.bin .add (.var ['a']) (.call ['f'] (.paren (.bin .add (.var ['b']) (.var ['c']))))))
    = [(.write, ['d']), (.read, ['a']), (.function, ['f']), (.read, ['b']), (.read, ['c'])] := rfl
/-- the hypothesis is satisfiable: a context with ordinary functions does not fabricate -/
example : NoFabricate (.hashMap { funs := [(['f'], fun v => .ok v)] }) := by
  intro id f arg x hf
  simp only [Ctx.userFn, alookup] at hf
  split at hf
  · cases hf; constructor <;> intro h <;> cases h
  · cases hf

/-! ### about the code as translated on this run
`Gen.Node.iter_*identifiers*` are the bodies of the ten adaptors of src/tree/mod.rs rendered by `translate_fn.py` (their
`filter_map` closures over the list the translated `NodeIter::next` loop yields, `fn_Node_iter_agree`). -/

/-- on the tree of ANY expression AST the rendered `iter_identifiers` lists the source occurrences in order, and every rendered
class-specific iterator the occurrences of its class; the rendered mutable variants list the same and leave the tree as it is -/
theorem C14_source_generated (e : Expr) :
    let t : Node := ⟨.rootNode, [toTree e]⟩
    Gen.Node.iter_identifiers t = (occ e).map (·.2) ∧
    Gen.Node.iter_read_variable_identifiers t = ((occ e).filter (fun p => IterKind.readVariable.keeps p.1)).map (·.2) ∧
    Gen.Node.iter_write_variable_identifiers t = ((occ e).filter (fun p => IterKind.writeVariable.keeps p.1)).map (·.2) ∧
    Gen.Node.iter_function_identifiers t = ((occ e).filter (fun p => IterKind.function.keeps p.1)).map (·.2) ∧
    Gen.Node.iter_variable_identifiers t = ((occ e).filter (fun p => IterKind.variable.keeps p.1)).map (·.2) ∧
    (Gen.Node.iter_identifiers_mut t).1 = Gen.Node.iter_identifiers t ∧ (Gen.Node.iter_identifiers_mut t).2 = t := by
  intro t
  have hs : identOccurrences t = occ e := C14_source e
  refine ⟨?_, ?_, ?_, ?_, ?_, ?_, ?_⟩
  · rw [AgreeFn.fn_Node_iter_identifiers_agree, C14_classes, hs]
    simp only [IterKind.keeps]
    congr 1
    induction occ e with
    | nil => rfl
    | cons a as ih => simp [List.filter, ih]
  · rw [AgreeFn.fn_Node_iter_read_variable_identifiers_agree, C14_classes, hs]
  · rw [AgreeFn.fn_Node_iter_write_variable_identifiers_agree, C14_classes, hs]
  · rw [AgreeFn.fn_Node_iter_function_identifiers_agree, C14_classes, hs]
  · rw [AgreeFn.fn_Node_iter_variable_identifiers_agree, C14_classes, hs]
  · rw [(AgreeFn.fn_Node_iter_identifiers_mut_agree t).1, AgreeFn.fn_Node_iter_identifiers_agree, C14_mut_idents]
  · exact (AgreeFn.fn_Node_iter_identifiers_mut_agree t).2

end Evalexpr.Spec.C14
