/-
C06 — Literals denote exactly their value.
String literals: `C06_string` (any text, `\` and `"` escaped, round-trips exactly), embedded anywhere
(`C06_string_embedded`, from the C07 round trip), bad escapes and missing quotes are errors.
Numbers and words, against the literal grammar of Spec/Literals.lean: `C06_dec`, `C06_hex` (exact
integers within the signed 64-bit range), `C06_float` / `C06_float_signed` (positional and scientific
notation, with or without a signed exponent: the double `F64.parse` assigns, which
`C06_float_roundRat*` identify as the correctly rounded value of the exact decimal rational),
`C06_bool`, and `C06_word` / `C06_identifier` (every other word is an identifier).
Proofs: Proofs/LitParts, LitFloatParse, Literals, and the Lex* files.
-/
import EvalexprVerif.Proofs.Literals
import EvalexprVerif.Proofs.AgreeToken
import EvalexprVerif.Proofs.Nearest
import EvalexprVerif.Proofs.LexExt
import EvalexprVerif.Proofs.AgreeFnInterface

namespace Evalexpr.Spec.C06
open Evalexpr Evalexpr.Spec

theorem C06_string (t : Str) : tokenize (quote t) = .ok [.string t] := Evalexpr.Spec.C06_string t

/-- **C06 about the code as translated on this run**: `Gen.tokenize` is the body of `tokenize` (src/token/mod.rs) rendered
by `translate_fn.py`, calling the rendered `str_to_partial_tokens` (with `parse_string_literal`, `parse_escape_sequence`,
`try_skip_comment`) and `partial_tokens_to_tokens`; its loops carry fuel, and any fuel above the length of the input suffices
(`fn_tokenize_agree`). A quoted text lexes to exactly that text. -/
theorem C06_string_generated (t : Str) (fuel : Nat) (h : (quote t).length < fuel) :
    Gen.tokenize fuel (quote t) = .ok [.string t] := by
  rw [AgreeFn.fn_tokenize_agree _ _ h]; exact C06_string t

/-- a string literal between any printable tokens, with any admissible gaps, is still exactly its text -/
theorem C06_string_embedded (pre post : List (Gap × PTok)) (g0 g : Gap) (t : Str)
    (hp : ∀ p ∈ pre ++ (g0, ⟨.string t, quote t⟩) :: post, p.2.Printable)
    (ha : Admissible (pre ++ (g0, ⟨.string t, quote t⟩) :: post) g) :
    tokenize (renderFrom (pre ++ (g0, ⟨.string t, quote t⟩) :: post) g)
      = .ok (pre.map (·.2.tok) ++ .string t :: post.map (·.2.tok)) := by
  have := Evalexpr.Spec.C07_roundtrip _ g hp ha
  simpa using this

/-- any literal in any spelling (decimal, hex, positional or scientific float with or without a signed
exponent, boolean, string) between any other tokens, separated only where the lexer needs it, is still
exactly its token (instance of `C07_roundtrip_ext`) -/
theorem C06_literal_embedded (pre post : List (Gap × PTok)) (g0 g : Gap) (lit : PTok)
    (hp : ∀ p ∈ pre ++ (g0, lit) :: post, p.2.PrintableX)
    (ha : AdmissibleX (pre ++ (g0, lit) :: post) g) :
    tokenize (renderFrom (pre ++ (g0, lit) :: post) g)
      = .ok (pre.map (·.2.tok) ++ lit.tok :: post.map (·.2.tok)) := by
  have := Evalexpr.Spec.C07_roundtrip_ext _ g hp ha
  simpa using this

/-- the three embedded examples of the property text -/
theorem C06_hex_embedded : tokenize cl!"0x1e-3" = .ok [.int 30, .minus, .int 3] :=
  Evalexpr.Spec.C06_hex_embedded
theorem C06_signed_embedded : ∃ f g, F64.parse cl!"5e-3" = some f ∧ F64.parse cl!"2e-3" = some g ∧
    tokenize cl!"5e-3-2e-3" = .ok [.float f, .minus, .float g] := Evalexpr.Spec.C06_signed_embedded
theorem C06_signed_after_ident : ∃ f, F64.parse cl!"1e+2" = some f ∧
    tokenize cl!"a-1e+2" = .ok [.identifier cl!"a", .minus, .float f] := Evalexpr.Spec.C06_signed_after_ident

theorem C06_bad_escape (u v : Str) (c : Char) (hc : c ≠ '"' ∧ c ≠ '\\') :
    tokenize ('"' :: escape u ++ '\\' :: c :: v) = .error (.illegalEscapeSequence ['\\', c]) :=
  Evalexpr.Spec.C06_bad_escape u v c hc
theorem C06_unterminated (u : Str) : tokenize ('"' :: escape u) = .error .unmatchedDoubleQuote :=
  Evalexpr.Spec.C06_unterminated u

theorem C06_dec (w : Str) (h : isDecLit w = true) (hv : decValue w < 2 ^ 63) :
    lexWord w = some (.int (Int64.ofNat (decValue w))) ∧ (Int64.ofNat (decValue w)).toInt = decValue w :=
  Evalexpr.Spec.C06_dec w h hv
theorem C06_hex (ds : Str) (h : isHexLit ('0' :: 'x' :: ds) = true) (hv : hexValue ds < 2 ^ 63) :
    lexWord ('0' :: 'x' :: ds) = some (.int (Int64.ofNat (hexValue ds))) ∧
      (Int64.ofNat (hexValue ds)).toInt = hexValue ds := Evalexpr.Spec.C06_hex ds h hv
theorem C06_bool : lexWord cl!"true" = some (.boolean true) ∧ lexWord cl!"false" = some (.boolean false) :=
  Evalexpr.Spec.C06_bool
theorem C06_float (w : Str) (h : isFloatLit w = true)
    (hnot : ¬ (isDecLit w = true ∧ decValue w < 2 ^ 63)) :
    ∃ f, F64.parse w = some f ∧ lexWord w = some (.float f) := Evalexpr.Spec.C06_float w h hnot
theorem C06_float_signed (m ex : Str) (hm : isMantissa m = true) (hex : isDigits ex = true)
    (e s : Char) (he : e = 'e' ∨ e = 'E') (hs : s = '+' ∨ s = '-') :
    ∃ f, F64.parse (m ++ e :: s :: ex) = some f ∧ tokenize (m ++ e :: s :: ex) = .ok [.float f] :=
  Evalexpr.Spec.C06_float_signed m ex hm hex e s he hs
/-- the double is the correct rounding (`F64.roundRat`: round to nearest, ties to even, exact over ℕ) of
the literal's exact rational value, outside the ±400-decade overflow/underflow guard band -/
theorem C06_float_roundRat (m ex : Str) (hm : isMantissa m = true) (hex : isDigits ex = true) (e : Char)
    (he : e = 'e' ∨ e = 'E') (hg : inGuardBand m false ex) :
    F64.parseBits (m ++ e :: ex) =
      some (F64.roundRat (floatLitValue m false ex).1 (floatLitValue m false ex).2) :=
  Evalexpr.Spec.C06_float_roundRat m ex hm hex e he hg
/-- **C06 (nearest double)**: the bits a float literal `m e x` denotes are a finite double closest to the
literal's exact decimal value n/d (`floatLitValue`), compared exactly: no finite non-negative double
is strictly closer; and on a tie the significand is even (`roundRat_ties_even`), and the result is
+infinity exactly at or beyond the overflow threshold (`roundRat_overflow`). -/
theorem C06_nearest (m ex : Str) (hm : isMantissa m = true) (hex : isDigits ex = true) (e : Char)
    (he : e = 'e' ∨ e = 'E') (hg : inGuardBand m false ex) (hd : 0 < (floatLitValue m false ex).2)
    (hfin : isFinitePos (F64.roundRat (floatLitValue m false ex).1 (floatLitValue m false ex).2) = true)
    (y : UInt64) (hy : isFinitePos y = true) :
    ∃ bits, F64.parseBits (m ++ e :: ex) = some bits ∧
      scaledError (floatLitValue m false ex).1 (floatLitValue m false ex).2 bits ≤
        scaledError (floatLitValue m false ex).1 (floatLitValue m false ex).2 y := by
  refine ⟨_, C06_float_roundRat m ex hm hex e he hg, ?_⟩
  by_cases hn : (floatLitValue m false ex).1 = 0
  · rw [hn, roundRat_zero]
    simp [scaledError, scaledValue, expField, fracField]
  · exact roundRat_nearest _ _ (Nat.pos_of_ne_zero hn) hd hfin y hy
theorem C06_ties_even (n d : Nat) (hn : 0 < n) (hd : 0 < d)
    (hfin : isFinitePos (F64.roundRat n d) = true) (y : UInt64) (hy : isFinitePos y = true)
    (hne : y ≠ F64.roundRat n d) (htie : scaledError n d y = scaledError n d (F64.roundRat n d)) :
    fracField (F64.roundRat n d) % 2 = 0 := roundRat_ties_even n d hn hd hfin y hy hne htie
theorem C06_overflow (n d : Nat) (hn : 0 < n) (hd : 0 < d) :
    (F64.roundRat n d = 0x7ff0000000000000 ↔ overflows n d = true) ∧
    (overflows n d = false → isFinitePos (F64.roundRat n d) = true) := roundRat_overflow n d hn hd

theorem C06_word (w : Str) (hw : isWord w = true) (h1 : isDecLit w = false) (h2 : isHexLit w = false)
    (h3 : isFloatLit w = false) (h4 : w ≠ cl!"true") (h5 : w ≠ cl!"false") : lexWord w = none :=
  Evalexpr.Spec.C06_word w hw h1 h2 h3 h4 h5
theorem C06_identifier (w : Str) (hw : isWord w = true) (h1 : isDecLit w = false) (h2 : isHexLit w = false)
    (h3 : isFloatLit w = false) (h4 : w ≠ cl!"true") (h5 : w ≠ cl!"false") :
    tokenize w = .ok [.identifier w] := Evalexpr.Spec.C06_identifier w hw h1 h2 h3 h4 h5

/-! ### instances -/

/-- `nan`, `inf`, `infinity` are identifiers (the defect repaired by b9215f4 made them floats) -/
example : tokenize cl!"nan" = .ok [.identifier cl!"nan"] :=
  C06_identifier _ (by decide) (by decide) (by decide) (by decide) (by decide) (by decide)
example : tokenize cl!"Infinity" = .ok [.identifier cl!"Infinity"] :=
  C06_identifier _ (by decide) (by decide) (by decide) (by decide) (by decide) (by decide)
/-- `1e-3` alone is one float token -/
example : ∃ f, tokenize cl!"1e-3" = .ok [.float f] := by
  obtain ⟨f, _, h⟩ := C06_float_signed cl!"1" cl!"3" (by decide) (by decide) 'e' '-' (Or.inl rfl) (Or.inr rfl)
  exact ⟨f, h⟩
/-- the grammar: positional, scientific, leading / trailing dot are float literals; `inf` is not -/
example : isFloatLit cl!"1.5e10" = true ∧ isFloatLit cl!".5" = true ∧ isFloatLit cl!"5." = true ∧
    isFloatLit cl!"inf" = false ∧ isHexLit cl!"0x1F" = true ∧ isDecLit cl!"007" = true := by decide
/-- `0x7fffffffffffffff` is the largest integer literal -/
example : lexWord cl!"0x7fffffffffffffff" = some (.int (Int64.ofNat (hexValue cl!"7fffffffffffffff"))) :=
  (C06_hex cl!"7fffffffffffffff" (by decide) (by decide)).1

end Evalexpr.Spec.C06
