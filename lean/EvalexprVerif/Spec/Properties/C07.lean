/-
C07 — Whitespace and comments never change meaning.

`C07_roundtrip`: ANY sequence of printable tokens (well-formed expression or not), written with ANY
admissible gap assignment — each gap a sequence of Unicode whitespace characters, `/* … */` and
`// …⏎` comments, non-empty where the neighbours would fuse — tokenizes to exactly those tokens.
Hence (`C07_invariance`, `C07_tree_invariance`) two admissible renderings of the same tokens build
equal trees or fail with the same error; an unterminated `/*` is an error (`C07_unterminated`);
comment markers inside string literals are plain text (`C07_in_string`).
Proofs: Proofs/LexChars, LexPhase1 (characters → partial tokens), LexFloat, LexPhase2 (partial
tokens → tokens), LexRoundtrip.
-/
import EvalexprVerif.Proofs.LexRoundtrip
import EvalexprVerif.Proofs.LexExt
import EvalexprVerif.Proofs.AgreeToken
import EvalexprVerif.Proofs.AgreeFnInterface

namespace Evalexpr.Spec.C07
open Evalexpr Evalexpr.Spec

/-- **C07 (main)** -/
theorem C07_roundtrip (ps : List (Gap × PTok)) (g : Gap)
    (hp : ∀ p ∈ ps, p.2.Printable) (ha : Admissible ps g) :
    tokenize (renderFrom ps g) = .ok (ps.map (·.2.tok)) :=
  Evalexpr.Spec.C07_roundtrip ps g hp ha

/-- **C07 (extended)**: the same with literals in EVERY spelling the language has — floats in scientific
notation with a signed exponent (`5e-3`, three partial tokens for the lexer) — and with the weakest
separation the lexer needs: a sign directly after `<digits>e` needs a gap only if that word is an
identifier (`0x1e-3` is `30 - 3`). Subsumes `C07_roundtrip` (`printableX_of_printable`,
`admissibleX_of_admissible`). -/
theorem C07_roundtrip_ext (ps : List (Gap × PTok)) (g : Gap)
    (hp : ∀ p ∈ ps, p.2.PrintableX) (ha : AdmissibleX ps g) :
    tokenize (renderFrom ps g) = .ok (ps.map (·.2.tok)) :=
  Evalexpr.Spec.C07_roundtrip_ext ps g hp ha

theorem C07_ext_subsumes (ps : List (Gap × PTok)) (g : Gap)
    (hp : ∀ p ∈ ps, p.2.Printable) (ha : Admissible ps g) :
    (∀ p ∈ ps, p.2.PrintableX) ∧ AdmissibleX ps g :=
  ⟨fun p h => printableX_of_printable p.2 (hp p h), admissibleX_of_admissible ps g ha⟩

/-- … hence equal trees for any two extended renderings of the same tokens -/
theorem C07_tree_of_tokens_ext (ps : List (Gap × PTok)) (g : Gap)
    (hp : ∀ p ∈ ps, p.2.PrintableX) (ha : AdmissibleX ps g) :
    buildOperatorTree (renderFrom ps g) = tokensToOperatorTree (ps.map (·.2.tok)) := by
  unfold buildOperatorTree
  rw [C07_roundtrip_ext ps g hp ha]

/-- **C07 about the code as translated on this run**: the rendered lexer (`Gen.tokenize`, fuel = length + 1 as the rendered
interface functions pass it) returns exactly the tokens of every admissible rendering, and the rendered
`build_operator_tree` — rendered lexer, then rendered tree builder — returns the tree of those tokens: the whole path from
source text to operator tree is code translated on this run. -/
theorem C07_roundtrip_generated (ps : List (Gap × PTok)) (g : Gap)
    (hp : ∀ p ∈ ps, p.2.PrintableX) (ha : AdmissibleX ps g) :
    Gen.tokenize (Rs.fuel_chars (renderFrom ps g)) (renderFrom ps g) = .ok (ps.map (·.2.tok)) := by
  rw [AgreeFn.fn_tokenize_fuel_chars]; exact C07_roundtrip_ext ps g hp ha
theorem C07_tree_generated (ps : List (Gap × PTok)) (g : Gap)
    (hp : ∀ p ∈ ps, p.2.PrintableX) (ha : AdmissibleX ps g) :
    Gen.build_operator_tree (renderFrom ps g) = tokensToOperatorTree (ps.map (·.2.tok)) := by
  rw [AgreeFn.fn_build_operator_tree_agree]; exact C07_tree_of_tokens_ext ps g hp ha

/-- `<digits>e`, a sign and a token that is not a word are three tokens, however tightly written -/
theorem C07_sign_before_string : tokenize cl!"1e+\"3\"" = .ok [.identifier cl!"1e", .plus, .string cl!"3"] :=
  Evalexpr.Spec.C07_sign_before_string
theorem C07_sign_before_paren : tokenize cl!"2E-(x)" =
    .ok [.identifier cl!"2E", .minus, .lBrace, .identifier cl!"x", .rBrace] := Evalexpr.Spec.C07_sign_before_paren

/-- two admissible gap assignments for the same tokens give the same token sequence -/
theorem C07_invariance (toks : List PTok) (gs₁ gs₂ : List Gap) (g₁ g₂ : Gap)
    (h₁ : gs₁.length = toks.length) (h₂ : gs₂.length = toks.length)
    (hp : ∀ p ∈ toks, p.Printable)
    (ha₁ : Admissible (gs₁.zip toks) g₁) (ha₂ : Admissible (gs₂.zip toks) g₂) :
    tokenize (renderFrom (gs₁.zip toks) g₁) = tokenize (renderFrom (gs₂.zip toks) g₂) :=
  Evalexpr.Spec.C07_invariance toks gs₁ gs₂ g₁ g₂ h₁ h₂ hp ha₁ ha₂

/-- … hence equal operator trees, or the same error -/
theorem C07_tree_invariance (toks : List PTok) (gs₁ gs₂ : List Gap) (g₁ g₂ : Gap)
    (h₁ : gs₁.length = toks.length) (h₂ : gs₂.length = toks.length)
    (hp : ∀ p ∈ toks, p.Printable)
    (ha₁ : Admissible (gs₁.zip toks) g₁) (ha₂ : Admissible (gs₂.zip toks) g₂) :
    buildOperatorTree (renderFrom (gs₁.zip toks) g₁) = buildOperatorTree (renderFrom (gs₂.zip toks) g₂) := by
  unfold buildOperatorTree
  rw [C07_invariance toks gs₁ gs₂ g₁ g₂ h₁ h₂ hp ha₁ ha₂]

/-- the tree of a rendering is the tree of its tokens -/
theorem C07_tree_of_tokens (ps : List (Gap × PTok)) (g : Gap)
    (hp : ∀ p ∈ ps, p.2.Printable) (ha : Admissible ps g) :
    buildOperatorTree (renderFrom ps g) = tokensToOperatorTree (ps.map (·.2.tok)) := by
  unfold buildOperatorTree
  rw [C07_roundtrip ps g hp ha]

/-- an unterminated `/*` after a well-formed prefix is an error -/
theorem C07_unterminated (a : List (Gap × PTok)) (g : Gap) (b : Str)
    (hp : ∀ p ∈ a, p.2.Printable) (ha : Admissible a g) (hb : hasSubstr ['*', '/'] b = false)
    (hlast : ∀ p, a.getLast? = some p → isSlash p.2.tok = false ∨ g ≠ []) :
    tokenize (renderFrom a g ++ '/' :: '*' :: b) = .error unmatchedInlineComment :=
  Evalexpr.Spec.C07_unterminated a g b hp ha hb hlast

/-- comment markers inside a string literal are plain text (an instance of C06_string) -/
theorem C07_in_string (t : Str) : tokenize (quote t) = .ok [.string t] := Evalexpr.Spec.C06_string t

/-! ### non-vacuity: a concrete admissible rendering with every kind of separator -/

/-- `a/**/+ //x⏎ 1` : identifier, block comment, plus, space, line comment, space, int -/
example : tokenize (renderFrom
      [([], ⟨.identifier ['a'], ['a']⟩), ([.block []], ⟨.plus, ['+']⟩),
       ([.ws ' ', .line ['x'], .ws (Char.ofNat 0x3000)], ⟨.int 1, ['1']⟩)] [.ws '\n'])
    = .ok [.identifier ['a'], .plus, .int 1] := by
  apply C07_roundtrip
  · intro p hp
    simp only [List.mem_cons, List.not_mem_nil, or_false] at hp
    rcases hp with rfl | rfl | rfl
    · exact ⟨rfl, by decide, by decide⟩
    · show fixedText Token.plus = some ['+']; rfl
    · exact ⟨by decide, by rfl⟩
  · simp only [Admissible]
    refine ⟨by simp, ⟨?_, ?_⟩, ?_, ⟨by decide, ⟨?_, ?_⟩, ?_, ⟨by decide, trivial, ?_, by decide⟩⟩⟩
    all_goals first | decide | simp [fuses, isWordTok, absorbsEq, startsWithEq, isSlash, isSign, looksLikeMantissaE]

/-- the comment separates: `a/**/b` is two identifiers (the behaviour repaired by fix 147933c) -/
example : tokenize cl!"a/**/b" = .ok [.identifier ['a'], .identifier ['b']] := by
  have := C07_roundtrip [([], ⟨.identifier ['a'], ['a']⟩), ([.block []], ⟨.identifier ['b'], ['b']⟩)] []
    (by
      intro p hp
      simp only [List.mem_cons, List.not_mem_nil, or_false] at hp
      rcases hp with rfl | rfl
      · exact ⟨rfl, by decide, by decide⟩
      · exact ⟨rfl, by decide, by decide⟩)
    (by
      simp only [Admissible]
      refine ⟨by simp, ⟨?_, ?_⟩, ?_, ⟨by decide, trivial, ?_, by decide⟩⟩
      all_goals first | decide | simp [fuses, isWordTok, absorbsEq, startsWithEq, isSlash, isSign, looksLikeMantissaE])
  exact this

end Evalexpr.Spec.C07
