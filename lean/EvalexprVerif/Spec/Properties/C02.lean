/-
C02 — Precedence and associativity alone determine the operator tree.

Main theorem `C02_parse`: for EVERY expression AST `e` (any depth) over the 14 binary, 2 prefix and
9 assignment operators, function application, literals, variables and redundant parentheses, the
tree builder applied to the canonical rendering `render e` (exactly the parentheses the documented
table requires, plus the redundant ones of the AST) returns exactly `toTree e` under the top-level
root node; `C02_ast`: ignoring parenthesis wrapper nodes, that is the AST itself.
The proof (Proofs/ParseSpine, ParseTops, ParseExpr) is an induction over the AST generalised over
the right spine of open operator frames.
-/
import EvalexprVerif.Proofs.ParseExpr
import EvalexprVerif.Proofs.AgreeOperator
import EvalexprVerif.Proofs.AgreeToken
import EvalexprVerif.Proofs.LexRoundtrip
import EvalexprVerif.Proofs.ParseLoose
import EvalexprVerif.Proofs.LexExt
import EvalexprVerif.Proofs.AgreeFnTokensToTree
import EvalexprVerif.Proofs.AgreeFnInterface

namespace Evalexpr.Spec.C02
open Evalexpr Evalexpr.Spec

/-- the documented precedence table is the one the tree builder uses -/
theorem C02_tables_binary (op : BinOp) :
    op.toOperator.precedence = op.docPrec ∧ op.toOperator.isLeftToRight = true ∧
      op.toOperator.maxArgumentAmount = some 2 := by
  cases op <;> exact ⟨rfl, rfl, rfl⟩

theorem C02_tables_unary :
    Operator.neg.precedence = unaryPrec ∧ Operator.not.precedence = unaryPrec ∧
      Operator.neg.maxArgumentAmount = some 1 ∧ Operator.not.maxArgumentAmount = some 1 :=
  ⟨rfl, rfl, rfl, rfl⟩

/-- assignments: precedence 50; only `=` groups right-to-left -/
theorem C02_tables_assign (op : AssignOp) :
    op.toOperator.precedence = assignPrec ∧ op.toOperator.maxArgumentAmount = some 2 ∧
      (op.toOperator.isLeftToRight = false ↔ op = .assign) := by
  cases op <;> exact ⟨rfl, rfl, by decide⟩

/-- function application binds tighter than every operator, weaker than an operand -/
theorem C02_tables_call (f : Str) (op : BinOp) :
    op.toOperator.precedence < (Operator.fn f).precedence ∧ unaryPrec < (Operator.fn f).precedence ∧
      (Operator.fn f).precedence < (Operator.varRead f).precedence := by
  cases op <;> exact ⟨by simp [Operator.precedence, Operator.kind, OpKind.precedence, BinOp.toOperator], by simp [Operator.precedence, Operator.kind, OpKind.precedence, unaryPrec], by simp [Operator.precedence, Operator.kind, OpKind.precedence]⟩

/-- function application binds tighter than every assignment operator too: in `f x op y` the
assignment's left operand is the whole application (the AST of `C02_parse` has bare identifiers
left of assignments; this is the remaining documented case, a finite table) -/
theorem C02_call_left_of_assign (op : AssignOp) :
    tokensToOperatorTree (callAssignTokens op) = .ok (callAssignTree op) := by
  cases op <;> rfl

theorem C02_call_left_of_assign_chain :
    tokensToOperatorTree chainCallAssignTokens = .ok chainCallAssignTree := rfl

/-- **C02 (main)**: the canonical rendering of any AST builds exactly the promised tree. -/
theorem C02_parse (e : Expr) :
    tokensToOperatorTree (render e) = .ok ⟨.rootNode, [toTree e]⟩ :=
  Evalexpr.Spec.C02_parse e

/-- **C02 about the code as translated on this run**: `Gen.tokens_to_operator_tree` is the body of
`tokens_to_operator_tree` (src/tree/mod.rs) rendered by `translate_fn.py` — its `while let` loop over the peekable token
iterator, the calls of the rendered `insert_back_prioritized` / `collapse_*`, the rendered operator tables — with loops as
partial fixpoints (`none` = divergence). On the rendering of EVERY expression AST it terminates and returns the reference tree. -/
theorem C02_parse_generated (e : Expr) :
    Gen.tokens_to_operator_tree (render e) = some (.ok ⟨.rootNode, [toTree e]⟩) := by
  rw [AgreeFn.fn_tokens_to_operator_tree_agree, C02_parse e]

theorem stripRoots_wrapTree (b : Bool) (n : Node) : stripRoots (wrapTree b n) = stripRoots n := by
  cases b
  · rfl
  · cases n with
    | mk op cs => simp [wrapTree, stripRoots, stripRootsList]

/-- parenthesis wrapper nodes ignored, `toTree e` is the AST -/
theorem stripRoots_toTree (e : Expr) : stripRoots (toTree e) = toAstTree e := by
  induction e with
  | lit l => simp [toTree, toAstTree, stripRoots, stripRootsList]
  | var x => simp [toTree, toAstTree, stripRoots, stripRootsList]
  | call f a ih => simp [toTree, toAstTree, stripRoots, stripRootsList, stripRoots_wrapTree, ih]
  | neg e ih => simp [toTree, toAstTree, stripRoots, stripRootsList, stripRoots_wrapTree, ih]
  | not e ih => simp [toTree, toAstTree, stripRoots, stripRootsList, stripRoots_wrapTree, ih]
  | bin op l r ihl ihr =>
    cases op <;>
      simp [toTree, toAstTree, stripRoots, stripRootsList, stripRoots_wrapTree, ihl, ihr, BinOp.toOperator]
  | assign op x rhs ih =>
    cases op <;>
      simp [toTree, toAstTree, stripRoots, stripRootsList, stripRoots_wrapTree, ih, AssignOp.toOperator]
  | paren e ih =>
    show stripRoots ⟨.rootNode, [toTree e]⟩ = toAstTree e
    cases h : toTree e with
    | mk op cs =>
      rw [h] at ih
      simp [stripRoots, stripRootsList] at ih ⊢
      exact ih

/-- **C02 (structural equality to the AST, parenthesis wrapper nodes ignored)**: required
parentheses are never ignored, redundant ones never change the tree. -/
theorem C02_ast (e : Expr) :
    (tokensToOperatorTree (render e)).map stripRoots = .ok (toAstTree e) := by
  rw [C02_parse]
  show Except.ok (stripRoots ⟨.rootNode, [toTree e]⟩) = _
  have := stripRoots_toTree (.paren e)
  simp only [toTree, toAstTree] at this
  rw [this]

/-- **C02 (string level)**: ANY spelling of the tokens of the canonical rendering (identifiers and
literals written as words that lex to them, strings quoted) with ANY admissible assignment of
whitespace and comments precompiles to the promised tree (C07 round trip + `C02_parse`). -/
theorem C02_string (e : Expr) (ps : List (Gap × PTok)) (g : Gap)
    (hts : ps.map (·.2.tok) = render e) (hp : ∀ p ∈ ps, p.2.Printable) (ha : Admissible ps g) :
    buildOperatorTree (renderFrom ps g) = .ok ⟨.rootNode, [toTree e]⟩ := by
  unfold buildOperatorTree
  rw [Evalexpr.Spec.C07_roundtrip ps g hp ha, hts]
  exact C02_parse e

/-- … and in every literal spelling (hex, signed exponents) with the weakest separation (`0x1e-3`,
`5e-3-2e-3`): the extended round trip + `C02_parse` -/
theorem C02_string_ext (e : Expr) (ps : List (Gap × PTok)) (g : Gap)
    (hts : ps.map (·.2.tok) = render e) (hp : ∀ p ∈ ps, p.2.PrintableX) (ha : AdmissibleX ps g) :
    buildOperatorTree (renderFrom ps g) = .ok ⟨.rootNode, [toTree e]⟩ := by
  unfold buildOperatorTree
  rw [Evalexpr.Spec.C07_roundtrip_ext ps g hp ha, hts]
  exact C02_parse e

/-- **C02 from source text to tree, about the code as translated on this run**: the rendered `build_operator_tree`
(rendered lexer + rendered tree builder) maps every admissible spelling of the rendering of every expression AST to the
reference tree -/
theorem C02_string_generated (e : Expr) (ps : List (Gap × PTok)) (g : Gap)
    (hts : ps.map (·.2.tok) = render e) (hp : ∀ p ∈ ps, p.2.PrintableX) (ha : AdmissibleX ps g) :
    Gen.build_operator_tree (renderFrom ps g) = .ok ⟨.rootNode, [toTree e]⟩ := by
  rw [AgreeFn.fn_build_operator_tree_agree]; exact C02_string_ext e ps g hts hp ha

/-- **C02 (everyday spelling)**: also with a prefix operator written WITHOUT parentheses as the right
operand of `^` (`2 ^ -3`, `a ^ --b`, `a ^ -f x`) — everywhere except in the shape the property
excludes (`x ^ -y ^ z`) — the builder returns the promised tree (Spec/AstLoose.lean). -/
theorem C02_parse_loose (e : Expr) :
    tokensToOperatorTree (renderL e false) = .ok ⟨.rootNode, [toTreeL e false]⟩ :=
  Evalexpr.Spec.C02_parse_loose e

theorem C02_string_loose (e : Expr) (ps : List (Gap × PTok)) (g : Gap)
    (hts : ps.map (·.2.tok) = renderL e false) (hp : ∀ p ∈ ps, p.2.Printable) (ha : Admissible ps g) :
    buildOperatorTree (renderFrom ps g) = .ok ⟨.rootNode, [toTreeL e false]⟩ := by
  unfold buildOperatorTree
  rw [Evalexpr.Spec.C07_roundtrip ps g hp ha, hts]
  exact C02_parse_loose e

/-- `2 ^ -3` and `a ^ --b` are written without parentheses; `a ^ (-b ^ c)` keeps them -/
example : renderL (.bin .exp (.lit (.int 2)) (.neg (.lit (.int 3)))) false = [.int 2, .hat, .minus, .int 3] := rfl
example : renderL (.bin .exp (.var ['a']) (.neg (.neg (.var ['b'])))) false =
    [.identifier ['a'], .hat, .minus, .minus, .identifier ['b']] := rfl
example : renderL (.bin .exp (.var ['a']) (.neg (.bin .exp (.var ['b']) (.var ['c'])))) false =
    [.identifier ['a'], .hat, .lBrace, .minus, .identifier ['b'], .hat, .identifier ['c'], .rBrace] := rfl

/-- redundant parentheses never change the tree's meaning -/
theorem C02_redundant_parens (e : Expr) : toAstTree (.paren e) = toAstTree e := rfl

/-! ### instances (tests by evaluation of the closed statement) -/
section Examples
private def i (n : Nat) : Expr := .lit (.int (Int64.ofNat n))
private def v (c : Char) : Expr := .var [c]

/-- `1 + 2 * 3`: `*` binds tighter -/
example : tokensToOperatorTree [.int 1, .plus, .int 2, .star, .int 3] =
    .ok ⟨.rootNode, [⟨.add, [⟨.const (.int 1), []⟩, ⟨.mul, [⟨.const (.int 2), []⟩, ⟨.const (.int 3), []⟩]⟩]⟩]⟩ :=
  C02_parse (.bin .add (i 1) (.bin .mul (i 2) (i 3)))

/-- `1 - 2 - 3` groups left-to-right, `a = b = 1` right-to-left -/
example : render (.bin .sub (.bin .sub (i 1) (i 2)) (i 3)) = [.int 1, .minus, .int 2, .minus, .int 3] := rfl
example : render (.bin .sub (i 1) (.bin .sub (i 2) (i 3))) =
    [.int 1, .minus, .lBrace, .int 2, .minus, .int 3, .rBrace] := rfl
example : render (.assign .assign ['a'] (.assign .assign ['b'] (i 1))) =
    [.identifier ['a'], .assign, .identifier ['b'], .assign, .int 1] := rfl
/-- `-a ^ b` is `-(a ^ b)`; `(-a) ^ b` needs its parentheses -/
example : render (.neg (.bin .exp (v 'a') (v 'b'))) = [.minus, .identifier ['a'], .hat, .identifier ['b']] := rfl
example : render (.bin .exp (.neg (v 'a')) (v 'b')) =
    [.lBrace, .minus, .identifier ['a'], .rBrace, .hat, .identifier ['b']] := rfl
/-- `f g x` is `f(g(x))` -/
example : render (.call ['f'] (.call ['g'] (v 'x'))) = [.identifier ['f'], .identifier ['g'], .identifier ['x']] := rfl
end Examples

end Evalexpr.Spec.C02
