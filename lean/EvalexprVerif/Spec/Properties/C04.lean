/-
C04 — Variables keep the last assigned value; HashMapContext is type safe.
`C04_refines`: for EVERY finite history of context operations from the empty context the model of
HashMapContext returns what the abstract map model (Spec/RefCtx.lean: a partial function from names
to values with one type rule) returns, step by step, and stays observably equal to it.
Proofs: Proofs/ContextRefine.
-/
import EvalexprVerif.Proofs.ContextRefine
import EvalexprVerif.Proofs.AgreeFnContext

namespace Evalexpr.Spec.C04
open Evalexpr Evalexpr.Spec

theorem C04_refines (ops : List CtxOp) (hwf : ∀ op ∈ ops, op.wf = true) :
    (runModel {} ops).1 = (runSpec RefCtx.empty ops).1 ∧
      (absCtx (runModel {} ops).2).Equiv (runSpec RefCtx.empty ops).2 ∧ HashMapCtx.Inv (runModel {} ops).2 :=
  Evalexpr.Spec.C04_refines ops hwf
theorem C04_type_safe (h : HashMapCtx) (id : Str) (v old : Value)
    (hold : alookup id h.vars = some old) (ht : old.type ≠ v.type) :
    h.setValue id v = .error (Err.expectedType old v) := Evalexpr.Spec.C04_type_safe h id v old hold ht
theorem C04_overwrite (h : HashMapCtx) (id : Str) (v old : Value)
    (hold : alookup id h.vars = some old) (ht : old.type = v.type) :
    ∃ h', h.setValue id v = .ok h' ∧ alookup id h'.vars = some v ∧
      (∀ k, k ≠ id → alookup k h'.vars = alookup k h.vars) ∧ h'.funs = h.funs ∧ h'.noBuiltins = h.noBuiltins :=
  Evalexpr.Spec.C04_overwrite h id v old hold ht
theorem C04_clear_forgets (h : HashMapCtx) (id : Str) (v : Value) :
    alookup id h.clearVariables.vars = none ∧
      ∃ h', h.clearVariables.setValue id v = .ok h' ∧ alookup id h'.vars = some v :=
  Evalexpr.Spec.C04_clear_forgets h id v
theorem C04_listing (h : HashMapCtx) (hinv : HashMapCtx.Inv h) (k : Str) (v : Value) :
    (k, v) ∈ Ctx.iterVariables (.hashMap h) ↔ Ctx.getValue (.hashMap h) k = some v :=
  Evalexpr.Spec.C04_listing h hinv k v
theorem C04_opassign (op base : Operator) (x : Str) (v old : Value) (s : St)
    (hb : op.assignBase = some base) (hx : s.ctx.getValue x = some old) :
    op.evalMut [.string x, v] s =
      match base.eval [old, v] s with
      | (.error e, s') => (.error e, s')
      | (.ok r, s') => Operator.evalMut .assign [.string x, r] s' :=
  Evalexpr.Spec.C04_opassign op base x v old s hb hx

/-- a history that reaches a type error: `a = 1` then `a = "s"` is rejected with ExpectedInt -/
example : (runModel {} [.setValue ['a'] (.int 1), .setValue ['a'] (.string ['s'])]).1
    = [.ok (), .error (.expectedInt (.string ['s']))] := rfl
/-- tuples of another length overwrite -/
example : (runModel {} [.setValue ['a'] (.tuple [.int 1]), .setValue ['a'] (.tuple [])]).1 = [.ok (), .ok ()] := rfl

/-! ### about the code as translated on this run
`Gen.HashMapContext.set_value` is the body of `HashMapContext::set_value` (src/context/mod.rs) rendered by `translate_fn.py`
(`get_mut` + `*existing_value = value` read as an update of that entry); it returns the result and the new context. -/
theorem C04_type_safe_generated (h : HashMapCtx) (id : Str) (v old : Value)
    (hold : alookup id h.vars = some old) (ht : old.type ≠ v.type) :
    (Gen.HashMapContext.set_value h id v).1 = .error (Err.expectedType old v) := by
  have h1 := C04_type_safe h id v old hold ht
  rw [AgreeFn.fn_HashMapContext_set_value_agree] at h1
  cases hr : (Gen.HashMapContext.set_value h id v).1 with
  | error e => rw [hr] at h1; simpa [Except.map] using h1
  | ok u => rw [hr] at h1; simp [Except.map] at h1

end Evalexpr.Spec.C04
