/-
C12 — All evaluation entry points are views of one evaluator.
The 48 wrappers are re-extracted from the source on every run and proved equal to the table
generated from one rule (Spec/Tables.lean `levelRows`: each typed form matches on the untyped
evaluator of the same level and mode, projects exactly its variant, raises exactly its expected-type
error, passes errors through; the context-free forms delegate to the mutable form on a fresh
HashMapContext) — `entryPoints_agree`. The model's entry points are that rule (`C12_projection`,
`C12_precompile`, `C12_fresh`), and `C12_project_typed` states the projection outright.
-/
import EvalexprVerif.Proofs.ContextRefine
import EvalexprVerif.Proofs.AgreeEntry
import EvalexprVerif.Proofs.AgreeFnInterface

namespace Evalexpr.Spec.C12
open Evalexpr Evalexpr.Spec

theorem C12_projection (k : Kind) (m : Mode) (n : Node) (s : St) :
    runTree k m n s = (k.project (runTreeUntyped m n s).1, (runTreeUntyped m n s).2) :=
  Evalexpr.Spec.C12_projection k m n s
theorem C12_precompile (k : Kind) (m : Mode) (src : List Char) (s : St) :
    runString k m src s = match buildOperatorTree src with
      | .ok n => runTree k m n s
      | .error e => (.error e, s) := Evalexpr.Spec.C12_precompile k m src s
theorem C12_build_error (k : Kind) (m : Mode) (src : List Char) (s : St) (e : Err)
    (h : buildOperatorTree src = .error e) : runString k m src s = (.error e, s) :=
  Evalexpr.Spec.C12_build_error k m src s e h
theorem C12_project_error (k : Kind) (e : Err) : k.project (.error e) = .error e :=
  Evalexpr.Spec.C12_project_error k e
theorem C12_project_typed (v : Value) :
    Kind.project .string (.ok v) = (match v with | .string s => .ok (.string s) | v => .error (.expectedString v)) ∧
    Kind.project .int (.ok v) = (match v with | .int i => .ok (.int i) | v => .error (.expectedInt v)) ∧
    Kind.project .float (.ok v) = (match v with | .float f => .ok (.float f) | v => .error (.expectedFloat v)) ∧
    Kind.project .number (.ok v) = (match v with | .int i => .ok (.float i.toFloat) | .float f => .ok (.float f) | v => .error (.expectedNumber v)) ∧
    Kind.project .boolean (.ok v) = (match v with | .boolean b => .ok (.boolean b) | v => .error (.expectedBoolean v)) ∧
    Kind.project .tuple (.ok v) = (match v with | .tuple t => .ok (.tuple t) | v => .error (.expectedTuple v)) ∧
    Kind.project .empty (.ok v) = (match v with | .empty => .ok .empty | v => .error (.expectedEmpty v)) :=
  Evalexpr.Spec.C12_project_typed v
theorem C12_fresh (k : Kind) (n : Node) (s : St) :
    runTree k .fresh n s = (k.project (n.evalMut St.fresh).1, s) := Evalexpr.Spec.C12_fresh k n s
/-- equal state, equal input ⇒ equal result: the entry points are functions (no hidden state; see also C15 purity) -/
theorem C12_function (k : Kind) (m : Mode) (src : List Char) (s₁ s₂ : St) (h : s₁ = s₂) :
    runString k m src s₁ = runString k m src s₂ := by rw [h]

/-- every string-level entry point is the projection of the untyped one of the same mode -/
theorem C12_string_projection (k : Kind) (m : Mode) (src : List Char) (s : St) :
    runString k m src s = (k.project (runString .value m src s).1, (runString .value m src s).2) := by
  unfold runString
  cases buildOperatorTree src with
  | error e => cases k <;> rfl
  | ok n =>
    simp only [C12_projection]
    cases h : (runTreeUntyped m n s).1 with
    | error e => cases k <;> simp [Kind.project]
    | ok v => cases k <;> cases v <;> simp [Kind.project]

/-- **C12 about the code as translated on this run**: the rendered typed wrappers of src/interface/mod.rs (here the seven
read-only ones; the mutable and context-free ones have the same theorems in `Proofs/AgreeFnInterface.lean`), embedded into
`Value`, are the projections of the rendered untyped `eval_with_context` — payload if the variant matches, the matching
expected-type error otherwise, errors unchanged, `number` converting integers — and leave the same state -/
theorem C12_projection_generated (src : List Char) (s : St) :
    let u := Gen.eval_with_context src s
    Prod.map (Except.map Value.string) id (Gen.eval_string_with_context src s) = (Kind.project .string u.1, u.2) ∧
    Prod.map (Except.map Value.int) id (Gen.eval_int_with_context src s) = (Kind.project .int u.1, u.2) ∧
    Prod.map (Except.map Value.float) id (Gen.eval_float_with_context src s) = (Kind.project .float u.1, u.2) ∧
    Prod.map (Except.map Value.float) id (Gen.eval_number_with_context src s) = (Kind.project .number u.1, u.2) ∧
    Prod.map (Except.map Value.boolean) id (Gen.eval_boolean_with_context src s) = (Kind.project .boolean u.1, u.2) ∧
    Prod.map (Except.map Value.tuple) id (Gen.eval_tuple_with_context src s) = (Kind.project .tuple u.1, u.2) := by
  intro u
  simp only [u, AgreeFn.fn_eval_with_context_agree, AgreeFn.fn_eval_string_with_context_agree,
    AgreeFn.fn_eval_int_with_context_agree, AgreeFn.fn_eval_float_with_context_agree,
    AgreeFn.fn_eval_number_with_context_agree, AgreeFn.fn_eval_boolean_with_context_agree,
    AgreeFn.fn_eval_tuple_with_context_agree]
  exact ⟨C12_string_projection _ _ _ _, C12_string_projection _ _ _ _, C12_string_projection _ _ _ _,
    C12_string_projection _ _ _ _, C12_string_projection _ _ _ _, C12_string_projection _ _ _ _⟩

end Evalexpr.Spec.C12
