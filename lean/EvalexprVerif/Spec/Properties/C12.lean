/-
C12 — All evaluation entry points are views of one evaluator.
The 48 wrappers are re-extracted from the source on every run and proved equal to the table
generated from one rule (Spec/Tables.lean `levelRows`: each typed form matches on the untyped
evaluator of the same level and mode, projects exactly its variant, raises exactly its expected-type
error, passes errors through; the context-free forms delegate to the mutable form on a fresh
HashMapContext) — `entryPoints_agree`. The model's entry points are that rule (`C12_projection`,
`C12_precompile`, `C12_fresh`), and `C12_project_typed` states the projection outright.
-/
import EvalexprVerif.Proofs.ContextRefine
import EvalexprVerif.Proofs.AgreeEntry

namespace Evalexpr.Spec.C12
open Evalexpr Evalexpr.Spec

theorem C12_projection (k : Kind) (m : Mode) (n : Node) (s : St) :
    runTree k m n s = (k.project (runTreeUntyped m n s).1, (runTreeUntyped m n s).2) :=
  Evalexpr.Spec.C12_projection k m n s
theorem C12_precompile (k : Kind) (m : Mode) (src : List Char) (s : St) :
    runString k m src s = match buildOperatorTree src with
      | .ok n => runTree k m n s
      | .error e => (.error e, s) := Evalexpr.Spec.C12_precompile k m src s
theorem C12_build_error (k : Kind) (m : Mode) (src : List Char) (s : St) (e : Err)
    (h : buildOperatorTree src = .error e) : runString k m src s = (.error e, s) :=
  Evalexpr.Spec.C12_build_error k m src s e h
theorem C12_project_error (k : Kind) (e : Err) : k.project (.error e) = .error e :=
  Evalexpr.Spec.C12_project_error k e
theorem C12_project_typed (v : Value) :
    Kind.project .string (.ok v) = (match v with | .string s => .ok (.string s) | v => .error (.expectedString v)) ∧
    Kind.project .int (.ok v) = (match v with | .int i => .ok (.int i) | v => .error (.expectedInt v)) ∧
    Kind.project .float (.ok v) = (match v with | .float f => .ok (.float f) | v => .error (.expectedFloat v)) ∧
    Kind.project .number (.ok v) = (match v with | .int i => .ok (.float i.toFloat) | .float f => .ok (.float f) | v => .error (.expectedNumber v)) ∧
    Kind.project .boolean (.ok v) = (match v with | .boolean b => .ok (.boolean b) | v => .error (.expectedBoolean v)) ∧
    Kind.project .tuple (.ok v) = (match v with | .tuple t => .ok (.tuple t) | v => .error (.expectedTuple v)) ∧
    Kind.project .empty (.ok v) = (match v with | .empty => .ok .empty | v => .error (.expectedEmpty v)) :=
  Evalexpr.Spec.C12_project_typed v
theorem C12_fresh (k : Kind) (n : Node) (s : St) :
    runTree k .fresh n s = (k.project (n.evalMut St.fresh).1, s) := Evalexpr.Spec.C12_fresh k n s
/-- equal state, equal input ⇒ equal result: the entry points are functions (no hidden state; see also C15 purity) -/
theorem C12_function (k : Kind) (m : Mode) (src : List Char) (s₁ s₂ : St) (h : s₁ = s₂) :
    runString k m src s₁ = runString k m src s₂ := by rw [h]

end Evalexpr.Spec.C12
