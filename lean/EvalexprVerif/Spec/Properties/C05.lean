/-
C05 — Tuples and chains compose: `,` aggregates, `;` sequences.

`C05_tree`: for EVERY well-formed level (a chain by `;` of tuples by `,` of optional operands, each
operand an expression or a parenthesised level, any depth, any absent elements) the tree builder
returns exactly the reference tree `levelTree` (chain of tuples, one root per element, nesting only
through parentheses). `C05_*_value`: a chain evaluates all members in order and yields the last, a
tuple is the flat tuple of its elements' values, an absent element / `()` is the empty value.
Proofs: Proofs/ParseSeqExpr, Proofs/ParseSeq (tree), Proofs/EvalOrder (values).
-/
import EvalexprVerif.Proofs.LexExt
import EvalexprVerif.Proofs.ParseSeq
import EvalexprVerif.Proofs.EvalOrder
import EvalexprVerif.Proofs.AgreeOperator
import EvalexprVerif.Proofs.LexRoundtrip
import EvalexprVerif.Proofs.AgreeFnTokensToTree

namespace Evalexpr.Spec.C05
open Evalexpr Evalexpr.Spec

/-- **C05 (tree)** -/
theorem C05_tree (l : Level) (h : levelWf l = true) :
    tokensToOperatorTree (renderLevel l) = .ok (levelTree l) := Evalexpr.Spec.C05_tree l h

/-- **C05 about the code as translated on this run** (`Gen.tokens_to_operator_tree`: the rendered body of
`tokens_to_operator_tree` with its sequence branches and the rendered `collapse_root_stack_to` / `collapse_all_sequences`):
on the tokens of every well-formed level it terminates and returns the reference tree of the level -/
theorem C05_tree_generated (l : Level) (h : levelWf l = true) :
    Gen.tokens_to_operator_tree (renderLevel l) = some (.ok (levelTree l)) := by
  rw [AgreeFn.fn_tokens_to_operator_tree_agree, C05_tree l h]

/-- … in every literal spelling with the weakest separation the lexer needs (extended round trip) -/
theorem C05_string_ext (l : Level) (h : levelWf l = true) (ps : List (Gap × PTok)) (g : Gap)
    (hts : ps.map (·.2.tok) = renderLevel l) (hp : ∀ p ∈ ps, p.2.PrintableX) (ha : AdmissibleX ps g) :
    buildOperatorTree (renderFrom ps g) = .ok (levelTree l) := by
  unfold buildOperatorTree
  rw [Evalexpr.Spec.C07_roundtrip_ext ps g hp ha, hts]
  exact C05_tree l h

/-- **C05 (string level)**: any spelling of the level's tokens with any admissible gaps -/
theorem C05_string (l : Level) (h : levelWf l = true) (ps : List (Gap × PTok)) (g : Gap)
    (hts : ps.map (·.2.tok) = renderLevel l) (hp : ∀ p ∈ ps, p.2.Printable) (ha : Admissible ps g) :
    buildOperatorTree (renderFrom ps g) = .ok (levelTree l) := by
  unfold buildOperatorTree
  rw [Evalexpr.Spec.C07_roundtrip ps g hp ha, hts]
  exact C05_tree l h

/-- `,` binds tighter than `;`, both weaker than every other operator -/
theorem C05_tables :
    Operator.chain.precedence < Operator.tuple.precedence ∧ Operator.tuple.precedence < Operator.assign.precedence ∧
      Operator.tuple.isSequence = true ∧ Operator.chain.isSequence = true ∧
      Operator.tuple.maxArgumentAmount = none ∧ Operator.chain.maxArgumentAmount = none := by decide

/-- an absent element, and `()`, is the empty value -/
theorem C05_absent (s : St) : (Node.mk .rootNode []).evalMut s = (.ok .empty, s) := C05_root_empty s
/-- an element's root node is transparent -/
theorem C05_element (c : Node) (s : St) : (Node.mk .rootNode [c]).evalMut s = c.evalMut s := C05_root_single c s
/-- `,` builds one flat tuple of all its elements, evaluated left to right -/
theorem C05_tuple (cs : List Node) (s s' : St) (vs : List Value)
    (h : evalMutList cs s = (.ok vs, s')) : (Node.mk .tuple cs).evalMut s = (.ok (.tuple vs), s') :=
  C05_tuple_value cs s s' vs h
/-- `;` evaluates all its elements in order and yields the last one -/
theorem C05_chain (cs : List Node) (s s' : St) (vs : List Value) (v : Value)
    (h : evalMutList cs s = (.ok vs, s')) (hl : vs.getLast? = some v) :
    (Node.mk .chain cs).evalMut s = (.ok v, s') := C05_chain_value cs s s' vs v h hl

/-- a chain ending in `;` evaluates to the empty value: `1;` -/
example : tokensToOperatorTree [.int 1, .semicolon] =
    .ok ⟨.rootNode, [⟨.chain, [⟨.rootNode, [⟨.const (.int 1), []⟩]⟩, ⟨.rootNode, []⟩]⟩]⟩ :=
  C05_tree [[some (.expr (.lit (.int 1)))], [none]] rfl

/-- `a, b; c, d` is a chain of two tuples (the repaired defect 93b37d2 made `1, 2; 3` fail) -/
example : tokensToOperatorTree [.int 1, .comma, .int 2, .semicolon, .int 3] =
    .ok ⟨.rootNode, [⟨.chain, [⟨.tuple, [⟨.rootNode, [⟨.const (.int 1), []⟩]⟩, ⟨.rootNode, [⟨.const (.int 2), []⟩]⟩]⟩,
      ⟨.rootNode, [⟨.const (.int 3), []⟩]⟩]⟩]⟩ :=
  C05_tree [[some (.expr (.lit (.int 1))), some (.expr (.lit (.int 2)))], [some (.expr (.lit (.int 3)))]] rfl

end Evalexpr.Spec.C05
