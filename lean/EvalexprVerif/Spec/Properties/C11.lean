/-
C11 — Read-only evaluation equals mutable evaluation and never mutates.
`C11_project`: for EVERY tree and state, the read-only evaluator returns the projection of the
mutable run stopped where it would apply an assignment operator (`Spec.evalStop`): ContextNotMutable
iff an assignment is reached before the run finishes or fails, otherwise the very same outcome.
Proofs: Proofs/EvalOrder.
-/
import EvalexprVerif.Proofs.EvalOrder
import EvalexprVerif.Proofs.AgreeEvalArms
import EvalexprVerif.Proofs.AgreeFnTree

namespace Evalexpr.Spec.C11
open Evalexpr Evalexpr.Spec

theorem C11_readonly (n : Node) (s : St) : (n.evalRO s).2.ctx = s.ctx := Evalexpr.Spec.C11_readonly n s
theorem C11_agree (n : Node) (s : St) (h : noAssign n = true) : n.evalRO s = n.evalMut s :=
  Evalexpr.Spec.C11_agree n s h
theorem C11_noassign_ctx (n : Node) (s : St) (h : noAssign n = true) : (n.evalMut s).2.ctx = s.ctx :=
  Evalexpr.Spec.C11_noassign_ctx n s h
/-- **C11 (main)** -/
theorem C11_project (n : Node) (s : St) : n.evalRO s = projectStop (evalStop n s) :=
  Evalexpr.Spec.C11_project n s
theorem C11_stop_finished (n : Node) (s s' : St) (r : Res Value)
    (h : evalStop n s = (.finished r, s')) : n.evalMut s = (r, s') :=
  Evalexpr.Spec.C11_stop_finished n s s' r h
theorem C11_nostorage_ctx (n : Node) (s : St) (h : HashMapCtx) (hs : s.ctx = .noStorage h) :
    (n.evalMut s).2.ctx = s.ctx := Evalexpr.Spec.C11_nostorage_ctx n s h hs
theorem C11_nostorage_assign (op : Operator) (args : List Value) (s : St) (h : HashMapCtx)
    (hop : Operator.isAssignKind op = true) (hs : s.ctx = .noStorage h) :
    ∃ e, (op.evalMut args s).1 = .error e := Evalexpr.Spec.C11_nostorage_assign op args s h hop hs

/-- **C11 about the code as translated on this run**: the rendered `Node::eval_with_context` returns the projection of the
rendered `Node::eval_with_context_mut` stopped at the first applied assignment, and leaves the context unchanged -/
theorem C11_project_generated (n : Node) (s : St) :
    Gen.Node.eval_with_context n s = projectStop (evalStop n s) ∧ (Gen.Node.eval_with_context n s).2.ctx = s.ctx := by
  rw [AgreeFn.fn_Node_eval_with_context_agree]; exact ⟨C11_project n s, C11_readonly n s⟩
theorem C11_agree_generated (n : Node) (s : St) (h : noAssign n = true) :
    Gen.Node.eval_with_context n s = Gen.Node.eval_with_context_mut n s := by
  rw [AgreeFn.fn_Node_eval_with_context_agree, AgreeFn.fn_Node_eval_with_context_mut_agree]; exact C11_agree n s h

/-- an error before the assignment is reported, not ContextNotMutable: `zz + (a = 1)` -/
example : ((Node.mk .add [⟨.varRead ['z'], []⟩, ⟨.assign, [⟨.varWrite ['a'], []⟩, ⟨.const (.int 1), []⟩]⟩]).evalRO
    ⟨.hashMap {}, []⟩).1 = .error (.variableIdentifierNotFound ['z']) := rfl
example : ((Node.mk .assign [⟨.varWrite ['a'], []⟩, ⟨.const (.int 1), []⟩]).evalRO ⟨.hashMap {}, []⟩).1
    = .error .contextNotMutable := rfl

end Evalexpr.Spec.C11
