/-
Spec/Fingerprints.lean — the normalised-source fingerprints (sha256 prefix of the token text, comments
and layout removed) of every function of /repo/src that `Model/` transcribes by hand, as they were when
the model was last validated against them (line-by-line reading + the correspondence runs).
`Proofs/AgreeFp*.lean` prove that the fingerprints extracted on this run equal these: an edit to a
modelled function that no table captures is still a broken, *named* obligation, and the check then
searches for an input on which the property fails. Updating an entry here is a statement that the
model has been re-validated against the new text.  NOT generated.
Functions whose bodies are translated to Lean and proved equal to the model (translate_fn.py, Proofs/AgreeFn*.lean) are not
listed: they are tied semantically, not textually.
-/
namespace Evalexpr.Spec.Fingerprints

def fpBuiltin : List Nat := [
  0x047d42047c91a3ccd43827d008a4442c  /- value/display.rs::fmt -/]

def fpContext : List Nat := [
  0xe2990efed42fa25eaa4a51fb37e48b15  /- context/mod.rs::default#0 -/,
  0xe2990efed42fa25eaa4a51fb37e48b15  /- context/mod.rs::default#1 -/]

def fpEval : List Nat := [
  0x7c39b0e7bee4514c8d602e1c90d47c07  /- value/mod.rs::is_string -/,
  0x80173e86a1a6339cad9f9f0801416ab8  /- value/mod.rs::is_int -/,
  0xf2dbfc474e616b9df2404b40b58982c7  /- value/mod.rs::is_float -/,
  0x1e915a39599200806856392c71c42d25  /- value/mod.rs::is_number -/,
  0x09c1d7347ef767ee74d419bb3b0d0d65  /- value/mod.rs::is_boolean -/,
  0x43e79009da0b876532aff0e302b5b509  /- value/mod.rs::is_tuple -/,
  0x228612cc3b547cc595f37e5f8485b52b  /- value/mod.rs::is_empty -/,
  0x0faf4a569ab731bdfd863a00e832005d  /- value/mod.rs::from#3 -/,
  0x1cf140d1c429c14893c81bdcb75862ee  /- value/mod.rs::from#4 -/,
  0x6d4c0f2ee8146a525f6530f0b9c057c5  /- value/mod.rs::from#5 -/,
  0x44dca42bdc5484b1a3001391a55ff9fe  /- value/mod.rs::try_from#0 -/,
  0xd046b91a4c216adbbde55407bf039867  /- value/mod.rs::try_from#1 -/,
  0x5f24f5d6631860e2c4a536825e9fae46  /- value/mod.rs::try_from#2 -/,
  0xfca3a095fe2813478196b39913586472  /- value/mod.rs::try_from#3 -/,
  0xf572890976667b7dda75fe372ddbdb5b  /- function/mod.rs::call -/,
  0x2354ae232c6541939f0472061fcfa50b  /- function/mod.rs::new -/]

def fpInterface : List Nat := [
]

def fpIter : List Nat := [
  0xe50e35b4df26e1be29400cfcaab04c0a  /- tree/iter.rs::iter -/,
  0x75e882bf1d574cfce1eeb3364e505107  /- tree/iter.rs::iter_operators_mut -/,
  0x6cf92f13a8d524bcac9420aec987fe6b  /- tree/mod.rs::iter_identifiers -/,
  0x5464d625d56e5e3557d9be232e6d1cc9  /- tree/mod.rs::iter_identifiers_mut -/,
  0xac3055637105780a1fa4ddd1b44c3db1  /- tree/mod.rs::iter_variable_identifiers -/,
  0x64521d116dca3b4c33bedd56b0cf94ff  /- tree/mod.rs::iter_variable_identifiers_mut -/,
  0x502630264cd63926af3fcd4af51a1dc6  /- tree/mod.rs::iter_read_variable_identifiers -/,
  0x210415c46d40a3ca3cfeb7f9d3279dbc  /- tree/mod.rs::iter_read_variable_identifiers_mut -/,
  0x081543e913522693e1d40aad017e4ca8  /- tree/mod.rs::iter_write_variable_identifiers -/,
  0xea4b966945f388d9278c05ba9f8eeba5  /- tree/mod.rs::iter_write_variable_identifiers_mut -/,
  0x3d5120c4c4d82f8cec469a3c1879edd1  /- tree/mod.rs::iter_function_identifiers -/,
  0xca26026819dc982773f57a75ec135e7d  /- tree/mod.rs::iter_function_identifiers_mut -/,
  0xea7df6e0f8ca109b49f549a517ab4362  /- tree/mod.rs::children_mut -/,
  0x1791e2cef5cac11c3081ecdea3996c54  /- tree/mod.rs::operator_mut -/]

def fpLexer : List Nat := [
]

def fpNumeric : List Nat := [
  0xe9052c5407c27fb28bf3688a9d2b386f  /- value/numeric_types/default_numeric_types.rs::random -/]

def fpSerde : List Nat := [
  0xa7ccd779f084200d6180b6aaad3682c0  /- feature_serde/mod.rs::deserialize -/,
  0x810573a19e6174000ab531bf1b7ee609  /- feature_serde/mod.rs::visit_str -/]

def fpTree : List Nat := [
]

end Evalexpr.Spec.Fingerprints
