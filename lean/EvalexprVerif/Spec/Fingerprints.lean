/-
Spec/Fingerprints.lean — the normalised-source fingerprints (sha256 prefix of the token text, comments
and layout removed) of every function of /repo/src that `Model/` transcribes by hand, as they were when
the model was last validated against them (line-by-line reading + the correspondence runs).
`Proofs/AgreeFp*.lean` prove that the fingerprints extracted on this run equal these: an edit to a
modelled function that no table captures is still a broken, *named* obligation, and the check then
searches for an input on which the property fails. Updating an entry here is a statement that the
model has been re-validated against the new text.  NOT generated.
Functions whose bodies are translated to Lean and proved equal to the model (translate_fn.py, Proofs/AgreeFn*.lean) are not
listed: they are tied semantically, not textually.
-/
namespace Evalexpr.Spec.Fingerprints

def fpBuiltin : List Nat := [
]

def fpContext : List Nat := [
]

def fpEval : List Nat := [
  0xf572890976667b7dda75fe372ddbdb5b  /- function/mod.rs::call -/,
  0x2354ae232c6541939f0472061fcfa50b  /- function/mod.rs::new -/]

def fpInterface : List Nat := [
]

def fpIter : List Nat := [
  0xea7df6e0f8ca109b49f549a517ab4362  /- tree/mod.rs::children_mut -/,
  0x1791e2cef5cac11c3081ecdea3996c54  /- tree/mod.rs::operator_mut -/]

def fpLexer : List Nat := [
]

def fpNumeric : List Nat := [
  0xe9052c5407c27fb28bf3688a9d2b386f  /- value/numeric_types/default_numeric_types.rs::random -/]

def fpSerde : List Nat := [
  0xa7ccd779f084200d6180b6aaad3682c0  /- feature_serde/mod.rs::deserialize -/]

def fpTree : List Nat := [
]

end Evalexpr.Spec.Fingerprints
