/-
Spec/Idents.lean — property C14: the identifier occurrences of an expression in source order with
their class (assignment target / applied function / read variable), the pre-order traversal the
iterators promise, and consistent renaming of variables.
-/
import EvalexprVerif.Spec.Ast
import EvalexprVerif.Model.Iter

namespace Evalexpr.Spec

/-- identifier occurrences of an expression, left to right in the source -/
def occ : Expr → List (IdentClass × Str)
  | .lit _ => []
  | .var x => [(.read, x)]
  | .call f a => (.function, f) :: occ a
  | .neg e => occ e
  | .not e => occ e
  | .bin _ l r => occ l ++ occ r
  | .assign _ x rhs => (.write, x) :: occ rhs
  | .paren e => occ e

mutual
/-- a node followed by its descendants, depth first, children left to right -/
def preorder : Node → List Node
  | ⟨op, cs⟩ => ⟨op, cs⟩ :: preorderList cs
def preorderList : List Node → List Node
  | [] => []
  | c :: cs => preorder c ++ preorderList cs
end

/-- the classified identifier occurrences the iterators of a tree report (the node's own operator
is not visited: `iter()` starts at the children) -/
def identOccurrences (n : Node) : List (IdentClass × Str) :=
  (n.iter.map (·.op)).filterMap Operator.ident

/-- user functions that never answer with an unknown-identifier error of their own -/
def NoFabricate (c : Ctx) : Prop :=
  ∀ id f arg x, c.userFn id = some f →
    f arg ≠ .error (.variableIdentifierNotFound x) ∧ f arg ≠ .error (.functionIdentifierNotFound x)

/-- renaming the variables of a context -/
def renameVars (r : Str → Str) (h : HashMapCtx) : HashMapCtx :=
  { h with vars := h.vars.map fun (k, v) => (r k, v) }

/-- the only place an outcome mentions a variable name -/
def Err.renameVar (r : Str → Str) : Err → Err
  | .variableIdentifierNotFound x => .variableIdentifierNotFound (r x)
  | e => e

def renameRes (r : Str → Str) : Res Value → Res Value
  | .ok v => .ok v
  | .error e => .error (Err.renameVar r e)

end Evalexpr.Spec
