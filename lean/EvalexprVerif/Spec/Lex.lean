/-
Spec/Lex.lean — the vocabulary of properties C06 / C07: token texts, separators (whitespace,
block comments, line comments), gap assignments, and when a gap may be empty (`Admissible`:
tokens that would otherwise fuse stay separated). Written from the README's description of the
surface syntax, not from the lexer.
-/
import EvalexprVerif.Model.Lexer

namespace Evalexpr.Spec

/-- a separator between two tokens -/
inductive Sep where
  | ws (c : Char)          -- one Unicode whitespace character
  | block (body : Str)     -- `/*` body `*/`
  | line (body : Str)      -- `//` body newline
  deriving Inhabited

/-- `sub` occurs in `s` as a contiguous substring -/
def hasSubstr (sub : Str) : Str → Bool
  | [] => sub.isEmpty
  | c :: cs => sub.isPrefixOf (c :: cs) || hasSubstr sub cs

def Sep.valid : Sep → Bool
  | .ws c => isWhitespace c
  | .block b => !hasSubstr ['*', '/'] b
  | .line b => !b.contains '\n'

def Sep.text : Sep → Str
  | .ws c => [c]
  | .block b => '/' :: '*' :: b ++ ['*', '/']
  | .line b => '/' :: '/' :: b ++ ['\n']

abbrev Gap := List Sep

def Gap.text (g : Gap) : Str := (g.map Sep.text).flatten

/-- the 16 characters with a meaning of their own -/
def specialChars : List Char :=
  ['+', '-', '*', '/', '%', '^', '(', ')', ',', ';', '=', '!', '>', '<', '&', '|']

/-- a character that can be part of a word (identifier, number, boolean) -/
def isWordChar (c : Char) : Bool := !specialChars.contains c && !isWhitespace c && c != '"'

def isWord (w : Str) : Bool := !w.isEmpty && w.all isWordChar

/-- `quote t`: `\` and `"` backslash-escaped, everything else verbatim, in double quotes -/
def escape : Str → Str
  | [] => []
  | c :: cs => if c == '"' || c == '\\' then '\\' :: c :: escape cs else c :: escape cs

def quote (t : Str) : Str := '"' :: escape t ++ ['"']

/-- the text of the fixed tokens -/
def fixedText : Token → Option Str
  | .plus => some ['+'] | .minus => some ['-'] | .star => some ['*'] | .slash => some ['/']
  | .percent => some ['%'] | .hat => some ['^']
  | .eq => some ['=', '='] | .neq => some ['!', '='] | .gt => some ['>'] | .lt => some ['<']
  | .geq => some ['>', '='] | .leq => some ['<', '='] | .and => some ['&', '&']
  | .or => some ['|', '|'] | .not => some ['!']
  | .lBrace => some ['('] | .rBrace => some [')']
  | .assign => some ['='] | .plusAssign => some ['+', '='] | .minusAssign => some ['-', '=']
  | .starAssign => some ['*', '='] | .slashAssign => some ['/', '='] | .percentAssign => some ['%', '=']
  | .hatAssign => some ['^', '='] | .andAssign => some ['&', '&', '='] | .orAssign => some ['|', '|', '=']
  | .comma => some [','] | .semicolon => some [';']
  | _ => none

/-- a token together with the text it is written as -/
structure PTok where
  tok : Token
  text : Str
  deriving Inhabited

/-- the text denotes the token: fixed tokens by their spelling, string literals by `quote`,
identifiers / numbers / booleans by a word that, lexed on its own, is that token -/
def PTok.Printable (p : PTok) : Prop :=
  match p.tok with
  | .identifier w => p.text = w ∧ isWord w = true ∧ lexWord w = none
  | .int i => isWord p.text = true ∧ lexWord p.text = some (.int i)
  | .float f => isWord p.text = true ∧ lexWord p.text = some (.float f)
  | .boolean b => isWord p.text = true ∧ lexWord p.text = some (.boolean b)
  | .string s => p.text = quote s
  | t => fixedText t = some p.text

def isWordTok : Token → Bool
  | .identifier _ | .int _ | .float _ | .boolean _ => true
  | _ => false

/-- operator tokens that form a longer operator with a following `=` -/
def absorbsEq : Token → Bool
  | .plus | .minus | .star | .slash | .percent | .hat | .assign | .not | .gt | .lt | .and | .or => true
  | _ => false

def startsWithEq : Token → Bool
  | .assign | .eq => true
  | _ => false

def isSlash : Token → Bool
  | .slash => true
  | _ => false

def isSign : Token → Bool
  | .plus | .minus => true
  | _ => false

/-- a word that could be the mantissa-and-`e` part of a float in scientific notation -/
def looksLikeMantissaE (w : Str) : Bool :=
  (match w with | c :: _ => F64.isDigit c || c == '.' | [] => false) &&
  (match w.getLast? with | some c => c == 'e' || c == 'E' | none => false)

/-- two adjacent tokens that must be separated: two words, or an operator and a following `=` -/
def fuses (a b : Token) : Bool :=
  (isWordTok a && isWordTok b) || (absorbsEq a && startsWithEq b)

/-- `renderFrom ps g`: the tokens, each preceded by its gap, followed by the final gap `g` -/
def renderFrom : List (Gap × PTok) → Gap → Str
  | [], g => g.text
  | (g', p) :: rest, g => g'.text ++ p.text ++ renderFrom rest g

/-- what follows a token: the next gap (and token), or the final gap -/
def nextGap : List (Gap × PTok) → Gap → Gap
  | [], g => g
  | (g', _) :: _, _ => g'

/-- admissible gap assignment: every separator is well formed; a gap is non-empty where the
neighbours would fuse; `/` is not directly followed by `/` or `*` (which would open a comment);
and in `<mantissa>e`, sign, next-token at least one of the two gaps around the sign is non-empty -/
def Admissible : List (Gap × PTok) → Gap → Prop
  | [], g => ∀ s ∈ g, s.valid = true
  | (g0, p) :: rest, g =>
    (∀ s ∈ g0, s.valid = true) ∧
    (match rest with
      | (g1, q) :: rest' =>
        (fuses p.tok q.tok = true → g1 ≠ []) ∧
        (looksLikeMantissaE p.text = true → isWordTok p.tok = true → isSign q.tok = true → rest' ≠ [] →
          g1 ≠ [] ∨ nextGap rest' g ≠ [])
      | [] => True) ∧
    (isSlash p.tok = true → (renderFrom rest g).head? ≠ some '/' ∧ (renderFrom rest g).head? ≠ some '*') ∧
    Admissible rest g

end Evalexpr.Spec
