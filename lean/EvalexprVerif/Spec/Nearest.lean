/-
Spec/Nearest.lean — what "a float literal denotes the nearest double" means for property C06, stated
about `F64.roundRat` (the function the lexer model uses to turn the exact decimal value n/d of a literal
into a binary64 bit pattern): among all finite non-negative doubles it returns one closest to n/d,
with ties broken towards the even significand, and +infinity exactly when n/d is at or beyond the
overflow threshold 2^1024 − 2^970. Values are compared exactly, scaled by 2^1074 (every finite double
times 2^1074 is a natural number).
-/
import EvalexprVerif.Model.F64

namespace Evalexpr.Spec

/-- exponent field of a bit pattern -/
def expField (bits : UInt64) : Nat := ((bits >>> 52) &&& 0x7ff).toNat
/-- fraction field -/
def fracField (bits : UInt64) : Nat := (bits &&& 0xfffffffffffff).toNat

/-- a finite, non-negative double -/
def isFinitePos (bits : UInt64) : Bool := bits < 0x7ff0000000000000

/-- the value of a finite non-negative double, times 2^1074: subnormals `frac`, normals
`(2^52 + frac) · 2^(expField − 1)` -/
def scaledValue (bits : UInt64) : Nat :=
  if expField bits == 0 then fracField bits else (2 ^ 52 + fracField bits) * 2 ^ (expField bits - 1)

/-- |n/d − value(bits)| · d · 2^1074, exactly -/
def scaledError (n d : Nat) (bits : UInt64) : Nat :=
  ((n * 2 ^ 1074 : Int) - (scaledValue bits * d : Int)).natAbs

/-- n/d ≥ 2^1024 − 2^970: at or beyond the midpoint between the largest finite double and 2^1024 -/
def overflows (n d : Nat) : Bool := n * 2 ^ 1074 ≥ (2 ^ 1024 - 2 ^ 970) * 2 ^ 1074 * d

end Evalexpr.Spec
