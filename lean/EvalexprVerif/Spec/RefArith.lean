/-
Spec/RefArith.lean — reference semantics of the binary and unary operators, written from the
statement of property C03 (and the README's operator table), independently of the evaluator:
  * two ints: the exact integer result if it fits in 64 bits, else an arithmetic error
    (division truncates, remainder takes the dividend's sign, division by zero is an error);
  * a float among two numbers: both converted to double, IEEE arithmetic; `^` always float;
  * `+` concatenates two strings;
  * orderings: numbers numerically, strings lexicographically;
  * `==` / `!=`: structural equality on any values; `&&` `||` `!`: booleans only;
  * everything else: a type error.
-/
import EvalexprVerif.Model.Eval

namespace Evalexpr.Spec

inductive BinOp where
  | add | sub | mul | div | mod | exp | eq | neq | gt | lt | geq | leq | and | or
  deriving DecidableEq, Repr, Inhabited

inductive UnOp where | neg | not
  deriving DecidableEq, Repr, Inhabited

/-- what the property demands of an evaluation -/
inductive RefOutcome where
  | value (v : Value)
  | arith                      -- a dedicated arithmetic error
  | type                       -- a type error
  | valueOrArith (v : Value)   -- `MIN % -1`: the remainder 0 is representable, `checked_rem` reports overflow; either is accepted

def fits (z : Int) : Bool := -2 ^ 63 ≤ z && z < 2 ^ 63

def exactInt (z : Int) : RefOutcome := if fits z then .value (.int (Int64.ofInt z)) else .arith

def isNumber : Value → Bool
  | .int _ | .float _ => true
  | _ => false

/-- the double a number denotes after promotion -/
def toDouble : Value → Float
  | .int i => i.toFloat
  | .float f => f
  | _ => 0.0

/-- lexicographic order on strings by code point -/
def lexLt : List Char → List Char → Bool
  | [], [] => false
  | [], _ :: _ => true
  | _ :: _, [] => false
  | a :: as, b :: bs => a.toNat < b.toNat || (a.toNat == b.toNat && lexLt as bs)

def arithRef (onInt : Int → Int → RefOutcome) (onFloat : Float → Float → Float) (a b : Value) :
    RefOutcome :=
  match a, b with
  | .int x, .int y => onInt x.toInt y.toInt
  | _, _ => if isNumber a && isNumber b then .value (.float (onFloat (toDouble a) (toDouble b))) else .type

def orderRef (onInt : Int → Int → Bool) (onFloat : Float → Float → Bool)
    (onStr : List Char → List Char → Bool) (a b : Value) : RefOutcome :=
  match a, b with
  | .string s, .string t => .value (.boolean (onStr s t))
  | .int x, .int y => .value (.boolean (onInt x.toInt y.toInt))
  | _, _ => if isNumber a && isNumber b then .value (.boolean (onFloat (toDouble a) (toDouble b))) else .type

def refBinary : BinOp → Value → Value → RefOutcome
  | .add, .string s, .string t => .value (.string (s ++ t))
  | .add, a, b => arithRef (fun x y => exactInt (x + y)) (· + ·) a b
  | .sub, a, b => arithRef (fun x y => exactInt (x - y)) (· - ·) a b
  | .mul, a, b => arithRef (fun x y => exactInt (x * y)) (· * ·) a b
  | .div, a, b => arithRef (fun x y => if y == 0 then .arith else exactInt (x.tdiv y)) (· / ·) a b
  | .mod, a, b =>
    arithRef (fun x y =>
      if y == 0 then .arith
      else if x == -2 ^ 63 && y == -1 then .valueOrArith (.int 0)
      else exactInt (x.tmod y)) F64.fmod a b
  | .exp, a, b =>
    if isNumber a && isNumber b then .value (.float (Float.pow (toDouble a) (toDouble b))) else .type
  | .eq, a, b => .value (.boolean (Value.beq a b))
  | .neq, a, b => .value (.boolean (!Value.beq a b))
  | .gt, a, b => orderRef (· > ·) (· > ·) (fun s t => lexLt t s) a b
  | .lt, a, b => orderRef (· < ·) (· < ·) lexLt a b
  | .geq, a, b => orderRef (· ≥ ·) (· ≥ ·) (fun s t => !lexLt s t) a b
  | .leq, a, b => orderRef (· ≤ ·) (· ≤ ·) (fun s t => !lexLt t s) a b
  | .and, .boolean x, .boolean y => .value (.boolean (x && y))
  | .and, _, _ => .type
  | .or, .boolean x, .boolean y => .value (.boolean (x || y))
  | .or, _, _ => .type

def refUnary : UnOp → Value → RefOutcome
  | .neg, .int x => exactInt (-x.toInt)
  | .neg, .float f => .value (.float (-f))
  | .neg, _ => .type
  | .not, .boolean b => .value (.boolean (!b))
  | .not, _ => .type

def BinOp.toOperator : BinOp → Operator
  | .add => .add | .sub => .sub | .mul => .mul | .div => .div | .mod => .mod | .exp => .exp
  | .eq => .eq | .neq => .neq | .gt => .gt | .lt => .lt | .geq => .geq | .leq => .leq
  | .and => .and | .or => .or

def UnOp.toOperator : UnOp → Operator
  | .neg => .neg | .not => .not

/-- the error classes of the statement -/
def isArithError : Err → Bool
  | .additionError _ _ | .subtractionError _ _ | .negationError _ | .multiplicationError _ _
  | .divisionError _ _ | .modulationError _ _ => true
  | _ => false

def isTypeError : Err → Bool
  | .expectedString _ | .expectedInt _ | .expectedFloat _ | .expectedNumber _
  | .expectedNumberOrString _ | .expectedBoolean _ | .expectedTuple _
  | .expectedFixedLengthTuple _ _ | .expectedRangedLengthTuple _ _ _ | .expectedEmpty _
  | .typeError _ _ | .wrongTypeCombination _ _ => true
  | _ => false

/-- an evaluation result meets the reference outcome -/
def Meets (r : Res Value) : RefOutcome → Prop
  | .value v => r = .ok v
  | .arith => ∃ e, r = .error e ∧ isArithError e = true
  | .type => ∃ e, r = .error e ∧ isTypeError e = true
  | .valueOrArith v => r = .ok v ∨ ∃ e, r = .error e ∧ isArithError e = true

end Evalexpr.Spec
