/- All property modules together: the development is one coherent whole (no clashing names, one model). -/
import EvalexprVerif.Spec.Properties.C01
import EvalexprVerif.Spec.Properties.C02
import EvalexprVerif.Spec.Properties.C03
import EvalexprVerif.Spec.Properties.C04
import EvalexprVerif.Spec.Properties.C05
import EvalexprVerif.Spec.Properties.C06
import EvalexprVerif.Spec.Properties.C07
import EvalexprVerif.Spec.Properties.C08
import EvalexprVerif.Spec.Properties.C09
import EvalexprVerif.Spec.Properties.C10
import EvalexprVerif.Spec.Properties.C11
import EvalexprVerif.Spec.Properties.C12
import EvalexprVerif.Spec.Properties.C13
import EvalexprVerif.Spec.Properties.C14
import EvalexprVerif.Spec.Properties.C15
import EvalexprVerif.Spec.Properties.C16
