/-
Model/Lexer.lean — transcription of src/token/mod.rs:
`char_to_partial_token`, `parse_escape_sequence`, `parse_string_literal`, `try_skip_comment`,
`str_to_partial_tokens`, `partial_tokens_to_tokens`, `parse_dec_or_hex`, `tokenize`,
and the sidedness predicates. The peekable char iterator becomes structural recursion over
`List Char`; the `result` vector is accumulated in reverse.
-/
import EvalexprVerif.Model.F64

namespace Evalexpr

/-- `char::is_whitespace`: the Unicode `White_Space` property (25 code points). -/
def isWhitespace (c : Char) : Bool :=
  let n := c.toNat
  (0x09 ≤ n && n ≤ 0x0D) || n == 0x20 || n == 0x85 || n == 0xA0 || n == 0x1680 ||
  (0x2000 ≤ n && n ≤ 0x200A) || n == 0x2028 || n == 0x2029 || n == 0x202F || n == 0x205F ||
  n == 0x3000

/-- `char_to_partial_token` -/
def charToPartialToken (c : Char) : PartialToken :=
  if c == '+' then .plus
  else if c == '-' then .minus
  else if c == '*' then .star
  else if c == '/' then .slash
  else if c == '%' then .percent
  else if c == '^' then .hat
  else if c == '(' then .token .lBrace
  else if c == ')' then .token .rBrace
  else if c == ',' then .token .comma
  else if c == ';' then .token .semicolon
  else if c == '=' then .eq
  else if c == '!' then .exclamationMark
  else if c == '>' then .gt
  else if c == '<' then .lt
  else if c == '&' then .ampersand
  else if c == '|' then .verticalBar
  else if isWhitespace c then .whitespace
  else .literal [c]

/-- `Token::is_leftsided_value` -/
def Token.isLeftsidedValue : Token → Bool
  | .lBrace => true
  | .identifier _ | .float _ | .int _ | .boolean _ | .string _ => true
  | _ => false

/-- `Token::is_rightsided_value` -/
def Token.isRightsidedValue : Token → Bool
  | .rBrace => true
  | .identifier _ | .float _ | .int _ | .boolean _ | .string _ => true
  | _ => false

/-- `Token::is_assignment` -/
def Token.isAssignment : Token → Bool
  | .assign | .plusAssign | .minusAssign | .starAssign | .slashAssign | .percentAssign
  | .hatAssign | .andAssign | .orAssign => true
  | _ => false

/-- the push at the end of the loop body of `str_to_partial_tokens`: a literal character is
appended to a directly preceding literal, everything else is pushed (accumulator reversed). -/
def pushPartial (acc : List PartialToken) (p : PartialToken) : List PartialToken :=
  match acc, p with
  | .literal last :: rest, .literal lit => .literal (last ++ lit) :: rest
  | acc, p => p :: acc

def unmatchedInlineComment : Err := .customMessage cl!"unmatched inline comment"

mutual
/-- main loop of `str_to_partial_tokens` (between tokens) -/
def lexNormal : List Char → List PartialToken → Res (List PartialToken)
  | [], acc => .ok acc.reverse
  | [c], acc =>
    if c == '"' then lexString [] [] acc
    else lexNormal [] (pushPartial acc (charToPartialToken c))
  | c :: n :: cs, acc =>
    if c == '"' then lexString (n :: cs) [] acc
    else if c == '/' then
      -- `try_skip_comment` peeks one character
      if n == '/' then lexLine cs acc
      else if n == '*' then lexBlock cs acc
      else lexNormal (n :: cs) (pushPartial acc .slash)
    else lexNormal (n :: cs) (pushPartial acc (charToPartialToken c))
/-- `parse_string_literal` (with `parse_escape_sequence` inlined), then back to the main loop -/
def lexString : List Char → Str → List PartialToken → Res (List PartialToken)
  | [], _, _ => .error .unmatchedDoubleQuote
  | [c], s, acc =>
    if c == '"' then lexNormal [] (.token (.string s) :: acc)
    else if c == '\\' then .error (.illegalEscapeSequence ['\\'])
    else lexString [] (s ++ [c]) acc
  | c :: e :: cs, s, acc =>
    if c == '"' then lexNormal (e :: cs) (.token (.string s) :: acc)
    else if c == '\\' then
      if e == '"' then lexString cs (s ++ ['"']) acc
      else if e == '\\' then lexString cs (s ++ ['\\']) acc
      else .error (.illegalEscapeSequence ['\\', e])
    else lexString (e :: cs) (s ++ [c]) acc
/-- the line-comment branch of `try_skip_comment`; a skipped comment leaves a whitespace -/
def lexLine : List Char → List PartialToken → Res (List PartialToken)
  | [], acc => lexNormal [] (.whitespace :: acc)
  | c :: cs, acc => if c == '\n' then lexNormal cs (.whitespace :: acc) else lexLine cs acc
/-- the inline-comment branch of `try_skip_comment` -/
def lexBlock : List Char → List PartialToken → Res (List PartialToken)
  | [], _ => .error unmatchedInlineComment
  | [_], _ => .error unmatchedInlineComment
  | c :: n :: cs, acc =>
    if c == '*' && n == '/' then lexNormal cs (.whitespace :: acc) else lexBlock (n :: cs) acc
end

/-- `str_to_partial_tokens` -/
def strToPartialTokens (s : List Char) : Res (List PartialToken) := lexNormal s []

/-- `Display for Token`, only for the tokens that occur inside partial tokens. A string token is
printed by Rust with `Debug` escaping; the model keeps only what matters to its single use (the
float join below): it starts with a double quote. -/
def Token.displayInPartial : Token → Str
  | .lBrace => ['('] | .rBrace => [')'] | .comma => [','] | .semicolon => [';']
  | .string s => '"' :: s ++ ['"']
  | _ => []

/-- `Display for PartialToken` -/
def PartialToken.display : PartialToken → Str
  | .token t => t.displayInPartial
  | .literal l => l
  | .whitespace => [' ']
  | .plus => ['+'] | .minus => ['-'] | .star => ['*'] | .slash => ['/'] | .percent => ['%']
  | .hat => ['^'] | .eq => ['='] | .exclamationMark => ['!'] | .gt => ['>'] | .lt => ['<']
  | .ampersand => ['&'] | .verticalBar => ['|']

/-- `parse_dec_or_hex` -/
def parseDecOrHex (lit : Str) : Option Int64 :=
  match lit with
  | '0' :: 'x' :: rest => F64.parseHex rest
  | _ => F64.parseDec lit

/-- `literal.starts_with(|c| c.is_ascii_digit() || c == '.')` -/
def startsLikeNumber : Str → Bool
  | c :: _ => F64.isDigit c || c == '.'
  | [] => false

/-- `str::parse::<bool>` -/
def parseBool (lit : Str) : Option Bool :=
  if lit == cl!"true" then some true else if lit == cl!"false" then some false else none

/-- the single-word classification in the `PartialToken::Literal` arm (before the look-ahead) -/
def lexWord (lit : Str) : Option Token :=
  match parseDecOrHex lit with
  | some i => some (.int i)
  | none =>
    match (if startsLikeNumber lit then F64.parse lit else none) with
    | some f => some (.float f)
    | none =>
      match parseBool lit with
      | some b => some (.boolean b)
      | none => none

def isPlusOrMinus : PartialToken → Bool
  | .plus | .minus => true
  | _ => false

/-- the body of the `while` loop of `partial_tokens_to_tokens`: from `first`, `second`, `third`
to the token to emit (if any) and `cutoff`, the number of partial tokens consumed. -/
def tokenStep (first : PartialToken) (second third : Option PartialToken) :
    Res (Option Token × Nat) :=
  match first with
  | .token t => .ok (some t, 1)
  | .plus => match second with
    | some .eq => .ok (some .plusAssign, 2)
    | _ => .ok (some .plus, 1)
  | .minus => match second with
    | some .eq => .ok (some .minusAssign, 2)
    | _ => .ok (some .minus, 1)
  | .star => match second with
    | some .eq => .ok (some .starAssign, 2)
    | _ => .ok (some .star, 1)
  | .slash => match second with
    | some .eq => .ok (some .slashAssign, 2)
    | _ => .ok (some .slash, 1)
  | .percent => match second with
    | some .eq => .ok (some .percentAssign, 2)
    | _ => .ok (some .percent, 1)
  | .hat => match second with
    | some .eq => .ok (some .hatAssign, 2)
    | _ => .ok (some .hat, 1)
  | .literal lit =>
    match lexWord lit with
    | some t => .ok (some t, 1)
    | none =>
      match second, third with
      | some second, some third =>
        if isPlusOrMinus second then
          match F64.parse (lit ++ second.display ++ third.display) with
          | some f => .ok (some (.float f), 3)
          | none => .ok (some (.identifier lit), 1)
        else .ok (some (.identifier lit), 1)
      | _, _ => .ok (some (.identifier lit), 1)
  | .whitespace => .ok (none, 1)
  | .eq => match second with
    | some .eq => .ok (some .eq, 2)
    | _ => .ok (some .assign, 1)
  | .exclamationMark => match second with
    | some .eq => .ok (some .neq, 2)
    | _ => .ok (some .not, 1)
  | .gt => match second with
    | some .eq => .ok (some .geq, 2)
    | _ => .ok (some .gt, 1)
  | .lt => match second with
    | some .eq => .ok (some .leq, 2)
    | _ => .ok (some .lt, 1)
  | .ampersand => match second with
    | some .ampersand => match third with
      | some .eq => .ok (some .andAssign, 3)
      | _ => .ok (some .and, 2)
    | _ => .error (.unmatchedPartialToken first second)
  | .verticalBar => match second with
    | some .verticalBar => match third with
      | some .eq => .ok (some .orAssign, 3)
      | _ => .ok (some .or, 2)
    | _ => .error (.unmatchedPartialToken first second)

def slicePanic : Err := .panic cl!"partial_tokens_to_tokens: tokens[cutoff..]"

/-- `partial_tokens_to_tokens`: `tokens = &tokens[cutoff..]` panics if `cutoff > len`. -/
def partialTokensToTokens : List PartialToken → Res (List Token)
  | [] => .ok []
  | [a] =>
    match tokenStep a none none with
    | .error e => .error e
    | .ok (t, k) => if k == 1 then .ok t.toList else .error slicePanic
  | [a, b] =>
    match tokenStep a (some b) none with
    | .error e => .error e
    | .ok (t, k) =>
      if k == 1 then (partialTokensToTokens [b]).map (t.toList ++ ·)
      else if k == 2 then .ok t.toList
      else .error slicePanic
  | a :: b :: c :: rest =>
    match tokenStep a (some b) (some c) with
    | .error e => .error e
    | .ok (t, k) =>
      if k == 1 then (partialTokensToTokens (b :: c :: rest)).map (t.toList ++ ·)
      else if k == 2 then (partialTokensToTokens (c :: rest)).map (t.toList ++ ·)
      else if k == 3 then (partialTokensToTokens rest).map (t.toList ++ ·)
      else .error slicePanic

/-- `tokenize` -/
def tokenize (s : List Char) : Res (List Token) :=
  match strToPartialTokens s with
  | .ok ps => partialTokensToTokens ps
  | .error e => .error e

end Evalexpr
