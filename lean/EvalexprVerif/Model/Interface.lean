/-
Model/Interface.lean — the entry points of src/interface/mod.rs (string level) and
src/tree/mod.rs (tree level): 3 untyped + 21 typed forms on each level.
A typed result is represented by the `Value` of that variant.
-/
import EvalexprVerif.Model.Eval

namespace Evalexpr

/-- the result type an entry point projects to -/
inductive Kind where
  | value | string | int | float | number | boolean | tuple | empty
  deriving DecidableEq, Repr, Inhabited

/-- how an entry point obtains its context -/
inductive Mode where
  | fresh   -- no context argument: `&mut HashMapContext::new()`, discarded afterwards
  | ro      -- `_with_context(&C)`
  | mut_    -- `_with_context_mut(&mut C)`
  deriving DecidableEq, Repr, Inhabited

/-- the `match` in every typed wrapper -/
def Kind.project (k : Kind) (r : Res Value) : Res Value :=
  match r with
  | .error e => .error e
  | .ok v =>
    match k, v with
    | .value, v => .ok v
    | .string, .string s => .ok (.string s)
    | .string, v => .error (.expectedString v)
    | .int, .int i => .ok (.int i)
    | .int, v => .error (.expectedInt v)
    | .float, .float f => .ok (.float f)
    | .float, v => .error (.expectedFloat v)
    | .number, .int i => .ok (.float i.toFloat)
    | .number, .float f => .ok (.float f)
    | .number, v => .error (.expectedNumber v)
    | .boolean, .boolean b => .ok (.boolean b)
    | .boolean, v => .error (.expectedBoolean v)
    | .tuple, .tuple t => .ok (.tuple t)
    | .tuple, v => .error (.expectedTuple v)
    | .empty, .empty => .ok .empty
    | .empty, v => .error (.expectedEmpty v)

def St.fresh : St := { ctx := .hashMap {}, log := [] }

/-- the untyped tree-level evaluators: `Node::eval`, `eval_with_context`, `eval_with_context_mut` -/
def runTreeUntyped (m : Mode) (n : Node) (s : St) : Res Value × St :=
  match m with
  | .fresh => ((n.evalMut St.fresh).1, s)
  | .ro => n.evalRO s
  | .mut_ => n.evalMut s

/-- a tree-level entry point -/
def runTree (k : Kind) (m : Mode) (n : Node) (s : St) : Res Value × St :=
  let (r, s) := runTreeUntyped m n s
  (k.project r, s)

/-- a string-level entry point: tokenize, build, evaluate, project -/
def runString (k : Kind) (m : Mode) (src : List Char) (s : St) : Res Value × St :=
  match buildOperatorTree src with
  | .error e => (.error e, s)
  | .ok n => runTree k m n s

end Evalexpr
