/-
Model/Operator.lean — the static tables of src/operator/mod.rs:
`precedence`, `is_left_to_right`, `is_sequence`, `max_argument_amount`, `is_leaf`, `is_unary`.
-/
import EvalexprVerif.Model.Basic

namespace Evalexpr

/-- `Operator::precedence` -/
def OpKind.precedence : OpKind → Nat
  | .rootNode => 200
  | .add | .sub => 95
  | .neg => 110
  | .mul | .div | .mod => 100
  | .exp => 120
  | .eq | .neq | .gt | .lt | .geq | .leq => 80
  | .and => 75
  | .or => 70
  | .not => 110
  | .assign | .addAssign | .subAssign | .mulAssign | .divAssign | .modAssign | .expAssign
  | .andAssign | .orAssign => 50
  | .tuple => 40
  | .chain => 0
  | .const => 200
  | .varWrite | .varRead => 200
  | .fn => 190

/-- `Operator::is_left_to_right` -/
def OpKind.isLeftToRight : OpKind → Bool
  | .assign | .fn => false
  | _ => true

/-- `Operator::is_sequence` -/
def OpKind.isSequence : OpKind → Bool
  | .tuple | .chain => true
  | _ => false

/-- `Operator::max_argument_amount` -/
def OpKind.maxArgumentAmount : OpKind → Option Nat
  | .add | .sub | .mul | .div | .mod | .exp | .eq | .neq | .gt | .lt | .geq | .leq | .and | .or
  | .assign | .addAssign | .subAssign | .mulAssign | .divAssign | .modAssign | .expAssign
  | .andAssign | .orAssign => some 2
  | .tuple | .chain => none
  | .not | .neg | .rootNode => some 1
  | .const => some 0
  | .varWrite | .varRead => some 0
  | .fn => some 1

/-- `Operator::is_leaf` -/
def OpKind.isLeaf (k : OpKind) : Bool := k.maxArgumentAmount == some 0

/-- `Operator::is_unary` -/
def OpKind.isUnary (k : OpKind) : Bool := k.maxArgumentAmount == some 1 && k != .rootNode

def Operator.precedence (o : Operator) : Nat := o.kind.precedence
def Operator.isLeftToRight (o : Operator) : Bool := o.kind.isLeftToRight
def Operator.isSequence (o : Operator) : Bool := o.kind.isSequence
def Operator.maxArgumentAmount (o : Operator) : Option Nat := o.kind.maxArgumentAmount
def Operator.isLeaf (o : Operator) : Bool := o.kind.isLeaf
def Operator.isUnary (o : Operator) : Bool := o.kind.isUnary
/-- `self.operator() == &Operator::RootNode` -/
def Operator.isRoot (o : Operator) : Bool := o.kind == .rootNode

def OpKind.all : List OpKind :=
  [.rootNode, .add, .sub, .neg, .mul, .div, .mod, .exp, .eq, .neq, .gt, .lt, .geq, .leq, .and,
   .or, .not, .assign, .addAssign, .subAssign, .mulAssign, .divAssign, .modAssign, .expAssign,
   .andAssign, .orAssign, .tuple, .chain, .const, .varWrite, .varRead, .fn]

end Evalexpr
