/-
Model/Tree.lean — transcription of the tree builder in src/tree/mod.rs:
`has_enough_children`, `has_too_many_children`, `insert_back_prioritized`,
`collapse_root_stack_to`, `collapse_all_sequences`, `tokens_to_operator_tree`.
`&mut self` becomes "return the new node"; `root_stack` is a list whose head is the top.
-/
import EvalexprVerif.Model.Operator
import EvalexprVerif.Model.Lexer

namespace Evalexpr

def Node.new (op : Operator) : Node := ⟨op, []⟩
def Node.rootNode : Node := ⟨.rootNode, []⟩

/-- `Node::has_enough_children` -/
def Node.hasEnoughChildren (n : Node) : Bool := some n.children.length == n.op.maxArgumentAmount

/-- `Node::has_too_many_children` -/
def Node.hasTooManyChildren (n : Node) : Bool :=
  match n.op.maxArgumentAmount with
  | some m => n.children.length > m
  | none => false

/-- the test at the top of `insert_back_prioritized`, used again on the last child -/
def descends (selfOp nodeOp : Operator) (isRoot : Bool) : Bool :=
  selfOp.precedence < nodeOp.precedence || nodeOp.isUnary || isRoot ||
    (selfOp.precedence == nodeOp.precedence && !selfOp.isLeftToRight && !nodeOp.isLeftToRight)

def unwrapPanic : Err := .panic cl!"insert_back_prioritized: children.last().unwrap()"

mutual
/-- `Node::insert_back_prioritized` -/
def Node.insertBackPrioritized : Node → Node → Bool → Res Node
  | ⟨op, cs⟩, node, isRoot =>
    if descends op node.op isRoot then
      if op.isLeaf then .error .appendedToLeafNode
      else if some cs.length == op.maxArgumentAmount then
        insertAtLast op [] cs node
      else .ok ⟨op, cs ++ [node]⟩
    else .error .precedenceViolation
/-- the `has_enough_children` branch: work on the last child of `pre ++ cs` -/
def insertAtLast (op : Operator) (pre : List Node) : List Node → Node → Res Node
  | [], _ => .error unwrapPanic
  | [c], node =>
    if descends c.op node.op false then
      match Node.insertBackPrioritized c node false with
      | .ok c' => .ok ⟨op, pre ++ [c']⟩
      | .error e => .error e
    else
      if node.op.isLeaf then .error .appendedToLeafNode
      -- `last_child = self.children.pop()`
      else if op.isRoot && !pre.isEmpty then .error .missingOperatorOutsideOfBrace
      else if op.isRoot && node.op.isRoot then .error .missingOperatorOutsideOfBrace
      else if node.op.isRoot && !node.children.isEmpty then .error .missingOperatorOutsideOfBrace
      else if node.op.isRoot && c.op.isRoot then .error .missingOperatorOutsideOfBrace
      else .ok ⟨op, pre ++ [⟨node.op, node.children ++ [c]⟩]⟩
  | c :: c2 :: cs, node => insertAtLast op (pre ++ [c]) (c2 :: cs) node
end

/-- `collapse_root_stack_to` (stack head = top); returns the collapsed root and the new stack -/
def collapseRootStackTo : List Node → Node → Node → Res (Node × List Node)
  | [], _, _ => .error .unmatchedRBrace
  | higher :: stack, root, goal =>
    if higher.op.isSequence && higher.op.precedence > goal.op.precedence then
      collapseRootStackTo stack ⟨higher.op, higher.children ++ [root]⟩ goal
    else .ok (root, higher :: stack)

/-- the loop of `collapse_all_sequences` after the first pop -/
def collapseAllLoop : List Node → Node → Res (List Node)
  | stack, root =>
    if root.op.isRoot then
      if root.hasTooManyChildren then .error .missingOperatorOutsideOfBrace
      else .ok (root :: stack)
    else
      match stack with
      | [] => .error .unmatchedRBrace
      | higher :: stack' =>
        if root.op.isSequence then
          collapseAllLoop stack' ⟨higher.op, higher.children ++ [root]⟩
        else if root.hasTooManyChildren then .error .missingOperatorOutsideOfBrace
        else .ok (root :: higher :: stack')

/-- `collapse_all_sequences` -/
def collapseAllSequences : List Node → Res (List Node)
  | [] => .error .unmatchedRBrace
  | root :: stack => collapseAllLoop stack root

def unreachableSeq : Err := .panic cl!"tokens_to_operator_tree: unreachable!() (sequence without child)"

/-- the `if node.operator().is_sequence()` branch of the token loop; `root` is the popped top -/
def pushSequence (stack : List Node) (root node : Node) : Res (List Node) :=
  if root.op.kind == node.op.kind then
    .ok (⟨root.op, root.children ++ [Node.rootNode]⟩ :: stack)
  else if root.op.isRoot then
    .ok (⟨node.op, node.children ++ [root, Node.rootNode]⟩ :: Node.rootNode :: stack)
  else if root.op.precedence < node.op.precedence then
    match root.children.getLast? with
    | some last =>
      .ok (⟨node.op, node.children ++ [last, Node.rootNode]⟩ :: ⟨root.op, root.children.dropLast⟩ :: stack)
    | none => .error unreachableSeq
  else
    match collapseRootStackTo stack root node with
    | .error e => .error e
    | .ok (root, stack) =>
      match stack with
      | open_ :: stack' =>
        if open_.op.kind == node.op.kind then
          .ok (⟨open_.op, open_.children ++ [root, Node.rootNode]⟩ :: stack')
        else .ok (⟨node.op, node.children ++ [root, Node.rootNode]⟩ :: stack)
      | [] => .ok (⟨node.op, node.children ++ [root, Node.rootNode]⟩ :: stack)

/-- the non-sequence branches: insert `node` into the expression under the popped `root` -/
def pushNode (stack : List Node) (root node : Node) : Res (List Node) :=
  if root.op.isSequence then
    match root.children.getLast? with
    | some last =>
      match last.insertBackPrioritized node true with
      | .ok last' => .ok (⟨root.op, root.children.dropLast ++ [last']⟩ :: stack)
      | .error e => .error e
    | none => .error unreachableSeq
  else
    match root.insertBackPrioritized node true with
    | .ok root' => .ok (root' :: stack)
    | .error e => .error e

/-- the `match token` of the token loop: the node to insert (if any) and the new stack -/
def tokenToNode (stack : List Node) (lastRightsided : Bool) (token : Token) (next : Option Token) :
    Res (Option Node × List Node) :=
  match token with
  | .plus => .ok (some (.new .add), stack)
  | .minus => .ok (some (.new (if lastRightsided then .sub else .neg)), stack)
  | .star => .ok (some (.new .mul), stack)
  | .slash => .ok (some (.new .div), stack)
  | .percent => .ok (some (.new .mod), stack)
  | .hat => .ok (some (.new .exp), stack)
  | .eq => .ok (some (.new .eq), stack)
  | .neq => .ok (some (.new .neq), stack)
  | .gt => .ok (some (.new .gt), stack)
  | .lt => .ok (some (.new .lt), stack)
  | .geq => .ok (some (.new .geq), stack)
  | .leq => .ok (some (.new .leq), stack)
  | .and => .ok (some (.new .and), stack)
  | .or => .ok (some (.new .or), stack)
  | .not => .ok (some (.new .not), stack)
  | .lBrace => .ok (none, Node.rootNode :: stack)
  | .rBrace =>
    if stack.length ≤ 1 then .error .unmatchedRBrace
    else match collapseAllSequences stack with
      | .error e => .error e
      | .ok [] => .ok (none, [])
      | .ok (top :: stack') => .ok (some top, stack')
  | .assign => .ok (some (.new .assign), stack)
  | .plusAssign => .ok (some (.new .addAssign), stack)
  | .minusAssign => .ok (some (.new .subAssign), stack)
  | .starAssign => .ok (some (.new .mulAssign), stack)
  | .slashAssign => .ok (some (.new .divAssign), stack)
  | .percentAssign => .ok (some (.new .modAssign), stack)
  | .hatAssign => .ok (some (.new .expAssign), stack)
  | .andAssign => .ok (some (.new .andAssign), stack)
  | .orAssign => .ok (some (.new .orAssign), stack)
  | .comma => .ok (some (.new .tuple), stack)
  | .semicolon => .ok (some (.new .chain), stack)
  | .identifier id =>
    match next with
    | some n =>
      if n.isAssignment then .ok (some (.new (.varWrite id)), stack)
      else if n.isLeftsidedValue then .ok (some (.new (.fn id)), stack)
      else .ok (some (.new (.varRead id)), stack)
    | none => .ok (some (.new (.varRead id)), stack)
  | .float f => .ok (some (.new (.const (.float f))), stack)
  | .int i => .ok (some (.new (.const (.int i))), stack)
  | .boolean b => .ok (some (.new (.const (.boolean b))), stack)
  | .string s => .ok (some (.new (.const (.string s))), stack)

def Token.isNot : Token → Bool
  | .not => true
  | _ => false
def Token.isLBrace : Token → Bool
  | .lBrace => true
  | _ => false
def Token.isIdentifier : Token → Bool
  | .identifier _ => true
  | _ => false

/-- the adjacency test at the top of the token loop: two operands may only be juxtaposed if the
first is an identifier, and `!` may never directly follow an operand -/
def juxtaposed (lastRightsided lastIdentifier : Bool) (token : Token) : Bool :=
  lastRightsided && (token.isNot || (token.isLeftsidedValue && !lastIdentifier))

/-- one iteration of the `while let Some(token)` loop -/
def treeStep (stack : List Node) (lastRightsided lastIdentifier : Bool) (token : Token)
    (next : Option Token) : Res (List Node) :=
  if juxtaposed lastRightsided lastIdentifier token then
    .error (if token.isLBrace then .missingOperatorOutsideOfBrace else .appendedToLeafNode)
  else
    match tokenToNode stack lastRightsided token next with
    | .error e => .error e
    | .ok (none, stack) => .ok stack
    | .ok (some node, stack) =>
      match stack with
      | [] => .error .unmatchedRBrace
      | root :: stack =>
        if node.op.isSequence then pushSequence stack root node else pushNode stack root node

/-- the token loop -/
def treeLoop : List Token → List Node → Bool → Bool → Res (List Node)
  | [], stack, _, _ => .ok stack
  | token :: rest, stack, lastRightsided, lastIdentifier =>
    match treeStep stack lastRightsided lastIdentifier token rest.head? with
    | .error e => .error e
    | .ok stack => treeLoop rest stack token.isRightsidedValue token.isIdentifier

/-- `tokens_to_operator_tree` -/
def tokensToOperatorTree (tokens : List Token) : Res Node :=
  match treeLoop tokens [Node.rootNode] false false with
  | .error e => .error e
  | .ok stack =>
    match collapseAllSequences stack with
    | .error e => .error e
    | .ok stack =>
      if stack.length > 1 then .error .unmatchedLBrace
      else match stack with
        | root :: _ => .ok root
        | [] => .error .unmatchedRBrace

/-- `build_operator_tree` -/
def buildOperatorTree (s : List Char) : Res Node :=
  match tokenize s with
  | .ok ts => tokensToOperatorTree ts
  | .error e => .error e

end Evalexpr
