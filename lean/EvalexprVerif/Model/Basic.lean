/-
Model/Basic.lean — data types of the evalexpr model.
Mirrors: src/value/mod.rs (Value), src/value/value_type.rs (ValueType), src/token/mod.rs (Token,
PartialToken), src/operator/mod.rs (Operator), src/tree/mod.rs (Node), src/error/mod.rs (EvalexprError).
Strings are `List Char` (the lexer is `chars()`-based); ints are `Int64`; floats are `Float`.
-/

namespace Evalexpr

open Lean in
/-- `cl!"abc"` is the character list `['a','b','c']`, expanded at elaboration time so that
the kernel never has to unfold `String.toList` on a literal. -/
macro:max "cl!" s:str : term => do
  let cs := s.getString.toList
  let elems := cs.toArray.map fun c => Syntax.mkCharLit c
  `([$elems,*])

abbrev Str := List Char

/-- `Value` of src/value/mod.rs over DefaultNumericTypes. -/
inductive Value where
  | string (s : Str)
  | float (f : Float)
  | int (i : Int64)
  | boolean (b : Bool)
  | tuple (vs : List Value)
  | empty
  deriving Inhabited

inductive ValueType where
  | string | float | int | boolean | tuple | empty
  deriving DecidableEq, Repr, Inhabited

def Value.type : Value → ValueType
  | .string _ => .string
  | .float _ => .float
  | .int _ => .int
  | .boolean _ => .boolean
  | .tuple _ => .tuple
  | .empty => .empty

mutual
/-- derived `PartialEq` on `Value`: structural, IEEE `==` on floats (NaN ≠ NaN, 0.0 == -0.0). -/
def Value.beq : Value → Value → Bool
  | .string a, .string b => a == b
  | .float a, .float b => a == b
  | .int a, .int b => a == b
  | .boolean a, .boolean b => a == b
  | .tuple a, .tuple b => Value.beqList a b
  | .empty, .empty => true
  | _, _ => false
def Value.beqList : List Value → List Value → Bool
  | [], [] => true
  | a :: as, b :: bs => Value.beq a b && Value.beqList as bs
  | _, _ => false
end

/-- `Token` of src/token/mod.rs. -/
inductive Token where
  | plus | minus | star | slash | percent | hat
  | eq | neq | gt | lt | geq | leq | and | or | not
  | lBrace | rBrace
  | assign | plusAssign | minusAssign | starAssign | slashAssign | percentAssign | hatAssign
  | andAssign | orAssign
  | comma | semicolon
  | identifier (s : Str)
  | float (f : Float)
  | int (i : Int64)
  | boolean (b : Bool)
  | string (s : Str)
  deriving Inhabited

/-- `PartialToken` of src/token/mod.rs. -/
inductive PartialToken where
  | token (t : Token)
  | literal (s : Str)
  | plus | minus | star | slash | percent | hat
  | whitespace
  | eq | exclamationMark | gt | lt | ampersand | verticalBar
  deriving Inhabited

/-- `Operator` of src/operator/mod.rs. -/
inductive Operator where
  | rootNode
  | add | sub | neg | mul | div | mod | exp
  | eq | neq | gt | lt | geq | leq | and | or | not
  | assign | addAssign | subAssign | mulAssign | divAssign | modAssign | expAssign
  | andAssign | orAssign
  | tuple | chain
  | const (v : Value)
  | varWrite (id : Str)
  | varRead (id : Str)
  | fn (id : Str)
  deriving Inhabited

/-- Operator kinds without payload; `mem::discriminant` and most table lookups go through this. -/
inductive OpKind where
  | rootNode
  | add | sub | neg | mul | div | mod | exp
  | eq | neq | gt | lt | geq | leq | and | or | not
  | assign | addAssign | subAssign | mulAssign | divAssign | modAssign | expAssign
  | andAssign | orAssign
  | tuple | chain
  | const | varWrite | varRead | fn
  deriving DecidableEq, Repr, Inhabited

def Operator.kind : Operator → OpKind
  | .rootNode => .rootNode
  | .add => .add | .sub => .sub | .neg => .neg | .mul => .mul | .div => .div | .mod => .mod
  | .exp => .exp
  | .eq => .eq | .neq => .neq | .gt => .gt | .lt => .lt | .geq => .geq | .leq => .leq
  | .and => .and | .or => .or | .not => .not
  | .assign => .assign | .addAssign => .addAssign | .subAssign => .subAssign
  | .mulAssign => .mulAssign | .divAssign => .divAssign | .modAssign => .modAssign
  | .expAssign => .expAssign | .andAssign => .andAssign | .orAssign => .orAssign
  | .tuple => .tuple | .chain => .chain
  | .const _ => .const | .varWrite _ => .varWrite | .varRead _ => .varRead | .fn _ => .fn

/-- `Node` of src/tree/mod.rs. -/
structure Node where
  op : Operator
  children : List Node
  deriving Inhabited

/-- `EvalexprError` of src/error/mod.rs, plus `panic`, the model's image of a Rust panic
(unwrap on None, unreachable!, slice index, arithmetic overflow in a debug build). -/
inductive Err where
  | wrongOperatorArgumentAmount (expected actual : Nat)
  | wrongFunctionArgumentAmount (expLo expHi actual : Nat)
  | expectedString (actual : Value)
  | expectedInt (actual : Value)
  | expectedFloat (actual : Value)
  | expectedNumber (actual : Value)
  | expectedNumberOrString (actual : Value)
  | expectedBoolean (actual : Value)
  | expectedTuple (actual : Value)
  | expectedFixedLengthTuple (len : Nat) (actual : Value)
  | expectedRangedLengthTuple (lo hi : Nat) (actual : Value)
  | expectedEmpty (actual : Value)
  | appendedToLeafNode
  | precedenceViolation
  | variableIdentifierNotFound (id : Str)
  | functionIdentifierNotFound (id : Str)
  | typeError (expected : List ValueType) (actual : Value)
  | wrongTypeCombination (op : Operator) (actual : List ValueType)
  | unmatchedLBrace
  | unmatchedRBrace
  | unmatchedDoubleQuote
  | missingOperatorOutsideOfBrace
  | unmatchedPartialToken (first : PartialToken) (second : Option PartialToken)
  | additionError (a b : Value)
  | subtractionError (a b : Value)
  | negationError (a : Value)
  | multiplicationError (a b : Value)
  | divisionError (a b : Value)
  | modulationError (a b : Value)
  | contextNotMutable
  | illegalEscapeSequence (s : Str)
  | builtinFunctionsCannotBeEnabled
  | builtinFunctionsCannotBeDisabled
  | outOfBoundsAccess
  | intFromUsize (n : Nat)
  | intIntoUsize (i : Int64)
  | randNotEnabled
  | customMessage (s : Str)
  | panic (site : Str)
  deriving Inhabited

abbrev Res (α : Type) := Except Err α

def Err.isPanic : Err → Bool
  | .panic _ => true
  | _ => false

def Res.isPanic {α} : Res α → Bool
  | .error e => e.isPanic
  | .ok _ => false

end Evalexpr
