/-
Model/Eval.lean — `Operator::eval`, `Operator::eval_mut` (src/operator/mod.rs) and
`Node::eval_with_context`, `Node::eval_with_context_mut` (src/tree/mod.rs).
The evaluation state is the context plus the ordered log of user-function calls (what a recording
user function observes); `&mut C` becomes state passing, `?` becomes an early return that keeps the
state reached so far.
-/
import EvalexprVerif.Model.Context
import EvalexprVerif.Model.Builtin
import EvalexprVerif.Model.Tree

namespace Evalexpr

/-- evaluation state: the context and the log of user-function calls (name, argument) -/
structure St where
  ctx : Ctx
  log : List (Str × Value) := []

def strLt : Str → Str → Bool
  | [], [] => false
  | [], _ :: _ => true
  | _ :: _, [] => false
  | a :: as, b :: bs => if a.toNat < b.toNat then true else if b.toNat < a.toNat then false else strLt as bs

inductive Cmp where | gt | lt | geq | leq
  deriving DecidableEq, Repr

def Cmp.onStr : Cmp → Str → Str → Bool
  | .gt, a, b => strLt b a
  | .lt, a, b => strLt a b
  | .geq, a, b => !strLt a b
  | .leq, a, b => !strLt b a
def Cmp.onInt : Cmp → Int64 → Int64 → Bool
  | .gt, a, b => a.toInt > b.toInt
  | .lt, a, b => a.toInt < b.toInt
  | .geq, a, b => a.toInt ≥ b.toInt
  | .leq, a, b => a.toInt ≤ b.toInt
def Cmp.onFloat : Cmp → Float → Float → Bool
  | .gt, a, b => a > b
  | .lt, a, b => a < b
  | .geq, a, b => a ≥ b
  | .leq, a, b => a ≤ b

def wrongArgs (expected actual : Nat) : Err := .wrongOperatorArgumentAmount expected actual

/-- the body shared by `Sub`, `Mul`, `Div`, `Mod`: both `as_number()?` checks, then the integer
path if both are ints, the float path otherwise -/
def arith (fi : Int64 → Int64 → Res Int64) (ff : Float → Float → Float) (args : List Value) :
    Res Value :=
  match args with
  | [a, b] =>
    match a.asNumber with
    | .error e => .error e
    | .ok x => match b.asNumber with
      | .error e => .error e
      | .ok y =>
        match a, b with
        | .int i, .int j => (fi i j).map .int
        | _, _ => .ok (.float (ff x y))
  | _ => .error (wrongArgs 2 args.length)

/-- the body shared by `Gt`, `Lt`, `Geq`, `Leq` -/
def compare (c : Cmp) (args : List Value) : Res Value :=
  match args with
  | [a, b] =>
    match expectNumberOrString a with
    | .error e => .error e
    | .ok _ => match expectNumberOrString b with
      | .error e => .error e
      | .ok _ =>
        match a, b with
        | .string s, .string t => .ok (.boolean (c.onStr s t))
        | .int i, .int j => .ok (.boolean (c.onInt i j))
        | _, _ =>
          match a.asNumber with
          | .error e => .error e
          | .ok x => match b.asNumber with
            | .error e => .error e
            | .ok y => .ok (.boolean (c.onFloat x y))
  | _ => .error (wrongArgs 2 args.length)

def logic (f : Bool → Bool → Bool) (args : List Value) : Res Value :=
  match args with
  | [a, b] =>
    match a.asBoolean with
    | .error e => .error e
    | .ok x => match b.asBoolean with
      | .error e => .error e
      | .ok y => .ok (.boolean (f x y))
  | _ => .error (wrongArgs 2 args.length)

/-- the context-free arms of `Operator::eval` -/
def Operator.evalPure (op : Operator) (args : List Value) : Res Value :=
  match op with
  | .rootNode => match args with
    | first :: _ => .ok first
    | [] => .ok .empty
  | .add =>
    match args with
    | [a, b] =>
      match expectNumberOrString a with
      | .error e => .error e
      | .ok _ => match expectNumberOrString b with
        | .error e => .error e
        | .ok _ =>
          match a, b with
          | .string s, .string t => .ok (.string (s ++ t))
          | .int i, .int j => (checkedAdd i j).map .int
          | _, _ =>
            match a.asNumber, b.asNumber with
            | .ok x, .ok y => .ok (.float (x + y))
            | _, _ => .error (.wrongTypeCombination .add [a.type, b.type])
    | _ => .error (wrongArgs 2 args.length)
  | .sub => arith checkedSub (· - ·) args
  | .neg =>
    match args with
    | [a] =>
      match a.asNumber with
      | .error e => .error e
      | .ok x => match a with
        | .int i => (checkedNeg i).map .int
        | _ => .ok (.float (-x))
    | _ => .error (wrongArgs 1 args.length)
  | .mul => arith checkedMul (· * ·) args
  | .div => arith checkedDiv (· / ·) args
  | .mod => arith checkedRem F64.fmod args
  | .exp =>
    match args with
    | [a, b] =>
      match a.asNumber with
      | .error e => .error e
      | .ok x => match b.asNumber with
        | .error e => .error e
        | .ok y => .ok (.float (Float.pow x y))
    | _ => .error (wrongArgs 2 args.length)
  | .eq => match args with
    | [a, b] => .ok (.boolean (Value.beq a b))
    | _ => .error (wrongArgs 2 args.length)
  | .neq => match args with
    | [a, b] => .ok (.boolean (!Value.beq a b))
    | _ => .error (wrongArgs 2 args.length)
  | .gt => compare .gt args
  | .lt => compare .lt args
  | .geq => compare .geq args
  | .leq => compare .leq args
  | .and => logic (· && ·) args
  | .or => logic (· || ·) args
  | .not => match args with
    | [a] => (a.asBoolean).map (fun x => .boolean (!x))
    | _ => .error (wrongArgs 1 args.length)
  | .assign | .addAssign | .subAssign | .mulAssign | .divAssign | .modAssign | .expAssign
  | .andAssign | .orAssign => .error .contextNotMutable
  | .tuple => .ok (.tuple args)
  | .chain => match args.getLast? with
    | some v => .ok v
    | none => .error (wrongArgs 1 0)
  | .const v => match args with
    | [] => .ok v
    | _ => .error (wrongArgs 0 args.length)
  | .varWrite id => match args with
    | [] => .ok (.string id)
    | _ => .error (wrongArgs 0 args.length)
  -- the two context-dependent arms are in `Operator.eval`
  | .varRead _ => .error (.panic cl!"model: evalPure on varRead")
  | .fn _ => .error (.panic cl!"model: evalPure on fn")

/-- the `FunctionIdentifier` arm: the context's function first; builtins only if the context
answers `FunctionIdentifierNotFound` and has not disabled them -/
def callFunction (id : Str) (arg : Value) (s : St) : Res Value × St :=
  let (r, s) : Res Value × St := match s.ctx.userFn id with
    | some f => (f arg, { s with log := s.log ++ [(id, arg)] })
    | none => (.error (.functionIdentifierNotFound id), s)
  match r with
  | .error (.functionIdentifierNotFound _) =>
    if !s.ctx.builtinsDisabled then
      match builtinFunction id with
      | some b => (b.call arg, s)
      | none => (.error (.functionIdentifierNotFound id), s)
    else (r, s)
  | r => (r, s)

/-- `Operator::eval` -/
def Operator.eval (op : Operator) (args : List Value) (s : St) : Res Value × St :=
  match op with
  | .varRead id => match args with
    | [] => match s.ctx.getValue id with
      | some v => (.ok v, s)
      | none => (.error (.variableIdentifierNotFound id), s)
    | _ => (.error (wrongArgs 0 args.length), s)
  | .fn id => match args with
    | [arg] => callFunction id arg s
    | _ => (.error (wrongArgs 1 args.length), s)
  | op => (op.evalPure args, s)

/-- the operator an op-assign applies -/
def Operator.assignBase : Operator → Option Operator
  | .addAssign => some .add | .subAssign => some .sub | .mulAssign => some .mul
  | .divAssign => some .div | .modAssign => some .mod | .expAssign => some .exp
  | .andAssign => some .and | .orAssign => some .or
  | _ => none

def setValue (s : St) (id : Str) (v : Value) : Res Unit × St :=
  match s.ctx.setValue id v with
  | .ok c => (.ok (), { s with ctx := c })
  | .error e => (.error e, s)

/-- `Operator::eval_mut` -/
def Operator.evalMut (op : Operator) (args : List Value) (s : St) : Res Value × St :=
  match op with
  | .assign =>
    match args with
    | [t, v] =>
      match t.asString with
      | .error e => (.error e, s)
      | .ok target =>
        match setValue s target v with
        | (.ok _, s) => (.ok .empty, s)
        | (.error e, s) => (.error e, s)
    | _ => (.error (wrongArgs 2 args.length), s)
  | .addAssign | .subAssign | .mulAssign | .divAssign | .modAssign | .expAssign | .andAssign
  | .orAssign =>
    match args with
    | [t, v] =>
      match t.asString with
      | .error e => (.error e, s)
      | .ok target =>
        match Operator.eval (.varRead target) [] s with
        | (.error e, s) => (.error e, s)
        | (.ok left, s) =>
          match op.assignBase with
          | none => (.error (.panic cl!"eval_mut: unreachable!()"), s)
          | some base =>
            match Operator.eval base [left, v] s with
            | (.error e, s) => (.error e, s)
            | (.ok result, s) =>
              match setValue s target result with
              | (.ok _, s) => (.ok .empty, s)
              | (.error e, s) => (.error e, s)
    | _ => (.error (wrongArgs 2 args.length), s)
  | op => op.eval args s

mutual
/-- `Node::eval_with_context` -/
def Node.evalRO : Node → St → Res Value × St
  | ⟨op, cs⟩, s =>
    match evalROList cs s with
    | (.error e, s) => (.error e, s)
    | (.ok args, s) => op.eval args s
/-- the `for child in self.children()` loop -/
def evalROList : List Node → St → Res (List Value) × St
  | [], s => (.ok [], s)
  | c :: cs, s =>
    match Node.evalRO c s with
    | (.error e, s) => (.error e, s)
    | (.ok v, s) =>
      match evalROList cs s with
      | (.error e, s) => (.error e, s)
      | (.ok vs, s) => (.ok (v :: vs), s)
end

mutual
/-- `Node::eval_with_context_mut` -/
def Node.evalMut : Node → St → Res Value × St
  | ⟨op, cs⟩, s =>
    match evalMutList cs s with
    | (.error e, s) => (.error e, s)
    | (.ok args, s) => op.evalMut args s
def evalMutList : List Node → St → Res (List Value) × St
  | [], s => (.ok [], s)
  | c :: cs, s =>
    match Node.evalMut c s with
    | (.error e, s) => (.error e, s)
    | (.ok v, s) =>
      match evalMutList cs s with
      | (.error e, s) => (.error e, s)
      | (.ok vs, s) => (.ok (v :: vs), s)
end

end Evalexpr
