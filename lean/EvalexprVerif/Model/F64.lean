/-
Model/F64.lean — the parts of Rust `std` on f64 / i64 text that evalexpr relies on:
`f64::from_str`, `Display for f64`, `i64::from_str`, `i64::from_str_radix(_, 16)`, `Display for i64`,
and the libm functions Lean does not expose. These are *modelled, not verified* (trusted base §3.4):
they are validated against Rust by the harness (`f64parse` / `f64display` streams).
-/
import EvalexprVerif.Model.Basic

namespace Evalexpr.F64

/-! ### libm bindings (opaque; the same shared-library symbols Rust's f64 methods call) -/
@[extern "fmod"] opaque fmod : Float → Float → Float
@[extern "hypot"] opaque hypot : Float → Float → Float
@[extern "log1p"] opaque log1p : Float → Float
@[extern "copysign"] opaque copysign : Float → Float → Float

def nan : Float := Float.ofBits 0x7ff8000000000000
def inf : Float := Float.ofBits 0x7ff0000000000000
def negInf : Float := Float.ofBits 0xfff0000000000000

/-- Rust std `f64::asinh` (1.81): `copysign(log1p(ax + ax / (hypot(1, 1/ax) + 1/ax)), x)`. -/
def asinh (x : Float) : Float :=
  let ax := x.abs
  let ix := 1.0 / ax
  copysign (log1p (ax + (ax / (hypot 1.0 ix + ix)))) x
/-- Rust std `f64::acosh`. -/
def acosh (x : Float) : Float :=
  if x < 1.0 then nan else Float.log (x + (Float.sqrt (x - 1.0) * Float.sqrt (x + 1.0)))
/-- Rust std `f64::atanh`. -/
def atanh (x : Float) : Float := 0.5 * log1p ((2.0 * x) / (1.0 - x))
/-- Rust std `f64::log(self, base)`. -/
def logBase (x base : Float) : Float := Float.log x / Float.log base

def isNaN (f : Float) : Bool := f.isNaN
def isInfinite (f : Float) : Bool := (f.toBits &&& 0x7fffffffffffffff) == 0x7ff0000000000000
def isFinite (f : Float) : Bool := (f.toBits &&& 0x7ff0000000000000) != 0x7ff0000000000000
/-- `f64::is_normal`: neither zero, subnormal, infinite nor NaN. -/
def isNormal (f : Float) : Bool :=
  let e := f.toBits &&& 0x7ff0000000000000
  e != 0 && e != 0x7ff0000000000000

/-- `f64::min` (`minnum`): the non-NaN operand if one is NaN; for equal operands (±0) the second is
returned by the x86-64 code rustc 1.81 emits — validated by the harness, unclaimed by the properties. -/
def fmin (a b : Float) : Float :=
  if a.isNaN then b else if b.isNaN then a else if a < b then a else b
def fmax (a b : Float) : Float :=
  if a.isNaN then b else if b.isNaN then a else if a > b then a else b

/-! ### decimal → binary64, correctly rounded (ties to even), over `Nat` -/

/-- round the positive rational n/d to binary64 bits (sign bit clear) -/
def roundRat (n d : Nat) : UInt64 :=
  if n == 0 then 0 else
  let est : Int := (n.log2 : Int) - (d.log2 : Int) - 52
  let scaled (e2 : Int) : Nat × Nat :=
    if e2 ≥ 0 then (n, d * 2 ^ e2.toNat) else (n * 2 ^ (-e2).toNat, d)
  let fix (e2 : Int) : Int :=
    let (a, b) := scaled e2
    if a / b < 2 ^ 52 then e2 - 1 else if a / b ≥ 2 ^ 53 then e2 + 1 else e2
  let e2 := fix (fix est)
  let e2 := if e2 < -1074 then -1074 else e2
  let (a, b) := scaled e2
  let q := a / b
  let r := a % b
  let q := if 2 * r > b then q + 1 else if 2 * r == b then (if q % 2 == 1 then q + 1 else q) else q
  let (q, e2) := if q ≥ 2 ^ 53 then (q / 2, e2 + 1) else (q, e2)
  if q < 2 ^ 52 then q.toUInt64
  else if e2 + 1075 ≥ 2047 then 0x7ff0000000000000
  else ((e2 + 1075).toNat * 2 ^ 52 + (q - 2 ^ 52)).toUInt64

def isDigit (c : Char) : Bool := '0' ≤ c && c ≤ '9'
def digitVal (c : Char) : Nat := c.toNat - 48
def digitsVal (cs : List Char) : Nat := cs.foldl (fun a c => a * 10 + digitVal c) 0

def lowerAscii (c : Char) : Char := if 'A' ≤ c && c ≤ 'Z' then Char.ofNat (c.toNat + 32) else c

/-- number of decimal digits of a positive natural -/
def decLen (n : Nat) : Nat := (Nat.toDigits 10 n).length

/-- magnitude part of Rust's `f64::from_str` (after an optional sign); `none` = parse error -/
def parseMagnitude (cs : List Char) : Option UInt64 :=
  let lower := cs.map lowerAscii
  if lower == cl!"inf" || lower == cl!"infinity" then some 0x7ff0000000000000
  else if lower == cl!"nan" then some 0x7ff8000000000000
  else
    let ip := cs.takeWhile isDigit
    let rest := cs.dropWhile isDigit
    let (fp, rest) := match rest with
      | '.' :: r => (r.takeWhile isDigit, r.dropWhile isDigit)
      | r => ([], r)
    if ip.isEmpty && fp.isEmpty then none else
    let expo : Option Int := match rest with
      | [] => some 0
      | e :: r =>
        if e == 'e' || e == 'E' then
          let (neg, r) := match r with
            | '-' :: r' => (true, r') | '+' :: r' => (false, r') | r' => (false, r')
          if r.isEmpty || !r.all isDigit then none
          else
            let v := digitsVal r
            some (if neg then -(v : Int) else v)
        else none
    match expo with
    | none => none
    | some e10 =>
      let m := digitsVal (ip ++ fp)
      let e10 := e10 - fp.length
      if m == 0 then some 0
      else
        let nd : Int := decLen m
        if e10 + nd > 400 then some 0x7ff0000000000000
        else if e10 + nd < -400 then some 0
        else if e10 ≥ 0 then some (roundRat (m * 10 ^ e10.toNat) 1)
        else some (roundRat m (10 ^ (-e10).toNat))

/-- Rust `f64::from_str` (as bits; NaN is the canonical quiet NaN, sign applied). -/
def parseBits (cs : List Char) : Option UInt64 :=
  match cs with
  | '-' :: r => (parseMagnitude r).map (· ||| 0x8000000000000000)
  | '+' :: r => parseMagnitude r
  | r => parseMagnitude r

def parse (cs : List Char) : Option Float := (parseBits cs).map Float.ofBits

/-! ### shortest round-trip digits (Burger–Dybvig free-format) and `Display for f64` -/

def scaleLoop (even : Bool) : Nat → Nat → Nat → Nat → Nat → Int → Nat × Nat × Nat × Nat × Int
  | 0, r, s, mp, mm, k => (r, s, mp, mm, k)
  | fuel + 1, r, s, mp, mm, k =>
    let hiOK (r s mp : Nat) : Bool := if even then r + mp ≥ s else r + mp > s
    if hiOK r s mp then scaleLoop even fuel r (s * 10) mp mm (k + 1)
    else if hiOK (r * 10) s (mp * 10) then (r, s, mp, mm, k)
    else scaleLoop even fuel (r * 10) s (mp * 10) (mm * 10) (k - 1)

def genLoop (even : Bool) (s : Nat) : Nat → Nat → Nat → Nat → List Nat → List Nat
  | 0, _, _, _, acc => acc.reverse
  | fuel + 1, r, mp, mm, acc =>
    let d := r * 10 / s
    let r := r * 10 % s
    let mp := mp * 10
    let mm := mm * 10
    let tc1 := if even then r ≤ mm else r < mm
    let tc2 := if even then r + mp ≥ s else r + mp > s
    if !tc1 && !tc2 then genLoop even s fuel r mp mm (d :: acc)
    else if tc1 && !tc2 then (d :: acc).reverse
    else if !tc1 && tc2 then ((d + 1) :: acc).reverse
    else if 2 * r < s then (d :: acc).reverse else ((d + 1) :: acc).reverse

/-- shortest digits of a finite positive double: (digits, k) meaning 0.d1d2… × 10^k -/
def shortest (bits : UInt64) : List Nat × Int :=
  let be := ((bits >>> 52) &&& 0x7ff).toNat
  let frac := (bits &&& 0xfffffffffffff).toNat
  let (m, e) : Nat × Int := if be == 0 then (frac, -1074) else (frac + 2 ^ 52, (be : Int) - 1075)
  let even := m % 2 == 0
  let boundary := frac == 0 && be > 1
  let (r, s, mp, mm) : Nat × Nat × Nat × Nat :=
    if e ≥ 0 then
      let be := 2 ^ e.toNat
      if !boundary then (m * be * 2, 2, be, be) else (m * be * 4, 4, be * 2, be)
    else
      if !boundary then (m * 2, 2 ^ ((-e).toNat + 1), 1, 1) else (m * 4, 2 ^ ((-e).toNat + 2), 2, 1)
  let (r, s, mp, mm, k) := scaleLoop even 800 r s mp mm 0
  (genLoop even s 30 r mp mm [], k)

def digitChar (d : Nat) : Char := Char.ofNat (48 + d)

/-- Rust `Display for f64` (`{}`: shortest digits, never scientific). -/
def display (f : Float) : Str :=
  let bits := f.toBits
  let neg := bits >>> 63 == 1
  let mag := bits &&& 0x7fffffffffffffff
  if mag > 0x7ff0000000000000 then cl!"NaN"
  else
    let sign : Str := if neg then ['-'] else []
    if mag == 0x7ff0000000000000 then sign ++ cl!"inf"
    else if mag == 0 then sign ++ ['0']
    else
      let (ds, k) := shortest mag
      let dstr := ds.map digitChar
      let n : Int := ds.length
      if k ≤ 0 then sign ++ cl!"0." ++ List.replicate (-k).toNat '0' ++ dstr
      else if k ≥ n then sign ++ dstr ++ List.replicate (k - n).toNat '0'
      else sign ++ dstr.take k.toNat ++ ['.'] ++ dstr.drop k.toNat

/-! ### integers as text -/

def natToStr (n : Nat) : Str := Nat.toDigits 10 n

/-- `Display for i64`. -/
def intDisplay (i : Int64) : Str :=
  let z := i.toInt
  if z < 0 then '-' :: natToStr z.natAbs else natToStr z.natAbs

def hexDigitVal (c : Char) : Option Nat :=
  if '0' ≤ c && c ≤ '9' then some (c.toNat - 48)
  else if 'a' ≤ c && c ≤ 'f' then some (c.toNat - 87)
  else if 'A' ≤ c && c ≤ 'F' then some (c.toNat - 55)
  else none

def hexVal : List Char → Nat → Option Nat
  | [], acc => some acc
  | c :: cs, acc => match hexDigitVal c with
    | some d => hexVal cs (acc * 16 + d)
    | none => none

/-- `i64::from_str` on a word without sign characters (the lexer never passes `+`/`-`):
non-empty, ASCII digits only, value ≤ i64::MAX. A leading sign is handled for completeness. -/
def parseDec (cs : List Char) : Option Int64 :=
  let (neg, ds) := match cs with
    | '-' :: r => (true, r) | '+' :: r => (false, r) | r => (false, r)
  if ds.isEmpty || !ds.all isDigit then none
  else
    let v := digitsVal ds
    if neg then (if v ≤ 2 ^ 63 then some (Int64.ofInt (-(v : Int))) else none)
    else (if v < 2 ^ 63 then some (Int64.ofInt v) else none)

/-- `i64::from_str_radix(_, 16)`. -/
def parseHex (cs : List Char) : Option Int64 :=
  let (neg, ds) := match cs with
    | '-' :: r => (true, r) | '+' :: r => (false, r) | r => (false, r)
  if ds.isEmpty then none
  else match hexVal ds 0 with
    | none => none
    | some v =>
      if neg then (if v ≤ 2 ^ 63 then some (Int64.ofInt (-(v : Int))) else none)
      else (if v < 2 ^ 63 then some (Int64.ofInt v) else none)

end Evalexpr.F64
