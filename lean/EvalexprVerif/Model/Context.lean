/-
Model/Context.lean — src/context/mod.rs: the `Context` trait family and the three provided
contexts, plus `NoStorage`, a context that keeps the trait's default `set_value`
(`Err(ContextNotMutable)`), as a user of the crate may define.
`HashMap` becomes an association list (lookup = first match; keys kept unique by `insert`).
User functions are total functions `Value → Res Value`.
-/
import EvalexprVerif.Model.Basic

namespace Evalexpr

abbrev UserFn := Value → Res Value

/-- association-list lookup (`HashMap::get`) -/
def alookup {β : Type} (k : Str) : List (Str × β) → Option β
  | [] => none
  | (k', v) :: rest => if k' == k then some v else alookup k rest

/-- `HashMap::insert` (replace in place, else append) -/
def ainsert {β : Type} (k : Str) (v : β) : List (Str × β) → List (Str × β)
  | [] => [(k, v)]
  | (k', v') :: rest => if k' == k then (k, v) :: rest else (k', v') :: ainsert k v rest

/-- `HashMapContext` -/
structure HashMapCtx where
  vars : List (Str × Value) := []
  funs : List (Str × UserFn) := []
  noBuiltins : Bool := false

/-- The contexts the properties quantify over. -/
inductive Ctx where
  | empty
  | emptyWithBuiltins
  | hashMap (h : HashMapCtx)
  /-- reads like a `HashMapContext`, keeps the default `set_value` -/
  | noStorage (h : HashMapCtx)

/-- `Context::get_value` -/
def Ctx.getValue : Ctx → Str → Option Value
  | .empty, _ => none
  | .emptyWithBuiltins, _ => none
  | .hashMap h, id => alookup id h.vars
  | .noStorage h, id => alookup id h.vars

/-- the user function `call_function` would invoke, if the context defines one -/
def Ctx.userFn : Ctx → Str → Option UserFn
  | .empty, _ => none
  | .emptyWithBuiltins, _ => none
  | .hashMap h, id => alookup id h.funs
  | .noStorage h, id => alookup id h.funs

/-- `Context::call_function` -/
def Ctx.callFunction (c : Ctx) (id : Str) (arg : Value) : Res Value :=
  match c.userFn id with
  | some f => f arg
  | none => .error (.functionIdentifierNotFound id)

/-- `Context::are_builtin_functions_disabled` -/
def Ctx.builtinsDisabled : Ctx → Bool
  | .empty => true
  | .emptyWithBuiltins => false
  | .hashMap h => h.noBuiltins
  | .noStorage h => h.noBuiltins

/-- `Context::set_builtin_functions_disabled` -/
def Ctx.setBuiltinsDisabled : Ctx → Bool → Res Ctx
  | .empty, d => if d then .ok .empty else .error .builtinFunctionsCannotBeEnabled
  | .emptyWithBuiltins, d =>
    if d then .error .builtinFunctionsCannotBeDisabled else .ok .emptyWithBuiltins
  | .hashMap h, d => .ok (.hashMap { h with noBuiltins := d })
  | .noStorage h, d => .ok (.noStorage { h with noBuiltins := d })

/-- `EvalexprError::expected_type` -/
def Err.expectedType (expected : Value) (actual : Value) : Err :=
  match expected.type with
  | .string => .expectedString actual
  | .int => .expectedInt actual
  | .float => .expectedFloat actual
  | .boolean => .expectedBoolean actual
  | .tuple => .expectedTuple actual
  | .empty => .expectedEmpty actual

/-- `HashMapContext::set_value` -/
def HashMapCtx.setValue (h : HashMapCtx) (id : Str) (v : Value) : Res HashMapCtx :=
  match alookup id h.vars with
  | some existing =>
    if existing.type == v.type then .ok { h with vars := ainsert id v h.vars }
    else .error (Err.expectedType existing v)
  | none => .ok { h with vars := ainsert id v h.vars }

/-- `ContextWithMutableVariables::set_value`. The two empty contexts do not implement the trait;
the evaluator is never instantiated with them in mutable mode, the model answers like the default
method. -/
def Ctx.setValue : Ctx → Str → Value → Res Ctx
  | .hashMap h, id, v => (h.setValue id v).map .hashMap
  | _, _, _ => .error .contextNotMutable

/-- `ContextWithMutableFunctions::set_function` -/
def Ctx.setFunction : Ctx → Str → UserFn → Res Ctx
  | .hashMap h, id, f => .ok (.hashMap { h with funs := ainsert id f h.funs })
  | _, _, _ => .error .contextNotMutable

def HashMapCtx.clearVariables (h : HashMapCtx) : HashMapCtx := { h with vars := [] }
def HashMapCtx.clearFunctions (h : HashMapCtx) : HashMapCtx := { h with funs := [] }
def HashMapCtx.clear (h : HashMapCtx) : HashMapCtx := h.clearVariables.clearFunctions

/-- `IterateVariablesContext::iter_variables` (as a list; the harness sorts both sides) -/
def Ctx.iterVariables : Ctx → List (Str × Value)
  | .hashMap h => h.vars
  | .noStorage h => h.vars
  | _ => []

def Ctx.iterVariableNames (c : Ctx) : List Str := c.iterVariables.map (·.1)

end Evalexpr
