/-
Model/Value.lean — the accessor methods of src/value/mod.rs, `Display for Value`
(src/value/display.rs), `str_from`, and the checked integer arithmetic of
src/value/numeric_types/default_numeric_types.rs.
-/
import EvalexprVerif.Model.F64

namespace Evalexpr

def Value.asString : Value → Res Str
  | .string s => .ok s
  | v => .error (.expectedString v)
def Value.asInt : Value → Res Int64
  | .int i => .ok i
  | v => .error (.expectedInt v)
def Value.asFloat : Value → Res Float
  | .float f => .ok f
  | v => .error (.expectedFloat v)
/-- `as_number`: a float, or an int converted with `as f64` -/
def Value.asNumber : Value → Res Float
  | .float f => .ok f
  | .int i => .ok i.toFloat
  | v => .error (.expectedNumber v)
def Value.asBoolean : Value → Res Bool
  | .boolean b => .ok b
  | v => .error (.expectedBoolean v)
def Value.asTuple : Value → Res (List Value)
  | .tuple t => .ok t
  | v => .error (.expectedTuple v)
def Value.asFixedLenTuple (v : Value) (len : Nat) : Res (List Value) :=
  match v with
  | .tuple t => if t.length == len then .ok t else .error (.expectedFixedLengthTuple len v)
  | v => .error (.expectedTuple v)
def Value.asRangedLenTuple (v : Value) (lo hi : Nat) : Res (List Value) :=
  match v with
  | .tuple t =>
    if lo ≤ t.length && t.length ≤ hi then .ok t else .error (.expectedRangedLengthTuple lo hi v)
  | v => .error (.expectedTuple v)
def Value.asEmpty : Value → Res Unit
  | .empty => .ok ()
  | v => .error (.expectedEmpty v)

/-- `expect_number_or_string` -/
def expectNumberOrString : Value → Res Unit
  | .string _ | .float _ | .int _ => .ok ()
  | v => .error (.expectedNumberOrString v)

mutual
/-- `Display for Value` -/
def Value.display : Value → Str
  | .string s => '"' :: s ++ ['"']
  | .float f => F64.display f
  | .int i => F64.intDisplay i
  | .boolean b => if b then cl!"true" else cl!"false"
  | .tuple t => '(' :: Value.displayList t ++ [')']
  | .empty => cl!"()"
def Value.displayList : List Value → Str
  | [] => []
  | [v] => Value.display v
  | v :: w :: rest => Value.display v ++ cl!", " ++ Value.displayList (w :: rest)
end

/-- `Value::str_from` -/
def Value.strFrom : Value → Str
  | .string s => s
  | .float f => F64.display f
  | .int i => F64.intDisplay i
  | .boolean b => if b then cl!"true" else cl!"false"
  | .tuple t => Value.display (.tuple t)
  | .empty => cl!"()"

/-! ### i64 arithmetic (`checked_*` of std, wrapped by `EvalexprInt`) -/

def inI64 (z : Int) : Bool := -2 ^ 63 ≤ z && z < 2 ^ 63

def i64Of (z : Int) : Option Int64 := if inI64 z then some (Int64.ofInt z) else none

def checkedAdd (a b : Int64) : Res Int64 :=
  match i64Of (a.toInt + b.toInt) with
  | some r => .ok r
  | none => .error (.additionError (.int a) (.int b))
def checkedSub (a b : Int64) : Res Int64 :=
  match i64Of (a.toInt - b.toInt) with
  | some r => .ok r
  | none => .error (.subtractionError (.int a) (.int b))
def checkedNeg (a : Int64) : Res Int64 :=
  match i64Of (-a.toInt) with
  | some r => .ok r
  | none => .error (.negationError (.int a))
def checkedMul (a b : Int64) : Res Int64 :=
  match i64Of (a.toInt * b.toInt) with
  | some r => .ok r
  | none => .error (.multiplicationError (.int a) (.int b))
/-- `i64::checked_div`: `None` for a zero divisor and for `MIN / -1` -/
def checkedDiv (a b : Int64) : Res Int64 :=
  if b.toInt == 0 then .error (.divisionError (.int a) (.int b))
  else match i64Of (a.toInt.tdiv b.toInt) with
    | some r => .ok r
    | none => .error (.divisionError (.int a) (.int b))
/-- `i64::checked_rem`: `None` for a zero divisor and for `MIN % -1` (although 0 is representable) -/
def checkedRem (a b : Int64) : Res Int64 :=
  if b.toInt == 0 then .error (.modulationError (.int a) (.int b))
  else if a.toInt == -2 ^ 63 && b.toInt == -1 then .error (.modulationError (.int a) (.int b))
  else match i64Of (a.toInt.tmod b.toInt) with
    | some r => .ok r
    | none => .error (.modulationError (.int a) (.int b))
/-- `EvalexprInt::abs` (after the fix: `checked_abs`, overflow reported as a negation error) -/
def checkedAbs (a : Int64) : Res Int64 :=
  match i64Of a.toInt.natAbs with
  | some r => .ok r
  | none => .error (.negationError (.int a))

/-- `EvalexprInt::from_usize` -/
def intFromUsize (n : Nat) : Res Int64 :=
  if n < 2 ^ 63 then .ok (Int64.ofInt n) else .error (.intFromUsize n)
/-- `EvalexprInt::into_usize` (64-bit platform) -/
def intIntoUsize (i : Int64) : Res Nat :=
  if i.toInt ≥ 0 then .ok i.toInt.toNat else .error (.intIntoUsize i)

end Evalexpr
