/-
Model/Builtin.lean — src/function/builtin.rs: the name → function table (49 entries without the
optional `regex` and `rand` features) and the implementation of each builtin.
-/
import EvalexprVerif.Model.Value
import EvalexprVerif.Model.Lexer

namespace Evalexpr

inductive Builtin where
  | ln | log | log2 | log10 | exp | exp2 | pow
  | cos | acos | cosh | acosh | sin | asin | sinh | asinh | tan | atan | tanh | atanh | atan2
  | sqrt | cbrt | hypot | floor | round | ceil
  | isNan | isFinite | isInfinite | isNormal
  | abs | typeof | min | max | if_ | contains | containsAny | len
  | strToLowercase | strToUppercase | strTrim | strFrom | strSubstring
  | bitand | bitor | bitxor | bitnot | shl | shr
  deriving DecidableEq, Repr, Inhabited

/-- the `match identifier` of `builtin_function` -/
def builtinTable : List (Str × Builtin) := [
  (cl!"math::ln", .ln), (cl!"math::log", .log), (cl!"math::log2", .log2), (cl!"math::log10", .log10),
  (cl!"math::exp", .exp), (cl!"math::exp2", .exp2), (cl!"math::pow", .pow),
  (cl!"math::cos", .cos), (cl!"math::acos", .acos), (cl!"math::cosh", .cosh), (cl!"math::acosh", .acosh),
  (cl!"math::sin", .sin), (cl!"math::asin", .asin), (cl!"math::sinh", .sinh), (cl!"math::asinh", .asinh),
  (cl!"math::tan", .tan), (cl!"math::atan", .atan), (cl!"math::tanh", .tanh), (cl!"math::atanh", .atanh),
  (cl!"math::atan2", .atan2),
  (cl!"math::sqrt", .sqrt), (cl!"math::cbrt", .cbrt), (cl!"math::hypot", .hypot),
  (cl!"floor", .floor), (cl!"round", .round), (cl!"ceil", .ceil),
  (cl!"math::is_nan", .isNan), (cl!"math::is_finite", .isFinite),
  (cl!"math::is_infinite", .isInfinite), (cl!"math::is_normal", .isNormal),
  (cl!"math::abs", .abs), (cl!"typeof", .typeof), (cl!"min", .min), (cl!"max", .max),
  (cl!"if", .if_), (cl!"contains", .contains), (cl!"contains_any", .containsAny), (cl!"len", .len),
  (cl!"str::to_lowercase", .strToLowercase), (cl!"str::to_uppercase", .strToUppercase),
  (cl!"str::trim", .strTrim), (cl!"str::from", .strFrom), (cl!"str::substring", .strSubstring),
  (cl!"bitand", .bitand), (cl!"bitor", .bitor), (cl!"bitxor", .bitxor), (cl!"bitnot", .bitnot),
  (cl!"shl", .shl), (cl!"shr", .shr)]

/-- `builtin_function(identifier)` -/
def builtinFunction (id : Str) : Option Builtin :=
  (builtinTable.find? (fun p => p.1 == id)).map (·.2)

/-- `simple_math!(f)` -/
def simpleMath1 (f : Float → Float) (arg : Value) : Res Value :=
  match arg.asNumber with
  | .ok x => .ok (.float (f x))
  | .error e => .error e

/-- `simple_math!(f, 2)` -/
def simpleMath2 (f : Float → Float → Float) (arg : Value) : Res Value :=
  match arg.asFixedLenTuple 2 with
  | .ok [a, b] =>
    match a.asNumber with
    | .error e => .error e
    | .ok x => match b.asNumber with
      | .error e => .error e
      | .ok y => .ok (.float (f x y))
  | .ok _ => .error (.panic cl!"builtin: tuple[i]")
  | .error e => .error e

/-- `float_is(f)` -/
def floatIs (f : Float → Bool) (arg : Value) : Res Value :=
  match arg.asNumber with
  | .ok x => .ok (.boolean (f x))
  | .error e => .error e

/-- `int_function!(f)` -/
def intFunction1 (f : Int64 → Int64) (arg : Value) : Res Value :=
  match arg.asInt with
  | .ok x => .ok (.int (f x))
  | .error e => .error e

/-- `int_function!(f, 2)` -/
def intFunction2 (f : Int64 → Int64 → Int64) (arg : Value) : Res Value :=
  match arg.asFixedLenTuple 2 with
  | .ok [a, b] =>
    match a.asInt with
    | .error e => .error e
    | .ok x => match b.asInt with
      | .error e => .error e
      | .ok y => .ok (.int (f x y))
  | .ok _ => .error (.panic cl!"builtin: tuple[i]")
  | .error e => .error e

/-- the accumulation loop of `min` / `max` (after the fix: optional accumulators) -/
def minMaxFold (fi : Int64 → Int64 → Int64) (ff : Float → Float → Float) :
    List Value → Option Int64 → Option Float → Res (Option Int64 × Option Float)
  | [], mi, mf => .ok (mi, mf)
  | .float f :: rest, mi, mf =>
    minMaxFold fi ff rest mi (some (match mf with | some m => ff m f | none => f))
  | .int i :: rest, mi, mf =>
    minMaxFold fi ff rest (some (match mi with | some m => fi m i | none => i)) mf
  | v :: _, _, _ => .error (.expectedNumber v)

def minMaxArgs : Value → List Value
  | .tuple t => t
  | .empty => []
  | v => [v]

def usizeMax : Nat := 2 ^ 64 - 1

/-- `min` / `max`; `pickInt i f` decides between the two accumulators -/
def minMax (fi : Int64 → Int64 → Int64) (ff : Float → Float → Float)
    (pickInt : Float → Float → Bool) (arg : Value) : Res Value :=
  match minMaxFold fi ff (minMaxArgs arg) none none with
  | .error e => .error e
  | .ok (some i, some f) => if pickInt i.toFloat f then .ok (.int i) else .ok (.float f)
  | .ok (some i, none) => .ok (.int i)
  | .ok (none, some f) => .ok (.float f)
  | .ok (none, none) => .error (.wrongFunctionArgumentAmount 1 usizeMax 0)

def i64min (a b : Int64) : Int64 := if a.toInt ≤ b.toInt then a else b
def i64max (a b : Int64) : Int64 := if b.toInt ≥ a.toInt then b else a

def isScalar : Value → Bool
  | .string _ | .int _ | .float _ | .boolean _ => true
  | _ => false

def scalarTypes : List ValueType := [.string, .int, .float, .boolean]

/-- `Vec::contains` with the derived `PartialEq` -/
def tupleContains (t : List Value) (v : Value) : Bool := t.any (fun x => Value.beq x v)

/-- the loop of `contains_any` -/
def containsAnyLoop (a : List Value) : List Value → Bool → Res Bool
  | [], acc => .ok acc
  | v :: rest, acc =>
    if isScalar v then containsAnyLoop a rest (if tupleContains a v then true else acc)
    else .error (.typeError scalarTypes v)

def utf8Len (s : Str) : Nat := (s.map Char.utf8Size).sum

/-- `str::get(start..end)`: the characters between two byte offsets, `none` unless both offsets
are character boundaries within the string -/
def sliceBytes : Str → Nat → Nat → Option Str
  | s, 0, e => takeBytes s e
  | [], _ + 1, _ => none
  | c :: cs, st + 1, e =>
    if c.utf8Size ≤ st + 1 ∧ c.utf8Size ≤ e then sliceBytes cs (st + 1 - c.utf8Size) (e - c.utf8Size)
    else none
where
  takeBytes : Str → Nat → Option Str
    | _, 0 => some []
    | [], _ + 1 => none
    | c :: cs, n + 1 =>
      if c.utf8Size ≤ n + 1 then (takeBytes cs (n + 1 - c.utf8Size)).map (c :: ·) else none

/-- `str::to_lowercase` on the modelled alphabet: ASCII, plus the Latin-1 letters with a
one-to-one mapping; every other character is passed through (outside the modelled alphabet). -/
def lowerChar (c : Char) : Char :=
  let n := c.toNat
  if 'A' ≤ c && c ≤ 'Z' then Char.ofNat (n + 32)
  else if (0xC0 ≤ n && n ≤ 0xDE && n != 0xD7) then Char.ofNat (n + 32)
  else c

/-- `str::to_uppercase` on the modelled alphabet (`ß` ↦ `SS`, `ÿ` ↦ `Ÿ`, `µ` ↦ `Μ`) -/
def upperChar (c : Char) : Str :=
  let n := c.toNat
  if 'a' ≤ c && c ≤ 'z' then [Char.ofNat (n - 32)]
  else if n == 0xDF then ['S', 'S']
  else if n == 0xFF then [Char.ofNat 0x178]
  else if n == 0xB5 then [Char.ofNat 0x39C]
  else if (0xE0 ≤ n && n ≤ 0xFE && n != 0xF7) then [Char.ofNat (n - 32)]
  else [c]

def strToLower (s : Str) : Str := s.map lowerChar
def strToUpper (s : Str) : Str := (s.map upperChar).flatten

/-- `str::trim` -/
def trimStr (s : Str) : Str :=
  ((s.dropWhile isWhitespace).reverse.dropWhile isWhitespace).reverse

def typeofName : Value → Str
  | .string _ => cl!"string" | .float _ => cl!"float" | .int _ => cl!"int"
  | .boolean _ => cl!"boolean" | .tuple _ => cl!"tuple" | .empty => cl!"empty"

def substring (arg : Value) : Res Value :=
  match arg.asRangedLenTuple 2 3 with
  | .error e => .error e
  | .ok args =>
    match args with
    | subj :: st :: rest =>
      match subj.asString with
      | .error e => .error e
      | .ok subject =>
        match st.asInt with
        | .error e => .error e
        | .ok start =>
          match intIntoUsize start with
          | .error _ => .error .outOfBoundsAccess
          | .ok start =>
            let endR : Res Nat := match rest with
              | e :: _ =>
                match e.asInt with
                | .error err => .error err
                | .ok e => match intIntoUsize e with
                  | .error _ => .error .outOfBoundsAccess
                  | .ok e => .ok e
              | [] => .ok (utf8Len subject)
            match endR with
            | .error e => .error e
            | .ok end_ =>
              if start > end_ || end_ > utf8Len subject then .error .outOfBoundsAccess
              else match sliceBytes subject start end_ with
                | some s => .ok (.string s)
                | none => .error .outOfBoundsAccess
    | _ => .error (.panic cl!"builtin: args[i]")

/-- the closure stored in the `Function` returned by `builtin_function` -/
def Builtin.call (b : Builtin) (arg : Value) : Res Value :=
  match b with
  | .ln => simpleMath1 Float.log arg
  | .log => simpleMath2 F64.logBase arg
  | .log2 => simpleMath1 Float.log2 arg
  | .log10 => simpleMath1 Float.log10 arg
  | .exp => simpleMath1 Float.exp arg
  | .exp2 => simpleMath1 Float.exp2 arg
  | .pow => simpleMath2 Float.pow arg
  | .cos => simpleMath1 Float.cos arg
  | .acos => simpleMath1 Float.acos arg
  | .cosh => simpleMath1 Float.cosh arg
  | .acosh => simpleMath1 F64.acosh arg
  | .sin => simpleMath1 Float.sin arg
  | .asin => simpleMath1 Float.asin arg
  | .sinh => simpleMath1 Float.sinh arg
  | .asinh => simpleMath1 F64.asinh arg
  | .tan => simpleMath1 Float.tan arg
  | .atan => simpleMath1 Float.atan arg
  | .tanh => simpleMath1 Float.tanh arg
  | .atanh => simpleMath1 F64.atanh arg
  | .atan2 => simpleMath2 Float.atan2 arg
  | .sqrt => simpleMath1 Float.sqrt arg
  | .cbrt => simpleMath1 Float.cbrt arg
  | .hypot => simpleMath2 F64.hypot arg
  | .floor => simpleMath1 Float.floor arg
  | .round => simpleMath1 Float.round arg
  | .ceil => simpleMath1 Float.ceil arg
  | .isNan => floatIs F64.isNaN arg
  | .isFinite => floatIs F64.isFinite arg
  | .isInfinite => floatIs F64.isInfinite arg
  | .isNormal => floatIs F64.isNormal arg
  | .abs =>
    match arg with
    | .float f => .ok (.float f.abs)
    | .int i => (checkedAbs i).map .int
    | v => .error (.expectedNumber v)
  | .typeof => .ok (.string (typeofName arg))
  | .min => minMax i64min F64.fmin (fun i f => i < f) arg
  | .max => minMax i64max F64.fmax (fun i f => i > f) arg
  | .if_ =>
    match arg.asFixedLenTuple 3 with
    | .ok [c, a, b] =>
      match c.asBoolean with
      | .ok true => .ok a
      | .ok false => .ok b
      | .error e => .error e
    | .ok _ => .error (.panic cl!"builtin: arguments[i]")
    | .error e => .error e
  | .contains =>
    match arg.asFixedLenTuple 2 with
    | .ok [a, b] =>
      match a with
      | .tuple t =>
        if isScalar b then .ok (.boolean (tupleContains t b)) else .error (.typeError scalarTypes b)
      | _ => .error (.expectedTuple a)
    | .ok _ => .error (.panic cl!"builtin: arguments[i]")
    | .error e => .error e
  | .containsAny =>
    match arg.asFixedLenTuple 2 with
    | .ok [a, b] =>
      match a with
      | .tuple ta =>
        match b with
        | .tuple tb => (containsAnyLoop ta tb false).map .boolean
        | _ => .error (.expectedTuple b)
      | _ => .error (.expectedTuple a)
    | .ok _ => .error (.panic cl!"builtin: arguments[i]")
    | .error e => .error e
  | .len =>
    match arg with
    | .string s => (intFromUsize (utf8Len s)).map .int
    | .tuple t => (intFromUsize t.length).map .int
    | v => .error (.typeError [.string, .tuple] v)
  | .strToLowercase => (arg.asString).map (fun s => .string (strToLower s))
  | .strToUppercase => (arg.asString).map (fun s => .string (strToUpper s))
  | .strTrim => (arg.asString).map (fun s => .string (trimStr s))
  | .strFrom => .ok (.string arg.strFrom)
  | .strSubstring => substring arg
  | .bitand => intFunction2 (· &&& ·) arg
  | .bitor => intFunction2 (· ||| ·) arg
  | .bitxor => intFunction2 (· ^^^ ·) arg
  | .bitnot => intFunction1 (~~~ ·) arg
  | .shl => intFunction2 (· <<< ·) arg
  | .shr => intFunction2 (· >>> ·) arg

end Evalexpr
