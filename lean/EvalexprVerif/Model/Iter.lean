/-
Model/Iter.lean — src/tree/iter.rs (`NodeIter`, `OperatorIterMut`) and the ten identifier
iterators of src/tree/mod.rs. The explicit stack of slice iterators becomes a list (head = top)
of remaining-children lists; the outer loop takes fuel.
-/
import EvalexprVerif.Model.Tree

namespace Evalexpr

/-- `NodeIter::next`: the next node and the new stack, or `none` when exhausted -/
def nodeIterNext : List (List Node) → Option (Node × List (List Node))
  | [] => none
  | [] :: stack => nodeIterNext stack
  | (n :: rest) :: stack => some (n, n.children :: rest :: stack)

/-- `OperatorIterMut::next` (the same loop over `iter_mut`, yielding the operator) -/
def operatorIterMutNext : List (List Node) → Option (Operator × List (List Node))
  | [] => none
  | [] :: stack => operatorIterMutNext stack
  | (n :: rest) :: stack => some (n.op, n.children :: rest :: stack)

/-- collecting an iterator: repeated `next` -/
def collectNodes : Nat → List (List Node) → List Node
  | 0, _ => []
  | fuel + 1, stack =>
    match nodeIterNext stack with
    | none => []
    | some (n, stack) => n :: collectNodes fuel stack

def collectOperators : Nat → List (List Node) → List Operator
  | 0, _ => []
  | fuel + 1, stack =>
    match operatorIterMutNext stack with
    | none => []
    | some (o, stack) => o :: collectOperators fuel stack

mutual
def Node.size : Node → Nat
  | ⟨_, cs⟩ => 1 + Node.sizeList cs
def Node.sizeList : List Node → Nat
  | [] => 0
  | c :: cs => Node.size c + Node.sizeList cs
end

/-- `Node::iter()` collected -/
def Node.iter (n : Node) : List Node := collectNodes (n.size + 1) [n.children]
/-- `Node::iter_operators_mut()` collected -/
def Node.iterOperatorsMut (n : Node) : List Operator := collectOperators (n.size + 1) [n.children]

inductive IdentClass where | write | read | function
  deriving DecidableEq, Repr

def Operator.ident : Operator → Option (IdentClass × Str)
  | .varWrite id => some (.write, id)
  | .varRead id => some (.read, id)
  | .fn id => some (.function, id)
  | _ => none

/-- which identifier classes each of the five iterators keeps -/
inductive IterKind where | identifiers | variable | readVariable | writeVariable | function
  deriving DecidableEq, Repr

def IterKind.keeps : IterKind → IdentClass → Bool
  | .identifiers, _ => true
  | .variable, .write | .variable, .read => true
  | .variable, .function => false
  | .readVariable, c => c == .read
  | .writeVariable, c => c == .write
  | .function, c => c == .function

def filterIdents (k : IterKind) (ops : List Operator) : List Str :=
  ops.filterMap fun o => match o.ident with
    | some (c, id) => if k.keeps c then some id else none
    | none => none

/-- `iter_identifiers` & co. (immutable: via `iter()`) -/
def Node.iterIdents (n : Node) (k : IterKind) : List Str := filterIdents k (n.iter.map (·.op))
/-- `iter_identifiers_mut` & co. (via `iter_operators_mut()`), read side -/
def Node.iterIdentsMut (n : Node) (k : IterKind) : List Str := filterIdents k n.iterOperatorsMut

def Operator.renameWith (k : IterKind) (f : Str → Str) : Operator → Operator
  | .varWrite id => if k.keeps .write then .varWrite (f id) else .varWrite id
  | .varRead id => if k.keeps .read then .varRead (f id) else .varRead id
  | .fn id => if k.keeps .function then .fn (f id) else .fn id
  | o => o

mutual
/-- the effect of `for id in tree.iter_*_mut() { *id = f(id) }`: every descendant's operator
(not the node's own) is rewritten -/
def Node.renameDesc (k : IterKind) (f : Str → Str) : Node → Node
  | ⟨op, cs⟩ => ⟨op, renameList k f cs⟩
def renameList (k : IterKind) (f : Str → Str) : List Node → List Node
  | [] => []
  | ⟨op, cs⟩ :: rest => ⟨op.renameWith k f, renameList k f cs⟩ :: renameList k f rest
end

end Evalexpr
