/-
Model/Serde.lean — the `serde` feature (src/feature_serde/mod.rs and the derives on `Value` and
`HashMapContext`) over the serde data model. `serde_derive` and the concrete format (`ron`) are
third-party: what is modelled is the shape the derives prescribe (externally tagged enum for `Value`;
a struct with the fields `variables`, `without_builtin_functions` for `HashMapContext`, the field
`functions` skipped and defaulted), and `Deserialize for Node` (`visit_str` ↦ `build_operator_tree`,
errors turned into their `Display` text).
-/
import EvalexprVerif.Model.Context
import EvalexprVerif.Model.Tree

namespace Evalexpr

/-- the fragment of the serde data model the derives use -/
inductive Data where
  | str (s : Str)
  | f64 (f : Float)
  | i64 (i : Int64)
  | bool (b : Bool)
  | seq (xs : List Data)
  | unitVariant (name : Str)
  | newtypeVariant (name : Str) (payload : Data)
  | map (entries : List (Str × Data))
  | struct (fields : List (Str × Data))

mutual
/-- `#[derive(Serialize)] enum Value` (externally tagged) -/
def Value.toData : Value → Data
  | .string s => .newtypeVariant cl!"String" (.str s)
  | .float f => .newtypeVariant cl!"Float" (.f64 f)
  | .int i => .newtypeVariant cl!"Int" (.i64 i)
  | .boolean b => .newtypeVariant cl!"Boolean" (.bool b)
  | .tuple t => .newtypeVariant cl!"Tuple" (.seq (Value.toDataList t))
  | .empty => .unitVariant cl!"Empty"
def Value.toDataList : List Value → List Data
  | [] => []
  | v :: vs => Value.toData v :: Value.toDataList vs
end

mutual
/-- `#[derive(Deserialize)] enum Value` -/
def Value.ofData : Data → Option Value
  | .newtypeVariant name payload =>
    if name == cl!"String" then (match payload with | .str s => some (.string s) | _ => none)
    else if name == cl!"Float" then (match payload with | .f64 f => some (.float f) | _ => none)
    else if name == cl!"Int" then (match payload with | .i64 i => some (.int i) | _ => none)
    else if name == cl!"Boolean" then (match payload with | .bool b => some (.boolean b) | _ => none)
    else if name == cl!"Tuple" then
      (match payload with
        | .seq xs => (Value.ofDataList xs).map .tuple
        | _ => none)
    else none
  | .unitVariant name => if name == cl!"Empty" then some .empty else none
  | _ => none
def Value.ofDataList : List Data → Option (List Value)
  | [] => some []
  | d :: ds =>
    match Value.ofData d, Value.ofDataList ds with
    | some v, some vs => some (v :: vs)
    | _, _ => none
end

def varsToData : List (Str × Value) → List (Str × Data)
  | [] => []
  | (k, v) :: rest => (k, v.toData) :: varsToData rest

/-- `#[derive(Serialize)] struct HashMapContext` with `#[serde(skip)] functions` -/
def HashMapCtx.toData (h : HashMapCtx) : Data :=
  .struct [(cl!"variables", .map (varsToData h.vars)), (cl!"without_builtin_functions", .bool h.noBuiltins)]

/-- entries are inserted into a fresh map one by one -/
def varsOfData : List (Str × Data) → List (Str × Value) → Option (List (Str × Value))
  | [], acc => some acc
  | (k, d) :: rest, acc =>
    match Value.ofData d with
    | some v => varsOfData rest (ainsert k v acc)
    | none => none

/-- `#[derive(Deserialize)] struct HashMapContext`: `functions` takes its default (empty) -/
def HashMapCtx.ofData : Data → Option HashMapCtx
  | .struct [(f1, .map entries), (f2, .bool b)] =>
    if f1 == cl!"variables" && f2 == cl!"without_builtin_functions" then
      (varsOfData entries []).map fun vs => { vars := vs, funs := [], noBuiltins := b }
    else none
  | _ => none

/-- `Display` of the errors `build_operator_tree` can return (src/error/display.rs) -/
def Err.displayBuild : Err → Option Str
  | .appendedToLeafNode => some cl!"Tried to append a node to a leaf node."
  | .precedenceViolation => some cl!"Tried to append a node to another node with higher precedence."
  | .unmatchedLBrace => some cl!"Found an unmatched opening parenthesis '('."
  | .unmatchedRBrace => some cl!"Found an unmatched closing parenthesis ')'."
  | .unmatchedDoubleQuote => some cl!"Found an unmatched double quote '\"'"
  | .missingOperatorOutsideOfBrace => some cl!"Found an opening parenthesis that is preceded by something that does not take any arguments on the right, or found a closing parenthesis that is succeeded by something that does not take any arguments on the left."
  | .illegalEscapeSequence s => some (cl!"Illegal escape sequence: " ++ s)
  | .customMessage m => some (cl!"Error: " ++ m)
  | _ => none

/-- `impl Deserialize for Node`: `visit_str` builds the tree; an error becomes `E::custom(error)` -/
def deserializeNode (s : List Char) : Except Err Node := buildOperatorTree s

end Evalexpr
