/-
Proofs/Interleave.lean — C15 at the granularity of single context accesses: `k` threads, each a
small-step machine (`Spec/SmallStep.lean`) with its own control stack and call log, over ONE shared
context, driven by an ARBITRARY schedule (a `List Nat`: the index of the thread that performs its next
step; an out-of-range index is a no-op, a finished thread stutters).

The shared context is never changed: it is a parameter of `runSched`, not part of the system state
(`List MState`), so this holds by the types alone — there is nothing to prove, and no step could be
written that changes it.
-/
import EvalexprVerif.Proofs.SmallStep

namespace Evalexpr.Machine
open Evalexpr Evalexpr.Spec

/-! ### one thread moves -/

theorem stepThread_length (c : Ctx) (i : Nat) (sys : List MState) :
    (stepThread c i sys).length = sys.length := by
  induction sys generalizing i with
  | nil => cases i <;> rfl
  | cons t ts ih =>
    cases i with
    | zero => rfl
    | succ i => simp [stepThread, ih]

theorem stepThread_self (c : Ctx) (i : Nat) (sys : List MState) :
    (stepThread c i sys)[i]? = sys[i]?.map (step c) := by
  induction sys generalizing i with
  | nil => cases i <;> rfl
  | cons t ts ih =>
    cases i with
    | zero => rfl
    | succ i => simp [stepThread, ih]

theorem stepThread_other (c : Ctx) (i j : Nat) (sys : List MState) (h : i ≠ j) :
    (stepThread c i sys)[j]? = sys[j]? := by
  induction sys generalizing i j with
  | nil => cases i <;> rfl
  | cons t ts ih =>
    cases i with
    | zero =>
      cases j with
      | zero => exact absurd rfl h
      | succ j => rfl
    | succ i =>
      cases j with
      | zero => rfl
      | succ j =>
        simp only [stepThread, List.getElem?_cons_succ]
        exact ih i j (fun e => h (by rw [e]))

/-! ### schedules -/

theorem runSched_length (c : Ctx) (sched : List Nat) (sys : List MState) :
    (runSched c sched sys).length = sys.length := by
  induction sched generalizing sys with
  | nil => rfl
  | cons j sched ih => rw [runSched, ih, stepThread_length]

theorem runSched_append (c : Ctx) (s₁ s₂ : List Nat) (sys : List MState) :
    runSched c (s₁ ++ s₂) sys = runSched c s₂ (runSched c s₁ sys) := by
  induction s₁ generalizing sys with
  | nil => rfl
  | cons j s₁ ih => simp only [List.cons_append, runSched, ih]

theorem map_run_step (c : Ctx) (k : Nat) (o : Option MState) :
    (o.map (step c)).map (run c k) = o.map (run c (k + 1)) := by
  cases o <;> rfl

/-- **Interleaving.** Whatever the schedule, the state of thread `i` after the schedule is the state
it reaches alone after as many steps as the schedule gave it (`sched.count i`): what the other
threads did in between — and when — is invisible to it. -/
theorem interleave_state (c : Ctx) (sched : List Nat) (sys : List MState) (i : Nat) :
    (runSched c sched sys)[i]? = sys[i]?.map (run c (sched.count i)) := by
  induction sched generalizing sys with
  | nil => cases h : sys[i]? <;> simp [runSched, run, h]
  | cons j sched ih =>
    rw [runSched, ih, List.count_cons]
    by_cases h : j = i
    · subst h
      rw [stepThread_self, map_run_step]
      simp
    · rw [stepThread_other c j i sys h]
      simp [h]

/-- the initial system: thread `i` evaluates `ns[i]` (arbitrary, possibly different trees) with an
empty log -/
theorem initSys_get (ns : List Node) (i : Nat) :
    (initSys ns)[i]? = ns[i]?.map (fun n => init n []) := by
  simp [initSys]

/-- for the initial system -/
theorem interleave_init (c : Ctx) (sched : List Nat) (ns : List Node) (i : Nat) :
    (runSched c sched (initSys ns))[i]? = ns[i]?.map (fun n => run c (sched.count i) (init n [])) := by
  rw [interleave_state, initSys_get]
  cases ns[i]? <;> rfl

/-- **A thread that was scheduled often enough has finished with its sequential result.** If the
schedule lets thread `i` move at least `bound nᵢ` times — in any positions, interleaved with
anything — its state is the terminal state carrying exactly `nᵢ.evalRO ⟨c, []⟩`: result and log. -/
theorem interleave_finishes (c : Ctx) (sched : List Nat) (ns : List Node) (i : Nat) (n : Node)
    (hn : ns[i]? = some n) (hfair : bound n ≤ sched.count i) :
    (runSched c sched (initSys ns))[i]? =
      some ⟨.finished (n.evalRO ⟨c, []⟩).1, [], (n.evalRO ⟨c, []⟩).2.log⟩ := by
  rw [interleave_init, hn, Option.map_some, adequacy c n [] _ hfair]

/-- **Partial correctness under EVERY schedule** (no fairness hypothesis): whenever thread `i` is
finished after the schedule, what it returned is its sequential result, and its log is its
sequential log. -/
theorem interleave_result (c : Ctx) (sched : List Nat) (ns : List Node) (i : Nat) (n : Node)
    (st : MState) (r : Res Value) (l : List (Str × Value)) (hn : ns[i]? = some n)
    (hst : (runSched c sched (initSys ns))[i]? = some st) (hr : st.result? = some (r, l)) :
    r = (n.evalRO ⟨c, []⟩).1 ∧ l = (n.evalRO ⟨c, []⟩).2.log := by
  rw [interleave_init, hn, Option.map_some, Option.some.injEq] at hst
  subst hst
  exact result_of_finished c n [] _ r l hr

/-- **A finished thread stays finished**: however the schedule continues, its state (result, log)
does not change. -/
theorem interleave_stable (c : Ctx) (sched sched' : List Nat) (sys : List MState) (i : Nat)
    (st : MState) (r : Res Value) (l : List (Str × Value))
    (hst : (runSched c sched sys)[i]? = some st) (hr : st.result? = some (r, l)) :
    (runSched c (sched ++ sched') sys)[i]? = some st := by
  rw [runSched_append, interleave_state c sched', hst, Option.map_some, run_of_result hr]

/-- **All threads.** Under every schedule that is fair enough, the system ends with every thread
finished, and the list of (result, log) pairs is the list of the sequential evaluations. -/
theorem interleave_all (c : Ctx) (sched : List Nat) (ns : List Node) (hfair : FairFor ns sched) :
    (runSched c sched (initSys ns)).map MState.result? =
      ns.map (fun n => some ((n.evalRO ⟨c, []⟩).1, (n.evalRO ⟨c, []⟩).2.log)) := by
  apply List.ext_getElem?
  intro i
  rw [List.getElem?_map, List.getElem?_map]
  cases hn : ns[i]? with
  | none => rw [interleave_init, hn]; rfl
  | some n => rw [interleave_finishes c sched ns i n hn (hfair i n hn)]; rfl

theorem count_range (k i : Nat) : (List.range k).count i = if i < k then 1 else 0 := by
  induction k with
  | zero => rfl
  | succ k ih =>
    rw [List.range_succ, List.count_append, ih, List.count_singleton]
    by_cases h1 : i < k
    · have : ¬ (k = i) := by omega
      simp [h1, this]; omega
    · by_cases h2 : k = i
      · subst h2; simp
      · have : ¬ (i < k + 1) := by omega
        simp [h1, h2, this]

theorem count_roundRobin (k rounds i : Nat) (h : i < k) : (roundRobin k rounds).count i = rounds := by
  induction rounds with
  | zero => rfl
  | succ r ih =>
    unfold roundRobin at ih ⊢
    rw [List.replicate_succ, List.flatten_cons, List.count_append, count_range, ih]
    simp [h]; omega

/-- fair schedules exist for every system: enough rounds of round robin -/
theorem fairFor_roundRobin (ns : List Node) (rounds : Nat)
    (h : ∀ n, n ∈ ns → bound n ≤ rounds) : FairFor ns (roundRobin ns.length rounds) := by
  intro i n hn
  have hi : i < ns.length := (List.getElem?_eq_some_iff.mp hn).1
  rw [count_roundRobin _ _ _ hi]
  exact h n (List.mem_of_getElem? hn)

end Evalexpr.Machine
