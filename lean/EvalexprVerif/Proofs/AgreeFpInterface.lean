/- Proofs/AgreeFpInterface.lean — the `Interface` functions of /repo/src are textually the ones the model was validated against. -/
import EvalexprVerif.Generated.FpInterface
import EvalexprVerif.Spec.Fingerprints

namespace Evalexpr.Agree

theorem fpInterface_agree : Generated.fpInterface = Spec.Fingerprints.fpInterface := by decide

end Evalexpr.Agree
