/- Proofs/AgreeNumeric.lean — extracted tables equal the expected ones (see Spec/Tables.lean). -/
import EvalexprVerif.Generated.NumericTraits
import EvalexprVerif.Spec.Tables

namespace Evalexpr.Agree
open Evalexpr.Spec

theorem floatTrait_agree : Generated.floatTrait = Tables.floatTrait := by decide +kernel
theorem intTrait_agree : Generated.intTrait = Tables.intTrait := by decide +kernel
theorem intAsFloat_agree : Generated.intAsFloatRecognised = true := rfl

end Evalexpr.Agree
