/-
Proofs/NearestAssemble.lean — what the renormalise-and-assemble tail of `F64.roundRat` produces.
-/
import EvalexprVerif.Proofs.NearestCore
import EvalexprVerif.Proofs.NearestBits

namespace Evalexpr.Spec.Nearest
open Evalexpr

/-- the condition under which the assembled result is +infinity -/
def InfCond (q E : Nat) : Prop :=
  2 ^ 52 ≤ q ∧ ((q < 2 ^ 53 ∧ 2046 ≤ E) ∨ (q = 2 ^ 53 ∧ 2045 ≤ E))

theorem assemble_cases (q : Nat) (e : Int) (E : Nat) (he : e = (E : Int) - 1074)
    (hq : q ≤ 2 ^ 53) (hge : 2 ^ 52 ≤ q ∨ E = 0) :
    (InfCond q E ∧ assemble q e = 0x7ff0000000000000) ∨
    (¬ InfCond q E ∧ isFinitePos (assemble q e) = true ∧ scaledValue (assemble q e) = q * 2 ^ E ∧
      fracField (assemble q e) % 2 = q % 2) := by
  unfold assemble InfCond
  by_cases h53 : q ≥ 2 ^ 53
  · have hq53 : q = 2 ^ 53 := by omega
    simp only [if_pos h53]
    have h2 : ¬ q / 2 < 2 ^ 52 := by omega
    rw [if_neg h2]
    by_cases hE : 2045 ≤ E
    · left
      have : e + 1 + 1075 ≥ 2047 := by omega
      rw [if_pos this]
      exact ⟨⟨by omega, Or.inr ⟨hq53, hE⟩⟩, rfl⟩
    · right
      have : ¬ e + 1 + 1075 ≥ 2047 := by omega
      rw [if_neg this]
      have hb : (e + 1 + 1075).toNat = E + 2 := by omega
      have hq2 : q / 2 = 2 ^ 52 := by omega
      rw [hb, hq2]
      obtain ⟨f1, f2, f3⟩ := norm_bits (2 ^ 52) (E + 2) (by omega) (by omega) (by omega) (by omega)
      refine ⟨by omega, f1, ?_, ?_⟩
      · rw [f2, hq53]
        have e0 : E + 2 - 1 = E + 1 := by omega
        have e1 : 2 ^ (E + 2 - 1) = 2 ^ E * 2 := by rw [e0, Nat.pow_succ]
        rw [e1]
        generalize 2 ^ E = P
        omega
      · rw [f3, hq53]; decide
  · simp only [if_neg h53]
    by_cases h52 : q < 2 ^ 52
    · right
      rw [if_pos h52]
      have hE : E = 0 := by omega
      obtain ⟨f1, f2, f3⟩ := sub_bits q h52
      refine ⟨by omega, f1, ?_, ?_⟩
      · rw [f2, hE]; omega
      · rw [f3]
    · rw [if_neg h52]
      by_cases hE : 2046 ≤ E
      · left
        have : e + 1075 ≥ 2047 := by omega
        rw [if_pos this]
        exact ⟨⟨by omega, Or.inl ⟨by omega, hE⟩⟩, rfl⟩
      · right
        have : ¬ e + 1075 ≥ 2047 := by omega
        rw [if_neg this]
        have hb : (e + 1075).toNat = E + 1 := by omega
        rw [hb]
        obtain ⟨f1, f2, f3⟩ := norm_bits q (E + 1) (by omega) (by omega) (by omega) (by omega)
        refine ⟨by omega, f1, ?_, ?_⟩
        · rw [f2]; rfl
        · rw [f3]; omega

end Evalexpr.Spec.Nearest
