/- Proofs/AgreeFpSerde.lean — the `Serde` functions of /repo/src are textually the ones the model was validated against. -/
import EvalexprVerif.Generated.FpSerde
import EvalexprVerif.Spec.Fingerprints

namespace Evalexpr.Agree

theorem fpSerde_agree : Generated.fpSerde = Spec.Fingerprints.fpSerde := by decide

end Evalexpr.Agree
