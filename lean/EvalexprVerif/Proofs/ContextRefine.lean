/-
Proofs/ContextRefine.lean — properties C04 (variables / HashMapContext refinement of the abstract
map model), C09 (function resolution) and C12 (entry points are views of one evaluator).
-/
import EvalexprVerif.Spec.RefCtx
import EvalexprVerif.Model.Interface

namespace Evalexpr.Spec

/-! ### C04 — variables keep the last assigned value; HashMapContext is type safe -/

theorem alookup_ainsert_same {β} (k : Str) (v : β) (l : List (Str × β)) :
    alookup k (ainsert k v l) = some v := by
  induction l with
  | nil => simp [ainsert, alookup]
  | cons p rest ih =>
    obtain ⟨k', v'⟩ := p
    by_cases hk : k' = k
    · simp [ainsert, alookup, hk]
    · simp [ainsert, alookup, hk, ih]

theorem alookup_ainsert_other {β} (k k' : Str) (v : β) (l : List (Str × β)) (h : k' ≠ k) :
    alookup k' (ainsert k v l) = alookup k' l := by
  induction l with
  | nil => simp [ainsert, alookup, Ne.symm h]
  | cons p rest ih =>
    obtain ⟨k0, v0⟩ := p
    by_cases hk : k0 = k
    · subst hk
      simp [ainsert, alookup, Ne.symm h]
    · by_cases hk' : k0 = k'
      · subst hk'
        simp [ainsert, alookup, hk]
      · simp [ainsert, alookup, hk, hk', ih]

theorem mem_ainsert {β} (k : Str) (v : β) (l : List (Str × β)) (p : Str × β)
    (hp : p ∈ ainsert k v l) : p = (k, v) ∨ p ∈ l := by
  induction l with
  | nil => simpa [ainsert] using hp
  | cons q rest ih =>
    obtain ⟨k0, v0⟩ := q
    by_cases hk : k0 = k
    · simp [ainsert, hk] at hp
      rcases hp with hp | hp
      · exact Or.inl hp
      · exact Or.inr (List.mem_cons_of_mem _ hp)
    · simp [ainsert, hk] at hp
      rcases hp with hp | hp
      · exact Or.inr (by simp [hp])
      · rcases ih hp with h | h
        · exact Or.inl h
        · exact Or.inr (List.mem_cons_of_mem _ h)

theorem keysNodup_ainsert {β} (k : Str) (v : β) (l : List (Str × β)) (h : keysNodup l) :
    keysNodup (ainsert k v l) := by
  induction l with
  | nil => simp [ainsert, keysNodup]
  | cons q rest ih =>
    obtain ⟨k0, v0⟩ := q
    obtain ⟨h1, h2⟩ := h
    by_cases hk : k0 = k
    · subst hk
      simp only [ainsert, beq_self_eq_true, if_true]
      exact ⟨h1, h2⟩
    · have : (k0 == k) = false := by simpa using hk
      simp only [ainsert, this]
      refine ⟨?_, ih h2⟩
      intro p hp
      rcases mem_ainsert k v rest p hp with hp | hp
      · subst hp
        exact fun e => hk e.symm
      · exact h1 p hp

/-- a value of another type is rejected with the matching expected-type error -/
theorem C04_type_safe (h : HashMapCtx) (id : Str) (v old : Value)
    (hold : alookup id h.vars = some old) (ht : old.type ≠ v.type) :
    h.setValue id v = .error (Err.expectedType old v) := by
  simp [HashMapCtx.setValue, hold, ht]

theorem C04_overwrite (h : HashMapCtx) (id : Str) (v old : Value)
    (hold : alookup id h.vars = some old) (ht : old.type = v.type) :
    ∃ h', h.setValue id v = .ok h' ∧ alookup id h'.vars = some v ∧
      (∀ k, k ≠ id → alookup k h'.vars = alookup k h.vars) ∧ h'.funs = h.funs ∧
      h'.noBuiltins = h.noBuiltins := by
  refine ⟨{ h with vars := ainsert id v h.vars }, ?_, alookup_ainsert_same _ _ _,
    fun k hk => alookup_ainsert_other _ _ _ _ hk, rfl, rfl⟩
  simp [HashMapCtx.setValue, hold, ht]

theorem C04_fresh (h : HashMapCtx) (id : Str) (v : Value) (hnone : alookup id h.vars = none) :
    ∃ h', h.setValue id v = .ok h' ∧ alookup id h'.vars = some v ∧
      (∀ k, k ≠ id → alookup k h'.vars = alookup k h.vars) ∧ h'.funs = h.funs ∧
      h'.noBuiltins = h.noBuiltins := by
  refine ⟨{ h with vars := ainsert id v h.vars }, ?_, alookup_ainsert_same _ _ _,
    fun k hk => alookup_ainsert_other _ _ _ _ hk, rfl, rfl⟩
  simp [HashMapCtx.setValue, hnone]

theorem C04_clear_forgets (h : HashMapCtx) (id : Str) (v : Value) :
    alookup id h.clearVariables.vars = none ∧
      ∃ h', h.clearVariables.setValue id v = .ok h' ∧ alookup id h'.vars = some v := by
  refine ⟨rfl, ?_⟩
  obtain ⟨h', h1, h2, _⟩ := C04_fresh h.clearVariables id v rfl
  exact ⟨h', h1, h2⟩

theorem mem_iff_alookup {β} (l : List (Str × β)) (hl : keysNodup l) (k : Str) (v : β) :
    (k, v) ∈ l ↔ alookup k l = some v := by
  induction l with
  | nil => simp [alookup]
  | cons q rest ih =>
    obtain ⟨k0, v0⟩ := q
    obtain ⟨h1, h2⟩ := hl
    by_cases hk : k0 = k
    · subst hk
      simp only [alookup, beq_self_eq_true, if_true, List.mem_cons, Prod.mk.injEq, true_and,
        Option.some.injEq]
      constructor
      · rintro (h | h)
        · exact h.symm
        · exact absurd rfl (h1 _ h)
      · intro h; exact Or.inl h.symm
    · have hb : (k0 == k) = false := by simpa using hk
      simp only [alookup, hb, List.mem_cons, Prod.mk.injEq, Bool.false_eq_true, if_false]
      rw [← ih h2]
      constructor
      · rintro (⟨h, _⟩ | h)
        · exact absurd h.symm hk
        · exact h
      · intro h; exact Or.inr h

theorem C04_listing (h : HashMapCtx) (hinv : HashMapCtx.Inv h) (k : Str) (v : Value) :
    (k, v) ∈ Ctx.iterVariables (.hashMap h) ↔ Ctx.getValue (.hashMap h) k = some v :=
  mem_iff_alookup h.vars hinv.1 k v

theorem keysNodup_nodup {β} (l : List (Str × β)) (hl : keysNodup l) : (l.map (·.1)).Nodup := by
  induction l with
  | nil => simp
  | cons q rest ih =>
    obtain ⟨k0, v0⟩ := q
    obtain ⟨h1, h2⟩ := hl
    simp only [List.map_cons, List.nodup_cons, List.mem_map, not_exists, not_and]
    exact ⟨fun p hp => h1 p hp, ih h2⟩

theorem C04_listing_nodup (h : HashMapCtx) (hinv : HashMapCtx.Inv h) :
    (Ctx.iterVariableNames (.hashMap h)).Nodup :=
  keysNodup_nodup h.vars hinv.1

/-- `x op= v` behaves as `x = (x op v)` -/
theorem C04_opassign (op base : Operator) (x : Str) (v old : Value) (s : St)
    (hb : op.assignBase = some base) (hx : s.ctx.getValue x = some old) :
    op.evalMut [.string x, v] s =
      match base.eval [old, v] s with
      | (.error e, s') => (.error e, s')
      | (.ok r, s') => Operator.evalMut .assign [.string x, r] s' := by
  cases op <;> simp [Operator.assignBase] at hb <;> subst hb <;>
    simp [Operator.evalMut, Operator.eval, Value.asString, hx, Operator.assignBase] <;>
    (generalize Operator.evalPure _ _ = r; cases r <;> rfl)

/-! #### the refinement -/

theorem RefCtx.Equiv.refl (c : RefCtx) : c.Equiv c := ⟨fun _ => rfl, fun _ => rfl, rfl⟩
theorem RefCtx.Equiv.symm {a b : RefCtx} (h : a.Equiv b) : b.Equiv a :=
  ⟨fun k => (h.1 k).symm, fun k => (h.2.1 k).symm, h.2.2.symm⟩
theorem RefCtx.Equiv.trans {a b c : RefCtx} (h : a.Equiv b) (h' : b.Equiv c) : a.Equiv c :=
  ⟨fun k => (h.1 k).trans (h'.1 k), fun k => (h.2.1 k).trans (h'.2.1 k), h.2.2.trans h'.2.2⟩

/-- `set_value` as a step on the model -/
def modelSet (h : HashMapCtx) (id : Str) (v : Value) : Obs × HashMapCtx :=
  match h.setValue id v with
  | .ok h' => (.ok (), h')
  | .error e => (.error e, h)

/-- `set_value` as a step on the abstract model -/
def specSet (c : RefCtx) (id : Str) (v : Value) : Obs × RefCtx :=
  match c.setValue id v with
  | .ok c' => (.ok (), c')
  | .error e => (.error e, c)

/-- the refinement relation: same abstract content, representation invariant -/
def Refines (h : HashMapCtx) (c : RefCtx) : Prop := (absCtx h).Equiv c ∧ HashMapCtx.Inv h

theorem equiv_insert_vars (h : HashMapCtx) (c : RefCtx) (heq : (absCtx h).Equiv c) (id : Str)
    (v : Value) :
    (absCtx { h with vars := ainsert id v h.vars }).Equiv
      { c with vars := fun k => if k = id then some v else c.vars k } := by
  refine ⟨fun k => ?_, heq.2.1, heq.2.2⟩
  by_cases hk : k = id
  · subst hk
    simp [absCtx, alookup_ainsert_same]
  · simp only [absCtx, hk, if_false]
    rw [alookup_ainsert_other _ _ _ _ hk]
    exact heq.1 k

theorem set_refines (h : HashMapCtx) (c : RefCtx) (hr : Refines h c) (id : Str) (v : Value) :
    (modelSet h id v).1 = (specSet c id v).1 ∧ Refines (modelSet h id v).2 (specSet c id v).2 := by
  obtain ⟨heq, hinv⟩ := hr
  have hv : alookup id h.vars = c.vars id := heq.1 id
  have hins : Refines { h with vars := ainsert id v h.vars }
      { c with vars := fun k => if k = id then some v else c.vars k } :=
    ⟨equiv_insert_vars h c heq id v, keysNodup_ainsert _ _ _ hinv.1, hinv.2⟩
  unfold modelSet specSet HashMapCtx.setValue RefCtx.setValue
  rw [← hv]
  cases hl : alookup id h.vars with
  | none => exact ⟨rfl, hins⟩
  | some old =>
    by_cases ht : old.type = v.type
    · simp only [ht, beq_self_eq_true, if_true]
      exact ⟨by trivial, hins⟩
    · have hb : (old.type == v.type) = false := by simpa using ht
      simp only [ht, hb, if_false, Bool.false_eq_true]
      exact ⟨by trivial, heq, hinv⟩

theorem evalMut_assign_hashMap (h : HashMapCtx) (id : Str) (v : Value) (log : List (Str × Value)) :
    Operator.evalMut .assign [.string id, v] ⟨.hashMap h, log⟩ =
      match h.setValue id v with
      | .ok h' => (.ok .empty, ⟨.hashMap h', log⟩)
      | .error e => (.error e, ⟨.hashMap h, log⟩) := by
  simp only [Operator.evalMut, Value.asString, setValue, Ctx.setValue]
  cases h.setValue id v <;> rfl

theorem modelStep_assign (h : HashMapCtx) (id : Str) (v : Value) :
    modelStep h (.assign id v) = modelSet h id v := by
  simp only [modelStep, evalMut_assign_hashMap, modelSet]
  cases h.setValue id v <;> rfl

/-- the mutable evaluator on a `HashMapContext` state ends in a `HashMapContext` state (assignment
operators applied to values) -/
theorem evalMut_opAssign_hashMap (op : Operator) (hop : isOpAssign op = true) (h : HashMapCtx)
    (id : Str) (v : Value) (log : List (Str × Value)) :
    Operator.evalMut op [.string id, v] ⟨.hashMap h, log⟩ =
      match alookup id h.vars with
      | none => (.error (.variableIdentifierNotFound id), ⟨.hashMap h, log⟩)
      | some old =>
        match op.assignBase with
        | none => (.error (.panic cl!"eval_mut: unreachable!()"), ⟨.hashMap h, log⟩)
        | some base =>
          match base.evalPure [old, v] with
          | .error e => (.error e, ⟨.hashMap h, log⟩)
          | .ok r => Operator.evalMut .assign [.string id, r] ⟨.hashMap h, log⟩ := by
  cases op <;> simp [isOpAssign] at hop <;>
    simp only [Operator.evalMut, Operator.eval, Value.asString, Ctx.getValue, Operator.assignBase] <;>
    (cases alookup id h.vars with
     | none => rfl
     | some old =>
       simp only []
       generalize Operator.evalPure _ _ = r
       cases r with
       | error e => rfl
       | ok r => simp only [setValue, Ctx.setValue])

theorem modelStep_opAssign (op : Operator) (hop : isOpAssign op = true) (h : HashMapCtx)
    (id : Str) (v : Value) :
    modelStep h (.opAssign op id v) =
      match alookup id h.vars with
      | none => (.error (.variableIdentifierNotFound id), h)
      | some old =>
        match op.assignBase with
        | none => (.error (.panic cl!"eval_mut: unreachable!()"), h)
        | some base =>
          match base.evalPure [old, v] with
          | .error e => (.error e, h)
          | .ok r => modelSet h id r := by
  simp only [modelStep, evalMut_opAssign_hashMap op hop]
  cases alookup id h.vars with
  | none => rfl
  | some old =>
    cases op.assignBase with
    | none => rfl
    | some base =>
      simp only []
      cases base.evalPure [old, v] with
      | error e => rfl
      | ok r =>
        simp only [evalMut_assign_hashMap, modelSet]
        cases h.setValue id r <;> rfl

/-- in the `.assign` / `.opAssign` cases of `modelStep` the evaluator's final context is a
`HashMapContext` again -/
theorem evalMut_hashMap_ctx (op : Operator) (hop : op = .assign ∨ isOpAssign op = true)
    (h : HashMapCtx) (id : Str) (v : Value) (log : List (Str × Value)) :
    ∃ h', (Operator.evalMut op [.string id, v] ⟨.hashMap h, log⟩).2 = ⟨.hashMap h', log⟩ := by
  have hassign : ∀ v, ∃ h',
      (Operator.evalMut .assign [.string id, v] ⟨.hashMap h, log⟩).2 = ⟨.hashMap h', log⟩ := by
    intro v
    rw [evalMut_assign_hashMap]
    cases h.setValue id v with
    | error e => exact ⟨h, rfl⟩
    | ok h' => exact ⟨h', rfl⟩
  rcases hop with rfl | hop
  · exact hassign v
  · rw [evalMut_opAssign_hashMap op hop]
    cases alookup id h.vars with
    | none => exact ⟨h, rfl⟩
    | some old =>
      cases op.assignBase with
      | none => exact ⟨h, rfl⟩
      | some base =>
        simp only []
        cases base.evalPure [old, v] with
        | error e => exact ⟨h, rfl⟩
        | ok r => exact hassign r

/-- one step, for any abstract state equivalent to the abstraction of the model state -/
theorem step_refines (h : HashMapCtx) (c : RefCtx) (hr : Refines h c) (op : CtxOp)
    (hwf : op.wf = true) :
    (modelStep h op).1 = (specStep c op).1 ∧ Refines (modelStep h op).2 (specStep c op).2 := by
  cases op with
  | setValue id v => exact set_refines h c hr id v
  | assign id v => rw [modelStep_assign]; exact set_refines h c hr id v
  | opAssign op id v =>
    have hop : isOpAssign op = true := hwf
    rw [modelStep_opAssign op hop]
    simp only [specStep]
    rw [← hr.1.1 id]
    simp only [absCtx]
    cases alookup id h.vars with
    | none => exact ⟨rfl, hr⟩
    | some old =>
      cases op.assignBase with
      | none => exact ⟨rfl, hr⟩
      | some base =>
        simp only []
        cases base.evalPure [old, v] with
        | error e => exact ⟨rfl, hr⟩
        | ok r => exact set_refines h c hr id r
  | setFunction id f =>
    refine ⟨rfl, ⟨fun k => hr.1.1 k, fun k => ?_, hr.1.2.2⟩, hr.2.1, keysNodup_ainsert _ _ _ hr.2.2⟩
    simp only [modelStep, specStep, RefCtx.setFunction, absCtx]
    by_cases hk : k = id
    · subst hk; simp [alookup_ainsert_same]
    · simp only [hk, if_false]
      rw [alookup_ainsert_other _ _ _ _ hk]
      exact hr.1.2.1 k
  | clearVariables =>
    exact ⟨rfl, ⟨fun _ => rfl, hr.1.2.1, hr.1.2.2⟩, trivial, hr.2.2⟩
  | clearFunctions =>
    exact ⟨rfl, ⟨hr.1.1, fun _ => rfl, hr.1.2.2⟩, hr.2.1, trivial⟩
  | clear =>
    exact ⟨rfl, ⟨fun _ => rfl, fun _ => rfl, hr.1.2.2⟩, trivial, trivial⟩
  | setBuiltinsDisabled d =>
    exact ⟨rfl, ⟨hr.1.1, hr.1.2.1, rfl⟩, hr.2⟩

/-- the abstract step respects observable equality -/
theorem specSet_congr (c c' : RefCtx) (heq : c.Equiv c') (id : Str) (v : Value) :
    (specSet c id v).1 = (specSet c' id v).1 ∧ (specSet c id v).2.Equiv (specSet c' id v).2 := by
  have hins : RefCtx.Equiv { c with vars := fun k => if k = id then some v else c.vars k }
      { c' with vars := fun k => if k = id then some v else c'.vars k } :=
    ⟨fun k => by by_cases hk : k = id <;> simp [hk, heq.1 k], heq.2.1, heq.2.2⟩
  unfold specSet RefCtx.setValue
  rw [← heq.1 id]
  cases c.vars id with
  | none => exact ⟨rfl, hins⟩
  | some old =>
    by_cases ht : old.type = v.type
    · simp only [ht, if_true]; exact ⟨by trivial, hins⟩
    · simp only [ht, if_false]; exact ⟨by trivial, heq⟩

theorem specStep_congr (c c' : RefCtx) (heq : c.Equiv c') (op : CtxOp) :
    (specStep c op).1 = (specStep c' op).1 ∧ (specStep c op).2.Equiv (specStep c' op).2 := by
  cases op with
  | setValue id v => exact specSet_congr c c' heq id v
  | assign id v => exact specSet_congr c c' heq id v
  | opAssign op id v =>
    simp only [specStep]
    rw [← heq.1 id]
    cases c.vars id with
    | none => exact ⟨rfl, heq⟩
    | some old =>
      cases op.assignBase with
      | none => exact ⟨rfl, heq⟩
      | some base =>
        simp only []
        cases base.evalPure [old, v] with
        | error e => exact ⟨rfl, heq⟩
        | ok r => exact specSet_congr c c' heq id r
  | setFunction id f =>
    exact ⟨rfl, heq.1, fun k => by
      by_cases hk : k = id <;> simp [specStep, RefCtx.setFunction, hk, heq.2.1 k], heq.2.2⟩
  | clearVariables => exact ⟨rfl, fun _ => rfl, heq.2.1, heq.2.2⟩
  | clearFunctions => exact ⟨rfl, heq.1, fun _ => rfl, heq.2.2⟩
  | clear => exact ⟨rfl, fun _ => rfl, fun _ => rfl, heq.2.2⟩
  | setBuiltinsDisabled d => exact ⟨rfl, heq.1, heq.2.1, rfl⟩

/-- one step of the model refines one step of the abstract map model -/
theorem C04_step_refines (h : HashMapCtx) (op : CtxOp) (hinv : HashMapCtx.Inv h)
    (hwf : op.wf = true) :
    (modelStep h op).1 = (specStep (absCtx h) op).1 ∧
      (absCtx (modelStep h op).2).Equiv (specStep (absCtx h) op).2 ∧
      HashMapCtx.Inv (modelStep h op).2 := by
  obtain ⟨h1, h2, h3⟩ := step_refines h (absCtx h) ⟨RefCtx.Equiv.refl _, hinv⟩ op hwf
  exact ⟨h1, h2, h3⟩

def runModel : HashMapCtx → List CtxOp → List Obs × HashMapCtx
  | h, [] => ([], h)
  | h, op :: ops =>
    let (o, h') := modelStep h op; let (os, h'') := runModel h' ops; (o :: os, h'')
def runSpec : RefCtx → List CtxOp → List Obs × RefCtx
  | c, [] => ([], c)
  | c, op :: ops =>
    let (o, c') := specStep c op; let (os, c'') := runSpec c' ops; (o :: os, c'')

theorem run_refines (ops : List CtxOp) (hwf : ∀ op ∈ ops, op.wf = true) (h : HashMapCtx)
    (c : RefCtx) (hr : Refines h c) :
    (runModel h ops).1 = (runSpec c ops).1 ∧ Refines (runModel h ops).2 (runSpec c ops).2 := by
  induction ops generalizing h c with
  | nil => exact ⟨rfl, hr⟩
  | cons op ops ih =>
    obtain ⟨h1, h2⟩ := step_refines h c hr op (hwf op (List.mem_cons_self ..))
    obtain ⟨i1, i2⟩ := ih (fun o ho => hwf o (List.mem_cons_of_mem _ ho)) _ _ h2
    simp only [runModel, runSpec]
    exact ⟨by rw [h1, i1], i2⟩

/-- hence for every finite history from the empty context -/
theorem C04_refines (ops : List CtxOp) (hwf : ∀ op ∈ ops, op.wf = true) :
    (runModel {} ops).1 = (runSpec RefCtx.empty ops).1 ∧
      (absCtx (runModel {} ops).2).Equiv (runSpec RefCtx.empty ops).2 ∧
      HashMapCtx.Inv (runModel {} ops).2 := by
  have h0 : Refines {} RefCtx.empty := ⟨⟨fun _ => rfl, fun _ => rfl, rfl⟩, trivial, trivial⟩
  obtain ⟨h1, h2, h3⟩ := run_refines ops hwf {} RefCtx.empty h0
  exact ⟨h1, h2, h3⟩

/-! ### C09 — function resolution -/

theorem C09_resolution_partial (id : Str) (arg : Value) (s : St) (f : UserFn)
    (hf : s.ctx.userFn id = some f) (hne : ∀ x, f arg ≠ .error (.functionIdentifierNotFound x)) :
    callFunction id arg s = (f arg, { s with log := s.log ++ [(id, arg)] }) := by
  -- the catch-all arm's match equation has the side condition `∀ x, f arg ≠ .error (.fINF x)`,
  -- which `simp` discharges with `hne`
  simp only [callFunction, hf]

theorem C09_K2_witness :
    let f : UserFn := fun _ => .error (.functionIdentifierNotFound ['z', 'z'])
    let s : St := ⟨.hashMap { funs := [(cl!"max", f)] }, []⟩
    (callFunction cl!"max" (.tuple [.int 1, .int 3]) s).1 = .ok (.int 3) := by
  intro f s
  rfl

theorem C09_fallback (id : Str) (arg : Value) (s : St) (hf : s.ctx.userFn id = none) :
    callFunction id arg s =
      (if s.ctx.builtinsDisabled then .error (.functionIdentifierNotFound id)
       else match builtinFunction id with
         | some b => b.call arg
         | none => .error (.functionIdentifierNotFound id), s) := by
  simp only [callFunction, hf]
  cases s.ctx.builtinsDisabled with
  | true => rfl
  | false =>
    simp only [Bool.not_false, if_true, Bool.false_eq_true, if_false]
    cases builtinFunction id <;> rfl

theorem C09_disabled (id : Str) (arg : Value) (s : St) (hf : s.ctx.userFn id = none)
    (hd : s.ctx.builtinsDisabled = true) :
    (callFunction id arg s).1 = .error (.functionIdentifierNotFound id) := by
  rw [C09_fallback id arg s hf, hd]
  rfl

theorem C09_policy_empty : Ctx.builtinsDisabled .empty = true ∧ (∀ id, Ctx.userFn .empty id = none) ∧
    Ctx.setBuiltinsDisabled .empty false = .error .builtinFunctionsCannotBeEnabled :=
  ⟨rfl, fun _ => rfl, rfl⟩

theorem C09_policy_emptyWithBuiltins : Ctx.builtinsDisabled .emptyWithBuiltins = false ∧
    (∀ id, Ctx.userFn .emptyWithBuiltins id = none) ∧
    Ctx.setBuiltinsDisabled .emptyWithBuiltins true = .error .builtinFunctionsCannotBeDisabled :=
  ⟨rfl, fun _ => rfl, rfl⟩

theorem C09_policy_hashMap (h : HashMapCtx) (d : Bool) :
    ∃ h', Ctx.setBuiltinsDisabled (.hashMap h) d = .ok (.hashMap h') ∧ h'.noBuiltins = d ∧
      h'.vars = h.vars ∧ h'.funs = h.funs :=
  ⟨{ h with noBuiltins := d }, rfl, rfl, rfl, rfl⟩

theorem C09_switch_untouched (h : HashMapCtx) :
    h.clearVariables.noBuiltins = h.noBuiltins ∧ h.clearFunctions.noBuiltins = h.noBuiltins ∧
      h.clear.noBuiltins = h.noBuiltins :=
  ⟨rfl, rfl, rfl⟩

theorem C09_namespaces (h : HashMapCtx) (fs : List (Str × UserFn)) (vs : List (Str × Value))
    (id : Str) :
    Ctx.getValue (.hashMap { h with funs := fs }) id = Ctx.getValue (.hashMap h) id ∧
    Ctx.userFn (.hashMap { h with vars := vs }) id = Ctx.userFn (.hashMap h) id :=
  ⟨rfl, rfl⟩

theorem C09_all_builtins_unknown (p : Str × Builtin) (hp : p ∈ builtinTable) (arg : Value) (s : St)
    (hf : s.ctx.userFn p.1 = none) (hd : s.ctx.builtinsDisabled = true) :
    (Operator.eval (.fn p.1) [arg] s).1 = .error (.functionIdentifierNotFound p.1) := by
  have _ := hp  -- the statement holds for every name; the hypothesis only scopes the property
  simp only [Operator.eval]
  exact C09_disabled p.1 arg s hf hd

theorem builtin_lookup_all : ∀ p ∈ builtinTable, builtinFunction p.1 = some p.2 := by
  decide

theorem C09_builtin_lookup (p : Str × Builtin) (hp : p ∈ builtinTable) :
    builtinFunction p.1 = some p.2 :=
  builtin_lookup_all p hp

/-! ### C12 — all evaluation entry points are views of one evaluator -/

theorem C12_projection (k : Kind) (m : Mode) (n : Node) (s : St) :
    runTree k m n s = (k.project (runTreeUntyped m n s).1, (runTreeUntyped m n s).2) := rfl

theorem C12_precompile (k : Kind) (m : Mode) (src : List Char) (s : St) :
    runString k m src s = match buildOperatorTree src with
      | .ok n => runTree k m n s
      | .error e => (.error e, s) := by
  unfold runString
  cases buildOperatorTree src <;> rfl

theorem C12_build_error (k : Kind) (m : Mode) (src : List Char) (s : St) (e : Err)
    (h : buildOperatorTree src = .error e) : runString k m src s = (.error e, s) := by
  unfold runString
  rw [h]

theorem C12_project_error (k : Kind) (e : Err) : k.project (.error e) = .error e := rfl

theorem C12_project_value (v : Value) : Kind.project .value (.ok v) = .ok v := by
  cases v <;> rfl

theorem C12_project_typed (v : Value) :
    Kind.project .string (.ok v) = (match v with | .string s => .ok (.string s) | v => .error (.expectedString v)) ∧
    Kind.project .int (.ok v) = (match v with | .int i => .ok (.int i) | v => .error (.expectedInt v)) ∧
    Kind.project .float (.ok v) = (match v with | .float f => .ok (.float f) | v => .error (.expectedFloat v)) ∧
    Kind.project .number (.ok v) = (match v with | .int i => .ok (.float i.toFloat) | .float f => .ok (.float f) | v => .error (.expectedNumber v)) ∧
    Kind.project .boolean (.ok v) = (match v with | .boolean b => .ok (.boolean b) | v => .error (.expectedBoolean v)) ∧
    Kind.project .tuple (.ok v) = (match v with | .tuple t => .ok (.tuple t) | v => .error (.expectedTuple v)) ∧
    Kind.project .empty (.ok v) = (match v with | .empty => .ok .empty | v => .error (.expectedEmpty v)) := by
  cases v <;> exact ⟨rfl, rfl, rfl, rfl, rfl, rfl, rfl⟩

theorem C12_fresh (k : Kind) (n : Node) (s : St) :
    runTree k .fresh n s = (k.project (n.evalMut St.fresh).1, s) := rfl

end Evalexpr.Spec

