/- Proofs/AgreePurity.lean — extracted tables equal the expected ones (see Spec/Tables.lean). -/
import EvalexprVerif.Generated.Purity

namespace Evalexpr.Agree


theorem impureSites_agree : Generated.impureSites = [] := by decide +kernel
theorem crateAttrs_forbid_unsafe : "forbid ( unsafe_code )" ∈ Generated.crateAttrs := by decide +kernel

end Evalexpr.Agree
