/-
Proofs/LexPhase2.lean — phase 2 of C07: `partialTokensToTokens` maps `partials` back to the tokens.
-/
import EvalexprVerif.Proofs.LexPhase1
import EvalexprVerif.Proofs.LexFloat

namespace Evalexpr.Spec
open Evalexpr

/-! ### uniform unfolding of `partialTokensToTokens` -/

theorem pttt_step1 (a : PartialToken) (rest : List PartialToken) (t : Option Token)
    (h : tokenStep a rest.head? rest.tail.head? = .ok (t, 1)) :
    partialTokensToTokens (a :: rest) = (partialTokensToTokens rest).map (t.toList ++ ·) := by
  match rest, h with
  | [], h =>
    simp only [List.head?_nil, List.tail_nil] at h
    rw [partialTokensToTokens.eq_2, h]; simp [partialTokensToTokens, Except.map]
  | [b], h =>
    simp only [List.head?_cons, List.tail_cons, List.head?_nil] at h
    rw [partialTokensToTokens.eq_3, h]; simp
  | b :: c :: rest, h =>
    simp only [List.head?_cons, List.tail_cons] at h
    rw [partialTokensToTokens.eq_4, h]; simp

theorem pttt_step2 (a b : PartialToken) (rest : List PartialToken) (t : Option Token)
    (h : tokenStep a (some b) rest.head? = .ok (t, 2)) :
    partialTokensToTokens (a :: b :: rest) = (partialTokensToTokens rest).map (t.toList ++ ·) := by
  match rest, h with
  | [], h =>
    simp only [List.head?_nil] at h
    rw [partialTokensToTokens.eq_3, h]; simp [partialTokensToTokens, Except.map]
  | c :: rest, h =>
    simp only [List.head?_cons] at h
    rw [partialTokensToTokens.eq_4, h]; simp

theorem pttt_step3 (a b c : PartialToken) (rest : List PartialToken) (t : Option Token)
    (h : tokenStep a (some b) (some c) = .ok (t, 3)) :
    partialTokensToTokens (a :: b :: c :: rest) =
      (partialTokensToTokens rest).map (t.toList ++ ·) := by
  rw [partialTokensToTokens.eq_4, h]; simp

theorem pttt_single (a : PartialToken) (t : Token) (l : List PartialToken)
    (h : tokenStep a l.head? l.tail.head? = .ok (some t, 1)) :
    partialTokensToTokens ([a] ++ l) = (partialTokensToTokens l).map (t :: ·) := by
  rw [List.singleton_append, pttt_step1 a l _ h]; rfl

theorem pttt_double (a b : PartialToken) (t : Token) (l : List PartialToken)
    (h : tokenStep a (some b) l.head? = .ok (some t, 2)) :
    partialTokensToTokens ([a, b] ++ l) = (partialTokensToTokens l).map (t :: ·) := by
  show partialTokensToTokens (a :: b :: l) = _
  rw [pttt_step2 a b l _ h]; rfl

theorem pttt_triple (a b c : PartialToken) (t : Token) (l : List PartialToken)
    (h : tokenStep a (some b) (some c) = .ok (some t, 3)) :
    partialTokensToTokens ([a, b, c] ++ l) = (partialTokensToTokens l).map (t :: ·) := by
  show partialTokensToTokens (a :: b :: c :: l) = _
  rw [pttt_step3 a b c l _ h]; rfl

theorem pttt_whitespace (l : List PartialToken) :
    partialTokensToTokens (.whitespace :: l) = partialTokensToTokens l := by
  rw [pttt_step1 .whitespace l none (by simp [tokenStep])]
  cases partialTokensToTokens l <;> rfl

theorem pttt_gapPartials (g : Gap) (l : List PartialToken) :
    partialTokensToTokens (gapPartials g ++ l) = partialTokensToTokens l := by
  induction g with
  | nil => simp [gapPartials]
  | cons s g ih =>
    have : gapPartials (s :: g) ++ l = .whitespace :: (gapPartials g ++ l) := by
      simp [gapPartials, List.replicate_succ]
    rw [this, pttt_whitespace, ih]

/-! ### `tokenStep` on the first partial token of each token kind -/

theorem tokenStep_plus (s t : Option PartialToken) (h : s ≠ some .eq) :
    tokenStep .plus s t = .ok (some .plus, 1) := by
  simp only [tokenStep]
theorem tokenStep_minus (s t : Option PartialToken) (h : s ≠ some .eq) :
    tokenStep .minus s t = .ok (some .minus, 1) := by
  simp only [tokenStep]
theorem tokenStep_star (s t : Option PartialToken) (h : s ≠ some .eq) :
    tokenStep .star s t = .ok (some .star, 1) := by
  simp only [tokenStep]
theorem tokenStep_slash (s t : Option PartialToken) (h : s ≠ some .eq) :
    tokenStep .slash s t = .ok (some .slash, 1) := by
  simp only [tokenStep]
theorem tokenStep_percent (s t : Option PartialToken) (h : s ≠ some .eq) :
    tokenStep .percent s t = .ok (some .percent, 1) := by
  simp only [tokenStep]
theorem tokenStep_hat (s t : Option PartialToken) (h : s ≠ some .eq) :
    tokenStep .hat s t = .ok (some .hat, 1) := by
  simp only [tokenStep]
theorem tokenStep_eq (s t : Option PartialToken) (h : s ≠ some .eq) :
    tokenStep .eq s t = .ok (some .assign, 1) := by
  simp only [tokenStep]
theorem tokenStep_excl (s t : Option PartialToken) (h : s ≠ some .eq) :
    tokenStep .exclamationMark s t = .ok (some .not, 1) := by
  simp only [tokenStep]
theorem tokenStep_gt (s t : Option PartialToken) (h : s ≠ some .eq) :
    tokenStep .gt s t = .ok (some .gt, 1) := by
  simp only [tokenStep]
theorem tokenStep_lt (s t : Option PartialToken) (h : s ≠ some .eq) :
    tokenStep .lt s t = .ok (some .lt, 1) := by
  simp only [tokenStep]
theorem tokenStep_and (t : Option PartialToken) (h : t ≠ some .eq) :
    tokenStep .ampersand (some .ampersand) t = .ok (some .and, 2) := by
  simp only [tokenStep]
theorem tokenStep_or (t : Option PartialToken) (h : t ≠ some .eq) :
    tokenStep .verticalBar (some .verticalBar) t = .ok (some .or, 2) := by
  simp only [tokenStep]

theorem tokenStep_word (w : Str) (tok : Token) (s t : Option PartialToken)
    (h : lexWord w = some tok) : tokenStep (.literal w) s t = .ok (some tok, 1) := by
  simp only [tokenStep, h]

theorem tokenStep_ident (w : Str) (s t : Option PartialToken) (hw : lexWord w = none)
    (h : ∀ a b, s = some a → t = some b → isPlusOrMinus a = true →
      F64.parse (w ++ a.display ++ b.display) = none) :
    tokenStep (.literal w) s t = .ok (some (.identifier w), 1) := by
  simp only [tokenStep, hw]
  split
  · rename_i a b
    split
    · rename_i hpm
      rw [h a b rfl rfl hpm]
    · rfl
  · rfl

/-! ### one printable token -/

theorem pttt_ptok (p : PTok) (hp : p.Printable) (l : List PartialToken)
    (hEq : absorbsEq p.tok = true → l.head? ≠ some .eq)
    (hId : ∀ w, p.tok = .identifier w → ∀ a b, l.head? = some a → l.tail.head? = some b →
      isPlusOrMinus a = true → F64.parse (w ++ a.display ++ b.display) = none) :
    partialTokensToTokens (ptokPartials p ++ l) = (partialTokensToTokens l).map (p.tok :: ·) := by
  obtain ⟨tok, text⟩ := p
  cases tok <;> simp only [PTok.Printable, fixedText, Option.some.injEq] at hp <;>
    simp only [absorbsEq, Bool.false_eq_true, false_imp_iff, forall_const] at hEq <;>
    simp only [ptokPartials]
  case identifier w =>
    obtain ⟨rfl, -, hw⟩ := hp
    exact pttt_single _ _ _ (tokenStep_ident _ _ _ hw (hId _ rfl))
  case int i => exact pttt_single _ _ _ (tokenStep_word _ _ _ _ hp.2)
  case float f => exact pttt_single _ _ _ (tokenStep_word _ _ _ _ hp.2)
  case boolean b => exact pttt_single _ _ _ (tokenStep_word _ _ _ _ hp.2)
  case string s => exact pttt_single _ _ _ (by simp only [tokenStep])
  case lBrace => exact pttt_single _ _ _ (by simp only [tokenStep])
  case rBrace => exact pttt_single _ _ _ (by simp only [tokenStep])
  case comma => exact pttt_single _ _ _ (by simp only [tokenStep])
  case semicolon => exact pttt_single _ _ _ (by simp only [tokenStep])
  case plus => exact pttt_single _ _ _ (tokenStep_plus _ _ hEq)
  case minus => exact pttt_single _ _ _ (tokenStep_minus _ _ hEq)
  case star => exact pttt_single _ _ _ (tokenStep_star _ _ hEq)
  case slash => exact pttt_single _ _ _ (tokenStep_slash _ _ hEq)
  case percent => exact pttt_single _ _ _ (tokenStep_percent _ _ hEq)
  case hat => exact pttt_single _ _ _ (tokenStep_hat _ _ hEq)
  case assign => exact pttt_single _ _ _ (tokenStep_eq _ _ hEq)
  case not => exact pttt_single _ _ _ (tokenStep_excl _ _ hEq)
  case gt => exact pttt_single _ _ _ (tokenStep_gt _ _ hEq)
  case lt => exact pttt_single _ _ _ (tokenStep_lt _ _ hEq)
  case and => exact pttt_double _ _ _ _ (tokenStep_and _ hEq)
  case or => exact pttt_double _ _ _ _ (tokenStep_or _ hEq)
  case eq => exact pttt_double _ _ _ _ (by simp only [tokenStep])
  case neq => exact pttt_double _ _ _ _ (by simp only [tokenStep])
  case geq => exact pttt_double _ _ _ _ (by simp only [tokenStep])
  case leq => exact pttt_double _ _ _ _ (by simp only [tokenStep])
  case plusAssign => exact pttt_double _ _ _ _ (by simp only [tokenStep])
  case minusAssign => exact pttt_double _ _ _ _ (by simp only [tokenStep])
  case starAssign => exact pttt_double _ _ _ _ (by simp only [tokenStep])
  case slashAssign => exact pttt_double _ _ _ _ (by simp only [tokenStep])
  case percentAssign => exact pttt_double _ _ _ _ (by simp only [tokenStep])
  case hatAssign => exact pttt_double _ _ _ _ (by simp only [tokenStep])
  case andAssign => exact pttt_triple _ _ _ _ _ (by simp only [tokenStep])
  case orAssign => exact pttt_triple _ _ _ _ _ (by simp only [tokenStep])

end Evalexpr.Spec
