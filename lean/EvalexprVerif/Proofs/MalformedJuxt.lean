/-
Proofs/MalformedJuxt.lean — C13 (iii): two juxtaposed operands are rejected by the tree builder.
-/
import EvalexprVerif.Spec.WellFormed

namespace Evalexpr.Spec
open Evalexpr

def prevRS : Option Token → Bool
  | none => false
  | some p => p.isRightsidedValue

def prevId : Option Token → Bool
  | none => false
  | some p => p.isIdentifier

theorem juxtaposedAt_eq (prev : Option Token) (t : Token) :
    juxtaposedAt prev t = juxtaposed (prevRS prev) (prevId prev) t := by
  cases prev <;> simp [juxtaposedAt, juxtaposed, prevRS, prevId]

theorem treeLoop_juxtaposed (ts : List Token) :
    ∀ (prev : Option Token) (stack : List Node), juxtaposedIn prev ts = true →
      ∃ e, treeLoop ts stack (prevRS prev) (prevId prev) = .error e := by
  induction ts with
  | nil => intro prev stack h; simp [juxtaposedIn] at h
  | cons t rest ih =>
    intro prev stack h
    simp only [juxtaposedIn, Bool.or_eq_true] at h
    cases hj : juxtaposed (prevRS prev) (prevId prev) t with
    | true =>
      exact ⟨if t.isLBrace then .missingOperatorOutsideOfBrace else .appendedToLeafNode,
        by simp only [treeLoop, treeStep, hj, if_true]⟩
    | false =>
      have h2 : juxtaposedIn (some t) rest = true := by
        rcases h with h | h
        · rw [juxtaposedAt_eq, hj] at h; cases h
        · exact h
      simp only [treeLoop]
      cases hs : treeStep stack (prevRS prev) (prevId prev) t rest.head? with
      | error e => exact ⟨e, rfl⟩
      | ok stack' => exact ih (some t) stack' h2

/-- (iii) two juxtaposed operands are rejected when the tree is built -/
theorem C13_juxtaposed (ts : List Token) (h : juxtaposedIn none ts = true) :
    ∃ e, tokensToOperatorTree ts = .error e := by
  obtain ⟨e, he⟩ := treeLoop_juxtaposed ts none [Node.rootNode] h
  refine ⟨e, ?_⟩
  simp only [prevRS, prevId] at he
  simp only [tokensToOperatorTree, he]

end Evalexpr.Spec
