/-
Proofs/NoPanicDepth.lean — the depth of the operator tree is bounded by the number of tokens:
every token adds at most one level to the tree, a separator (`,` `;`) at most two (the sequence
node and the parenthesis node around its items), a closing parenthesis none.
The potential is the sum over the levels of the root stack of the depth of the folded level.
-/
import EvalexprVerif.Proofs.NoPanicTree

namespace Evalexpr.Spec
open Evalexpr

mutual
def Node.depth : Node → Nat
  | ⟨_, cs⟩ => 1 + Node.depthList cs
def Node.depthList : List Node → Nat
  | [] => 0
  | c :: cs => max (Node.depth c) (Node.depthList cs)
end

theorem depth_mk (op : Operator) (cs : List Node) :
    Node.depth ⟨op, cs⟩ = 1 + Node.depthList cs := by rw [Node.depth]

theorem depth_eq (n : Node) : Node.depth n = 1 + Node.depthList n.children := by
  cases n; rw [depth_mk]

@[simp] theorem depthList_nil : Node.depthList [] = 0 := by rw [Node.depthList]
@[simp] theorem depthList_cons (c : Node) (cs : List Node) :
    Node.depthList (c :: cs) = max (Node.depth c) (Node.depthList cs) := by rw [Node.depthList]

@[simp] theorem depthList_append (a b : List Node) :
    Node.depthList (a ++ b) = max (Node.depthList a) (Node.depthList b) := by
  induction a with
  | nil => simp
  | cons x a ih => simp only [List.cons_append, depthList_cons, ih]; omega

theorem depth_pos (n : Node) : 1 ≤ Node.depth n := by rw [depth_eq]; omega

theorem depth_fresh {n : Node} (h : n.children = []) : Node.depth n = 1 := by
  rw [depth_eq, h]; simp

/-! ### an insertion adds at most the depth of the inserted node -/

theorem insert_depth :
    (∀ (n node : Node) (b : Bool), ∀ n', n.insertBackPrioritized node b = .ok n' →
      Node.depth n' ≤ Node.depth n + Node.depth node) ∧
    (∀ (op : Operator) (pre cs : List Node) (node : Node), ∀ n',
      insertAtLast op pre cs node = .ok n' →
      Node.depth n' ≤ 1 + max (Node.depthList pre) (Node.depthList cs) + Node.depth node) := by
  apply Node.insertBackPrioritized.mutual_induct
  case case1 => intro op cs node b h1 h2 n' h; simp [Node.insertBackPrioritized, h1, h2] at h
  case case2 =>
    intro op cs node b h1 h2 h3 ih n' h
    simp only [Node.insertBackPrioritized, h1, h2, h3, if_true] at h
    have := ih n' (by simpa using h)
    rw [depth_mk]
    simp only [depthList_nil] at this
    omega
  case case3 =>
    intro op cs node b h1 h2 h3 n' h
    simp [Node.insertBackPrioritized, h1, h2, h3] at h
    subst h
    rw [depth_mk, depth_mk, depthList_append]
    simp only [depthList_cons, depthList_nil]
    omega
  case case4 => intro op cs node b h1 n' h; simp [Node.insertBackPrioritized, h1] at h
  case case5 => intro op pre x n' h; simp [insertAtLast] at h
  case case6 =>
    intro op pre c node h1 c' h2 ih n' h
    simp [insertAtLast, h1, h2] at h
    subst h
    have := ih c' h2
    rw [depth_mk, depthList_append]
    simp only [depthList_cons, depthList_nil]
    omega
  case case7 => intro op pre c node h1 e' h2 _ n' h; simp [insertAtLast, h1, h2] at h
  case case13 =>
    intro op pre c node h1 h2 h3 h4 h5 h6 n' h
    simp [insertAtLast, h1, h2, h3, h4, h5, h6] at h
    subst h
    rw [depth_mk, depthList_append]
    simp only [depthList_cons, depthList_nil, depth_mk, depthList_append]
    rw [depth_eq node]
    omega
  case case14 =>
    intro op pre c c2 cs node ih n' h
    rw [insertAtLast] at h
    have := ih n' h
    simp only [depthList_append, depthList_cons, depthList_nil] at this ⊢
    omega
  all_goals
    intro op pre c node
    intros
    rename_i n' h
    simp [insertAtLast, *] at h

theorem insertBack_depth (n node n' : Node) (b : Bool)
    (h : n.insertBackPrioritized node b = .ok n') :
    Node.depth n' ≤ Node.depth n + Node.depth node := insert_depth.1 n node b n' h

/-! ### the depth of a folded level -/

def Lvl.cdepth (L : Lvl) : Nat := Node.depth L.collapse

def U : List Lvl → Nat
  | [] => 0
  | L :: ls => L.cdepth + U ls

theorem setLast_depth {X I x : Node} {d : Nat} (hl : X.children.getLast? = some I)
    (hx : Node.depth x ≤ Node.depth I + d) : Node.depth (setLast X x) ≤ Node.depth X + d := by
  have hd := dropLast_getLast _ I hl
  rw [depth_eq X, ← hd, setLast, depth_mk]
  simp only [depthList_append, depthList_cons, depthList_nil]
  omega

theorem withItem_cdepth {L : Lvl} {I x : Node} {d : Nat} (hi : L.item = some I)
    (hx : Node.depth x ≤ Node.depth I + d) : (L.withItem x).cdepth ≤ L.cdepth + d := by
  cases L with
  | r R =>
    simp only [Lvl.item, Option.some.injEq] at hi
    subst hi
    exact hx
  | t T P =>
    have := setLast_depth (X := T) hi hx
    simp only [Lvl.cdepth, Lvl.withItem, Lvl.collapse, depth_mk, depthList_append, depthList_cons,
      depthList_nil]
    omega
  | c C P =>
    have := setLast_depth (X := C) hi hx
    simp only [Lvl.cdepth, Lvl.withItem, Lvl.collapse, depth_mk, depthList_append, depthList_cons,
      depthList_nil]
    omega
  | tc T C P =>
    have := setLast_depth (X := T) hi hx
    simp only [Lvl.cdepth, Lvl.withItem, Lvl.collapse, depth_mk, depthList_append, depthList_cons,
      depthList_nil]
    omega

theorem rootNode_depth : Node.depth Node.rootNode = 1 := depth_fresh rfl

theorem pushSeqLvl_cdepth (L : Lvl) (hn : L.NE) (node : Node) (hc : node.children = [])
    (tup : Bool) : (pushSeqLvl L node tup).cdepth ≤ L.cdepth + 2 := by
  cases tup with
  | true =>
    cases L with
    | r R =>
      have := depth_pos R
      simp only [pushSeqLvl, if_true, Lvl.cdepth, Lvl.collapse, hc, Node.rootNode, depth_mk,
        depthList_cons, depthList_nil, List.nil_append]
      omega
    | t T P =>
      simp only [pushSeqLvl, if_true, Lvl.cdepth, Lvl.collapse, Node.rootNode, depth_mk,
        depthList_append, depthList_cons, depthList_nil, depth_eq T]
      omega
    | c C P =>
      obtain ⟨last, hl⟩ := getLast?_of_ne (show C.children ≠ [] from hn)
      have hd := dropLast_getLast _ last hl
      have hp := depth_pos last
      have hC : Node.depthList C.children =
          max (Node.depthList C.children.dropLast) (Node.depth last) := by
        conv => lhs; rw [← hd]
        simp
      simp only [pushSeqLvl, if_true, hl, Lvl.cdepth, Lvl.collapse, hc, Node.rootNode, depth_mk,
        depthList_append, depthList_cons, depthList_nil, List.nil_append, depth_eq C, hC]
      omega
    | tc T C P =>
      simp only [pushSeqLvl, if_true, Lvl.cdepth, Lvl.collapse, Node.rootNode, depth_mk,
        depthList_append, depthList_cons, depthList_nil, depth_eq T]
      omega
  | false =>
    cases L with
    | r R =>
      have := depth_pos R
      simp only [pushSeqLvl, Bool.false_eq_true, if_false, Lvl.cdepth, Lvl.collapse, hc,
        Node.rootNode, depth_mk, depthList_cons, depthList_nil, List.nil_append]
      omega
    | t T P =>
      have := depth_pos T
      simp only [pushSeqLvl, Bool.false_eq_true, if_false, Lvl.cdepth, Lvl.collapse, hc,
        Node.rootNode, depth_mk, depthList_append, depthList_cons, depthList_nil, List.nil_append]
      omega
    | c C P =>
      simp only [pushSeqLvl, Bool.false_eq_true, if_false, Lvl.cdepth, Lvl.collapse,
        Node.rootNode, depth_mk, depthList_append, depthList_cons, depthList_nil, depth_eq C]
      omega
    | tc T C P =>
      have := depth_pos T
      simp only [pushSeqLvl, Bool.false_eq_true, if_false, Lvl.cdepth, Lvl.collapse,
        Node.rootNode, depth_mk, depthList_append, depthList_cons, depthList_nil]
      omega

/-! ### the potential along the token loop -/

theorem step_U {lv lv' : List Lvl} {k : Nat} (h : LvStep lv k lv') : U lv' ≤ U lv + k := by
  cases h with
  | opened =>
    simp only [U, Lvl.cdepth, Lvl.collapse, rootNode_depth]; omega
  | node L ls I node x hi hc hx =>
    have h1 := insertBack_depth _ _ _ _ hx
    rw [depth_fresh hc] at h1
    have := withItem_cdepth hi h1
    simp only [U]; omega
  | sep L ls node tup hw hn hc =>
    have := pushSeqLvl_cdepth L hn node hc tup
    simp only [U]; omega
  | closed L L2 ls I x hi hx =>
    have h1 := insertBack_depth _ _ _ _ hx
    have := withItem_cdepth hi h1
    simp only [U, Lvl.cdepth] at this ⊢; omega

theorem steps_U {lv lv' : List Lvl} {n : Nat} (h : LvSteps lv n lv') : U lv' ≤ U lv + n := by
  induction h with
  | refl => omega
  | step h1 _ ih => have := step_U h1; omega

theorem flat_nil {lv : List Lvl} (h : flat lv = []) : lv = [] := by
  have := flat_length_ge lv
  rw [h] at this
  cases lv with
  | nil => rfl
  | cons _ _ => simp at this

/-- the depth of the tree is at most one plus the cost of the tokens -/
theorem depth_le_cost (ts : List Token) (t : Node) (h : tokensToOperatorTree ts = .ok t) :
    Node.depth t ≤ tokCosts ts + 1 := by
  unfold tokensToOperatorTree at h
  have hl := loop_fine ts [.r Node.rootNode] false false initial_good
  have hf : flat [.r Node.rootNode] = [Node.rootNode] := rfl
  rw [hf] at hl
  cases hloop : treeLoop ts [Node.rootNode] false false with
  | error e => rw [hloop] at h; cases h
  | ok st =>
    rw [hloop] at hl h
    obtain ⟨lv', rfl, hg, hsteps⟩ := hl
    simp only at h
    cases lv' with
    | nil => simp [flat, collapseAllSequences] at h
    | cons L ls =>
      simp only [flat] at h
      rw [collapse_explicit hg.head.1] at h
      by_cases htm : L.collapse.hasTooManyChildren = true
      · simp [htm] at h
      · simp only [htm, Bool.false_eq_true, if_false] at h
        cases hfl : flat ls with
        | cons a as => rw [hfl] at h; simp at h
        | nil =>
          rw [hfl] at h
          simp at h
          subst h
          have := flat_nil hfl
          subst this
          have hu := steps_U hsteps
          have h0 : (Lvl.r Node.rootNode).cdepth = 1 := rootNode_depth
          simp only [U, h0] at hu
          simp only [Lvl.cdepth] at hu
          omega

/-- `,` and `;` -/
theorem tokCosts_le (ts : List Token) : tokCosts ts ≤ ts.length + ts.countP isSepTok := by
  induction ts with
  | nil => simp [tokCosts]
  | cons t ts ih =>
    simp only [tokCosts, List.length_cons, List.countP_cons]
    have : tokCost t ≤ 1 + (if isSepTok t = true then 1 else 0) := by
      cases t <;> simp [tokCost, isSepTok]
    omega

end Evalexpr.Spec
