/- Proofs/AgreePanic.lean — extracted tables equal the expected ones (see Spec/Tables.lean). -/
import EvalexprVerif.Generated.PanicSites
import EvalexprVerif.Spec.Tables

namespace Evalexpr.Agree
open Evalexpr.Spec

theorem panicSites_agree : Generated.panicSites = Tables.panicSites := by decide +kernel

end Evalexpr.Agree
