/-
Proofs/EvalOrder.lean — properties C08 (strict left-to-right evaluation, first error wins),
C11 (read-only evaluation), C15 (schedule independence), C13 (deficient trees never evaluate),
C05 (values of sequences) of the evaluator model.
-/
import EvalexprVerif.Spec.BigStep
import EvalexprVerif.Spec.WellFormed
import EvalexprVerif.Proofs.EvalOps

namespace Evalexpr.Spec
open Evalexpr

/-! ### unfolding lemmas for the four mutually recursive evaluators -/

theorem evalMut_mk (op : Operator) (cs : List Node) (s : St) :
    (Node.mk op cs).evalMut s =
      match evalMutList cs s with
      | (.error e, s) => (.error e, s)
      | (.ok args, s) => op.evalMut args s := by
  rw [Node.evalMut]; rfl

theorem evalMutList_nil (s : St) : evalMutList [] s = (.ok [], s) := by
  rw [evalMutList]

theorem evalMutList_cons (c : Node) (cs : List Node) (s : St) :
    evalMutList (c :: cs) s =
      match Node.evalMut c s with
      | (.error e, s) => (.error e, s)
      | (.ok v, s) =>
        match evalMutList cs s with
        | (.error e, s) => (.error e, s)
        | (.ok vs, s) => (.ok (v :: vs), s) := by
  rw [evalMutList]; rfl

theorem evalRO_mk (op : Operator) (cs : List Node) (s : St) :
    (Node.mk op cs).evalRO s =
      match evalROList cs s with
      | (.error e, s) => (.error e, s)
      | (.ok args, s) => op.eval args s := by
  rw [Node.evalRO]; rfl

theorem evalROList_nil (s : St) : evalROList [] s = (.ok [], s) := by
  rw [evalROList]

theorem evalROList_cons (c : Node) (cs : List Node) (s : St) :
    evalROList (c :: cs) s =
      match Node.evalRO c s with
      | (.error e, s) => (.error e, s)
      | (.ok v, s) =>
        match evalROList cs s with
        | (.error e, s) => (.error e, s)
        | (.ok vs, s) => (.ok (v :: vs), s) := by
  rw [evalROList]; rfl

/-! ### C08 — strict left-to-right evaluation; the first error wins -/

mutual
theorem C08_sound (n : Node) (s : St) : Eval n s (n.evalMut s).1 (n.evalMut s).2 :=
  match n with
  | ⟨op, cs⟩ => by
    have ih := C08_soundList cs s
    rw [evalMut_mk]
    rcases h : evalMutList cs s with ⟨r, s'⟩
    rw [h] at ih
    cases r with
    | error e => exact Eval.childError op cs s s' e ih
    | ok args => exact Eval.apply op cs s s' args ih
theorem C08_soundList (cs : List Node) (s : St) :
    EvalList cs s (evalMutList cs s).1 (evalMutList cs s).2 :=
  match cs with
  | [] => by rw [evalMutList_nil]; exact EvalList.nil s
  | c :: cs => by
    have ih := C08_sound c s
    rw [evalMutList_cons]
    rcases h : Node.evalMut c s with ⟨r, s₁⟩
    rw [h] at ih
    cases r with
    | error e => exact EvalList.consError c cs s s₁ e ih
    | ok v =>
      have ih2 := C08_soundList cs s₁
      rcases h2 : evalMutList cs s₁ with ⟨r2, s₂⟩
      rw [h2] at ih2
      simp only [h2]
      cases r2 with
      | error e => exact EvalList.consOkError c cs s s₁ s₂ v e ih ih2
      | ok vs => exact EvalList.consOk c cs s s₁ s₂ v vs ih ih2
end

mutual
theorem C08_complete (n : Node) (s s' : St) (r : Res Value) (h : Eval n s r s') :
    n.evalMut s = (r, s') :=
  match n, h with
  | ⟨op, cs⟩, h => by
    rw [evalMut_mk]
    cases h with
    | apply _ _ _ s₁ args hl => rw [C08_completeList cs s s₁ _ hl]
    | childError _ _ _ _ e hl => rw [C08_completeList cs s s' _ hl]
theorem C08_completeList (cs : List Node) (s s' : St) (r : Res (List Value))
    (h : EvalList cs s r s') : evalMutList cs s = (r, s') :=
  match cs, h with
  | [], h => by
    cases h; rw [evalMutList_nil]
  | c :: cs, h => by
    rw [evalMutList_cons]
    cases h with
    | consError _ _ _ _ e hc => rw [C08_complete c s s' _ hc]
    | consOk _ _ _ s₁ _ v vs hc hl =>
      rw [C08_complete c s s₁ _ hc]; simp only; rw [C08_completeList cs s₁ s' _ hl]
    | consOkError _ _ _ s₁ _ v e hc hl =>
      rw [C08_complete c s s₁ _ hc]; simp only; rw [C08_completeList cs s₁ s' _ hl]
end

theorem C08_adequate (n : Node) (s s' : St) (r : Res Value) :
    Eval n s r s' ↔ n.evalMut s = (r, s') := by
  constructor
  · exact C08_complete n s s' r
  · intro h
    have := C08_sound n s
    rw [h] at this
    exact this

theorem C08_deterministic (n : Node) (s s₁ s₂ : St) (r₁ r₂ : Res Value)
    (h₁ : Eval n s r₁ s₁) (h₂ : Eval n s r₂ s₂) : r₁ = r₂ ∧ s₁ = s₂ := by
  have e₁ := C08_complete n s s₁ r₁ h₁
  have e₂ := C08_complete n s s₂ r₂ h₂
  rw [e₁] at e₂
  exact ⟨congrArg Prod.fst e₂, congrArg Prod.snd e₂⟩

/-- the loop over `pre ++ k :: post` stops at `k` -/
theorem evalMutList_first_error (pre post : List Node) (k : Node) (s s₁ s₂ : St)
    (vs : List Value) (e : Err)
    (hpre : evalMutList pre s = (.ok vs, s₁)) (hk : k.evalMut s₁ = (.error e, s₂)) :
    evalMutList (pre ++ k :: post) s = (.error e, s₂) := by
  induction pre generalizing s vs with
  | nil =>
    rw [evalMutList_nil] at hpre
    have hs : s = s₁ := congrArg Prod.snd hpre
    subst hs
    rw [List.nil_append, evalMutList_cons, hk]
  | cons c pre ih =>
    rw [evalMutList_cons] at hpre
    rw [List.cons_append, evalMutList_cons]
    rcases hc : c.evalMut s with ⟨r, t⟩
    rw [hc] at hpre
    cases r with
    | error e' => simp at hpre
    | ok v =>
      simp only at hpre ⊢
      rcases hl : evalMutList pre t with ⟨rl, t'⟩
      rw [hl] at hpre
      cases rl with
      | error e' => simp at hpre
      | ok vs' =>
        simp only [Prod.mk.injEq] at hpre
        have ht : t' = s₁ := hpre.2
        subst ht
        rw [ih t vs' hl]

/-- children before the failing one take effect, the failing one's effects up to the failure
persist, nothing after it is evaluated: the outcome does not depend on `post` at all -/
theorem C08_first_error (op : Operator) (pre post : List Node) (k : Node) (s s₁ s₂ : St)
    (vs : List Value) (e : Err)
    (hpre : evalMutList pre s = (.ok vs, s₁)) (hk : k.evalMut s₁ = (.error e, s₂)) :
    (Node.mk op (pre ++ k :: post)).evalMut s = (.error e, s₂) := by
  rw [evalMut_mk, evalMutList_first_error pre post k s s₁ s₂ vs e hpre hk]

/-- all operands are evaluated before the operator is applied, whatever their values
(no short-circuit) -/
theorem C08_all_operands (op : Operator) (cs : List Node) (s s' : St) (vs : List Value)
    (h : evalMutList cs s = (.ok vs, s')) : (Node.mk op cs).evalMut s = op.evalMut vs s' := by
  rw [evalMut_mk, h]

/-! ### generic state invariants of the two evaluators -/

mutual
/-- a reflexive, transitive relation that every operator application respects is respected by
the mutable evaluation of a tree -/
theorem evalMut_rel (R : St → St → Prop) (hrefl : ∀ s, R s s)
    (htrans : ∀ a b c, R a b → R b c → R a c)
    (hop : ∀ (op : Operator) (args : List Value) (s : St), R s (op.evalMut args s).2)
    (n : Node) (s : St) : R s (n.evalMut s).2 :=
  match n with
  | ⟨op, cs⟩ => by
    have ih := evalMutList_rel R hrefl htrans hop cs s
    rw [evalMut_mk]
    rcases h : evalMutList cs s with ⟨r, s'⟩
    rw [h] at ih
    cases r with
    | error e => exact ih
    | ok args => exact htrans _ _ _ ih (hop op args s')
theorem evalMutList_rel (R : St → St → Prop) (hrefl : ∀ s, R s s)
    (htrans : ∀ a b c, R a b → R b c → R a c)
    (hop : ∀ (op : Operator) (args : List Value) (s : St), R s (op.evalMut args s).2)
    (cs : List Node) (s : St) : R s (evalMutList cs s).2 :=
  match cs with
  | [] => by rw [evalMutList_nil]; exact hrefl s
  | c :: cs => by
    have ih := evalMut_rel R hrefl htrans hop c s
    rw [evalMutList_cons]
    rcases h : Node.evalMut c s with ⟨r, s₁⟩
    rw [h] at ih
    cases r with
    | error e => exact ih
    | ok v =>
      have ih2 := evalMutList_rel R hrefl htrans hop cs s₁
      rcases h2 : evalMutList cs s₁ with ⟨r2, s₂⟩
      rw [h2] at ih2
      simp only [h2]
      cases r2 with
      | error e => exact htrans _ _ _ ih ih2
      | ok vs => exact htrans _ _ _ ih ih2
end

mutual
theorem evalRO_rel (R : St → St → Prop) (hrefl : ∀ s, R s s)
    (htrans : ∀ a b c, R a b → R b c → R a c)
    (hop : ∀ (op : Operator) (args : List Value) (s : St), R s (op.eval args s).2)
    (n : Node) (s : St) : R s (n.evalRO s).2 :=
  match n with
  | ⟨op, cs⟩ => by
    have ih := evalROList_rel R hrefl htrans hop cs s
    rw [evalRO_mk]
    rcases h : evalROList cs s with ⟨r, s'⟩
    rw [h] at ih
    cases r with
    | error e => exact ih
    | ok args => exact htrans _ _ _ ih (hop op args s')
theorem evalROList_rel (R : St → St → Prop) (hrefl : ∀ s, R s s)
    (htrans : ∀ a b c, R a b → R b c → R a c)
    (hop : ∀ (op : Operator) (args : List Value) (s : St), R s (op.eval args s).2)
    (cs : List Node) (s : St) : R s (evalROList cs s).2 :=
  match cs with
  | [] => by rw [evalROList_nil]; exact hrefl s
  | c :: cs => by
    have ih := evalRO_rel R hrefl htrans hop c s
    rw [evalROList_cons]
    rcases h : Node.evalRO c s with ⟨r, s₁⟩
    rw [h] at ih
    cases r with
    | error e => exact ih
    | ok v =>
      have ih2 := evalROList_rel R hrefl htrans hop cs s₁
      rcases h2 : evalROList cs s₁ with ⟨r2, s₂⟩
      rw [h2] at ih2
      simp only [h2]
      cases r2 with
      | error e => exact htrans _ _ _ ih ih2
      | ok vs => exact htrans _ _ _ ih ih2
end

theorem evalMut_op_log (op : Operator) (args : List Value) (s : St) :
    ∃ l, (op.evalMut args s).2.log = s.log ++ l := by
  cases hk : Operator.isAssignKind op with
  | false => rw [evalMut_of_not_assign op args s hk]; exact eval_log op args s
  | true =>
    rcases evalMut_assign_shape op args s hk with ⟨e, h⟩ | ⟨id, v, c, _, h⟩ <;>
      exact ⟨[], by rw [h]; simp⟩

/-- the call log only grows, the context part of the state is what assignments made it -/
theorem C08_log_grows (n : Node) (s : St) : ∃ l, (n.evalMut s).2.log = s.log ++ l :=
  evalMut_rel (fun s s' => ∃ l, s'.log = s.log ++ l) (fun s => ⟨[], by simp⟩)
    (fun a b c ⟨l₁, h₁⟩ ⟨l₂, h₂⟩ => ⟨l₁ ++ l₂, by rw [h₂, h₁, List.append_assoc]⟩)
    evalMut_op_log n s

/-- concrete no-short-circuit witness: `false && f(1)` still calls `f` -/
theorem C08_no_short_circuit_example :
    let ctx : Ctx := .hashMap { funs := [(['f'], fun v => .ok v)] }
    let tree : Node :=
      ⟨.and, [⟨.const (.boolean false), []⟩, ⟨.fn ['f'], [⟨.const (.int 1), []⟩]⟩]⟩
    (tree.evalMut ⟨ctx, []⟩).2.log = [(['f'], .int 1)] := by
  rfl

/-! ### C11 — read-only evaluation equals mutable evaluation and never mutates -/

theorem C11_readonly (n : Node) (s : St) : (n.evalRO s).2.ctx = s.ctx :=
  evalRO_rel (fun s s' => s'.ctx = s.ctx) (fun _ => rfl)
    (fun _ _ _ h₁ h₂ => h₂.trans h₁) eval_ctx n s

theorem noAssign_mk (op : Operator) (cs : List Node) :
    noAssign ⟨op, cs⟩ = (!Operator.isAssignKind op && noAssignList cs) := by
  rw [noAssign]

theorem noAssignList_cons (c : Node) (cs : List Node) :
    noAssignList (c :: cs) = (noAssign c && noAssignList cs) := by
  rw [noAssignList]

mutual
theorem C11_agree (n : Node) (s : St) (h : noAssign n = true) : n.evalRO s = n.evalMut s :=
  match n, h with
  | ⟨op, cs⟩, h => by
    rw [noAssign_mk] at h
    simp only [Bool.and_eq_true, Bool.not_eq_true'] at h
    rw [evalRO_mk, evalMut_mk, C11_agreeList cs s h.2]
    rcases evalMutList cs s with ⟨r, s'⟩
    cases r with
    | error e => rfl
    | ok args => simp only; rw [evalMut_of_not_assign op args s' h.1]
theorem C11_agreeList (cs : List Node) (s : St) (h : noAssignList cs = true) :
    evalROList cs s = evalMutList cs s :=
  match cs, h with
  | [], _ => by rw [evalROList_nil, evalMutList_nil]
  | c :: cs, h => by
    rw [noAssignList_cons] at h
    simp only [Bool.and_eq_true] at h
    rw [evalROList_cons, evalMutList_cons, C11_agree c s h.1]
    rcases Node.evalMut c s with ⟨r, s₁⟩
    cases r with
    | error e => rfl
    | ok v => simp only; rw [C11_agreeList cs s₁ h.2]
end

theorem C11_noassign_ctx (n : Node) (s : St) (h : noAssign n = true) :
    (n.evalMut s).2.ctx = s.ctx := by
  rw [← C11_agree n s h]; exact C11_readonly n s

/-- the projection of property C11 on child lists -/
def projectStopList : Stop (List Value) × St → Res (List Value) × St
  | (.finished r, s) => (r, s)
  | (.reachedAssign, s) => (.error .contextNotMutable, s)

theorem evalStop_mk (op : Operator) (cs : List Node) (s : St) :
    evalStop ⟨op, cs⟩ s =
      match evalStopList cs s with
      | (.reachedAssign, s) => (.reachedAssign, s)
      | (.finished (.error e), s) => (.finished (.error e), s)
      | (.finished (.ok args), s) =>
        if Operator.isAssignKind op then (.reachedAssign, s)
        else ((.finished (op.evalMut args s).1), (op.evalMut args s).2) := by
  rw [evalStop]; rfl

theorem evalStopList_nil (s : St) : evalStopList [] s = (.finished (.ok []), s) := by
  rw [evalStopList]

theorem evalStopList_cons (c : Node) (cs : List Node) (s : St) :
    evalStopList (c :: cs) s =
      match evalStop c s with
      | (.reachedAssign, s) => (.reachedAssign, s)
      | (.finished (.error e), s) => (.finished (.error e), s)
      | (.finished (.ok v), s) =>
        match evalStopList cs s with
        | (.reachedAssign, s) => (.reachedAssign, s)
        | (.finished (.error e), s) => (.finished (.error e), s)
        | (.finished (.ok vs), s) => (.finished (.ok (v :: vs)), s) := by
  rw [evalStopList]; rfl

mutual
theorem C11_project (n : Node) (s : St) : n.evalRO s = projectStop (evalStop n s) :=
  match n with
  | ⟨op, cs⟩ => by
    rw [evalRO_mk, evalStop_mk, C11_projectList cs s]
    rcases evalStopList cs s with ⟨st, s'⟩
    cases st with
    | reachedAssign => rfl
    | finished r =>
      cases r with
      | error e => rfl
      | ok args =>
        simp only [projectStopList]
        cases hk : Operator.isAssignKind op with
        | true => simp only [if_true]; rw [eval_of_assign op args s' hk]; rfl
        | false =>
          simp only [Bool.false_eq_true, if_false, projectStop]
          rw [evalMut_of_not_assign op args s' hk]
theorem C11_projectList (cs : List Node) (s : St) :
    evalROList cs s = projectStopList (evalStopList cs s) :=
  match cs with
  | [] => by rw [evalROList_nil, evalStopList_nil]; rfl
  | c :: cs => by
    rw [evalROList_cons, evalStopList_cons, C11_project c s]
    rcases evalStop c s with ⟨st, s₁⟩
    cases st with
    | reachedAssign => rfl
    | finished r =>
      cases r with
      | error e => rfl
      | ok v =>
        simp only [projectStop]
        rw [C11_projectList cs s₁]
        rcases evalStopList cs s₁ with ⟨st2, s₂⟩
        cases st2 with
        | reachedAssign => rfl
        | finished r2 => cases r2 <;> rfl
end

mutual
theorem C11_stop_finished (n : Node) (s s' : St) (r : Res Value)
    (h : evalStop n s = (.finished r, s')) : n.evalMut s = (r, s') :=
  match n, h with
  | ⟨op, cs⟩, h => by
    rw [evalStop_mk] at h
    rw [evalMut_mk]
    rcases hl : evalStopList cs s with ⟨st, s₁⟩
    rw [hl] at h
    cases st with
    | reachedAssign => simp at h
    | finished r0 =>
      rw [C11_stop_finishedList cs s s₁ r0 hl]
      cases r0 with
      | error e =>
        simp only [Prod.mk.injEq, Stop.finished.injEq] at h
        rw [← h.1, ← h.2]
      | ok args =>
        simp only at h ⊢
        cases hk : Operator.isAssignKind op with
        | true => rw [hk] at h; simp at h
        | false =>
          rw [hk] at h
          simp only [Bool.false_eq_true, if_false, Prod.mk.injEq, Stop.finished.injEq] at h
          exact Prod.ext h.1 h.2
theorem C11_stop_finishedList (cs : List Node) (s s' : St) (r : Res (List Value))
    (h : evalStopList cs s = (.finished r, s')) : evalMutList cs s = (r, s') :=
  match cs, h with
  | [], h => by
    rw [evalStopList_nil] at h
    simp only [Prod.mk.injEq, Stop.finished.injEq] at h
    rw [evalMutList_nil, ← h.1, ← h.2]
  | c :: cs, h => by
    rw [evalStopList_cons] at h
    rw [evalMutList_cons]
    rcases hc : evalStop c s with ⟨st, s₁⟩
    rw [hc] at h
    cases st with
    | reachedAssign => simp at h
    | finished r0 =>
      rw [C11_stop_finished c s s₁ r0 hc]
      cases r0 with
      | error e =>
        simp only [Prod.mk.injEq, Stop.finished.injEq] at h
        rw [← h.1, ← h.2]
      | ok v =>
        simp only at h ⊢
        rcases hl : evalStopList cs s₁ with ⟨st2, s₂⟩
        rw [hl] at h
        cases st2 with
        | reachedAssign => simp at h
        | finished r2 =>
          rw [C11_stop_finishedList cs s₁ s₂ r2 hl]
          cases r2 with
          | error e =>
            simp only [Prod.mk.injEq, Stop.finished.injEq] at h
            rw [← h.1, ← h.2]
          | ok vs =>
            simp only [Prod.mk.injEq, Stop.finished.injEq] at h
            rw [← h.1, ← h.2]
end

theorem noStorage_setValue (h : HashMapCtx) (id : Str) (v : Value) :
    Ctx.setValue (.noStorage h) id v = .error .contextNotMutable := rfl

theorem evalMut_op_nostorage (op : Operator) (args : List Value) (s : St) (h : HashMapCtx)
    (hs : s.ctx = .noStorage h) : (op.evalMut args s).2.ctx = s.ctx := by
  cases hk : Operator.isAssignKind op with
  | false => rw [evalMut_of_not_assign op args s hk]; exact eval_ctx op args s
  | true =>
    rcases evalMut_assign_shape op args s hk with ⟨e, h'⟩ | ⟨id, v, c, hc, _⟩
    · rw [h']
    · rw [hs, noStorage_setValue] at hc; cases hc

/-- a context without variable storage rejects every assignment and is never changed -/
theorem C11_nostorage_ctx (n : Node) (s : St) (h : HashMapCtx) (hs : s.ctx = .noStorage h) :
    (n.evalMut s).2.ctx = s.ctx :=
  evalMut_rel (fun s s' => s.ctx = .noStorage h → s'.ctx = s.ctx) (fun _ _ => rfl)
    (fun a b c h₁ h₂ ha => by
      have hb := h₁ ha
      rw [h₂ (hb.trans ha), hb])
    (fun op args s hs => evalMut_op_nostorage op args s h hs) n s hs

theorem C11_nostorage_assign (op : Operator) (args : List Value) (s : St) (h : HashMapCtx)
    (hop : Operator.isAssignKind op = true) (hs : s.ctx = .noStorage h) :
    ∃ e, (op.evalMut args s).1 = .error e := by
  rcases evalMut_assign_shape op args s hop with ⟨e, h'⟩ | ⟨id, v, c, hc, _⟩
  · exact ⟨e, by rw [h']⟩
  · rw [hs, noStorage_setValue] at hc; cases hc

/-! ### C15 — schedule independence at the granularity of one evaluation -/

mutual
theorem evalRO_prepend (l : List (Str × Value)) (n : Node) (s : St) :
    n.evalRO (prependLog l s) = ((n.evalRO s).1, prependLog l (n.evalRO s).2) :=
  match n with
  | ⟨op, cs⟩ => by
    rw [evalRO_mk, evalRO_mk, evalROList_prepend l cs s]
    rcases evalROList cs s with ⟨r, s'⟩
    cases r with
    | error e => rfl
    | ok args => exact eval_prepend l op args s'
theorem evalROList_prepend (l : List (Str × Value)) (cs : List Node) (s : St) :
    evalROList cs (prependLog l s) = ((evalROList cs s).1, prependLog l (evalROList cs s).2) :=
  match cs with
  | [] => by rw [evalROList_nil, evalROList_nil]
  | c :: cs => by
    rw [evalROList_cons, evalROList_cons, evalRO_prepend l c s]
    rcases Node.evalRO c s with ⟨r, s₁⟩
    cases r with
    | error e => rfl
    | ok v =>
      simp only
      rw [evalROList_prepend l cs s₁]
      rcases evalROList cs s₁ with ⟨r2, s₂⟩
      cases r2 <;> rfl
end

theorem C15_log_irrelevant (n : Node) (c : Ctx) (l : List (Str × Value)) :
    (n.evalRO ⟨c, l⟩).1 = (n.evalRO ⟨c, []⟩).1 ∧
      (n.evalRO ⟨c, l⟩).2.log = l ++ (n.evalRO ⟨c, []⟩).2.log := by
  have h := evalRO_prepend l n ⟨c, []⟩
  have hs : prependLog l ⟨c, []⟩ = ⟨c, l⟩ := by simp [prependLog]
  rw [hs] at h
  rw [h]
  exact ⟨rfl, rfl⟩

/-- evaluate the jobs one after the other on the shared state, in the given order -/
def runSchedule : List Node → St → List (Res Value) × St
  | [], s => ([], s)
  | j :: js, s =>
    let (r, s₁) := j.evalRO s; let (rs, s₂) := runSchedule js s₁; (r :: rs, s₂)

/-- whatever the order (any list of jobs, hence any permutation / interleaving at evaluation
granularity), every job obtains exactly its stand-alone result, and the shared context is
unchanged -/
theorem C15_schedule (jobs : List Node) (c : Ctx) (l : List (Str × Value)) :
    (runSchedule jobs ⟨c, l⟩).1 = jobs.map (fun j => (j.evalRO ⟨c, []⟩).1) ∧
      (runSchedule jobs ⟨c, l⟩).2.ctx = c := by
  induction jobs generalizing l with
  | nil => exact ⟨rfl, rfl⟩
  | cons j js ih =>
    have h1 := (C15_log_irrelevant j c l).1
    have h2 : (j.evalRO ⟨c, l⟩).2.ctx = c := C11_readonly j ⟨c, l⟩
    rcases hj : j.evalRO ⟨c, l⟩ with ⟨r, s₁⟩
    rw [hj] at h1 h2
    simp only at h1 h2
    have hs : s₁ = ⟨c, s₁.log⟩ := by cases s₁; simp_all
    have ih' := ih s₁.log
    rw [← hs] at ih'
    simp only [runSchedule, hj, List.map_cons]
    exact ⟨by rw [ih'.1, h1], ih'.2⟩

/-! ### C13 — a tree with an operator of the wrong arity never evaluates successfully -/

theorem evalMutList_length (cs : List Node) (s s' : St) (vs : List Value)
    (h : evalMutList cs s = (.ok vs, s')) : vs.length = cs.length := by
  induction cs generalizing s s' vs with
  | nil =>
    rw [evalMutList_nil] at h
    simp only [Prod.mk.injEq, Except.ok.injEq] at h
    obtain ⟨h1, _⟩ := h
    subst h1
    rfl
  | cons c cs ih =>
    rw [evalMutList_cons] at h
    rcases hc : c.evalMut s with ⟨r, t⟩
    rw [hc] at h
    cases r with
    | error e => simp at h
    | ok v =>
      simp only at h
      rcases hl : evalMutList cs t with ⟨rl, t'⟩
      rw [hl] at h
      cases rl with
      | error e => simp at h
      | ok vs' =>
        simp only [Prod.mk.injEq, Except.ok.injEq] at h
        rw [← h.1, List.length_cons, List.length_cons, ih t t' vs' hl]

theorem evalROList_length (cs : List Node) (s s' : St) (vs : List Value)
    (h : evalROList cs s = (.ok vs, s')) : vs.length = cs.length := by
  induction cs generalizing s s' vs with
  | nil =>
    rw [evalROList_nil] at h
    simp only [Prod.mk.injEq, Except.ok.injEq] at h
    obtain ⟨h1, _⟩ := h
    subst h1
    rfl
  | cons c cs ih =>
    rw [evalROList_cons] at h
    rcases hc : c.evalRO s with ⟨r, t⟩
    rw [hc] at h
    cases r with
    | error e => simp at h
    | ok v =>
      simp only at h
      rcases hl : evalROList cs t with ⟨rl, t'⟩
      rw [hl] at h
      cases rl with
      | error e => simp at h
      | ok vs' =>
        simp only [Prod.mk.injEq, Except.ok.injEq] at h
        rw [← h.1, List.length_cons, List.length_cons, ih t t' vs' hl]

theorem deficient_mk (op : Operator) (cs : List Node) :
    deficient ⟨op, cs⟩ =
      ((match op.maxArgumentAmount with
        | some n => !op.isRoot && cs.length != n
        | none => false) || deficientList cs) := by
  rw [deficient]; rfl

theorem deficientList_cons (c : Node) (cs : List Node) :
    deficientList (c :: cs) = (deficient c || deficientList cs) := by
  rw [deficientList]

mutual
theorem deficient_error (t : Node) (h : deficient t = true) (s : St) :
    (∃ e, (t.evalMut s).1 = .error e) ∧ (∃ e, (t.evalRO s).1 = .error e) :=
  match t, h with
  | ⟨op, cs⟩, h => by
    rw [deficient_mk] at h
    rw [evalMut_mk, evalRO_mk]
    rcases Bool.or_eq_true _ _ |>.mp h with h | h
    · -- the arity of `op` itself is wrong
      cases hn : op.maxArgumentAmount with
      | none => rw [hn] at h; simp at h
      | some n =>
        rw [hn] at h
        simp only [Bool.and_eq_true, Bool.not_eq_true', bne_iff_ne, ne_eq] at h
        constructor
        · rcases hl : evalMutList cs s with ⟨r, s'⟩
          cases r with
          | error e => exact ⟨e, rfl⟩
          | ok args =>
            have hlen := evalMutList_length cs s s' args hl
            exact (arity_error op args s' n hn h.1 (by rw [hlen]; exact h.2)).1
        · rcases hl : evalROList cs s with ⟨r, s'⟩
          cases r with
          | error e => exact ⟨e, rfl⟩
          | ok args =>
            have hlen := evalROList_length cs s s' args hl
            exact (arity_error op args s' n hn h.1 (by rw [hlen]; exact h.2)).2
    · -- a child is deficient
      have ih := deficientList_error cs h s
      constructor
      · rcases ih.1 with ⟨e, he⟩
        rcases hl : evalMutList cs s with ⟨r, s'⟩
        rw [hl] at he
        simp only at he
        subst he
        exact ⟨e, rfl⟩
      · rcases ih.2 with ⟨e, he⟩
        rcases hl : evalROList cs s with ⟨r, s'⟩
        rw [hl] at he
        simp only at he
        subst he
        exact ⟨e, rfl⟩
theorem deficientList_error (cs : List Node) (h : deficientList cs = true) (s : St) :
    (∃ e, (evalMutList cs s).1 = .error e) ∧ (∃ e, (evalROList cs s).1 = .error e) :=
  match cs, h with
  | [], h => by rw [deficientList] at h; cases h
  | c :: cs, h => by
    rw [deficientList_cons] at h
    rw [evalMutList_cons, evalROList_cons]
    rcases Bool.or_eq_true _ _ |>.mp h with h | h
    · have ih := deficient_error c h s
      constructor
      · rcases ih.1 with ⟨e, he⟩
        rcases hl : c.evalMut s with ⟨r, s'⟩
        rw [hl] at he
        simp only at he
        subst he
        exact ⟨e, rfl⟩
      · rcases ih.2 with ⟨e, he⟩
        rcases hl : c.evalRO s with ⟨r, s'⟩
        rw [hl] at he
        simp only at he
        subst he
        exact ⟨e, rfl⟩
    · constructor
      · rcases hc : c.evalMut s with ⟨r, s₁⟩
        cases r with
        | error e => exact ⟨e, rfl⟩
        | ok v =>
          rcases (deficientList_error cs h s₁).1 with ⟨e, he⟩
          rcases hl : evalMutList cs s₁ with ⟨r2, s₂⟩
          rw [hl] at he
          simp only at he
          subst he
          simp only [hl]
          exact ⟨e, rfl⟩
      · rcases hc : c.evalRO s with ⟨r, s₁⟩
        cases r with
        | error e => exact ⟨e, rfl⟩
        | ok v =>
          rcases (deficientList_error cs h s₁).2 with ⟨e, he⟩
          rcases hl : evalROList cs s₁ with ⟨r2, s₂⟩
          rw [hl] at he
          simp only at he
          subst he
          simp only [hl]
          exact ⟨e, rfl⟩
end

theorem C13_deficient (t : Node) (h : deficient t = true) (s : St) :
    (∀ v, (t.evalMut s).1 ≠ .ok v) ∧ (∀ v, (t.evalRO s).1 ≠ .ok v) := by
  rcases deficient_error t h s with ⟨⟨e₁, h₁⟩, ⟨e₂, h₂⟩⟩
  constructor
  · intro v hv; rw [h₁] at hv; cases hv
  · intro v hv; rw [h₂] at hv; cases hv

/-! ### C05 — values of sequences -/

theorem C05_root_empty (s : St) : (Node.mk .rootNode []).evalMut s = (.ok .empty, s) := by
  rw [evalMut_mk, evalMutList_nil]; rfl

theorem C05_root_single (c : Node) (s : St) :
    (Node.mk .rootNode [c]).evalMut s = c.evalMut s := by
  rw [evalMut_mk, evalMutList_cons]
  simp only [evalMutList_nil]
  rcases c.evalMut s with ⟨r, s'⟩
  cases r <;> rfl

theorem C05_tuple_value (cs : List Node) (s s' : St) (vs : List Value)
    (h : evalMutList cs s = (.ok vs, s')) :
    (Node.mk .tuple cs).evalMut s = (.ok (.tuple vs), s') := by
  rw [C08_all_operands .tuple cs s s' vs h]; rfl

theorem C05_chain_value (cs : List Node) (s s' : St) (vs : List Value) (v : Value)
    (h : evalMutList cs s = (.ok vs, s')) (hl : vs.getLast? = some v) :
    (Node.mk .chain cs).evalMut s = (.ok v, s') := by
  rw [C08_all_operands .chain cs s s' vs h]
  show (Operator.evalPure .chain vs, s') = _
  simp only [Operator.evalPure, hl]

end Evalexpr.Spec
