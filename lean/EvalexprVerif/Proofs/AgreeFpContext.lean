/- Proofs/AgreeFpContext.lean — the `Context` functions of /repo/src are textually the ones the model was validated against. -/
import EvalexprVerif.Generated.FpContext
import EvalexprVerif.Spec.Fingerprints

namespace Evalexpr.Agree

theorem fpContext_agree : Generated.fpContext = Spec.Fingerprints.fpContext := by decide

end Evalexpr.Agree
