/-
Proofs/NoPanic.lean — property C01: the library never panics.

Every model function that mirrors a Rust expression able to panic returns `.error (.panic site)`
at exactly that point; the theorems below say that this outcome is unreachable:

* `C01_lex`            — Proofs/NoPanicLex.lean   (the slice `tokens[cutoff..]`)
* `C01_build`          — Proofs/NoPanicTree.lean  (`children.last().unwrap()`, 2 × `unreachable!()`)
* `C01_operator_eval`, `C01_operator_evalMut`, `C01_eval_mut`, `C01_eval_ro`, `C01_run_tree`,
  `C01_run_string`     — Proofs/NoPanicEval.lean  (`unreachable!()` in `eval_mut`; the builtins'
  `arguments[i]` are the hypothesis `BuiltinsNoPanic`)
* `C01_depth`          — Proofs/NoPanicDepth.lean (recursion depth bounded by the input length)

The definitions `NoPanicCtx`, `BuiltinsNoPanic` are in Proofs/NoPanicEval.lean, `Node.depth`,
`Node.depthList` in Proofs/NoPanicDepth.lean (they are needed by the helper lemmas there).

CHANGED STATEMENT: `C01_depth` with the bound `ts.length + 1` is false
(`C01_depth_counterexample`: the single token `,` gives a tree of depth 3); a separator adds two
levels (the sequence node and the parenthesis node around its items). The bound proved is
`ts.length + (number of , and ;) + 1`, with the corollaries `2 * ts.length + 1` and the original
bound for inputs without separators.
-/
import EvalexprVerif.Model.Interface
import EvalexprVerif.Model.Iter
import EvalexprVerif.Proofs.Malformed
import EvalexprVerif.Proofs.NoPanicLex
import EvalexprVerif.Proofs.NoPanicTree
import EvalexprVerif.Proofs.NoPanicEval
import EvalexprVerif.Proofs.NoPanicDepth

namespace Evalexpr.Spec
open Evalexpr

/-- tokenizing never panics -/
theorem C01_lex (s : List Char) : (tokenize s).isPanic = false := tokenize_noPanic s

/-- building the operator tree never panics, for ANY token sequence -/
theorem C01_build (ts : List Token) : (tokensToOperatorTree ts).isPanic = false := build_noPanic ts

theorem C01_build_string (s : List Char) : (buildOperatorTree s).isPanic = false :=
  buildString_noPanic s

theorem C01_operator_eval (hb : BuiltinsNoPanic) (op : Operator) (args : List Value) (s : St)
    (hc : NoPanicCtx s.ctx) :
    (op.eval args s).1.isPanic = false ∧ NoPanicCtx (op.eval args s).2.ctx :=
  opEval_fine hb op args s hc

theorem C01_operator_evalMut (hb : BuiltinsNoPanic) (op : Operator) (args : List Value) (s : St)
    (hc : NoPanicCtx s.ctx) :
    (op.evalMut args s).1.isPanic = false ∧ NoPanicCtx (op.evalMut args s).2.ctx :=
  opEvalMut_fine hb op args s hc

/-- evaluation never panics, for ANY tree (also ill-formed ones, also hand-built ones) and any
context whose user functions do not panic -/
theorem C01_eval_mut (hb : BuiltinsNoPanic) (n : Node) (s : St) (hc : NoPanicCtx s.ctx) :
    (n.evalMut s).1.isPanic = false ∧ NoPanicCtx (n.evalMut s).2.ctx := evalMut_fine hb n s hc

theorem C01_eval_ro (hb : BuiltinsNoPanic) (n : Node) (s : St) (hc : NoPanicCtx s.ctx) :
    (n.evalRO s).1.isPanic = false ∧ NoPanicCtx (n.evalRO s).2.ctx := evalRO_fine hb n s hc

/-- **C01 (all 48 entry points)**: every string-level and tree-level entry point, typed or
untyped, with or without context -/
theorem C01_run_tree (hb : BuiltinsNoPanic) (k : Kind) (m : Mode) (n : Node) (s : St)
    (hc : NoPanicCtx s.ctx) : (runTree k m n s).1.isPanic = false := runTree_noPanic hb k m n s hc

theorem C01_run_string (hb : BuiltinsNoPanic) (k : Kind) (m : Mode) (src : List Char) (s : St)
    (hc : NoPanicCtx s.ctx) : (runString k m src s).1.isPanic = false := by
  unfold runString
  have h := C01_build_string src
  cases hb' : buildOperatorTree src with
  | error e => rw [hb'] at h; exact h
  | ok n => exact C01_run_tree hb k m n s hc

/-! ### recursion depth -/

/-- the bound `ts.length + 1` does not hold: the single token `,` builds
`RootNode[Tuple[RootNode[], RootNode[]]]` -/
theorem C01_depth_counterexample :
    ∃ t, tokensToOperatorTree [.comma] = .ok t ∧ Node.depth t = 3 ∧
      ¬ Node.depth t ≤ [Token.comma].length + 1 := by
  refine ⟨⟨.rootNode, [⟨.tuple, [⟨.rootNode, []⟩, ⟨.rootNode, []⟩]⟩]⟩, rfl, ?_, ?_⟩ <;>
    simp [depth_mk]

/-- recursion depth is bounded by the input length: the tree is no deeper than the number of
tokens, plus the number of separators `,` `;`, plus one (CORRECTED, see the file header) -/
theorem C01_depth (ts : List Token) (t : Node) (h : tokensToOperatorTree ts = .ok t) :
    Node.depth t ≤ ts.length + ts.countP isSepTok + 1 := by
  have h1 := depth_le_cost ts t h
  have h2 := tokCosts_le ts
  omega

theorem C01_depth_linear (ts : List Token) (t : Node) (h : tokensToOperatorTree ts = .ok t) :
    Node.depth t ≤ 2 * ts.length + 1 := by
  have h1 := C01_depth ts t h
  have h2 : ts.countP isSepTok ≤ ts.length := List.countP_le_length
  omega

/-- the bound as first stated, for inputs without `,` and `;` -/
theorem C01_depth_noSep (ts : List Token) (hs : ∀ t ∈ ts, isSepTok t = false) (t : Node)
    (h : tokensToOperatorTree ts = .ok t) : Node.depth t ≤ ts.length + 1 := by
  have h1 := C01_depth ts t h
  have h2 : ts.countP isSepTok = 0 := by
    rw [List.countP_eq_zero]
    intro a ha; simp [hs a ha]
  omega

end Evalexpr.Spec
