/-
Proofs/LexPhase1.lean — phase 1 of C07: `lexNormal` maps a rendered sequence to `partials`.
-/
import EvalexprVerif.Proofs.LexChars

namespace Evalexpr.Spec
open Evalexpr

theorem headLit_ptokPartials (p : PTok) (acc : List PartialToken) :
    headLit ((ptokPartials p).reverse ++ acc) = isWordTok p.tok := by
  obtain ⟨tok, text⟩ := p
  cases tok <;> rfl

theorem headLit_gapPartials (g : Gap) (acc : List PartialToken) :
    headLit (gapPartials g ++ acc) = (g.isEmpty && headLit acc) := by
  cases g with
  | nil => simp [gapPartials]
  | cons s g => simp [gapPartials, List.replicate_succ, headLit]

theorem PTok.Printable.text_ne_nil {p : PTok} (hp : p.Printable) : p.text ≠ [] := by
  obtain ⟨tok, text⟩ := p
  cases tok <;> simp [PTok.Printable, fixedText, isWord, quote] at hp <;> (try subst hp) <;>
    simp_all

theorem lexNormal_ptok (p : PTok) (hp : p.Printable) (rest : Str) (acc : List PartialToken)
    (hacc : headLit acc = true → isWordTok p.tok = false)
    (hsl : isSlash p.tok = true → rest.head? ≠ some '/' ∧ rest.head? ≠ some '*') :
    lexNormal (p.text ++ rest) acc = lexNormal rest ((ptokPartials p).reverse ++ acc) := by
  have hnl : ∀ (q : PartialToken), (∀ l, q ≠ .literal l) → pushPartial acc q = q :: acc :=
    fun q hq => pushPartial_of_nonlit acc q hq
  obtain ⟨tok, text⟩ := p
  cases tok <;> simp only [PTok.Printable, fixedText, Option.some.injEq] at hp <;>
    simp only [isWordTok, isSlash, Bool.true_eq_false, imp_false, Bool.not_eq_true, forall_const,
      Bool.false_eq_true, false_imp_iff] at hacc hsl
  all_goals first
    | (obtain ⟨hw, -⟩ := hp; exact lexNormal_word _ hw rest acc hacc)
    | (obtain ⟨rfl, hw, -⟩ := hp; exact lexNormal_word _ hw rest acc hacc)
    | (subst hp; exact lexNormal_string _ rest acc)
    | skip
  all_goals subst hp
  all_goals simp only [ptokPartials, List.cons_append, List.nil_append, List.reverse_cons,
    List.reverse_nil]
  case slash =>
    exact lexNormal_slash rest acc hsl.1 hsl.2
  case slashAssign =>
    rw [lexNormal_slash _ _ (by simp) (by simp), lexNormal_cons_other _ _ _ (by decide) (by decide)]
    simp [charToPartialToken, pushPartial]
  all_goals
    repeat rw [lexNormal_cons_other _ _ _ (by decide) (by decide)]
    simp [charToPartialToken, pushPartial]

theorem renderFrom_ne_nil (ps : List (Gap × PTok)) (g : Gap) (hp : ∀ p ∈ ps, p.2.Printable)
    (h : ps ≠ []) : renderFrom ps g ≠ [] := by
  cases ps with
  | nil => exact absurd rfl h
  | cons q rest =>
    obtain ⟨g1, q⟩ := q
    have := (hp (g1, q) (by simp)).text_ne_nil
    simp [renderFrom, this]

/-- what the accumulator must satisfy before lexing `ps`: a trailing literal does not touch a word -/
def AccOK (acc : List PartialToken) : List (Gap × PTok) → Prop
  | [] => True
  | (g0, p) :: _ => headLit acc = true → g0 ≠ [] ∨ isWordTok p.tok = false

theorem lexNormal_render (ps : List (Gap × PTok)) (g : Gap) (tail : Str)
    (hp : ∀ p ∈ ps, p.2.Printable) (ha : Admissible ps g)
    (htail : ∀ p, ps.getLast? = some p → isSlash p.2.tok = true → g = [] →
      tail.head? ≠ some '/' ∧ tail.head? ≠ some '*')
    (acc : List PartialToken) (hacc : AccOK acc ps) :
    lexNormal (renderFrom ps g ++ tail) acc = lexNormal tail ((partials ps g).reverse ++ acc) := by
  induction ps generalizing acc with
  | nil =>
    simp only [renderFrom, partials, gapPartials_reverse]
    exact lexNormal_gap g ha tail acc
  | cons gp rest ih =>
    obtain ⟨g0, p⟩ := gp
    have hpp : p.Printable := hp (g0, p) (by simp)
    have hprest : ∀ q ∈ rest, q.2.Printable := fun q hq => hp q (by simp [hq])
    obtain ⟨hv, hfuse, hslash, harest⟩ := ha
    simp only [renderFrom, partials, List.append_assoc, List.reverse_append, gapPartials_reverse]
    rw [lexNormal_gap g0 hv, lexNormal_ptok p hpp, ih hprest harest]
    · -- htail for rest
      intro q hq
      apply htail q
      cases rest with
      | nil => simp at hq
      | cons r rest' => simpa [List.getLast?_cons_cons] using hq
    · -- AccOK for rest
      cases rest with
      | nil => trivial
      | cons r rest' =>
        obtain ⟨g1, q⟩ := r
        simp only [AccOK, headLit_ptokPartials]
        intro hw
        cases hq : isWordTok q.tok with
        | false => exact Or.inr rfl
        | true => exact Or.inl (hfuse.1 (by simp [fuses, hw, hq]))
    · -- literal condition for p
      rw [headLit_gapPartials]
      intro h
      simp only [Bool.and_eq_true, List.isEmpty_iff] at h
      rcases hacc h.2 with h' | h'
      · exact absurd h.1 h'
      · exact h'
    · -- slash condition for p
      intro hs
      have hs' := hslash hs
      by_cases hr : renderFrom rest g = []
      · rw [hr, List.nil_append]
        have hrest : rest = [] := by
          apply Classical.byContradiction
          intro hne
          exact renderFrom_ne_nil rest g hprest hne hr
        subst hrest
        have hg : g = [] := by
          apply Classical.byContradiction
          intro hne
          exact Gap.text_ne_nil g hne hr
        exact htail (g0, p) (by simp) hs hg
      · cases hx : renderFrom rest g with
        | nil => exact absurd hx hr
        | cons c cs => rw [hx] at hs'; simpa using hs'

theorem strToPartialTokens_render (ps : List (Gap × PTok)) (g : Gap)
    (hp : ∀ p ∈ ps, p.2.Printable) (ha : Admissible ps g) :
    strToPartialTokens (renderFrom ps g) = .ok (partials ps g) := by
  have := lexNormal_render ps g [] hp ha (by intro p _ _ _; simp) []
    (by cases ps with
        | nil => trivial
        | cons r _ => obtain ⟨g0, p⟩ := r; intro h; simp [headLit] at h)
  simpa [strToPartialTokens, lexNormal_nil] using this

end Evalexpr.Spec
