/-
Proofs/AgreeFnValueType.lean — src/value/value_type.rs as translated on this run
(`Generated/FnValueType.lean`): the three `From<…Value> for ValueType` impls equal the Model's `Value.type`.
References are erased by the translation, so the three impls have the same Lean type; the `&Value`
one is the `Rs.Into Value ValueType` instance (the meaning of `.into()` / `ValueType::from(..)`).
-/
import EvalexprVerif.Generated.FnValueType

namespace Evalexpr.AgreeFn
open Evalexpr

/-- `impl From<&Value> for ValueType` (the meaning of `.into()` / `ValueType::from` at `Value → ValueType`) -/
theorem fn_ValueType_from_Value_agree (v : Value) : (Rs.into v : ValueType) = v.type := by cases v <;> rfl
theorem fn_ValueType_from_Value_def_agree (v : Value) : Gen.ValueType.from_Value v = v.type := by cases v <;> rfl
/-- `impl From<&mut Value> for ValueType` -/
theorem fn_ValueType_from_mut_Value_agree (v : Value) : Gen.ValueType.from_mut_Value v = v.type := by cases v <;> rfl
/-- `impl From<&&mut Value> for ValueType` -/
theorem fn_ValueType_from_ref_mut_Value_agree (v : Value) : Gen.ValueType.from_ref_mut_Value v = v.type := by
  cases v <;> rfl

end Evalexpr.AgreeFn
