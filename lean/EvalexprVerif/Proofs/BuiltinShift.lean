/-
Proofs/BuiltinShift.lean — property C10, part 3: `shl` / `shr` for amounts 0..63 are exactly the
documented two's-complement shifts (`a * 2^k` wrapped to 64 bits, floor division by `2^k`);
also `bitand`, `bitor`, `bitxor`.
-/
import EvalexprVerif.Proofs.BuiltinBasic
namespace Evalexpr.Spec
open Evalexpr

theorem toNat_of_toInt_small {w : Nat} (v : BitVec w) (h0 : 0 ≤ v.toInt) : v.toNat = v.toInt.toNat := by
  have h := BitVec.toInt_eq_toNat_cond v
  have := v.isLt
  split at h <;> omega

theorem shiftAmount (k : Int64) (h0 : 0 ≤ k.toInt) (h1 : k.toInt ≤ 63) :
    (k.toBitVec.smod 64).toNat = k.toInt.toNat := by
  have h : (k.toBitVec.smod 64).toInt = k.toInt := by
    rw [BitVec.toInt_smod, Int64.toInt_toBitVec]
    have : (64 : BitVec 64).toInt = 64 := by decide
    rw [this, Int.fmod_eq_emod_of_nonneg _ (by omega)]
    omega
  rw [toNat_of_toInt_small _ (by omega), h]

theorem shl_exact (a k : Int64) (h0 : 0 ≤ k.toInt) (h1 : k.toInt ≤ 63) :
    a <<< k = Int64.ofInt (a.toInt * 2 ^ k.toInt.toNat) := by
  apply Int64.toInt_inj.1
  rw [Int64.toInt_ofInt, ← Int64.toInt_toBitVec (a <<< k), Int64.toBitVec_shiftLeft, BitVec.shiftLeft_eq',
    shiftAmount k h0 h1, BitVec.toInt_shiftLeft, Nat.shiftLeft_eq, ← Int64.toInt_toBitVec a,
    BitVec.toInt_eq_toNat_bmod a.toBitVec]
  have hs : Int64.size = 2 ^ 64 := by decide
  rw [hs, Int.bmod_mul_bmod, Int.natCast_mul, Int.natCast_pow]
  rfl

theorem shr_exact (a k : Int64) (h0 : 0 ≤ k.toInt) (h1 : k.toInt ≤ 63) :
    a >>> k = Int64.ofInt (a.toInt / 2 ^ k.toInt.toNat) := by
  apply Int64.toInt_inj.1
  have hpos : (0 : Int) < 2 ^ k.toInt.toNat := Int.pow_pos (by decide)
  have hl := Int64.le_toInt a
  have hu := Int64.toInt_lt a
  rw [Int64.toInt_ofInt_of_le, ← Int64.toInt_toBitVec (a >>> k), Int64.toBitVec_shiftRight,
    BitVec.toInt_sshiftRight', shiftAmount k h0 h1, Int64.toInt_toBitVec, Int.shiftRight_eq_div_pow,
    Int.natCast_pow]
  · rfl
  · rw [Int.le_ediv_iff_mul_le hpos]
    generalize (2 : Int) ^ k.toInt.toNat = d at *
    omega
  · rw [Int.ediv_lt_iff_lt_mul hpos]
    generalize (2 : Int) ^ k.toInt.toNat = d at *
    omega
theorem C10_shl (arg : Value) : MeetsB (Builtin.call .shl arg) (refBuiltin .shl arg) :=
  meets_int2 _ _ (fun a k => by
    unfold shlRef
    by_cases h : (decide (0 ≤ k.toInt) && decide (k.toInt ≤ 63)) = true
    · rw [if_pos h]
      simp only [Bool.and_eq_true, decide_eq_true_eq] at h
      show Except.ok _ = Except.ok _
      rw [← shl_exact a k h.1 h.2]
    · rw [if_neg h]; intro e he; cases he) arg

theorem C10_shr (arg : Value) : MeetsB (Builtin.call .shr arg) (refBuiltin .shr arg) :=
  meets_int2 _ _ (fun a k => by
    unfold shrRef
    by_cases h : (decide (0 ≤ k.toInt) && decide (k.toInt ≤ 63)) = true
    · rw [if_pos h]
      simp only [Bool.and_eq_true, decide_eq_true_eq] at h
      show Except.ok _ = Except.ok _
      rw [← shr_exact a k h.1 h.2]
    · rw [if_neg h]; intro e he; cases he) arg
theorem C10_bitand (arg : Value) : MeetsB (Builtin.call .bitand arg) (refBuiltin .bitand arg) :=
  meets_int2 (· &&& ·) (fun a b => .value (.int (a &&& b))) (fun _ _ => rfl) arg
theorem C10_bitor (arg : Value) : MeetsB (Builtin.call .bitor arg) (refBuiltin .bitor arg) :=
  meets_int2 (· ||| ·) (fun a b => .value (.int (a ||| b))) (fun _ _ => rfl) arg
theorem C10_bitxor (arg : Value) : MeetsB (Builtin.call .bitxor arg) (refBuiltin .bitxor arg) :=
  meets_int2 (· ^^^ ·) (fun a b => .value (.int (a ^^^ b))) (fun _ _ => rfl) arg
end Evalexpr.Spec
