/-
Proofs/MalformedIns.lean — basic facts on `Node.insertBackPrioritized` used for C13:
it keeps the operator of the node it inserts into, and never reports a brace error.
-/
import EvalexprVerif.Proofs.MalformedJuxt

namespace Evalexpr.Spec
open Evalexpr

/-- the two parenthesis errors -/
def isBraceErr : Err → Bool
  | .unmatchedLBrace | .unmatchedRBrace => true
  | _ => false

theorem insertAtLast_op (op : Operator) (cs : List Node) :
    ∀ (pre : List Node) (node n' : Node), insertAtLast op pre cs node = .ok n' → n'.op = op := by
  induction cs with
  | nil => intro pre node n' h; simp [insertAtLast] at h
  | cons c cs ih =>
    intro pre node n' h
    cases cs with
    | cons c2 cs' => rw [insertAtLast] at h; exact ih _ _ _ h
    | nil =>
      simp only [insertAtLast] at h
      split at h
      · split at h
        · cases h; rfl
        · cases h
      · repeat' split at h
        all_goals first | cases h | skip
        all_goals rfl

theorem insertBack_op (n node n' : Node) (b : Bool)
    (h : n.insertBackPrioritized node b = .ok n') : n'.op = n.op := by
  obtain ⟨op, cs⟩ := n
  simp only [Node.insertBackPrioritized] at h
  repeat' split at h
  all_goals first | cases h | skip
  · exact insertAtLast_op _ _ _ _ _ h
  · rfl

theorem insert_noBrace :
    (∀ (n node : Node) (b : Bool) (e : Err),
      n.insertBackPrioritized node b = .error e → isBraceErr e = false) ∧
    (∀ (op : Operator) (pre cs : List Node) (node : Node) (e : Err),
      insertAtLast op pre cs node = .error e → isBraceErr e = false) := by
  apply Node.insertBackPrioritized.mutual_induct
  case case1 => intro op cs node b h1 h2 e h; simp [Node.insertBackPrioritized, h1, h2] at h; subst h; rfl
  case case2 =>
    intro op cs node b h1 h2 h3 ih e h
    simp only [Node.insertBackPrioritized, h1, h2, h3, if_true] at h
    exact ih e (by simpa using h)
  case case3 => intro op cs node b h1 h2 h3 e h; simp [Node.insertBackPrioritized, h1, h2, h3] at h
  case case4 => intro op cs node b h1 e h; simp [Node.insertBackPrioritized, h1] at h; subst h; rfl
  case case5 => intro op pre x e h; simp [insertAtLast] at h; subst h; rfl
  case case6 => intro op pre c node h1 c' h2 _ e h; simp [insertAtLast, h1, h2] at h
  case case7 =>
    intro op pre c node h1 e' h2 ih e h
    simp [insertAtLast, h1, h2] at h; subst h; exact ih e' h2
  case case14 => intro op pre c c2 cs node ih e h; rw [insertAtLast] at h; exact ih e h
  all_goals
    intro op pre c node
    intros
    rename_i e h
    simp [insertAtLast, *] at h
    try (subst h; rfl)

theorem insertBack_noBrace (n node : Node) (b : Bool) (e : Err)
    (h : n.insertBackPrioritized node b = .error e) : isBraceErr e = false :=
  insert_noBrace.1 n node b e h

end Evalexpr.Spec
