/-
Proofs/NearestConst.lean — the large constants of Spec/Nearest.lean (2^1074, 2^1024 − 2^970) under
opaque names. This file imports no Mathlib module, so the literal powers elaborate exactly as in
the specification; the Mathlib-importing proof files only ever see `P1074` and `Y2044` and never
try to evaluate them.
-/
import EvalexprVerif.Spec.Nearest

namespace Evalexpr.Spec.Nearest

-- the literal powers below (up to 2^2044) may be evaluated by the elaborator
set_option exponentiation.threshold 2100

/-- 2^1074: the scale that makes every finite double a natural number -/
@[irreducible] def P1074 : Nat := 2 ^ 1074
/-- 2^2044 = 2^970 · 2^1074 -/
@[irreducible] def Y2044 : Nat := 2 ^ 2044

theorem P1074_mul_pow (i j E : Nat) (h : 1074 + j = i + E) : P1074 * 2 ^ j = 2 ^ i * 2 ^ E := by
  unfold P1074
  rw [← Nat.pow_add, ← Nat.pow_add, h]

/-- `scaledError` with the scale as a natural-number constant -/
theorem scaledError_eq (n d : Nat) (y : UInt64) :
    scaledError n d y = ((n : Int) * (P1074 : Nat) - (scaledValue y : Int) * d).natAbs := by
  unfold scaledError P1074
  rw [Int.natCast_pow]
  rfl

theorem Y2044_facts (E : Nat) :
    0 < Y2044 ∧ (2046 ≤ E → Y2044 * 4 ≤ 2 ^ E) ∧ (2045 ≤ E → Y2044 * 2 ≤ 2 ^ E) ∧
    (E ≤ 2044 → 2 ^ E ≤ Y2044) ∧ (E = 2045 → 2 ^ E = Y2044 * 2) := by
  have gen : ∀ K : Nat, 0 < 2 ^ K ∧ (K + 2 ≤ E → 2 ^ K * 4 ≤ 2 ^ E) ∧
      (K + 1 ≤ E → 2 ^ K * 2 ≤ 2 ^ E) ∧ (E ≤ K → 2 ^ E ≤ 2 ^ K) ∧
      (E = K + 1 → 2 ^ E = 2 ^ K * 2) := by
    intro K
    refine ⟨Nat.pow_pos (by decide), ?_, ?_, ?_, ?_⟩
    · intro h
      have : 2 ^ (K + 2) ≤ 2 ^ E := Nat.pow_le_pow_right (by decide) h
      rw [Nat.pow_add] at this; exact this
    · intro h
      have : 2 ^ (K + 1) ≤ 2 ^ E := Nat.pow_le_pow_right (by decide) h
      rw [Nat.pow_add] at this; exact this
    · intro h
      exact Nat.pow_le_pow_right (by decide) h
    · intro h
      rw [h]; exact Nat.pow_add 2 K 1
  unfold Y2044
  exact gen 2044

theorem overflow_const (A B : Nat) :
    (2 ^ (54 + A) - 2 ^ A) * 2 ^ B = (2 ^ 54 - 1) * 2 ^ (A + B) := by
  rw [Nat.pow_add, Nat.pow_add 2 A B]
  generalize 2 ^ A = X
  generalize 2 ^ B = P
  have : 2 ^ 54 * X - X = (2 ^ 54 - 1) * X := by omega
  rw [this, Nat.mul_assoc]

/-- the overflow criterion with the constants named -/
theorem overflows_iff_const (n d : Nat) :
    overflows n d = true ↔ (2 ^ 54 - 1) * Y2044 * d ≤ n * P1074 := by
  have e1 : (2 ^ 1024 - 2 ^ 970) * 2 ^ 1074 = (2 ^ 54 - 1) * 2 ^ 2044 := overflow_const 970 1074
  unfold overflows Y2044 P1074
  rw [decide_eq_true_iff, ge_iff_le, e1]

end Evalexpr.Spec.Nearest
