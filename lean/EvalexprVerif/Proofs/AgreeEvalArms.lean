/- Proofs/AgreeEvalArms.lean — extracted tables equal the expected ones (see Spec/Tables.lean). -/
import EvalexprVerif.Generated.EvalArms

namespace Evalexpr.Agree


theorem evalAssignArm_agree :
    Generated.evalAssignArm =
      (["AddAssign", "AndAssign", "Assign", "DivAssign", "ExpAssign", "ModAssign", "MulAssign",
        "OrAssign", "SubAssign"], "Err ( EvalexprError :: ContextNotMutable )") := by decide +kernel
theorem evalMutFallthrough_agree :
    Generated.evalMutFallthrough = "self . eval ( arguments , context )" := by decide +kernel

end Evalexpr.Agree
