/-
Proofs/ParseSpine.lean — the behaviour of `Node.insertBackPrioritized` on a right spine
(part of the proof of C02). A spine is a list of frames (an operator with its already-complete
left children); `openS a F` is the spine with an open operand slot at its tip, `plug (a :: F) t`
the spine with `t` in that slot.
-/
import EvalexprVerif.Spec.Ast

namespace Evalexpr.Spec
open Evalexpr

/-- a frame of the right spine: an operator and its already-complete left children -/
structure Frame where
  op : Operator
  left : List Node

/-- one more child completes the frame -/
def Frame.full (f : Frame) : Prop := f.op.maxArgumentAmount = some (f.left.length + 1)

def plug : List Frame → Node → Node
  | [], t => t
  | f :: fs, t => ⟨f.op, f.left ++ [plug fs t]⟩

/-- the spine with an open slot at the tip -/
def openS : Frame → List Frame → Node
  | a, [] => ⟨a.op, a.left⟩
  | a, g :: gs => ⟨a.op, a.left ++ [openS g gs]⟩

theorem openS_op (a : Frame) (F : List Frame) : (openS a F).op = a.op := by
  cases F <;> rfl

theorem plug_append (F : List Frame) (g : Frame) (t : Node) :
    plug (F ++ [g]) t = plug F ⟨g.op, g.left ++ [t]⟩ := by
  induction F with
  | nil => rfl
  | cons f F ih => simp only [List.cons_append, plug, ih]

theorem openS_append (a : Frame) (F : List Frame) (g : Frame) :
    openS a (F ++ [g]) = plug (a :: F) ⟨g.op, g.left⟩ := by
  induction F generalizing a with
  | nil => rfl
  | cons f F ih => simp only [List.cons_append, openS, plug, ih]

theorem insertAtLast_append (op : Operator) (pre l : List Node) (x node : Node) :
    insertAtLast op pre (l ++ [x]) node = insertAtLast op (pre ++ l) [x] node := by
  induction l generalizing pre with
  | nil => simp
  | cons c l ih =>
    cases l with
    | nil => simp [insertAtLast]
    | cons c2 l' =>
      have h := ih (pre ++ [c])
      simp only [List.cons_append, List.append_assoc, List.nil_append] at h ⊢
      rw [← h]
      conv => lhs; rw [insertAtLast]

theorem Frame.full_not_leaf {f : Frame} (h : f.full) : f.op.isLeaf = false := by
  unfold Frame.full at h
  simp [Operator.isLeaf, OpKind.isLeaf, Operator.maxArgumentAmount] at *
  rw [h]; simp

theorem Frame.full_len {f : Frame} (h : f.full) (x : Node) :
    (some (f.left ++ [x]).length == f.op.maxArgumentAmount) = true := by
  unfold Frame.full at h
  rw [h]; simp

theorem Frame.full_open {f : Frame} (h : f.full) :
    (some f.left.length == f.op.maxArgumentAmount) = false := by
  unfold Frame.full at h
  rw [h]; simp

theorem Frame.full_root {f : Frame} (h : f.full) (hr : f.op.isRoot = true) : f.left = [] := by
  unfold Frame.full at h
  simp [Operator.isRoot] at hr
  simp [Operator.maxArgumentAmount, hr, OpKind.maxArgumentAmount] at h
  exact h

/-- append: a node that every frame lets through is pushed into the open slot at the tip -/
theorem ins_append (a : Frame) (F : List Frame) (node : Node) (isRoot : Bool)
    (hfull : ∀ f ∈ a :: F, f.full)
    (hfirst : descends a.op node.op isRoot = true)
    (hadm : ∀ f ∈ F, descends f.op node.op false = true) :
    (openS a F).insertBackPrioritized node isRoot = .ok (plug (a :: F) node) := by
  induction F generalizing a isRoot with
  | nil =>
    have hf := hfull a (by simp)
    simp only [openS, Node.insertBackPrioritized, hfirst, Frame.full_not_leaf hf, Frame.full_open hf, plug]
    simp
  | cons g gs ih =>
    have hf := hfull a (by simp)
    have hg : descends g.op node.op false = true := hadm g (by simp)
    have hrec := ih g false (fun f h => hfull f (by simp at h ⊢; rcases h with h | h <;> simp [h]))
      hg (fun f h => hadm f (by simp [h]))
    simp only [openS, Node.insertBackPrioritized, hfirst, Frame.full_not_leaf hf, Frame.full_len hf, plug]
    simp only [if_true, Bool.false_eq_true, if_false]
    rw [insertAtLast_append]
    simp only [insertAtLast, openS_op, hg, if_true, hrec, List.nil_append, plug]

/-- rotate: a node that every frame lets through but the tip `t` does not takes `t` as its first child -/
theorem ins_rotate (a : Frame) (A : List Frame) (t node : Node) (isRoot : Bool)
    (hfull : ∀ f ∈ a :: A, f.full)
    (hfirst : descends a.op node.op isRoot = true)
    (hadm : ∀ f ∈ A, descends f.op node.op false = true)
    (hstop : descends t.op node.op false = false)
    (hnl : node.op.isLeaf = false) (hnr : node.op.isRoot = false) :
    (plug (a :: A) t).insertBackPrioritized node isRoot
      = .ok (plug (a :: A) ⟨node.op, node.children ++ [t]⟩) := by
  induction A generalizing a isRoot with
  | nil =>
    have hf := hfull a (by simp)
    simp only [plug, Node.insertBackPrioritized, hfirst, Frame.full_not_leaf hf, Frame.full_len hf]
    simp only [if_true, Bool.false_eq_true, if_false]
    rw [insertAtLast_append]
    have hpre : (a.op.isRoot && !([] ++ a.left).isEmpty) = false := by
      cases hr : a.op.isRoot with
      | false => simp
      | true => simp [Frame.full_root hf hr]
    simp only [insertAtLast, hstop, hnl, hnr, hpre]
    simp
  | cons g A ih =>
    have hf := hfull a (by simp)
    have hg : descends g.op node.op false = true := hadm g (by simp)
    have hrec := ih g false (fun f h => hfull f (by simp at h ⊢; rcases h with h | h <;> simp [h]))
      hg (fun f h => hadm f (by simp [h]))
    simp only [plug] at hrec
    simp only [plug, Node.insertBackPrioritized, hfirst, Frame.full_not_leaf hf, Frame.full_len hf]
    simp only [if_true, Bool.false_eq_true, if_false]
    rw [insertAtLast_append]
    simp only [insertAtLast, hg, if_true, hrec, List.nil_append]

end Evalexpr.Spec
