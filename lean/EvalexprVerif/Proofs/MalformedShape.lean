/-
Proofs/MalformedShape.lean — the shape of the root stack of the tree builder (for C13 (i)):
the stack is a concatenation of levels, one per open parenthesis plus the top level.
-/
import EvalexprVerif.Proofs.MalformedIns

namespace Evalexpr.Spec
open Evalexpr

/-- one parenthesis level of the root stack (head = top) -/
inductive StkLevel : List Node → Prop
  | r (R : Node) : R.op.kind = .rootNode → StkLevel [R]
  | t (T P : Node) : T.op.kind = .tuple → P.op.kind = .rootNode → StkLevel [T, P]
  | c (C P : Node) : C.op.kind = .chain → P.op.kind = .rootNode → StkLevel [C, P]
  | tc (T C P : Node) : T.op.kind = .tuple → C.op.kind = .chain → P.op.kind = .rootNode →
      StkLevel [T, C, P]

/-- a stack of `n` levels -/
inductive Stk : Nat → List Node → Prop
  | nil : Stk 0 []
  | cons {l s : List Node} {n : Nat} : StkLevel l → Stk n s → Stk (n + 1) (l ++ s)

theorem StkLevel.ne_nil {l : List Node} (h : StkLevel l) : l ≠ [] := by
  cases h <;> simp

theorem StkLevel.length_pos {l : List Node} (h : StkLevel l) : 0 < l.length := by
  cases h <;> simp

theorem Stk.length_ge {n : Nat} {s : List Node} (h : Stk n s) : n ≤ s.length := by
  induction h with
  | nil => simp
  | cons hl _ ih => have := hl.length_pos; simp; omega

theorem Stk.inv {n : Nat} {st : List Node} (h : Stk (n + 1) st) :
    ∃ l s, StkLevel l ∧ Stk n s ∧ st = l ++ s := by
  cases h with
  | cons hl hs => exact ⟨_, _, hl, hs, rfl⟩

theorem Stk.zero {s : List Node} (h : Stk 0 s) : s = [] := by
  cases h; rfl

theorem Stk.single (R : Node) (h : R.op.kind = .rootNode) : Stk 1 [R] :=
  Stk.cons (StkLevel.r R h) Stk.nil

section kinds
variable {o : Operator}
theorem kind_root_isRoot (h : o.kind = .rootNode) : o.isRoot = true := by simp [Operator.isRoot, h]
theorem kind_root_isSeq (h : o.kind = .rootNode) : o.isSequence = false := by
  simp [Operator.isSequence, h, OpKind.isSequence]
theorem kind_tuple_isRoot (h : o.kind = .tuple) : o.isRoot = false := by simp [Operator.isRoot, h]
theorem kind_tuple_isSeq (h : o.kind = .tuple) : o.isSequence = true := by
  simp [Operator.isSequence, h, OpKind.isSequence]
theorem kind_chain_isRoot (h : o.kind = .chain) : o.isRoot = false := by simp [Operator.isRoot, h]
theorem kind_chain_isSeq (h : o.kind = .chain) : o.isSequence = true := by
  simp [Operator.isSequence, h, OpKind.isSequence]
theorem seq_kind (h : o.isSequence = true) : o.kind = .tuple ∨ o.kind = .chain := by
  unfold Operator.isSequence at h
  generalize o.kind = k at h
  cases k <;> simp [OpKind.isSequence] at h ⊢
end kinds

/-! ### `pushNode` keeps the level -/

theorem pushNode_seq (s : List Node) (root node : Node) (hs : root.op.isSequence = true) :
    (∃ e, pushNode s root node = .error e ∧ isBraceErr e = false) ∨
    (∃ root', root'.op = root.op ∧ pushNode s root node = .ok (root' :: s)) := by
  simp only [pushNode, hs, if_true]
  cases root.children.getLast? with
  | none => exact .inl ⟨_, rfl, rfl⟩
  | some last =>
    cases h : last.insertBackPrioritized node true with
    | error e => exact .inl ⟨e, by simp only [h], insertBack_noBrace _ _ _ _ h⟩
    | ok last' =>
      exact .inr ⟨⟨root.op, root.children.dropLast ++ [last']⟩, rfl, by simp only [h]⟩

theorem pushNode_root (s : List Node) (root node : Node) (hs : root.op.isSequence = false) :
    (∃ e, pushNode s root node = .error e ∧ isBraceErr e = false) ∨
    (∃ root', root'.op = root.op ∧ pushNode s root node = .ok (root' :: s)) := by
  simp only [pushNode, hs, Bool.false_eq_true, if_false]
  cases h : root.insertBackPrioritized node true with
  | error e => exact .inl ⟨e, rfl, insertBack_noBrace _ _ _ _ h⟩
  | ok root' => exact .inr ⟨root', insertBack_op _ _ _ _ h, rfl⟩

theorem pushNode_any (s : List Node) (root node : Node) :
    (∃ e, pushNode s root node = .error e ∧ isBraceErr e = false) ∨
    (∃ root', root'.op = root.op ∧ pushNode s root node = .ok (root' :: s)) := by
  cases hs : root.op.isSequence with
  | true => exact pushNode_seq s root node hs
  | false => exact pushNode_root s root node hs

theorem StkLevel.replace_top {root root' : Node} {l : List Node} (h : StkLevel (root :: l))
    (ho : root'.op = root.op) : StkLevel (root' :: l) := by
  cases h with
  | r _ h1 => exact .r _ (by rw [ho]; exact h1)
  | t _ P h1 h2 => exact .t _ P (by rw [ho]; exact h1) h2
  | c _ P h1 h2 => exact .c _ P (by rw [ho]; exact h1) h2
  | tc _ C P h1 h2 h3 => exact .tc _ C P (by rw [ho]; exact h1) h2 h3

/-- the result of a step on the top level: a non-brace error, or a new top level -/
def StepOK (r : Res (List Node)) (s : List Node) : Prop :=
  (∃ e, r = .error e ∧ isBraceErr e = false) ∨ (∃ l', StkLevel l' ∧ r = .ok (l' ++ s))

theorem pushNode_level {root : Node} {l s : List Node} (h : StkLevel (root :: l)) (node : Node) :
    StepOK (pushNode (l ++ s) root node) s := by
  rcases pushNode_any (l ++ s) root node with h1 | ⟨root', ho, h2⟩
  · exact .inl h1
  · exact .inr ⟨root' :: l, h.replace_top ho, by simpa using h2⟩

end Evalexpr.Spec
