/-
Proofs/NoPanicEval.lean — property C01 for the evaluator: `Operator.eval`, `Operator.evalMut`,
`Node.evalRO`, `Node.evalMut` and the 48 entry points never produce `Err.panic`, for any tree and
any context whose user functions do not panic (the builtins are a hypothesis, proved separately).
-/
import EvalexprVerif.Model.Interface
import EvalexprVerif.Proofs.EvalOrder
import EvalexprVerif.Proofs.NoPanicLex

namespace Evalexpr.Spec
open Evalexpr

/-- user functions that do not panic -/
def NoPanicCtx (c : Ctx) : Prop := ∀ id f arg, c.userFn id = some f → (f arg).isPanic = false
/-- the builtins do not panic (proved separately; a hypothesis here) -/
def BuiltinsNoPanic : Prop := ∀ (b : Builtin) (arg : Value), (b.call arg).isPanic = false

/-! ### the value accessors and the checked arithmetic -/

theorem asNumber_noPanic (v : Value) (e : Err) (h : v.asNumber = .error e) : e.isPanic = false := by
  cases v <;> simp [Value.asNumber] at h <;> subst h <;> rfl
theorem asBoolean_noPanic (v : Value) (e : Err) (h : v.asBoolean = .error e) : e.isPanic = false := by
  cases v <;> simp [Value.asBoolean] at h <;> subst h <;> rfl
theorem asString_noPanic (v : Value) (e : Err) (h : v.asString = .error e) : e.isPanic = false := by
  cases v <;> simp [Value.asString] at h <;> subst h <;> rfl
theorem expectNumberOrString_noPanic (v : Value) (e : Err) (h : expectNumberOrString v = .error e) :
    e.isPanic = false := by
  cases v <;> simp [expectNumberOrString] at h <;> subst h <;> rfl

theorem checkedAdd_noPanic (a b : Int64) : (checkedAdd a b).isPanic = false := by
  unfold checkedAdd; split <;> rfl
theorem checkedSub_noPanic (a b : Int64) : (checkedSub a b).isPanic = false := by
  unfold checkedSub; split <;> rfl
theorem checkedNeg_noPanic (a : Int64) : (checkedNeg a).isPanic = false := by
  unfold checkedNeg; split <;> rfl
theorem checkedMul_noPanic (a b : Int64) : (checkedMul a b).isPanic = false := by
  unfold checkedMul; split <;> rfl
theorem checkedDiv_noPanic (a b : Int64) : (checkedDiv a b).isPanic = false := by
  unfold checkedDiv; split
  · rfl
  · split <;> rfl
theorem checkedRem_noPanic (a b : Int64) : (checkedRem a b).isPanic = false := by
  unfold checkedRem; split
  · rfl
  · split
    · rfl
    · split <;> rfl

/-! ### the context-free arms -/

theorem arith_noPanic (fi : Int64 → Int64 → Res Int64) (ff : Float → Float → Float)
    (hfi : ∀ i j, (fi i j).isPanic = false) (args : List Value) :
    (arith fi ff args).isPanic = false := by
  unfold arith
  split
  · rename_i a b
    cases ha : a.asNumber with
    | error e => exact asNumber_noPanic a e ha
    | ok x =>
      cases hb : b.asNumber with
      | error e => exact asNumber_noPanic b e hb
      | ok y =>
        simp only
        split
        · rw [isPanic_map]; exact hfi _ _
        · rfl
  · rfl

theorem compare_noPanic (c : Cmp) (args : List Value) : (compare c args).isPanic = false := by
  unfold compare
  split
  · rename_i a b
    cases ha : expectNumberOrString a with
    | error e => exact expectNumberOrString_noPanic a e ha
    | ok _ =>
      cases hb : expectNumberOrString b with
      | error e => exact expectNumberOrString_noPanic b e hb
      | ok _ =>
        simp only
        split
        · rfl
        · rfl
        · cases ha' : a.asNumber with
          | error e => exact asNumber_noPanic a e ha'
          | ok x =>
            cases hb' : b.asNumber with
            | error e => exact asNumber_noPanic b e hb'
            | ok y => rfl
  · rfl

theorem logic_noPanic (f : Bool → Bool → Bool) (args : List Value) :
    (logic f args).isPanic = false := by
  unfold logic
  split
  · rename_i a b
    cases ha : a.asBoolean with
    | error e => exact asBoolean_noPanic a e ha
    | ok x =>
      cases hb : b.asBoolean with
      | error e => exact asBoolean_noPanic b e hb
      | ok y => rfl
  · rfl

theorem add_noPanic (args : List Value) : (Operator.evalPure .add args).isPanic = false := by
  simp only [Operator.evalPure]
  split
  · rename_i a b
    cases ha : expectNumberOrString a with
    | error e => exact expectNumberOrString_noPanic a e ha
    | ok _ =>
      cases hb : expectNumberOrString b with
      | error e => exact expectNumberOrString_noPanic b e hb
      | ok _ =>
        simp only
        split
        · rfl
        · rw [isPanic_map]; exact checkedAdd_noPanic _ _
        · split <;> rfl
  · rfl

theorem neg_noPanic (args : List Value) : (Operator.evalPure .neg args).isPanic = false := by
  simp only [Operator.evalPure]
  split
  · rename_i a
    cases ha : a.asNumber with
    | error e => exact asNumber_noPanic a e ha
    | ok x =>
      simp only
      split
      · rw [isPanic_map]; exact checkedNeg_noPanic _
      · rfl
  · rfl

theorem exp_noPanic (args : List Value) : (Operator.evalPure .exp args).isPanic = false := by
  simp only [Operator.evalPure]
  split
  · rename_i a b
    cases ha : a.asNumber with
    | error e => exact asNumber_noPanic a e ha
    | ok x =>
      cases hb : b.asNumber with
      | error e => exact asNumber_noPanic b e hb
      | ok y => rfl
  · rfl

theorem not_noPanic (args : List Value) : (Operator.evalPure .not args).isPanic = false := by
  simp only [Operator.evalPure]
  split
  · rename_i a
    rw [isPanic_map]
    cases ha : a.asBoolean with
    | error e => exact asBoolean_noPanic a e ha
    | ok x => rfl
  · rfl

/-- the context-free arms never panic; the two model-internal panic arms of `evalPure` are the two
operators that `Operator.eval` handles itself -/
theorem evalPure_noPanic (op : Operator) (args : List Value)
    (h₁ : ∀ id, op ≠ .varRead id) (h₂ : ∀ id, op ≠ .fn id) :
    (op.evalPure args).isPanic = false := by
  cases op with
  | varRead id => exact absurd rfl (h₁ id)
  | fn id => exact absurd rfl (h₂ id)
  | add => exact add_noPanic args
  | neg => exact neg_noPanic args
  | exp => exact exp_noPanic args
  | not => exact not_noPanic args
  | sub => exact arith_noPanic _ _ checkedSub_noPanic args
  | mul => exact arith_noPanic _ _ checkedMul_noPanic args
  | div => exact arith_noPanic _ _ checkedDiv_noPanic args
  | mod => exact arith_noPanic _ _ checkedRem_noPanic args
  | gt => exact compare_noPanic _ args
  | lt => exact compare_noPanic _ args
  | geq => exact compare_noPanic _ args
  | leq => exact compare_noPanic _ args
  | and => exact logic_noPanic _ args
  | or => exact logic_noPanic _ args
  | rootNode => simp only [Operator.evalPure]; split <;> rfl
  | eq => simp only [Operator.evalPure]; split <;> rfl
  | neq => simp only [Operator.evalPure]; split <;> rfl
  | tuple => rfl
  | chain => simp only [Operator.evalPure]; split <;> rfl
  | const v => simp only [Operator.evalPure]; split <;> rfl
  | varWrite id => simp only [Operator.evalPure]; split <;> rfl
  | _ => rfl

/-! ### `callFunction`, `Operator.eval` -/

theorem callFunction_noPanic (hb : BuiltinsNoPanic) (id : Str) (arg : Value) (s : St)
    (hc : NoPanicCtx s.ctx) : (callFunction id arg s).1.isPanic = false := by
  unfold callFunction
  cases hu : s.ctx.userFn id with
  | none =>
    simp only
    split
    · split
      · exact hb _ _
      · rfl
    · rfl
  | some f =>
    have hf := hc id f arg hu
    simp only
    cases hr : f arg with
    | ok v => rfl
    | error e =>
      rw [hr] at hf
      cases e <;> first | exact hf | skip
      simp only
      split
      · split
        · exact hb _ _
        · rfl
      · rfl

theorem eval_noPanic (hb : BuiltinsNoPanic) (op : Operator) (args : List Value) (s : St)
    (hc : NoPanicCtx s.ctx) : (op.eval args s).1.isPanic = false := by
  by_cases h₁ : ∃ id, op = .varRead id
  · obtain ⟨id, rfl⟩ := h₁
    simp only [Operator.eval]
    split
    · split <;> rfl
    · rfl
  · by_cases h₂ : ∃ id, op = .fn id
    · obtain ⟨id, rfl⟩ := h₂
      simp only [Operator.eval]
      split
      · exact callFunction_noPanic hb id _ s hc
      · rfl
    · have h₁' : ∀ id, op ≠ .varRead id := fun id h => h₁ ⟨id, h⟩
      have h₂' : ∀ id, op ≠ .fn id := fun id h => h₂ ⟨id, h⟩
      rw [eval_pure op args s h₁' h₂']
      exact evalPure_noPanic op args h₁' h₂'

theorem opEval_fine (hb : BuiltinsNoPanic) (op : Operator) (args : List Value) (s : St)
    (hc : NoPanicCtx s.ctx) :
    (op.eval args s).1.isPanic = false ∧ NoPanicCtx (op.eval args s).2.ctx :=
  ⟨eval_noPanic hb op args s hc, by rw [eval_ctx]; exact hc⟩

/-! ### `Operator.evalMut` -/

theorem hashMap_setValue_funs (h h' : HashMapCtx) (id : Str) (v : Value)
    (hs : h.setValue id v = .ok h') : h'.funs = h.funs := by
  unfold HashMapCtx.setValue at hs
  split at hs
  · split at hs
    · cases hs; rfl
    · cases hs
  · cases hs; rfl

theorem ctx_setValue_userFn (c c' : Ctx) (id : Str) (v : Value) (hs : c.setValue id v = .ok c') :
    c'.userFn = c.userFn := by
  cases c with
  | hashMap h =>
    simp only [Ctx.setValue] at hs
    cases h1 : h.setValue id v with
    | error e => rw [h1] at hs; cases hs
    | ok h' =>
      rw [h1] at hs; cases hs
      funext k
      simp only [Ctx.userFn, hashMap_setValue_funs h h' id v h1]
  | _ => cases hs

theorem ctx_setValue_noPanic_err (c : Ctx) (id : Str) (v : Value) (e : Err)
    (hs : c.setValue id v = .error e) : e.isPanic = false := by
  cases c with
  | hashMap h =>
    simp only [Ctx.setValue] at hs
    cases h1 : h.setValue id v with
    | ok h' => rw [h1] at hs; cases hs
    | error e' =>
      rw [h1] at hs; cases hs
      unfold HashMapCtx.setValue at h1
      split at h1
      · split at h1
        · cases h1
        · cases h1
          rename_i existing _ _
          unfold Err.expectedType
          cases existing.type <;> rfl
      · cases h1
  | _ => cases hs; rfl

/-- the outcome of an evaluation step: no panic, and the user functions still do not panic -/
def Fine (p : Res Value × St) : Prop := p.1.isPanic = false ∧ NoPanicCtx p.2.ctx

theorem store_fine (s : St) (id : Str) (v : Value) (hc : NoPanicCtx s.ctx) :
    Fine (match setValue s id v with
        | (.ok _, s) => ((.ok .empty : Res Value), s)
        | (.error e, s) => (.error e, s)) := by
  rcases setValue_shape s id v with ⟨e, he, h⟩ | ⟨c, hcs, h⟩
  · rw [h]; exact ⟨ctx_setValue_noPanic_err _ _ _ _ he, hc⟩
  · rw [h]
    refine ⟨rfl, ?_⟩
    intro k f arg hk
    simp only [ctx_setValue_userFn _ _ _ _ hcs] at hk
    exact hc k f arg hk

theorem opAssign_fine (base : Operator) (args : List Value) (s : St) (hc : NoPanicCtx s.ctx)
    (hb₁ : ∀ id, base ≠ .varRead id) (hb₂ : ∀ id, base ≠ .fn id) :
    Fine
      (match args with
      | [t, v] =>
        match t.asString with
        | .error e => (.error e, s)
        | .ok target =>
          match Operator.eval (.varRead target) [] s with
          | (.error e, s) => (.error e, s)
          | (.ok left, s) =>
            match (some base : Option Operator) with
            | none => (.error (.panic cl!"eval_mut: unreachable!()"), s)
            | some base =>
              match Operator.eval base [left, v] s with
              | (.error e, s) => (.error e, s)
              | (.ok result, s) =>
                match setValue s target result with
                | (.ok _, s) => (.ok .empty, s)
                | (.error e, s) => (.error e, s)
      | _ => (.error (wrongArgs 2 args.length), s)) := by
  split
  · rename_i t v
    cases ht : t.asString with
    | error e => exact ⟨asString_noPanic t e ht, hc⟩
    | ok target =>
      simp only [Operator.eval]
      cases s.ctx.getValue target with
      | none => exact ⟨rfl, hc⟩
      | some left =>
        simp only
        have hp := evalPure_noPanic base [left, v] hb₁ hb₂
        cases hr : base.evalPure [left, v] with
        | error e => rw [hr] at hp; exact ⟨hp, hc⟩
        | ok result => exact store_fine s target result hc
  · exact ⟨rfl, hc⟩

theorem opEvalMut_fine (hb : BuiltinsNoPanic) (op : Operator) (args : List Value) (s : St)
    (hc : NoPanicCtx s.ctx) :
    (op.evalMut args s).1.isPanic = false ∧ NoPanicCtx (op.evalMut args s).2.ctx := by
  cases hk : Operator.isAssignKind op with
  | false => rw [evalMut_of_not_assign op args s hk]; exact opEval_fine hb op args s hc
  | true =>
    cases op with
    | assign =>
      simp only [Operator.evalMut]
      split
      · rename_i t v
        cases ht : t.asString with
        | error e => exact ⟨asString_noPanic t e ht, hc⟩
        | ok target => exact store_fine s target v hc
      · exact ⟨rfl, hc⟩
    | addAssign => exact opAssign_fine .add args s hc (by intro _ h; cases h) (by intro _ h; cases h)
    | subAssign => exact opAssign_fine .sub args s hc (by intro _ h; cases h) (by intro _ h; cases h)
    | mulAssign => exact opAssign_fine .mul args s hc (by intro _ h; cases h) (by intro _ h; cases h)
    | divAssign => exact opAssign_fine .div args s hc (by intro _ h; cases h) (by intro _ h; cases h)
    | modAssign => exact opAssign_fine .mod args s hc (by intro _ h; cases h) (by intro _ h; cases h)
    | expAssign => exact opAssign_fine .exp args s hc (by intro _ h; cases h) (by intro _ h; cases h)
    | andAssign => exact opAssign_fine .and args s hc (by intro _ h; cases h) (by intro _ h; cases h)
    | orAssign => exact opAssign_fine .or args s hc (by intro _ h; cases h) (by intro _ h; cases h)
    | _ => simp [Operator.isAssignKind] at hk

/-! ### the two tree evaluators -/

/-- the outcome of evaluating a list of children -/
def FineL (p : Res (List Value) × St) : Prop := p.1.isPanic = false ∧ NoPanicCtx p.2.ctx

mutual
theorem evalMut_fine (hb : BuiltinsNoPanic) (n : Node) (s : St) (hc : NoPanicCtx s.ctx) :
    Fine (n.evalMut s) :=
  match n with
  | ⟨op, cs⟩ => by
    have ih := evalMutList_fine hb cs s hc
    rw [evalMut_mk]
    rcases h : evalMutList cs s with ⟨r, s'⟩
    rw [h] at ih
    cases r with
    | error e => exact ih
    | ok args => exact opEvalMut_fine hb op args s' ih.2
theorem evalMutList_fine (hb : BuiltinsNoPanic) (cs : List Node) (s : St) (hc : NoPanicCtx s.ctx) :
    FineL (evalMutList cs s) :=
  match cs with
  | [] => by rw [evalMutList_nil]; exact ⟨rfl, hc⟩
  | c :: cs => by
    have ih := evalMut_fine hb c s hc
    rw [evalMutList_cons]
    rcases h : Node.evalMut c s with ⟨r, s₁⟩
    rw [h] at ih
    cases r with
    | error e => exact ih
    | ok v =>
      have ih2 := evalMutList_fine hb cs s₁ ih.2
      rcases h2 : evalMutList cs s₁ with ⟨r2, s₂⟩
      rw [h2] at ih2
      simp only [h2]
      cases r2 with
      | error e => exact ih2
      | ok vs => exact ⟨rfl, ih2.2⟩
end

mutual
theorem evalRO_fine (hb : BuiltinsNoPanic) (n : Node) (s : St) (hc : NoPanicCtx s.ctx) :
    Fine (n.evalRO s) :=
  match n with
  | ⟨op, cs⟩ => by
    have ih := evalROList_fine hb cs s hc
    rw [evalRO_mk]
    rcases h : evalROList cs s with ⟨r, s'⟩
    rw [h] at ih
    cases r with
    | error e => exact ih
    | ok args => exact opEval_fine hb op args s' ih.2
theorem evalROList_fine (hb : BuiltinsNoPanic) (cs : List Node) (s : St) (hc : NoPanicCtx s.ctx) :
    FineL (evalROList cs s) :=
  match cs with
  | [] => by rw [evalROList_nil]; exact ⟨rfl, hc⟩
  | c :: cs => by
    have ih := evalRO_fine hb c s hc
    rw [evalROList_cons]
    rcases h : Node.evalRO c s with ⟨r, s₁⟩
    rw [h] at ih
    cases r with
    | error e => exact ih
    | ok v =>
      have ih2 := evalROList_fine hb cs s₁ ih.2
      rcases h2 : evalROList cs s₁ with ⟨r2, s₂⟩
      rw [h2] at ih2
      simp only [h2]
      cases r2 with
      | error e => exact ih2
      | ok vs => exact ⟨rfl, ih2.2⟩
end

/-! ### the entry points -/

theorem project_noPanic (k : Kind) (r : Res Value) (h : r.isPanic = false) :
    (k.project r).isPanic = false := by
  cases r with
  | error e => exact h
  | ok v => cases k <;> cases v <;> rfl

theorem fresh_noPanicCtx : NoPanicCtx St.fresh.ctx := by
  intro id f arg h
  simp [St.fresh, Ctx.userFn, alookup] at h

theorem runTreeUntyped_noPanic (hb : BuiltinsNoPanic) (m : Mode) (n : Node) (s : St)
    (hc : NoPanicCtx s.ctx) : (runTreeUntyped m n s).1.isPanic = false := by
  cases m with
  | fresh => exact (evalMut_fine hb n St.fresh fresh_noPanicCtx).1
  | ro => exact (evalRO_fine hb n s hc).1
  | mut_ => exact (evalMut_fine hb n s hc).1

theorem runTree_noPanic (hb : BuiltinsNoPanic) (k : Kind) (m : Mode) (n : Node) (s : St)
    (hc : NoPanicCtx s.ctx) : (runTree k m n s).1.isPanic = false := by
  unfold runTree
  exact project_noPanic k _ (runTreeUntyped_noPanic hb m n s hc)

end Evalexpr.Spec
