/-
Proofs/AgreeFnContext.lean — the `Context` implementations of src/context/mod.rs translated on this run
(`Generated/FnContext.lean`) equal the Model's `Ctx.*` functions at the corresponding context
(`EmptyContext` ↦ `Ctx.empty`, `EmptyContextWithBuiltinFunctions` ↦ `Ctx.emptyWithBuiltins`,
`HashMapContext` ↦ `Ctx.hashMap h`), for all inputs. `&mut self` methods return the new `self` next
to their result; the Model returns `Res Ctx` (`setBuiltinsDisabled`, `setFunction`) or the new context.
`HashMapContext::set_value` writes through the reference obtained from `get_mut(key)`: rendered as
`insert(key, value)` (translate_fn.py rule "entry reference"), and proved equal to `HashMapCtx.setValue`.
-/
import EvalexprVerif.Generated.FnContext
import EvalexprVerif.Translate.Lemmas
import EvalexprVerif.Proofs.AgreeFnError
import EvalexprVerif.Proofs.AgreeFnValueType

namespace Evalexpr.AgreeFn
open Evalexpr

/-! ### `EmptyContext` -/
theorem fn_EmptyContext_get_value_agree (id : Str) :
    Gen.EmptyContext.get_value () id = Ctx.getValue .empty id := rfl
theorem fn_EmptyContext_call_function_agree (id : Str) (arg : Value) :
    Gen.EmptyContext.call_function () id arg = Ctx.callFunction .empty id arg := rfl
theorem fn_EmptyContext_are_builtin_functions_disabled_agree :
    Gen.EmptyContext.are_builtin_functions_disabled () = Ctx.builtinsDisabled .empty := rfl
theorem fn_EmptyContext_set_builtin_functions_disabled_agree (d : Bool) :
    Ctx.setBuiltinsDisabled .empty d = (Gen.EmptyContext.set_builtin_functions_disabled () d).1.map (fun _ => Ctx.empty) := by
  cases d <;> rfl

/-! ### `EmptyContextWithBuiltinFunctions` -/
theorem fn_EmptyContextWithBuiltinFunctions_get_value_agree (id : Str) :
    Gen.EmptyContextWithBuiltinFunctions.get_value () id = Ctx.getValue .emptyWithBuiltins id := rfl
theorem fn_EmptyContextWithBuiltinFunctions_call_function_agree (id : Str) (arg : Value) :
    Gen.EmptyContextWithBuiltinFunctions.call_function () id arg = Ctx.callFunction .emptyWithBuiltins id arg := rfl
theorem fn_EmptyContextWithBuiltinFunctions_are_builtin_functions_disabled_agree :
    Gen.EmptyContextWithBuiltinFunctions.are_builtin_functions_disabled () = Ctx.builtinsDisabled .emptyWithBuiltins := rfl
theorem fn_EmptyContextWithBuiltinFunctions_set_builtin_functions_disabled_agree (d : Bool) :
    Ctx.setBuiltinsDisabled .emptyWithBuiltins d =
      (Gen.EmptyContextWithBuiltinFunctions.set_builtin_functions_disabled () d).1.map (fun _ => Ctx.emptyWithBuiltins) := by
  cases d <;> rfl

/-! ### `HashMapContext` -/
theorem fn_HashMapContext_get_value_agree (h : HashMapCtx) (id : Str) :
    Gen.HashMapContext.get_value h id = Ctx.getValue (.hashMap h) id := rfl
theorem fn_HashMapContext_call_function_agree (h : HashMapCtx) (id : Str) (arg : Value) :
    Gen.HashMapContext.call_function h id arg = Ctx.callFunction (.hashMap h) id arg := by
  simp only [Gen.HashMapContext.call_function, Ctx.callFunction, Ctx.userFn, Rs.get_map, Rs.fn_call_user]
  cases alookup id h.funs <;> rfl
theorem fn_HashMapContext_are_builtin_functions_disabled_agree (h : HashMapCtx) :
    Gen.HashMapContext.are_builtin_functions_disabled h = Ctx.builtinsDisabled (.hashMap h) := rfl
theorem fn_HashMapContext_set_builtin_functions_disabled_agree (h : HashMapCtx) (d : Bool) :
    Ctx.setBuiltinsDisabled (.hashMap h) d =
      (Gen.HashMapContext.set_builtin_functions_disabled h d).1.map
        (fun _ => Ctx.hashMap (Gen.HashMapContext.set_builtin_functions_disabled h d).2) := rfl
theorem fn_HashMapContext_set_function_agree (h : HashMapCtx) (id : Str) (f : UserFn) :
    Ctx.setFunction (.hashMap h) id f =
      (Gen.HashMapContext.set_function h id f).1.map (fun _ => Ctx.hashMap (Gen.HashMapContext.set_function h id f).2) := rfl
theorem fn_HashMapContext_clear_variables_agree (h : HashMapCtx) :
    (Gen.HashMapContext.clear_variables h).2 = h.clearVariables := rfl
theorem fn_HashMapContext_clear_functions_agree (h : HashMapCtx) :
    (Gen.HashMapContext.clear_functions h).2 = h.clearFunctions := rfl
theorem fn_HashMapContext_clear_agree (h : HashMapCtx) :
    (Gen.HashMapContext.clear h).2 = h.clear := rfl

theorem fn_HashMapContext_new_agree : Gen.HashMapContext.new = ({} : HashMapCtx) := rfl
theorem fn_HashMapContext_default_agree : Gen.HashMapContext.default = ({} : HashMapCtx) := rfl

/-- `HashMapContext::set_value`: the result, and the new context when it succeeds -/
theorem fn_HashMapContext_set_value_agree (h : HashMapCtx) (id : Str) (v : Value) :
    HashMapCtx.setValue h id v =
      (Gen.HashMapContext.set_value h id v).1.map (fun _ => (Gen.HashMapContext.set_value h id v).2) := by
  simp only [Gen.HashMapContext.set_value, HashMapCtx.setValue, Rs.get_map, fn_ValueType_from_Value_agree,
    fn_expected_type_agree, Rs.eq_valueType]
  cases alookup id h.vars with
  | none => rfl
  | some existing => by_cases hty : existing.type = v.type <;> simp [hty, Rs.insert, Rs.ret, Rs.MonadFlow.liftFlow, Except.map]
/-- … and a failing `set_value` leaves the context unchanged -/
theorem fn_HashMapContext_set_value_error (h : HashMapCtx) (id : Str) (v : Value) (e : Err)
    (he : (Gen.HashMapContext.set_value h id v).1 = .error e) : (Gen.HashMapContext.set_value h id v).2 = h := by
  simp only [Gen.HashMapContext.set_value, Rs.get_map, fn_ValueType_from_Value_agree, Rs.eq_valueType] at he ⊢
  cases hl : alookup id h.vars with
  | none => simp [hl] at he
  | some existing =>
    by_cases hty : existing.type = v.type <;> simp [hl, hty, Rs.ret, Rs.MonadFlow.liftFlow] at he ⊢
theorem fn_HashMapContext_set_value_ctx_agree (h : HashMapCtx) (id : Str) (v : Value) :
    Ctx.setValue (.hashMap h) id v =
      (Gen.HashMapContext.set_value h id v).1.map (fun _ => Ctx.hashMap (Gen.HashMapContext.set_value h id v).2) := by
  simp only [Ctx.setValue, fn_HashMapContext_set_value_agree]
  cases (Gen.HashMapContext.set_value h id v).1 <;> rfl

/-! ### the default methods of `ContextWithMutableVariables` / `ContextWithMutableFunctions` (kept by a context
that does not override them: the Model's `Ctx.noStorage`) -/
theorem fn_ContextWithMutableVariables_set_value_agree (h : HashMapCtx) (id : Str) (v : Value) :
    Ctx.setValue (.noStorage h) id v =
      (Gen.ContextWithMutableVariables.set_value (.noStorage h) id v).1.map
        (fun _ => (Gen.ContextWithMutableVariables.set_value (.noStorage h) id v).2) := rfl
theorem fn_ContextWithMutableVariables_set_value_unchanged (c : Ctx) (id : Str) (v : Value) :
    Gen.ContextWithMutableVariables.set_value c id v = (.error .contextNotMutable, c) := rfl
theorem fn_ContextWithMutableFunctions_set_function_agree (h : HashMapCtx) (id : Str) (f : UserFn) :
    Ctx.setFunction (.noStorage h) id f =
      (Gen.ContextWithMutableFunctions.set_function (.noStorage h) id f).1.map
        (fun _ => (Gen.ContextWithMutableFunctions.set_function (.noStorage h) id f).2) := rfl
theorem fn_ContextWithMutableFunctions_set_function_unchanged (c : Ctx) (id : Str) (f : UserFn) :
    Gen.ContextWithMutableFunctions.set_function c id f = (.error .contextNotMutable, c) := rfl

/-! ### `IterateVariablesContext`: an iterator is the list of the items it yields. For the `HashMapContext` the order is
the order of the Model's association list (`HashMap` iteration order is unspecified in Rust; the harness compares sorted). -/
theorem fn_EmptyContext_iter_variables_agree : Gen.EmptyContext.iter_variables () = Ctx.iterVariables .empty := rfl
theorem fn_EmptyContext_iter_variable_names_agree :
    Gen.EmptyContext.iter_variable_names () = Ctx.iterVariableNames .empty := rfl
theorem fn_EmptyContextWithBuiltinFunctions_iter_variables_agree :
    Gen.EmptyContextWithBuiltinFunctions.iter_variables () = Ctx.iterVariables .emptyWithBuiltins := rfl
theorem fn_EmptyContextWithBuiltinFunctions_iter_variable_names_agree :
    Gen.EmptyContextWithBuiltinFunctions.iter_variable_names () = Ctx.iterVariableNames .emptyWithBuiltins := rfl
theorem fn_HashMapContext_iter_variables_agree (h : HashMapCtx) :
    Gen.HashMapContext.iter_variables h = Ctx.iterVariables (.hashMap h) := by
  simp [Gen.HashMapContext.iter_variables, Ctx.iterVariables, Rs.iter, Rs.map]
theorem fn_HashMapContext_iter_variable_names_agree (h : HashMapCtx) :
    Gen.HashMapContext.iter_variable_names h = Ctx.iterVariableNames (.hashMap h) := by
  simp [Gen.HashMapContext.iter_variable_names, Ctx.iterVariableNames, Ctx.iterVariables, Rs.keys]

end Evalexpr.AgreeFn
