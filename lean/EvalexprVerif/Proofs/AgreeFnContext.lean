/-
Proofs/AgreeFnContext.lean — the `Context` implementations of src/context/mod.rs translated on this run
(`Generated/FnContext.lean`) equal the Model's `Ctx.*` functions at the corresponding context
(`EmptyContext` ↦ `Ctx.empty`, `EmptyContextWithBuiltinFunctions` ↦ `Ctx.emptyWithBuiltins`,
`HashMapContext` ↦ `Ctx.hashMap h`), for all inputs. `&mut self` methods return the new `self` next
to their result; the Model returns `Res Ctx` (`setBuiltinsDisabled`, `setFunction`) or the new context.
`HashMapContext::set_value` is NOT translated (writes through `get_mut`, outside the subset).
-/
import EvalexprVerif.Generated.FnContext
import EvalexprVerif.Translate.Lemmas

namespace Evalexpr.AgreeFn
open Evalexpr

/-! ### `EmptyContext` -/
theorem fn_EmptyContext_get_value_agree (id : Str) :
    Gen.EmptyContext.get_value () id = Ctx.getValue .empty id := rfl
theorem fn_EmptyContext_call_function_agree (id : Str) (arg : Value) :
    Gen.EmptyContext.call_function () id arg = Ctx.callFunction .empty id arg := rfl
theorem fn_EmptyContext_are_builtin_functions_disabled_agree :
    Gen.EmptyContext.are_builtin_functions_disabled () = Ctx.builtinsDisabled .empty := rfl
theorem fn_EmptyContext_set_builtin_functions_disabled_agree (d : Bool) :
    Ctx.setBuiltinsDisabled .empty d = (Gen.EmptyContext.set_builtin_functions_disabled () d).1.map (fun _ => Ctx.empty) := by
  cases d <;> rfl

/-! ### `EmptyContextWithBuiltinFunctions` -/
theorem fn_EmptyContextWithBuiltinFunctions_get_value_agree (id : Str) :
    Gen.EmptyContextWithBuiltinFunctions.get_value () id = Ctx.getValue .emptyWithBuiltins id := rfl
theorem fn_EmptyContextWithBuiltinFunctions_call_function_agree (id : Str) (arg : Value) :
    Gen.EmptyContextWithBuiltinFunctions.call_function () id arg = Ctx.callFunction .emptyWithBuiltins id arg := rfl
theorem fn_EmptyContextWithBuiltinFunctions_are_builtin_functions_disabled_agree :
    Gen.EmptyContextWithBuiltinFunctions.are_builtin_functions_disabled () = Ctx.builtinsDisabled .emptyWithBuiltins := rfl
theorem fn_EmptyContextWithBuiltinFunctions_set_builtin_functions_disabled_agree (d : Bool) :
    Ctx.setBuiltinsDisabled .emptyWithBuiltins d =
      (Gen.EmptyContextWithBuiltinFunctions.set_builtin_functions_disabled () d).1.map (fun _ => Ctx.emptyWithBuiltins) := by
  cases d <;> rfl

/-! ### `HashMapContext` -/
theorem fn_HashMapContext_get_value_agree (h : HashMapCtx) (id : Str) :
    Gen.HashMapContext.get_value h id = Ctx.getValue (.hashMap h) id := rfl
theorem fn_HashMapContext_call_function_agree (h : HashMapCtx) (id : Str) (arg : Value) :
    Gen.HashMapContext.call_function h id arg = Ctx.callFunction (.hashMap h) id arg := by
  simp only [Gen.HashMapContext.call_function, Ctx.callFunction, Ctx.userFn, Rs.get_map, Rs.fn_call_user, Rs.clone_def]
  cases alookup id h.funs <;> rfl
theorem fn_HashMapContext_are_builtin_functions_disabled_agree (h : HashMapCtx) :
    Gen.HashMapContext.are_builtin_functions_disabled h = Ctx.builtinsDisabled (.hashMap h) := rfl
theorem fn_HashMapContext_set_builtin_functions_disabled_agree (h : HashMapCtx) (d : Bool) :
    Ctx.setBuiltinsDisabled (.hashMap h) d =
      (Gen.HashMapContext.set_builtin_functions_disabled h d).1.map
        (fun _ => Ctx.hashMap (Gen.HashMapContext.set_builtin_functions_disabled h d).2) := rfl
theorem fn_HashMapContext_set_function_agree (h : HashMapCtx) (id : Str) (f : UserFn) :
    Ctx.setFunction (.hashMap h) id f =
      (Gen.HashMapContext.set_function h id f).1.map (fun _ => Ctx.hashMap (Gen.HashMapContext.set_function h id f).2) := rfl
theorem fn_HashMapContext_clear_variables_agree (h : HashMapCtx) :
    (Gen.HashMapContext.clear_variables h).2 = h.clearVariables := rfl
theorem fn_HashMapContext_clear_functions_agree (h : HashMapCtx) :
    (Gen.HashMapContext.clear_functions h).2 = h.clearFunctions := rfl
theorem fn_HashMapContext_clear_agree (h : HashMapCtx) :
    (Gen.HashMapContext.clear h).2 = h.clear := rfl

end Evalexpr.AgreeFn
