/- Proofs/AgreeContext.lean — extracted tables equal the expected ones (see Spec/Tables.lean). -/
import EvalexprVerif.Generated.ContextPolicies
import EvalexprVerif.Spec.Tables

namespace Evalexpr.Agree
open Evalexpr.Spec

theorem contextPolicies_agree : Generated.contextPolicies = Tables.contextPolicies := by decide +kernel

end Evalexpr.Agree
