/-
Proofs/TokenizeLength.lean — tokens are never more numerous than characters.
Phase 1 (`lexNormal` & co.) emits at most one partial token per character, phase 2
(`partialTokensToTokens`) at most one token per partial token.
-/
import EvalexprVerif.Proofs.NoPanicLex

namespace Evalexpr.Spec.Loose
open Evalexpr

theorem pushPartial_length (acc : List PartialToken) (p : PartialToken) :
    (pushPartial acc p).length ≤ acc.length + 1 := by
  unfold pushPartial
  split <;> simp

/-- phase 1, accumulator-generalised: at most one partial token per character (a line comment
running to the end of the input uses one of the two characters of its `//`) -/
theorem lex_length :
    (∀ cs acc, ∀ ps, lexNormal cs acc = .ok ps → ps.length ≤ cs.length + acc.length) ∧
    (∀ cs acc, ∀ ps, lexBlock cs acc = .ok ps → ps.length ≤ cs.length + acc.length) ∧
    (∀ cs acc, ∀ ps, lexLine cs acc = .ok ps → ps.length ≤ cs.length + acc.length + 1) ∧
    (∀ cs s acc, ∀ ps, lexString cs s acc = .ok ps → ps.length ≤ cs.length + acc.length) := by
  apply lexNormal.mutual_induct
  -- lexNormal
  · intro acc ps h
    rw [lexNormal] at h; cases h; simp
  · intro c acc hc ih ps h
    rw [lexNormal] at h; simp only [hc, if_true] at h
    have := ih ps h; simp only [List.length_cons, List.length_nil] at this ⊢; omega
  · intro c acc hc ih ps h
    rw [lexNormal] at h; simp only [hc] at h
    have := ih ps h; have := pushPartial_length acc (charToPartialToken c)
    simp only [List.length_cons, List.length_nil] at *; omega
  · intro c n cs acc hc ih ps h
    rw [lexNormal] at h; simp only [hc, if_true] at h
    have := ih ps h; simp only [List.length_cons] at *; omega
  · intro c n cs acc hc hs hn ih ps h
    rw [lexNormal] at h; simp only [hc, hs, hn, if_true] at h
    have := ih ps h; simp only [List.length_cons] at *; omega
  · intro c n cs acc hc hs hn hn2 ih ps h
    rw [lexNormal] at h; simp only [hc, hs, hn, hn2, if_true] at h
    have := ih ps h; simp only [List.length_cons] at *; omega
  · intro c n cs acc hc hs hn hn2 ih ps h
    rw [lexNormal] at h; simp only [hc, hs, hn, hn2, if_true] at h
    have := ih ps h; have := pushPartial_length acc .slash
    simp only [List.length_cons] at *; omega
  · intro c n cs acc hc hs ih ps h
    rw [lexNormal] at h; simp only [hc, hs] at h
    have := ih ps h; have := pushPartial_length acc (charToPartialToken c)
    simp only [List.length_cons] at *; omega
  -- lexBlock
  · intro acc ps h
    rw [lexBlock] at h; cases h
  · intro c acc ps h
    rw [lexBlock] at h; cases h
  · intro c n cs acc hc ih ps h
    rw [lexBlock] at h; simp only [hc, if_true] at h
    have := ih ps h; simp only [List.length_cons] at *; omega
  · intro c n cs acc hc ih ps h
    rw [lexBlock] at h; simp only [hc] at h
    have := ih ps h; simp only [List.length_cons] at *; omega
  -- lexLine
  · intro acc ih ps h
    rw [lexLine] at h
    have := ih ps h; simp only [List.length_cons, List.length_nil] at *; omega
  · intro c cs acc hc ih ps h
    rw [lexLine] at h; simp only [hc, if_true] at h
    have := ih ps h; simp only [List.length_cons] at *; omega
  · intro c cs acc hc ih ps h
    rw [lexLine] at h; simp only [hc] at h
    have := ih ps h; simp only [List.length_cons] at *; omega
  -- lexString
  · intro s acc ps h
    rw [lexString] at h; cases h
  · intro c s acc hc ih ps h
    rw [lexString] at h; simp only [hc, if_true] at h
    have := ih ps h; simp only [List.length_cons, List.length_nil] at *; omega
  · intro c s acc hc hb ps h
    rw [lexString] at h; simp only [hc, hb, if_true] at h; cases h
  · intro c s acc hc hb ih ps h
    rw [lexString] at h; simp only [hc, hb] at h
    have := ih ps h; simp only [List.length_cons, List.length_nil] at *; omega
  · intro c e cs s acc hc ih ps h
    rw [lexString] at h; simp only [hc, if_true] at h
    have := ih ps h; simp only [List.length_cons] at *; omega
  · intro c e cs s acc hc hb he ih ps h
    rw [lexString] at h; simp only [hc, hb, he, if_true] at h
    have := ih ps h; simp only [List.length_cons] at *; omega
  · intro c e cs s acc hc hb he he2 ih ps h
    rw [lexString] at h; simp only [hc, hb, he, he2, if_true] at h
    have := ih ps h; simp only [List.length_cons] at *; omega
  · intro c e cs s acc hc hb he he2 ps h
    rw [lexString] at h; simp only [hc, hb, he, he2, if_true] at h; cases h
  · intro c e cs s acc hc hb ih ps h
    rw [lexString] at h; simp only [hc, hb] at h
    have := ih ps h; simp only [List.length_cons] at *; omega

theorem strToPartialTokens_length (s : List Char) (ps : List PartialToken)
    (h : strToPartialTokens s = .ok ps) : ps.length ≤ s.length := by
  have := lex_length.1 s [] ps h
  simpa using this

theorem map_ok {α β} (f : α → β) (r : Res α) (y : β) (h : r.map f = .ok y) :
    ∃ x, r = .ok x ∧ y = f x := by
  cases r with
  | error e => cases h
  | ok x => cases h; exact ⟨x, rfl, rfl⟩

theorem toList_length_le {α} (o : Option α) : o.toList.length ≤ 1 := by
  cases o <;> simp

/-- phase 2: at most one token per partial token -/
theorem pttt_length (ps : List PartialToken) :
    ∀ ts, partialTokensToTokens ps = .ok ts → ts.length ≤ ps.length := by
  induction ps using partialTokensToTokens.induct with
  | case1 => intro ts h; rw [partialTokensToTokens] at h; cases h; simp
  | case2 a e h => intro ts h'; rw [partialTokensToTokens, h] at h'; cases h'
  | case3 a t k h hk =>
    intro ts h'; rw [partialTokensToTokens, h] at h'; simp only [hk, if_true] at h'
    cases h'; simp
  | case4 a t k h hk =>
    intro ts h'; rw [partialTokensToTokens, h] at h'; simp only [hk] at h'; cases h'
  | case5 a b e h => intro ts h'; rw [partialTokensToTokens, h] at h'; cases h'
  | case6 a b t k h hk ih =>
    intro ts h'; rw [partialTokensToTokens, h] at h'; simp only [hk, if_true] at h'
    obtain ⟨x, hx, rfl⟩ := map_ok _ _ _ h'
    have := ih x hx; have := toList_length_le t
    simp only [List.length_append, List.length_cons, List.length_nil] at *; omega
  | case7 a b t k h hk1 hk2 =>
    intro ts h'; rw [partialTokensToTokens, h] at h'
    simp only [hk1, hk2, if_true] at h'
    cases h'; have := toList_length_le t
    simp only [List.length_cons, List.length_nil]; omega
  | case8 a b t k h hk1 hk2 =>
    intro ts h'; rw [partialTokensToTokens, h] at h'
    simp only [hk1, hk2] at h'; cases h'
  | case9 a b c rest e h => intro ts h'; rw [partialTokensToTokens, h] at h'; cases h'
  | case10 a b c rest t k h hk ih =>
    intro ts h'; rw [partialTokensToTokens, h] at h'; simp only [hk, if_true] at h'
    obtain ⟨x, hx, rfl⟩ := map_ok _ _ _ h'
    have := ih x hx; have := toList_length_le t
    simp only [List.length_append, List.length_cons] at *; omega
  | case11 a b c rest t k h hk1 hk2 ih =>
    intro ts h'; rw [partialTokensToTokens, h] at h'
    simp only [hk1, hk2, if_true] at h'
    obtain ⟨x, hx, rfl⟩ := map_ok _ _ _ h'
    have := ih x hx; have := toList_length_le t
    simp only [List.length_append, List.length_cons] at *; omega
  | case12 a b c rest t k h hk1 hk2 hk3 ih =>
    intro ts h'; rw [partialTokensToTokens, h] at h'
    simp only [hk1, hk2, hk3, if_true] at h'
    obtain ⟨x, hx, rfl⟩ := map_ok _ _ _ h'
    have := ih x hx; have := toList_length_le t
    simp only [List.length_append, List.length_cons] at *; omega
  | case13 a b c rest t k h hk1 hk2 hk3 =>
    intro ts h'; rw [partialTokensToTokens, h] at h'
    simp only [hk1, hk2, hk3] at h'; cases h'

theorem tokenize_length' (s : List Char) (ts : List Token) (h : tokenize s = .ok ts) :
    ts.length ≤ s.length := by
  unfold tokenize at h
  cases hl : strToPartialTokens s with
  | error e => rw [hl] at h; cases h
  | ok ps =>
    rw [hl] at h
    have h1 := strToPartialTokens_length s ps hl
    have h2 := pttt_length ps ts h
    omega

end Evalexpr.Spec.Loose
