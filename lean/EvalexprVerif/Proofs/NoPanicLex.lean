/-
Proofs/NoPanicLex.lean — property C01 for the lexer: `tokenize` never produces `Err.panic`.
The character loop has no panic site; the only one is the slice `tokens[cutoff..]` in
`partialTokensToTokens`, and `tokenStep` only returns a cutoff that is covered by the partial
tokens it has looked at.
-/
import EvalexprVerif.Model.Lexer

namespace Evalexpr.Spec
open Evalexpr

/-! ### small facts on `Res.isPanic` -/

@[simp] theorem isPanic_ok {α} (a : α) : Res.isPanic (Except.ok a : Res α) = false := rfl
@[simp] theorem isPanic_error {α} (e : Err) : Res.isPanic (Except.error e : Res α) = e.isPanic := rfl

theorem isPanic_map {α β} (f : α → β) (r : Res α) : Res.isPanic (r.map f) = r.isPanic := by
  cases r <;> rfl

theorem isPanic_map' {α β} (f : α → β) (r : Res α) : Res.isPanic (f <$> r) = r.isPanic := by
  cases r <;> rfl

/-! ### the character loop -/

theorem lex_noPanic :
    (∀ cs acc, (lexNormal cs acc).isPanic = false) ∧
    (∀ cs acc, (lexBlock cs acc).isPanic = false) ∧
    (∀ cs acc, (lexLine cs acc).isPanic = false) ∧
    (∀ cs s acc, (lexString cs s acc).isPanic = false) := by
  apply lexNormal.mutual_induct
  all_goals intros
  all_goals
    first
    | (rw [lexNormal]; simp only [*, Bool.false_eq_true, if_true, if_false]; done)
    | (rw [lexBlock]; simp only [*, Bool.false_eq_true, if_true, if_false]; done)
    | (rw [lexLine]; simp only [*, Bool.false_eq_true, if_true, if_false]; done)
    | (rw [lexString]; simp only [*, Bool.false_eq_true, if_true, if_false]; done)
    | (rw [lexNormal]; rfl)
    | (rw [lexBlock]; rfl)
    | (rw [lexLine]; rfl)
    | (rw [lexString]; rfl)
    | (rw [lexString]; simp only [*, Bool.false_eq_true, if_true, if_false]; rfl)

/-! ### `partialTokensToTokens` -/

/-- the cutoff is 1, or 2 with a second partial token, or 3 with a second and a third one -/
theorem tokenStep_cutoff (a : PartialToken) (s t : Option PartialToken) (tk : Option Token) (k : Nat)
    (h : tokenStep a s t = .ok (tk, k)) :
    k = 1 ∨ (k = 2 ∧ s ≠ none) ∨ (k = 3 ∧ s ≠ none ∧ t ≠ none) := by
  unfold tokenStep at h
  repeat' split at h
  all_goals first | cases h | skip
  all_goals simp

theorem tokenStep_noPanic (a : PartialToken) (s t : Option PartialToken) (e : Err)
    (h : tokenStep a s t = .error e) : e.isPanic = false := by
  unfold tokenStep at h
  repeat' split at h
  all_goals first | cases h | skip
  all_goals rfl



theorem pttt_noPanic (ps : List PartialToken) : (partialTokensToTokens ps).isPanic = false := by
  induction ps using partialTokensToTokens.induct with
  | case1 => rfl
  | case2 a e h => rw [partialTokensToTokens, h]; exact tokenStep_noPanic _ _ _ _ h
  | case3 a t k h hk => rw [partialTokensToTokens, h]; simp only [hk, if_true]; rfl
  | case4 a t k h hk =>
    have := tokenStep_cutoff _ _ _ _ _ h
    simp at hk this; omega
  | case5 a b e h => rw [partialTokensToTokens, h]; exact tokenStep_noPanic _ _ _ _ h
  | case6 a b t k h hk ih =>
    rw [partialTokensToTokens, h]; simp only [hk, if_true]; rw [isPanic_map]; exact ih
  | case7 a b t k h hk1 hk2 =>
    rw [partialTokensToTokens, h]; simp only [hk1, hk2, Bool.false_eq_true, if_true, if_false]; rfl
  | case8 a b t k h hk1 hk2 =>
    have := tokenStep_cutoff _ _ _ _ _ h
    simp at hk1 hk2 this; omega
  | case9 a b c rest e h => rw [partialTokensToTokens, h]; exact tokenStep_noPanic _ _ _ _ h
  | case10 a b c rest t k h hk ih =>
    rw [partialTokensToTokens, h]; simp only [hk, if_true]; rw [isPanic_map]; exact ih
  | case11 a b c rest t k h hk1 hk2 ih =>
    rw [partialTokensToTokens, h]; simp only [hk1, hk2, Bool.false_eq_true, if_true, if_false]
    rw [isPanic_map]; exact ih
  | case12 a b c rest t k h hk1 hk2 hk3 ih =>
    rw [partialTokensToTokens, h]
    simp only [hk1, hk2, hk3, Bool.false_eq_true, if_true, if_false]
    rw [isPanic_map]; exact ih
  | case13 a b c rest t k h hk1 hk2 hk3 =>
    have := tokenStep_cutoff _ _ _ _ _ h
    simp at hk1 hk2 hk3 this; omega

/-- tokenizing never panics -/
theorem tokenize_noPanic (s : List Char) : (tokenize s).isPanic = false := by
  unfold tokenize strToPartialTokens
  have h := lex_noPanic.1 s []
  cases hl : lexNormal s [] with
  | error e => rw [hl] at h; exact h
  | ok ps => exact pttt_noPanic ps

end Evalexpr.Spec
