/-
Proofs/Malformed.lean — property C13: the tree builder and the ill-formedness recogniser of
Spec/WellFormed.lean.

* `C13_juxtaposed` (iii)  — Proofs/MalformedJuxt.lean
* `C13_unbalanced` (i), `C13_balanced_ok` (i') — Proofs/MalformedBalance.lean
* `C13_operand` (ii) — this file; the invariant is in Proofs/MalformedStep.lean:
  the potential of the root stack (missing operands of all nodes + one for every level whose
  current item is still empty) pays for every open parenthesis level, for an awaited operand, and
  for a violation seen so far.
-/
import EvalexprVerif.Proofs.MalformedStep

namespace Evalexpr.Spec
open Evalexpr

/-- the recogniser (ii) with the right-hand check shifted to the following token -/
def lacks2 : Option Token → List Token → Bool
  | prev, [] => opTok prev
  | prev, t :: rest => viol prev t || lacks2 (some t) rest

theorem lacks2_of_right (t : Token) (rest : List Token) (h : lacksRightAt t rest.head? = true) :
    lacks2 (some t) rest = true := by
  cases rest with
  | nil =>
    simp only [lacksRightAt, List.head?, Bool.and_true] at h
    simpa [lacks2, opTok] using h
  | cons n r =>
    simp only [lacksRightAt, List.head?, Bool.and_eq_true] at h
    simp only [lacks2, viol, opTok, Bool.or_eq_true, Bool.and_eq_true]
    exact .inl (.inr ⟨by simpa using h.1, h.2⟩)

theorem lacks2_of_lacks (ts : List Token) : ∀ prev, lacksOperandIn prev ts = true →
    lacks2 prev ts = true := by
  induction ts with
  | nil => intro prev h; simp [lacksOperandIn] at h
  | cons t rest ih =>
    intro prev h
    simp only [lacksOperandIn, Bool.or_eq_true] at h
    simp only [lacks2, Bool.or_eq_true]
    rcases h with (h | h) | h
    · exact .inl (by simp [viol, h])
    · exact .inr (lacks2_of_right t rest h)
    · exact .inr (ih _ h)

/-- what the loop guarantees at the end of the input -/
def FinalOK (lv : List Lvl) : Prop :=
  WFs lv ∧ lv ≠ [] ∧ (lv.length = 1 → 1 ≤ defectList (flat lv))

theorem final_of_inv (prev : Option Token) (lv : List Lvl) (b : Nat)
    (h : Inv prev none lv b) (hv : b = 1 ∨ opTok prev = true) : FinalOK lv := by
  obtain ⟨hw, hne, hpsi, hopen⟩ := h
  refine ⟨hw, hne, ?_⟩
  intro hlen
  cases lv with
  | nil => exact absurd rfl hne
  | cons L ls =>
    have : ls = [] := by cases ls with
      | nil => rfl
      | cons _ _ => simp at hlen
    subst this
    obtain ⟨f1, f2, f3⟩ := prev_facts prev
    have hlo := L.open_le
    simp only [Psi, List.length_cons, List.length_nil, Lvl.pot, topOpen] at hpsi hopen
    simp only [flat, List.append_nil]
    have haw : aw prev none = if prevRS prev then 0 else 1 := by simp [aw, complete, optLeft]
    rw [haw] at hpsi
    rcases hv with hb | hop
    · subst hb
      cases hrs : prevRS prev with
      | true => have := hopen (f2 hrs); omega
      | false => simp [hrs] at hpsi; omega
    · have := hopen (f3 hop)
      have hrs : prevRS prev = false := by
        cases hrs : prevRS prev with
        | false => rfl
        | true => rw [f1 hrs] at hop; cases hop
      simp [hrs] at hpsi; omega

theorem loop_inv (ts : List Token) : ∀ (prev : Option Token) (lv : List Lvl) (b : Nat),
    b ≤ 1 → Inv prev ts.head? lv b → ∀ st',
    treeLoop ts (flat lv) (prevRS prev) (prevId prev) = .ok st' →
    (b = 1 ∨ lacks2 prev ts = true) → ∃ lv', st' = flat lv' ∧ FinalOK lv' := by
  induction ts with
  | nil =>
    intro prev lv b _ h st' hs hv
    simp only [treeLoop] at hs
    cases hs
    exact ⟨lv, rfl, final_of_inv prev lv b h (by simpa [lacks2] using hv)⟩
  | cons t rest ih =>
    intro prev lv b hb h st' hs hv
    simp only [treeLoop] at hs
    cases h1 : treeStep (flat lv) (prevRS prev) (prevId prev) t rest.head? with
    | error e => rw [h1] at hs; cases hs
    | ok st1 =>
      rw [h1] at hs
      obtain ⟨lv1, rfl, hinv⟩ := step_inv prev t rest.head? lv b h st1 h1
      refine ih (some t) lv1 _ ?_ hinv st' hs ?_
      · split <;> omega
      · simp only [lacks2, Bool.or_eq_true] at hv
        rcases hv with hv | hv | hv
        · left; split <;> omega
        · left; simp [hv]
        · right; exact hv

theorem initial_inv (cur : Option Token) : Inv none cur [.r Node.rootNode] 0 := by
  refine ⟨WFs.cons rootLvl_WF (fun _ h => by cases h), by simp, ?_, ?_⟩
  · simp [Psi, rootLvl_pot, aw, complete, prevRS]
  · intro h; simp [itemStart] at h

/-- (ii) a prefix or binary operator (other than `,` `;`) that lacks an operand: if a tree is
built at all, it contains an operator with the wrong number of operands -/
theorem C13_operand (ts : List Token) (h : lacksOperandIn none ts = true) (t : Node)
    (ht : tokensToOperatorTree ts = .ok t) : deficient t = true := by
  unfold tokensToOperatorTree at ht
  cases hl : treeLoop ts [Node.rootNode] false false with
  | error e => rw [hl] at ht; cases ht
  | ok st' =>
    rw [hl] at ht
    dsimp only at ht
    obtain ⟨lv', rfl, hw, hne, hfin⟩ := loop_inv ts none [.r Node.rootNode] 0 (by omega)
      (initial_inv _) st' hl (.inr (lacks2_of_lacks ts none h))
    cases lv' with
    | nil => exact absurd rfl hne
    | cons L ls =>
      simp only [flat] at ht
      rcases collapse_lvl hw.head (flat ls) with ⟨e, he⟩ | ⟨R, hR, hc, hd⟩
      · rw [he] at ht; cases ht
      · rw [hc] at ht
        dsimp only at ht
        by_cases hlen : (R :: flat ls).length > 1
        · simp only [hlen, if_true] at ht; cases ht
        · simp only [hlen, if_false] at ht
          cases ht
          have hls : ls = [] := by
            have h0 : (flat ls).length ≤ 0 := by
              simp only [List.length_cons] at hlen; omega
            have := hw.tail.stk.length_ge
            cases ls with
            | nil => rfl
            | cons _ _ => simp only [List.length_cons] at this; omega
          subst hls
          have := hfin rfl
          simp only [flat, List.append_nil] at this
          exact defect_pos_deficient _ (by omega)

end Evalexpr.Spec
