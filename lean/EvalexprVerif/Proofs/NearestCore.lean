/-
Proofs/NearestCore.lean — the structure of `F64.roundRat`: its local definitions as top-level
functions, and the invariants of the exponent search.
-/
import EvalexprVerif.Proofs.NearestArith
import EvalexprVerif.Proofs.NearestConst
import Mathlib.Tactic.Ring
import Mathlib.Tactic.Positivity

namespace Evalexpr.Spec.Nearest
open Evalexpr

/-- `scaled` inside `roundRat` -/
def scaledP (n d : Nat) (e2 : Int) : Nat × Nat :=
  if e2 ≥ 0 then (n, d * 2 ^ e2.toNat) else (n * 2 ^ (-e2).toNat, d)

/-- `fix` inside `roundRat` -/
def fixE (n d : Nat) (e2 : Int) : Int :=
  if (scaledP n d e2).1 / (scaledP n d e2).2 < 2 ^ 52 then e2 - 1
  else if (scaledP n d e2).1 / (scaledP n d e2).2 ≥ 2 ^ 53 then e2 + 1 else e2

/-- the initial exponent estimate -/
def estE (n d : Nat) : Int := (n.log2 : Int) - (d.log2 : Int) - 52

/-- the final (clamped) exponent -/
def finalE (n d : Nat) : Int :=
  if fixE n d (fixE n d (estE n d)) < -1074 then -1074 else fixE n d (fixE n d (estE n d))

/-- renormalise and assemble the bit pattern -/
def assemble (q : Nat) (e2 : Int) : UInt64 :=
  if (if q ≥ 2 ^ 53 then (q / 2, e2 + 1) else (q, e2)).1 < 2 ^ 52 then
    (if q ≥ 2 ^ 53 then (q / 2, e2 + 1) else (q, e2)).1.toUInt64
  else if (if q ≥ 2 ^ 53 then (q / 2, e2 + 1) else (q, e2)).2 + 1075 ≥ 2047 then 0x7ff0000000000000
  else (((if q ≥ 2 ^ 53 then (q / 2, e2 + 1) else (q, e2)).2 + 1075).toNat * 2 ^ 52 +
    ((if q ≥ 2 ^ 53 then (q / 2, e2 + 1) else (q, e2)).1 - 2 ^ 52)).toUInt64

theorem roundRat_eq (n d : Nat) (hn : n ≠ 0) :
    F64.roundRat n d =
      assemble (roundHE (scaledP n d (finalE n d)).1 (scaledP n d (finalE n d)).2) (finalE n d) := by
  unfold F64.roundRat
  simp only [beq_iff_eq, hn, if_false, assemble, finalE, fixE, estE, scaledP, roundHE]
  congr 1

/-! ### `scaled` -/

theorem scaledP_spec (n d : Nat) (e : Int) :
    ∃ i j : Nat, scaledP n d e = (n * 2 ^ i, d * 2 ^ j) ∧ (j : Int) - i = e := by
  unfold scaledP
  split
  · exact ⟨0, e.toNat, by simp, by omega⟩
  · exact ⟨(-e).toNat, 0, by simp, by omega⟩

theorem scaledP_snd_pos (n d : Nat) (hd : 0 < d) (e : Int) : 0 < (scaledP n d e).2 := by
  obtain ⟨i, j, h, _⟩ := scaledP_spec n d e
  rw [h]; positivity

/-- lowering the exponent by `t` multiplies the quotient by `2^t` -/
theorem scaledP_shift (n d : Nat) (e : Int) (t : Nat) :
    (scaledP n d e).1 * (scaledP n d (e + t)).2 =
      2 ^ t * (scaledP n d (e + t)).1 * (scaledP n d e).2 := by
  obtain ⟨i, j, h, hij⟩ := scaledP_spec n d e
  obtain ⟨i', j', h', hij'⟩ := scaledP_spec n d (e + t)
  rw [h, h']
  have hx : i + j' = t + i' + j := by omega
  calc n * 2 ^ i * (d * 2 ^ j') = n * d * 2 ^ (i + j') := by ring
    _ = n * d * 2 ^ (t + i' + j) := by rw [hx]
    _ = 2 ^ t * (n * 2 ^ i') * (d * 2 ^ j) := by ring

/-- the exact relation between `n/d` and `a/b` at exponent `e ≥ −1074` (`P1074 = 2^1074`) -/
theorem scaledP_rel (n d : Nat) (e : Int) (he : -1074 ≤ e) :
    n * P1074 * (scaledP n d e).2 = (scaledP n d e).1 * d * 2 ^ (e + 1074).toNat := by
  obtain ⟨i, j, h, hij⟩ := scaledP_spec n d e
  rw [h]
  have hx : P1074 * 2 ^ j = 2 ^ i * 2 ^ (e + 1074).toNat :=
    P1074_mul_pow i j (e + 1074).toNat (by omega)
  generalize P1074 = P at *
  generalize 2 ^ (e + 1074).toNat = Q at *
  calc n * P * (d * 2 ^ j) = n * d * (P * 2 ^ j) := by ring
    _ = n * d * (2 ^ i * Q) := by rw [hx]
    _ = n * 2 ^ i * d * Q := by ring

/-- at the initial estimate the quotient lies in `(2^51, 2^53)` -/
theorem est_bounds (n d : Nat) (hn : 0 < n) (hd : 0 < d) :
    2 ^ 51 * (scaledP n d (estE n d)).2 ≤ (scaledP n d (estE n d)).1 ∧
    (scaledP n d (estE n d)).1 < 2 ^ 53 * (scaledP n d (estE n d)).2 := by
  obtain ⟨i, j, h, hij⟩ := scaledP_spec n d (estE n d)
  rw [h]
  unfold estE at hij
  have hn1 : 2 ^ n.log2 ≤ n := Nat.log2_self_le (by omega)
  have hn2 : n < 2 ^ (n.log2 + 1) := Nat.lt_log2_self
  have hd1 : 2 ^ d.log2 ≤ d := Nat.log2_self_le (by omega)
  have hd2 : d < 2 ^ (d.log2 + 1) := Nat.lt_log2_self
  have hi : 0 < 2 ^ i := by positivity
  have hj : 0 < 2 ^ j := by positivity
  constructor
  · have hx : 51 + (d.log2 + 1) + j = n.log2 + i := by omega
    calc 2 ^ 51 * (d * 2 ^ j) ≤ 2 ^ 51 * (2 ^ (d.log2 + 1) * 2 ^ j) :=
          Nat.mul_le_mul_left _ (Nat.mul_le_mul_right _ (Nat.le_of_lt hd2))
      _ = 2 ^ (51 + (d.log2 + 1) + j) := by ring
      _ = 2 ^ (n.log2 + i) := by rw [hx]
      _ = 2 ^ n.log2 * 2 ^ i := by ring
      _ ≤ n * 2 ^ i := Nat.mul_le_mul_right _ hn1
  · have hx : n.log2 + 1 + i = 53 + d.log2 + j := by omega
    calc n * 2 ^ i < 2 ^ (n.log2 + 1) * 2 ^ i := Nat.mul_lt_mul_of_pos_right hn2 hi
      _ = 2 ^ (n.log2 + 1 + i) := by ring
      _ = 2 ^ (53 + d.log2 + j) := by rw [hx]
      _ = 2 ^ 53 * (2 ^ d.log2 * 2 ^ j) := by ring
      _ ≤ 2 ^ 53 * (d * 2 ^ j) := Nat.mul_le_mul_left _ (Nat.mul_le_mul_right _ hd1)

/-! ### `fix` -/

/-- the quotient at exponent `e` lies in `[2^52, 2^53)` -/
def InB (n d : Nat) (e : Int) : Prop :=
  2 ^ 52 * (scaledP n d e).2 ≤ (scaledP n d e).1 ∧ (scaledP n d e).1 < 2 ^ 53 * (scaledP n d e).2

theorem fixE_of_InB (n d : Nat) (hd : 0 < d) (e : Int) (h : InB n d e) : fixE n d e = e := by
  have hb := scaledP_snd_pos n d hd e
  unfold fixE
  have h1 : ¬ (scaledP n d e).1 / (scaledP n d e).2 < 2 ^ 52 := by
    rw [Nat.div_lt_iff_lt_mul hb]; exact Nat.not_lt.2 h.1
  have h2 : ¬ (scaledP n d e).1 / (scaledP n d e).2 ≥ 2 ^ 53 := by
    rw [ge_iff_le, Nat.le_div_iff_mul_le hb]; exact Nat.not_le.2 h.2
  rw [if_neg h1, if_neg h2]

theorem fixE_of_wide (n d : Nat) (hd : 0 < d) (e : Int)
    (h1 : 2 ^ 51 * (scaledP n d e).2 ≤ (scaledP n d e).1)
    (h2 : (scaledP n d e).1 < 2 ^ 53 * (scaledP n d e).2) : InB n d (fixE n d e) := by
  have hb := scaledP_snd_pos n d hd e
  unfold fixE
  by_cases c1 : (scaledP n d e).1 / (scaledP n d e).2 < 2 ^ 52
  · rw [if_pos c1]
    rw [Nat.div_lt_iff_lt_mul hb] at c1
    have hb' := scaledP_snd_pos n d hd (e - 1)
    have hs := scaledP_shift n d (e - 1) 1
    have he : e - 1 + ((1 : Nat) : Int) = e := by omega
    rw [he] at hs
    unfold InB
    generalize (scaledP n d e).1 = a at *
    generalize (scaledP n d e).2 = b at *
    generalize (scaledP n d (e - 1)).1 = a' at *
    generalize (scaledP n d (e - 1)).2 = b' at *
    constructor
    · apply Nat.le_of_mul_le_mul_right _ hb
      calc 2 ^ 52 * b' * b = 2 * (2 ^ 51 * b) * b' := by ring
        _ ≤ 2 * a * b' := Nat.mul_le_mul_right _ (Nat.mul_le_mul_left _ h1)
        _ = a' * b := by rw [hs]; ring
    · apply Nat.lt_of_mul_lt_mul_right (a := b)
      calc a' * b = 2 * a * b' := by rw [hs]; ring
        _ < 2 * (2 ^ 52 * b) * b' :=
            Nat.mul_lt_mul_of_pos_right (Nat.mul_lt_mul_of_pos_left c1 (by decide)) hb'
        _ = 2 ^ 53 * b' * b := by ring
  · rw [if_neg c1]
    have c2 : ¬ (scaledP n d e).1 / (scaledP n d e).2 ≥ 2 ^ 53 := by
      rw [ge_iff_le, Nat.le_div_iff_mul_le hb]; exact Nat.not_le.2 h2
    rw [if_neg c2]
    rw [Nat.div_lt_iff_lt_mul hb] at c1
    exact ⟨Nat.not_lt.1 c1, h2⟩

theorem InB_fix_fix (n d : Nat) (hn : 0 < n) (hd : 0 < d) :
    InB n d (fixE n d (fixE n d (estE n d))) := by
  have h := est_bounds n d hn hd
  have h1 := fixE_of_wide n d hd _ h.1 h.2
  rw [fixE_of_InB n d hd _ h1]
  exact h1

/-! ### the final exponent -/

theorem finalE_ge (n d : Nat) : -1074 ≤ finalE n d := by
  unfold finalE; split <;> omega

theorem finalE_lt (n d : Nat) (hn : 0 < n) (hd : 0 < d) :
    (scaledP n d (finalE n d)).1 / (scaledP n d (finalE n d)).2 < 2 ^ 53 := by
  have h := InB_fix_fix n d hn hd
  rw [Nat.div_lt_iff_lt_mul (scaledP_snd_pos n d hd _)]
  unfold finalE
  split
  · rename_i hlt
    generalize fixE n d (fixE n d (estE n d)) = e at *
    obtain ⟨t, ht⟩ : ∃ t : Nat, (-1074 : Int) = e + t := ⟨(-1074 - e).toNat, by omega⟩
    have hs := scaledP_shift n d e t
    rw [← ht] at hs
    have hb := scaledP_snd_pos n d hd e
    have hb' := scaledP_snd_pos n d hd (-1074)
    have ht2 : 0 < 2 ^ t := by positivity
    have h2 := h.2
    generalize (scaledP n d e).1 = a at *
    generalize (scaledP n d e).2 = b at *
    generalize (scaledP n d (-1074)).1 = a' at *
    generalize (scaledP n d (-1074)).2 = b' at *
    apply Nat.lt_of_mul_lt_mul_right (a := b)
    calc a' * b ≤ 2 ^ t * a' * b := by
          rw [Nat.mul_assoc]; exact Nat.le_mul_of_pos_left _ ht2
      _ = a * b' := hs.symm
      _ < 2 ^ 53 * b * b' := Nat.mul_lt_mul_of_pos_right h2 hb'
      _ = 2 ^ 53 * b' * b := by ring
  · exact h.2

theorem finalE_ge_or (n d : Nat) (hn : 0 < n) (hd : 0 < d) :
    2 ^ 52 ≤ (scaledP n d (finalE n d)).1 / (scaledP n d (finalE n d)).2 ∨ finalE n d = -1074 := by
  have h := InB_fix_fix n d hn hd
  unfold finalE
  split
  · right; rfl
  · left
    rw [Nat.le_div_iff_mul_le (scaledP_snd_pos n d hd _)]
    exact h.1

end Evalexpr.Spec.Nearest
