/-
Proofs/LexFloat.lean — the only way `F64.parse (w ++ sign :: d)` can succeed for a word `w`:
`w` is `<mantissa>e` and `d` is a non-empty digit string.
-/
import EvalexprVerif.Proofs.LexChars

namespace Evalexpr.Spec
open Evalexpr

/-- the exponent part of `F64.parseMagnitude` -/
def expoOf (rest : Str) : Option Int :=
  match rest with
  | [] => some 0
  | e :: r =>
    if e == 'e' || e == 'E' then
      let (neg, r) := match r with
        | '-' :: r' => (true, r') | '+' :: r' => (false, r') | r' => (false, r')
      if r.isEmpty || !r.all F64.isDigit then none
      else
        let v := F64.digitsVal r
        some (if neg then -(v : Int) else v)
    else none

def isSignChar (c : Char) : Bool := c == '+' || c == '-'

theorem expoOf_shape (rest : Str) (e10 : Int) (h : expoOf rest = some e10) :
    rest = [] ∨ ∃ e r, rest = e :: r ∧ (e = 'e' ∨ e = 'E') ∧
      ((r ≠ [] ∧ r.all F64.isDigit = true) ∨
        ∃ sg r', r = sg :: r' ∧ isSignChar sg = true ∧ r' ≠ [] ∧ r'.all F64.isDigit = true) := by
  cases rest with
  | nil => exact Or.inl rfl
  | cons e r =>
    right
    refine ⟨e, r, rfl, ?_⟩
    simp only [expoOf] at h
    split at h
    · rename_i he
      refine ⟨by simpa using he, ?_⟩
      split at h
      · rename_i r'
        right
        refine ⟨'-', r', rfl, by decide, ?_⟩
        simp only [] at h
        split at h
        · cases h
        · rename_i hh; simp at hh; exact ⟨by simpa using hh.1, by simpa using hh.2⟩
      · rename_i r'
        right
        refine ⟨'+', r', rfl, by decide, ?_⟩
        simp only [] at h
        split at h
        · cases h
        · rename_i hh; simp at hh; exact ⟨by simpa using hh.1, by simpa using hh.2⟩
      · left
        simp only [] at h
        split at h
        · cases h
        · rename_i hh; simp at hh; exact ⟨by simpa using hh.1, by simpa using hh.2⟩
    · cases h

theorem parseMagnitude_shape (cs : Str) (h : F64.parseMagnitude cs ≠ none) :
    (cs.map F64.lowerAscii = cl!"inf" ∨ cs.map F64.lowerAscii = cl!"infinity" ∨
      cs.map F64.lowerAscii = cl!"nan") ∨
    ∃ pre rest e10, cs = pre ++ rest ∧ (∀ c ∈ pre, F64.isDigit c = true ∨ c = '.') ∧
      startsLikeNumber pre = true ∧ expoOf rest = some e10 := by
  unfold F64.parseMagnitude at h
  simp only [] at h
  split at h
  · rename_i h1; left; simp only [Bool.or_eq_true, beq_iff_eq] at h1; rcases h1 with h1 | h1
    · exact Or.inl h1
    · exact Or.inr (Or.inl h1)
  split at h
  · rename_i h1; left; right; right; simpa using h1
  right
  have hcs : cs = List.takeWhile F64.isDigit cs ++ List.dropWhile F64.isDigit cs := by simp
  have hI : ∀ c ∈ List.takeWhile F64.isDigit cs, F64.isDigit c = true :=
    List.all_eq_true.1 List.all_takeWhile
  generalize List.takeWhile F64.isDigit cs = I at *
  generalize List.dropWhile F64.isDigit cs = D at *
  split at h
  · rename_i r
    simp only [] at h
    have hfp : ∀ c ∈ List.takeWhile F64.isDigit r, F64.isDigit c = true :=
      List.all_eq_true.1 List.all_takeWhile
    have hr : r = List.takeWhile F64.isDigit r ++ List.dropWhile F64.isDigit r := by simp
    generalize List.takeWhile F64.isDigit r = fp at *
    generalize List.dropWhile F64.isDigit r = rest at *
    split at h
    · exact absurd rfl h
    rename_i hne
    split at h
    · exact absurd rfl h
    rename_i e10 heq
    refine ⟨I ++ '.' :: fp, rest, e10, by rw [hcs, hr]; simp, ?_, ?_, heq⟩
    · intro c hc
      simp only [List.mem_append, List.mem_cons] at hc
      rcases hc with hc | hc | hc
      · exact Or.inl (hI c hc)
      · exact Or.inr hc
      · exact Or.inl (hfp c hc)
    · cases I with
      | nil => simp [startsLikeNumber]
      | cons i I => simp [startsLikeNumber, hI i (by simp)]
  · simp only [] at h
    split at h
    · exact absurd rfl h
    rename_i hne
    split at h
    · exact absurd rfl h
    rename_i e10 heq
    refine ⟨I, D, e10, hcs, fun c hc => Or.inl (hI c hc), ?_, heq⟩
    cases I with
    | nil => simp at hne
    | cons i I => simp [startsLikeNumber, hI i (by simp)]

theorem first_occurrence {α : Type} (P : α → Prop) :
    ∀ (a a' : List α) (x x' : α) (b b' : List α), a ++ x :: b = a' ++ x' :: b' →
      (∀ c ∈ a, ¬P c) → (∀ c ∈ a', ¬P c) → P x → P x' → a = a' ∧ x = x' ∧ b = b'
  | [], [], x, x', b, b', h, _, _, _, _ => by
    simp only [List.nil_append, List.cons.injEq] at h; exact ⟨rfl, h.1, h.2⟩
  | [], c :: a', x, x', b, b', h, _, h2, hx, _ => by
    simp only [List.nil_append, List.cons_append, List.cons.injEq] at h
    exact absurd (h.1 ▸ hx) (h2 c (by simp))
  | c :: a, [], x, x', b, b', h, h1, _, _, hx' => by
    simp only [List.nil_append, List.cons_append, List.cons.injEq] at h
    exact absurd (h.1 ▸ hx') (h1 c (by simp))
  | c :: a, c' :: a', x, x', b, b', h, h1, h2, hx, hx' => by
    simp only [List.cons_append, List.cons.injEq] at h
    obtain ⟨r1, r2, r3⟩ := first_occurrence P a a' x x' b b' h.2
      (fun d hd => h1 d (by simp [hd])) (fun d hd => h2 d (by simp [hd])) hx hx'
    exact ⟨by rw [h.1, r1], r2, r3⟩

theorem isSignChar_iff (c : Char) : isSignChar c = true ↔ c = '+' ∨ c = '-' := by
  simp [isSignChar]

theorem not_isSignChar_of_isDigit (c : Char) (h : F64.isDigit c = true) : ¬ isSignChar c = true := by
  intro hs
  rcases (isSignChar_iff c).1 hs with rfl | rfl <;> revert h <;> decide

theorem not_isSignChar_of_isWordChar (c : Char) (h : isWordChar c = true) :
    ¬ isSignChar c = true := by
  intro hs
  have := (isWordChar_iff c).1 h
  rcases (isSignChar_iff c).1 hs with rfl | rfl
  · exact this.1.1 rfl
  · exact this.1.2.1 rfl

theorem lowerAscii_sign (s : Char) (hs : isSignChar s = true) : F64.lowerAscii s = s := by
  rcases (isSignChar_iff s).1 hs with rfl | rfl <;> decide

theorem parseBits_eq_parseMagnitude (c : Char) (r : Str) (h : ¬ isSignChar c = true) :
    F64.parseBits (c :: r) = F64.parseMagnitude (c :: r) := by
  rw [isSignChar_iff] at h
  unfold F64.parseBits
  split
  · rename_i heq; simp only [List.cons.injEq] at heq; exact absurd (Or.inr heq.1) h
  · rename_i heq; simp only [List.cons.injEq] at heq; exact absurd (Or.inl heq.1) h
  · rfl

/-- joining a word, a sign and a third piece parses as a float only for `<mantissa>e`, sign,
digits -/
theorem parse_join (w d : Str) (s : Char) (hs : isSignChar s = true) (hw : isWord w = true)
    (h : F64.parse (w ++ s :: d) ≠ none) :
    looksLikeMantissaE w = true ∧ d ≠ [] ∧ d.all F64.isDigit = true := by
  have hwc : ∀ c ∈ w, ¬ isSignChar c = true := by
    intro c hc
    simp only [isWord, Bool.and_eq_true, List.all_eq_true] at hw
    exact not_isSignChar_of_isWordChar c (hw.2 c hc)
  have hsne : ∀ c, (F64.isDigit c = true ∨ c = '.' ∨ c = 'e' ∨ c = 'E') → ¬ isSignChar c = true := by
    intro c hc
    rcases hc with hc | rfl | rfl | rfl
    · exact not_isSignChar_of_isDigit c hc
    all_goals decide
  have hm : F64.parseMagnitude (w ++ s :: d) ≠ none := by
    cases w with
    | nil => simp [isWord] at hw
    | cons c w' =>
      intro hm
      apply h
      simp only [F64.parse, List.cons_append]
      rw [parseBits_eq_parseMagnitude c _ (hwc c (by simp))]
      simp only [List.cons_append] at hm
      rw [hm]; rfl
  have hsmem : s ∈ w ++ s :: d := by simp
  rcases parseMagnitude_shape _ hm with hsp | ⟨pre, rest, e10, hcs, hpre, hstart, hexpo⟩
  · have : s ∈ (w ++ s :: d).map F64.lowerAscii := by
      have := List.mem_map_of_mem (f := F64.lowerAscii) hsmem
      rwa [lowerAscii_sign s hs] at this
    rcases (isSignChar_iff s).1 hs with rfl | rfl <;> rcases hsp with hsp | hsp | hsp <;>
      rw [hsp] at this <;> simp at this
  · rcases expoOf_shape rest e10 hexpo with rfl | ⟨e, r, rfl, he, hr | ⟨sg, r', rfl, hsg, hr1, hr2⟩⟩
    · rw [List.append_nil] at hcs
      rw [hcs] at hsmem
      exact absurd hs (hsne s (by rcases hpre s hsmem with h | h <;> simp [h]))
    · rw [hcs] at hsmem
      simp only [List.mem_append, List.mem_cons] at hsmem
      refine absurd hs (hsne s ?_)
      rcases hsmem with h | h | h
      · rcases hpre s h with h | h <;> simp [h]
      · rcases he with rfl | rfl <;> simp [h]
      · exact Or.inl (List.all_eq_true.1 hr.2 s h)
    · have hcs' : w ++ s :: d = (pre ++ [e]) ++ sg :: r' := by rw [hcs]; simp
      obtain ⟨rw1, -, rd⟩ := first_occurrence (fun c => isSignChar c = true) _ _ _ _ _ _ hcs' hwc
        (by
          intro c hc
          simp only [List.mem_append, List.mem_singleton] at hc
          apply hsne
          rcases hc with hc | rfl
          · rcases hpre c hc with h | h <;> simp [h]
          · rcases he with rfl | rfl <;> simp) hs hsg
      subst rw1 rd
      refine ⟨?_, hr1, hr2⟩
      cases pre with
      | nil => simp [startsLikeNumber] at hstart
      | cons p0 pre =>
        simp only [startsLikeNumber] at hstart
        simp only [looksLikeMantissaE, List.cons_append, hstart, Bool.true_and]
        rw [← List.cons_append, List.getLast?_append]
        rcases he with rfl | rfl <;> simp

end Evalexpr.Spec
