/-
Proofs/ParseLooseTops.lean — the operators that arrive at the top level of a parenthesis level
while `renderL e nx` (the permissive rendering of `Spec/AstLoose.lean`) is parsed, and the
precedence facts that make its parenthesisation sufficient. Mirrors `ParseTops.lean`; the one new
fact (`topsL_unary`): where the loose renderer drops the parentheses of the strict one — a prefix
chain over a non-`^` core as right operand of `^` — every operator arriving at that level is unary,
and a unary operator descends through every frame.
(part of the proof of C02, loose rendering)
-/
import EvalexprVerif.Spec.AstLoose
import EvalexprVerif.Proofs.ParseTops

namespace Evalexpr.Spec
open Evalexpr

/-- the operators that are inserted at the current parenthesis level while `renderL e nx` is read -/
def topsL : Expr → Bool → List Operator
  | .lit _, _ | .var _, _ | .paren _, _ => []
  | .call f a, nx => .fn f :: (if needsParenArg a then [] else topsL a nx)
  | .neg e, nx => .neg :: (if needsParenUnary e then [] else topsL e nx)
  | .not e, nx => .not :: (if needsParenUnary e then [] else topsL e nx)
  | .bin op l r, nx =>
    (if needsParenLeft op l then [] else topsL l (isExpOp op)) ++
      op.toOperator :: (if needsParenRightL op r nx then [] else topsL r nx)
  | .assign op _ rhs, nx => op.toOperator :: (if needsParenRhs op rhs then [] else topsL rhs nx)

theorem Lcore_of_atom {e : Expr} (h : e.headPrec = none) : prefixCoreIsExp e = false := by
  cases e <;> simp [Expr.headPrec, prefixCoreIsExp] at h ⊢

/-- a prefix chain (or an atom) whose core is not a `^` expression only sends unary operators to
the top level -/
theorem topsL_unary (e : Expr) : ∀ nx, (isPrefixExpr e = true ∨ e.headPrec = none) →
    prefixCoreIsExp e = false → ∀ o ∈ topsL e nx, o.isUnary = true := by
  induction e with
  | lit l => intro nx _ _ o h; simp [topsL] at h
  | var x => intro nx _ _ o h; simp [topsL] at h
  | paren e ih => intro nx _ _ o h; simp [topsL] at h
  | call f a ih =>
    intro nx _ _ o h
    simp only [topsL, List.mem_cons] at h
    rcases h with rfl | h
    · rfl
    · cases hb : needsParenArg a with
      | true => simp [hb] at h
      | false =>
        simp only [hb, Bool.false_eq_true, if_false] at h
        have ha : a.headPrec = none := by simpa [needsParenArg] using hb
        exact ih nx (.inr ha) (Lcore_of_atom ha) o h
  | neg e ih =>
    intro nx _ hc o h
    simp only [topsL, List.mem_cons] at h
    rcases h with rfl | h
    · rfl
    · cases hb : needsParenUnary e with
      | true => simp [hb] at h
      | false =>
        simp only [hb, Bool.false_eq_true, if_false] at h
        have hc' : prefixCoreIsExp e = false := by simpa [prefixCoreIsExp] using hc
        refine ih nx ?_ hc' o h
        cases e with
        | bin op l r =>
          cases op <;> simp [needsParenUnary, precLt, Expr.headPrec, unaryPrec, BinOp.docPrec,
            prefixCoreIsExp] at hb hc'
        | assign aop x rhs =>
          simp [needsParenUnary, precLt, Expr.headPrec, unaryPrec, assignPrec] at hb
        | _ => simp [isPrefixExpr, Expr.headPrec]
  | not e ih =>
    intro nx _ hc o h
    simp only [topsL, List.mem_cons] at h
    rcases h with rfl | h
    · rfl
    · cases hb : needsParenUnary e with
      | true => simp [hb] at h
      | false =>
        simp only [hb, Bool.false_eq_true, if_false] at h
        have hc' : prefixCoreIsExp e = false := by simpa [prefixCoreIsExp] using hc
        refine ih nx ?_ hc' o h
        cases e with
        | bin op l r =>
          cases op <;> simp [needsParenUnary, precLt, Expr.headPrec, unaryPrec, BinOp.docPrec,
            prefixCoreIsExp] at hb hc'
        | assign aop x rhs =>
          simp [needsParenUnary, precLt, Expr.headPrec, unaryPrec, assignPrec] at hb
        | _ => simp [isPrefixExpr, Expr.headPrec]
  | bin op l r ihl ihr =>
    intro nx hp _ o _
    simp [isPrefixExpr, Expr.headPrec] at hp
  | assign op x rhs ih =>
    intro nx hp _ o _
    simp [isPrefixExpr, Expr.headPrec] at hp

/-- the two ways a right operand is written bare by the loose renderer -/
theorem needsParenRightL_false {op : BinOp} {r : Expr} {nx : Bool}
    (h : needsParenRightL op r nx = false) :
    needsParenRight op r = false ∨
      (isPrefixExpr r = true ∧ prefixCoreIsExp r = false) := by
  unfold needsParenRightL at h
  by_cases hc : (isExpOp op && isPrefixExpr r && !prefixCoreIsExp r && !nx) = true
  · right
    simp only [Bool.and_eq_true, Bool.not_eq_eq_eq_not, Bool.not_true] at hc
    exact ⟨hc.1.1.2, hc.1.2⟩
  · left
    simpa [hc] using h

theorem topsL_ok (e : Expr) : ∀ nx, ∀ o ∈ topsL e nx, TopOK e o := by
  induction e with
  | lit l => intro nx o h; simp [topsL] at h
  | var x => intro nx o h; simp [topsL] at h
  | paren e ih => intro nx o h; simp [topsL] at h
  | call f a ih =>
    intro nx o h
    simp only [topsL, List.mem_cons] at h
    rcases h with rfl | h
    · exact .inl rfl
    · cases hb : needsParenArg a with
      | true => simp [hb] at h
      | false =>
        simp only [hb, Bool.false_eq_true, if_false] at h
        refine (ih nx o h).mono (by show 200 ≤ lb a; have := lb_of_arg hb; omega) ?_
        intro haa; have := lb_of_isAA haa; have := lb_of_arg hb; omega
  | neg e ih =>
    intro nx o h
    simp only [topsL, List.mem_cons] at h
    rcases h with rfl | h
    · exact .inl (by decide)
    · cases hb : needsParenUnary e with
      | true => simp [hb] at h
      | false =>
        simp only [hb, Bool.false_eq_true, if_false] at h
        refine (ih nx o h).mono (by show 110 ≤ lb e; exact lb_of_unary hb) ?_
        intro haa; have := lb_of_isAA haa; have := lb_of_unary hb; omega
  | not e ih =>
    intro nx o h
    simp only [topsL, List.mem_cons] at h
    rcases h with rfl | h
    · exact .inl (by decide)
    · cases hb : needsParenUnary e with
      | true => simp [hb] at h
      | false =>
        simp only [hb, Bool.false_eq_true, if_false] at h
        refine (ih nx o h).mono (by show 110 ≤ lb e; exact lb_of_unary hb) ?_
        intro haa; have := lb_of_isAA haa; have := lb_of_unary hb; omega
  | bin op l r ihl ihr =>
    intro nx o h
    simp only [topsL, List.mem_append, List.mem_cons] at h
    have := docPrec_ge op
    rcases h with h | rfl | h
    · cases hb : needsParenLeft op l with
      | true => simp [hb] at h
      | false =>
        simp only [hb, Bool.false_eq_true, if_false] at h
        refine (ihl _ o h).mono (by show op.docPrec ≤ lb l; exact lb_of_left hb) ?_
        intro haa; have := lb_of_isAA haa; have := lb_of_left hb; omega
    · obtain ⟨h1, h2, h3, _⟩ := binop_facts op
      exact .inr (.inl ⟨h1, h2, by show op.docPrec ≤ _; omega⟩)
    · cases hb : needsParenRightL op r nx with
      | true => simp [hb] at h
      | false =>
        simp only [hb, Bool.false_eq_true, if_false] at h
        rcases needsParenRightL_false hb with hb' | ⟨hp, hc⟩
        · refine (ihr nx o h).mono (by show op.docPrec ≤ lb r; have := lb_of_right hb'; omega) ?_
          intro haa; have := lb_of_isAA haa; have := lb_of_right hb'; omega
        · exact .inl (topsL_unary r nx (.inl hp) hc o h)
  | assign op x rhs ih =>
    intro nx o h
    simp only [topsL, List.mem_cons] at h
    rcases h with rfl | h
    · obtain ⟨h1, h2, _, _, _, h6, h7⟩ := assignop_facts op
      by_cases hop : op = .assign
      · exact .inr (.inr ⟨h7 hop, by subst hop; rfl⟩)
      · refine .inr (.inl ⟨h1, ?_, ?_⟩)
        · cases hl : op.toOperator.isLeftToRight with
          | true => rfl
          | false => exact absurd (h6.mp hl) hop
        · rw [h2]; cases op <;> simp [lb] at hop ⊢
    · cases hb : needsParenRhs op rhs with
      | true => simp [hb] at h
      | false =>
        simp only [hb, Bool.false_eq_true, if_false] at h
        refine (ih nx o h).mono ?_ ?_
        · have := lb_of_rhs hb
          cases op <;> first | (show 51 ≤ lb rhs; omega) | (show 50 ≤ lb rhs; omega)
        · intro haa
          cases rhs with
          | assign op' x' rhs' =>
            cases op' <;> cases op <;> simp [isAA, needsParenRhs] at haa hb ⊢
          | _ => simp [isAA] at haa

/-! ### the local facts: an unparenthesised operand's operators descend through the frame of the
operator above it -/

theorem below_rightL {op : BinOp} {r : Expr} {nx : Bool} (h : needsParenRightL op r nx = false) :
    ∀ o ∈ topsL r nx, descends op.toOperator o false = true := by
  intro o ho
  rcases needsParenRightL_false h with h | ⟨hp, hc⟩
  · obtain ⟨_, _, h3, _⟩ := binop_facts op
    have hlb := lb_of_right h
    rcases topsL_ok r nx o ho with hu | ⟨_, _, h3'⟩ | ⟨_, haa⟩
    · exact descends_of_unary _ _ _ hu
    · exact descends_of_lt _ _ _ (by omega)
    · have := lb_of_isAA haa; have := docPrec_ge op; omega
  · exact descends_of_unary _ _ _ (topsL_unary r nx (.inl hp) hc o ho)

theorem below_unaryL {e : Expr} (nx : Bool) (h : needsParenUnary e = false) (s : Operator)
    (hs : s.precedence = 110) : ∀ o ∈ topsL e nx, descends s o false = true := by
  intro o ho
  have hlb := lb_of_unary h
  rcases topsL_ok e nx o ho with hu | ⟨h1, _, h3'⟩ | ⟨_, haa⟩
  · exact descends_of_unary _ _ _ hu
  · have := nonunary_ne_110 o h1
    exact descends_of_lt _ _ _ (by omega)
  · have := lb_of_isAA haa; omega

theorem below_fnL {a : Expr} (nx : Bool) (h : needsParenArg a = false) (f : Str) :
    ∀ o ∈ topsL a nx, descends (.fn f) o false = true := by
  intro o ho
  have hlb := lb_of_arg h
  rcases topsL_ok a nx o ho with hu | ⟨h1, _, h3'⟩ | ⟨_, haa⟩
  · exact descends_of_unary _ _ _ hu
  · exact descends_of_lt _ _ _ (by show 190 < _; omega)
  · have := lb_of_isAA haa; omega

theorem below_assignL {op : AssignOp} {rhs : Expr} (nx : Bool)
    (h : needsParenRhs op rhs = false) :
    ∀ o ∈ topsL rhs nx, descends op.toOperator o false = true := by
  intro o ho
  obtain ⟨_, h2, _, _, _, h6, _⟩ := assignop_facts op
  have hlb := lb_of_rhs h
  rcases topsL_ok rhs nx o ho with hu | ⟨h1, _, h3'⟩ | ⟨hk, haa⟩
  · exact descends_of_unary _ _ _ hu
  · exact descends_of_lt _ _ _ (by omega)
  · have hop : op = .assign := by
      cases rhs with
      | assign op' x' rhs' =>
        cases op' <;> cases op <;> simp [isAA, needsParenRhs] at haa h ⊢
      | _ => simp [isAA] at haa
    have hl := h6.mpr hop
    have hop' : o.precedence = 50 := by simp [Operator.precedence, hk, OpKind.precedence]
    have hol : o.isLeftToRight = false := by simp [Operator.isLeftToRight, hk, OpKind.isLeftToRight]
    simp [descends, h2, hop', hl, hol]

end Evalexpr.Spec
