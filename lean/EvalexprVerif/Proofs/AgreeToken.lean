/-
Proofs/AgreeToken.lean — the lexer / token tables extracted from src/token/mod.rs and the
token → operator arms of `tokens_to_operator_tree` equal the model's.
-/
import EvalexprVerif.Generated.TokenTables
import EvalexprVerif.Model.Tree

set_option linter.unusedSimpArgs false

namespace Evalexpr.Agree

/-- Rust variant name of a token -/
def tokenName : Token → String
  | .plus => "Plus" | .minus => "Minus" | .star => "Star" | .slash => "Slash"
  | .percent => "Percent" | .hat => "Hat"
  | .eq => "Eq" | .neq => "Neq" | .gt => "Gt" | .lt => "Lt" | .geq => "Geq" | .leq => "Leq"
  | .and => "And" | .or => "Or" | .not => "Not"
  | .lBrace => "LBrace" | .rBrace => "RBrace"
  | .assign => "Assign" | .plusAssign => "PlusAssign" | .minusAssign => "MinusAssign"
  | .starAssign => "StarAssign" | .slashAssign => "SlashAssign"
  | .percentAssign => "PercentAssign" | .hatAssign => "HatAssign"
  | .andAssign => "AndAssign" | .orAssign => "OrAssign"
  | .comma => "Comma" | .semicolon => "Semicolon"
  | .identifier _ => "Identifier" | .float _ => "Float" | .int _ => "Int"
  | .boolean _ => "Boolean" | .string _ => "String"

theorem leftsided_agree (t : Token) :
    t.isLeftsidedValue = Generated.leftsided.contains (tokenName t) := by cases t <;> first | decide | (simp only [Token.isLeftsidedValue, Token.isRightsidedValue, Token.isAssignment, tokenName]; decide)

theorem rightsided_agree (t : Token) :
    t.isRightsidedValue = Generated.rightsided.contains (tokenName t) := by cases t <;> first | decide | (simp only [Token.isLeftsidedValue, Token.isRightsidedValue, Token.isAssignment, tokenName]; decide)

theorem assignment_agree (t : Token) :
    t.isAssignment = Generated.assignmentTokens.contains (tokenName t) := by cases t <;> first | decide | (simp only [Token.isLeftsidedValue, Token.isRightsidedValue, Token.isAssignment, tokenName]; decide)

/-- a comparison of partial tokens that is enough for the character table (no literal payloads) -/
def samePartial : PartialToken → PartialToken → Bool
  | .token a, .token b => tokenName a == tokenName b
  | .plus, .plus | .minus, .minus | .star, .star | .slash, .slash | .percent, .percent
  | .hat, .hat | .whitespace, .whitespace | .eq, .eq | .exclamationMark, .exclamationMark
  | .gt, .gt | .lt, .lt | .ampersand, .ampersand | .verticalBar, .verticalBar => true
  | _, _ => false

/-- every explicit arm of `char_to_partial_token` is the model's answer for that character -/
theorem charMap_agree :
    Generated.charMap.all (fun (c, p) => samePartial (charToPartialToken c) p) = true := by decide

/-- and the model has no special character beyond the 16 explicit arms -/
theorem charMap_chars :
    Generated.charMap.map (·.1) =
      ['+', '-', '*', '/', '%', '^', '(', ')', ',', ';', '=', '!', '>', '<', '&', '|'] := by decide

theorem charMap_default (c : Char)
    (h : c ∉ ['+', '-', '*', '/', '%', '^', '(', ')', ',', ';', '=', '!', '>', '<', '&', '|']) :
    charToPartialToken c = if isWhitespace c then .whitespace else .literal [c] := by
  simp only [List.mem_cons, List.not_mem_nil, or_false, not_or] at h
  obtain ⟨h1, h2, h3, h4, h5, h6, h7, h8, h9, h10, h11, h12, h13, h14, h15, h16⟩ := h
  simp [charToPartialToken, *]

/-- `tokenize` is the composition of the two phases; `parse_dec_or_hex` and `parse_escape_sequence` are as modelled -/
theorem lexerGlue_agree : Generated.lexerGlueRecognised = true := rfl

/-- the node kind a token directly creates; `none` for the four tokens handled by shape -/
def simpleOperatorKind : Token → Option OpKind
  | .plus => some .add | .star => some .mul | .slash => some .div | .percent => some .mod
  | .hat => some .exp
  | .eq => some .eq | .neq => some .neq | .gt => some .gt | .lt => some .lt | .geq => some .geq
  | .leq => some .leq | .and => some .and | .or => some .or | .not => some .not
  | .assign => some .assign | .plusAssign => some .addAssign | .minusAssign => some .subAssign
  | .starAssign => some .mulAssign | .slashAssign => some .divAssign
  | .percentAssign => some .modAssign | .hatAssign => some .expAssign
  | .andAssign => some .andAssign | .orAssign => some .orAssign
  | .comma => some .tuple | .semicolon => some .chain
  | .float _ | .int _ | .boolean _ | .string _ => some .const
  | .minus | .identifier _ | .lBrace | .rBrace => none

theorem tokenOperator_agree (t : Token) :
    Generated.tokenOperator.lookup (tokenName t) = simpleOperatorKind t := by
  cases t <;> first | decide | (simp only [tokenName, simpleOperatorKind]; decide)

/-- the model builds a fresh node of exactly that kind for such a token -/
theorem tokenToNode_simple (t : Token) (k : OpKind) (h : simpleOperatorKind t = some k)
    (stack : List Node) (lr : Bool) (next : Option Token) :
    ∃ op, tokenToNode stack lr t next = .ok (some (Node.new op), stack) ∧ op.kind = k := by
  cases t <;> simp [simpleOperatorKind] at h <;> subst h <;> exact ⟨_, rfl, rfl⟩

end Evalexpr.Agree
