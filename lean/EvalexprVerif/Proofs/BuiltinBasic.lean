/-
Proofs/BuiltinBasic.lean — property C10, part 1: the builtins whose model and documented reference
agree after unfolding (math functions, float classes, `typeof`, `if`, `contains`, `contains_any`,
`len`, `str::*` without `substring`, bit operations without shifts, `math::abs`).
-/
import EvalexprVerif.Spec.RefBuiltin

namespace Evalexpr.Spec
open Evalexpr

theorem meets_math1 (f : Float → Float) (arg : Value) : MeetsB (simpleMath1 f arg) (math1 f arg) := by
  cases arg <;> simp [simpleMath1, math1, num?, Value.asNumber, MeetsB, Err.isPanic]

theorem meets_pred1 (f : Float → Bool) (arg : Value) : MeetsB (floatIs f arg) (pred1 f arg) := by
  cases arg <;> simp [floatIs, pred1, num?, Value.asNumber, MeetsB, Err.isPanic]

theorem meets_math2 (f : Float → Float → Float) (arg : Value) : MeetsB (simpleMath2 f arg) (math2 f arg) := by
  cases arg with
  | tuple t =>
    match t with
    | [] => simp [simpleMath2, math2, Value.asFixedLenTuple, MeetsB, Err.isPanic]
    | [a] => simp [simpleMath2, math2, Value.asFixedLenTuple, MeetsB, Err.isPanic]
    | [a, b] =>
      cases a <;> cases b <;> simp [simpleMath2, math2, num?, Value.asNumber, Value.asFixedLenTuple, MeetsB, Err.isPanic]
    | a :: b :: c :: r => simp [simpleMath2, math2, Value.asFixedLenTuple, MeetsB, Err.isPanic]
  | _ => simp [simpleMath2, math2, Value.asFixedLenTuple, MeetsB, Err.isPanic]


theorem meets_int2 (f : Int64 → Int64 → Int64) (g : Int64 → Int64 → BuiltinRef)
    (h : ∀ a b, MeetsB (.ok (.int (f a b))) (g a b)) (arg : Value) :
    MeetsB (intFunction2 f arg) (int2 g arg) := by
  cases arg with
  | tuple t =>
    match t with
    | [] => simp [intFunction2, int2, Value.asFixedLenTuple, MeetsB, Err.isPanic]
    | [a] => simp [intFunction2, int2, Value.asFixedLenTuple, MeetsB, Err.isPanic]
    | [a, b] =>
      cases a <;> cases b <;>
        first
        | simpa [intFunction2, int2, Value.asInt, Value.asFixedLenTuple] using h _ _
        | simp [intFunction2, int2, Value.asInt, Value.asFixedLenTuple, MeetsB, Err.isPanic]
    | a :: b :: c :: r => simp [intFunction2, int2, Value.asFixedLenTuple, MeetsB, Err.isPanic]
  | _ => simp [intFunction2, int2, Value.asFixedLenTuple, MeetsB, Err.isPanic]

theorem C10_bitnot (arg : Value) : MeetsB (Builtin.call .bitnot arg) (refBuiltin .bitnot arg) := by
  cases arg <;> simp [Builtin.call, refBuiltin, intFunction1, Value.asInt, MeetsB, Err.isPanic]

theorem typeofName_eq (v : Value) : typeofName v = typeName v := by cases v <;> rfl
theorem isScalar_eq (v : Value) : isScalar v = scalar v := by cases v <;> rfl

theorem C10_typeof (arg : Value) : MeetsB (Builtin.call .typeof arg) (refBuiltin .typeof arg) := by
  simp [Builtin.call, refBuiltin, MeetsB, typeofName_eq]

theorem C10_strFrom (arg : Value) : MeetsB (Builtin.call .strFrom arg) (refBuiltin .strFrom arg) := by
  simp [Builtin.call, refBuiltin, MeetsB]

theorem C10_strToLowercase (arg : Value) : MeetsB (Builtin.call .strToLowercase arg) (refBuiltin .strToLowercase arg) := by
  cases arg <;> simp [Builtin.call, refBuiltin, MeetsB, Value.asString, Err.isPanic, Except.map]
theorem C10_strToUppercase (arg : Value) : MeetsB (Builtin.call .strToUppercase arg) (refBuiltin .strToUppercase arg) := by
  cases arg <;> simp [Builtin.call, refBuiltin, MeetsB, Value.asString, Err.isPanic, Except.map]
theorem C10_strTrim (arg : Value) : MeetsB (Builtin.call .strTrim arg) (refBuiltin .strTrim arg) := by
  cases arg <;> simp [Builtin.call, refBuiltin, MeetsB, Value.asString, Err.isPanic, Except.map, trimStr]

theorem C10_if (arg : Value) : MeetsB (Builtin.call .if_ arg) (refBuiltin .if_ arg) := by
  cases arg with
  | tuple t =>
    match t with
    | [] => simp [Builtin.call, refBuiltin, Value.asFixedLenTuple, MeetsB, Err.isPanic]
    | [a] => simp [Builtin.call, refBuiltin, Value.asFixedLenTuple, MeetsB, Err.isPanic]
    | [a, b] => simp [Builtin.call, refBuiltin, Value.asFixedLenTuple, MeetsB, Err.isPanic]
    | [c, a, b] =>
      cases c with
      | boolean c => cases c <;> simp [Builtin.call, refBuiltin, Value.asFixedLenTuple, Value.asBoolean, MeetsB]
      | _ => simp [Builtin.call, refBuiltin, Value.asFixedLenTuple, Value.asBoolean, MeetsB, Err.isPanic]
    | a :: b :: c :: d :: r => simp [Builtin.call, refBuiltin, Value.asFixedLenTuple, MeetsB, Err.isPanic]
  | _ => simp [Builtin.call, refBuiltin, Value.asFixedLenTuple, MeetsB, Err.isPanic]

theorem C10_contains (arg : Value) : MeetsB (Builtin.call .contains arg) (refBuiltin .contains arg) := by
  cases arg with
  | tuple t =>
    match t with
    | [] => simp [Builtin.call, refBuiltin, Value.asFixedLenTuple, MeetsB, Err.isPanic]
    | [a] => simp [Builtin.call, refBuiltin, Value.asFixedLenTuple, MeetsB, Err.isPanic]
    | [a, b] =>
      cases a with
      | tuple ta =>
        cases h : scalar b <;> simp [Builtin.call, refBuiltin, Value.asFixedLenTuple, MeetsB, Err.isPanic, isScalar_eq, h, tupleContains]
      | _ => simp [Builtin.call, refBuiltin, Value.asFixedLenTuple, MeetsB, Err.isPanic]
    | a :: b :: c :: r => simp [Builtin.call, refBuiltin, Value.asFixedLenTuple, MeetsB, Err.isPanic]
  | _ => simp [Builtin.call, refBuiltin, Value.asFixedLenTuple, MeetsB, Err.isPanic]

theorem containsAnyLoop_spec (ta : List Value) : ∀ (tb : List Value) (acc : Bool),
    (tb.all scalar = true → containsAnyLoop ta tb acc = .ok (acc || tb.any fun v => ta.any (Value.beq · v))) ∧
    (tb.all scalar = false → ∃ e, containsAnyLoop ta tb acc = .error e ∧ e.isPanic = false)
  | [], acc => by simp [containsAnyLoop]
  | v :: rest, acc => by
    have ih := containsAnyLoop_spec ta rest
    cases h : scalar v
    · simp [containsAnyLoop, isScalar_eq, h, Err.isPanic]
    · simp only [containsAnyLoop, isScalar_eq, h, if_true, List.all_cons, Bool.true_and, List.any_cons, tupleContains]
      constructor
      · intro hr
        rw [(ih _).1 hr]
        rcases Bool.eq_false_or_eq_true (ta.any (Value.beq · v)) with hp | hp <;> cases acc <;> simp [hp]
      · intro hr
        exact (ih _).2 hr

theorem C10_containsAny (arg : Value) : MeetsB (Builtin.call .containsAny arg) (refBuiltin .containsAny arg) := by
  cases arg with
  | tuple t =>
    match t with
    | [] => simp [Builtin.call, refBuiltin, Value.asFixedLenTuple, MeetsB, Err.isPanic]
    | [a] => simp [Builtin.call, refBuiltin, Value.asFixedLenTuple, MeetsB, Err.isPanic]
    | [a, b] =>
      cases a with
      | tuple ta =>
        cases b with
        | tuple tb =>
          cases h : tb.all scalar
          · obtain ⟨e, he, hp⟩ := (containsAnyLoop_spec ta tb false).2 h
            simp [Builtin.call, refBuiltin, Value.asFixedLenTuple, MeetsB, h, he, hp, Except.map]
          · have := (containsAnyLoop_spec ta tb false).1 h
            simp [Builtin.call, refBuiltin, Value.asFixedLenTuple, MeetsB, h, this, Except.map]
        | _ => simp [Builtin.call, refBuiltin, Value.asFixedLenTuple, MeetsB, Err.isPanic]
      | _ => simp [Builtin.call, refBuiltin, Value.asFixedLenTuple, MeetsB, Err.isPanic]
    | a :: b :: c :: r => simp [Builtin.call, refBuiltin, Value.asFixedLenTuple, MeetsB, Err.isPanic]
  | _ => simp [Builtin.call, refBuiltin, Value.asFixedLenTuple, MeetsB, Err.isPanic]


theorem i64Of_none (z : Int) (h : inI64 z = false) : i64Of z = none := by simp [i64Of, h]
theorem i64Of_some (z : Int) (h : inI64 z = true) : i64Of z = some (Int64.ofInt z) := by simp [i64Of, h]

/-! ### `math::abs`

Kernel note: `checkedAbs i` must never be compared by definitional unfolding with its `match`
body for a symbolic `i` (`unfold`, `simp [checkedAbs]`, even generating `checkedAbs.eq_1` fail with
"deep recursion"): the kernel unfolds the matcher first and evaluates `inI64 ↑(natAbs _)`, where
`Int.ofNat _ < 2^63` ends in `Nat.sub (succ n) 9223372036854775808` on a symbolic `n`, i.e. 2^63
unfolding steps. The two lemmas below unfold `checkedAbs` as a *function* (`congrFun`), which the
kernel checks structurally. -/

theorem checkedAbs_none (i : Int64) (h : i64Of (i.toInt.natAbs : Int) = none) :
    checkedAbs i = .error (.negationError (.int i)) := by
  have E := (by delta checkedAbs; exact rfl : checkedAbs = _)
  have E' := congrFun E i
  rw [E', h]
theorem checkedAbs_some (i : Int64) (r : Int64) (h : i64Of (i.toInt.natAbs : Int) = some r) :
    checkedAbs i = .ok r := by
  have E := (by delta checkedAbs; exact rfl : checkedAbs = _)
  have E' := congrFun E i
  rw [E', h]

theorem abs_a (i : Int64) (h : i.toInt = -2 ^ 63) : inI64 (i.toInt.natAbs : Int) = false := by
  simp only [inI64, Bool.and_eq_false_iff, decide_eq_false_iff_not]; omega
theorem abs_b (i : Int64) (h : ¬ i.toInt = -2 ^ 63) : inI64 (i.toInt.natAbs : Int) = true := by
  have h1 := Int64.le_toInt i
  have h2 := Int64.toInt_lt i
  simp only [inI64, Bool.and_eq_true, decide_eq_true_eq]; omega

theorem C10_abs (arg : Value) : MeetsB (Builtin.call .abs arg) (refBuiltin .abs arg) := by
  cases arg with
  | int i =>
    have hc : Builtin.call .abs (.int i) = (checkedAbs i).map .int := by simp only [Builtin.call]
    rw [hc]
    by_cases h : i.toInt = -2 ^ 63
    · rw [checkedAbs_none i (i64Of_none _ (abs_a i h))]
      have hr : refBuiltin .abs (.int i) = .error := by
        simp only [refBuiltin, beq_iff_eq]; rw [if_pos h]
      rw [hr]
      exact ⟨_, rfl, rfl⟩
    · rw [checkedAbs_some i _ (i64Of_some _ (abs_b i h))]
      have hr : refBuiltin .abs (.int i) = .value (.int (Int64.ofInt i.toInt.natAbs)) := by
        simp only [refBuiltin, beq_iff_eq]; rw [if_neg h]
      rw [hr]
      rfl
  | _ => simp [Builtin.call, refBuiltin, MeetsB, Err.isPanic]

theorem utf8Len_cons (c : Char) (cs : Str) : utf8Len (c :: cs) = c.utf8Size + utf8Len cs := by
  simp [utf8Len]

theorem utf8Len_nil : utf8Len [] = 0 := rfl

theorem byteOffsets_ne_nil (s : Str) (n : Nat) : byteOffsets s n ≠ [] := by
  cases s <;> simp [byteOffsets]

theorem byteOffsets_getLast? : ∀ (s : Str) (n : Nat), (byteOffsets s n).getLast? = some (n + utf8Len s)
  | [], n => by simp [byteOffsets, utf8Len]
  | c :: cs, n => by
    have ih := byteOffsets_getLast? cs (n + c.utf8Size)
    have hne := byteOffsets_ne_nil cs (n + c.utf8Size)
    simp only [byteOffsets, utf8Len_cons]
    rw [List.getLast?_cons_of_ne_nil hne] at *
    rw [ih]; congr 1; omega

theorem len_ref_eq (s : Str) : (byteOffsets s 0).getLast?.getD 0 = utf8Len s := by
  simp [byteOffsets_getLast?]

/-- the side condition under which the documentation's `len` claim is meaningful: sizes fit an `i64` -/
def SizeOk : Value → Prop
  | .string s => utf8Len s < 2 ^ 63
  | .tuple t => t.length < 2 ^ 63
  | _ => True

theorem C10_len (arg : Value) (h : SizeOk arg) : MeetsB (Builtin.call .len arg) (refBuiltin .len arg) := by
  cases arg with
  | string s =>
    simp only [SizeOk] at h
    simp [Builtin.call, refBuiltin, MeetsB, intFromUsize, h, len_ref_eq, Except.map, Int64.ofInt_eq_ofNat]
  | tuple t =>
    simp only [SizeOk] at h
    simp [Builtin.call, refBuiltin, MeetsB, intFromUsize, h, Except.map, Int64.ofInt_eq_ofNat]
  | _ => simp [Builtin.call, refBuiltin, MeetsB, Err.isPanic]

theorem len_no_panic (arg : Value) : (Builtin.call .len arg).isPanic = false := by
  cases arg with
  | string s =>
    by_cases h : utf8Len s < 2 ^ 63 <;> simp [Builtin.call, intFromUsize, h, Except.map, Res.isPanic, Err.isPanic]
  | tuple t =>
    by_cases h : t.length < 2 ^ 63 <;> simp [Builtin.call, intFromUsize, h, Except.map, Res.isPanic, Err.isPanic]
  | _ => simp [Builtin.call, Res.isPanic, Err.isPanic]

end Evalexpr.Spec
