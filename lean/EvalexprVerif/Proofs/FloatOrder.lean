/-
Proofs/FloatOrder.lean — order facts about Lean's `Float` `<` / `≤`, proved from the kernel-level
IEEE model (`Float.Model`, `UnpackedFloat.compare`): `≤` is reflexive and total away from NaN,
transitive, and implied by `<`. Used for `min` / `max` (property C10).
-/
namespace Evalexpr.FloatOrder
open Float.Model Float.Model.UnpackedFloat

theorem then_isLE (e1 e2 : Int) (m1 m2 : Nat) :
    ((compare e1 e2).then (compare m1 m2)).isLE = true ↔ e1 < e2 ∨ (e1 = e2 ∧ m1 ≤ m2) := by
  rcases Int.lt_trichotomy e1 e2 with h | h | h
  · rw [Int.compare_eq_lt.2 h]; simp [Ordering.then, Ordering.isLE]; omega
  · rw [Int.compare_eq_eq.2 h]
    rcases Nat.lt_trichotomy m1 m2 with g | g | g
    · rw [Nat.compare_eq_lt.2 g]; simp [Ordering.then, Ordering.isLE]; omega
    · rw [Nat.compare_eq_eq.2 g]; simp [Ordering.then, Ordering.isLE]; omega
    · rw [Nat.compare_eq_gt.2 g]; simp [Ordering.then, Ordering.isLE]; omega
  · rw [Int.compare_eq_gt.2 h]; simp [Ordering.then, Ordering.isLE]; omega

theorem then_swap_isLE (e1 e2 : Int) (m1 m2 : Nat) :
    ((compare e1 e2).then (compare m1 m2)).isGE = true ↔ e2 < e1 ∨ (e1 = e2 ∧ m2 ≤ m1) := by
  rcases Int.lt_trichotomy e1 e2 with h | h | h
  · rw [Int.compare_eq_lt.2 h]; simp [Ordering.then, Ordering.isGE]; omega
  · rw [Int.compare_eq_eq.2 h]
    rcases Nat.lt_trichotomy m1 m2 with g | g | g
    · rw [Nat.compare_eq_lt.2 g]; simp [Ordering.then, Ordering.isGE]; omega
    · rw [Nat.compare_eq_eq.2 g]; simp [Ordering.then, Ordering.isGE]; omega
    · rw [Nat.compare_eq_gt.2 g]; simp [Ordering.then, Ordering.isGE]; omega
  · rw [Int.compare_eq_gt.2 h]; simp [Ordering.then, Ordering.isGE]; omega

theorem then_eq_lt (e1 e2 : Int) (m1 m2 : Nat) :
    ((compare e1 e2).then (compare m1 m2)) = .lt ↔ e1 < e2 ∨ (e1 = e2 ∧ m1 < m2) := by
  rcases Int.lt_trichotomy e1 e2 with h | h | h
  · rw [Int.compare_eq_lt.2 h]; simp [Ordering.then]; omega
  · rw [Int.compare_eq_eq.2 h]
    rcases Nat.lt_trichotomy m1 m2 with g | g | g
    · rw [Nat.compare_eq_lt.2 g]; simp [Ordering.then]; omega
    · rw [Nat.compare_eq_eq.2 g]; simp [Ordering.then]; omega
    · rw [Nat.compare_eq_gt.2 g]; simp [Ordering.then]; omega
  · rw [Int.compare_eq_gt.2 h]; simp [Ordering.then]; omega

theorem then_swap_eq_lt (e1 e2 : Int) (m1 m2 : Nat) :
    ((compare e1 e2).then (compare m1 m2)) = .gt ↔ e2 < e1 ∨ (e1 = e2 ∧ m2 < m1) := by
  rcases Int.lt_trichotomy e1 e2 with h | h | h
  · rw [Int.compare_eq_lt.2 h]; simp [Ordering.then]; omega
  · rw [Int.compare_eq_eq.2 h]
    rcases Nat.lt_trichotomy m1 m2 with g | g | g
    · rw [Nat.compare_eq_lt.2 g]; simp [Ordering.then]; omega
    · rw [Nat.compare_eq_eq.2 g]; simp [Ordering.then]; omega
    · rw [Nat.compare_eq_gt.2 g]; simp [Ordering.then]; omega
  · rw [Int.compare_eq_gt.2 h]; simp [Ordering.then]; omega

/-- a key into `Int × Int × Int` (lexicographic) that realises the IEEE order on non-NaN values -/
def ukey : UnpackedFloat → Int × Int × Int
  | .infinity .negative => (-2, 0, 0)
  | .infinity .positive => (2, 0, 0)
  | .notANumber => (0, 0, 0)
  | .zero _ => (0, 0, 0)
  | .finite .negative m e _ => (-1, -e, -(m : Int))
  | .finite .positive m e _ => (1, e, (m : Int))

def lexLe (a b : Int × Int × Int) : Prop :=
  a.1 < b.1 ∨ (a.1 = b.1 ∧ (a.2.1 < b.2.1 ∨ (a.2.1 = b.2.1 ∧ a.2.2 ≤ b.2.2)))
def lexLt (a b : Int × Int × Int) : Prop :=
  a.1 < b.1 ∨ (a.1 = b.1 ∧ (a.2.1 < b.2.1 ∨ (a.2.1 = b.2.1 ∧ a.2.2 < b.2.2)))

@[simp] theorem sign_cmp_nn : compare Sign.negative Sign.negative = .eq := rfl
@[simp] theorem sign_cmp_np : compare Sign.negative Sign.positive = .lt := rfl
@[simp] theorem sign_cmp_pn : compare Sign.positive Sign.negative = .gt := rfl
@[simp] theorem sign_cmp_pp : compare Sign.positive Sign.positive = .eq := rfl

theorem ule_iff (x y : UnpackedFloat) (hx : x.isNaN = false) (hy : y.isNaN = false) :
    x.le y = true ↔ lexLe (ukey x) (ukey y) := by
  rcases x with (_|_) | _ | (_|_) | ⟨(_|_), m1, e1, h1⟩ <;> rcases y with (_|_) | _ | (_|_) | ⟨(_|_), m2, e2, h2⟩ <;>
    first
    | (simp [UnpackedFloat.isNaN] at hx; done)
    | (simp [UnpackedFloat.isNaN] at hy; done)
    | (simp [UnpackedFloat.le, UnpackedFloat.compare, ukey, lexLe, then_isLE, then_swap_isLE]; done)
    | (simp [UnpackedFloat.le, UnpackedFloat.compare, ukey, lexLe, then_isLE, then_swap_isLE]; omega)

theorem ult_iff (x y : UnpackedFloat) (hx : x.isNaN = false) (hy : y.isNaN = false) :
    x.lt y = true ↔ lexLt (ukey x) (ukey y) := by
  rcases x with (_|_) | _ | (_|_) | ⟨(_|_), m1, e1, h1⟩ <;> rcases y with (_|_) | _ | (_|_) | ⟨(_|_), m2, e2, h2⟩ <;>
    first
    | (simp [UnpackedFloat.isNaN] at hx; done)
    | (simp [UnpackedFloat.isNaN] at hy; done)
    | (simp [UnpackedFloat.lt, UnpackedFloat.compare, ukey, lexLt, then_eq_lt, then_swap_eq_lt]; done)
    | (simp [UnpackedFloat.lt, UnpackedFloat.compare, ukey, lexLt, then_eq_lt, then_swap_eq_lt]; omega)

theorem ule_not_nan (x y : UnpackedFloat) (h : x.le y = true) : x.isNaN = false ∧ y.isNaN = false := by
  rcases x with (_|_) | _ | (_|_) | ⟨(_|_), m1, e1, h1⟩ <;> rcases y with (_|_) | _ | (_|_) | ⟨(_|_), m2, e2, h2⟩ <;>
    first
    | (simp [UnpackedFloat.isNaN]; done)
    | (simp [UnpackedFloat.le, UnpackedFloat.compare] at h; done)

theorem ule_of_ult (x y : UnpackedFloat) (h : x.lt y = true) : x.le y = true := by
  simp only [UnpackedFloat.lt, beq_iff_eq] at h
  simp [UnpackedFloat.le, h]

theorem ule_refl (x : UnpackedFloat) (hx : x.isNaN = false) : x.le x = true := by
  rw [ule_iff x x hx hx]; simp [lexLe]

theorem ule_trans (x y z : UnpackedFloat) (h1 : x.le y = true) (h2 : y.le z = true) : x.le z = true := by
  have ⟨hx, hy⟩ := ule_not_nan x y h1
  have ⟨_, hz⟩ := ule_not_nan y z h2
  rw [ule_iff x y hx hy] at h1
  rw [ule_iff y z hy hz] at h2
  rw [ule_iff x z hx hz]
  generalize ukey x = kx at *; generalize ukey y = ky at *; generalize ukey z = kz at *
  obtain ⟨a1, a2, a3⟩ := kx; obtain ⟨b1, b2, b3⟩ := ky; obtain ⟨c1, c2, c3⟩ := kz
  simp only [lexLe] at *; omega

theorem ule_of_not_ult (x y : UnpackedFloat) (hx : x.isNaN = false) (hy : y.isNaN = false)
    (h : ¬ x.lt y = true) : y.le x = true := by
  rw [ult_iff x y hx hy] at h
  rw [ule_iff y x hy hx]
  generalize ukey x = kx at *; generalize ukey y = ky at *
  obtain ⟨a1, a2, a3⟩ := kx; obtain ⟨b1, b2, b3⟩ := ky
  simp only [lexLe, lexLt] at *; omega

/-! ### transfer to `Float` -/

theorem float_le_iff (a b : Float) : a ≤ b ↔ a.toModel.unpack.le b.toModel.unpack = true := by
  show a.le b = true ↔ _
  simp only [Float.le, decide_eq_true_eq]
  exact Iff.rfl

theorem float_lt_iff (a b : Float) : a < b ↔ a.toModel.unpack.lt b.toModel.unpack = true := by
  show a.lt b = true ↔ _
  simp only [Float.lt, decide_eq_true_eq]
  exact Iff.rfl

theorem float_isNaN (a : Float) : a.isNaN = a.toModel.unpack.isNaN := rfl

/-- `≤` on `Float` is reflexive away from NaN -/
theorem le_refl (a : Float) (h : a.isNaN = false) : a ≤ a :=
  (float_le_iff a a).2 (ule_refl _ h)
/-- `≤` on `Float` is transitive -/
theorem le_trans (a b c : Float) (h1 : a ≤ b) (h2 : b ≤ c) : a ≤ c :=
  (float_le_iff a c).2 (ule_trans _ _ _ ((float_le_iff a b).1 h1) ((float_le_iff b c).1 h2))
theorem le_of_lt (a b : Float) (h : a < b) : a ≤ b :=
  (float_le_iff a b).2 (ule_of_ult _ _ ((float_lt_iff a b).1 h))
/-- totality away from NaN -/
theorem le_of_not_lt (a b : Float) (ha : a.isNaN = false) (hb : b.isNaN = false) (h : ¬ a < b) : b ≤ a :=
  (float_le_iff b a).2 (ule_of_not_ult _ _ ha hb (fun h' => h ((float_lt_iff a b).2 h')))
theorem not_nan_of_le (a b : Float) (h : a ≤ b) : a.isNaN = false ∧ b.isNaN = false :=
  ule_not_nan _ _ ((float_le_iff a b).1 h)

end Evalexpr.FloatOrder
