/-
Proofs/ParseExpr.lean — property C02: the tree builder parses the canonical rendering of an
expression AST to the operator tree the documented precedence table promises.

Structure: within one parenthesis level the tree under the level's `RootNode` is a right spine
(`ParseSpine.lean`); the operators that arrive at that level while `render e` is read are `tops e`,
and `render`'s parenthesisation guarantees they descend through the frames above them
(`ParseTops.lean`). `parse_main` is the induction over `e`, generalised over the spine `F` of the
current level, the stack below, the token suffix and the two flags of the token loop.
-/
import EvalexprVerif.Proofs.ParseTops

namespace Evalexpr.Spec
open Evalexpr

/-- the frame of a `RootNode` (an open parenthesis, or the root of the whole tree) -/
def R : Frame := ⟨.rootNode, []⟩

theorem R_full : R.full := rfl

/-- every frame is complete but for its last child, and is an operator (precedence below 200) -/
def FOK (F : List Frame) : Prop := ∀ f ∈ F, f.full ∧ f.op.precedence < 200

/-- every operator arriving at top level while `render e` is read descends through `F` -/
def Adm (F : List Frame) (e : Expr) : Prop :=
  ∀ f ∈ F, ∀ o ∈ tops e, descends f.op o false = true

/-- the token after an operand is neither an assignment nor the start of another operand -/
def okNext (suf : List Token) : Prop :=
  ∀ t, suf.head? = some t → t.isAssignment = false ∧ t.isLeftsidedValue = false

theorem FOK.full {F : List Frame} (h : FOK F) : ∀ f ∈ R :: F, f.full := by
  intro f hf
  rcases List.mem_cons.mp hf with rfl | hf
  · exact R_full
  · exact (h f hf).1

theorem FOK.snoc {F : List Frame} (h : FOK F) (g : Frame) (hg : g.full)
    (hp : g.op.precedence < 200) : FOK (F ++ [g]) := by
  intro f hf
  rcases List.mem_append.mp hf with hf | hf
  · exact h f hf
  · rw [List.mem_singleton.mp hf]; exact ⟨hg, hp⟩

theorem Adm.snoc {F : List Frame} {e : Expr} (h : Adm F e) (g : Frame)
    (hg : ∀ o ∈ tops e, descends g.op o false = true) : Adm (F ++ [g]) e := by
  intro f hf
  rcases List.mem_append.mp hf with hf | hf
  · exact h f hf
  · rw [List.mem_singleton.mp hf]; exact hg

theorem Adm.nil (e : Expr) : Adm [] e := by intro f hf; cases hf

/-! ### insertion into the spine of the current level -/

theorem ins_atom {F : List Frame} (hF : FOK F) (node : Node) (hp : node.op.precedence = 200) :
    (openS R F).insertBackPrioritized node true = .ok (plug (R :: F) node) :=
  ins_append R F node true hF.full (by simp [descends])
    (fun f hf => descends_of_lt _ _ _ (by rw [hp]; exact (hF f hf).2))

theorem ins_unary {F : List Frame} (hF : FOK F) (node : Node) (hu : node.op.isUnary = true) :
    (openS R F).insertBackPrioritized node true = .ok (plug (R :: F) node) :=
  ins_append R F node true hF.full (by simp [descends])
    (fun f _ => descends_of_unary _ _ _ hu)

theorem ins_binary {F : List Frame} (hF : FOK F) (t : Node) (op : Operator)
    (hadm : ∀ f ∈ F, descends f.op op false = true)
    (hstop : descends t.op op false = false)
    (hnl : op.isLeaf = false) (hnr : op.isRoot = false) :
    (plug (R :: F) t).insertBackPrioritized (Node.new op) true
      = .ok (openS R (F ++ [⟨op, [t]⟩])) := by
  rw [openS_append]
  exact ins_rotate R F t (Node.new op) true hF.full (by simp [descends]) hadm hstop hnl hnr

/-! ### single steps of the token loop -/

theorem step_push (tok : Token) (ts : List Token) (top : Node) (rest : List Node) (lr li : Bool)
    (node top' : Node)
    (hj : juxtaposed lr li tok = false)
    (ht : tokenToNode (top :: rest) lr tok ts.head? = .ok (some node, top :: rest))
    (hns : node.op.isSequence = false) (hts : top.op.isSequence = false)
    (hins : top.insertBackPrioritized node true = .ok top') :
    treeLoop (tok :: ts) (top :: rest) lr li
      = treeLoop ts (top' :: rest) tok.isRightsidedValue tok.isIdentifier := by
  simp [treeLoop, treeStep, hj, ht, hns, pushNode, hts, hins]

theorem step_lBrace (ts : List Token) (st : List Node) (lr li : Bool)
    (h : lr = false ∨ li = true) :
    treeLoop (.lBrace :: ts) st lr li = treeLoop ts (openS R [] :: st) false false := by
  have hj : juxtaposed lr li .lBrace = false := by
    rcases h with h | h <;> simp [juxtaposed, h, Token.isNot]
  simp [treeLoop, treeStep, hj, tokenToNode, Token.isRightsidedValue, Token.isIdentifier,
    openS, R, Node.rootNode]

theorem step_rBrace (ts : List Token) (t top top' : Node) (rest : List Node) (lr li : Bool)
    (hts : top.op.isSequence = false)
    (hins : top.insertBackPrioritized ⟨.rootNode, [t]⟩ true = .ok top') :
    treeLoop (.rBrace :: ts) (⟨.rootNode, [t]⟩ :: top :: rest) lr li
      = treeLoop ts (top' :: rest) true false := by
  have hj : juxtaposed lr li .rBrace = false := by
    simp [juxtaposed, Token.isNot, Token.isLeftsidedValue]
  have hc : collapseAllSequences (⟨.rootNode, [t]⟩ :: top :: rest)
      = .ok (⟨.rootNode, [t]⟩ :: top :: rest) := by
    simp [collapseAllSequences, collapseAllLoop, Operator.isRoot, Operator.kind,
      Node.hasTooManyChildren, Operator.maxArgumentAmount, OpKind.maxArgumentAmount]
  have hk : tokenToNode (⟨.rootNode, [t]⟩ :: top :: rest) lr .rBrace ts.head?
      = .ok (some ⟨.rootNode, [t]⟩, top :: rest) := by
    simp [tokenToNode, hc]
  have hs : (Operator.rootNode).isSequence = false := rfl
  simp [treeLoop, treeStep, hj, hk, hs, pushNode, hts, hins, Token.isRightsidedValue,
    Token.isIdentifier]

/-- after an operand, `lastIdentifier` only matters if another operand follows -/
theorem li_irrelevant (suf : List Token) (st : List Node) (li : Bool) (h : okNext suf) :
    treeLoop suf st true li = treeLoop suf st true false := by
  cases suf with
  | nil => simp [treeLoop]
  | cons t ts =>
    have := (h t rfl).2
    simp [treeLoop, treeStep, juxtaposed, this]

theorem openS_R_seq (F : List Frame) : (openS R F).op.isSequence = false := by
  rw [openS_op]; rfl

theorem plug_R_seq (F : List Frame) (t : Node) : (plug (R :: F) t).op.isSequence = false := rfl

/-! ### the induction -/

/-- the statement proved by induction on `e`: reading `render e` in an operand position of the
spine `F` fills the open slot with `toTree e` -/
def Goal (e : Expr) : Prop :=
  ∀ (F : List Frame) (rest : List Node) (suf : List Token) (lr li : Bool),
    FOK F → Adm F e → (lr = false ∨ (li = true ∧ e.headPrec = none)) → okNext suf →
    treeLoop (render e ++ suf) (openS R F :: rest) lr li
      = treeLoop suf (plug (R :: F) (toTree e) :: rest) true false

/-- an operand, parenthesised (`b = true`) or bare -/
theorem operand {e : Expr} (ih : Goal e) (b : Bool) (F : List Frame) (rest : List Node)
    (suf : List Token) (lr li : Bool) (hF : FOK F) (hadm : b = false → Adm F e)
    (hs : lr = false ∨ (li = true ∧ (b = true ∨ e.headPrec = none))) (hn : okNext suf) :
    treeLoop (wrap b (render e) ++ suf) (openS R F :: rest) lr li
      = treeLoop suf (plug (R :: F) (wrapTree b (toTree e)) :: rest) true false := by
  cases b with
  | false =>
    simp only [wrap, wrapTree, Bool.false_eq_true, if_false]
    refine ih F rest suf lr li hF (hadm rfl) ?_ hn
    rcases hs with h | ⟨h1, h2⟩
    · exact .inl h
    · exact .inr ⟨h1, by simpa using h2⟩
  | true =>
    simp only [wrap, wrapTree, if_true, List.cons_append, List.append_assoc, List.nil_append]
    rw [step_lBrace _ _ _ _ (by rcases hs with h | ⟨h, _⟩ <;> simp [h])]
    rw [ih [] (openS R F :: rest) (.rBrace :: suf) false false (by intro f hf; cases hf)
      (Adm.nil e) (.inl rfl) (by intro t ht; simp at ht; subst ht; exact ⟨rfl, rfl⟩)]
    simp only [plug, R, List.nil_append]
    exact step_rBrace suf (toTree e) (openS R F) _ rest true false (openS_R_seq F)
      (ins_atom hF _ rfl)

/-- the first token of an operand that is a parenthesised group or an atom -/
theorem head_operand (b : Bool) (e : Expr) (suf : List Token)
    (h : b = true ∨ e.headPrec = none) :
    ∃ t, (wrap b (render e) ++ suf).head? = some t ∧ t.isLeftsidedValue = true ∧
      t.isAssignment = false := by
  cases b with
  | true => exact ⟨.lBrace, rfl, rfl, rfl⟩
  | false =>
    have h : e.headPrec = none := by simpa using h
    cases e with
    | lit l => cases l <;> exact ⟨_, rfl, rfl, rfl⟩
    | var x => exact ⟨_, rfl, rfl, rfl⟩
    | call f a => exact ⟨_, rfl, rfl, rfl⟩
    | paren e => exact ⟨_, rfl, rfl, rfl⟩
    | neg e => simp [Expr.headPrec] at h
    | not e => simp [Expr.headPrec] at h
    | bin op l r => simp [Expr.headPrec] at h
    | assign op x rhs => simp [Expr.headPrec] at h

theorem juxt_leftsided {lr li : Bool} {P : Prop} (hs : lr = false ∨ (li = true ∧ P))
    (tok : Token) (hn : tok.isNot = false) : juxtaposed lr li tok = false := by
  rcases hs with h | ⟨h, _⟩ <;> simp [juxtaposed, h, hn]

theorem parse_lit (l : Lit) : Goal (.lit l) := by
  intro F rest suf lr li hF _ hs hn
  simp only [render, toTree, List.singleton_append]
  rw [step_push l.token suf (openS R F) rest lr li ⟨.const l.value, []⟩
    (plug (R :: F) ⟨.const l.value, []⟩)
    (juxt_leftsided hs _ (by cases l <;> rfl))
    (by cases l <;> rfl) rfl (openS_R_seq F) (ins_atom hF _ rfl)]
  cases l <;> rfl

theorem parse_var (x : Str) : Goal (.var x) := by
  intro F rest suf lr li hF _ hs hn
  simp only [render, toTree, List.singleton_append]
  have hk : tokenToNode (openS R F :: rest) lr (.identifier x) suf.head?
      = .ok (some ⟨.varRead x, []⟩, openS R F :: rest) := by
    cases hh : suf.head? with
    | none => rfl
    | some t =>
      obtain ⟨h1, h2⟩ := hn t hh
      simp [tokenToNode, h1, h2, Node.new]
  rw [step_push (.identifier x) suf (openS R F) rest lr li ⟨.varRead x, []⟩
    (plug (R :: F) ⟨.varRead x, []⟩) (juxt_leftsided hs _ rfl) hk rfl (openS_R_seq F)
    (ins_atom hF _ rfl)]
  exact li_irrelevant suf _ _ hn

theorem parse_paren (e : Expr) (ih : Goal e) : Goal (.paren e) := by
  intro F rest suf lr li hF _ hs hn
  have := operand ih true F rest suf lr li hF (by intro h; cases h)
    (by rcases hs with h | ⟨h, _⟩ <;> simp [h]) hn
  simpa [wrap, wrapTree, render, toTree] using this

theorem parse_call (f : Str) (a : Expr) (ih : Goal a) : Goal (.call f a) := by
  intro F rest suf lr li hF hadm hs hn
  simp only [render, toTree, List.cons_append]
  have harg : needsParenArg a = true ∨ a.headPrec = none := by
    cases h : needsParenArg a with
    | true => exact .inl rfl
    | false => right; simpa [needsParenArg] using h
  obtain ⟨t, ht, ht1, ht2⟩ := head_operand (needsParenArg a) a suf harg
  have hk : tokenToNode (openS R F :: rest) lr (.identifier f)
      (wrap (needsParenArg a) (render a) ++ suf).head?
      = .ok (some ⟨.fn f, []⟩, openS R F :: rest) := by
    simp [tokenToNode, ht, ht1, ht2, Node.new]
  rw [step_push (.identifier f) _ (openS R F) rest lr li ⟨.fn f, []⟩
    (openS R (F ++ [⟨.fn f, []⟩])) (juxt_leftsided hs _ rfl) hk rfl (openS_R_seq F)
    (by rw [openS_append]; exact ins_unary hF _ rfl)]
  show treeLoop _ _ true true = _
  rw [operand ih (needsParenArg a) (F ++ [Frame.mk (.fn f) []]) rest suf true true
    (hF.snoc ⟨.fn f, []⟩ rfl (by show 190 < 200; omega)) ?_ (.inr ⟨rfl, harg⟩) hn]
  · rw [← List.cons_append, plug_append]; rfl
  · intro hb
    refine Adm.snoc ?_ _ (below_fn hb f)
    intro g hg o ho
    exact hadm g hg o (by simp [tops, hb, ho])

/-- the common part of the two prefix operators -/
theorem parse_prefix (tok : Token) (op : Operator) (e : Expr) (ih : Goal e)
    (htok : ∀ st next, tokenToNode st false tok next = .ok (some ⟨op, []⟩, st))
    (hnot : ∀ li, juxtaposed false li tok = false)
    (hr : tok.isRightsidedValue = false)
    (hu : op.isUnary = true) (hp : op.precedence = 110)
    (hseq : op.isSequence = false) (hmax : op.maxArgumentAmount = some 1)
    (F : List Frame) (rest : List Node) (suf : List Token) (li : Bool)
    (hF : FOK F)
    (hadm : needsParenUnary e = false → Adm F e)
    (hn : okNext suf) :
    treeLoop (tok :: wrap (needsParenUnary e) (render e) ++ suf) (openS R F :: rest) false li
      = treeLoop suf (plug (R :: F) ⟨op, [wrapTree (needsParenUnary e) (toTree e)]⟩ :: rest)
          true false := by
  rw [List.cons_append, step_push tok _ (openS R F) rest false li ⟨op, []⟩
    (openS R (F ++ [⟨op, []⟩])) (hnot li) (htok _ _) hseq (openS_R_seq F)
    (by rw [openS_append]; exact ins_unary hF _ hu)]
  rw [hr, operand ih (needsParenUnary e) (F ++ [Frame.mk op []]) rest suf false tok.isIdentifier
    (hF.snoc ⟨op, []⟩ hmax (by show op.precedence < 200; omega)) ?_ (.inl rfl) hn]
  · rw [← List.cons_append, plug_append]; rfl
  · intro hb
    exact Adm.snoc (hadm hb) _ (below_unary hb op hp)

theorem parse_neg (e : Expr) (ih : Goal e) : Goal (.neg e) := by
  intro F rest suf lr li hF hadm hs hn
  have hlr : lr = false := by
    rcases hs with h | ⟨_, h⟩
    · exact h
    · simp [Expr.headPrec] at h
  subst hlr
  simp only [render, toTree]
  exact parse_prefix .minus .neg e ih (fun _ _ => rfl) (fun _ => rfl) rfl rfl rfl rfl rfl
    F rest suf li hF
    (fun hb g hg o ho => hadm g hg o (by simp [tops, hb, ho])) hn

theorem parse_not (e : Expr) (ih : Goal e) : Goal (.not e) := by
  intro F rest suf lr li hF hadm hs hn
  have hlr : lr = false := by
    rcases hs with h | ⟨_, h⟩
    · exact h
    · simp [Expr.headPrec] at h
  subst hlr
  simp only [render, toTree]
  exact parse_prefix .not .not e ih (fun _ _ => rfl) (fun _ => rfl) rfl rfl rfl rfl rfl
    F rest suf li hF
    (fun hb g hg o ho => hadm g hg o (by simp [tops, hb, ho])) hn

/-- the root of `toTree e` binds at least as tightly as `lb e` -/
theorem toTree_prec (e : Expr) : lb e ≤ (toTree e).op.precedence ∨ (toTree e).op.precedence = 190 ∨
    (isAA e = true ∧ (toTree e).op.precedence = 50) := by
  cases e with
  | lit l => left; exact Nat.le_refl _
  | var x => left; exact Nat.le_refl _
  | call f a => right; left; rfl
  | neg e => left; exact Nat.le_refl _
  | not e => left; exact Nat.le_refl _
  | paren e => left; exact Nat.le_refl _
  | bin op l r => left; simp only [lb, toTree]; rw [(binop_facts op).2.2.1]; exact Nat.le_refl _
  | assign op x rhs =>
    cases op <;> first | (right; right; exact ⟨rfl, rfl⟩) | (left; exact Nat.le_refl 50)

/-- a binary operator does not descend into its (possibly parenthesised) left operand -/
theorem stop_left (op : BinOp) (l : Expr) :
    descends (wrapTree (needsParenLeft op l) (toTree l)).op op.toOperator false = false := by
  obtain ⟨h1, h2, h3, _⟩ := binop_facts op
  have hle := docPrec_le op
  have hge := docPrec_ge op
  have hp : op.docPrec ≤ (wrapTree (needsParenLeft op l) (toTree l)).op.precedence := by
    cases hb : needsParenLeft op l with
    | true => simp only [wrapTree, if_true]; show op.docPrec ≤ 200; omega
    | false =>
      simp only [wrapTree, Bool.false_eq_true, if_false]
      have := lb_of_left hb
      rcases toTree_prec l with h | h | ⟨haa, h⟩
      · omega
      · omega
      · have := lb_of_isAA haa; omega
  simp only [descends, h1, h2, h3]
  simp
  omega

theorem binop_token (op : BinOp) (st : List Node) (next : Option Token) :
    tokenToNode st true op.token next = .ok (some (Node.new op.toOperator), st) := by
  cases op <;> rfl

theorem binop_token_facts (op : BinOp) :
    op.token.isNot = false ∧ op.token.isLeftsidedValue = false ∧
    op.token.isRightsidedValue = false ∧ op.token.isAssignment = false := by
  cases op <;> exact ⟨rfl, rfl, rfl, rfl⟩

theorem parse_bin (op : BinOp) (l r : Expr) (ihl : Goal l) (ihr : Goal r) :
    Goal (.bin op l r) := by
  intro F rest suf lr li hF hadm hs hn
  have hlr : lr = false := by
    rcases hs with h | ⟨_, h⟩
    · exact h
    · simp [Expr.headPrec] at h
  subst hlr
  obtain ⟨h1, h2, h3, h4, h5, h6⟩ := binop_facts op
  obtain ⟨k1, k2, k3, k4⟩ := binop_token_facts op
  simp only [render, toTree, List.append_assoc, List.cons_append]
  rw [operand ihl (needsParenLeft op l) F rest _ false li hF
    (fun hb g hg o ho => hadm g hg o (by simp [tops, hb, ho])) (.inl rfl)
    (by intro t ht; simp at ht; subst ht; exact ⟨k4, k2⟩)]
  rw [step_push op.token _ _ rest true false (Node.new op.toOperator)
    (openS R (F ++ [⟨op.toOperator, [wrapTree (needsParenLeft op l) (toTree l)]⟩]))
    (by simp [juxtaposed, k1, k2]) (binop_token op _ _) h6 (plug_R_seq F _)
    (ins_binary hF _ _ (fun g hg => hadm g hg _ (by simp [tops])) (stop_left op l) h4 h5)]
  rw [k3, operand ihr (needsParenRight op r)
    (F ++ [Frame.mk op.toOperator [wrapTree (needsParenLeft op l) (toTree l)]]) rest suf false _
    (hF.snoc ⟨op.toOperator, [wrapTree (needsParenLeft op l) (toTree l)]⟩ (by cases op <;> rfl)
      (by show op.toOperator.precedence < 200; rw [h3]; have := docPrec_le op; omega)) ?_ (.inl rfl) hn]
  · rw [← List.cons_append, plug_append]; rfl
  · intro hb
    refine Adm.snoc ?_ _ (below_right hb)
    intro g hg o ho
    exact hadm g hg o (by simp [tops, hb, ho])

theorem assignop_token (op : AssignOp) (st : List Node) (lr : Bool) (next : Option Token) :
    tokenToNode st lr op.token next = .ok (some (Node.new op.toOperator), st) := by
  cases op <;> rfl

theorem assignop_token_facts (op : AssignOp) :
    op.token.isNot = false ∧ op.token.isLeftsidedValue = false ∧
    op.token.isRightsidedValue = false ∧ op.token.isAssignment = true := by
  cases op <;> exact ⟨rfl, rfl, rfl, rfl⟩

theorem parse_assign (op : AssignOp) (x : Str) (rhs : Expr) (ih : Goal rhs) :
    Goal (.assign op x rhs) := by
  intro F rest suf lr li hF hadm hs hn
  obtain ⟨h1, h2, h3, h4, h5, h6, h7⟩ := assignop_facts op
  obtain ⟨k1, k2, k3, k4⟩ := assignop_token_facts op
  simp only [render, toTree, List.cons_append]
  have hk : tokenToNode (openS R F :: rest) lr (.identifier x)
      (op.token :: (wrap (needsParenRhs op rhs) (render rhs) ++ suf)).head?
      = .ok (some ⟨.varWrite x, []⟩, openS R F :: rest) := by
    simp [tokenToNode, k4, Node.new]
  rw [step_push (.identifier x) _ (openS R F) rest lr li ⟨.varWrite x, []⟩
    (plug (R :: F) ⟨.varWrite x, []⟩) (juxt_leftsided hs _ rfl) hk rfl (openS_R_seq F)
    (ins_atom hF _ rfl)]
  have hstop : descends (Operator.varWrite x) op.toOperator false = false := by
    simp only [descends, h1, h2]
    simp [Operator.precedence, Operator.kind, OpKind.precedence]
  rw [step_push op.token _ _ rest _ _ (Node.new op.toOperator)
    (openS R (F ++ [⟨op.toOperator, [⟨.varWrite x, []⟩]⟩]))
    (by simp [juxtaposed, k1, k2]) (assignop_token op _ _ _) h5 (plug_R_seq F _)
    (ins_binary hF _ _ (fun g hg => hadm g hg _ (by simp [tops])) hstop h3 h4)]
  rw [k3, operand ih (needsParenRhs op rhs)
    (F ++ [Frame.mk op.toOperator [⟨.varWrite x, []⟩]]) rest suf false _
    (hF.snoc ⟨op.toOperator, [⟨.varWrite x, []⟩]⟩ (by cases op <;> rfl)
      (by show op.toOperator.precedence < 200; rw [h2]; omega)) ?_ (.inl rfl) hn]
  · rw [← List.cons_append, plug_append]; rfl
  · intro hb
    refine Adm.snoc ?_ _ (below_assign hb)
    intro g hg o ho
    exact hadm g hg o (by simp [tops, hb, ho])

theorem parse_main (e : Expr) : Goal e := by
  induction e with
  | lit l => exact parse_lit l
  | var x => exact parse_var x
  | call f a ih => exact parse_call f a ih
  | neg e ih => exact parse_neg e ih
  | not e ih => exact parse_not e ih
  | bin op l r ihl ihr => exact parse_bin op l r ihl ihr
  | assign op x rhs ih => exact parse_assign op x rhs ih
  | paren e ih => exact parse_paren e ih

/-- C02: the canonical rendering of an expression parses to the documented operator tree -/
theorem C02_parse (e : Expr) :
    tokensToOperatorTree (render e) = .ok ⟨.rootNode, [toTree e]⟩ := by
  have h := parse_main e [] [] [] false false (by intro f hf; cases hf) (Adm.nil e) (.inl rfl)
    (by intro t ht; cases ht)
  simp only [List.append_nil, openS, R, plug, List.nil_append] at h
  simp only [tokensToOperatorTree, Node.rootNode, h, treeLoop]
  simp [collapseAllSequences, collapseAllLoop, Operator.isRoot, Operator.kind,
    Node.hasTooManyChildren, Operator.maxArgumentAmount, OpKind.maxArgumentAmount]

end Evalexpr.Spec
