/-
Proofs/AgreeFnIter.lean — `NodeIter::next` and `OperatorIterMut::next` of src/tree/iter.rs as translated on this run
(`Generated/FnIter.lean`) against the Model's `nodeIterNext` / `operatorIterMutNext` (`Model/Iter.lean`).

The Rust functions are a `loop` over an explicit stack (a `Vec`, top = last element) of slice iterators; the generated
functions take their fuel as a parameter and end with `.error (.panic "… out of fuel")` when it runs out. The Model's
functions recurse on the stack (a list, head = top). The theorems: with more fuel than the stack has entries, the
generated function finishes, with the Model's answer on the reversed stack and the reversed new stack (the empty stack
when the iterator is exhausted). So the `loop` terminates within `stack.len() + 1` iterations — proved, not assumed.
-/
import EvalexprVerif.Generated.FnIter
import EvalexprVerif.Translate.Lemmas
import EvalexprVerif.Model.Iter

set_option linter.unusedSimpArgs false

namespace Evalexpr.AgreeFn
open Evalexpr

/-- `NodeIter::new` / `OperatorIterMut::new`: the initial stack of `Node.iter` / `Node.iterOperatorsMut` (`[n.children]`) -/
theorem fn_NodeIter_new_agree (n : Node) : Gen.NodeIter.new n = ⟨[n.children]⟩ := rfl
theorem fn_OperatorIterMut_new_agree (n : Node) : Gen.OperatorIterMut.new n = ⟨[n.children]⟩ := rfl

theorem fn_NodeIter_next_agree (rs : List (List Node)) (fuel : Nat) (h : rs.length < fuel) :
    Gen.NodeIter.next fuel ⟨rs.reverse⟩ =
      .ok (match nodeIterNext rs with
        | none => (none, ⟨[]⟩)
        | some (n, rs') => (some n, ⟨rs'.reverse⟩)) := by
  induction rs generalizing fuel with
  | nil =>
    cases fuel with
    | zero => cases h
    | succ fuel => simp [Gen.NodeIter.next, Rs.Flow.run_loop_bind, Rs.loopRes, nodeIterNext]
  | cons top rest ih =>
    cases fuel with
    | zero => cases h
    | succ fuel =>
      have ih' := ih fuel (by simpa using h)
      simp only [Gen.NodeIter.next, Rs.Flow.run_loop_bind] at ih' ⊢
      cases top with
      | nil => simp [Rs.loopRes, nodeIterNext] at ih' ⊢; exact ih'
      | cons n ns => simp [Rs.loopRes, nodeIterNext]

theorem fn_OperatorIterMut_next_agree (rs : List (List Node)) (fuel : Nat) (h : rs.length < fuel) :
    Gen.OperatorIterMut.next fuel ⟨rs.reverse⟩ =
      .ok (match operatorIterMutNext rs with
        | none => (none, ⟨[]⟩)
        | some (o, rs') => (some o, ⟨rs'.reverse⟩)) := by
  induction rs generalizing fuel with
  | nil =>
    cases fuel with
    | zero => cases h
    | succ fuel => simp [Gen.OperatorIterMut.next, Rs.Flow.run_loop_bind, Rs.loopRes, operatorIterMutNext]
  | cons top rest ih =>
    cases fuel with
    | zero => cases h
    | succ fuel =>
      have ih' := ih fuel (by simpa using h)
      simp only [Gen.OperatorIterMut.next, Rs.Flow.run_loop_bind] at ih' ⊢
      cases top with
      | nil => simp [Rs.loopRes, operatorIterMutNext] at ih' ⊢; exact ih'
      | cons n ns => simp [Rs.loopRes, operatorIterMutNext]

end Evalexpr.AgreeFn
