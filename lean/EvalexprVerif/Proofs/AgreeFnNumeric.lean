/-
Proofs/AgreeFnNumeric.lean — src/value/numeric_types/default_numeric_types.rs as translated on this run
(`Generated/FnNumericTypes.lean`: `impl EvalexprNumericTypes for DefaultNumericTypes`;
`Generated/FnNumeric.lean`: `impl EvalexprInt for i64`, `impl EvalexprFloat for f64`) against
`Model/Value.lean` (`checkedAdd` …, `checkedAbs`, `intFromUsize`, `intIntoUsize`) and the functions the
Model's builtins apply (`Model/Builtin.lean`, `Model/F64.lean`). The std methods of the primitives
(`i64::checked_add`, `f64::ln`, …) are the boundary here (Prelude `Rs.i64_*`, Lean `Float`, libm bindings).
Not translated: `from_hex_str` (`Result<_, ()>`), `random` (cfg attributes inside the body).
-/
import EvalexprVerif.Generated.FnNumeric
import EvalexprVerif.Translate.Lemmas

namespace Evalexpr.AgreeFn
open Evalexpr

/-! ### `impl EvalexprNumericTypes for DefaultNumericTypes` -/
theorem fn_int_as_float_agree (i : Int64) : Gen.DefaultNumericTypes.int_as_float i = i.toFloat := rfl
theorem fn_float_as_int_agree (f : Float) : Gen.DefaultNumericTypes.float_as_int f = f.toInt64 := rfl

theorem fn_Value_from_int_agree (i : Int64) : Gen.Value.from_int i = .int i := rfl

/-! ### `impl EvalexprInt for i64` -/

/-- unfold the trait method, the std method and the Model function; split on the divisor tests and on whether the
exact result fits (`i64Of …`, abstracted before anything is reduced) -/
macro "checked_op" z:term : tactic => `(tactic| (
  simp only [Gen.i64.checked_add, Gen.i64.checked_sub, Gen.i64.checked_mul, Gen.i64.checked_div, Gen.i64.checked_rem,
    Gen.i64.checked_neg, checkedAdd, checkedSub, checkedMul, checkedDiv, checkedRem, checkedNeg,
    Rs.i64_checked_add, Rs.i64_checked_sub, Rs.i64_checked_mul, Rs.i64_checked_div, Rs.i64_checked_rem,
    Rs.i64_checked_neg, Rs.ok_or_else, fn_Value_from_int_agree]
  repeat' split
  all_goals first
    | rfl
    | (generalize i64Of $z = o at *; cases o <;> first | rfl | contradiction | simp_all)))

theorem fn_i64_checked_add_agree (a b : Int64) : Gen.i64.checked_add a b = checkedAdd a b := by
  checked_op (a.toInt + b.toInt)
theorem fn_i64_checked_sub_agree (a b : Int64) : Gen.i64.checked_sub a b = checkedSub a b := by
  checked_op (a.toInt - b.toInt)
theorem fn_i64_checked_mul_agree (a b : Int64) : Gen.i64.checked_mul a b = checkedMul a b := by
  checked_op (a.toInt * b.toInt)
theorem fn_i64_checked_div_agree (a b : Int64) : Gen.i64.checked_div a b = checkedDiv a b := by
  checked_op (a.toInt.tdiv b.toInt)
theorem fn_i64_checked_rem_agree (a b : Int64) : Gen.i64.checked_rem a b = checkedRem a b := by
  checked_op (a.toInt.tmod b.toInt)
theorem fn_i64_checked_neg_agree (a : Int64) : Gen.i64.checked_neg a = checkedNeg a := by
  checked_op (-a.toInt)

/-- `abs`. Kernel note (as in Proofs/BuiltinBasic.lean): `i64Of ↑(natAbs _)` must never be reduced for a symbolic
argument (`↑n < 2^63` ends in `Nat.sub (succ n) 2^63`, i.e. 2^63 unfolding steps). Both functions are therefore unfolded
as *functions* (`congrFun`), the test is replaced by a variable through a hypothesis about the *folded* std call, and
the two sides meet in `absSpec`, a shared definition. -/
def absSpec (a : Int64) (o : Option Int64) : Res Int64 :=
  match o with
  | some r => .ok r
  | none => .error (.negationError (.int a))

theorem gen_abs_of (a : Int64) (o : Option Int64) (h : Rs.i64_checked_abs a = o) : Gen.i64.abs a = absSpec a o := by
  have G := congrFun (by delta Gen.i64.abs; exact rfl : Gen.i64.abs = _) a
  rw [G]
  try dsimp only
  rw [h]
  cases o <;> first | rfl | simp [Rs.ok_or_else, absSpec, fn_Value_from_int_agree]

theorem model_abs_of (a : Int64) (o : Option Int64) (h : i64Of (a.toInt.natAbs : Int) = o) : checkedAbs a = absSpec a o := by
  have E := congrFun (by delta checkedAbs; exact rfl : checkedAbs = _) a
  rw [E]
  try dsimp only
  rw [h]
  cases o <;> rfl

theorem fn_i64_abs_agree (a : Int64) : Gen.i64.abs a = checkedAbs a :=
  (gen_abs_of a _ rfl).trans (model_abs_of a _ rfl).symm

theorem fn_i64_bitand_agree (a b : Int64) : Gen.i64.bitand a b = a &&& b := rfl
theorem fn_i64_bitor_agree (a b : Int64) : Gen.i64.bitor a b = a ||| b := rfl
theorem fn_i64_bitxor_agree (a b : Int64) : Gen.i64.bitxor a b = a ^^^ b := rfl
theorem fn_i64_bitnot_agree (a : Int64) : Gen.i64.bitnot a = ~~~a := rfl

/-! `bit_shift_left` / `bit_shift_right`: `self.wrapping_shl(*rhs as u32)` (shift by the low 6 bits of `rhs`) against Lean's
`Int64` shifts (shift by `rhs.toBitVec.smod 64`), which the Model's `shl` / `shr` builtins use -/
/-- the shift amount Lean's `Int64` shifts use (`k.toBitVec.smod 64`) is `k mod 64` on the bit pattern: the low 6 bits -/
theorem smod64_toNat (k : Int64) : (k.toBitVec.smod 64).toNat = k.toBitVec.toNat % 64 := by
  have h : (k.toBitVec.smod 64).toInt = k.toBitVec.toInt.fmod 64 := by
    rw [BitVec.toInt_smod]; rfl
  have h64 : (64 : Int) > 0 := by decide
  rw [Int.fmod_eq_emod_of_nonneg _ (by omega)] at h
  have hlt := (k.toBitVec.smod 64).isLt
  have hk := k.toBitVec.isLt
  have e1 := BitVec.toInt_eq_toNat_cond (k.toBitVec.smod 64)
  have e2 := BitVec.toInt_eq_toNat_cond k.toBitVec
  split at e1 <;> split at e2 <;> omega

theorem cast_u32_mod (k : Int64) : ((Rs.cast k : UInt32).toNat) % 64 = k.toBitVec.toNat % 64 := by
  show (k.toUInt64.toUInt32.toNat) % 64 = _
  rw [UInt64.toNat_toUInt32]
  have : k.toUInt64.toNat = k.toBitVec.toNat := rfl
  rw [this]
  omega

theorem fn_i64_bit_shift_left_agree (a b : Int64) : Gen.i64.bit_shift_left a b = a <<< b := by
  apply Int64.toBitVec_inj.1
  rw [Int64.toBitVec_shiftLeft, BitVec.shiftLeft_eq', smod64_toNat]
  show a.toBitVec <<< ((Rs.cast b : UInt32).toNat % 64) = _
  rw [cast_u32_mod]
theorem fn_i64_bit_shift_right_agree (a b : Int64) : Gen.i64.bit_shift_right a b = a >>> b := by
  apply Int64.toBitVec_inj.1
  rw [Int64.toBitVec_shiftRight, BitVec.sshiftRight_eq', smod64_toNat]
  show a.toBitVec.sshiftRight ((Rs.cast b : UInt32).toNat % 64) = _
  rw [cast_u32_mod]
theorem fn_i64_from_usize_agree (n : Nat) : Gen.i64.from_usize n = intFromUsize n := by
  simp only [Gen.i64.from_usize, intFromUsize, Rs.try_into]
  split <;> rfl

theorem fn_i64_into_usize_agree (i : Int64) : Gen.i64.into_usize i = intIntoUsize i := by
  unfold Gen.i64.into_usize intIntoUsize
  show (if decide (i.toInt ≥ (0 : Int64).toInt) = true then _ else _) = _
  have z : (0 : Int64).toInt = 0 := rfl
  rw [z]
  by_cases h : i.toInt ≥ 0
  · have h0 : (0 : Int64) ≤ i := by rw [Int64.le_iff_toInt_le]; exact h
    have e : i.toUInt64.toNat = i.toInt.toNat := by rw [Int64.toNat_toUInt64_of_le h0]; rfl
    rw [if_pos (by simpa using h), if_pos h]
    show Rs.map_err (Except.ok i.toUInt64.toNat) _ = _
    rw [e]; rfl
  · rw [if_neg (by simpa using h), if_neg h]

/-! ### `impl EvalexprFloat for f64`: each trait method is the std method of the same meaning -/
theorem fn_f64_pow_agree (a b : Float) : Gen.f64.pow a b = Float.pow a b := rfl
theorem fn_f64_ln_agree (a : Float) : Gen.f64.ln a = Float.log a := rfl
theorem fn_f64_log_agree (a b : Float) : Gen.f64.log a b = F64.logBase a b := rfl
theorem fn_f64_log2_agree (a : Float) : Gen.f64.log2 a = Float.log2 a := rfl
theorem fn_f64_log10_agree (a : Float) : Gen.f64.log10 a = Float.log10 a := rfl
theorem fn_f64_exp_agree (a : Float) : Gen.f64.exp a = Float.exp a := rfl
theorem fn_f64_exp2_agree (a : Float) : Gen.f64.exp2 a = Float.exp2 a := rfl
theorem fn_f64_cos_agree (a : Float) : Gen.f64.cos a = Float.cos a := rfl
theorem fn_f64_cosh_agree (a : Float) : Gen.f64.cosh a = Float.cosh a := rfl
theorem fn_f64_acos_agree (a : Float) : Gen.f64.acos a = Float.acos a := rfl
theorem fn_f64_acosh_agree (a : Float) : Gen.f64.acosh a = F64.acosh a := rfl
theorem fn_f64_sin_agree (a : Float) : Gen.f64.sin a = Float.sin a := rfl
theorem fn_f64_sinh_agree (a : Float) : Gen.f64.sinh a = Float.sinh a := rfl
theorem fn_f64_asin_agree (a : Float) : Gen.f64.asin a = Float.asin a := rfl
theorem fn_f64_asinh_agree (a : Float) : Gen.f64.asinh a = F64.asinh a := rfl
theorem fn_f64_tan_agree (a : Float) : Gen.f64.tan a = Float.tan a := rfl
theorem fn_f64_tanh_agree (a : Float) : Gen.f64.tanh a = Float.tanh a := rfl
theorem fn_f64_atan_agree (a : Float) : Gen.f64.atan a = Float.atan a := rfl
theorem fn_f64_atanh_agree (a : Float) : Gen.f64.atanh a = F64.atanh a := rfl
theorem fn_f64_atan2_agree (a b : Float) : Gen.f64.atan2 a b = Float.atan2 a b := rfl
theorem fn_f64_sqrt_agree (a : Float) : Gen.f64.sqrt a = Float.sqrt a := rfl
theorem fn_f64_cbrt_agree (a : Float) : Gen.f64.cbrt a = Float.cbrt a := rfl
theorem fn_f64_hypot_agree (a b : Float) : Gen.f64.hypot a b = F64.hypot a b := rfl
theorem fn_f64_floor_agree (a : Float) : Gen.f64.floor a = Float.floor a := rfl
theorem fn_f64_round_agree (a : Float) : Gen.f64.round a = Float.round a := rfl
theorem fn_f64_ceil_agree (a : Float) : Gen.f64.ceil a = Float.ceil a := rfl
theorem fn_f64_is_nan_agree (a : Float) : Gen.f64.is_nan a = F64.isNaN a := rfl
theorem fn_f64_is_finite_agree (a : Float) : Gen.f64.is_finite a = F64.isFinite a := rfl
theorem fn_f64_is_infinite_agree (a : Float) : Gen.f64.is_infinite a = F64.isInfinite a := rfl
theorem fn_f64_is_normal_agree (a : Float) : Gen.f64.is_normal a = F64.isNormal a := rfl
theorem fn_f64_abs_agree (a : Float) : Gen.f64.abs a = Float.abs a := rfl
theorem fn_f64_min_agree (a b : Float) : Gen.f64.min a b = F64.fmin a b := rfl
theorem fn_f64_max_agree (a b : Float) : Gen.f64.max a b = F64.fmax a b := rfl

end Evalexpr.AgreeFn
