/-
Proofs/LitParts.lean — C06 helpers: characters, the digit / dot / exponent parts of a numeric word,
`F64.parseMagnitude` as an equation over these parts, and the spec-side grammar (`isMantissa`,
`splitExp`) in terms of the same parts.
-/
import EvalexprVerif.Spec.Literals
import EvalexprVerif.Proofs.LexRoundtrip

namespace Evalexpr.Spec
open Evalexpr

/-! ### characters -/

theorem char_le_iff (a b : Char) : a ≤ b ↔ a.toNat ≤ b.toNat := by
  rw [Char.le_def, UInt32.le_iff_toNat_le]; rfl

theorem isDigit_iff (c : Char) : F64.isDigit c = true ↔ 48 ≤ c.toNat ∧ c.toNat ≤ 57 := by
  simp [F64.isDigit, char_le_iff]

theorem ne_of_isDigit (c d : Char) (h : F64.isDigit c = true) (hd : F64.isDigit d = false) : c ≠ d := by
  intro e; subst e; simp [hd] at h

theorem lowerAscii_of_isDigit (c : Char) (h : F64.isDigit c = true) : F64.lowerAscii c = c := by
  rw [isDigit_iff] at h
  have : ('A' ≤ c && c ≤ 'Z') = false := by
    cases hh : ('A' ≤ c && c ≤ 'Z')
    · rfl
    · simp [char_le_iff] at hh; omega
  simp [F64.lowerAscii, this]

/-- the final computation of `F64.parseMagnitude` -/
def magOf (digits : Str) (fplen : Nat) (e10 : Int) : UInt64 :=
  let m := F64.digitsVal digits
  let e10 := e10 - fplen
  if m == 0 then 0
  else
    let nd : Int := F64.decLen m
    if e10 + nd > 400 then 0x7ff0000000000000
    else if e10 + nd < -400 then 0
    else if e10 ≥ 0 then (F64.roundRat (m * 10 ^ e10.toNat) 1)
    else (F64.roundRat m (10 ^ (-e10).toNat))

theorem special_false (cs : Str) (h : startsLikeNumber cs = true) :
    (cs.map F64.lowerAscii == cl!"inf" || cs.map F64.lowerAscii == cl!"infinity") = false ∧
    (cs.map F64.lowerAscii == cl!"nan") = false := by
  cases cs with
  | nil => simp [startsLikeNumber] at h
  | cons c cs =>
    simp only [startsLikeNumber, Bool.or_eq_true, beq_iff_eq] at h
    have hl : F64.lowerAscii c = c := by
      rcases h with h | rfl
      · exact lowerAscii_of_isDigit c h
      · decide
    have hi : c ≠ 'i' := by
      rcases h with h | rfl
      · exact ne_of_isDigit _ _ h (by decide)
      · decide
    have hn : c ≠ 'n' := by
      rcases h with h | rfl
      · exact ne_of_isDigit _ _ h (by decide)
      · decide
    simp [hl, hi, hn]

theorem takeWhile_digits_append (ip rest : Str) (hip : ip.all F64.isDigit = true)
    (hr : ∀ c r, rest = c :: r → F64.isDigit c = false) :
    (ip ++ rest).takeWhile F64.isDigit = ip ∧ (ip ++ rest).dropWhile F64.isDigit = rest := by
  induction ip with
  | nil =>
    cases rest with
    | nil => simp
    | cons c r => simp [hr c r rfl]
  | cons a ip ih =>
    simp only [List.all_cons, Bool.and_eq_true] at hip
    simp [hip.1, ih hip.2]


def dotSplit (rest : Str) : Str × Str :=
  match rest with
  | '.' :: r => (r.takeWhile F64.isDigit, r.dropWhile F64.isDigit)
  | r => ([], r)

theorem magOf_cases (digits : Str) (fplen : Nat) (e10 : Int) :
    (let m := F64.digitsVal digits
     let e10 := e10 - fplen
     if m == 0 then some (0 : UInt64)
      else
        let nd : Int := F64.decLen m
        if e10 + nd > 400 then some 0x7ff0000000000000
        else if e10 + nd < -400 then some 0
        else if e10 ≥ 0 then some (F64.roundRat (m * 10 ^ e10.toNat) 1)
        else some (F64.roundRat m (10 ^ (-e10).toNat))) = some (magOf digits fplen e10) := by
  simp only [magOf]
  split
  · rfl
  split
  · rfl
  split
  · rfl
  split <;> rfl

theorem parseMagnitude_eq (cs : Str)
    (h1 : (cs.map F64.lowerAscii == cl!"inf" || cs.map F64.lowerAscii == cl!"infinity") = false)
    (h2 : (cs.map F64.lowerAscii == cl!"nan") = false) :
    F64.parseMagnitude cs =
      if (cs.takeWhile F64.isDigit).isEmpty && (dotSplit (cs.dropWhile F64.isDigit)).1.isEmpty then none
      else (expoOf (dotSplit (cs.dropWhile F64.isDigit)).2).map
        (magOf (cs.takeWhile F64.isDigit ++ (dotSplit (cs.dropWhile F64.isDigit)).1)
          (dotSplit (cs.dropWhile F64.isDigit)).1.length) := by
  unfold F64.parseMagnitude
  simp only [h1, h2]
  change (if (List.isEmpty (List.takeWhile F64.isDigit cs) && (dotSplit (List.dropWhile F64.isDigit cs)).fst.isEmpty) = true then none
    else match expoOf (dotSplit (List.dropWhile F64.isDigit cs)).snd with
      | none => none
      | some e10 => _) = _
  split
  · rfl
  · cases expoOf (dotSplit (List.dropWhile F64.isDigit cs)).snd with
    | none => rfl
    | some e10 => exact magOf_cases _ _ _

/-! ### `parseMagnitude` on explicit parts -/

theorem dotSplit_nodot (rest : Str) (hr : ∀ c r, rest = c :: r → c ≠ '.') :
    dotSplit rest = ([], rest) := by
  unfold dotSplit
  split
  · rename_i r; exact absurd rfl (hr '.' r rfl)
  · rfl

theorem dotSplit_dot (fp rest : Str) (hfp : fp.all F64.isDigit = true)
    (hr : ∀ c r, rest = c :: r → F64.isDigit c = false) :
    dotSplit ('.' :: (fp ++ rest)) = (fp, rest) := by
  obtain ⟨h1, h2⟩ := takeWhile_digits_append fp rest hfp hr
  simp only [dotSplit, h1, h2]

theorem parseMagnitude_nodot (ip rest : Str) (hip : ip.all F64.isDigit = true) (hne : ip ≠ [])
    (hr : ∀ c r, rest = c :: r → F64.isDigit c = false ∧ c ≠ '.') :
    F64.parseMagnitude (ip ++ rest) = (expoOf rest).map (magOf ip 0) := by
  have hs : startsLikeNumber (ip ++ rest) = true := by
    cases ip with
    | nil => exact absurd rfl hne
    | cons a ip => simp only [List.all_cons, Bool.and_eq_true] at hip; simp [startsLikeNumber, hip.1]
  obtain ⟨h1, h2⟩ := special_false _ hs
  obtain ⟨h3, h4⟩ := takeWhile_digits_append ip rest hip (fun c r h => (hr c r h).1)
  rw [parseMagnitude_eq _ h1 h2, h3, h4, dotSplit_nodot rest (fun c r h => (hr c r h).2)]
  have : ip.isEmpty = false := by cases ip with
    | nil => exact absurd rfl hne
    | cons _ _ => rfl
  simp [this]

theorem parseMagnitude_dot (ip fp rest : Str) (hip : ip.all F64.isDigit = true)
    (hfp : fp.all F64.isDigit = true) (hne : ¬(ip = [] ∧ fp = []))
    (hr : ∀ c r, rest = c :: r → F64.isDigit c = false) :
    F64.parseMagnitude (ip ++ '.' :: (fp ++ rest)) =
      (expoOf rest).map (magOf (ip ++ fp) fp.length) := by
  have hs : startsLikeNumber (ip ++ '.' :: (fp ++ rest)) = true := by
    cases ip with
    | nil => simp [startsLikeNumber]
    | cons a ip => simp only [List.all_cons, Bool.and_eq_true] at hip; simp [startsLikeNumber, hip.1]
  obtain ⟨h1, h2⟩ := special_false _ hs
  obtain ⟨h3, h4⟩ := takeWhile_digits_append ip ('.' :: (fp ++ rest)) hip
    (fun c r h => by simp only [List.cons.injEq] at h; rw [← h.1]; decide)
  rw [parseMagnitude_eq _ h1 h2, h3, h4, dotSplit_dot fp rest hfp hr]
  have : (ip.isEmpty && fp.isEmpty) = false := by
    cases ip <;> cases fp <;> simp_all
  simp [this]

/-! ### the exponent part -/

theorem isDigits_iff (w : Str) : isDigits w = true ↔ w ≠ [] ∧ w.all F64.isDigit = true := by
  cases w <;> simp [isDigits]

theorem expoOf_nil : expoOf [] = some 0 := rfl

theorem head_isDigit_of_isDigits (ex : Str) (h : isDigits ex = true) :
    ∃ c r, ex = c :: r ∧ F64.isDigit c = true := by
  cases ex with
  | nil => simp [isDigits] at h
  | cons c r => simp [isDigits] at h; exact ⟨c, r, rfl, h.1⟩

theorem expoOf_unsigned (e : Char) (ex : Str) (he : e = 'e' ∨ e = 'E') (hex : isDigits ex = true) :
    expoOf (e :: ex) = some (F64.digitsVal ex : Int) := by
  obtain ⟨c, r, rfl, hc⟩ := head_isDigit_of_isDigits ex hex
  have hee : (e == 'e' || e == 'E') = true := by rcases he with rfl | rfl <;> decide
  have h1 : c ≠ '-' := ne_of_isDigit _ _ hc (by decide)
  have h2 : c ≠ '+' := ne_of_isDigit _ _ hc (by decide)
  rw [isDigits_iff] at hex
  simp only [expoOf, hee, ↓reduceIte]
  split
  · rename_i heq; simp only [List.cons.injEq] at heq; exact absurd heq.1 h1
  · rename_i heq; simp only [List.cons.injEq] at heq; exact absurd heq.1 h2
  · simp [hex.2]

theorem expoOf_plus (e : Char) (ex : Str) (he : e = 'e' ∨ e = 'E') (hex : isDigits ex = true) :
    expoOf (e :: '+' :: ex) = some (F64.digitsVal ex : Int) := by
  have hee : (e == 'e' || e == 'E') = true := by rcases he with rfl | rfl <;> decide
  rw [isDigits_iff] at hex
  have : ex.isEmpty = false := by cases ex with
    | nil => exact absurd rfl hex.1
    | cons _ _ => rfl
  simp [expoOf, hee, hex.2, this]

theorem expoOf_minus (e : Char) (ex : Str) (he : e = 'e' ∨ e = 'E') (hex : isDigits ex = true) :
    expoOf (e :: '-' :: ex) = some (-(F64.digitsVal ex : Int)) := by
  have hee : (e == 'e' || e == 'E') = true := by rcases he with rfl | rfl <;> decide
  rw [isDigits_iff] at hex
  have : ex.isEmpty = false := by cases ex with
    | nil => exact absurd rfl hex.1
    | cons _ _ => rfl
  simp [expoOf, hee, hex.2, this]

theorem digitsVal_eq_decValue (w : Str) : F64.digitsVal w = decValue w := rfl

/-! ### the mantissa -/

theorem isMantissa_cases (m : Str) (h : isMantissa m = true) :
    (m ≠ [] ∧ m.all F64.isDigit = true) ∨
    ∃ ip fp, m = ip ++ '.' :: fp ∧ ip.all F64.isDigit = true ∧ fp.all F64.isDigit = true ∧
      ¬(ip = [] ∧ fp = []) := by
  have hm : m = m.takeWhile F64.isDigit ++ m.dropWhile F64.isDigit := by simp
  have hI : (m.takeWhile F64.isDigit).all F64.isDigit = true := List.all_takeWhile
  unfold isMantissa at h
  simp only [] at h
  generalize m.takeWhile F64.isDigit = I at *
  generalize m.dropWhile F64.isDigit = D at *
  split at h
  · left
    rw [hm, List.append_nil]
    refine ⟨?_, hI⟩
    cases I <;> simp_all
  · rename_i fp
    right
    simp only [Bool.and_eq_true, Bool.not_eq_true', Bool.and_eq_false_iff] at h
    refine ⟨I, fp, hm, hI, h.1, ?_⟩
    rintro ⟨rfl, rfl⟩
    simp at h
  · cases h

theorem isMantissa_digits (ip : Str) (hip : ip.all F64.isDigit = true) (hne : ip ≠ []) :
    isMantissa ip = true := by
  obtain ⟨h1, h2⟩ := takeWhile_digits_append ip [] hip (by intro c r h; cases h)
  rw [List.append_nil] at h1 h2
  unfold isMantissa
  simp only [h1, h2]
  cases ip <;> simp_all

theorem isMantissa_dot (ip fp : Str) (hip : ip.all F64.isDigit = true)
    (hfp : fp.all F64.isDigit = true) (hne : ¬(ip = [] ∧ fp = [])) :
    isMantissa (ip ++ '.' :: fp) = true := by
  obtain ⟨h1, h2⟩ := takeWhile_digits_append ip ('.' :: fp) hip
    (fun c r h => by simp only [List.cons.injEq] at h; rw [← h.1]; decide)
  unfold isMantissa
  simp only [h1, h2, hfp]
  cases ip <;> cases fp <;> simp_all

/-! ### `splitExp` -/

def notE (c : Char) : Bool := c != 'e' && c != 'E'

theorem span_loop_eq {α : Type} (p : α → Bool) (l acc : List α) :
    List.span.loop p l acc = (acc.reverse ++ l.takeWhile p, l.dropWhile p) := by
  induction l generalizing acc with
  | nil => simp [List.span.loop]
  | cons a l ih =>
    cases h : p a
    · simp [List.span.loop, h]
    · simp [List.span.loop, h, ih]

theorem span_eq {α : Type} (p : α → Bool) (l : List α) :
    l.span p = (l.takeWhile p, l.dropWhile p) := by
  simp [List.span, span_loop_eq]

theorem splitExp_none (m : Str) (hm : m.all notE = true) : splitExp m = (m, none) := by
  have h1 : m.takeWhile notE = m := by
    have := List.takeWhile_append_of_pos (l₂ := []) (List.all_eq_true.1 hm)
    simpa using this
  have h2 : m.dropWhile notE = [] := by
    have := List.dropWhile_append_of_pos (l₂ := []) (List.all_eq_true.1 hm)
    simpa using this
  unfold splitExp
  rw [span_eq]
  change (match (List.takeWhile notE m, List.dropWhile notE m) with
    | (m, []) => (m, none) | (m, _ :: ex) => (m, some ex)) = _
  rw [h1, h2]

theorem splitExp_some (m ex : Str) (e : Char) (hm : m.all notE = true) (he : e = 'e' ∨ e = 'E') :
    splitExp (m ++ e :: ex) = (m, some ex) := by
  have hne : notE e = false := by rcases he with rfl | rfl <;> decide
  have h1 : (m ++ e :: ex).takeWhile notE = m := by
    rw [List.takeWhile_append_of_pos (List.all_eq_true.1 hm)]; simp [hne]
  have h2 : (m ++ e :: ex).dropWhile notE = e :: ex := by
    rw [List.dropWhile_append_of_pos (List.all_eq_true.1 hm)]; simp [hne]
  unfold splitExp
  rw [span_eq]
  change (match (List.takeWhile notE (m ++ e :: ex), List.dropWhile notE (m ++ e :: ex)) with
    | (m, []) => (m, none) | (m, _ :: ex) => (m, some ex)) = _
  rw [h1, h2]

/-- `splitExp` always splits at an `e` / `E` -/
theorem splitExp_cases (w : Str) :
    (splitExp w = (w, none)) ∨
    ∃ m e ex, w = m ++ e :: ex ∧ (e = 'e' ∨ e = 'E') ∧ splitExp w = (m, some ex) := by
  have hw : w = w.takeWhile notE ++ w.dropWhile notE := by simp
  have hT : (w.takeWhile notE).all notE = true := List.all_takeWhile
  have hD := List.head?_dropWhile_not notE w
  generalize w.takeWhile notE = T at *
  generalize w.dropWhile notE = D at *
  cases D with
  | nil => left; rw [hw, List.append_nil]; exact splitExp_none T hT
  | cons e ex =>
    right
    simp only [List.head?_cons, notE, Bool.and_eq_false_iff, bne_eq_false_iff_eq] at hD
    exact ⟨T, e, ex, hw, hD, by rw [hw]; exact splitExp_some T ex e hT hD⟩

theorem notE_of_digit_or_dot (c : Char) (h : F64.isDigit c = true ∨ c = '.') : notE c = true := by
  rcases h with h | rfl
  · have h1 := ne_of_isDigit c 'e' h (by decide)
    have h2 := ne_of_isDigit c 'E' h (by decide)
    simp [notE, h1, h2]
  · decide

theorem notE_of_isMantissa (m : Str) (h : isMantissa m = true) : m.all notE = true := by
  rw [List.all_eq_true]
  intro c hc
  apply notE_of_digit_or_dot
  rcases isMantissa_cases m h with ⟨-, hd⟩ | ⟨ip, fp, rfl, hip, hfp, -⟩
  · exact Or.inl (List.all_eq_true.1 hd c hc)
  · simp only [List.mem_append, List.mem_cons] at hc
    rcases hc with hc | hc | hc
    · exact Or.inl (List.all_eq_true.1 hip c hc)
    · exact Or.inr hc
    · exact Or.inl (List.all_eq_true.1 hfp c hc)

/-- a float literal is a mantissa, optionally followed by `e` / `E` and digits -/
theorem isFloatLit_cases (w : Str) (h : isFloatLit w = true) :
    isMantissa w = true ∨
    ∃ m e ex, w = m ++ e :: ex ∧ (e = 'e' ∨ e = 'E') ∧ isMantissa m = true ∧ isDigits ex = true := by
  unfold isFloatLit at h
  rcases splitExp_cases w with hs | ⟨m, e, ex, hw, he, hs⟩
  · rw [hs] at h; exact Or.inl h
  · rw [hs] at h
    simp only [Bool.and_eq_true] at h
    exact Or.inr ⟨m, e, ex, hw, he, h.1, h.2⟩

theorem isFloatLit_of_mantissa (m : Str) (h : isMantissa m = true) : isFloatLit m = true := by
  unfold isFloatLit
  rw [splitExp_none m (notE_of_isMantissa m h)]
  exact h

theorem isFloatLit_of_exp (m ex : Str) (e : Char) (hm : isMantissa m = true) (he : e = 'e' ∨ e = 'E')
    (hex : isDigits ex = true) : isFloatLit (m ++ e :: ex) = true := by
  unfold isFloatLit
  rw [splitExp_some m ex e (notE_of_isMantissa m hm) he]
  simp [hm, hex]

end Evalexpr.Spec
