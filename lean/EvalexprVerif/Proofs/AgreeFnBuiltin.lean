/-
Proofs/AgreeFnBuiltin.lean — `builtin_function` of src/function/builtin.rs as translated on this run
(`Generated/FnBuiltin.lean`: the dispatch on the name, the `simple_math!` / `int_function!` macro expansions, `float_is`, and
the closures) equals the Model's `builtinFunction` / `Builtin.call` (`Model/Builtin.lean`):

  `fn_builtin_function_agree : (Gen.builtin_function id).map (· arg) = (builtinFunction id).map (·.call arg)`

for every name and every argument value: the generated dispatch resolves exactly the 49 names of the Model's table
(`fn_builtin_<name>_agree`, one per name, by evaluating the dispatch on the literal name), and every generated closure
equals the Model's function on all arguments. The arms under `#[cfg(feature = "regex" | "rand")]` are not modelled and
are skipped by the translator (listed in the header of the generated file).

Scripts: `brute` splits the argument value, tuples up to 4 elements and the element variants, then computes. The loops
(`min`, `max`, `contains_any`) go through `Rs.Flow.run_forIn_bind`: one iteration of the generated body is shown to be the
Model's step function by case analysis on the element. Callees that must not be reduced on symbolic arguments are
rewritten to the Model's functions first (`math::abs`: see the kernel note in AgreeFnNumeric).
-/
import EvalexprVerif.Generated.FnBuiltin
import EvalexprVerif.Translate.Lemmas
import EvalexprVerif.Proofs.AgreeFnNumeric
import EvalexprVerif.Proofs.AgreeFnValue
import EvalexprVerif.Proofs.AgreeFnError

set_option linter.unusedSimpArgs false

namespace Evalexpr.AgreeFn
open Evalexpr

/-- a leaf: compute; if stuck on the payload of the variant just split (a `Bool`), split it -/
macro "leaf" : tactic => `(tactic| first | rfl | (rename_i x; cases x <;> rfl))
/-- split the argument value, tuples up to 4 elements, element variants; compute -/
macro "brute" : tactic => `(tactic| (
  first
  | rfl
  | (rename_i arg; cases arg <;> first
      | leaf
      | (rename_i t; rcases t with _ | ⟨a, _ | ⟨b, _ | ⟨c, _ | ⟨d, rest⟩⟩⟩⟩ <;> first
          | rfl
          | (cases a <;> first | leaf | (cases b <;> first | leaf | (cases c <;> leaf)))))))

theorem arm_of {id : Str} {b : Builtin} {arg : Value} (f : UserFn) (h1 : Gen.builtin_function id = some f)
    (h2 : f arg = b.call arg) : (Gen.builtin_function id).map (· arg) = some (b.call arg) := by
  rw [h1]; exact congrArg some h2

/-- one dispatch arm: evaluate the dispatch on the literal name (`rfl`), then compare the closure with the Model's function -/
macro "arm" t:tactic : tactic => `(tactic| (
  intro arg
  refine arm_of _ rfl ?_
  $t))

/-! ### the arms that compute: `simple_math!`, `int_function!`, `float_is`, `typeof`, `if`, `contains`, the string functions -/
theorem fn_builtin_math_ln_agree : ∀ arg, (Gen.builtin_function cl!"math::ln").map (· arg) = some (Builtin.call .ln arg) := by arm brute
theorem fn_builtin_math_log_agree : ∀ arg, (Gen.builtin_function cl!"math::log").map (· arg) = some (Builtin.call .log arg) := by arm brute
theorem fn_builtin_math_log2_agree : ∀ arg, (Gen.builtin_function cl!"math::log2").map (· arg) = some (Builtin.call .log2 arg) := by arm brute
theorem fn_builtin_math_log10_agree : ∀ arg, (Gen.builtin_function cl!"math::log10").map (· arg) = some (Builtin.call .log10 arg) := by arm brute
theorem fn_builtin_math_exp_agree : ∀ arg, (Gen.builtin_function cl!"math::exp").map (· arg) = some (Builtin.call .exp arg) := by arm brute
theorem fn_builtin_math_exp2_agree : ∀ arg, (Gen.builtin_function cl!"math::exp2").map (· arg) = some (Builtin.call .exp2 arg) := by arm brute
theorem fn_builtin_math_pow_agree : ∀ arg, (Gen.builtin_function cl!"math::pow").map (· arg) = some (Builtin.call .pow arg) := by arm brute
theorem fn_builtin_math_cos_agree : ∀ arg, (Gen.builtin_function cl!"math::cos").map (· arg) = some (Builtin.call .cos arg) := by arm brute
theorem fn_builtin_math_acos_agree : ∀ arg, (Gen.builtin_function cl!"math::acos").map (· arg) = some (Builtin.call .acos arg) := by arm brute
theorem fn_builtin_math_cosh_agree : ∀ arg, (Gen.builtin_function cl!"math::cosh").map (· arg) = some (Builtin.call .cosh arg) := by arm brute
theorem fn_builtin_math_acosh_agree : ∀ arg, (Gen.builtin_function cl!"math::acosh").map (· arg) = some (Builtin.call .acosh arg) := by arm brute
theorem fn_builtin_math_sin_agree : ∀ arg, (Gen.builtin_function cl!"math::sin").map (· arg) = some (Builtin.call .sin arg) := by arm brute
theorem fn_builtin_math_asin_agree : ∀ arg, (Gen.builtin_function cl!"math::asin").map (· arg) = some (Builtin.call .asin arg) := by arm brute
theorem fn_builtin_math_sinh_agree : ∀ arg, (Gen.builtin_function cl!"math::sinh").map (· arg) = some (Builtin.call .sinh arg) := by arm brute
theorem fn_builtin_math_asinh_agree : ∀ arg, (Gen.builtin_function cl!"math::asinh").map (· arg) = some (Builtin.call .asinh arg) := by arm brute
theorem fn_builtin_math_tan_agree : ∀ arg, (Gen.builtin_function cl!"math::tan").map (· arg) = some (Builtin.call .tan arg) := by arm brute
theorem fn_builtin_math_atan_agree : ∀ arg, (Gen.builtin_function cl!"math::atan").map (· arg) = some (Builtin.call .atan arg) := by arm brute
theorem fn_builtin_math_tanh_agree : ∀ arg, (Gen.builtin_function cl!"math::tanh").map (· arg) = some (Builtin.call .tanh arg) := by arm brute
theorem fn_builtin_math_atanh_agree : ∀ arg, (Gen.builtin_function cl!"math::atanh").map (· arg) = some (Builtin.call .atanh arg) := by arm brute
theorem fn_builtin_math_atan2_agree : ∀ arg, (Gen.builtin_function cl!"math::atan2").map (· arg) = some (Builtin.call .atan2 arg) := by arm brute
theorem fn_builtin_math_sqrt_agree : ∀ arg, (Gen.builtin_function cl!"math::sqrt").map (· arg) = some (Builtin.call .sqrt arg) := by arm brute
theorem fn_builtin_math_cbrt_agree : ∀ arg, (Gen.builtin_function cl!"math::cbrt").map (· arg) = some (Builtin.call .cbrt arg) := by arm brute
theorem fn_builtin_math_hypot_agree : ∀ arg, (Gen.builtin_function cl!"math::hypot").map (· arg) = some (Builtin.call .hypot arg) := by arm brute
theorem fn_builtin_floor_agree : ∀ arg, (Gen.builtin_function cl!"floor").map (· arg) = some (Builtin.call .floor arg) := by arm brute
theorem fn_builtin_round_agree : ∀ arg, (Gen.builtin_function cl!"round").map (· arg) = some (Builtin.call .round arg) := by arm brute
theorem fn_builtin_ceil_agree : ∀ arg, (Gen.builtin_function cl!"ceil").map (· arg) = some (Builtin.call .ceil arg) := by arm brute
theorem fn_builtin_math_is_nan_agree : ∀ arg, (Gen.builtin_function cl!"math::is_nan").map (· arg) = some (Builtin.call .isNan arg) := by arm brute
theorem fn_builtin_math_is_finite_agree : ∀ arg, (Gen.builtin_function cl!"math::is_finite").map (· arg) = some (Builtin.call .isFinite arg) := by arm brute
theorem fn_builtin_math_is_infinite_agree : ∀ arg, (Gen.builtin_function cl!"math::is_infinite").map (· arg) = some (Builtin.call .isInfinite arg) := by arm brute
theorem fn_builtin_math_is_normal_agree : ∀ arg, (Gen.builtin_function cl!"math::is_normal").map (· arg) = some (Builtin.call .isNormal arg) := by arm brute
theorem fn_builtin_typeof_agree : ∀ arg, (Gen.builtin_function cl!"typeof").map (· arg) = some (Builtin.call .typeof arg) := by arm brute
theorem fn_builtin_if_agree : ∀ arg, (Gen.builtin_function cl!"if").map (· arg) = some (Builtin.call .if_ arg) := by arm brute
theorem fn_builtin_contains_agree : ∀ arg, (Gen.builtin_function cl!"contains").map (· arg) = some (Builtin.call .contains arg) := by arm brute
theorem fn_builtin_str_to_lowercase_agree : ∀ arg, (Gen.builtin_function cl!"str::to_lowercase").map (· arg) = some (Builtin.call .strToLowercase arg) := by arm brute
theorem fn_builtin_str_to_uppercase_agree : ∀ arg, (Gen.builtin_function cl!"str::to_uppercase").map (· arg) = some (Builtin.call .strToUppercase arg) := by arm brute
theorem fn_builtin_str_trim_agree : ∀ arg, (Gen.builtin_function cl!"str::trim").map (· arg) = some (Builtin.call .strTrim arg) := by arm brute
theorem fn_builtin_str_from_agree : ∀ arg, (Gen.builtin_function cl!"str::from").map (· arg) = some (Builtin.call .strFrom arg) := by arm brute
theorem fn_builtin_bitand_agree : ∀ arg, (Gen.builtin_function cl!"bitand").map (· arg) = some (Builtin.call .bitand arg) := by arm brute
theorem fn_builtin_bitor_agree : ∀ arg, (Gen.builtin_function cl!"bitor").map (· arg) = some (Builtin.call .bitor arg) := by arm brute
theorem fn_builtin_bitxor_agree : ∀ arg, (Gen.builtin_function cl!"bitxor").map (· arg) = some (Builtin.call .bitxor arg) := by arm brute
theorem fn_builtin_bitnot_agree : ∀ arg, (Gen.builtin_function cl!"bitnot").map (· arg) = some (Builtin.call .bitnot arg) := by arm brute

/-! ### the shifts: `bit_shift_left` / `bit_shift_right` are the Model's `<<<` / `>>>` (AgreeFnNumeric) -/
theorem fn_builtin_shl_agree : ∀ arg, (Gen.builtin_function cl!"shl").map (· arg) = some (Builtin.call .shl arg) := by
  arm (simp only [fn_i64_bit_shift_left_agree, fn_i64_bit_shift_right_agree]; brute)
theorem fn_builtin_shr_agree : ∀ arg, (Gen.builtin_function cl!"shr").map (· arg) = some (Builtin.call .shr arg) := by
  arm (simp only [fn_i64_bit_shift_left_agree, fn_i64_bit_shift_right_agree]; brute)

/-! ### `math::abs`: the integer `abs` is abstracted (a variable) before anything is reduced -/
def absWith (A : Int64 → Res Int64) : Value → Res Value
  | .float f => .ok (.float f.abs)
  | .int i => (A i).map .int
  | v => .error (.expectedNumber v)

theorem abs_arm (A : Int64 → Res Int64) (hA : ∀ n, Gen.i64.abs n = A n) :
    ∃ f, Gen.builtin_function cl!"math::abs" = some f ∧ ∀ arg, f arg = absWith A arg := by
  refine ⟨_, rfl, fun arg => ?_⟩
  simp only [hA]
  cases arg <;> first
    | rfl
    | (rename_i x; show Rs.Flow.run (Rs.try (A x) >>= _) = Except.map _ (A x); generalize A x = r; cases r <;> rfl)

theorem fn_builtin_math_abs_agree : ∀ arg, (Gen.builtin_function cl!"math::abs").map (· arg) = some (Builtin.call .abs arg) := by
  intro arg
  obtain ⟨f, hf, h⟩ := abs_arm checkedAbs fn_i64_abs_agree
  rw [hf]
  show some (f arg) = _
  rw [h]
  cases arg <;> simp only [absWith, Builtin.call]

/-! ### `len` -/
theorem fn_builtin_len_agree : ∀ arg, (Gen.builtin_function cl!"len").map (· arg) = some (Builtin.call .len arg) := by
  arm (rename_i arg; cases arg <;> first
         | rfl
         | (simp [Rs.Function_new, Builtin.call, fn_i64_from_usize_agree, fn_Value_as_string_agree, fn_Value_as_tuple_agree,
              Value.asString, Value.asTuple]
            first
              | (rename_i x; generalize intFromUsize (utf8Len x) = r; cases r <;> rfl)
              | (rename_i x; generalize intFromUsize (List.length x) = r; cases r <;> rfl)))

/-! ### `min` / `max` -/

/-- `Ord::min` / `Ord::max` on the int type are the Model's `i64min` / `i64max` -/
theorem min_i64 (a b : Int64) : (Rs.min a b : Int64) = i64min a b := by
  show (if a.toInt > b.toInt then b else a) = if a.toInt ≤ b.toInt then a else b
  by_cases h : a.toInt ≤ b.toInt
  · rw [if_pos h, if_neg (by omega)]
  · rw [if_neg h, if_pos (by omega)]
theorem max_i64 (a b : Int64) : (Rs.max a b : Int64) = i64max a b := by
  show (if a.toInt > b.toInt then a else b) = if b.toInt ≥ a.toInt then b else a
  by_cases h : b.toInt ≥ a.toInt
  · rw [if_pos h, if_neg (by omega)]
  · rw [if_neg h, if_pos (by omega)]
/-- on the float type they are the translated `EvalexprFloat::min` / `max` -/
theorem min_f64 (a b : Float) : (Rs.min a b : Float) = F64.fmin a b := rfl
theorem max_f64 (a b : Float) : (Rs.max a b : Float) = F64.fmax a b := rfl

/-- one iteration of the `min` / `max` loop on the state (int accumulator, float accumulator) -/
def minMaxStep (fi : Int64 → Int64 → Int64) (ff : Float → Float → Float) :
    Value → Option Int64 × Option Float → Res (Option Int64 × Option Float)
  | .float f, (mi, mf) => .ok (mi, some (match mf with | some m => ff m f | none => f))
  | .int i, (mi, mf) => .ok (some (match mi with | some m => fi m i | none => i), mf)
  | v, _ => .error (.expectedNumber v)

theorem minMaxFold_eq (fi ff) (l : List Value) (mi mf) :
    minMaxFold fi ff l mi mf = Rs.foldE (minMaxStep fi ff) l (mi, mf) := by
  induction l generalizing mi mf with
  | nil => rfl
  | cons v l ih => cases v <;> simp only [minMaxFold, Rs.foldE, minMaxStep, ih] <;> rfl

macro "minmax_arm" fi:term "," ff:term : tactic => `(tactic| (
  intro arg
  refine arm_of _ rfl ?_
  simp only [Rs.Function_new, min_i64, min_f64, max_i64, max_f64]
  rw [Rs.Flow.run_forIn_bind (minMaxStep $fi $ff)]
  · cases arg <;> simp only [Builtin.call, minMax, minMaxFold_eq, minMaxArgs, Rs.clone_def, Rs.Vec.new_def] <;>
      (generalize Rs.foldE _ _ (none, none) = r; rcases r with _ | ⟨_ | i, _ | f⟩ <;> rfl)
  · rintro x ⟨mi, mf⟩ k
    cases x <;> rfl))

theorem fn_builtin_min_agree : ∀ arg, (Gen.builtin_function cl!"min").map (· arg) = some (Builtin.call .min arg) := by
  minmax_arm i64min, F64.fmin
theorem fn_builtin_max_agree : ∀ arg, (Gen.builtin_function cl!"max").map (· arg) = some (Builtin.call .max arg) := by
  minmax_arm i64max, F64.fmax

/-! ### `contains_any` -/

/-- one iteration of the `contains_any` loop -/
def containsStep (a : List Value) (v : Value) (acc : Bool) : Res Bool :=
  if isScalar v then .ok (if tupleContains a v then true else acc) else .error (.typeError scalarTypes v)

theorem containsAnyLoop_eq (a l : List Value) (acc : Bool) :
    containsAnyLoop a l acc = Rs.foldE (containsStep a) l acc := by
  induction l generalizing acc with
  | nil => rfl
  | cons v l ih =>
    rw [containsAnyLoop, Rs.foldE, containsStep]
    split <;> simp [ih]

theorem fn_builtin_contains_any_agree :
    ∀ arg, (Gen.builtin_function cl!"contains_any").map (· arg) = some (Builtin.call .containsAny arg) := by
  intro arg
  refine arm_of _ rfl ?_
  cases arg <;> first
    | rfl
    | (rename_i t; rcases t with _ | ⟨x, _ | ⟨y, _ | ⟨z, rest⟩⟩⟩ <;> first
        | rfl
        | (cases x <;> first
            | rfl
            | (cases y <;> first
                | rfl
                | (rename_i a b
                   simp [Rs.Function_new, Builtin.call, containsAnyLoop_eq, fn_Value_as_fixed_len_tuple_agree, Value.asFixedLenTuple]
                   rw [Rs.Flow.run_forIn_bind (containsStep a)]
                   · generalize Rs.foldE (containsStep a) b false = r
                     cases r <;> rfl
                   · intro x acc k
                     cases x <;> simp [containsStep, isScalar, Rs.contains, scalarTypes, fn_type_error_agree] <;>
                       (try split) <;> (try simp_all) <;> (try (cases acc <;> simp_all))))))

/-! ### `str::substring` -/
theorem fn_builtin_str_substring_agree :
    ∀ arg, (Gen.builtin_function cl!"str::substring").map (· arg) = some (Builtin.call .strSubstring arg) := by
  intro arg
  refine arm_of _ rfl ?_
  cases arg <;> first
    | rfl
    | (rename_i t; rcases t with _ | ⟨x, _ | ⟨y, _ | ⟨z, _ | ⟨w, rest⟩⟩⟩⟩ <;> first
        | rfl
        | (cases x <;> first
            | rfl
            | (cases y <;> first
                | rfl
                | (simp [Rs.Function_new, Builtin.call, substring, fn_Value_as_ranged_len_tuple_agree, Value.asRangedLenTuple,
                     fn_Value_as_string_agree, fn_Value_as_int_agree, Value.asString, Value.asInt, fn_i64_into_usize_agree]
                   all_goals (
                     try cases z
                     all_goals (
                       generalize intIntoUsize _ = r
                       rcases r with _ | start <;> simp [Rs.map_err]
                       all_goals (try (generalize intIntoUsize _ = r2; rcases r2 with _ | e2 <;> simp [Rs.map_err]))
                       all_goals (
                         have hg : ∀ a b : Nat, Rs.gt a b = decide (b < a) := fun _ _ => rfl
                         simp only [hg, decide_eq_true_eq, Nat.lt_irrefl, or_false]
                         split
                         · rfl
                         · show Rs.ok_or (Rs.map (sliceBytes _ _ _) _) _ = _
                           generalize sliceBytes _ _ _ = o
                           cases o <;> rfl)))))))

/-! ### the dispatch -/

/-- every row of the Model's table: the generated dispatch resolves the name, to a function equal to the Model's -/
theorem fn_builtin_arms : ∀ p ∈ builtinTable, ∀ arg, (Gen.builtin_function p.1).map (· arg) = some (p.2.call arg) := by
  unfold builtinTable
  simp only [List.forall_mem_cons]
  exact ⟨fn_builtin_math_ln_agree, fn_builtin_math_log_agree, fn_builtin_math_log2_agree, fn_builtin_math_log10_agree, fn_builtin_math_exp_agree, fn_builtin_math_exp2_agree, fn_builtin_math_pow_agree, fn_builtin_math_cos_agree, fn_builtin_math_acos_agree, fn_builtin_math_cosh_agree, fn_builtin_math_acosh_agree, fn_builtin_math_sin_agree, fn_builtin_math_asin_agree, fn_builtin_math_sinh_agree, fn_builtin_math_asinh_agree, fn_builtin_math_tan_agree, fn_builtin_math_atan_agree, fn_builtin_math_tanh_agree, fn_builtin_math_atanh_agree, fn_builtin_math_atan2_agree, fn_builtin_math_sqrt_agree, fn_builtin_math_cbrt_agree, fn_builtin_math_hypot_agree, fn_builtin_floor_agree, fn_builtin_round_agree, fn_builtin_ceil_agree, fn_builtin_math_is_nan_agree, fn_builtin_math_is_finite_agree, fn_builtin_math_is_infinite_agree, fn_builtin_math_is_normal_agree, fn_builtin_math_abs_agree, fn_builtin_typeof_agree, fn_builtin_min_agree, fn_builtin_max_agree, fn_builtin_if_agree, fn_builtin_contains_agree, fn_builtin_contains_any_agree, fn_builtin_len_agree, fn_builtin_str_to_lowercase_agree, fn_builtin_str_to_uppercase_agree, fn_builtin_str_trim_agree, fn_builtin_str_from_agree, fn_builtin_str_substring_agree, fn_builtin_bitand_agree, fn_builtin_bitor_agree, fn_builtin_bitxor_agree, fn_builtin_bitnot_agree, fn_builtin_shl_agree, fn_builtin_shr_agree, fun _ h => absurd h List.not_mem_nil⟩

theorem eq_str (a b : Str) : (Rs.eq a b = true) = (b = a) := by
  show ((a == b) = true) = (b = a)
  rw [beq_iff_eq]; exact propext ⟨Eq.symm, Eq.symm⟩

/-- a name outside the Model's table is not resolved by the generated dispatch either -/
theorem fn_builtin_none (id : Str) (h : ∀ p ∈ builtinTable, ¬ p.1 = id) : Gen.builtin_function id = none := by
  unfold builtinTable at h
  simp only [List.forall_mem_cons] at h
  simp only [Gen.builtin_function, eq_str, h, if_false]

theorem fn_builtin_function_agree (id : Str) (arg : Value) :
    (Gen.builtin_function id).map (· arg) = (builtinFunction id).map (·.call arg) := by
  unfold builtinFunction
  cases hf : builtinTable.find? (fun p => p.1 == id) with
  | some p =>
    have hm := List.mem_of_find?_eq_some hf
    have hk : p.1 = id := by simpa using List.find?_some hf
    subst hk
    rw [fn_builtin_arms p hm arg]; rfl
  | none =>
    rw [fn_builtin_none id (fun p hp => by simpa using List.find?_eq_none.1 hf p hp)]; rfl

end Evalexpr.AgreeFn
