/-
Proofs/BuiltinMinMax.lean — property C10, part 4: `min` / `max`. The accumulation loop keeps the
running integer extremum and the running float extremum; the result is an argument and bounds
every argument w.r.t. the language's own `<=` (`numLe`) when no argument is NaN.

The order facts about `Float` come from `Proofs/FloatOrder.lean` (proved from the IEEE model).
The only facts that cannot be proved are those about `Int64.toFloat`, which is an `opaque`
constant of core Lean: they are *hypotheses* (`FloatOrderLaws`), used only when the arguments
mix ints and floats.
-/
import EvalexprVerif.Proofs.BuiltinBasic
import EvalexprVerif.Proofs.FloatOrder

namespace Evalexpr.Spec
open Evalexpr

/-- what is assumed (not proved: `Int64.toFloat` is opaque in core Lean) about the `as f64`
conversion: it never yields NaN and it is monotone (true of IEEE round-to-nearest). -/
structure FloatOrderLaws : Prop where
  toFloat_not_nan : ∀ i : Int64, i.toFloat.isNaN = false
  toFloat_mono : ∀ a b : Int64, a.toInt ≤ b.toInt → a.toFloat ≤ b.toFloat

/-! ### a generic accumulator -/

section Acc
variable {α : Type} (sel : Value → Option α) (f : α → α → α)

def step (m : Option α) (x : α) : α :=
  match m with
  | some m => f m x
  | none => x

/-- the running extremum of the selected arguments -/
def acc : List Value → Option α → Option α
  | [], m => m
  | v :: rest, m =>
    match sel v with
    | some x => acc rest (some (step f m x))
    | none => acc rest m

variable (R : α → α → Prop) (good : α → Prop)

structure AccOps : Prop where
  f_sel : ∀ m x, good m → good x → f m x = m ∨ f m x = x
  f_l : ∀ m x, good m → good x → R (f m x) m
  f_r : ∀ m x, good m → good x → R (f m x) x
  refl : ∀ x, good x → R x x
  trans : ∀ a b c, R a b → R b c → R a c

variable {sel f R good}

theorem acc_spec (ops : AccOps f R good) : ∀ (args : List Value) (mi : Option α),
    (∀ v ∈ args, ∀ x, sel v = some x → good x) → (∀ m, mi = some m → good m) →
    (acc sel f args mi = none → mi = none ∧ ∀ v ∈ args, sel v = none) ∧
    (∀ r, acc sel f args mi = some r →
      good r ∧ (mi = some r ∨ ∃ v ∈ args, sel v = some r) ∧ (∀ m, mi = some m → R r m) ∧
      (∀ v ∈ args, ∀ x, sel v = some x → R r x))
  | [], mi, _, hm => by
    refine ⟨fun h => ⟨h, by simp⟩, fun r h => ?_⟩
    simp only [acc] at h
    refine ⟨hm r h, Or.inl h, ?_, by simp⟩
    intro m hm'; rw [h] at hm'; cases hm'; exact ops.refl _ (hm r h)
  | v :: rest, mi, hg, hm => by
    have hg' : ∀ v ∈ rest, ∀ x, sel v = some x → good x := fun w hw => hg w (List.mem_cons_of_mem _ hw)
    cases hs : sel v with
    | none =>
      have ih := acc_spec ops rest mi hg' hm
      simp only [acc, hs]
      refine ⟨fun h => ?_, fun r h => ?_⟩
      · obtain ⟨h1, h2⟩ := ih.1 h
        refine ⟨h1, ?_⟩
        intro w hw
        rcases List.mem_cons.1 hw with rfl | hw
        · exact hs
        · exact h2 w hw
      · obtain ⟨h1, h2, h3, h4⟩ := ih.2 r h
        refine ⟨h1, ?_, h3, ?_⟩
        · rcases h2 with h2 | ⟨w, hw, hw'⟩
          · exact Or.inl h2
          · exact Or.inr ⟨w, List.mem_cons_of_mem _ hw, hw'⟩
        · intro w hw x hx
          rcases List.mem_cons.1 hw with rfl | hw
          · rw [hs] at hx; cases hx
          · exact h4 w hw x hx
    | some x =>
      have gx : good x := hg v (List.mem_cons_self ..) x hs
      have gy : good (step f mi x) := by
        cases mi with
        | none => exact gx
        | some m =>
          rcases ops.f_sel m x (hm m rfl) gx with h | h <;> simp only [step, h]
          · exact hm m rfl
          · exact gx
      have ih := acc_spec ops rest (some (step f mi x)) hg'
        (by intro m h; cases h; exact gy)
      simp only [acc, hs]
      refine ⟨fun h => ?_, fun r h => ?_⟩
      · have := (ih.1 h).1; cases this
      · obtain ⟨h1, h2, h3, h4⟩ := ih.2 r h
        have h3' := h3 _ rfl
        refine ⟨h1, ?_, ?_, ?_⟩
        · rcases h2 with h2 | ⟨w, hw, hw'⟩
          · cases mi with
            | none =>
              simp only [Option.some.injEq, step] at h2
              exact Or.inr ⟨v, List.mem_cons_self .., by rw [hs, h2]⟩
            | some m =>
              simp only [Option.some.injEq, step] at h2
              rcases ops.f_sel m x (hm m rfl) gx with h | h
              · left; rw [← h2, h]
              · right; exact ⟨v, List.mem_cons_self .., by rw [hs, ← h2, h]⟩
          · exact Or.inr ⟨w, List.mem_cons_of_mem _ hw, hw'⟩
        · intro m hm'
          cases hm'
          exact ops.trans _ _ _ h3' (ops.f_l m x (hm m rfl) gx)
        · intro w hw y hy
          rcases List.mem_cons.1 hw with rfl | hw
          · rw [hs] at hy; cases hy
            cases mi with
            | none => exact h3'
            | some m => exact ops.trans _ _ _ h3' (ops.f_r m x (hm m rfl) gx)
          · exact h4 w hw y hy

end Acc

/-! ### the model's loop is the pair of accumulators -/

def intSel : Value → Option Int64
  | .int i => some i
  | _ => none
def floatSel : Value → Option Float
  | .float f => some f
  | _ => none

theorem intSel_eq {v : Value} {i : Int64} (h : intSel v = some i) : v = .int i := by
  cases v <;> simp [intSel] at h; rw [h]
theorem floatSel_eq {v : Value} {g : Float} (h : floatSel v = some g) : v = .float g := by
  cases v <;> simp [floatSel] at h; rw [h]

theorem minMaxFold_ok (fi : Int64 → Int64 → Int64) (ff : Float → Float → Float) :
    ∀ (args : List Value) (mi : Option Int64) (mf : Option Float), args.all isNum = true →
      minMaxFold fi ff args mi mf = .ok (acc intSel fi args mi, acc floatSel ff args mf)
  | [], mi, mf, _ => rfl
  | v :: rest, mi, mf, h => by
    simp only [List.all_cons, Bool.and_eq_true] at h
    cases v with
    | int i =>
      simp only [minMaxFold, acc, intSel, floatSel]
      rw [minMaxFold_ok fi ff rest _ _ h.2]
      cases mi <;> rfl
    | float g =>
      simp only [minMaxFold, acc, intSel, floatSel]
      rw [minMaxFold_ok fi ff rest _ _ h.2]
      cases mf <;> rfl
    | _ => simp [isNum] at h

theorem minMaxFold_err (fi : Int64 → Int64 → Int64) (ff : Float → Float → Float) :
    ∀ (args : List Value) (mi : Option Int64) (mf : Option Float), args.all isNum = false →
      ∃ e, minMaxFold fi ff args mi mf = .error e ∧ e.isPanic = false
  | [], mi, mf, h => by simp at h
  | v :: rest, mi, mf, h => by
    cases v with
    | int i =>
      simp only [List.all_cons, isNum, Bool.true_and] at h
      simp only [minMaxFold]
      exact minMaxFold_err fi ff rest _ _ h
    | float g =>
      simp only [List.all_cons, isNum, Bool.true_and] at h
      simp only [minMaxFold]
      exact minMaxFold_err fi ff rest _ _ h
    | _ => exact ⟨_, rfl, rfl⟩

theorem minMaxFold_no_panic (fi : Int64 → Int64 → Int64) (ff : Float → Float → Float)
    (args : List Value) (mi : Option Int64) (mf : Option Float) (e : Err)
    (h : minMaxFold fi ff args mi mf = .error e) : e.isPanic = false := by
  cases ha : args.all isNum
  · obtain ⟨e', he, hp⟩ := minMaxFold_err fi ff args mi mf ha
    rw [he] at h; cases h; exact hp
  · rw [minMaxFold_ok fi ff args mi mf ha] at h; cases h

theorem minMax_no_panic (fi ff pick) (arg : Value) (e : Err) (h : minMax fi ff pick arg = .error e) :
    e.isPanic = false := by
  unfold minMax at h
  split at h
  · rename_i e' he; cases h; exact minMaxFold_no_panic _ _ _ _ _ _ he
  · split at h <;> cases h
  · cases h
  · cases h
  · cases h; rfl


/-! ### the result of `minMax` -/

/-- "`v` is at least as extreme as `a`", for a pair of relations on ints and on floats -/
def VR (R : Int64 → Int64 → Prop) (Rf : Float → Float → Prop) : Value → Value → Prop
  | .int x, .int y => R x y
  | .int x, .float y => Rf x.toFloat y
  | .float x, .int y => Rf x y.toFloat
  | .float x, .float y => Rf x y
  | _, _ => False

def NotNaN (x : Float) : Prop := x.isNaN = false

structure PickOps (pick : Float → Float → Bool) (Rf : Float → Float → Prop) : Prop where
  pick_t : ∀ x g, NotNaN x → NotNaN g → pick x g = true → Rf x g
  pick_f : ∀ x g, NotNaN x → NotNaN g → pick x g = false → Rf g x

/-- the arguments mix ints and floats -/
def MixedArgs (args : List Value) : Prop := (∃ i, Value.int i ∈ args) ∧ (∃ g, Value.float g ∈ args)

theorem hasNaN_false {args : List Value} (h : hasNaN args = false) :
    ∀ v ∈ args, ∀ g, floatSel v = some g → NotNaN g := by
  intro v hv g hg
  rw [floatSel_eq hg] at hv
  simp only [hasNaN, List.any_eq_false] at h
  have := h _ hv
  simpa [NotNaN] using this

theorem isNum_cases {v : Value} (h : isNum v = true) : (∃ i, v = .int i) ∨ (∃ g, v = .float g) := by
  cases v <;> simp [isNum] at h
  · exact Or.inr ⟨_, rfl⟩
  · exact Or.inl ⟨_, rfl⟩

theorem minMax_generic {fi ff pick} {R : Int64 → Int64 → Prop} {Rf : Float → Float → Prop}
    (opsI : AccOps fi R (fun _ => True)) (opsF : AccOps ff Rf NotNaN) (opsP : PickOps pick Rf)
    (arg : Value)
    (hne : (minMaxArgs arg).isEmpty = false) (hnum : (minMaxArgs arg).all isNum = true)
    (hnan : hasNaN (minMaxArgs arg) = false)
    (cross : MixedArgs (minMaxArgs arg) →
      (∀ i : Int64, NotNaN i.toFloat) ∧ (∀ a b, R a b → Rf a.toFloat b.toFloat)) :
    ∃ v, minMax fi ff pick arg = .ok v ∧ v ∈ minMaxArgs arg ∧ ∀ a ∈ minMaxArgs arg, VR R Rf v a := by
  unfold minMax
  generalize minMaxArgs arg = args at *
  have hI := acc_spec (sel := intSel) opsI args none (fun _ _ _ _ => trivial) (fun _ h => by cases h)
  have hF := acc_spec (sel := floatSel) opsF args none (hasNaN_false hnan) (fun _ h => by cases h)
  rw [minMaxFold_ok fi ff args none none hnum]
  have hmemI : ∀ r, (∃ v ∈ args, intSel v = some r) → Value.int r ∈ args := by
    rintro r ⟨v, hv, hs⟩; rw [← intSel_eq hs]; exact hv
  have hmemF : ∀ r, (∃ v ∈ args, floatSel v = some r) → Value.float r ∈ args := by
    rintro r ⟨v, hv, hs⟩; rw [← floatSel_eq hs]; exact hv
  cases hi : acc intSel fi args none with
  | none =>
    have hnoI := (hI.1 hi).2
    cases hf : acc floatSel ff args none with
    | none =>
      have hnoF := (hF.1 hf).2
      exfalso
      cases args with
      | nil => simp at hne
      | cons v rest =>
        have hv := hnoI v (List.mem_cons_self ..)
        have hv' := hnoF v (List.mem_cons_self ..)
        simp only [List.all_cons, Bool.and_eq_true] at hnum
        rcases isNum_cases hnum.1 with ⟨i, rfl⟩ | ⟨g, rfl⟩
        · simp [intSel] at hv
        · simp [floatSel] at hv'
    | some g =>
      obtain ⟨_, h2, _, h4⟩ := hF.2 g hf
      refine ⟨.float g, rfl, hmemF g (by simpa using h2), ?_⟩
      intro a ha
      rcases isNum_cases (List.all_eq_true.1 hnum a ha) with ⟨i, rfl⟩ | ⟨g', rfl⟩
      · have := hnoI _ ha; simp [intSel] at this
      · exact h4 _ ha g' rfl
  | some i =>
    obtain ⟨_, i2, _, i4⟩ := hI.2 i hi
    have imem := hmemI i (by simpa using i2)
    cases hf : acc floatSel ff args none with
    | none =>
      have hnoF := (hF.1 hf).2
      refine ⟨.int i, rfl, imem, ?_⟩
      intro a ha
      rcases isNum_cases (List.all_eq_true.1 hnum a ha) with ⟨j, rfl⟩ | ⟨g', rfl⟩
      · exact i4 _ ha j rfl
      · have := hnoF _ ha; simp [floatSel] at this
    | some g =>
      obtain ⟨gg, h2, _, h4⟩ := hF.2 g hf
      have gmem := hmemF g (by simpa using h2)
      obtain ⟨cn, cm⟩ := cross ⟨⟨i, imem⟩, ⟨g, gmem⟩⟩
      show ∃ v, (if pick i.toFloat g = true then Except.ok (Value.int i) else Except.ok (Value.float g)) = Except.ok v ∧ _
      cases hp : pick i.toFloat g
      · refine ⟨.float g, by simp, gmem, ?_⟩
        have hr := opsP.pick_f _ _ (cn i) gg hp
        intro a ha
        rcases isNum_cases (List.all_eq_true.1 hnum a ha) with ⟨j, rfl⟩ | ⟨g', rfl⟩
        · exact opsF.trans _ _ _ hr (cm _ _ (i4 _ ha j rfl))
        · exact h4 _ ha g' rfl
      · refine ⟨.int i, by simp, imem, ?_⟩
        have hr := opsP.pick_t _ _ (cn i) gg hp
        intro a ha
        rcases isNum_cases (List.all_eq_true.1 hnum a ha) with ⟨j, rfl⟩ | ⟨g', rfl⟩
        · exact i4 _ ha j rfl
        · exact opsF.trans _ _ _ hr (h4 _ ha g' rfl)


/-! ### instances: `min` and `max` -/

theorem opsI_min : AccOps i64min (fun a b => a.toInt ≤ b.toInt) (fun _ => True) where
  f_sel m x _ _ := by unfold i64min; split <;> simp
  f_l m x _ _ := by unfold i64min; split <;> omega
  f_r m x _ _ := by unfold i64min; split <;> omega
  refl x _ := Int.le_refl _
  trans a b c := Int.le_trans

theorem opsI_max : AccOps i64max (fun a b => b.toInt ≤ a.toInt) (fun _ => True) where
  f_sel m x _ _ := by unfold i64max; split <;> simp
  f_l m x _ _ := by unfold i64max; split <;> omega
  f_r m x _ _ := by unfold i64max; split <;> omega
  refl x _ := Int.le_refl _
  trans a b c h1 h2 := Int.le_trans h2 h1

theorem fmin_eq (a b : Float) (ha : NotNaN a) (hb : NotNaN b) : F64.fmin a b = if a < b then a else b := by
  simp only [NotNaN] at ha hb
  simp [F64.fmin, ha, hb]
theorem fmax_eq (a b : Float) (ha : NotNaN a) (hb : NotNaN b) : F64.fmax a b = if b < a then a else b := by
  simp only [NotNaN] at ha hb
  simp [F64.fmax, ha, hb]

theorem opsF_min : AccOps F64.fmin (fun a b : Float => a ≤ b) NotNaN where
  f_sel m x hm hx := by rw [fmin_eq m x hm hx]; split <;> simp
  f_l m x hm hx := by
    rw [fmin_eq m x hm hx]; split
    · exact FloatOrder.le_refl m hm
    · rename_i h; exact FloatOrder.le_of_not_lt m x hm hx h
  f_r m x hm hx := by
    rw [fmin_eq m x hm hx]; split
    · rename_i h; exact FloatOrder.le_of_lt m x h
    · exact FloatOrder.le_refl x hx
  refl x hx := FloatOrder.le_refl x hx
  trans a b c := FloatOrder.le_trans a b c

theorem opsF_max : AccOps F64.fmax (fun a b : Float => b ≤ a) NotNaN where
  f_sel m x hm hx := by rw [fmax_eq m x hm hx]; split <;> simp
  f_l m x hm hx := by
    rw [fmax_eq m x hm hx]; split
    · exact FloatOrder.le_refl m hm
    · rename_i h; exact FloatOrder.le_of_not_lt x m hx hm h
  f_r m x hm hx := by
    rw [fmax_eq m x hm hx]; split
    · rename_i h; exact FloatOrder.le_of_lt x m h
    · exact FloatOrder.le_refl x hx
  refl x hx := FloatOrder.le_refl x hx
  trans a b c h1 h2 := FloatOrder.le_trans c b a h2 h1

theorem opsP_min : PickOps (fun i f => decide (i < f)) (fun a b : Float => a ≤ b) where
  pick_t x g _ _ h := FloatOrder.le_of_lt x g (by simpa using h)
  pick_f x g hx hg h := FloatOrder.le_of_not_lt x g hx hg (by simpa using h)

theorem opsP_max : PickOps (fun i f => decide (i > f)) (fun a b : Float => b ≤ a) where
  pick_t x g _ _ h := FloatOrder.le_of_lt g x (by simpa using h)
  pick_f x g hx hg h := FloatOrder.le_of_not_lt g x hg hx (by simpa using h)

theorem VR_min_numLe {v a : Value} (h : VR (fun a b => a.toInt ≤ b.toInt) (fun a b : Float => a ≤ b) v a) :
    numLe v a = true := by
  cases v <;> cases a <;> simp_all [VR, numLe, num?]

theorem VR_max_numLe {v a : Value} (h : VR (fun a b => b.toInt ≤ a.toInt) (fun a b : Float => b ≤ a) v a) :
    numLe a v = true := by
  cases v <;> cases a <;> simp_all [VR, numLe, num?]


theorem extremum_args (mk : List Value → BuiltinRef) (arg : Value) :
    extremum mk arg =
      if (minMaxArgs arg).isEmpty then .error
      else if !(minMaxArgs arg).all isNum then .error
      else if hasNaN (minMaxArgs arg) then .any
      else mk (minMaxArgs arg) := by
  cases arg <;> rfl

theorem minMax_meets {fi ff pick} (mk : List Value → BuiltinRef) (arg : Value)
    (hmain : (minMaxArgs arg).isEmpty = false → (minMaxArgs arg).all isNum = true →
      hasNaN (minMaxArgs arg) = false → MeetsB (minMax fi ff pick arg) (mk (minMaxArgs arg))) :
    MeetsB (minMax fi ff pick arg) (extremum mk arg) := by
  rw [extremum_args]
  cases he : (minMaxArgs arg).isEmpty
  · cases hn : (minMaxArgs arg).all isNum
    · obtain ⟨e, h, hp⟩ := minMaxFold_err fi ff (minMaxArgs arg) none none hn
      refine ⟨e, ?_, hp⟩
      unfold minMax; rw [h]
    · cases hnan : hasNaN (minMaxArgs arg)
      · exact hmain he hn hnan
      · exact fun e h => minMax_no_panic _ _ _ _ _ h
  · have : minMaxArgs arg = [] := by simpa using he
    refine ⟨.wrongFunctionArgumentAmount 1 usizeMax 0, ?_, rfl⟩
    unfold minMax; rw [this]; rfl

/-- `min`, given the `Int64.toFloat` laws whenever ints and floats are mixed -/
theorem C10_min_of (arg : Value) (hl : MixedArgs (minMaxArgs arg) → FloatOrderLaws) :
    MeetsB (Builtin.call .min arg) (refBuiltin .min arg) := by
  show MeetsB (minMax i64min F64.fmin (fun i f => decide (i < f)) arg) (extremum .smallestOf arg)
  apply minMax_meets
  intro he hn hnan
  obtain ⟨v, h1, h2, h3⟩ := minMax_generic opsI_min opsF_min opsP_min arg he hn hnan
    (fun hm => ⟨(hl hm).toFloat_not_nan, (hl hm).toFloat_mono⟩)
  exact ⟨v, h1, h2, fun a ha => VR_min_numLe (h3 a ha)⟩

theorem C10_max_of (arg : Value) (hl : MixedArgs (minMaxArgs arg) → FloatOrderLaws) :
    MeetsB (Builtin.call .max arg) (refBuiltin .max arg) := by
  show MeetsB (minMax i64max F64.fmax (fun i f => decide (i > f)) arg) (extremum .largestOf arg)
  apply minMax_meets
  intro he hn hnan
  obtain ⟨v, h1, h2, h3⟩ := minMax_generic opsI_max opsF_max opsP_max arg he hn hnan
    (fun hm => ⟨(hl hm).toFloat_not_nan, fun a b h => (hl hm).toFloat_mono b a h⟩)
  exact ⟨v, h1, h2, fun a ha => VR_max_numLe (h3 a ha)⟩

/-- **`min` / `max` under the conversion laws** -/
theorem C10_minmax (laws : FloatOrderLaws) (arg : Value) :
    MeetsB (Builtin.call .min arg) (refBuiltin .min arg) ∧
    MeetsB (Builtin.call .max arg) (refBuiltin .max arg) :=
  ⟨C10_min_of arg (fun _ => laws), C10_max_of arg (fun _ => laws)⟩

/-- **`min` / `max`, unconditional, when the arguments do not mix ints and floats** (in particular
when all are ints, or all are floats) -/
theorem C10_minmax_unmixed (arg : Value) (h : ¬ MixedArgs (minMaxArgs arg)) :
    MeetsB (Builtin.call .min arg) (refBuiltin .min arg) ∧
    MeetsB (Builtin.call .max arg) (refBuiltin .max arg) :=
  ⟨C10_min_of arg (fun hm => (h hm).elim), C10_max_of arg (fun hm => (h hm).elim)⟩

def isInt : Value → Bool
  | .int _ => true
  | _ => false

/-- **`min` / `max` on integer arguments, unconditional** -/
theorem C10_minmax_int (arg : Value) (h : (minMaxArgs arg).all isInt = true) :
    MeetsB (Builtin.call .min arg) (refBuiltin .min arg) ∧
    MeetsB (Builtin.call .max arg) (refBuiltin .max arg) := by
  apply C10_minmax_unmixed
  rintro ⟨-, g, hg⟩
  have := List.all_eq_true.1 h _ hg
  simp [isInt] at this

theorem C10_minmax_no_panic (arg : Value) :
    (Builtin.call .min arg).isPanic = false ∧ (Builtin.call .max arg).isPanic = false := by
  constructor
  · show (minMax i64min F64.fmin (fun i f => decide (i < f)) arg).isPanic = false
    cases h : minMax i64min F64.fmin (fun i f => decide (i < f)) arg with
    | ok v => rfl
    | error e => exact minMax_no_panic _ _ _ _ _ h
  · show (minMax i64max F64.fmax (fun i f => decide (i > f)) arg).isPanic = false
    cases h : minMax i64max F64.fmax (fun i f => decide (i > f)) arg with
    | ok v => rfl
    | error e => exact minMax_no_panic _ _ _ _ _ h


end Evalexpr.Spec
