/-
Proofs/Literals.lean — C06: the lexer's word classification against the literal grammar of
`Spec/Literals.lean`: decimal / hexadecimal integers, booleans, floats (single word and with a signed
exponent), identifiers, and the two string-literal errors.

Helpers: `LitParts` (characters, parts of a numeric word, `parseMagnitude` as an equation),
`LitFloatParse` (`F64.parseBits` on float literals, both directions).
-/
import EvalexprVerif.Spec.Literals
import EvalexprVerif.Proofs.LexRoundtrip
import EvalexprVerif.Proofs.LitFloatParse

namespace Evalexpr.Spec
open Evalexpr

/-! ### integers -/

theorem parseDecOrHex_dec (w : Str) (h : ∀ r, w ≠ '0' :: 'x' :: r) :
    parseDecOrHex w = F64.parseDec w := by
  unfold parseDecOrHex
  split
  · rename_i r; exact absurd rfl (h r)
  · rfl

def signSplit (w : Str) : Bool × Str :=
  match w with
  | '-' :: r => (true, r) | '+' :: r => (false, r) | r => (false, r)

theorem signSplit_unsigned (w : Str) (h : ∀ c ∈ w, ¬ isSignChar c = true) :
    signSplit w = (false, w) := by
  unfold signSplit
  split
  · exact absurd (by decide) (h '-' (by simp))
  · exact absurd (by decide) (h '+' (by simp))
  · rfl

def decBody (neg : Bool) (ds : Str) : Option Int64 :=
  if ds.isEmpty || !ds.all F64.isDigit then none
  else
    let v := F64.digitsVal ds
    if neg then (if v ≤ 2 ^ 63 then some (Int64.ofInt (-(v : Int))) else none)
    else (if v < 2 ^ 63 then some (Int64.ofInt v) else none)

def hexBody (neg : Bool) (ds : Str) : Option Int64 :=
  if ds.isEmpty then none
  else match F64.hexVal ds 0 with
    | none => none
    | some v =>
      if neg then (if v ≤ 2 ^ 63 then some (Int64.ofInt (-(v : Int))) else none)
      else (if v < 2 ^ 63 then some (Int64.ofInt v) else none)

theorem parseDec_eq (w : Str) : F64.parseDec w = decBody (signSplit w).1 (signSplit w).2 := rfl
theorem parseHex_eq (w : Str) : F64.parseHex w = hexBody (signSplit w).1 (signSplit w).2 := rfl

theorem parseDec_unsigned (w : Str) (h : ∀ c ∈ w, ¬ isSignChar c = true) :
    F64.parseDec w =
      if w.isEmpty || !w.all F64.isDigit then none
      else if F64.digitsVal w < 2 ^ 63 then some (Int64.ofInt (F64.digitsVal w)) else none := by
  rw [parseDec_eq, signSplit_unsigned w h]
  rfl

theorem parseHex_unsigned (w : Str) (h : ∀ c ∈ w, ¬ isSignChar c = true) :
    F64.parseHex w =
      if w.isEmpty then none
      else match F64.hexVal w 0 with
        | none => none
        | some v => if v < 2 ^ 63 then some (Int64.ofInt v) else none := by
  rw [parseHex_eq, signSplit_unsigned w h]
  rfl

theorem hexDigitVal_of_isHexDigit (c : Char) (h : isHexDigit c = true) :
    F64.hexDigitVal c = some (hexDigitValue c) := by
  unfold F64.hexDigitVal hexDigitValue
  unfold isHexDigit at h
  by_cases h1 : ('0' ≤ c && c ≤ '9') = true
  · simp only [h1, ↓reduceIte]
  · by_cases h2 : ('a' ≤ c && c ≤ 'f') = true
    · simp only [h1, h2, ↓reduceIte]; rfl
    · simp only [Bool.not_eq_true] at h1 h2
      rw [h1, h2] at h
      simp only [Bool.false_or] at h
      simp only [h1, h2, h, ↓reduceIte]; rfl

theorem hexDigitVal_none (c : Char) (h : isHexDigit c = false) : F64.hexDigitVal c = none := by
  unfold isHexDigit at h
  simp only [Bool.or_eq_false_iff] at h
  unfold F64.hexDigitVal
  simp only [h.1.1, h.1.2, h.2, Bool.false_eq_true, ↓reduceIte]

theorem hexVal_of_all (ds : Str) (acc : Nat) (h : ds.all isHexDigit = true) :
    F64.hexVal ds acc = some (ds.foldl (fun a c => a * 16 + hexDigitValue c) acc) := by
  induction ds generalizing acc with
  | nil => rfl
  | cons c ds ih =>
    simp only [List.all_cons, Bool.and_eq_true] at h
    simp only [F64.hexVal, hexDigitVal_of_isHexDigit c h.1, List.foldl_cons]
    exact ih _ h.2

theorem hexVal_none (ds : Str) (acc : Nat) (h : ds.all isHexDigit = false) :
    F64.hexVal ds acc = none := by
  induction ds generalizing acc with
  | nil => simp at h
  | cons c ds ih =>
    cases hc : isHexDigit c
    · simp only [F64.hexVal, hexDigitVal_none c hc]
    · simp only [List.all_cons, hc, Bool.true_and] at h
      simp only [F64.hexVal, hexDigitVal_of_isHexDigit c hc]
      exact ih _ h

theorem not_isSignChar_of_isHexDigit (c : Char) (h : isHexDigit c = true) :
    ¬ isSignChar c = true := by
  intro hs
  rcases (isSignChar_iff c).1 hs with rfl | rfl <;> revert h <;> decide

theorem int64_ofInt_toInt (n : Nat) (h : n < 2 ^ 63) :
    Int64.ofInt (n : Int) = Int64.ofNat n ∧ (Int64.ofNat n).toInt = n :=
  ⟨Int64.ofInt_eq_ofNat, Int64.toInt_ofNat_of_lt h⟩

/-- a decimal literal within the signed 64-bit range denotes exactly that integer -/
theorem C06_dec (w : Str) (h : isDecLit w = true) (hv : decValue w < 2 ^ 63) :
    lexWord w = some (.int (Int64.ofNat (decValue w))) ∧
      (Int64.ofNat (decValue w)).toInt = decValue w := by
  refine ⟨?_, Int64.toInt_ofNat_of_lt hv⟩
  have hd := (isDigits_iff w).1 h
  have hall := List.all_eq_true.1 hd.2
  have h0x : ∀ r, w ≠ '0' :: 'x' :: r := by
    rintro r rfl
    exact absurd (hall 'x' (by simp)) (by decide)
  have hsg : ∀ c ∈ w, ¬ isSignChar c = true := fun c hc => not_isSignChar_of_isDigit c (hall c hc)
  have hem : w.isEmpty = false := by
    cases w with
    | nil => exact absurd rfl hd.1
    | cons _ _ => rfl
  have hv' : F64.digitsVal w < 2 ^ 63 := hv
  have : parseDecOrHex w = some (Int64.ofNat (decValue w)) := by
    rw [parseDecOrHex_dec w h0x, parseDec_unsigned w hsg]
    simp only [hem, hd.2, Bool.not_true, Bool.or_self, Bool.false_eq_true, ↓reduceIte, hv']
    rw [Int64.ofInt_eq_ofNat]; rfl
  simp only [lexWord, this]

/-- a `0x` hexadecimal literal within the signed 64-bit range denotes exactly that integer -/
theorem C06_hex (ds : Str) (h : isHexLit ('0' :: 'x' :: ds) = true) (hv : hexValue ds < 2 ^ 63) :
    lexWord ('0' :: 'x' :: ds) = some (.int (Int64.ofNat (hexValue ds))) ∧
      (Int64.ofNat (hexValue ds)).toInt = hexValue ds := by
  refine ⟨?_, Int64.toInt_ofNat_of_lt hv⟩
  simp only [isHexLit, Bool.and_eq_true, Bool.not_eq_true'] at h
  have hsg : ∀ c ∈ ds, ¬ isSignChar c = true :=
    fun c hc => not_isSignChar_of_isHexDigit c (List.all_eq_true.1 h.2 c hc)
  have hval : F64.hexVal ds 0 = some (hexValue ds) := hexVal_of_all ds 0 h.2
  have : parseDecOrHex ('0' :: 'x' :: ds) = some (Int64.ofNat (hexValue ds)) := by
    show F64.parseHex ds = _
    rw [parseHex_unsigned ds hsg]
    simp only [h.1, Bool.false_eq_true, ↓reduceIte, hval, hv]
    rw [Int64.ofInt_eq_ofNat]
  simp only [lexWord, this]

/-- booleans -/
theorem C06_bool :
    lexWord cl!"true" = some (.boolean true) ∧ lexWord cl!"false" = some (.boolean false) :=
  ⟨rfl, rfl⟩

/-! ### floats -/

theorem parseDecOrHex_none_of_not_dec (w : Str) (hs : ∀ c ∈ w, ¬ isSignChar c = true)
    (h0x : ∀ r, w ≠ '0' :: 'x' :: r) (hnot : ¬ (isDecLit w = true ∧ decValue w < 2 ^ 63)) :
    parseDecOrHex w = none := by
  rw [parseDecOrHex_dec w h0x, parseDec_unsigned w hs]
  split
  · rfl
  · rename_i hc
    split
    · rename_i hv
      exfalso
      apply hnot
      refine ⟨?_, hv⟩
      simp only [Bool.or_eq_true, Bool.not_eq_true', not_or, Bool.not_eq_false] at hc
      simp [isDecLit, isDigits, hc.1, hc.2]
    · rfl

theorem isFloatLit_not_0x (w : Str) (h : isFloatLit w = true) : ∀ r, w ≠ '0' :: 'x' :: r := by
  rintro r rfl
  have hx : ∀ m : Str, isMantissa m = true → 'x' ∉ m := by
    intro m hm hx
    rcases mantissa_chars m hm 'x' hx with h | h
    · exact absurd h (by decide)
    · exact absurd h (by decide)
  rcases isFloatLit_cases _ h with hm | ⟨m, e, ex, hw, he, hm, hex⟩
  · exact hx _ hm (by simp)
  · cases m with
    | nil => simp [isMantissa] at hm
    | cons a m =>
      cases m with
      | nil =>
        simp only [List.cons_append, List.nil_append, List.cons.injEq] at hw
        rcases he with rfl | rfl
        · exact absurd hw.2.1 (by decide)
        · exact absurd hw.2.1 (by decide)
      | cons b m =>
        simp only [List.cons_append, List.cons.injEq] at hw
        exact hx _ hm (by simp [← hw.2.1])

theorem isFloatLit_signfree (w : Str) (h : isFloatLit w = true) :
    ∀ c ∈ w, ¬ isSignChar c = true := by
  intro c hc
  rcases isFloatLit_cases w h with hm | ⟨m, e, ex, rfl, he, hm, hex⟩
  · exact not_isSignChar_of_digit_or_dot c (mantissa_chars w hm c hc)
  · simp only [List.mem_append, List.mem_cons] at hc
    rcases hc with hc | rfl | hc
    · exact not_isSignChar_of_digit_or_dot c (mantissa_chars m hm c hc)
    · rcases he with rfl | rfl <;> decide
    · exact not_isSignChar_of_isDigit c (List.all_eq_true.1 ((isDigits_iff ex).1 hex).2 c hc)

/-- a float literal (single word, unsigned exponent) that is not an in-range decimal integer is the
float `F64.parse` assigns to it, and `F64.parse` accepts it -/
theorem C06_float (w : Str) (h : isFloatLit w = true)
    (hnot : ¬ (isDecLit w = true ∧ decValue w < 2 ^ 63)) :
    ∃ f, F64.parse w = some f ∧ lexWord w = some (.float f) := by
  obtain ⟨b, hb⟩ := parseBits_isFloatLit w h
  have hp : F64.parse w = some (Float.ofBits b) := by rw [F64.parse, hb]; rfl
  refine ⟨Float.ofBits b, hp, ?_⟩
  have h1 := parseDecOrHex_none_of_not_dec w (isFloatLit_signfree w h) (isFloatLit_not_0x w h) hnot
  simp only [lexWord, h1, startsLikeNumber_isFloatLit w h, ↓reduceIte, hp]

/-- the exponent sign `+` may be omitted: `<mantissa>e<digits>` and `<mantissa>e+<digits>` are the
same float -/
theorem C06_float_value (m ex : Str) (hm : isMantissa m = true) (hex : isDigits ex = true) (e : Char)
    (he : e = 'e' ∨ e = 'E') :
    F64.parseBits (m ++ e :: ex) = F64.parseBits (m ++ e :: '+' :: ex) := by
  rw [parseBits_exp m ex e hm he hex, parseBits_exp_plus m ex e hm he hex]

/-! ### identifiers -/

theorem not_isSignChar_of_isWord (w : Str) (hw : isWord w = true) :
    ∀ c ∈ w, ¬ isSignChar c = true := by
  intro c hc
  simp only [isWord, Bool.and_eq_true, List.all_eq_true] at hw
  exact not_isSignChar_of_isWordChar c (hw.2 c hc)

theorem parseBool_none (w : Str) (h4 : w ≠ cl!"true") (h5 : w ≠ cl!"false") : parseBool w = none := by
  simp [parseBool, h4, h5]

/-- every other word is an identifier: a word that is not a decimal / hexadecimal / float literal
nor a boolean is not classified as a literal -/
theorem C06_word (w : Str) (hw : isWord w = true) (h1 : isDecLit w = false) (h2 : isHexLit w = false)
    (h3 : isFloatLit w = false) (h4 : w ≠ cl!"true") (h5 : w ≠ cl!"false") :
    lexWord w = none := by
  have hs := not_isSignChar_of_isWord w hw
  have hi : parseDecOrHex w = none := by
    by_cases h0x : ∃ r, w = '0' :: 'x' :: r
    · obtain ⟨ds, rfl⟩ := h0x
      show F64.parseHex ds = none
      rw [parseHex_unsigned ds (fun c hc => hs c (by simp [hc]))]
      split
      · rfl
      · rename_i hne
        have : ds.all isHexDigit = false := by
          cases hh : ds.all isHexDigit
          · rfl
          · simp [isHexLit, hh] at h2; exact absurd (by simp [h2]) hne
        rw [hexVal_none ds 0 this]
    · exact parseDecOrHex_none_of_not_dec w hs (fun r hr => h0x ⟨r, hr⟩) (by simp [h1])
  have hf : (if startsLikeNumber w then F64.parse w else none) = none := by
    split
    · rename_i hn
      apply Classical.byContradiction
      intro hne
      have := isFloatLit_of_parse w hs hn hne
      rw [h3] at this; cases this
    · rfl
  simp only [lexWord, hi, hf, parseBool_none w h4 h5]

/-- consequently such a word, alone, tokenizes to an identifier -/
theorem C06_identifier (w : Str) (hw : isWord w = true) (h1 : isDecLit w = false)
    (h2 : isHexLit w = false) (h3 : isFloatLit w = false) (h4 : w ≠ cl!"true")
    (h5 : w ≠ cl!"false") :
    tokenize w = .ok [.identifier w] := by
  have := C07_roundtrip [([], ⟨.identifier w, w⟩)] []
    (by
      intro p hp
      simp only [List.mem_singleton] at hp
      subst hp
      exact ⟨rfl, hw, C06_word w hw h1 h2 h3 h4 h5⟩)
    (by simp [Admissible, isSlash])
  simpa [renderFrom, Gap.text] using this

/-! ### scientific notation with a signed exponent -/

theorem isWhitespace_of_isDigit (c : Char) (h : F64.isDigit c = true) : isWhitespace c = false := by
  rw [isDigit_iff] at h
  cases hw : isWhitespace c
  · rfl
  · exfalso
    simp only [isWhitespace, Bool.or_eq_true, Bool.and_eq_true, decide_eq_true_eq, beq_iff_eq] at hw
    omega

theorem isWordChar_of_isDigit (c : Char) (h : F64.isDigit c = true) : isWordChar c = true := by
  rw [isWordChar_iff]
  have n := fun d hd => ne_of_isDigit c d h hd
  exact ⟨⟨n _ (by decide), n _ (by decide), n _ (by decide), n _ (by decide), n _ (by decide),
    n _ (by decide), n _ (by decide), n _ (by decide), n _ (by decide), n _ (by decide),
    n _ (by decide), n _ (by decide), n _ (by decide), n _ (by decide), n _ (by decide),
    n _ (by decide)⟩, isWhitespace_of_isDigit c h, n _ (by decide)⟩

theorem isWordChar_of_digit_or_dot (c : Char) (h : F64.isDigit c = true ∨ c = '.') :
    isWordChar c = true := by
  rcases h with h | rfl
  · exact isWordChar_of_isDigit c h
  · decide

theorem isWord_of_isDigits (ex : Str) (h : isDigits ex = true) : isWord ex = true := by
  obtain ⟨hne, hall⟩ := (isDigits_iff ex).1 h
  have : ex.isEmpty = false := by cases ex with
    | nil => exact absurd rfl hne
    | cons _ _ => rfl
  simp only [isWord, this, Bool.not_false, Bool.true_and, List.all_eq_true]
  exact fun c hc => isWordChar_of_isDigit c (List.all_eq_true.1 hall c hc)

/-- the word `<mantissa>e` is a word that the lexer does not classify as a literal -/
theorem mantissaE_word (m : Str) (e : Char) (hm : isMantissa m = true) (he : e = 'e' ∨ e = 'E') :
    isWord (m ++ [e]) = true ∧ lexWord (m ++ [e]) = none := by
  obtain ⟨c0, r0, hm0, hc0⟩ := mantissa_head m hm
  have hchars : ∀ c ∈ m ++ [e], (F64.isDigit c = true ∨ c = '.') ∨ c = e := by
    intro c hc
    simp only [List.mem_append, List.mem_singleton] at hc
    rcases hc with hc | hc
    · exact Or.inl (mantissa_chars m hm c hc)
    · exact Or.inr hc
  have hwe : isWordChar e = true := by rcases he with rfl | rfl <;> decide
  have hned : F64.isDigit e = false := by rcases he with rfl | rfl <;> decide
  have hw : isWord (m ++ [e]) = true := by
    have : (m ++ [e]).isEmpty = false := by cases m <;> rfl
    simp only [isWord, this, Bool.not_false, Bool.true_and, List.all_eq_true]
    intro c hc
    rcases hchars c hc with h | rfl
    · exact isWordChar_of_digit_or_dot c h
    · exact hwe
  refine ⟨hw, C06_word _ hw ?_ ?_ ?_ ?_ ?_⟩
  · simp [isDecLit, isDigits, hned]
  · cases hh : isHexLit (m ++ [e])
    · rfl
    · exfalso
      unfold isHexLit at hh
      split at hh
      · rename_i ds heq
        have hx : 'x' ∈ m ++ [e] := by rw [heq]; simp
        rcases hchars 'x' hx with (h | h) | h
        · exact absurd h (by decide)
        · exact absurd h (by decide)
        · rcases he with rfl | rfl <;> exact absurd h (by decide)
      · cases hh
  · unfold isFloatLit
    rw [splitExp_some m [] e (notE_of_isMantissa m hm) he]
    simp [isDigits]
  · rw [hm0]
    intro h
    simp only [List.cons_append, List.cons.injEq] at h
    rcases hc0 with hc | hc
    · rw [h.1] at hc; exact absurd hc (by decide)
    · rw [h.1] at hc; exact absurd hc (by decide)
  · rw [hm0]
    intro h
    simp only [List.cons_append, List.cons.injEq] at h
    rcases hc0 with hc | hc
    · rw [h.1] at hc; exact absurd hc (by decide)
    · rw [h.1] at hc; exact absurd hc (by decide)

/-- scientific notation with a signed exponent is split by the lexer into word, sign, word and
re-joined: `<mantissa>e±<digits>` alone tokenizes to the float `F64.parse` assigns to the joined
text -/
theorem C06_float_signed (m ex : Str) (hm : isMantissa m = true) (hex : isDigits ex = true)
    (e s : Char) (he : e = 'e' ∨ e = 'E') (hs : s = '+' ∨ s = '-') :
    ∃ f, F64.parse (m ++ e :: s :: ex) = some f ∧ tokenize (m ++ e :: s :: ex) = .ok [.float f] := by
  obtain ⟨b, hb⟩ : ∃ b, F64.parseBits (m ++ e :: s :: ex) = some b := by
    rcases hs with rfl | rfl
    · exact ⟨_, parseBits_exp_plus m ex e hm he hex⟩
    · exact ⟨_, parseBits_exp_minus m ex e hm he hex⟩
  have hp : F64.parse (m ++ e :: s :: ex) = some (Float.ofBits b) := by rw [F64.parse, hb]; rfl
  refine ⟨Float.ofBits b, hp, ?_⟩
  obtain ⟨hw, hlw⟩ := mantissaE_word m e hm he
  -- the sign as a partial token
  obtain ⟨sp, hsp1, hsp2, hsp3, hsp4⟩ : ∃ sp : PartialToken, charToPartialToken s = sp ∧
      isPlusOrMinus sp = true ∧ sp.display = [s] ∧ ∀ l, sp ≠ .literal l := by
    rcases hs with rfl | rfl
    · exact ⟨.plus, rfl, rfl, rfl, by intro l h; cases h⟩
    · exact ⟨.minus, rfl, rfl, rfl, by intro l h; cases h⟩
  have hs1 : s ≠ '"' := by rcases hs with rfl | rfl <;> decide
  have hs2 : s ≠ '/' := by rcases hs with rfl | rfl <;> decide
  -- phase 1
  have h1 : strToPartialTokens (m ++ e :: s :: ex) = .ok [.literal (m ++ [e]), sp, .literal ex] := by
    have e1 : m ++ e :: s :: ex = (m ++ [e]) ++ (s :: (ex ++ [])) := by simp
    rw [strToPartialTokens, e1, lexNormal_word _ hw _ [] rfl, lexNormal_cons_other s _ _ hs1 hs2, hsp1,
      pushPartial_of_nonlit _ _ hsp4,
      lexNormal_word ex (isWord_of_isDigits ex hex) [] _ (by cases sp <;> first | rfl | exact absurd rfl (hsp4 _)),
      lexNormal_nil]
    rfl
  -- phase 2
  have h2 : tokenStep (.literal (m ++ [e])) (some sp) (some (.literal ex)) =
      .ok (some (.float (Float.ofBits b)), 3) := by
    have e2 : m ++ [e] ++ [s] ++ ex = m ++ e :: s :: ex := by simp
    simp only [tokenStep, hlw, hsp2, ↓reduceIte, hsp3, PartialToken.display.eq_2, e2, hp]
  simp only [tokenize, h1]
  rw [pttt_step3 _ _ _ [] _ h2]
  rfl

/-! ### string-literal errors -/

theorem lexString_escape_prefix (t rest s : Str) (acc : List PartialToken) :
    lexString (escape t ++ rest) s acc = lexString rest (s ++ t) acc := by
  induction t generalizing s with
  | nil => simp [escape]
  | cons c t ih =>
    rw [escape]
    by_cases h1 : c = '"'
    · subst h1
      simp only [beq_self_eq_true, Bool.true_or, ↓reduceIte, List.cons_append]
      rw [lexString_esc_quote, ih]; simp
    · by_cases h2 : c = '\\'
      · subst h2
        simp only [beq_self_eq_true, Bool.or_true, ↓reduceIte, List.cons_append]
        rw [lexString_esc_backslash, ih]; simp
      · have : (c == '"' || c == '\\') = false := by simp [h1, h2]
        rw [this]
        simp only [Bool.false_eq_true, ↓reduceIte, List.cons_append]
        rw [lexString_plain c h1 h2, ih]; simp

/-- an escape other than `\"` and `\\` inside a string literal is an error -/
theorem C06_bad_escape (u v : Str) (c : Char) (hc : c ≠ '"' ∧ c ≠ '\\') :
    tokenize ('"' :: escape u ++ '\\' :: c :: v) = .error (.illegalEscapeSequence ['\\', c]) := by
  have e1 : ('\\' == '"') = false := by decide
  have : strToPartialTokens ('"' :: escape u ++ '\\' :: c :: v) =
      .error (.illegalEscapeSequence ['\\', c]) := by
    rw [strToPartialTokens, List.cons_append, lexNormal_quote, lexString_escape_prefix, lexString.eq_3]
    simp [e1, hc.1, hc.2]
  simp only [tokenize, this]

/-- a missing closing quote is an error -/
theorem C06_unterminated (u : Str) :
    tokenize ('"' :: escape u) = .error .unmatchedDoubleQuote := by
  have : strToPartialTokens ('"' :: escape u) = .error .unmatchedDoubleQuote := by
    have := lexString_escape_prefix u [] [] []
    rw [List.append_nil] at this
    rw [strToPartialTokens, lexNormal_quote, this, lexString.eq_1]
  simp only [tokenize, this]

/-! ### the value of a float literal: correctly rounded -/

theorem roundRat_zero (d : Nat) : F64.roundRat 0 d = 0 := by
  simp [F64.roundRat]

/-- outside the guard band of `parseMagnitude` (or at zero), `magOf` is `roundRat` of the exact
rational value -/
theorem magOf_eq_roundRat (digits : Str) (fplen : Nat) (e0 : Int)
    (hg : F64.digitsVal digits = 0 ∨
      (-400 ≤ e0 - fplen + F64.decLen (F64.digitsVal digits) ∧
        e0 - fplen + F64.decLen (F64.digitsVal digits) ≤ 400)) :
    magOf digits fplen e0 =
      F64.roundRat
        (if e0 - fplen ≥ 0 then (F64.digitsVal digits * 10 ^ (e0 - fplen).toNat, 1)
          else (F64.digitsVal digits, 10 ^ (-(e0 - fplen)).toNat)).1
        (if e0 - fplen ≥ 0 then (F64.digitsVal digits * 10 ^ (e0 - fplen).toNat, 1)
          else (F64.digitsVal digits, 10 ^ (-(e0 - fplen)).toNat)).2 := by
  unfold magOf
  simp only []
  by_cases hz : F64.digitsVal digits = 0
  · simp only [hz, beq_self_eq_true, ↓reduceIte, Nat.zero_mul]
    split <;> simp only [roundRat_zero]
  · have hb : (F64.digitsVal digits == 0) = false := by simp [hz]
    rcases hg with hg | ⟨hlo, hhi⟩
    · exact absurd hg hz
    · simp only [hb, Bool.false_eq_true, ↓reduceIte]
      rw [if_neg (by omega), if_neg (by omega)]
      split <;> rfl

theorem floatLitValue_eq (m : Str) (neg : Bool) (ex : Str) :
    floatLitValue m neg ex =
      (if (if neg then -(decValue ex : Int) else decValue ex) - mantFracLen m ≥ 0 then
        (F64.digitsVal (mantDigits m) *
          10 ^ ((if neg then -(decValue ex : Int) else decValue ex) - mantFracLen m).toNat, 1)
      else (F64.digitsVal (mantDigits m),
        10 ^ (-((if neg then -(decValue ex : Int) else decValue ex) - mantFracLen m)).toNat)) := rfl

/-- the guard of `F64.parseMagnitude`, on the literal: the mantissa digits are all zero, or the
decimal order of magnitude lies within `[-400, 400]` -/
def inGuardBand (m : Str) (expNeg : Bool) (ex : Str) : Prop :=
  let ip := m.takeWhile F64.isDigit
  let fp := (m.dropWhile F64.isDigit).drop 1
  let mv := decValue (ip ++ fp)
  let e10 : Int := (if expNeg then -(decValue ex : Int) else decValue ex) - fp.length
  mv = 0 ∨ (-400 ≤ e10 + F64.decLen mv ∧ e10 + F64.decLen mv ≤ 400)

theorem magOf_floatLitValue (m : Str) (neg : Bool) (ex : Str) (hg : inGuardBand m neg ex) :
    magOf (mantDigits m) (mantFracLen m) (if neg then -(decValue ex : Int) else decValue ex) =
      F64.roundRat (floatLitValue m neg ex).1 (floatLitValue m neg ex).2 := by
  rw [floatLitValue_eq]
  exact magOf_eq_roundRat _ _ _ hg

/-- the float a literal `<mantissa>e<digits>` denotes is the correctly rounded (`roundRat`: nearest,
ties to even) value of the literal's exact rational value `floatLitValue` -/
theorem C06_float_roundRat (m ex : Str) (hm : isMantissa m = true) (hex : isDigits ex = true)
    (e : Char) (he : e = 'e' ∨ e = 'E') (hg : inGuardBand m false ex) :
    F64.parseBits (m ++ e :: ex) =
      some (F64.roundRat (floatLitValue m false ex).1 (floatLitValue m false ex).2) := by
  rw [parseBits_exp m ex e hm he hex, ← magOf_floatLitValue m false ex hg]
  rfl

/-- the same with a signed exponent -/
theorem C06_float_roundRat_signed (m ex : Str) (hm : isMantissa m = true) (hex : isDigits ex = true)
    (e s : Char) (he : e = 'e' ∨ e = 'E') (hs : s = '+' ∨ s = '-')
    (hg : inGuardBand m (s == '-') ex) :
    F64.parseBits (m ++ e :: s :: ex) =
      some (F64.roundRat (floatLitValue m (s == '-') ex).1 (floatLitValue m (s == '-') ex).2) := by
  rcases hs with rfl | rfl
  · rw [parseBits_exp_plus m ex e hm he hex, ← magOf_floatLitValue m _ ex hg]
    rfl
  · rw [parseBits_exp_minus m ex e hm he hex, ← magOf_floatLitValue m _ ex hg]
    rfl

/-- the same in positional notation (no exponent) -/
theorem C06_float_roundRat_plain (m : Str) (hm : isMantissa m = true) (hg : inGuardBand m false []) :
    F64.parseBits m =
      some (F64.roundRat (floatLitValue m false []).1 (floatLitValue m false []).2) := by
  rw [parseBits_plain m hm, ← magOf_floatLitValue m false [] hg]
  rfl

end Evalexpr.Spec
