/-
Proofs/ParseLooseMain.lean — the induction of `ParseExpr.lean` re-run for the permissive rendering
`renderL e nx` / `toTreeL e nx` of `Spec/AstLoose.lean` (part of the proof of C02, loose rendering).

The spine/frames machinery (`openS`, `plug`, `ins_append`, `ins_rotate`, `step_push`, …) is reused
unchanged. `insertBackPrioritized` works top-down, so the only place where the loosened rule matters
is the admissibility of the operators arriving below an `Exp` frame whose right operand is a bare
prefix chain: all of them are unary (`topsL_unary`) and descend through every frame.
-/
import EvalexprVerif.Proofs.ParseLooseTops
import EvalexprVerif.Proofs.ParseExpr

namespace Evalexpr.Spec
open Evalexpr

/-- every operator arriving at top level while `renderL e nx` is read descends through `F` -/
def AdmL (F : List Frame) (e : Expr) (nx : Bool) : Prop :=
  ∀ f ∈ F, ∀ o ∈ topsL e nx, descends f.op o false = true

theorem AdmL.snoc {F : List Frame} {e : Expr} {nx : Bool} (h : AdmL F e nx) (g : Frame)
    (hg : ∀ o ∈ topsL e nx, descends g.op o false = true) : AdmL (F ++ [g]) e nx := by
  intro f hf
  rcases List.mem_append.mp hf with hf | hf
  · exact h f hf
  · rw [List.mem_singleton.mp hf]; exact hg

theorem AdmL.nil (e : Expr) (nx : Bool) : AdmL [] e nx := by intro f hf; cases hf

/-- an operand as the loose renderer writes it: parenthesised (`b = true`) or bare -/
def wrapL (b : Bool) (e : Expr) (nx : Bool) : List Token :=
  if b then .lBrace :: renderL e false ++ [.rBrace] else renderL e nx

def wrapTreeL (b : Bool) (e : Expr) (nx : Bool) : Node :=
  if b then ⟨.rootNode, [toTreeL e false]⟩ else toTreeL e nx

theorem renderL_call (f : Str) (a : Expr) (nx : Bool) :
    renderL (.call f a) nx = .identifier f :: wrapL (needsParenArg a) a nx := by
  simp only [renderL, wrapL]
theorem renderL_neg (e : Expr) (nx : Bool) :
    renderL (.neg e) nx = .minus :: wrapL (needsParenUnary e) e nx := by
  simp only [renderL, wrapL]
theorem renderL_not (e : Expr) (nx : Bool) :
    renderL (.not e) nx = .not :: wrapL (needsParenUnary e) e nx := by
  simp only [renderL, wrapL]
theorem renderL_bin (op : BinOp) (l r : Expr) (nx : Bool) :
    renderL (.bin op l r) nx = wrapL (needsParenLeft op l) l (isExpOp op) ++
      op.token :: wrapL (needsParenRightL op r nx) r nx := by
  simp only [renderL, wrapL]
theorem renderL_assign (op : AssignOp) (x : Str) (rhs : Expr) (nx : Bool) :
    renderL (.assign op x rhs) nx
      = .identifier x :: op.token :: wrapL (needsParenRhs op rhs) rhs nx := by
  simp only [renderL, wrapL]
theorem renderL_paren (e : Expr) (nx : Bool) :
    renderL (.paren e) nx = wrapL true e nx := by
  simp only [renderL, wrapL, if_true]

theorem toTreeL_call (f : Str) (a : Expr) (nx : Bool) :
    toTreeL (.call f a) nx = ⟨.fn f, [wrapTreeL (needsParenArg a) a nx]⟩ := by
  simp only [toTreeL, wrapTreeL]
theorem toTreeL_neg (e : Expr) (nx : Bool) :
    toTreeL (.neg e) nx = ⟨.neg, [wrapTreeL (needsParenUnary e) e nx]⟩ := by
  simp only [toTreeL, wrapTreeL]
theorem toTreeL_not (e : Expr) (nx : Bool) :
    toTreeL (.not e) nx = ⟨.not, [wrapTreeL (needsParenUnary e) e nx]⟩ := by
  simp only [toTreeL, wrapTreeL]
theorem toTreeL_bin (op : BinOp) (l r : Expr) (nx : Bool) :
    toTreeL (.bin op l r) nx = ⟨op.toOperator, [wrapTreeL (needsParenLeft op l) l (isExpOp op),
      wrapTreeL (needsParenRightL op r nx) r nx]⟩ := by
  simp only [toTreeL, wrapTreeL]
theorem toTreeL_assign (op : AssignOp) (x : Str) (rhs : Expr) (nx : Bool) :
    toTreeL (.assign op x rhs) nx
      = ⟨op.toOperator, [⟨.varWrite x, []⟩, wrapTreeL (needsParenRhs op rhs) rhs nx]⟩ := by
  simp only [toTreeL, wrapTreeL]
theorem toTreeL_paren (e : Expr) (nx : Bool) :
    toTreeL (.paren e) nx = wrapTreeL true e nx := by
  simp only [toTreeL, wrapTreeL, if_true]

/-! ### the induction -/

/-- the statement proved by induction on `e`: reading `renderL e nx` in an operand position of the
spine `F` fills the open slot with `toTreeL e nx` -/
def GoalL (e : Expr) : Prop :=
  ∀ (nx : Bool) (F : List Frame) (rest : List Node) (suf : List Token) (lr li : Bool),
    FOK F → AdmL F e nx → (lr = false ∨ (li = true ∧ e.headPrec = none)) → okNext suf →
    treeLoop (renderL e nx ++ suf) (openS R F :: rest) lr li
      = treeLoop suf (plug (R :: F) (toTreeL e nx) :: rest) true false

/-- an operand, parenthesised (`b = true`) or bare -/
theorem operandL {e : Expr} (ih : GoalL e) (b nx : Bool) (F : List Frame) (rest : List Node)
    (suf : List Token) (lr li : Bool) (hF : FOK F) (hadm : b = false → AdmL F e nx)
    (hs : lr = false ∨ (li = true ∧ (b = true ∨ e.headPrec = none))) (hn : okNext suf) :
    treeLoop (wrapL b e nx ++ suf) (openS R F :: rest) lr li
      = treeLoop suf (plug (R :: F) (wrapTreeL b e nx) :: rest) true false := by
  cases b with
  | false =>
    simp only [wrapL, wrapTreeL, Bool.false_eq_true, if_false]
    refine ih nx F rest suf lr li hF (hadm rfl) ?_ hn
    rcases hs with h | ⟨h1, h2⟩
    · exact .inl h
    · exact .inr ⟨h1, by simpa using h2⟩
  | true =>
    simp only [wrapL, wrapTreeL, if_true, List.cons_append, List.append_assoc, List.nil_append]
    rw [step_lBrace _ _ _ _ (by rcases hs with h | ⟨h, _⟩ <;> simp [h])]
    rw [ih false [] (openS R F :: rest) (.rBrace :: suf) false false (by intro f hf; cases hf)
      (AdmL.nil e false) (.inl rfl) (by intro t ht; simp at ht; subst ht; exact ⟨rfl, rfl⟩)]
    simp only [plug, R, List.nil_append]
    exact step_rBrace suf (toTreeL e false) (openS R F) _ rest true false (openS_R_seq F)
      (ins_atom hF _ rfl)

/-- the first token of an operand that is a parenthesised group or an atom -/
theorem head_operandL (b : Bool) (e : Expr) (nx : Bool) (suf : List Token)
    (h : b = true ∨ e.headPrec = none) :
    ∃ t, (wrapL b e nx ++ suf).head? = some t ∧ t.isLeftsidedValue = true ∧
      t.isAssignment = false := by
  cases b with
  | true => exact ⟨.lBrace, rfl, rfl, rfl⟩
  | false =>
    have h : e.headPrec = none := by simpa using h
    cases e with
    | lit l => cases l <;> exact ⟨_, rfl, rfl, rfl⟩
    | var x => exact ⟨_, rfl, rfl, rfl⟩
    | call f a => exact ⟨.identifier f, by simp [wrapL, renderL], rfl, rfl⟩
    | paren e => exact ⟨.lBrace, by simp [wrapL, renderL], rfl, rfl⟩
    | neg e => simp [Expr.headPrec] at h
    | not e => simp [Expr.headPrec] at h
    | bin op l r => simp [Expr.headPrec] at h
    | assign op x rhs => simp [Expr.headPrec] at h

theorem parseL_lit (l : Lit) : GoalL (.lit l) := by
  intro nx F rest suf lr li hF _ hs hn
  simp only [renderL, toTreeL, List.singleton_append]
  rw [step_push l.token suf (openS R F) rest lr li ⟨.const l.value, []⟩
    (plug (R :: F) ⟨.const l.value, []⟩)
    (juxt_leftsided hs _ (by cases l <;> rfl))
    (by cases l <;> rfl) rfl (openS_R_seq F) (ins_atom hF _ rfl)]
  cases l <;> rfl

theorem parseL_var (x : Str) : GoalL (.var x) := by
  intro nx F rest suf lr li hF _ hs hn
  simp only [renderL, toTreeL, List.singleton_append]
  have hk : tokenToNode (openS R F :: rest) lr (.identifier x) suf.head?
      = .ok (some ⟨.varRead x, []⟩, openS R F :: rest) := by
    cases hh : suf.head? with
    | none => rfl
    | some t =>
      obtain ⟨h1, h2⟩ := hn t hh
      simp [tokenToNode, h1, h2, Node.new]
  rw [step_push (.identifier x) suf (openS R F) rest lr li ⟨.varRead x, []⟩
    (plug (R :: F) ⟨.varRead x, []⟩) (juxt_leftsided hs _ rfl) hk rfl (openS_R_seq F)
    (ins_atom hF _ rfl)]
  exact li_irrelevant suf _ _ hn

theorem parseL_paren (e : Expr) (ih : GoalL e) : GoalL (.paren e) := by
  intro nx F rest suf lr li hF _ hs hn
  rw [renderL_paren, toTreeL_paren]
  exact operandL ih true nx F rest suf lr li hF (by intro h; cases h)
    (by rcases hs with h | ⟨h, _⟩ <;> simp [h]) hn

theorem parseL_call (f : Str) (a : Expr) (ih : GoalL a) : GoalL (.call f a) := by
  intro nx F rest suf lr li hF hadm hs hn
  rw [renderL_call, toTreeL_call, List.cons_append]
  have harg : needsParenArg a = true ∨ a.headPrec = none := by
    cases h : needsParenArg a with
    | true => exact .inl rfl
    | false => right; simpa [needsParenArg] using h
  obtain ⟨t, ht, ht1, ht2⟩ := head_operandL (needsParenArg a) a nx suf harg
  have hk : tokenToNode (openS R F :: rest) lr (.identifier f)
      (wrapL (needsParenArg a) a nx ++ suf).head?
      = .ok (some ⟨.fn f, []⟩, openS R F :: rest) := by
    simp [tokenToNode, ht, ht1, ht2, Node.new]
  rw [step_push (.identifier f) _ (openS R F) rest lr li ⟨.fn f, []⟩
    (openS R (F ++ [⟨.fn f, []⟩])) (juxt_leftsided hs _ rfl) hk rfl (openS_R_seq F)
    (by rw [openS_append]; exact ins_unary hF _ rfl)]
  show treeLoop _ _ true true = _
  rw [operandL ih (needsParenArg a) nx (F ++ [Frame.mk (.fn f) []]) rest suf true true
    (hF.snoc ⟨.fn f, []⟩ rfl (by show 190 < 200; omega)) ?_ (.inr ⟨rfl, harg⟩) hn]
  · rw [← List.cons_append, plug_append]; rfl
  · intro hb
    refine AdmL.snoc ?_ _ (below_fnL nx hb f)
    intro g hg o ho
    exact hadm g hg o (by simp [topsL, hb, ho])

/-- the common part of the two prefix operators -/
theorem parseL_prefix (tok : Token) (op : Operator) (e : Expr) (ih : GoalL e) (nx : Bool)
    (htok : ∀ st next, tokenToNode st false tok next = .ok (some ⟨op, []⟩, st))
    (hnot : ∀ li, juxtaposed false li tok = false)
    (hr : tok.isRightsidedValue = false)
    (hu : op.isUnary = true) (hp : op.precedence = 110)
    (hseq : op.isSequence = false) (hmax : op.maxArgumentAmount = some 1)
    (F : List Frame) (rest : List Node) (suf : List Token) (li : Bool)
    (hF : FOK F)
    (hadm : needsParenUnary e = false → AdmL F e nx)
    (hn : okNext suf) :
    treeLoop (tok :: wrapL (needsParenUnary e) e nx ++ suf) (openS R F :: rest) false li
      = treeLoop suf (plug (R :: F) ⟨op, [wrapTreeL (needsParenUnary e) e nx]⟩ :: rest)
          true false := by
  rw [List.cons_append, step_push tok _ (openS R F) rest false li ⟨op, []⟩
    (openS R (F ++ [⟨op, []⟩])) (hnot li) (htok _ _) hseq (openS_R_seq F)
    (by rw [openS_append]; exact ins_unary hF _ hu)]
  rw [hr, operandL ih (needsParenUnary e) nx (F ++ [Frame.mk op []]) rest suf false tok.isIdentifier
    (hF.snoc ⟨op, []⟩ hmax (by show op.precedence < 200; omega)) ?_ (.inl rfl) hn]
  · rw [← List.cons_append, plug_append]; rfl
  · intro hb
    exact AdmL.snoc (hadm hb) _ (below_unaryL nx hb op hp)

theorem parseL_neg (e : Expr) (ih : GoalL e) : GoalL (.neg e) := by
  intro nx F rest suf lr li hF hadm hs hn
  have hlr : lr = false := by
    rcases hs with h | ⟨_, h⟩
    · exact h
    · simp [Expr.headPrec] at h
  subst hlr
  rw [renderL_neg, toTreeL_neg]
  exact parseL_prefix .minus .neg e ih nx (fun _ _ => rfl) (fun _ => rfl) rfl rfl rfl rfl rfl
    F rest suf li hF
    (fun hb g hg o ho => hadm g hg o (by simp [topsL, hb, ho])) hn

theorem parseL_not (e : Expr) (ih : GoalL e) : GoalL (.not e) := by
  intro nx F rest suf lr li hF hadm hs hn
  have hlr : lr = false := by
    rcases hs with h | ⟨_, h⟩
    · exact h
    · simp [Expr.headPrec] at h
  subst hlr
  rw [renderL_not, toTreeL_not]
  exact parseL_prefix .not .not e ih nx (fun _ _ => rfl) (fun _ => rfl) rfl rfl rfl rfl rfl
    F rest suf li hF
    (fun hb g hg o ho => hadm g hg o (by simp [topsL, hb, ho])) hn

/-- the root of `toTreeL e nx` binds at least as tightly as `lb e` -/
theorem toTreeL_prec (e : Expr) (nx : Bool) :
    lb e ≤ (toTreeL e nx).op.precedence ∨ (toTreeL e nx).op.precedence = 190 ∨
    (isAA e = true ∧ (toTreeL e nx).op.precedence = 50) := by
  cases e with
  | lit l => left; simp only [toTreeL]; exact Nat.le_refl _
  | var x => left; simp only [toTreeL]; exact Nat.le_refl _
  | call f a => right; left; simp only [toTreeL]; rfl
  | neg e => left; simp only [toTreeL]; exact Nat.le_refl _
  | not e => left; simp only [toTreeL]; exact Nat.le_refl _
  | paren e => left; simp only [toTreeL]; exact Nat.le_refl _
  | bin op l r => left; simp only [lb, toTreeL]; rw [(binop_facts op).2.2.1]; exact Nat.le_refl _
  | assign op x rhs =>
    simp only [toTreeL]
    cases op <;> first | (right; right; exact ⟨rfl, rfl⟩) | (left; exact Nat.le_refl 50)

/-- a binary operator does not descend into its (possibly parenthesised) left operand -/
theorem stop_leftL (op : BinOp) (l : Expr) (nx : Bool) :
    descends (wrapTreeL (needsParenLeft op l) l nx).op op.toOperator false = false := by
  obtain ⟨h1, h2, h3, _⟩ := binop_facts op
  have hle := docPrec_le op
  have hge := docPrec_ge op
  have hp : op.docPrec ≤ (wrapTreeL (needsParenLeft op l) l nx).op.precedence := by
    cases hb : needsParenLeft op l with
    | true => simp only [wrapTreeL, if_true]; show op.docPrec ≤ 200; omega
    | false =>
      simp only [wrapTreeL, Bool.false_eq_true, if_false]
      have := lb_of_left hb
      rcases toTreeL_prec l nx with h | h | ⟨haa, h⟩
      · omega
      · omega
      · have := lb_of_isAA haa; omega
  simp only [descends, h1, h2, h3]
  simp
  omega

theorem parseL_bin (op : BinOp) (l r : Expr) (ihl : GoalL l) (ihr : GoalL r) :
    GoalL (.bin op l r) := by
  intro nx F rest suf lr li hF hadm hs hn
  have hlr : lr = false := by
    rcases hs with h | ⟨_, h⟩
    · exact h
    · simp [Expr.headPrec] at h
  subst hlr
  obtain ⟨h1, h2, h3, h4, h5, h6⟩ := binop_facts op
  obtain ⟨k1, k2, k3, k4⟩ := binop_token_facts op
  rw [renderL_bin, toTreeL_bin]
  simp only [List.append_assoc, List.cons_append]
  rw [operandL ihl (needsParenLeft op l) (isExpOp op) F rest _ false li hF
    (fun hb g hg o ho => hadm g hg o (by simp [topsL, hb, ho])) (.inl rfl)
    (by intro t ht; simp at ht; subst ht; exact ⟨k4, k2⟩)]
  rw [step_push op.token _ _ rest true false (Node.new op.toOperator)
    (openS R (F ++ [⟨op.toOperator, [wrapTreeL (needsParenLeft op l) l (isExpOp op)]⟩]))
    (by simp [juxtaposed, k1, k2]) (binop_token op _ _) h6 (plug_R_seq F _)
    (ins_binary hF _ _ (fun g hg => hadm g hg _ (by simp [topsL])) (stop_leftL op l _) h4 h5)]
  rw [k3, operandL ihr (needsParenRightL op r nx) nx
    (F ++ [Frame.mk op.toOperator [wrapTreeL (needsParenLeft op l) l (isExpOp op)]]) rest suf false _
    (hF.snoc ⟨op.toOperator, [wrapTreeL (needsParenLeft op l) l (isExpOp op)]⟩
      (by cases op <;> rfl)
      (by show op.toOperator.precedence < 200; rw [h3]; have := docPrec_le op; omega)) ?_
    (.inl rfl) hn]
  · rw [← List.cons_append, plug_append]; rfl
  · intro hb
    refine AdmL.snoc ?_ _ (below_rightL hb)
    intro g hg o ho
    exact hadm g hg o (by simp [topsL, hb, ho])

theorem parseL_assign (op : AssignOp) (x : Str) (rhs : Expr) (ih : GoalL rhs) :
    GoalL (.assign op x rhs) := by
  intro nx F rest suf lr li hF hadm hs hn
  obtain ⟨h1, h2, h3, h4, h5, h6, h7⟩ := assignop_facts op
  obtain ⟨k1, k2, k3, k4⟩ := assignop_token_facts op
  rw [renderL_assign, toTreeL_assign]
  simp only [List.cons_append]
  have hk : tokenToNode (openS R F :: rest) lr (.identifier x)
      (op.token :: (wrapL (needsParenRhs op rhs) rhs nx ++ suf)).head?
      = .ok (some ⟨.varWrite x, []⟩, openS R F :: rest) := by
    simp [tokenToNode, k4, Node.new]
  rw [step_push (.identifier x) _ (openS R F) rest lr li ⟨.varWrite x, []⟩
    (plug (R :: F) ⟨.varWrite x, []⟩) (juxt_leftsided hs _ rfl) hk rfl (openS_R_seq F)
    (ins_atom hF _ rfl)]
  have hstop : descends (Operator.varWrite x) op.toOperator false = false := by
    simp only [descends, h1, h2]
    simp [Operator.precedence, Operator.kind, OpKind.precedence]
  rw [step_push op.token _ _ rest _ _ (Node.new op.toOperator)
    (openS R (F ++ [⟨op.toOperator, [⟨.varWrite x, []⟩]⟩]))
    (by simp [juxtaposed, k1, k2]) (assignop_token op _ _ _) h5 (plug_R_seq F _)
    (ins_binary hF _ _ (fun g hg => hadm g hg _ (by simp [topsL])) hstop h3 h4)]
  rw [k3, operandL ih (needsParenRhs op rhs) nx
    (F ++ [Frame.mk op.toOperator [⟨.varWrite x, []⟩]]) rest suf false _
    (hF.snoc ⟨op.toOperator, [⟨.varWrite x, []⟩]⟩ (by cases op <;> rfl)
      (by show op.toOperator.precedence < 200; rw [h2]; omega)) ?_ (.inl rfl) hn]
  · rw [← List.cons_append, plug_append]; rfl
  · intro hb
    refine AdmL.snoc ?_ _ (below_assignL nx hb)
    intro g hg o ho
    exact hadm g hg o (by simp [topsL, hb, ho])

theorem parseL_main (e : Expr) : GoalL e := by
  induction e with
  | lit l => exact parseL_lit l
  | var x => exact parseL_var x
  | call f a ih => exact parseL_call f a ih
  | neg e ih => exact parseL_neg e ih
  | not e ih => exact parseL_not e ih
  | bin op l r ihl ihr => exact parseL_bin op l r ihl ihr
  | assign op x rhs ih => exact parseL_assign op x rhs ih
  | paren e ih => exact parseL_paren e ih

end Evalexpr.Spec
