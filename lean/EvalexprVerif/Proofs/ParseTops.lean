/-
Proofs/ParseTops.lean — the operators that arrive at the top level of a parenthesis level while
`render e` is parsed (`tops e`), and the precedence facts that make `render`'s parenthesisation
sufficient: every such operator descends through the frame of the enclosing operator.
(part of the proof of C02)
-/
import EvalexprVerif.Proofs.ParseSpine

namespace Evalexpr.Spec
open Evalexpr

/-- the operators that are inserted at the current parenthesis level while `render e` is read -/
def tops : Expr → List Operator
  | .lit _ | .var _ | .paren _ => []
  | .call f a => .fn f :: (if needsParenArg a then [] else tops a)
  | .neg e => .neg :: (if needsParenUnary e then [] else tops e)
  | .not e => .not :: (if needsParenUnary e then [] else tops e)
  | .bin op l r =>
    (if needsParenLeft op l then [] else tops l) ++
      op.toOperator :: (if needsParenRight op r then [] else tops r)
  | .assign op _ rhs => op.toOperator :: (if needsParenRhs op rhs then [] else tops rhs)

/-- a lower bound on the precedence of the left-to-right binary operators in `tops e` -/
def lb : Expr → Nat
  | .lit _ | .var _ | .call _ _ | .paren _ => 200
  | .neg _ | .not _ => 110
  | .bin op _ _ => op.docPrec
  | .assign .assign _ _ => 51
  | .assign _ _ _ => 50

/-- `x = …` -/
def isAA : Expr → Bool
  | .assign .assign _ _ => true
  | _ => false

theorem docPrec_le (op : BinOp) : op.docPrec ≤ 120 := by cases op <;> decide
theorem docPrec_ge (op : BinOp) : 70 ≤ op.docPrec := by cases op <;> decide

theorem lb_of_left {op : BinOp} {l : Expr} (h : needsParenLeft op l = false) :
    op.docPrec ≤ lb l := by
  have := docPrec_le op
  cases l with
  | assign aop x rhs =>
    have := docPrec_ge op
    simp [needsParenLeft, precLt, Expr.headPrec, assignPrec] at h; omega
  | _ => simp [needsParenLeft, precLt, Expr.headPrec, unaryPrec, lb] at h ⊢ <;> omega

theorem lb_of_right {op : BinOp} {r : Expr} (h : needsParenRight op r = false) :
    op.docPrec < lb r := by
  have := docPrec_le op
  cases r with
  | assign aop x rhs =>
    have := docPrec_ge op
    simp [needsParenRight, precLe, Expr.headPrec, assignPrec] at h; omega
  | _ => simp [needsParenRight, precLe, Expr.headPrec, unaryPrec, lb] at h ⊢ <;> omega

theorem lb_of_unary {e : Expr} (h : needsParenUnary e = false) : 110 ≤ lb e := by
  cases e with
  | assign aop x rhs => simp [needsParenUnary, precLt, Expr.headPrec, assignPrec, unaryPrec] at h
  | bin op l r =>
    simp [needsParenUnary, precLt, Expr.headPrec, unaryPrec] at h
    show 110 ≤ op.docPrec
    have := of_decide_eq_false h
    omega
  | _ => simp [lb]

theorem lb_of_arg {e : Expr} (h : needsParenArg e = false) : lb e = 200 := by
  cases e <;> simp [needsParenArg, Expr.headPrec, lb] at h ⊢

theorem lb_of_rhs {op : AssignOp} {e : Expr} (h : needsParenRhs op e = false) : 51 ≤ lb e := by
  cases e with
  | assign aop x rhs =>
    cases aop <;> simp [needsParenRhs, lb] at h ⊢
  | bin bop l r => have := docPrec_ge bop; simp [lb]; omega
  | _ => simp [lb]

theorem lb_ge (e : Expr) : 50 ≤ lb e := by
  cases e with
  | assign aop x rhs => cases aop <;> simp [lb]
  | bin bop l r => have := docPrec_ge bop; simp [lb]; omega
  | _ => simp [lb]

theorem lb_of_isAA {e : Expr} (h : isAA e = true) : lb e = 51 := by
  cases e with
  | assign aop x rhs => cases aop <;> simp [isAA, lb] at h ⊢
  | _ => simp [isAA] at h

/-- what is known about an operator arriving at top level -/
def TopOK (e : Expr) (o : Operator) : Prop :=
  o.isUnary = true ∨
  (o.isUnary = false ∧ o.isLeftToRight = true ∧ lb e ≤ o.precedence) ∨
  (o.kind = .assign ∧ isAA e = true)

theorem TopOK.mono {e e' : Expr} {o : Operator} (h : TopOK e' o) (hlb : lb e ≤ lb e')
    (haa : isAA e' = true → isAA e = true) : TopOK e o := by
  rcases h with h | ⟨h1, h2, h3⟩ | ⟨h1, h2⟩
  · exact .inl h
  · exact .inr (.inl ⟨h1, h2, by omega⟩)
  · exact .inr (.inr ⟨h1, haa h2⟩)

theorem binop_facts (op : BinOp) :
    op.toOperator.isUnary = false ∧ op.toOperator.isLeftToRight = true ∧
    op.toOperator.precedence = op.docPrec ∧ op.toOperator.isLeaf = false ∧
    op.toOperator.isRoot = false ∧ op.toOperator.isSequence = false := by
  cases op <;> decide

theorem assignop_facts (op : AssignOp) :
    op.toOperator.isUnary = false ∧ op.toOperator.precedence = 50 ∧
    op.toOperator.isLeaf = false ∧ op.toOperator.isRoot = false ∧
    op.toOperator.isSequence = false ∧
    (op.toOperator.isLeftToRight = false ↔ op = .assign) ∧
    (op = .assign → op.toOperator.kind = .assign) := by
  cases op <;> decide

theorem tops_ok (e : Expr) : ∀ o ∈ tops e, TopOK e o := by
  induction e with
  | lit l => intro o h; simp [tops] at h
  | var x => intro o h; simp [tops] at h
  | paren e ih => intro o h; simp [tops] at h
  | call f a ih =>
    intro o h
    simp only [tops, List.mem_cons] at h
    rcases h with rfl | h
    · exact .inl rfl
    · cases hb : needsParenArg a with
      | true => simp [hb] at h
      | false =>
        simp only [hb, Bool.false_eq_true, if_false] at h
        refine (ih o h).mono (by show 200 ≤ lb a; have := lb_of_arg hb; omega) ?_
        intro haa; have := lb_of_isAA haa; have := lb_of_arg hb; omega
  | neg e ih =>
    intro o h
    simp only [tops, List.mem_cons] at h
    rcases h with rfl | h
    · exact .inl (by decide)
    · cases hb : needsParenUnary e with
      | true => simp [hb] at h
      | false =>
        simp only [hb, Bool.false_eq_true, if_false] at h
        refine (ih o h).mono (by show 110 ≤ lb e; exact lb_of_unary hb) ?_
        intro haa; have := lb_of_isAA haa; have := lb_of_unary hb; omega
  | not e ih =>
    intro o h
    simp only [tops, List.mem_cons] at h
    rcases h with rfl | h
    · exact .inl (by decide)
    · cases hb : needsParenUnary e with
      | true => simp [hb] at h
      | false =>
        simp only [hb, Bool.false_eq_true, if_false] at h
        refine (ih o h).mono (by show 110 ≤ lb e; exact lb_of_unary hb) ?_
        intro haa; have := lb_of_isAA haa; have := lb_of_unary hb; omega
  | bin op l r ihl ihr =>
    intro o h
    simp only [tops, List.mem_append, List.mem_cons] at h
    have := docPrec_ge op
    rcases h with h | rfl | h
    · cases hb : needsParenLeft op l with
      | true => simp [hb] at h
      | false =>
        simp only [hb, Bool.false_eq_true, if_false] at h
        refine (ihl o h).mono (by show op.docPrec ≤ lb l; exact lb_of_left hb) ?_
        intro haa; have := lb_of_isAA haa; have := lb_of_left hb; omega
    · obtain ⟨h1, h2, h3, _⟩ := binop_facts op
      exact .inr (.inl ⟨h1, h2, by show op.docPrec ≤ _; omega⟩)
    · cases hb : needsParenRight op r with
      | true => simp [hb] at h
      | false =>
        simp only [hb, Bool.false_eq_true, if_false] at h
        refine (ihr o h).mono (by show op.docPrec ≤ lb r; have := lb_of_right hb; omega) ?_
        intro haa; have := lb_of_isAA haa; have := lb_of_right hb; omega
  | assign op x rhs ih =>
    intro o h
    simp only [tops, List.mem_cons] at h
    rcases h with rfl | h
    · obtain ⟨h1, h2, _, _, _, h6, h7⟩ := assignop_facts op
      by_cases hop : op = .assign
      · exact .inr (.inr ⟨h7 hop, by subst hop; rfl⟩)
      · refine .inr (.inl ⟨h1, ?_, ?_⟩)
        · cases hl : op.toOperator.isLeftToRight with
          | true => rfl
          | false => exact absurd (h6.mp hl) hop
        · rw [h2]; cases op <;> simp [lb] at hop ⊢
    · cases hb : needsParenRhs op rhs with
      | true => simp [hb] at h
      | false =>
        simp only [hb, Bool.false_eq_true, if_false] at h
        refine (ih o h).mono ?_ ?_
        · have := lb_of_rhs hb
          cases op <;> first | (show 51 ≤ lb rhs; omega) | (show 50 ≤ lb rhs; omega)
        · intro haa
          cases rhs with
          | assign op' x' rhs' =>
            cases op' <;> cases op <;> simp [isAA, needsParenRhs] at haa hb ⊢
          | _ => simp [isAA] at haa

/-! ### the four local facts: an unparenthesised operand's operators descend through the frame of
the operator above it -/

theorem descends_of_unary (s o : Operator) (b : Bool) (h : o.isUnary = true) :
    descends s o b = true := by simp [descends, h]

theorem descends_of_lt (s o : Operator) (b : Bool) (h : s.precedence < o.precedence) :
    descends s o b = true := by simp [descends, h]

theorem nonunary_ne_110 (o : Operator) (h : o.isUnary = false) : o.precedence ≠ 110 := by
  have : ∀ k : OpKind, k.isUnary = false → k.precedence ≠ 110 := by
    intro k; cases k <;> decide
  exact this o.kind h

theorem below_right {op : BinOp} {r : Expr} (h : needsParenRight op r = false) :
    ∀ o ∈ tops r, descends op.toOperator o false = true := by
  intro o ho
  obtain ⟨_, _, h3, _⟩ := binop_facts op
  have hlb := lb_of_right h
  rcases tops_ok r o ho with hu | ⟨_, _, h3'⟩ | ⟨_, haa⟩
  · exact descends_of_unary _ _ _ hu
  · exact descends_of_lt _ _ _ (by omega)
  · have := lb_of_isAA haa; have := docPrec_ge op; omega

theorem below_unary {e : Expr} (h : needsParenUnary e = false) (s : Operator)
    (hs : s.precedence = 110) : ∀ o ∈ tops e, descends s o false = true := by
  intro o ho
  have hlb := lb_of_unary h
  rcases tops_ok e o ho with hu | ⟨h1, _, h3'⟩ | ⟨_, haa⟩
  · exact descends_of_unary _ _ _ hu
  · have := nonunary_ne_110 o h1
    exact descends_of_lt _ _ _ (by omega)
  · have := lb_of_isAA haa; omega

theorem below_fn {a : Expr} (h : needsParenArg a = false) (f : Str) :
    ∀ o ∈ tops a, descends (.fn f) o false = true := by
  intro o ho
  have hlb := lb_of_arg h
  rcases tops_ok a o ho with hu | ⟨h1, _, h3'⟩ | ⟨_, haa⟩
  · exact descends_of_unary _ _ _ hu
  · exact descends_of_lt _ _ _ (by show 190 < _; omega)
  · have := lb_of_isAA haa; omega

theorem below_assign {op : AssignOp} {rhs : Expr} (h : needsParenRhs op rhs = false) :
    ∀ o ∈ tops rhs, descends op.toOperator o false = true := by
  intro o ho
  obtain ⟨_, h2, _, _, _, h6, _⟩ := assignop_facts op
  have hlb := lb_of_rhs h
  rcases tops_ok rhs o ho with hu | ⟨h1, _, h3'⟩ | ⟨hk, haa⟩
  · exact descends_of_unary _ _ _ hu
  · exact descends_of_lt _ _ _ (by omega)
  · have hop : op = .assign := by
      cases rhs with
      | assign op' x' rhs' =>
        cases op' <;> cases op <;> simp [isAA, needsParenRhs] at haa h ⊢
      | _ => simp [isAA] at haa
    have hl := h6.mpr hop
    have hop' : o.precedence = 50 := by simp [Operator.precedence, hk, OpKind.precedence]
    have hol : o.isLeftToRight = false := by simp [Operator.isLeftToRight, hk, OpKind.isLeftToRight]
    simp [descends, h2, hop', hl, hol]

end Evalexpr.Spec
