/-
Proofs/SerdeRoundtrip.lean — property C16: values and contexts survive the serde round trip
(functions are skipped), and deserializing a `Node` is `build_operator_tree`.
-/
import EvalexprVerif.Model.Serde
import EvalexprVerif.Spec.RefCtx

namespace Evalexpr.Spec
open Evalexpr

/-! ### values -/

mutual
theorem ofData_toData : ∀ v : Value, Value.ofData v.toData = some v
  | .string s => by simp [Value.toData, Value.ofData]
  | .float f => by simp [Value.toData, Value.ofData]
  | .int i => by simp [Value.toData, Value.ofData]
  | .boolean b => by simp [Value.toData, Value.ofData]
  | .tuple t => by simp [Value.toData, Value.ofData, ofDataList_toDataList t]
  | .empty => by simp [Value.toData, Value.ofData]
theorem ofDataList_toDataList : ∀ vs : List Value, Value.ofDataList (Value.toDataList vs) = some vs
  | [] => by simp [Value.toDataList, Value.ofDataList]
  | v :: vs => by
    simp [Value.toDataList, Value.ofDataList, ofData_toData v, ofDataList_toDataList vs]
end

/-- every value (nested tuples by induction, floats carried as f64, so bit-exact) survives the
round trip -/
theorem C16_value (v : Value) : Value.ofData v.toData = some v := ofData_toData v

/-! ### contexts -/

theorem ainsert_fresh {β : Type} (k : Str) (v : β) :
    ∀ acc : List (Str × β), (∀ p ∈ acc, p.1 ≠ k) → ainsert k v acc = acc ++ [(k, v)]
  | [], _ => rfl
  | (k', v') :: rest, h => by
    have hk : k' ≠ k := h (k', v') (List.mem_cons_self ..)
    have hrest : ∀ p ∈ rest, p.1 ≠ k := fun p hp => h p (List.mem_cons_of_mem _ hp)
    simp [ainsert, hk, ainsert_fresh k v rest hrest]

theorem varsOfData_varsToData :
    ∀ (l acc : List (Str × Value)), keysNodup l → (∀ p ∈ l, ∀ q ∈ acc, q.1 ≠ p.1) →
      varsOfData (varsToData l) acc = some (acc ++ l)
  | [], acc, _, _ => by simp [varsToData, varsOfData]
  | (k, v) :: rest, acc, hnd, hdis => by
    have hfresh : ∀ q ∈ acc, q.1 ≠ k := fun q hq => hdis (k, v) (List.mem_cons_self ..) q hq
    simp only [varsToData, varsOfData, C16_value, ainsert_fresh k v acc hfresh]
    rw [varsOfData_varsToData rest (acc ++ [(k, v)]) hnd.2]
    · simp
    · intro p hp q hq
      rcases List.mem_append.1 hq with hq | hq
      · exact hdis p (List.mem_cons_of_mem _ hp) q hq
      · simp only [List.mem_singleton] at hq
        subst hq
        exact fun heq => hnd.1 p hp heq.symm

/-- a context round-trips to a context with identical variables and builtin switch, and without
functions -/
theorem C16_context (h : HashMapCtx) (hinv : HashMapCtx.Inv h) :
    HashMapCtx.ofData h.toData = some { vars := h.vars, funs := [], noBuiltins := h.noBuiltins } := by
  have hv := varsOfData_varsToData h.vars [] hinv.1 (by simp)
  simp only [List.nil_append] at hv
  simp [HashMapCtx.toData, HashMapCtx.ofData, hv]

/-- after the round trip no user function resolves -/
theorem C16_nofun (h h' : HashMapCtx) (hinv : HashMapCtx.Inv h) (hr : HashMapCtx.ofData h.toData = some h')
    (id : Str) :
    Ctx.userFn (.hashMap h') id = none ∧
      (∀ k, Ctx.getValue (.hashMap h') k = Ctx.getValue (.hashMap h) k) ∧
      h'.noBuiltins = h.noBuiltins := by
  rw [C16_context h hinv] at hr
  cases hr
  exact ⟨rfl, fun _ => rfl, rfl⟩

/-- deserializing an expression from a string is precompiling that string (same tree, same
error) -/
theorem C16_node (s : List Char) : deserializeNode s = buildOperatorTree s := rfl

end Evalexpr.Spec
