/-
Proofs/ParseSeqExpr.lean — the expression-level result of `ParseExpr.lean` (`parse_main`) lifted to
an element of a sequence (part of the proof of C05): the root `r` of the element that is currently
parsed is either the top of the stack itself, or the last child of the open tuple/chain node on top
of the stack. Both situations are captured by a context `K : Node → Node` with `pushNode` acting on
`K r` as `insertBackPrioritized` acts on `r` (`KOK`). The induction is the one of `parse_main`,
with `K (openS R F)` in place of `openS R F`.
-/
import EvalexprVerif.Proofs.ParseExpr

namespace Evalexpr.Spec
open Evalexpr

/-- `K r` is a top of the stack in which `pushNode` inserts into `r` -/
def KOK (K : Node → Node) : Prop :=
  ∀ (rest : List Node) (r node r' : Node), r.op.isSequence = false →
    r.insertBackPrioritized node true = .ok r' → pushNode rest (K r) node = .ok (K r' :: rest)

theorem KOK_id : KOK id := by
  intro rest r node r' hr hins
  simp [pushNode, hr, hins]

/-- the element root as the last child of an open sequence node -/
def seqCtx (op : Operator) (pre : List Node) : Node → Node := fun r => ⟨op, pre ++ [r]⟩

theorem KOK_seq (op : Operator) (pre : List Node) (h : op.isSequence = true) :
    KOK (seqCtx op pre) := by
  intro rest r node r' _ hins
  simp [pushNode, seqCtx, h, hins]

/-! ### single steps of the token loop -/

theorem step_pushK {K : Node → Node} (hK : KOK K) (tok : Token) (ts : List Token) (top : Node)
    (rest : List Node) (lr li : Bool) (node top' : Node)
    (hj : juxtaposed lr li tok = false)
    (ht : tokenToNode (K top :: rest) lr tok ts.head? = .ok (some node, K top :: rest))
    (hns : node.op.isSequence = false) (hts : top.op.isSequence = false)
    (hins : top.insertBackPrioritized node true = .ok top') :
    treeLoop (tok :: ts) (K top :: rest) lr li
      = treeLoop ts (K top' :: rest) tok.isRightsidedValue tok.isIdentifier := by
  simp [treeLoop, treeStep, hj, ht, hns, hK rest top node top' hts hins]

/-- `)` closing a level whose stack part `st` collapses to the level root `lv` -/
theorem step_rBrace_gen {K : Node → Node} (hK : KOK K) (ts : List Token) (st : List Node)
    (lv top top' : Node) (rest : List Node) (lr li : Bool)
    (hne : st ≠ [])
    (hc : collapseAllSequences (st ++ K top :: rest) = .ok (lv :: K top :: rest))
    (hlv : lv.op.isSequence = false)
    (hts : top.op.isSequence = false)
    (hins : top.insertBackPrioritized lv true = .ok top') :
    treeLoop (.rBrace :: ts) (st ++ K top :: rest) lr li
      = treeLoop ts (K top' :: rest) true false := by
  have hj : juxtaposed lr li .rBrace = false := by
    simp [juxtaposed, Token.isNot, Token.isLeftsidedValue]
  have hlen : ¬ (st ++ K top :: rest).length ≤ 1 := by
    cases st with
    | nil => exact absurd rfl hne
    | cons a st => simp
  have hk : tokenToNode (st ++ K top :: rest) lr .rBrace ts.head?
      = .ok (some lv, K top :: rest) := by
    simp only [tokenToNode, hlen, if_false, hc]
  simp [treeLoop, treeStep, hj, hk, hlv, hK rest top lv top' hts hins, Token.isRightsidedValue,
    Token.isIdentifier]

theorem step_rBraceK {K : Node → Node} (hK : KOK K) (ts : List Token) (t top top' : Node)
    (rest : List Node) (lr li : Bool)
    (hts : top.op.isSequence = false)
    (hins : top.insertBackPrioritized ⟨.rootNode, [t]⟩ true = .ok top') :
    treeLoop (.rBrace :: ts) (⟨.rootNode, [t]⟩ :: K top :: rest) lr li
      = treeLoop ts (K top' :: rest) true false := by
  have hc : collapseAllSequences ([⟨.rootNode, [t]⟩] ++ K top :: rest)
      = .ok (⟨.rootNode, [t]⟩ :: K top :: rest) := by
    simp [collapseAllSequences, collapseAllLoop, Operator.isRoot, Operator.kind,
      Node.hasTooManyChildren, Operator.maxArgumentAmount, OpKind.maxArgumentAmount]
  exact step_rBrace_gen hK ts [⟨.rootNode, [t]⟩] _ top top' rest lr li (by simp) hc rfl hts hins

/-! ### the induction -/

/-- `Goal` of `ParseExpr.lean` under a context `K` -/
def GoalK (e : Expr) : Prop :=
  ∀ (K : Node → Node), KOK K →
  ∀ (F : List Frame) (rest : List Node) (suf : List Token) (lr li : Bool),
    FOK F → Adm F e → (lr = false ∨ (li = true ∧ e.headPrec = none)) → okNext suf →
    treeLoop (render e ++ suf) (K (openS R F) :: rest) lr li
      = treeLoop suf (K (plug (R :: F) (toTree e)) :: rest) true false

theorem operandK {e : Expr} (ih : GoalK e) (b : Bool) {K : Node → Node} (hK : KOK K)
    (F : List Frame) (rest : List Node)
    (suf : List Token) (lr li : Bool) (hF : FOK F) (hadm : b = false → Adm F e)
    (hs : lr = false ∨ (li = true ∧ (b = true ∨ e.headPrec = none))) (hn : okNext suf) :
    treeLoop (wrap b (render e) ++ suf) (K (openS R F) :: rest) lr li
      = treeLoop suf (K (plug (R :: F) (wrapTree b (toTree e))) :: rest) true false := by
  cases b with
  | false =>
    simp only [wrap, wrapTree, Bool.false_eq_true, if_false]
    refine ih K hK F rest suf lr li hF (hadm rfl) ?_ hn
    rcases hs with h | ⟨h1, h2⟩
    · exact .inl h
    · exact .inr ⟨h1, by simpa using h2⟩
  | true =>
    simp only [wrap, wrapTree, if_true, List.cons_append, List.append_assoc, List.nil_append]
    rw [step_lBrace _ _ _ _ (by rcases hs with h | ⟨h, _⟩ <;> simp [h])]
    have := ih id KOK_id [] (K (openS R F) :: rest) (.rBrace :: suf) false false
      (by intro f hf; cases hf)
      (Adm.nil e) (.inl rfl) (by intro t ht; simp at ht; subst ht; exact ⟨rfl, rfl⟩)
    simp only [id] at this
    rw [this]
    simp only [plug, R, List.nil_append]
    exact step_rBraceK hK suf (toTree e) (openS R F) _ rest true false (openS_R_seq F)
      (ins_atom hF _ rfl)

theorem parseK_lit (l : Lit) : GoalK (.lit l) := by
  intro K hK F rest suf lr li hF _ hs hn
  simp only [render, toTree, List.singleton_append]
  rw [step_pushK hK l.token suf (openS R F) rest lr li ⟨.const l.value, []⟩
    (plug (R :: F) ⟨.const l.value, []⟩)
    (juxt_leftsided hs _ (by cases l <;> rfl))
    (by cases l <;> rfl) rfl (openS_R_seq F) (ins_atom hF _ rfl)]
  cases l <;> rfl

theorem parseK_var (x : Str) : GoalK (.var x) := by
  intro K hK F rest suf lr li hF _ hs hn
  simp only [render, toTree, List.singleton_append]
  have hk : tokenToNode (K (openS R F) :: rest) lr (.identifier x) suf.head?
      = .ok (some ⟨.varRead x, []⟩, K (openS R F) :: rest) := by
    cases hh : suf.head? with
    | none => rfl
    | some t =>
      obtain ⟨h1, h2⟩ := hn t hh
      simp [tokenToNode, h1, h2, Node.new]
  rw [step_pushK hK (.identifier x) suf (openS R F) rest lr li ⟨.varRead x, []⟩
    (plug (R :: F) ⟨.varRead x, []⟩) (juxt_leftsided hs _ rfl) hk rfl (openS_R_seq F)
    (ins_atom hF _ rfl)]
  exact li_irrelevant suf _ _ hn

theorem parseK_paren (e : Expr) (ih : GoalK e) : GoalK (.paren e) := by
  intro K hK F rest suf lr li hF _ hs hn
  have := operandK ih true hK F rest suf lr li hF (by intro h; cases h)
    (by rcases hs with h | ⟨h, _⟩ <;> simp [h]) hn
  simpa [wrap, wrapTree, render, toTree] using this

theorem parseK_call (f : Str) (a : Expr) (ih : GoalK a) : GoalK (.call f a) := by
  intro K hK F rest suf lr li hF hadm hs hn
  simp only [render, toTree, List.cons_append]
  have harg : needsParenArg a = true ∨ a.headPrec = none := by
    cases h : needsParenArg a with
    | true => exact .inl rfl
    | false => right; simpa [needsParenArg] using h
  obtain ⟨t, ht, ht1, ht2⟩ := head_operand (needsParenArg a) a suf harg
  have hk : tokenToNode (K (openS R F) :: rest) lr (.identifier f)
      (wrap (needsParenArg a) (render a) ++ suf).head?
      = .ok (some ⟨.fn f, []⟩, K (openS R F) :: rest) := by
    simp [tokenToNode, ht, ht1, ht2, Node.new]
  rw [step_pushK hK (.identifier f) _ (openS R F) rest lr li ⟨.fn f, []⟩
    (openS R (F ++ [⟨.fn f, []⟩])) (juxt_leftsided hs _ rfl) hk rfl (openS_R_seq F)
    (by rw [openS_append]; exact ins_unary hF _ rfl)]
  show treeLoop _ _ true true = _
  rw [operandK ih (needsParenArg a) hK (F ++ [Frame.mk (.fn f) []]) rest suf true true
    (hF.snoc ⟨.fn f, []⟩ rfl (by show 190 < 200; omega)) ?_ (.inr ⟨rfl, harg⟩) hn]
  · rw [← List.cons_append, plug_append]; rfl
  · intro hb
    refine Adm.snoc ?_ _ (below_fn hb f)
    intro g hg o ho
    exact hadm g hg o (by simp [tops, hb, ho])

theorem parseK_prefix (tok : Token) (op : Operator) (e : Expr) (ih : GoalK e)
    (htok : ∀ st next, tokenToNode st false tok next = .ok (some ⟨op, []⟩, st))
    (hnot : ∀ li, juxtaposed false li tok = false)
    (hr : tok.isRightsidedValue = false)
    (hu : op.isUnary = true) (hp : op.precedence = 110)
    (hseq : op.isSequence = false) (hmax : op.maxArgumentAmount = some 1)
    {K : Node → Node} (hK : KOK K)
    (F : List Frame) (rest : List Node) (suf : List Token) (li : Bool)
    (hF : FOK F)
    (hadm : needsParenUnary e = false → Adm F e)
    (hn : okNext suf) :
    treeLoop (tok :: wrap (needsParenUnary e) (render e) ++ suf) (K (openS R F) :: rest) false li
      = treeLoop suf (K (plug (R :: F) ⟨op, [wrapTree (needsParenUnary e) (toTree e)]⟩) :: rest)
          true false := by
  rw [List.cons_append, step_pushK hK tok _ (openS R F) rest false li ⟨op, []⟩
    (openS R (F ++ [⟨op, []⟩])) (hnot li) (htok _ _) hseq (openS_R_seq F)
    (by rw [openS_append]; exact ins_unary hF _ hu)]
  rw [hr, operandK ih (needsParenUnary e) hK (F ++ [Frame.mk op []]) rest suf false tok.isIdentifier
    (hF.snoc ⟨op, []⟩ hmax (by show op.precedence < 200; omega)) ?_ (.inl rfl) hn]
  · rw [← List.cons_append, plug_append]; rfl
  · intro hb
    exact Adm.snoc (hadm hb) _ (below_unary hb op hp)

theorem parseK_neg (e : Expr) (ih : GoalK e) : GoalK (.neg e) := by
  intro K hK F rest suf lr li hF hadm hs hn
  have hlr : lr = false := by
    rcases hs with h | ⟨_, h⟩
    · exact h
    · simp [Expr.headPrec] at h
  subst hlr
  simp only [render, toTree]
  exact parseK_prefix .minus .neg e ih (fun _ _ => rfl) (fun _ => rfl) rfl rfl rfl rfl rfl hK
    F rest suf li hF
    (fun hb g hg o ho => hadm g hg o (by simp [tops, hb, ho])) hn

theorem parseK_not (e : Expr) (ih : GoalK e) : GoalK (.not e) := by
  intro K hK F rest suf lr li hF hadm hs hn
  have hlr : lr = false := by
    rcases hs with h | ⟨_, h⟩
    · exact h
    · simp [Expr.headPrec] at h
  subst hlr
  simp only [render, toTree]
  exact parseK_prefix .not .not e ih (fun _ _ => rfl) (fun _ => rfl) rfl rfl rfl rfl rfl hK
    F rest suf li hF
    (fun hb g hg o ho => hadm g hg o (by simp [tops, hb, ho])) hn

theorem parseK_bin (op : BinOp) (l r : Expr) (ihl : GoalK l) (ihr : GoalK r) :
    GoalK (.bin op l r) := by
  intro K hK F rest suf lr li hF hadm hs hn
  have hlr : lr = false := by
    rcases hs with h | ⟨_, h⟩
    · exact h
    · simp [Expr.headPrec] at h
  subst hlr
  obtain ⟨h1, h2, h3, h4, h5, h6⟩ := binop_facts op
  obtain ⟨k1, k2, k3, k4⟩ := binop_token_facts op
  simp only [render, toTree, List.append_assoc, List.cons_append]
  rw [operandK ihl (needsParenLeft op l) hK F rest _ false li hF
    (fun hb g hg o ho => hadm g hg o (by simp [tops, hb, ho])) (.inl rfl)
    (by intro t ht; simp at ht; subst ht; exact ⟨k4, k2⟩)]
  rw [step_pushK hK op.token _ _ rest true false (Node.new op.toOperator)
    (openS R (F ++ [⟨op.toOperator, [wrapTree (needsParenLeft op l) (toTree l)]⟩]))
    (by simp [juxtaposed, k1, k2]) (binop_token op _ _) h6 (plug_R_seq F _)
    (ins_binary hF _ _ (fun g hg => hadm g hg _ (by simp [tops])) (stop_left op l) h4 h5)]
  rw [k3, operandK ihr (needsParenRight op r) hK
    (F ++ [Frame.mk op.toOperator [wrapTree (needsParenLeft op l) (toTree l)]]) rest suf false _
    (hF.snoc ⟨op.toOperator, [wrapTree (needsParenLeft op l) (toTree l)]⟩ (by cases op <;> rfl)
      (by show op.toOperator.precedence < 200; rw [h3]; have := docPrec_le op; omega)) ?_ (.inl rfl) hn]
  · rw [← List.cons_append, plug_append]; rfl
  · intro hb
    refine Adm.snoc ?_ _ (below_right hb)
    intro g hg o ho
    exact hadm g hg o (by simp [tops, hb, ho])

theorem parseK_assign (op : AssignOp) (x : Str) (rhs : Expr) (ih : GoalK rhs) :
    GoalK (.assign op x rhs) := by
  intro K hK F rest suf lr li hF hadm hs hn
  obtain ⟨h1, h2, h3, h4, h5, h6, h7⟩ := assignop_facts op
  obtain ⟨k1, k2, k3, k4⟩ := assignop_token_facts op
  simp only [render, toTree, List.cons_append]
  have hk : tokenToNode (K (openS R F) :: rest) lr (.identifier x)
      (op.token :: (wrap (needsParenRhs op rhs) (render rhs) ++ suf)).head?
      = .ok (some ⟨.varWrite x, []⟩, K (openS R F) :: rest) := by
    simp [tokenToNode, k4, Node.new]
  rw [step_pushK hK (.identifier x) _ (openS R F) rest lr li ⟨.varWrite x, []⟩
    (plug (R :: F) ⟨.varWrite x, []⟩) (juxt_leftsided hs _ rfl) hk rfl (openS_R_seq F)
    (ins_atom hF _ rfl)]
  have hstop : descends (Operator.varWrite x) op.toOperator false = false := by
    simp only [descends, h1, h2]
    simp [Operator.precedence, Operator.kind, OpKind.precedence]
  rw [step_pushK hK op.token _ _ rest _ _ (Node.new op.toOperator)
    (openS R (F ++ [⟨op.toOperator, [⟨.varWrite x, []⟩]⟩]))
    (by simp [juxtaposed, k1, k2]) (assignop_token op _ _ _) h5 (plug_R_seq F _)
    (ins_binary hF _ _ (fun g hg => hadm g hg _ (by simp [tops])) hstop h3 h4)]
  rw [k3, operandK ih (needsParenRhs op rhs) hK
    (F ++ [Frame.mk op.toOperator [⟨.varWrite x, []⟩]]) rest suf false _
    (hF.snoc ⟨op.toOperator, [⟨.varWrite x, []⟩]⟩ (by cases op <;> rfl)
      (by show op.toOperator.precedence < 200; rw [h2]; omega)) ?_ (.inl rfl) hn]
  · rw [← List.cons_append, plug_append]; rfl
  · intro hb
    refine Adm.snoc ?_ _ (below_assign hb)
    intro g hg o ho
    exact hadm g hg o (by simp [tops, hb, ho])

theorem parse_mainK (e : Expr) : GoalK e := by
  induction e with
  | lit l => exact parseK_lit l
  | var x => exact parseK_var x
  | call f a ih => exact parseK_call f a ih
  | neg e ih => exact parseK_neg e ih
  | not e ih => exact parseK_not e ih
  | bin op l r ihl ihr => exact parseK_bin op l r ihl ihr
  | assign op x rhs ih => exact parseK_assign op x rhs ih
  | paren e ih => exact parseK_paren e ih

end Evalexpr.Spec
