/-
Proofs/LexExtParts.lean — helper for `LexExt`: the partial tokens of a `PrintableX` token (a float
written with a signed exponent is three partial tokens: `<mantissa>e`, sign, `<digits>`), the
partial tokens of a rendering (`partialsX`) and phase 1 (`lexNormal` maps a rendering to
`partialsX`).
-/
import EvalexprVerif.Spec.LexExt
import EvalexprVerif.Proofs.Literals

namespace Evalexpr.Spec
open Evalexpr

/-! ### the shape of a signed-exponent float text -/

theorem isSignedFloatText_cases (w : Str) (h : isSignedFloatText w = true) :
    ∃ m e s ex, w = m ++ e :: s :: ex ∧ isMantissa m = true ∧ (e = 'e' ∨ e = 'E') ∧
      (s = '+' ∨ s = '-') ∧ isDigits ex = true := by
  unfold isSignedFloatText at h
  rcases splitExp_cases w with hs | ⟨m, e, ex, hw, he, hs⟩
  · rw [hs] at h; cases h
  · rw [hs] at h
    cases ex with
    | nil => cases h
    | cons s ex =>
      simp only [Bool.and_eq_true, Bool.or_eq_true, beq_iff_eq] at h
      exact ⟨m, e, s, ex, hw, h.1.1, he, h.1.2, h.2⟩

theorem signfree_mantissaE (m : Str) (e : Char) (hm : isMantissa m = true) (he : e = 'e' ∨ e = 'E') :
    ∀ c ∈ m ++ [e], ¬ isSignChar c = true :=
  not_isSignChar_of_isWord _ (mantissaE_word m e hm he).1

/-- a word (no sign character) is not a signed-exponent float text -/
theorem isSignedFloatText_of_isWord (w : Str) (hw : isWord w = true) :
    isSignedFloatText w = false := by
  cases h : isSignedFloatText w
  · rfl
  · exfalso
    obtain ⟨m, e, s, ex, rfl, -, -, hs, -⟩ := isSignedFloatText_cases w h
    exact not_isSignChar_of_isWord _ hw s (by simp) ((isSignChar_iff s).2 hs)

/-! ### partial tokens of a `PrintableX` token -/

/-- a text split at its first sign character -/
def signedPartials (w : Str) : List PartialToken :=
  match w.dropWhile (fun c => !isSignChar c) with
  | s :: b => [.literal (w.takeWhile (fun c => !isSignChar c)), charToPartialToken s, .literal b]
  | [] => [.literal w]

theorem signedPartials_eq (a b : Str) (s : Char) (ha : ∀ c ∈ a, ¬ isSignChar c = true)
    (hs : isSignChar s = true) :
    signedPartials (a ++ s :: b) = [.literal a, charToPartialToken s, .literal b] := by
  have hpos : ∀ c ∈ a, (fun c => !isSignChar c) c = true := by
    intro c hc; simpa using ha c hc
  have h1 : (a ++ s :: b).takeWhile (fun c => !isSignChar c) = a := by
    rw [List.takeWhile_append_of_pos hpos]; simp [hs]
  have h2 : (a ++ s :: b).dropWhile (fun c => !isSignChar c) = s :: b := by
    rw [List.dropWhile_append_of_pos hpos]; simp [hs]
  simp only [signedPartials, h1, h2]

theorem signedPartials_head (w : Str) : ∃ a t, signedPartials w = .literal a :: t := by
  unfold signedPartials
  split
  · exact ⟨_, _, rfl⟩
  · exact ⟨_, _, rfl⟩

/-- the partial tokens of one `PrintableX` token -/
def ptokPartialsX (p : PTok) : List PartialToken :=
  match p.tok with
  | .float _ => if isSignedFloatText p.text then signedPartials p.text else [.literal p.text]
  | _ => ptokPartials p

def partialsX : List (Gap × PTok) → Gap → List PartialToken
  | [], g => gapPartials g
  | (g', p) :: rest, g => gapPartials g' ++ ptokPartialsX p ++ partialsX rest g

theorem ptokPartialsX_of_printable (p : PTok) (hp : p.Printable) :
    ptokPartialsX p = ptokPartials p := by
  obtain ⟨tok, text⟩ := p
  cases tok <;> try rfl
  case float f =>
    simp only [PTok.Printable] at hp
    simp only [ptokPartialsX, isSignedFloatText_of_isWord text hp.1, Bool.false_eq_true, ↓reduceIte,
      ptokPartials]

/-- the sign character as a partial token -/
theorem sign_partial (s : Char) (hs : s = '+' ∨ s = '-') :
    ∃ sp : PartialToken, charToPartialToken s = sp ∧ isPlusOrMinus sp = true ∧ sp.display = [s] ∧
      (∀ l, sp ≠ .literal l) ∧ headLit [sp] = false := by
  rcases hs with rfl | rfl
  · exact ⟨.plus, rfl, rfl, rfl, (by intro l h; cases h), rfl⟩
  · exact ⟨.minus, rfl, rfl, rfl, (by intro l h; cases h), rfl⟩

/-- the data of a float token written with a signed exponent -/
theorem printableX_signed (p : PTok) (hs : isSignedFloatText p.text = true) (f : Float)
    (hf : p.tok = .float f) :
    ∃ m e s ex, p.text = m ++ e :: s :: ex ∧ isMantissa m = true ∧ (e = 'e' ∨ e = 'E') ∧
      (s = '+' ∨ s = '-') ∧ isDigits ex = true ∧
      ptokPartialsX p = [.literal (m ++ [e]), charToPartialToken s, .literal ex] := by
  obtain ⟨m, e, s, ex, ht, hm, he, hsg, hex⟩ := isSignedFloatText_cases p.text hs
  refine ⟨m, e, s, ex, ht, hm, he, hsg, hex, ?_⟩
  obtain ⟨tok, text⟩ := p
  simp only at hf ht hs
  subst hf
  simp only [ptokPartialsX, hs, ↓reduceIte]
  have e1 : text = (m ++ [e]) ++ s :: ex := by rw [ht]; simp
  rw [e1]
  exact signedPartials_eq _ _ _ (signfree_mantissaE m e hm he) ((isSignChar_iff s).2 hsg)

theorem PTok.PrintableX.text_ne_nil {p : PTok} (hp : p.PrintableX) : p.text ≠ [] := by
  rcases hp with hp | ⟨hs, -⟩
  · exact hp.text_ne_nil
  · intro h; rw [h] at hs; cases hs

/-! ### what a token's partial tokens start / end with -/

theorem headLit_ptokPartialsX (p : PTok) (hp : p.PrintableX) (acc : List PartialToken) :
    headLit ((ptokPartialsX p).reverse ++ acc) = isWordTok p.tok := by
  rcases hp with hp | ⟨hs, f, hf, -⟩
  · rw [ptokPartialsX_of_printable p hp]; exact headLit_ptokPartials p acc
  · obtain ⟨m, e, s, ex, -, -, -, -, -, hpx⟩ := printableX_signed p hs f hf
    rw [hpx, hf]; rfl

theorem head?_ptokPartialsX_eq (q : PTok) (l : List PartialToken)
    (h : (ptokPartialsX q ++ l).head? = some .eq) : startsWithEq q.tok = true := by
  obtain ⟨tok, text⟩ := q
  cases tok
  case float f =>
    exfalso
    simp only [ptokPartialsX] at h
    split at h
    · obtain ⟨a, t, ha⟩ := signedPartials_head text
      rw [ha] at h; simp at h
    · simp at h
  all_goals exact head?_ptokPartials_eq _ l h

/-- only a word token starts with a `.literal` partial token -/
theorem head?_ptokPartialsX_literal (q : PTok) (l : List PartialToken) (w' : Str)
    (h : (ptokPartialsX q ++ l).head? = some (.literal w')) : isWordTok q.tok = true := by
  obtain ⟨tok, text⟩ := q
  cases tok <;> first | rfl | (exfalso; simp [ptokPartialsX, ptokPartials] at h)

theorem ptokPartialsX_sign_literal (q : PTok) (m : List PartialToken) (a : PartialToken) (w' : Str)
    (h1 : (ptokPartialsX q ++ m).head? = some a)
    (h2 : (ptokPartialsX q ++ m).tail.head? = some (.literal w'))
    (hpm : isPlusOrMinus a = true) : isSign q.tok = true ∧ m.head? = some (.literal w') := by
  obtain ⟨tok, text⟩ := q
  cases tok
  case float f =>
    exfalso
    simp only [ptokPartialsX] at h1
    split at h1
    · obtain ⟨a', t, ha⟩ := signedPartials_head text
      rw [ha] at h1; simp at h1; subst h1; simp [isPlusOrMinus] at hpm
    · simp at h1; subst h1; simp [isPlusOrMinus] at hpm
  all_goals exact ptokPartials_sign_literal _ m a w' h1 h2 hpm

theorem partialsX_cases (rest : List (Gap × PTok)) (g : Gap) :
    partialsX rest g = [] ∨ (∃ m, partialsX rest g = .whitespace :: m) ∨
    ∃ q rest', rest = ([], q) :: rest' ∧ partialsX rest g = ptokPartialsX q ++ partialsX rest' g := by
  cases rest with
  | nil =>
    by_cases hg : g = []
    · left; simp [partialsX, gapPartials, hg]
    · right; left
      obtain ⟨m, hm⟩ := gapPartials_ne_nil g hg []
      exact ⟨m, by simpa [partialsX] using hm⟩
  | cons r rest' =>
    obtain ⟨g1, q⟩ := r
    by_cases hg : g1 = []
    · right; right
      subst hg
      exact ⟨q, rest', rfl, by simp [partialsX, gapPartials]⟩
    · right; left
      obtain ⟨m, hm⟩ := gapPartials_ne_nil g1 hg (ptokPartialsX q ++ partialsX rest' g)
      exact ⟨m, by simpa [partialsX] using hm⟩

/-! ### phase 1 -/

theorem lexNormal_ptokX (p : PTok) (hp : p.PrintableX) (rest : Str) (acc : List PartialToken)
    (hacc : headLit acc = true → isWordTok p.tok = false)
    (hsl : isSlash p.tok = true → rest.head? ≠ some '/' ∧ rest.head? ≠ some '*') :
    lexNormal (p.text ++ rest) acc = lexNormal rest ((ptokPartialsX p).reverse ++ acc) := by
  rcases hp with hp | ⟨hs, f, hf, -⟩
  · rw [ptokPartialsX_of_printable p hp]; exact lexNormal_ptok p hp rest acc hacc hsl
  · obtain ⟨m, e, s, ex, ht, hm, he, hsg, hex, hpx⟩ := printableX_signed p hs f hf
    obtain ⟨sp, hsp1, -, -, hsp4, hsp5⟩ := sign_partial s hsg
    have hacc' : headLit acc = false := by
      cases h : headLit acc
      · rfl
      · have := hacc h; rw [hf] at this; cases this
    have hs1 : s ≠ '"' := by rcases hsg with rfl | rfl <;> decide
    have hs2 : s ≠ '/' := by rcases hsg with rfl | rfl <;> decide
    have e1 : p.text ++ rest = (m ++ [e]) ++ (s :: (ex ++ rest)) := by rw [ht]; simp
    rw [hpx, e1, lexNormal_word _ (mantissaE_word m e hm he).1 _ acc hacc',
      lexNormal_cons_other s _ _ hs1 hs2, hsp1, pushPartial_of_nonlit _ _ hsp4,
      lexNormal_word ex (isWord_of_isDigits ex hex) rest _
        (by cases sp <;> first | rfl | exact absurd rfl (hsp4 _))]
    simp

theorem renderFrom_ne_nilX (ps : List (Gap × PTok)) (g : Gap) (hp : ∀ p ∈ ps, p.2.PrintableX)
    (h : ps ≠ []) : renderFrom ps g ≠ [] := by
  cases ps with
  | nil => exact absurd rfl h
  | cons q rest =>
    obtain ⟨g1, q⟩ := q
    have := (hp (g1, q) (by simp)).text_ne_nil
    simp [renderFrom, this]

theorem lexNormal_renderX (ps : List (Gap × PTok)) (g : Gap) (tail : Str)
    (hp : ∀ p ∈ ps, p.2.PrintableX) (ha : AdmissibleX ps g)
    (htail : ∀ p, ps.getLast? = some p → isSlash p.2.tok = true → g = [] →
      tail.head? ≠ some '/' ∧ tail.head? ≠ some '*')
    (acc : List PartialToken) (hacc : AccOK acc ps) :
    lexNormal (renderFrom ps g ++ tail) acc = lexNormal tail ((partialsX ps g).reverse ++ acc) := by
  induction ps generalizing acc with
  | nil =>
    simp only [renderFrom, partialsX, gapPartials_reverse]
    exact lexNormal_gap g ha tail acc
  | cons gp rest ih =>
    obtain ⟨g0, p⟩ := gp
    have hpp : p.PrintableX := hp (g0, p) (by simp)
    have hprest : ∀ q ∈ rest, q.2.PrintableX := fun q hq => hp q (by simp [hq])
    obtain ⟨hv, hfuse, hslash, harest⟩ := ha
    simp only [renderFrom, partialsX, List.append_assoc, List.reverse_append, gapPartials_reverse]
    rw [lexNormal_gap g0 hv, lexNormal_ptokX p hpp, ih hprest harest]
    · -- htail for rest
      intro q hq
      apply htail q
      cases rest with
      | nil => simp at hq
      | cons r rest' => simpa [List.getLast?_cons_cons] using hq
    · -- AccOK for rest
      cases rest with
      | nil => trivial
      | cons r rest' =>
        obtain ⟨g1, q⟩ := r
        simp only [AccOK, headLit_ptokPartialsX p hpp]
        intro hw
        cases hq : isWordTok q.tok with
        | false => exact Or.inr rfl
        | true => exact Or.inl (hfuse.1 (by simp [fuses, hw, hq]))
    · -- literal condition for p
      rw [headLit_gapPartials]
      intro h
      simp only [Bool.and_eq_true, List.isEmpty_iff] at h
      rcases hacc h.2 with h' | h'
      · exact absurd h.1 h'
      · exact h'
    · -- slash condition for p
      intro hs
      have hs' := hslash hs
      by_cases hr : renderFrom rest g = []
      · rw [hr, List.nil_append]
        have hrest : rest = [] := by
          apply Classical.byContradiction
          intro hne
          exact renderFrom_ne_nilX rest g hprest hne hr
        subst hrest
        have hg : g = [] := by
          apply Classical.byContradiction
          intro hne
          exact Gap.text_ne_nil g hne hr
        exact htail (g0, p) (by simp) hs hg
      · cases hx : renderFrom rest g with
        | nil => exact absurd hx hr
        | cons c cs => rw [hx] at hs'; simpa using hs'

theorem strToPartialTokens_renderX (ps : List (Gap × PTok)) (g : Gap)
    (hp : ∀ p ∈ ps, p.2.PrintableX) (ha : AdmissibleX ps g) :
    strToPartialTokens (renderFrom ps g) = .ok (partialsX ps g) := by
  have := lexNormal_renderX ps g [] hp ha (by intro p _ _ _; simp) []
    (by cases ps with
        | nil => trivial
        | cons r _ => obtain ⟨g0, p⟩ := r; intro h; simp [headLit] at h)
  simpa [strToPartialTokens, lexNormal_nil] using this

end Evalexpr.Spec
