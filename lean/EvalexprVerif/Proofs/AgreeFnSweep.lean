/-
Proofs/AgreeFnSweep.lean — phase 6, the remaining API projections as translated on this run (`Generated/FnSweep.lean`):
the `Value::is_*` predicates, the remaining `From<…> for Value` impls, the four `TryFrom<Value> for …` impls
(src/value/mod.rs), and — see the second half — the identifier iterators of src/tree/mod.rs.
The Model has no named counterpart for most of these projections: each theorem states the obvious equation over the
Model's `Value` (what the harness checks for the API).
-/
import EvalexprVerif.Generated.FnSweep
import EvalexprVerif.Translate.Lemmas
import EvalexprVerif.Model.Iter
import EvalexprVerif.Model.Serde
import EvalexprVerif.Proofs.Iterators
import EvalexprVerif.Proofs.AgreeFnIter
import EvalexprVerif.Proofs.AgreeFnInterface

set_option linter.unusedSimpArgs false

namespace Evalexpr.AgreeFn
open Evalexpr

/-! ### `Value::is_*` -/
theorem fn_Value_is_string_agree (v : Value) : Gen.Value.is_string v = (match v with | .string _ => true | _ => false) := by
  cases v <;> rfl
theorem fn_Value_is_int_agree (v : Value) : Gen.Value.is_int v = (match v with | .int _ => true | _ => false) := by
  cases v <;> rfl
theorem fn_Value_is_float_agree (v : Value) : Gen.Value.is_float v = (match v with | .float _ => true | _ => false) := by
  cases v <;> rfl
theorem fn_Value_is_number_agree (v : Value) :
    Gen.Value.is_number v = (match v with | .int _ | .float _ => true | _ => false) := by cases v <;> rfl
theorem fn_Value_is_boolean_agree (v : Value) : Gen.Value.is_boolean v = (match v with | .boolean _ => true | _ => false) := by
  cases v <;> rfl
theorem fn_Value_is_tuple_agree (v : Value) : Gen.Value.is_tuple v = (match v with | .tuple _ => true | _ => false) := by
  cases v <;> rfl
theorem fn_Value_is_empty_agree (v : Value) : Gen.Value.is_empty v = (match v with | .empty => true | _ => false) := by
  cases v <;> rfl
/-- the predicates are the tests on the Model's `Value.type` -/
theorem fn_Value_is_agree_type (v : Value) :
    Gen.Value.is_string v = (v.type == .string) ∧ Gen.Value.is_int v = (v.type == .int) ∧
    Gen.Value.is_float v = (v.type == .float) ∧ Gen.Value.is_boolean v = (v.type == .boolean) ∧
    Gen.Value.is_tuple v = (v.type == .tuple) ∧ Gen.Value.is_empty v = (v.type == .empty) ∧
    Gen.Value.is_number v = (v.type == .int || v.type == .float) := by
  cases v <;> exact ⟨rfl, rfl, rfl, rfl, rfl, rfl, rfl⟩

/-! ### the remaining `From` impls -/
theorem fn_Value_from_TupleType_agree (t : List Value) : Gen.Value.from_TupleType t = .tuple t := rfl
theorem fn_EvalexprResultValue_from_Value_agree (v : Value) : Gen.EvalexprResultValue.from_Value v = .ok v := rfl
theorem fn_Value_from_Unit_agree (u : Unit) : Gen.Value.from_Unit u = .empty := rfl

/-! ### `TryFrom<Value>`: the typed projections (the Model's `as*` accessors; `bool`, `()` likewise) -/
theorem fn_String_try_from_agree (v : Value) : Gen.String.try_from v = v.asString := by cases v <;> rfl
theorem fn_bool_try_from_agree (v : Value) : Gen.bool.try_from v = v.asBoolean := by cases v <;> rfl
theorem fn_TupleType_try_from_agree (v : Value) : Gen.TupleType.try_from v = v.asTuple := by cases v <;> rfl
theorem fn_Unit_try_from_agree (v : Value) : Gen.Unit.try_from v = v.asEmpty := by cases v <;> rfl

/-! ### the identifier iterators of src/tree/mod.rs

`Node::iter` / `Node::iter_operators_mut` are BOUNDARY calls here (mapped to the Model's `Node.iter` /
`Node.iterOperatorsMut`, the lists they yield; the step function `NodeIter::next` under them is translated and proved in
AgreeFnIter). What is translated and proved is the adaptor of each of the ten functions: which operators it keeps and what
it yields. An `impl Iterator` is the list of its items; the `_mut` variants also return `self` (unchanged). -/

theorem filterIdents_eq (k : IterKind) (ops : List Operator) (f : Operator → Option Str)
    (hf : ∀ o, f o = match o.ident with
      | some (c, id) => if k.keeps c then some id else none
      | none => none) : ops.filterMap f = filterIdents k ops := by
  unfold filterIdents
  congr 1
  funext o
  exact hf o

/-- unfold the adaptor; the kept operators are those the Model's `IterKind.keeps` keeps -/
macro "ident_iter" : tactic => `(tactic| (
  simp only [Gen.Node.iter_identifiers, Gen.Node.iter_identifiers_mut, Gen.Node.iter_variable_identifiers, Gen.Node.iter_variable_identifiers_mut, Gen.Node.iter_read_variable_identifiers, Gen.Node.iter_read_variable_identifiers_mut, Gen.Node.iter_write_variable_identifiers, Gen.Node.iter_write_variable_identifiers_mut, Gen.Node.iter_function_identifiers, Gen.Node.iter_function_identifiers_mut, Rs.filter_map, Node.iterIdents, Node.iterIdentsMut, List.filterMap_map]
  first
  | (apply filterIdents_eq; intro o; cases o <;> rfl)
  | (unfold filterIdents; rw [List.filterMap_map]; congr 1; funext nd; rcases nd with ⟨o, cs⟩; cases o <;> rfl)))

theorem fn_Node_iter_identifiers_agree (n : Node) :
    Gen.Node.iter_identifiers n = n.iterIdents .identifiers := by ident_iter
theorem fn_Node_iter_identifiers_mut_agree (n : Node) :
    (Gen.Node.iter_identifiers_mut n).1 = n.iterIdentsMut .identifiers ∧ (Gen.Node.iter_identifiers_mut n).2 = n := by
  refine ⟨?_, rfl⟩; ident_iter
theorem fn_Node_iter_variable_identifiers_agree (n : Node) :
    Gen.Node.iter_variable_identifiers n = n.iterIdents .variable := by ident_iter
theorem fn_Node_iter_variable_identifiers_mut_agree (n : Node) :
    (Gen.Node.iter_variable_identifiers_mut n).1 = n.iterIdentsMut .variable ∧ (Gen.Node.iter_variable_identifiers_mut n).2 = n := by
  refine ⟨?_, rfl⟩; ident_iter
theorem fn_Node_iter_read_variable_identifiers_agree (n : Node) :
    Gen.Node.iter_read_variable_identifiers n = n.iterIdents .readVariable := by ident_iter
theorem fn_Node_iter_read_variable_identifiers_mut_agree (n : Node) :
    (Gen.Node.iter_read_variable_identifiers_mut n).1 = n.iterIdentsMut .readVariable ∧ (Gen.Node.iter_read_variable_identifiers_mut n).2 = n := by
  refine ⟨?_, rfl⟩; ident_iter
theorem fn_Node_iter_write_variable_identifiers_agree (n : Node) :
    Gen.Node.iter_write_variable_identifiers n = n.iterIdents .writeVariable := by ident_iter
theorem fn_Node_iter_write_variable_identifiers_mut_agree (n : Node) :
    (Gen.Node.iter_write_variable_identifiers_mut n).1 = n.iterIdentsMut .writeVariable ∧ (Gen.Node.iter_write_variable_identifiers_mut n).2 = n := by
  refine ⟨?_, rfl⟩; ident_iter
theorem fn_Node_iter_function_identifiers_agree (n : Node) :
    Gen.Node.iter_function_identifiers n = n.iterIdents .function := by ident_iter
theorem fn_Node_iter_function_identifiers_mut_agree (n : Node) :
    (Gen.Node.iter_function_identifiers_mut n).1 = n.iterIdentsMut .function ∧ (Gen.Node.iter_function_identifiers_mut n).2 = n := by
  refine ⟨?_, rfl⟩; ident_iter

/-! ### phase 6: the two unit contexts' `default` (`EmptyContext`/`EmptyContextWithBuiltinFunctions` are modelled as `Unit`,
the state of `Ctx.empty` / `Ctx.emptyWithBuiltins`; see AgreeFnContext) -/
theorem fn_EmptyContext_default_agree : Gen.EmptyContext.default = () := rfl
theorem fn_EmptyContextWithBuiltinFunctions_default_agree : Gen.EmptyContextWithBuiltinFunctions.default = () := rfl

/-! ### phase 7: `Display for Value` (src/value/display.rs) = `Value.display`

`Gen.Value.fmt v` is the text `fmt` appends to the formatter. The `once`-flag loop is identified with the
Model's `displayList` through `sepList` (separator before every element but the first); the hypothesis of
`foldFor_sep` (one iteration = optional separator, then the element) is discharged by executing the generated
loop body, whatever its shape. -/
def sepList : Bool → List Value → Str
  | _, [] => []
  | once, v :: r => (if once then cl!", " else []) ++ v.display ++ sepList true r

theorem sepList_false_eq (l : List Value) : sepList false l = Value.displayList l := by
  induction l with
  | nil => simp [sepList, Value.displayList]
  | cons v r ih =>
    cases r with
    | nil => simp [sepList, Value.displayList]
    | cons w rest =>
      rw [Value.displayList, ← ih]
      simp [sepList, List.append_assoc]

theorem foldFor_sep {t : List Value} (f : {x // x ∈ t} → Str × Bool → Str × Bool)
    (hf : ∀ a out once, f a (out, once) = (out ++ (if once then cl!", " else []) ++ a.1.display, true))
    (l : List {x // x ∈ t}) (out : Str) (once : Bool) :
    (Rs.foldFor l (out, once) f).1 = out ++ sepList once (l.map Subtype.val) := by
  induction l generalizing out once with
  | nil => simp [Rs.foldFor, sepList]
  | cons a l ih => rw [Rs.foldFor, hf, ih]; simp [sepList, List.append_assoc]

theorem fn_Value_fmt_agree (v : Value) : Gen.Value.fmt v = Value.display v := by
  have IH : ∀ t, v = .tuple t → ∀ x ∈ t, Gen.Value.fmt x = x.display := fun t ht x hx => fn_Value_fmt_agree x
  cases v with
  | tuple t =>
    rw [Gen.Value.fmt]
    simp only [Rs.push_str_def, List.nil_append]
    rw [foldFor_sep _ _ _ _ _, List.attach_map_subtype_val, sepList_false_eq]
    · simp [Value.display]
    · rintro ⟨a, ha⟩ out once
      cases once <;> simp [IH t rfl a ha]
  | _ => simp [Gen.Value.fmt, Value.display, Rs.to_string, Rs.ToString.to_string]
termination_by sizeOf v
decreasing_by subst ht; exact Rs.value_lt hx

/-! ### phase 8: serde `visit_str` (src/feature_serde/mod.rs) = `deserializeNode` (Model/Serde.lean)
boundary: `E::custom(error)` ↦ `Rs.de_custom error` (the error is kept as `Err`, as in the Model) -/
theorem fn_NodeVisitor_visit_str_agree (s : Str) : Gen.NodeVisitor.visit_str () s = deserializeNode s := by
  simp only [Gen.NodeVisitor.visit_str, deserializeNode, fn_build_operator_tree_agree, Rs.de_custom]
  cases buildOperatorTree s <;> rfl

/-! ### phase 8: `Node::iter` / `Node::iter_operators_mut` (src/tree/iter.rs) = `Node.iter` / `Node.iterOperatorsMut`

The translated functions collect the translated `NodeIter::next` / `OperatorIterMut::next` to exhaustion
(`Rs.collect_iter`); with any fuel above the size of the tree the result is the Model's list. This puts a theorem
behind the phase-6 boundary entries `Node::iter ↦ Evalexpr.Node.iter`, `iter_operators_mut ↦ Evalexpr.Node.iterOperatorsMut`. -/
open Evalexpr.Spec in
theorem nodeIterNext_length : ∀ (rs : List (List Node)) (n : Node) (rs' : List (List Node)),
    nodeIterNext rs = some (n, rs') → rs'.length ≤ rs.length + 1
  | [], _, _, h => by simp [nodeIterNext] at h
  | [] :: st, n, st', h => by
    simp only [nodeIterNext] at h
    have := nodeIterNext_length st n st' h
    simp only [List.length_cons]; omega
  | (m :: rest) :: st, n, st', h => by
    simp only [nodeIterNext, Option.some.injEq, Prod.mk.injEq] at h
    obtain ⟨rfl, rfl⟩ := h
    simp

open Evalexpr.Spec in
theorem collect_iter_nodes (fuel0 : Nat) : ∀ (fuel : Nat) (rs : List (List Node)),
    stackSize rs < fuel → rs.length + stackSize rs < fuel0 →
    Rs.collect_iter (Gen.NodeIter.next fuel0) fuel ⟨rs.reverse⟩ = .ok (collectNodes fuel rs)
  | 0, _, h, _ => by omega
  | fuel + 1, rs, h, h0 => by
    rw [Rs.collect_iter, fn_NodeIter_next_agree rs fuel0 (by omega), collectNodes]
    cases hn : nodeIterNext rs with
    | none => rfl
    | some p =>
      obtain ⟨n, rs'⟩ := p
      have h1 := (nodeIterNext_some rs n rs' hn).2
      have h2 := nodeIterNext_length rs n rs' hn
      simp only []
      rw [collect_iter_nodes fuel0 fuel rs' (by omega) (by omega)]
      rfl

open Evalexpr.Spec in
theorem collect_iter_operators (fuel0 : Nat) : ∀ (fuel : Nat) (rs : List (List Node)),
    stackSize rs < fuel → rs.length + stackSize rs < fuel0 →
    Rs.collect_iter (Gen.OperatorIterMut.next fuel0) fuel ⟨rs.reverse⟩ = .ok (collectOperators fuel rs)
  | 0, _, h, _ => by omega
  | fuel + 1, rs, h, h0 => by
    rw [Rs.collect_iter, fn_OperatorIterMut_next_agree rs fuel0 (by omega), collectOperators, operatorIterMutNext_eq]
    cases hn : nodeIterNext rs with
    | none => rfl
    | some p =>
      obtain ⟨n, rs'⟩ := p
      have h1 := (nodeIterNext_some rs n rs' hn).2
      have h2 := nodeIterNext_length rs n rs' hn
      simp only [Option.map]
      rw [collect_iter_operators fuel0 fuel rs' (by omega) (by omega)]
      rfl

open Evalexpr.Spec in
theorem fn_Node_iter_agree (n : Node) (fuel : Nat) (h : n.size < fuel) : Gen.Node.iter fuel n = .ok n.iter := by
  have hs : stackSize [n.children] + 1 = n.size := by simp [stackSize, size_eq n]; omega
  rw [Gen.Node.iter, fn_NodeIter_new_agree, show [n.children] = [n.children].reverse from rfl,
    collect_iter_nodes fuel fuel [n.children] (by omega) (by simp only [List.length_cons, List.length_nil]; omega)]
  rw [Node.iter, collectNodes_eq fuel _ (by omega), collectNodes_eq _ _ (by omega)]

open Evalexpr.Spec in
theorem fn_Node_iter_operators_mut_agree (n : Node) (fuel : Nat) (h : n.size < fuel) :
    Gen.Node.iter_operators_mut fuel n = .ok n.iterOperatorsMut := by
  have hs : stackSize [n.children] + 1 = n.size := by simp [stackSize, size_eq n]; omega
  rw [Gen.Node.iter_operators_mut, fn_OperatorIterMut_new_agree, show [n.children] = [n.children].reverse from rfl,
    collect_iter_operators fuel fuel [n.children] (by omega) (by simp only [List.length_cons, List.length_nil]; omega)]
  rw [Node.iterOperatorsMut, collectOperators_eq, collectOperators_eq, collectNodes_eq fuel _ (by omega), collectNodes_eq _ _ (by omega)]

end Evalexpr.AgreeFn
