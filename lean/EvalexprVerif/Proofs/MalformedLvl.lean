/-
Proofs/MalformedLvl.lean — the root stack as a list of levels (data), the potential of a level
(missing operands + open operand position of the current item), and how pushes change it.
-/
import EvalexprVerif.Proofs.MalformedDefect

namespace Evalexpr.Spec
open Evalexpr

/-- one parenthesis level of the root stack -/
inductive Lvl where
  | r (R : Node)
  | t (T P : Node)
  | c (C P : Node)
  | tc (T C P : Node)

def Lvl.toList : Lvl → List Node
  | .r R => [R]
  | .t T P => [T, P]
  | .c C P => [C, P]
  | .tc T C P => [T, C, P]

def Lvl.top : Lvl → Node
  | .r R => R
  | .t T _ => T
  | .c C _ => C
  | .tc T _ _ => T

def Lvl.below : Lvl → List Node
  | .r _ => []
  | .t _ P => [P]
  | .c _ P => [P]
  | .tc _ C P => [C, P]

theorem Lvl.toList_eq (L : Lvl) : L.toList = L.top :: L.below := by cases L <;> rfl

def Lvl.WF : Lvl → Prop
  | .r R => R.op.kind = .rootNode
  | .t T P => T.op.kind = .tuple ∧ P.op.kind = .rootNode
  | .c C P => C.op.kind = .chain ∧ P.op.kind = .rootNode
  | .tc T C P => T.op.kind = .tuple ∧ C.op.kind = .chain ∧ P.op.kind = .rootNode

theorem Lvl.WF.level {L : Lvl} (h : L.WF) : StkLevel L.toList := by
  cases L with
  | r R => exact .r R h
  | t T P => exact .t T P h.1 h.2
  | c C P => exact .c C P h.1 h.2
  | tc T C P => exact .tc T C P h.1 h.2.1 h.2.2

/-- the open operand position of the last child (the current item of a sequence node) -/
def lastOpen (X : Node) : Nat :=
  match X.children.getLast? with
  | some I => openSlot I
  | none => 0

/-- is the current item of the level still empty? -/
def Lvl.open : Lvl → Nat
  | .r R => openSlot R
  | .t T _ => lastOpen T
  | .c C _ => lastOpen C
  | .tc T _ _ => lastOpen T

def Lvl.pot (L : Lvl) : Nat := defectList L.toList + L.open

theorem lastOpen_le (X : Node) : lastOpen X ≤ 1 := by
  unfold lastOpen; split
  · exact openSlot_le _
  · omega

theorem Lvl.open_le (L : Lvl) : L.open ≤ 1 := by
  cases L <;> simp only [Lvl.open] <;> first | exact openSlot_le _ | exact lastOpen_le _

theorem slot_none {op : Operator} (h : op.maxArgumentAmount = none) (k : Nat) : slot op k = 0 := by
  unfold slot; rw [h]

theorem slot_tuple {op : Operator} (h : op.kind = .tuple) (k : Nat) : slot op k = 0 :=
  slot_none (by simp [Operator.maxArgumentAmount, h, OpKind.maxArgumentAmount]) k
theorem slot_chain {op : Operator} (h : op.kind = .chain) (k : Nat) : slot op k = 0 :=
  slot_none (by simp [Operator.maxArgumentAmount, h, OpKind.maxArgumentAmount]) k
theorem slot_rootKind {op : Operator} (h : op.kind = .rootNode) (k : Nat) : slot op k = 0 :=
  slot_root (kind_root_isRoot h) k

theorem rootNode_defect : defect Node.rootNode = 0 := by
  rw [Node.rootNode, defect_mk, slot_rootKind rfl]; simp

theorem rootNode_open : openSlot Node.rootNode = 1 := rfl

theorem lastOpen_snoc (op : Operator) (l : List Node) (x : Node) :
    lastOpen ⟨op, l ++ [x]⟩ = openSlot x := by
  simp [lastOpen]

theorem lastOpen_snoc2 (op : Operator) (l : List Node) (y x : Node) :
    lastOpen ⟨op, l ++ [y, x]⟩ = openSlot x := by
  have : l ++ [y, x] = (l ++ [y]) ++ [x] := by simp
  rw [this, lastOpen_snoc]

theorem dropLast_getLast {α} (l : List α) (a : α) (h : l.getLast? = some a) :
    l.dropLast ++ [a] = l := by
  induction l with
  | nil => simp at h
  | cons x l ih =>
    cases l with
    | nil => simp at h; simp [h]
    | cons y l =>
      simp [List.getLast?_cons_cons] at h
      have := ih (by simpa using h)
      simp at this ⊢
      exact this

/-- pushing a node into the current item of a sequence node -/
theorem seqTop_push {X last last' node : Node} (hs : ∀ k, slot X.op k = 0)
    (hl : X.children.getLast? = some last)
    (hi : last.insertBackPrioritized node true = .ok last') :
    lastOpen ⟨X.op, X.children.dropLast ++ [last']⟩ = 0 ∧
    defect ⟨X.op, X.children.dropLast ++ [last']⟩ + 1 ≥ defect X + lastOpen X + defect node := by
  obtain ⟨h1, h2⟩ := insertBack_defect _ _ _ _ hi
  have hd : X.children.dropLast ++ [last] = X.children := dropLast_getLast _ last hl
  constructor
  · rw [lastOpen_snoc]; exact openSlot_nonempty h1
  · rw [defect_eq X, defect_mk, hs, hs]
    have : lastOpen X = openSlot last := by simp [lastOpen, hl]
    rw [this]
    conv => rhs; rw [← hd]
    simp only [defectList_append, defectList_cons, defectList_nil]
    omega

/-! ### pushing a non-sequence node -/

theorem pushNode_lvl {L : Lvl} (hL : L.WF) (s : List Node) (node : Node) :
    (∃ e, pushNode (L.below ++ s) L.top node = .error e) ∨
    (∃ L' : Lvl, L'.WF ∧ pushNode (L.below ++ s) L.top node = .ok (L'.toList ++ s) ∧
      L'.open = 0 ∧ L'.pot + 1 ≥ L.pot + defect node) := by
  cases L with
  | r R =>
    have hs : R.op.isSequence = false := kind_root_isSeq hL
    simp only [Lvl.toList, Lvl.top, Lvl.below, List.nil_append, pushNode, hs, Bool.false_eq_true,
      if_false]
    cases hi : R.insertBackPrioritized node true with
    | error e => exact .inl ⟨e, rfl⟩
    | ok R' =>
      obtain ⟨h1, h2⟩ := insertBack_defect _ _ _ _ hi
      refine .inr ⟨.r R', ?_, rfl, openSlot_nonempty h1, ?_⟩
      · show R'.op.kind = .rootNode
        rw [insertBack_op _ _ _ _ hi]; exact hL
      · simp only [Lvl.pot, Lvl.toList, Lvl.open, defectList_cons, defectList_nil,
          openSlot_nonempty h1]
        omega
  | t T P =>
    obtain ⟨h1, h2⟩ := hL
    simp only [Lvl.toList, Lvl.top, Lvl.below, pushNode, kind_tuple_isSeq h1, if_true]
    cases hl : T.children.getLast? with
    | none => exact .inl ⟨_, rfl⟩
    | some last =>
      cases hi : last.insertBackPrioritized node true with
      | error e => exact .inl ⟨e, by simp only [hi]⟩
      | ok last' =>
        obtain ⟨k1, k2⟩ := seqTop_push (slot_tuple h1) hl hi
        refine .inr ⟨.t ⟨T.op, T.children.dropLast ++ [last']⟩ P, ⟨h1, h2⟩, by simp only [hi]; rfl, k1, ?_⟩
        simp only [Lvl.pot, Lvl.toList, Lvl.open, defectList_cons, defectList_nil, k1]
        omega
  | c C P =>
    obtain ⟨h1, h2⟩ := hL
    simp only [Lvl.toList, Lvl.top, Lvl.below, pushNode, kind_chain_isSeq h1, if_true]
    cases hl : C.children.getLast? with
    | none => exact .inl ⟨_, rfl⟩
    | some last =>
      cases hi : last.insertBackPrioritized node true with
      | error e => exact .inl ⟨e, by simp only [hi]⟩
      | ok last' =>
        obtain ⟨k1, k2⟩ := seqTop_push (slot_chain h1) hl hi
        refine .inr ⟨.c ⟨C.op, C.children.dropLast ++ [last']⟩ P, ⟨h1, h2⟩, by simp only [hi]; rfl, k1, ?_⟩
        simp only [Lvl.pot, Lvl.toList, Lvl.open, defectList_cons, defectList_nil, k1]
        omega
  | tc T C P =>
    obtain ⟨h1, h2, h3⟩ := hL
    simp only [Lvl.toList, Lvl.top, Lvl.below, pushNode, kind_tuple_isSeq h1, if_true]
    cases hl : T.children.getLast? with
    | none => exact .inl ⟨_, rfl⟩
    | some last =>
      cases hi : last.insertBackPrioritized node true with
      | error e => exact .inl ⟨e, by simp only [hi]⟩
      | ok last' =>
        obtain ⟨k1, k2⟩ := seqTop_push (slot_tuple h1) hl hi
        refine .inr ⟨.tc ⟨T.op, T.children.dropLast ++ [last']⟩ C P, ⟨h1, h2, h3⟩, by simp only [hi]; rfl, k1, ?_⟩
        simp only [Lvl.pot, Lvl.toList, Lvl.open, defectList_cons, defectList_nil, k1]
        omega

end Evalexpr.Spec
