/-
Proofs/NearestArith.lean — the float-independent arithmetic core of `F64.roundRat`:
round-half-even of a / b minimises |a − k·b| over all naturals k (with the tie rule), and the
same on a grid of spacing 2^E.
-/
import EvalexprVerif.Spec.Nearest

namespace Evalexpr.Spec.Nearest

/-- round half to even of `a / b`, exactly as written inside `F64.roundRat` -/
def roundHE (a b : Nat) : Nat :=
  if 2 * (a % b) > b then a / b + 1
  else if 2 * (a % b) == b then (if a / b % 2 == 1 then a / b + 1 else a / b)
  else a / b

/-- |a − k·b| -/
def dist (a b k : Nat) : Nat := ((a : Int) - (k * b : Int)).natAbs

theorem roundHE_cases (a b : Nat) (_hb : 0 < b) :
    (roundHE a b = a / b ∧ 2 * (a % b) ≤ b ∧ (2 * (a % b) = b → a / b % 2 = 0)) ∨
    (roundHE a b = a / b + 1 ∧ b ≤ 2 * (a % b) ∧ (2 * (a % b) = b → a / b % 2 = 1)) := by
  unfold roundHE
  by_cases h1 : 2 * (a % b) > b
  · right; simp [h1]; omega
  · by_cases h2 : 2 * (a % b) = b
    · by_cases h3 : a / b % 2 = 1
      · right; simp [h2, h3]
      · left; simp [h2, h3]; omega
    · left; simp [h1, h2]; omega

theorem roundHE_ge (a b : Nat) (hb : 0 < b) : a / b ≤ roundHE a b := by
  rcases roundHE_cases a b hb with h | h <;> omega

theorem roundHE_le (a b : Nat) (hb : 0 < b) : roundHE a b ≤ a / b + 1 := by
  rcases roundHE_cases a b hb with h | h <;> omega

/-- Step 1: the half-even rounded quotient minimises `|a − k·b|` over all `k`. -/
theorem roundHE_min (a b : Nat) (hb : 0 < b) (k : Nat) :
    dist a b (roundHE a b) ≤ dist a b k := by
  have hdm : b * (a / b) + a % b = a := Nat.div_add_mod a b
  have hr : a % b < b := Nat.mod_lt a hb
  unfold dist
  generalize hq : a / b = q at *
  generalize hrr : a % b = r at *
  have hqb : (b : Int) * q + r = a := by exact_mod_cast hdm
  rcases Nat.lt_or_ge q k with hk | hk
  · -- k ≥ q + 1
    have h1 : (q + 1) * b ≤ k * b := Nat.mul_le_mul_right b hk
    have h1' : ((q : Int) + 1) * b ≤ k * b := by exact_mod_cast h1
    have e1 : ((q : Int) + 1) * b = b * q + b := by
      rw [Int.add_mul, Int.one_mul, Int.mul_comm]
    rcases roundHE_cases a b hb with ⟨h, h2, _⟩ | ⟨h, h2, _⟩
    · rw [hq] at h; rw [hrr] at h2; rw [h, Int.mul_comm (q : Int) b]; omega
    · rw [hq] at h; rw [hrr] at h2; rw [h]; push_cast; rw [e1]; omega
  · have h1 : k * b ≤ q * b := Nat.mul_le_mul_right b hk
    have h1' : (k : Int) * b ≤ q * b := by exact_mod_cast h1
    have e1 : ((q : Int) + 1) * b = b * q + b := by
      rw [Int.add_mul, Int.one_mul, Int.mul_comm]
    rcases roundHE_cases a b hb with ⟨h, h2, _⟩ | ⟨h, h2, _⟩
    · rw [hq] at h; rw [hrr] at h2; rw [h]; rw [Int.mul_comm (q : Int) b] at *; omega
    · rw [hq] at h; rw [hrr] at h2; rw [h]; push_cast; rw [e1]
      rw [Int.mul_comm (q : Int) b] at *; omega

/-- Step 1, tie rule: a different `k` at the same distance forces the rounded quotient to be even. -/
theorem roundHE_tie (a b : Nat) (hb : 0 < b) (k : Nat) (hne : k ≠ roundHE a b)
    (htie : dist a b k = dist a b (roundHE a b)) : roundHE a b % 2 = 0 := by
  have hdm : b * (a / b) + a % b = a := Nat.div_add_mod a b
  have hr : a % b < b := Nat.mod_lt a hb
  unfold dist at htie
  generalize hq : a / b = q at *
  generalize hrr : a % b = r at *
  have hqb : (b : Int) * q + r = a := by exact_mod_cast hdm
  have e1 : ((q : Int) + 1) * b = b * q + b := by
    rw [Int.add_mul, Int.one_mul, Int.mul_comm]
  rcases roundHE_cases a b hb with ⟨h, h2, h3⟩ | ⟨h, h2, h3⟩
  · rw [hq] at h h3; rw [hrr] at h2 h3; rw [h] at htie hne ⊢
    rcases Nat.lt_or_ge q k with hk | hk
    · have h1 : (q + 1) * b ≤ k * b := Nat.mul_le_mul_right b hk
      have h1' : ((q : Int) + 1) * b ≤ k * b := by exact_mod_cast h1
      rw [Int.mul_comm (q : Int) b] at *
      have : 2 * r = b := by omega
      exact h3 this
    · have hk' : k + 1 ≤ q := by omega
      have h1 : (k + 1) * b ≤ q * b := Nat.mul_le_mul_right b hk'
      have h1' : ((k : Int) + 1) * b ≤ q * b := by exact_mod_cast h1
      have e2 : ((k : Int) + 1) * b = k * b + b := by rw [Int.add_mul, Int.one_mul]
      rw [Int.mul_comm (q : Int) b] at *
      omega
  · rw [hq] at h h3; rw [hrr] at h2 h3; rw [h] at htie hne ⊢
    push_cast at htie; rw [e1] at htie
    rcases Nat.lt_or_ge k (q + 1) with hk | hk
    · have hk' : k ≤ q := by omega
      have h1 : k * b ≤ q * b := Nat.mul_le_mul_right b hk'
      have h1' : (k : Int) * b ≤ q * b := by exact_mod_cast h1
      rw [Int.mul_comm (q : Int) b] at *
      have : 2 * r = b := by omega
      have := h3 this
      omega
    · have hk' : q + 2 ≤ k := by omega
      have h1 : (q + 2) * b ≤ k * b := Nat.mul_le_mul_right b hk'
      have h1' : ((q : Int) + 2) * b ≤ k * b := by exact_mod_cast h1
      have e2 : ((q : Int) + 2) * b = b * q + 2 * b := by
        rw [Int.add_mul, Int.mul_comm (q : Int) b]
      omega

/-! ### the grid of spacing `2^E` -/

/-- |a·2^E − v·b| -/
def errp (a b E v : Nat) : Nat := ((a * 2 ^ E : Int) - (v * b : Int)).natAbs

theorem errp_grid (a b E k : Nat) : errp a b E (k * 2 ^ E) = 2 ^ E * dist a b k := by
  unfold errp dist
  have : ((a : Int) * 2 ^ E - ((k * 2 ^ E : Nat) : Int) * b) = ((2 ^ E : Nat) : Int) * ((a : Int) - k * b) := by
    push_cast
    rw [Int.mul_sub, Int.mul_comm (a : Int), Int.mul_assoc, Int.mul_left_comm]
  rw [this, Int.natAbs_mul, Int.natAbs_natCast]

/-- a value strictly below the bottom `2^52·2^E` of the binade is strictly farther than the
rounded grid point -/
theorem errp_below (a b E v : Nat) (hb : 0 < b) (hge : 2 ^ 52 ≤ a / b)
    (hv : v < 2 ^ 52 * 2 ^ E) : errp a b E (roundHE a b * 2 ^ E) < errp a b E v := by
  have h0 : errp a b E (roundHE a b * 2 ^ E) ≤ errp a b E (2 ^ 52 * 2 ^ E) := by
    rw [errp_grid, errp_grid]
    exact Nat.mul_le_mul_left _ (roundHE_min a b hb _)
  refine Nat.lt_of_le_of_lt h0 ?_
  have h1 : 2 ^ 52 * b ≤ a := (Nat.le_div_iff_mul_le hb).1 hge
  have h2 : 2 ^ 52 * 2 ^ E * b ≤ a * 2 ^ E := by
    rw [Nat.mul_right_comm]; exact Nat.mul_le_mul_right _ h1
  have h3 : v * b < 2 ^ 52 * 2 ^ E * b := Nat.mul_lt_mul_of_pos_right hv hb
  unfold errp
  have h2' : ((2 ^ 52 * 2 ^ E : Nat) : Int) * b ≤ (a : Int) * ((2 ^ E : Nat) : Int) := by
    exact_mod_cast h2
  have h3' : (v : Int) * b < ((2 ^ 52 * 2 ^ E : Nat) : Int) * b := by exact_mod_cast h3
  have e : ((2 : Int) ^ E) = ((2 ^ E : Nat) : Int) := by push_cast; rfl
  rw [e]
  omega

/-- every candidate value that is on the grid or below the binade is at least as far as the
rounded grid point -/
theorem errp_min (a b E v : Nat) (hb : 0 < b) (hge : 2 ^ 52 ≤ a / b ∨ E = 0)
    (hv : 2 ^ E ∣ v ∨ v < 2 ^ 52 * 2 ^ E) :
    errp a b E (roundHE a b * 2 ^ E) ≤ errp a b E v := by
  have grid : 2 ^ E ∣ v → errp a b E (roundHE a b * 2 ^ E) ≤ errp a b E v := by
    rintro ⟨k, rfl⟩
    rw [Nat.mul_comm (2 ^ E) k, errp_grid, errp_grid]
    exact Nat.mul_le_mul_left _ (roundHE_min a b hb _)
  rcases hv with hv | hv
  · exact grid hv
  · rcases hge with hge | hE
    · exact Nat.le_of_lt (errp_below a b E v hb hge hv)
    · subst hE; exact grid (by simp)

/-- tie rule on the grid -/
theorem errp_tie (a b E v : Nat) (hb : 0 < b) (hge : 2 ^ 52 ≤ a / b ∨ E = 0)
    (hv : 2 ^ E ∣ v ∨ v < 2 ^ 52 * 2 ^ E) (hne : v ≠ roundHE a b * 2 ^ E)
    (htie : errp a b E v = errp a b E (roundHE a b * 2 ^ E)) : roundHE a b % 2 = 0 := by
  have grid : 2 ^ E ∣ v → roundHE a b % 2 = 0 := by
    rintro ⟨k, rfl⟩
    rw [Nat.mul_comm (2 ^ E) k, errp_grid, errp_grid] at htie
    have hpos : 0 < 2 ^ E := Nat.pow_pos (by decide)
    have htie' := Nat.eq_of_mul_eq_mul_left hpos htie
    refine roundHE_tie a b hb k ?_ htie'
    rintro rfl
    exact hne (Nat.mul_comm _ _)
  rcases hv with hv | hv
  · exact grid hv
  · rcases hge with hge | hE
    · have := errp_below a b E v hb hge hv
      omega
    · subst hE; exact grid (by simp)

end Evalexpr.Spec.Nearest
