/-
Proofs/IteratorsSeqEval.lean — property C14 over the whole domain of C05, evaluation part: on the
tree of ANY sequence level (chains of tuples of optional operands, parenthesised levels, absent
elements and empty groups included) evaluation only reports unknown identifiers the iterators list,
and a consistent injective renaming of the variables does not change the result.

The grouping operators `.rootNode`, `.tuple`, `.chain` evaluate their children left to right and
combine the values with a context-free, never-unknown-identifier arm; so both invariants of the
expression case (`Unk`, `Sim`) extend through them. The structural induction over the mutual
helpers of `levelTree` is done once, for any pair of predicates closed under these constructions
(`SeqClosed`).
-/
import EvalexprVerif.Proofs.IteratorsSeq

namespace Evalexpr.Spec
open Evalexpr

/-! ### evaluation of a node / a child list, written with `bindE` -/

theorem seqEvalMut_node (op : Operator) (cs : List Node) (s : St) :
    (Node.mk op cs).evalMut s = bindE (evalMutList cs s) fun args s => op.evalMut args s := by
  rw [Node.evalMut]
  rcases evalMutList cs s with ⟨_ | v, s'⟩ <;> rfl

theorem seqEvalMutList_nil (s : St) : evalMutList [] s = (.ok [], s) := by
  rw [evalMutList]

theorem seqEvalMutList_cons (c : Node) (cs : List Node) (s : St) :
    evalMutList (c :: cs) s =
      bindE (c.evalMut s) fun v s => bindE (evalMutList cs s) fun vs s => (.ok (v :: vs), s) := by
  rw [evalMutList]
  rcases c.evalMut s with ⟨_ | v, s'⟩
  · rfl
  · simp only [bindE_ok]
    rcases evalMutList cs s' with ⟨_ | vs, s''⟩ <;> rfl

/-! ### one structural induction for every property closed under the grouping constructions -/

/-- a property of nodes (`P`) and of child lists (`PL`) that holds on the trees of expressions and
is preserved by the three grouping operators -/
structure SeqClosed (P : Node → Prop) (PL : List Node → Prop) : Prop where
  expr : ∀ e : Expr, P (toTree e)
  nil : PL []
  cons : ∀ c cs, P c → PL cs → PL (c :: cs)
  root : ∀ cs, PL cs → P ⟨.rootNode, cs⟩
  tuple : ∀ cs, PL cs → P ⟨.tuple, cs⟩
  chain : ∀ cs, PL cs → P ⟨.chain, cs⟩

mutual
theorem closed_operandTree {P : Node → Prop} {PL : List Node → Prop} (H : SeqClosed P PL) :
    ∀ o : Operand, P (operandTree o)
  | .expr e => by rw [operandTree]; exact H.expr e
  | .group ms => by rw [operandTree]; exact closed_levelTreeAux H ms
theorem closed_elemTree {P : Node → Prop} {PL : List Node → Prop} (H : SeqClosed P PL) :
    ∀ x : Option Operand, P (elemTree x)
  | none => by rw [elemTree]; exact H.root _ H.nil
  | some o => by
    rw [elemTree]; exact H.root _ (H.cons _ _ (closed_operandTree H o) H.nil)
theorem closed_elemTrees {P : Node → Prop} {PL : List Node → Prop} (H : SeqClosed P PL) :
    ∀ xs : List (Option Operand), PL (elemTrees xs)
  | [] => by rw [elemTrees]; exact H.nil
  | x :: xs => by
    rw [elemTrees]; exact H.cons _ _ (closed_elemTree H x) (closed_elemTrees H xs)
theorem closed_memberTree {P : Node → Prop} {PL : List Node → Prop} (H : SeqClosed P PL) :
    ∀ m : List (Option Operand), P (memberTree m)
  | [] => by rw [memberTree]; exact H.root _ H.nil
  | [x] => by rw [memberTree]; exact closed_elemTree H x
  | x :: y :: xs => by
    rw [memberTree]
    exact H.tuple _ (H.cons _ _ (closed_elemTree H x) (closed_elemTrees H (y :: xs)))
theorem closed_memberTrees {P : Node → Prop} {PL : List Node → Prop} (H : SeqClosed P PL) :
    ∀ ms : List (List (Option Operand)), PL (memberTrees ms)
  | [] => by rw [memberTrees]; exact H.nil
  | m :: ms => by
    rw [memberTrees]; exact H.cons _ _ (closed_memberTree H m) (closed_memberTrees H ms)
theorem closed_levelTreeAux {P : Node → Prop} {PL : List Node → Prop} (H : SeqClosed P PL) :
    ∀ ms : List (List (Option Operand)), P (levelTreeAux ms)
  | [] => by rw [levelTreeAux.eq_1]; exact H.root _ H.nil
  | [[]] => by rw [levelTreeAux.eq_2]; exact H.root _ H.nil
  | [[x]] => by rw [levelTreeAux.eq_3]; exact closed_elemTree H x
  | [x :: y :: xs] => by
    rw [levelTreeAux.eq_4 _ (by simp) (by simp)]
    exact H.root _ (H.cons _ _ (closed_memberTree H (x :: y :: xs)) H.nil)
  | m :: m' :: ms => by
    rw [levelTreeAux.eq_5]
    exact H.root _ (H.cons _ _
      (H.chain _ (H.cons _ _ (closed_memberTree H m) (closed_memberTrees H (m' :: ms)))) H.nil)
end

/-! ### the three grouping operators -/

/-- `.rootNode`, `.tuple`, `.chain` -/
def isGroupOp : Operator → Bool
  | .rootNode | .tuple | .chain => true
  | _ => false

theorem groupOp_notAssign {op : Operator} (h : isGroupOp op = true) : isAssignOp op = false := by
  cases op <;> first | rfl | simp [isGroupOp] at h

theorem groupOp_pure {op : Operator} (h : isGroupOp op = true) : isPureOp op = true := by
  cases op <;> first | rfl | simp [isGroupOp] at h

theorem groupOp_ident {op : Operator} (h : isGroupOp op = true) : op.ident = none := by
  cases op <;> first | rfl | simp [isGroupOp] at h

theorem groupOp_renameWith {op : Operator} (h : isGroupOp op = true) (k : IterKind) (f : Str → Str) :
    op.renameWith k f = op := by
  cases op <;> first | rfl | simp [isGroupOp] at h

/-! ### origin of unknown-identifier errors -/

/-- evaluating `n` only reports unknown identifiers that occur in `n` -/
def UnkNode (n : Node) : Prop :=
  ∀ s : St, NoFabricate s.ctx → Unk (occList [n]) (n.evalMut s).1

/-- evaluating the children `cs` only reports unknown identifiers that occur in them -/
def UnkList (cs : List Node) : Prop :=
  ∀ s : St, NoFabricate s.ctx → Unk (occList cs) (evalMutList cs s).1

theorem occList_cons_split (c : Node) (cs : List Node) :
    occList (c :: cs) = occList [c] ++ occList cs := by
  obtain ⟨op, ks⟩ := c
  simp only [occList_cons, occList_nil, List.append_nil]

theorem unkNode_toTree (e : Expr) : UnkNode (toTree e) := by
  intro s hnf
  have := toTree_unk e s hnf
  rwa [occList_toTree e [], occList_nil, List.append_nil]

theorem unkList_nil : UnkList [] := by
  intro s _
  rw [seqEvalMutList_nil]
  exact Unk.ok_pair

theorem unkList_cons (c : Node) (cs : List Node) (hc : UnkNode c) (hcs : UnkList cs) :
    UnkList (c :: cs) := by
  intro s hnf
  rw [seqEvalMutList_cons, occList_cons_split]
  refine Unk.bindE ((hc s hnf).mono ?_) fun v _ => ?_
  · intro p hp; exact List.mem_append_left _ hp
  · refine Unk.bindE ((hcs _ (hnf.evalMut c)).mono ?_) fun vs _ => Unk.ok_pair
    intro p hp; exact List.mem_append_right _ hp

theorem unkNode_group {op : Operator} (hop : isGroupOp op = true) (cs : List Node)
    (hcs : UnkList cs) : UnkNode ⟨op, cs⟩ := by
  intro s hnf
  rw [seqEvalMut_node, occList_cons_noIdent _ _ _ (groupOp_ident hop), occList_nil, List.append_nil]
  refine Unk.bindE (hcs s hnf) fun args _ => ?_
  rw [evalMut_pure (groupOp_notAssign hop) (groupOp_pure hop)]
  exact Unk.of_clean_pair (clean_evalPure _ _)

theorem unk_closed : SeqClosed UnkNode UnkList where
  expr := unkNode_toTree
  nil := unkList_nil
  cons := unkList_cons
  root := unkNode_group rfl
  tuple := unkNode_group rfl
  chain := unkNode_group rfl

/-- evaluation of a level's tree can only report unknown identifiers that occur in it -/
theorem levelTree_unk (l : Level) (s : St) (hnf : NoFabricate s.ctx) :
    Unk (identOccurrences (levelTree l)) ((levelTree l).evalMut s).1 := by
  have h := closed_levelTreeAux unk_closed l s hnf
  have hop := levelTreeAux_op l
  rw [identOccurrences_eq]
  unfold levelTree
  generalize levelTreeAux l = n at h hop
  obtain ⟨op, cs⟩ := n
  simp only at hop
  subst hop
  have hr : Operator.rootNode.ident = none := rfl
  rwa [occList_cons_noIdent _ _ _ hr, occList_nil, List.append_nil] at h

/-- evaluation of ANY sequence level can only report an unknown variable that the iterators list
(user functions must not fabricate such errors themselves) -/
theorem C14_unknown_var_level (l : Level) (s : St) (x : Str) (hnf : NoFabricate s.ctx)
    (h : ((levelTree l).evalMut s).1 = .error (.variableIdentifierNotFound x)) :
    x ∈ (levelTree l).iterIdents .variable := by
  rw [mem_iterIdents]
  rcases (levelTree_unk l s hnf).1 x h with hx | hx
  · exact ⟨.read, rfl, hx⟩
  · exact ⟨.write, rfl, hx⟩

/-- evaluation of ANY sequence level can only report an unknown function that the iterators list -/
theorem C14_unknown_fn_level (l : Level) (s : St) (f : Str) (hnf : NoFabricate s.ctx)
    (h : ((levelTree l).evalMut s).1 = .error (.functionIdentifierNotFound f)) :
    f ∈ (levelTree l).iterIdents .function := by
  rw [mem_iterIdents]
  exact ⟨.function, rfl, (levelTree_unk l s hnf).2 f h⟩

/-! ### the renaming simulation -/

/-- evaluating the renamed node in the renamed context simulates evaluating the node -/
def SimNode (r : Str → Str) (F : List (Str × UserFn)) (n : Node) : Prop :=
  ∀ (h : HashMapCtx) (log : List (Str × Value)), h.funs = F →
    Sim r F (n.evalMut ⟨.hashMap h, log⟩)
      ((rnNode .variable r n).evalMut ⟨.hashMap (renameVars r h), log⟩)

/-- the same for a child list -/
def SimList (r : Str → Str) (F : List (Str × UserFn)) (cs : List Node) : Prop :=
  ∀ (h : HashMapCtx) (log : List (Str × Value)), h.funs = F →
    Sim r F (evalMutList cs ⟨.hashMap h, log⟩)
      (evalMutList (renameList .variable r cs) ⟨.hashMap (renameVars r h), log⟩)

theorem simList_nil (r : Str → Str) (F : List (Str × UserFn)) : SimList r F [] := by
  intro h log hh
  rw [renameList_nil, seqEvalMutList_nil, seqEvalMutList_nil]
  exact Sim.mk' hh rfl

theorem simList_cons {r : Str → Str} {F : List (Str × UserFn)} (c : Node) (cs : List Node)
    (hc : SimNode r F c) (hcs : SimList r F cs) : SimList r F (c :: cs) := by
  intro h log hh
  rw [renameList_cons, seqEvalMutList_cons, seqEvalMutList_cons]
  refine Sim.bindE (hc h log hh) fun v h₁ log₁ hF₁ => ?_
  exact Sim.bindE (hcs h₁ log₁ hF₁) fun vs h₂ log₂ hF₂ => Sim.mk' hF₂ rfl

theorem simNode_group {r : Str → Str} {F : List (Str × UserFn)} {op : Operator}
    (hop : isGroupOp op = true) (cs : List Node) (hcs : SimList r F cs) :
    SimNode r F ⟨op, cs⟩ := by
  intro h log hh
  have hrn : rnNode .variable r ⟨op, cs⟩ = ⟨op, renameList .variable r cs⟩ := by
    simp only [rnNode, groupOp_renameWith hop]
  rw [hrn, seqEvalMut_node, seqEvalMut_node]
  refine Sim.bindE (hcs h log hh) fun args h₁ log₁ hF₁ => ?_
  rw [evalMut_pure (groupOp_notAssign hop) (groupOp_pure hop),
    evalMut_pure (groupOp_notAssign hop) (groupOp_pure hop)]
  exact Sim.clean hF₁ (clean_evalPure _ _)

theorem sim_closed {r : Str → Str} (hinj : Function.Injective r) {F : List (Str × UserFn)}
    (hF : FnStable r F) : SeqClosed (SimNode r F) (SimList r F) where
  expr := fun e h log hh => sim_toTree hinj hF e h log hh
  nil := simList_nil r F
  cons := simList_cons
  root := simNode_group rfl
  tuple := simNode_group rfl
  chain := simNode_group rfl

/-- renaming the descendants of a level's tree = renaming the whole tree (its own operator is a
plain root node) -/
theorem levelTree_renameDesc (l : Level) (k : IterKind) (f : Str → Str) :
    (levelTree l).renameDesc k f = rnNode k f (levelTree l) := by
  have hop := levelTreeAux_op l
  unfold levelTree
  generalize levelTreeAux l = n at hop
  obtain ⟨op, cs⟩ := n
  simp only at hop
  subst hop
  rfl

/-- consistently renaming the variables (injectively) in the tree of ANY sequence level and in the
context does not change the result, provided the answers of the user functions are not themselves
affected by the renaming -/
theorem C14_rename_level_stable (l : Level) (r : Str → Str) (hinj : Function.Injective r)
    (h : HashMapCtx) (log : List (Str × Value)) (hst : FnStable r h.funs) :
    let t : Node := levelTree l
    let out := t.evalMut ⟨.hashMap h, log⟩
    let out' := (t.renameDesc .variable r).evalMut ⟨.hashMap (renameVars r h), log⟩
    out'.1 = renameRes r out.1 ∧ out'.2.log = out.2.log ∧
      (∃ h₁, out.2.ctx = .hashMap h₁ ∧ out'.2.ctx = .hashMap (renameVars r h₁)) := by
  intro t out out'
  have hsim : Sim r h.funs out out' := by
    simp only [out, out', t, levelTree_renameDesc]
    exact closed_levelTreeAux (sim_closed hinj hst) l h log rfl
  rw [renameRes_eq]
  obtain ⟨h1, h2, h₁, h3, h4, _⟩ := hsim
  exact ⟨h1, h2, h₁, h3, h4⟩

/-- consistently renaming the variables (injectively) in the tree of ANY sequence level and in the
context does not change the result (user functions must not fabricate unknown-identifier errors
themselves) -/
theorem C14_rename_level (l : Level) (r : Str → Str) (hinj : Function.Injective r) (h : HashMapCtx)
    (log : List (Str × Value)) (hnf : NoFabricate (.hashMap h)) :
    let t : Node := levelTree l
    let out := t.evalMut ⟨.hashMap h, log⟩
    let out' := (t.renameDesc .variable r).evalMut ⟨.hashMap (renameVars r h), log⟩
    out'.1 = renameRes r out.1 ∧ out'.2.log = out.2.log ∧
      (∃ h₁, out.2.ctx = .hashMap h₁ ∧ out'.2.ctx = .hashMap (renameVars r h₁)) :=
  C14_rename_level_stable l r hinj h log (FnStable.of_noFabricate hnf)

end Evalexpr.Spec
