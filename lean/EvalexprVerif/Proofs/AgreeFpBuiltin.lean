/- Proofs/AgreeFpBuiltin.lean — the `Builtin` functions of /repo/src are textually the ones the model was validated against. -/
import EvalexprVerif.Generated.FpBuiltin
import EvalexprVerif.Spec.Fingerprints

namespace Evalexpr.Agree

theorem fpBuiltin_agree : Generated.fpBuiltin = Spec.Fingerprints.fpBuiltin := by decide

end Evalexpr.Agree
