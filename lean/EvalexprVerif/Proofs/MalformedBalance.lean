/-
Proofs/MalformedBalance.lean — C13 (i): the tree builder reports unbalanced parentheses, and
reports a brace error only for unbalanced input.
-/
import EvalexprVerif.Proofs.MalformedSeq

namespace Evalexpr.Spec
open Evalexpr

def isRBraceTok : Token → Bool
  | .rBrace => true
  | _ => false

theorem treeStep_eq (stack : List Node) (lr li : Bool) (tok : Token) (next : Option Token) :
    treeStep stack lr li tok next =
      if juxtaposed lr li tok then
        .error (if tok.isLBrace then .missingOperatorOutsideOfBrace else .appendedToLeafNode)
      else
        match tokenToNode stack lr tok next with
        | .error e => .error e
        | .ok (none, stack) => .ok stack
        | .ok (some node, stack) => pushAny stack node := by
  unfold treeStep pushAny
  rfl

theorem juxt_err_noBrace (tok : Token) :
    isBraceErr (if tok.isLBrace then Err.missingOperatorOutsideOfBrace else Err.appendedToLeafNode)
      = false := by
  cases tok.isLBrace <;> rfl

theorem tokenToNode_other (stack : List Node) (lr : Bool) (tok : Token) (next : Option Token)
    (h1 : tok.isLBrace = false) (h2 : isRBraceTok tok = false) :
    ∃ node, tokenToNode stack lr tok next = .ok (some node, stack) := by
  cases tok
  case lBrace => cases h1
  case rBrace => cases h2
  case identifier id =>
    cases next with
    | none => exact ⟨_, rfl⟩
    | some n =>
      simp only [tokenToNode]
      cases n.isAssignment
      · cases n.isLeftsidedValue
        · exact ⟨_, rfl⟩
        · exact ⟨_, rfl⟩
      · exact ⟨_, rfl⟩
  all_goals exact ⟨_, rfl⟩

theorem balancedFrom_other (d : Nat) (tok : Token) (rest : List Token)
    (h1 : tok.isLBrace = false) (h2 : isRBraceTok tok = false) :
    balancedFrom d (tok :: rest) = balancedFrom d rest := by
  cases tok
  case lBrace => cases h1
  case rBrace => cases h2
  all_goals cases d <;> rfl

/-- a step on a stack of `d + 1` levels -/
theorem step_other {d : Nat} {stack : List Node} (h : Stk (d + 1) stack) (lr li : Bool)
    (tok : Token) (next : Option Token)
    (h1 : tok.isLBrace = false) (h2 : isRBraceTok tok = false) :
    (∃ e, treeStep stack lr li tok next = .error e ∧ isBraceErr e = false) ∨
    (∃ st', treeStep stack lr li tok next = .ok st' ∧ Stk (d + 1) st') := by
  rw [treeStep_eq]
  cases juxtaposed lr li tok with
  | true => exact .inl ⟨_, rfl, juxt_err_noBrace tok⟩
  | false =>
    obtain ⟨node, hn⟩ := tokenToNode_other stack lr tok next h1 h2
    obtain ⟨l, s, hl, hs, rfl⟩ := h.inv
    simp only [Bool.false_eq_true, if_false, hn]
    rcases pushAny_level (s := s) hl node with ⟨e, he, hb⟩ | ⟨l', hl', he⟩
    · exact .inl ⟨e, he, hb⟩
    · exact .inr ⟨_, he, Stk.cons hl' hs⟩

theorem step_lBrace' {d : Nat} {stack : List Node} (h : Stk (d + 1) stack) (lr li : Bool)
    (next : Option Token) :
    (∃ e, treeStep stack lr li .lBrace next = .error e ∧ isBraceErr e = false) ∨
    (∃ st', treeStep stack lr li .lBrace next = .ok st' ∧ Stk (d + 2) st') := by
  rw [treeStep_eq]
  cases juxtaposed lr li .lBrace with
  | true => exact .inl ⟨_, rfl, rfl⟩
  | false =>
    refine .inr ⟨Node.rootNode :: stack, rfl, ?_⟩
    exact Stk.cons (l := [Node.rootNode]) (StkLevel.r _ rfl) h

theorem juxt_rBrace (lr li : Bool) : juxtaposed lr li .rBrace = false := by
  simp [juxtaposed, Token.isNot, Token.isLeftsidedValue]

/-- `)` at depth 0 is an error -/
theorem step_rBrace_zero {stack : List Node} (h : Stk 1 stack) (lr li : Bool)
    (next : Option Token) : ∃ e, treeStep stack lr li .rBrace next = .error e := by
  rw [treeStep_eq, juxt_rBrace]
  obtain ⟨l, s, hl, hs, rfl⟩ := h.inv
  have := hs.zero; subst this
  simp only [Bool.false_eq_true, if_false, tokenToNode]
  by_cases hlen : (l ++ []).length ≤ 1
  · simp only [hlen, if_true]; exact ⟨_, rfl⟩
  · simp only [hlen, if_false]
    rcases collapse_level hl [] with hc | ⟨R, hR, hc⟩
    · rw [hc]; exact ⟨_, rfl⟩
    · rw [hc]; exact ⟨_, rfl⟩

/-- `)` at depth `d + 1` closes a level -/
theorem step_rBrace_succ {d : Nat} {stack : List Node} (h : Stk (d + 2) stack) (lr li : Bool)
    (next : Option Token) :
    (∃ e, treeStep stack lr li .rBrace next = .error e ∧ isBraceErr e = false) ∨
    (∃ st', treeStep stack lr li .rBrace next = .ok st' ∧ Stk (d + 1) st') := by
  rw [treeStep_eq, juxt_rBrace]
  have hlen := h.length_ge
  obtain ⟨l, s, hl, hs, rfl⟩ := h.inv
  obtain ⟨l2, s2, hl2, hs2, rfl⟩ := hs.inv
  have hnle : ¬ (l ++ (l2 ++ s2)).length ≤ 1 := by omega
  simp only [Bool.false_eq_true, if_false, tokenToNode, hnle]
  rcases collapse_level hl (l2 ++ s2) with hc | ⟨R, hR, hc⟩
  · rw [hc]; exact .inl ⟨_, rfl, rfl⟩
  · rw [hc]
    rcases pushAny_level (s := s2) hl2 R with ⟨e, he, hb⟩ | ⟨l', hl', he⟩
    · exact .inl ⟨e, he, hb⟩
    · exact .inr ⟨_, he, Stk.cons hl' hs2⟩

/-- the token loop on a well-shaped stack -/
theorem loop_shape (ts : List Token) : ∀ (d : Nat) (stack : List Node) (lr li : Bool),
    Stk (d + 1) stack →
    (∃ e, treeLoop ts stack lr li = .error e ∧ (balancedFrom d ts = true → isBraceErr e = false)) ∨
    (∃ st' d', treeLoop ts stack lr li = .ok st' ∧ Stk (d' + 1) st' ∧
      balancedFrom d ts = (d' == 0)) := by
  induction ts with
  | nil =>
    intro d stack lr li h
    exact .inr ⟨stack, d, rfl, h, rfl⟩
  | cons tok rest ih =>
    intro d stack lr li h
    simp only [treeLoop]
    cases h1 : tok.isLBrace with
    | true =>
      have : tok = .lBrace := by cases tok <;> simp [Token.isLBrace] at h1 ⊢
      subst this
      rcases step_lBrace' h lr li rest.head? with ⟨e, he, hb⟩ | ⟨st', he, hs⟩
      · rw [he]; exact .inl ⟨e, rfl, fun _ => hb⟩
      · rw [he]; exact ih (d + 1) st' _ _ hs
    | false =>
      cases h2 : isRBraceTok tok with
      | true =>
        have : tok = .rBrace := by cases tok <;> simp [isRBraceTok] at h2 ⊢
        subst this
        cases d with
        | zero =>
          obtain ⟨e, he⟩ := step_rBrace_zero h lr li rest.head?
          rw [he]; exact .inl ⟨e, rfl, fun hb => by simp [balancedFrom] at hb⟩
        | succ d =>
          rcases step_rBrace_succ h lr li rest.head? with ⟨e, he, hb⟩ | ⟨st', he, hs⟩
          · rw [he]; exact .inl ⟨e, rfl, fun _ => hb⟩
          · rw [he]; exact ih d st' _ _ hs
      | false =>
        rw [balancedFrom_other d tok rest h1 h2]
        rcases step_other h lr li tok rest.head? h1 h2 with ⟨e, he, hb⟩ | ⟨st', he, hs⟩
        · rw [he]; exact .inl ⟨e, rfl, fun _ => hb⟩
        · rw [he]; exact ih d st' _ _ hs

theorem initial_stk : Stk 1 [Node.rootNode] := Stk.single _ rfl

/-- (i) unbalanced parentheses are rejected when the tree is built -/
theorem C13_unbalanced (ts : List Token) (h : balanced ts = false) :
    ∃ e, tokensToOperatorTree ts = .error e := by
  unfold balanced at h
  unfold tokensToOperatorTree
  rcases loop_shape ts 0 [Node.rootNode] false false initial_stk with ⟨e, he, _⟩ | ⟨st', d', he, hs, hb⟩
  · rw [he]; exact ⟨e, rfl⟩
  · rw [he]
    dsimp only
    rw [h] at hb
    cases d' with
    | zero => simp at hb
    | succ d' =>
      obtain ⟨l, s, hl, hs', rfl⟩ := hs.inv
      rcases collapse_level hl s with hc | ⟨R, hR, hc⟩
      · rw [hc]; exact ⟨_, rfl⟩
      · rw [hc]
        have := hs'.length_ge
        have hlen : (R :: s).length > 1 := by simp; omega
        simp only [hlen, if_true]
        exact ⟨_, rfl⟩

/-- (i') balanced input is never reported as unbalanced -/
theorem C13_balanced_ok (ts : List Token) (h : balanced ts = true) :
    tokensToOperatorTree ts ≠ .error .unmatchedLBrace ∧
    tokensToOperatorTree ts ≠ .error .unmatchedRBrace := by
  unfold balanced at h
  have key : ∀ e, tokensToOperatorTree ts = .error e → isBraceErr e = false := by
    intro e0 h0
    unfold tokensToOperatorTree at h0
    rcases loop_shape ts 0 [Node.rootNode] false false initial_stk with
      ⟨e, he, hb⟩ | ⟨st', d', he, hs, hb⟩
    · rw [he] at h0
      cases h0
      exact hb h
    · rw [he] at h0
      dsimp only at h0
      rw [h] at hb
      have : d' = 0 := by simpa using hb.symm
      subst this
      obtain ⟨l, s, hl, hs', rfl⟩ := hs.inv
      have := hs'.zero; subst this
      rcases collapse_level hl [] with hc | ⟨R, hR, hc⟩
      · rw [hc] at h0; cases h0; rfl
      · rw [hc] at h0; simp at h0
  constructor
  · intro h0; have := key _ h0; cases this
  · intro h0; have := key _ h0; cases this

end Evalexpr.Spec
