/-
Proofs/ParseLoose.lean — property C02 for the permissive rendering of `Spec/AstLoose.lean`
(a prefix operator as right operand of `^` written without parentheses, except in the excluded
`x ^ -y ^ z` shapes), and the bound "no more tokens than characters".

The induction is in `ParseLooseMain.lean` (`parseL_main`), the precedence facts in
`ParseLooseTops.lean`, the lexer bound in `TokenizeLength.lean`.
-/
import EvalexprVerif.Spec.AstLoose
import EvalexprVerif.Proofs.ParseExpr
import EvalexprVerif.Proofs.ParseLooseMain
import EvalexprVerif.Proofs.TokenizeLength

namespace Evalexpr.Spec
open Evalexpr

/-- the permissive rendering (a prefix operator as right operand of `^` written without parentheses,
except in the excluded `x ^ -y ^ z` shapes) builds the promised tree -/
theorem C02_parse_loose (e : Expr) :
    tokensToOperatorTree (renderL e false) = .ok ⟨.rootNode, [toTreeL e false]⟩ := by
  have h := parseL_main e false [] [] [] false false (by intro f hf; cases hf) (AdmL.nil e false)
    (.inl rfl) (by intro t ht; cases ht)
  simp only [List.append_nil, openS, R, plug, List.nil_append] at h
  simp only [tokensToOperatorTree, Node.rootNode, h, treeLoop]
  simp [collapseAllSequences, collapseAllLoop, Operator.isRoot, Operator.kind,
    Node.hasTooManyChildren, Operator.maxArgumentAmount, OpKind.maxArgumentAmount]

/-- the same for either value of the flag (the rendering of an operand that is followed by `^`) -/
theorem C02_parse_loose_flag (e : Expr) (nx : Bool) :
    tokensToOperatorTree (renderL e nx) = .ok ⟨.rootNode, [toTreeL e nx]⟩ := by
  have h := parseL_main e nx [] [] [] false false (by intro f hf; cases hf) (AdmL.nil e nx)
    (.inl rfl) (by intro t ht; cases ht)
  simp only [List.append_nil, openS, R, plug, List.nil_append] at h
  simp only [tokensToOperatorTree, Node.rootNode, h, treeLoop]
  simp [collapseAllSequences, collapseAllLoop, Operator.isRoot, Operator.kind,
    Node.hasTooManyChildren, Operator.maxArgumentAmount, OpKind.maxArgumentAmount]

/-- tokens are never more numerous than characters, so the recursion-depth bound also holds in terms of the input string -/
theorem tokenize_length (s : List Char) (ts : List Token) (h : tokenize s = .ok ts) :
    ts.length ≤ s.length :=
  Loose.tokenize_length' s ts h

end Evalexpr.Spec
