/- Proofs/AgreeEntry.lean — extracted tables equal the expected ones (see Spec/Tables.lean). -/
import EvalexprVerif.Generated.EntryPoints
import EvalexprVerif.Spec.Tables

namespace Evalexpr.Agree
open Evalexpr.Spec

theorem entryPoints_agree : Generated.entryPoints = Tables.entryPoints := by decide +kernel
theorem buildOperatorTree_agree : Generated.buildOperatorTreeRecognised = true := rfl

end Evalexpr.Agree
