/-
Proofs/MalformedLvlSeq.lean — `pushSequence` and `collapseAllSequences` on a level, with the
change of the potential.
-/
import EvalexprVerif.Proofs.MalformedLvl

namespace Evalexpr.Spec
open Evalexpr

theorem defect_seq_t {X : Node} (h : X.op.kind = .tuple) : defect X = defectList X.children := by
  rw [defect_eq, slot_tuple h]; omega
theorem defect_seq_c {X : Node} (h : X.op.kind = .chain) : defect X = defectList X.children := by
  rw [defect_eq, slot_chain h]; omega
theorem defect_rootKind {X : Node} (h : X.op.kind = .rootNode) : defect X = defectList X.children := by
  rw [defect_eq, slot_rootKind h]; omega

theorem pushSequence_lvl {L : Lvl} (hL : L.WF) (s : List Node) (node : Node)
    (hn : node.op.isSequence = true) :
    (∃ e, pushSequence (L.below ++ s) L.top node = .error e) ∨
    (∃ L' : Lvl, L'.WF ∧
      pushSequence (L.below ++ s) L.top node = .ok (L'.toList ++ s) ∧
      L'.open = 1 ∧ L'.pot + L.open ≥ L.pot + 1) := by
  rcases seq_kind hn with hk | hk
  · -- a tuple separator
    cases L with
    | r R =>
      have h1 : R.op.kind = .rootNode := hL
      refine .inr ⟨.t ⟨node.op, node.children ++ [R, Node.rootNode]⟩ Node.rootNode,
        ⟨hk, rfl⟩, ?_, ?_, ?_⟩
      · simp [Lvl.toList, Lvl.top, Lvl.below, pushSequence, h1, hk, Operator.isRoot]
      · simp only [Lvl.open]; rw [lastOpen_snoc2]; rfl
      · simp only [Lvl.pot, Lvl.open, Lvl.toList, defectList_cons, defectList_nil]
        rw [lastOpen_snoc2, defect_mk, slot_tuple hk, rootNode_defect, rootNode_open]
        simp only [defectList_append, defectList_cons, defectList_nil, rootNode_defect]
        omega
    | t T P =>
      obtain ⟨h1, h2⟩ := hL
      refine .inr ⟨.t ⟨T.op, T.children ++ [Node.rootNode]⟩ P, ⟨h1, h2⟩, ?_, ?_, ?_⟩
      · simp [Lvl.toList, Lvl.top, Lvl.below, pushSequence, h1, hk]
      · simp only [Lvl.open]; rw [lastOpen_snoc]; rfl
      · simp only [Lvl.pot, Lvl.open, Lvl.toList, defectList_cons, defectList_nil]
        rw [lastOpen_snoc, defect_mk, slot_tuple h1, rootNode_open, defect_seq_t h1]
        simp only [defectList_append, defectList_cons, defectList_nil, rootNode_defect]
        omega
    | c C P =>
      obtain ⟨h1, h2⟩ := hL
      cases hl : C.children.getLast? with
      | none =>
        refine .inl ⟨unreachableSeq, ?_⟩
        simp [Lvl.top, pushSequence, h1, hk, Operator.isRoot, prec_of_kind h1, prec_of_kind hk,
          OpKind.precedence, hl]
      | some last =>
        refine .inr ⟨.tc ⟨node.op, node.children ++ [last, Node.rootNode]⟩
          ⟨C.op, C.children.dropLast⟩ P, ⟨hk, h1, h2⟩, ?_, ?_, ?_⟩
        · simp [Lvl.toList, Lvl.top, Lvl.below, pushSequence, h1, hk, Operator.isRoot, prec_of_kind h1,
            prec_of_kind hk, OpKind.precedence, hl]
        · simp only [Lvl.open]; rw [lastOpen_snoc2]; rfl
        · have hd := dropLast_getLast _ last hl
          have hC : defect C = defectList C.children.dropLast + defect last := by
            rw [defect_seq_c h1]; conv => lhs; rw [← hd]
            simp
          have hlo : lastOpen C = openSlot last := by simp [lastOpen, hl]
          simp only [Lvl.pot, Lvl.open, Lvl.toList, defectList_cons, defectList_nil]
          rw [lastOpen_snoc2, defect_mk, slot_tuple hk, rootNode_open, hC, hlo, defect_mk,
            slot_chain h1]
          simp only [defectList_append, defectList_cons, defectList_nil, rootNode_defect]
          omega
    | tc T C P =>
      obtain ⟨h1, h2, h3⟩ := hL
      refine .inr ⟨.tc ⟨T.op, T.children ++ [Node.rootNode]⟩ C P, ⟨h1, h2, h3⟩, ?_, ?_, ?_⟩
      · simp [Lvl.toList, Lvl.top, Lvl.below, pushSequence, h1, hk]
      · simp only [Lvl.open]; rw [lastOpen_snoc]; rfl
      · simp only [Lvl.pot, Lvl.open, Lvl.toList, defectList_cons, defectList_nil]
        rw [lastOpen_snoc, defect_mk, slot_tuple h1, rootNode_open, defect_seq_t h1]
        simp only [defectList_append, defectList_cons, defectList_nil, rootNode_defect]
        omega
  · -- a chain separator
    cases L with
    | r R =>
      have h1 : R.op.kind = .rootNode := hL
      refine .inr ⟨.c ⟨node.op, node.children ++ [R, Node.rootNode]⟩ Node.rootNode,
        ⟨hk, rfl⟩, ?_, ?_, ?_⟩
      · simp [Lvl.toList, Lvl.top, Lvl.below, pushSequence, h1, hk, Operator.isRoot]
      · simp only [Lvl.open]; rw [lastOpen_snoc2]; rfl
      · simp only [Lvl.pot, Lvl.open, Lvl.toList, defectList_cons, defectList_nil]
        rw [lastOpen_snoc2, defect_mk, slot_chain hk, rootNode_defect, rootNode_open]
        simp only [defectList_append, defectList_cons, defectList_nil, rootNode_defect]
        omega
    | t T P =>
      obtain ⟨h1, h2⟩ := hL
      refine .inr ⟨.c ⟨node.op, node.children ++ [T, Node.rootNode]⟩ P, ⟨hk, h2⟩, ?_, ?_, ?_⟩
      · simp [Lvl.toList, Lvl.top, Lvl.below, pushSequence, h1, hk, h2, Operator.isRoot, prec_of_kind h1,
          prec_of_kind hk, OpKind.precedence, collapseRootStackTo, kind_root_isSeq h2]
      · simp only [Lvl.open]; rw [lastOpen_snoc2]; rfl
      · simp only [Lvl.pot, Lvl.open, Lvl.toList, defectList_cons, defectList_nil]
        rw [lastOpen_snoc2, defect_mk, slot_chain hk, rootNode_open]
        simp only [defectList_append, defectList_cons, defectList_nil, rootNode_defect]
        have := lastOpen_le T
        omega
    | c C P =>
      obtain ⟨h1, h2⟩ := hL
      refine .inr ⟨.c ⟨C.op, C.children ++ [Node.rootNode]⟩ P, ⟨h1, h2⟩, ?_, ?_, ?_⟩
      · simp [Lvl.toList, Lvl.top, Lvl.below, pushSequence, h1, hk]
      · simp only [Lvl.open]; rw [lastOpen_snoc]; rfl
      · simp only [Lvl.pot, Lvl.open, Lvl.toList, defectList_cons, defectList_nil]
        rw [lastOpen_snoc, defect_mk, slot_chain h1, rootNode_open, defect_seq_c h1]
        simp only [defectList_append, defectList_cons, defectList_nil, rootNode_defect]
        omega
    | tc T C P =>
      obtain ⟨h1, h2, h3⟩ := hL
      refine .inr ⟨.c ⟨C.op, C.children ++ [T, Node.rootNode]⟩ P, ⟨h2, h3⟩, ?_, ?_, ?_⟩
      · simp [Lvl.toList, Lvl.top, Lvl.below, pushSequence, h1, hk, h2, Operator.isRoot, prec_of_kind h1,
          prec_of_kind hk, prec_of_kind h2, OpKind.precedence, collapseRootStackTo]
      · simp only [Lvl.open]; rw [lastOpen_snoc2]; rfl
      · simp only [Lvl.pot, Lvl.open, Lvl.toList, defectList_cons, defectList_nil]
        rw [lastOpen_snoc2, defect_mk, slot_chain h2, rootNode_open, defect_seq_c h2]
        simp only [defectList_append, defectList_cons, defectList_nil, rootNode_defect]
        have := lastOpen_le T
        omega

/-- closing a level keeps all its nodes -/
theorem collapse_lvl {L : Lvl} (hL : L.WF) (s : List Node) :
    (∃ e, collapseAllSequences (L.toList ++ s) = .error e) ∨
    ∃ R, R.op.kind = .rootNode ∧ collapseAllSequences (L.toList ++ s) = .ok (R :: s) ∧
      defect R = defectList L.toList := by
  cases L with
  | r R =>
    have h1 : R.op.kind = .rootNode := hL
    simp only [Lvl.toList, List.cons_append, List.nil_append, collapseAllSequences]
    rcases hasTooMany_root_error R s h1 with h | h
    · exact .inl ⟨_, h⟩
    · exact .inr ⟨R, h1, h, by simp⟩
  | t T P =>
    obtain ⟨h1, h2⟩ := hL
    simp only [Lvl.toList, List.cons_append, List.nil_append, collapseAllSequences]
    rw [collapseAllLoop]
    simp only [kind_tuple_isRoot h1, kind_tuple_isSeq h1, Bool.false_eq_true, if_false, if_true]
    rcases hasTooMany_root_error ⟨P.op, P.children ++ [T]⟩ s h2 with h | h
    · exact .inl ⟨_, h⟩
    · refine .inr ⟨⟨P.op, _⟩, h2, h, ?_⟩
      have := defect_rootKind h2
      rw [defect_mk, slot_rootKind h2]; simp; omega
  | c C P =>
    obtain ⟨h1, h2⟩ := hL
    simp only [Lvl.toList, List.cons_append, List.nil_append, collapseAllSequences]
    rw [collapseAllLoop]
    simp only [kind_chain_isRoot h1, kind_chain_isSeq h1, Bool.false_eq_true, if_false, if_true]
    rcases hasTooMany_root_error ⟨P.op, P.children ++ [C]⟩ s h2 with h | h
    · exact .inl ⟨_, h⟩
    · refine .inr ⟨⟨P.op, _⟩, h2, h, ?_⟩
      have := defect_rootKind h2
      rw [defect_mk, slot_rootKind h2]; simp; omega
  | tc T C P =>
    obtain ⟨h1, h2, h3⟩ := hL
    simp only [Lvl.toList, List.cons_append, List.nil_append, collapseAllSequences]
    rw [collapseAllLoop]
    simp only [kind_tuple_isRoot h1, kind_tuple_isSeq h1, Bool.false_eq_true, if_false, if_true]
    rw [collapseAllLoop]
    simp only [kind_chain_isRoot h2, kind_chain_isSeq h2, Bool.false_eq_true, if_false, if_true]
    rcases hasTooMany_root_error ⟨P.op, P.children ++ [⟨C.op, C.children ++ [T]⟩]⟩ s h3 with h | h
    · exact .inl ⟨_, h⟩
    · refine .inr ⟨⟨P.op, _⟩, h3, h, ?_⟩
      have := defect_rootKind h3
      have := defect_seq_c h2
      rw [defect_mk, slot_rootKind h3]
      simp [defect_mk, slot_chain h2]; omega

end Evalexpr.Spec
