/-
Proofs/AgreeFnInterface.lean — the string-level entry points of src/interface/mod.rs as translated on this
run (`Generated/FnInterface.lean`) equal the Model's `runString` (`Model/Interface.lean`), for all
source strings and states. `token::tokenize` is a TRANSLATED callee too (`Gen.tokenize`, fuel-indexed; called with the fuel
`Rs.fuel_chars string`, replaced by the Model's `tokenize` with `fn_tokenize_fuel_chars`);
`tree::tokens_to_operator_tree` is a TRANSLATED callee (`Gen.tokens_to_operator_tree`, `Option`-valued: it contains
loops), called through `Rs.converged`, and replaced by the Model's `tokensToOperatorTree` with
`fn_tokens_to_operator_tree_agree` (Proofs/AgreeFnTokensToTree.lean); `build_operator_tree` itself is translated.
Typed results are compared through the embedding of the payload into `Value` (see AgreeFnTree).
-/
import EvalexprVerif.Generated.FnInterface
import EvalexprVerif.Translate.Lemmas
import EvalexprVerif.Proofs.AgreeFnTree
import EvalexprVerif.Proofs.AgreeFnTokensToTree
import EvalexprVerif.Proofs.AgreeFnLexer
import EvalexprVerif.Model.Interface

set_option linter.unusedSimpArgs false

namespace Evalexpr.AgreeFn
open Evalexpr

/-- the interface functions call the fuel-indexed `Gen.tokenize` with `Rs.fuel_chars string` = length + 1 (table `FUEL_CALLS`): by
`fn_tokenize_agree` that fuel suffices, the call is the Model's `tokenize` -/
theorem fn_tokenize_fuel_chars (s : Str) : Gen.tokenize (Rs.fuel_chars s) s = tokenize s :=
  fn_tokenize_agree s _ (Nat.lt_succ_self _)

theorem fn_build_operator_tree_agree (src : Str) : Gen.build_operator_tree src = buildOperatorTree src := by
  simp only [Gen.build_operator_tree, buildOperatorTree, fn_tokens_to_operator_tree_agree, Rs.converged_some, fn_tokenize_fuel_chars]
  generalize tokenize src = t
  rcases t with _ | ts <;> rfl

theorem project_value (r : Res Value) : Kind.value.project r = r := by
  rcases r with _ | v
  · rfl
  · cases v <;> rfl

/-- the untyped string-level evaluators: tokenize, build (early return on error), evaluate the tree -/
macro "untyped_string" : tactic => `(tactic| (
  simp only [Gen.eval_with_context, Gen.eval_with_context_mut, Gen.eval, Rs.call_fresh, runString,
    fn_build_operator_tree_agree, buildOperatorTree, fn_tokens_to_operator_tree_agree, Rs.converged_some, fn_tokenize_fuel_chars,
    runTree, runTreeUntyped, project_value, fn_HashMapContext_new_agree, St.fresh]
  generalize tokenize _ = t
  rcases t with _ | ts
  · first | rfl | simp
  · try simp only [Rs.M.run_try_ok]
    generalize tokensToOperatorTree ts = u
    rcases u with _ | n
    · first | rfl | simp
    · first | rfl | simp [fn_Node_eval_with_context_agree, fn_Node_eval_with_context_mut_agree]))

theorem fn_eval_with_context_agree (src : Str) (s : St) :
    Gen.eval_with_context src s = runString .value .ro src s := by untyped_string
theorem fn_eval_with_context_mut_agree (src : Str) (s : St) :
    Gen.eval_with_context_mut src s = runString .value .mut_ src s := by untyped_string
theorem fn_eval_agree (src : Str) (s : St) : (Gen.eval src, s) = runString .value .fresh src s := by untyped_string

/-- a typed string-level wrapper: the untyped evaluator, then the projection -/
macro "typed_string" ev:term : tactic => `(tactic| (
  simp only [Gen.eval_string_with_context, Gen.eval_int_with_context, Gen.eval_float_with_context, Gen.eval_number_with_context, Gen.eval_boolean_with_context, Gen.eval_tuple_with_context, Gen.eval_empty_with_context, Gen.eval_string_with_context_mut, Gen.eval_int_with_context_mut, Gen.eval_float_with_context_mut, Gen.eval_number_with_context_mut, Gen.eval_boolean_with_context_mut, Gen.eval_tuple_with_context_mut, Gen.eval_empty_with_context_mut, Gen.eval_string, Gen.eval_int, Gen.eval_float, Gen.eval_number, Gen.eval_boolean, Gen.eval_tuple, Gen.eval_empty,
    Rs.call_fresh, Rs.M.run_call_bind, Rs.M.run_pure, Rs.M.run_call, Rs.M.run_try_ok, Rs.M.run_try_error, Rs.M.run_ret, Rs.M.run_pure_bind,
    fn_eval_with_context_agree, fn_eval_with_context_mut_agree, runString, fn_HashMapContext_new_agree, St.fresh]
  generalize buildOperatorTree _ = t
  rcases t with _ | n
  · first | rfl | simp
  · simp only [runTree, runTreeUntyped, project_value, St.fresh]
    generalize $ev _ _ = r
    rcases r with ⟨_ | v, s'⟩
    · first | rfl | simp [Kind.project, Except.map]
    · cases v <;> first | rfl | simp [Kind.project, Except.map]))

theorem fn_eval_string_with_context_agree (src : Str) (s : St) :
    Prod.map (Except.map Value.string) id (Gen.eval_string_with_context src s) = runString .string .ro src s := by typed_string Node.evalRO

theorem fn_eval_int_with_context_agree (src : Str) (s : St) :
    Prod.map (Except.map Value.int) id (Gen.eval_int_with_context src s) = runString .int .ro src s := by typed_string Node.evalRO

theorem fn_eval_float_with_context_agree (src : Str) (s : St) :
    Prod.map (Except.map Value.float) id (Gen.eval_float_with_context src s) = runString .float .ro src s := by typed_string Node.evalRO

theorem fn_eval_number_with_context_agree (src : Str) (s : St) :
    Prod.map (Except.map Value.float) id (Gen.eval_number_with_context src s) = runString .number .ro src s := by typed_string Node.evalRO

theorem fn_eval_boolean_with_context_agree (src : Str) (s : St) :
    Prod.map (Except.map Value.boolean) id (Gen.eval_boolean_with_context src s) = runString .boolean .ro src s := by typed_string Node.evalRO

theorem fn_eval_tuple_with_context_agree (src : Str) (s : St) :
    Prod.map (Except.map Value.tuple) id (Gen.eval_tuple_with_context src s) = runString .tuple .ro src s := by typed_string Node.evalRO

theorem fn_eval_empty_with_context_agree (src : Str) (s : St) :
    Prod.map (Except.map (fun _ => Value.empty)) id (Gen.eval_empty_with_context src s) = runString .empty .ro src s := by typed_string Node.evalRO

theorem fn_eval_string_with_context_mut_agree (src : Str) (s : St) :
    Prod.map (Except.map Value.string) id (Gen.eval_string_with_context_mut src s) = runString .string .mut_ src s := by typed_string Node.evalMut

theorem fn_eval_int_with_context_mut_agree (src : Str) (s : St) :
    Prod.map (Except.map Value.int) id (Gen.eval_int_with_context_mut src s) = runString .int .mut_ src s := by typed_string Node.evalMut

theorem fn_eval_float_with_context_mut_agree (src : Str) (s : St) :
    Prod.map (Except.map Value.float) id (Gen.eval_float_with_context_mut src s) = runString .float .mut_ src s := by typed_string Node.evalMut

theorem fn_eval_number_with_context_mut_agree (src : Str) (s : St) :
    Prod.map (Except.map Value.float) id (Gen.eval_number_with_context_mut src s) = runString .number .mut_ src s := by typed_string Node.evalMut

theorem fn_eval_boolean_with_context_mut_agree (src : Str) (s : St) :
    Prod.map (Except.map Value.boolean) id (Gen.eval_boolean_with_context_mut src s) = runString .boolean .mut_ src s := by typed_string Node.evalMut

theorem fn_eval_tuple_with_context_mut_agree (src : Str) (s : St) :
    Prod.map (Except.map Value.tuple) id (Gen.eval_tuple_with_context_mut src s) = runString .tuple .mut_ src s := by typed_string Node.evalMut

theorem fn_eval_empty_with_context_mut_agree (src : Str) (s : St) :
    Prod.map (Except.map (fun _ => Value.empty)) id (Gen.eval_empty_with_context_mut src s) = runString .empty .mut_ src s := by typed_string Node.evalMut

theorem fn_eval_string_agree (src : Str) (s : St) :
    ((Gen.eval_string src).map Value.string, s) = runString .string .fresh src s := by typed_string Node.evalMut

theorem fn_eval_int_agree (src : Str) (s : St) :
    ((Gen.eval_int src).map Value.int, s) = runString .int .fresh src s := by typed_string Node.evalMut

theorem fn_eval_float_agree (src : Str) (s : St) :
    ((Gen.eval_float src).map Value.float, s) = runString .float .fresh src s := by typed_string Node.evalMut

theorem fn_eval_number_agree (src : Str) (s : St) :
    ((Gen.eval_number src).map Value.float, s) = runString .number .fresh src s := by typed_string Node.evalMut

theorem fn_eval_boolean_agree (src : Str) (s : St) :
    ((Gen.eval_boolean src).map Value.boolean, s) = runString .boolean .fresh src s := by typed_string Node.evalMut

theorem fn_eval_tuple_agree (src : Str) (s : St) :
    ((Gen.eval_tuple src).map Value.tuple, s) = runString .tuple .fresh src s := by typed_string Node.evalMut

theorem fn_eval_empty_agree (src : Str) (s : St) :
    ((Gen.eval_empty src).map (fun _ => Value.empty), s) = runString .empty .fresh src s := by typed_string Node.evalMut

end Evalexpr.AgreeFn
