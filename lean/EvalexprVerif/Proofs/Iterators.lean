/-
Proofs/Iterators.lean — property C14: the explicit-stack iterators visit the descendants in
pre-order, the mutable iterators visit the same nodes, the class-specific identifier iterators are
sub-sequences of `iter_identifiers`, on the tree of an expression they list every identifier
occurrence in source order, renaming through a mutable iterator renames exactly the visited
identifiers, evaluation only reports unknown identifiers the iterators list, and a consistent
injective renaming of the variables does not change the result.
Helper files: `IterClean` (no operator / builtin / `set_value` fabricates an unknown-identifier
error), `IterEval` (shape of `eval_with_context_mut` on expression trees, invariance of the
context's functions, origin of unknown-identifier errors), `IterRename` (the renaming simulation).
-/
import EvalexprVerif.Spec.Idents
import EvalexprVerif.Proofs.IterEval
import EvalexprVerif.Proofs.IterRename

namespace Evalexpr.Spec
open Evalexpr

/-! ### the stack loop is the pre-order traversal -/

/-- all nodes a stack still has to yield -/
def stackNodes : List (List Node) → List Node
  | [] => []
  | f :: st => preorderList f ++ stackNodes st

/-- number of nodes a stack still has to yield -/
def stackSize : List (List Node) → Nat
  | [] => 0
  | f :: st => Node.sizeList f + stackSize st

theorem preorder_eq (n : Node) : preorder n = n :: preorderList n.children := by
  cases n; simp [preorder]

theorem size_eq (n : Node) : n.size = 1 + Node.sizeList n.children := by
  cases n; simp [Node.size]

theorem nodeIterNext_none :
    ∀ st : List (List Node), nodeIterNext st = none → stackNodes st = []
  | [], _ => rfl
  | [] :: st, h => by
    simp only [nodeIterNext] at h
    simp [stackNodes, preorderList, nodeIterNext_none st h]
  | (n :: rest) :: st, h => by simp [nodeIterNext] at h

theorem nodeIterNext_some :
    ∀ (st : List (List Node)) (n : Node) (st' : List (List Node)),
      nodeIterNext st = some (n, st') →
        stackNodes st = n :: stackNodes st' ∧ stackSize st = stackSize st' + 1
  | [], _, _, h => by simp [nodeIterNext] at h
  | [] :: st, n, st', h => by
    simp only [nodeIterNext] at h
    have ih := nodeIterNext_some st n st' h
    simp [stackNodes, stackSize, preorderList, Node.sizeList, ih.1, ih.2]
  | (m :: rest) :: st, n, st', h => by
    simp only [nodeIterNext, Option.some.injEq, Prod.mk.injEq] at h
    obtain ⟨rfl, rfl⟩ := h
    simp only [stackNodes, stackSize, preorderList, Node.sizeList, preorder_eq m, size_eq m,
      List.cons_append, List.append_assoc, true_and]
    omega

theorem collectNodes_eq :
    ∀ (fuel : Nat) (st : List (List Node)), stackSize st < fuel →
      collectNodes fuel st = stackNodes st
  | 0, _, h => by omega
  | fuel + 1, st, h => by
    simp only [collectNodes]
    cases hn : nodeIterNext st with
    | none => simp [nodeIterNext_none st hn]
    | some p =>
      obtain ⟨n, st'⟩ := p
      have := nodeIterNext_some st n st' hn
      simp only [this.1]
      rw [collectNodes_eq fuel st' (by omega)]

/-- the explicit-stack loop of `NodeIter` visits exactly the descendants in pre-order (the fuel
`size + 1` suffices) -/
theorem C14_preorder (n : Node) : n.iter = preorderList n.children := by
  unfold Node.iter
  rw [collectNodes_eq]
  · simp [stackNodes]
  · simp [stackSize, size_eq n]; omega

/-! ### the mutable iterator -/

theorem operatorIterMutNext_eq :
    ∀ st : List (List Node),
      operatorIterMutNext st = (nodeIterNext st).map (fun p => (p.1.op, p.2))
  | [] => rfl
  | [] :: st => by simp only [operatorIterMutNext, nodeIterNext, operatorIterMutNext_eq st]
  | (n :: rest) :: st => rfl

theorem collectOperators_eq :
    ∀ (fuel : Nat) (st : List (List Node)),
      collectOperators fuel st = (collectNodes fuel st).map (·.op)
  | 0, _ => rfl
  | fuel + 1, st => by
    simp only [collectOperators, collectNodes, operatorIterMutNext_eq]
    cases nodeIterNext st with
    | none => rfl
    | some p => simp [collectOperators_eq fuel]

/-- the mutable iterator visits the same nodes, yielding their operators -/
theorem C14_mut_same (n : Node) : n.iterOperatorsMut = n.iter.map (·.op) :=
  collectOperators_eq _ _

/-- hence each mutable identifier iterator visits the same occurrences as its immutable twin -/
theorem C14_mut_idents (n : Node) (k : IterKind) : n.iterIdentsMut k = n.iterIdents k := by
  unfold Node.iterIdentsMut Node.iterIdents
  rw [C14_mut_same]

/-! ### the class-specific iterators -/

theorem filterIdents_eq (k : IterKind) :
    ∀ ops : List Operator,
      filterIdents k ops = ((ops.filterMap Operator.ident).filter (fun p => k.keeps p.1)).map (·.2)
  | [] => rfl
  | o :: ops => by
    have ih := filterIdents_eq k ops
    unfold filterIdents at ih ⊢
    rw [List.filterMap_cons, List.filterMap_cons]
    cases ho : o.ident with
    | none => simpa using ih
    | some p =>
      obtain ⟨c, id⟩ := p
      cases hk : k.keeps c <;> simp [hk, ih]

/-- the class-specific iterators are exactly the corresponding sub-sequences of
`iter_identifiers` -/
theorem C14_classes (n : Node) (k : IterKind) :
    n.iterIdents k = ((identOccurrences n).filter (fun p => k.keeps p.1)).map (·.2) :=
  filterIdents_eq k _

theorem C14_class_sublist (n : Node) (k : IterKind) :
    (n.iterIdents k).Sublist (n.iterIdents .identifiers) := by
  rw [C14_classes, C14_classes n .identifiers]
  apply List.Sublist.map
  have : (identOccurrences n).filter (fun p => IterKind.identifiers.keeps p.1)
      = identOccurrences n := by
    rw [List.filter_eq_self]; intros; rfl
  rw [this]
  exact List.filter_sublist

/-- membership in a class iterator, in terms of the classified occurrences -/
theorem mem_iterIdents {n : Node} {k : IterKind} {x : Str} :
    x ∈ n.iterIdents k ↔ ∃ c, k.keeps c = true ∧ (c, x) ∈ identOccurrences n := by
  rw [C14_classes]
  simp only [List.mem_map, List.mem_filter]
  constructor
  · rintro ⟨⟨c, y⟩, ⟨hm, hk⟩, rfl⟩
    exact ⟨c, hk, hm⟩
  · rintro ⟨c, hk, hm⟩
    exact ⟨(c, x), ⟨hm, hk⟩, rfl⟩

/-! ### occurrences of an expression's tree -/

/-- classified identifiers of a node list in pre-order -/
def occList (cs : List Node) : List (IdentClass × Str) :=
  ((preorderList cs).map (·.op)).filterMap Operator.ident

theorem identOccurrences_eq (n : Node) : identOccurrences n = occList n.children := by
  unfold identOccurrences occList
  rw [C14_preorder]

theorem occList_nil : occList [] = [] := rfl

theorem occList_cons (op : Operator) (cs rest : List Node) :
    occList (⟨op, cs⟩ :: rest) = op.ident.toList ++ occList cs ++ occList rest := by
  unfold occList
  simp only [preorderList, preorder, List.cons_append, List.map_cons, List.map_append,
    List.filterMap_cons, List.filterMap_append]
  cases op.ident <;> simp

theorem occList_wrapTree (b : Bool) (n : Node) (rest : List Node) :
    occList (wrapTree b n :: rest) = occList (n :: rest) := by
  cases b
  · rfl
  · obtain ⟨op, cs⟩ := n
    simp [wrapTree, occList_cons, Operator.ident, occList_nil]

theorem occList_toTree : ∀ (e : Expr) (rest : List Node),
    occList (toTree e :: rest) = occ e ++ occList rest
  | .lit l, rest => by simp [toTree, occList_cons, occ, Operator.ident, occList_nil]
  | .var x, rest => by simp [toTree, occList_cons, occ, Operator.ident, occList_nil]
  | .call f a, rest => by
    simp [toTree, occList_cons, occ, Operator.ident, occList_wrapTree, occList_toTree a,
      occList_nil]
  | .neg e, rest => by
    simp [toTree, occList_cons, occ, Operator.ident, occList_wrapTree, occList_toTree e,
      occList_nil]
  | .not e, rest => by
    simp [toTree, occList_cons, occ, Operator.ident, occList_wrapTree, occList_toTree e,
      occList_nil]
  | .bin op l r, rest => by
    have : op.toOperator.ident = none := by cases op <;> rfl
    simp [toTree, occList_cons, occ, this, occList_wrapTree, occList_toTree l,
      occList_toTree r, occList_nil]
  | .assign op x rhs, rest => by
    have : op.toOperator.ident = none := by cases op <;> rfl
    have hw : (Operator.varWrite x).ident = some (.write, x) := rfl
    simp [toTree, occList_cons, occ, this, hw, occList_wrapTree,
      occList_toTree rhs, occList_nil]
  | .paren e, rest => by
    simp [toTree, occList_cons, occ, Operator.ident, occList_toTree e, occList_nil]

/-- on the tree of an expression the iterators list every identifier occurrence in source
order, correctly classified -/
theorem C14_source (e : Expr) : identOccurrences ⟨.rootNode, [toTree e]⟩ = occ e := by
  rw [identOccurrences_eq]
  simp [occList_toTree, occList_nil]

/-! ### renaming through a mutable iterator -/

theorem renameWith_ident (k : IterKind) (f : Str → Str) (o : Operator) :
    (o.renameWith k f).ident =
      o.ident.map (fun p => (p.1, if k.keeps p.1 then f p.2 else p.2)) := by
  cases o
  case varWrite id => cases h : k.keeps .write <;> simp [Operator.renameWith, Operator.ident, h]
  case varRead id => cases h : k.keeps .read <;> simp [Operator.renameWith, Operator.ident, h]
  case fn id => cases h : k.keeps .function <;> simp [Operator.renameWith, Operator.ident, h]
  all_goals rfl

theorem occList_renameList (k : IterKind) (f : Str → Str) :
    ∀ cs : List Node,
      occList (renameList k f cs) =
        (occList cs).map (fun p => (p.1, if k.keeps p.1 then f p.2 else p.2))
  | [] => by simp [renameList, occList_nil]
  | ⟨op, cs⟩ :: rest => by
    simp only [renameList, occList_cons, occList_renameList k f cs, occList_renameList k f rest,
      renameWith_ident, List.map_append]
    cases op.ident <;> simp

/-- the effect of renaming through a mutable iterator: every visited identifier of the kept
classes is renamed, nothing else changes -/
theorem C14_rename_occurrences (n : Node) (k : IterKind) (f : Str → Str) :
    identOccurrences (n.renameDesc k f) =
      (identOccurrences n).map (fun p => (p.1, if k.keeps p.1 then f p.2 else p.2)) := by
  obtain ⟨op, cs⟩ := n
  simp only [Node.renameDesc, identOccurrences_eq, occList_renameList]

/-! ### evaluation and the iterators -/

/-- evaluation of an expression can only report an unknown variable that the iterators list
(user functions must not fabricate such errors themselves) -/
theorem C14_unknown_var (e : Expr) (s : St) (x : Str) (hnf : NoFabricate s.ctx)
    (h : ((Node.mk .rootNode [toTree e]).evalMut s).1 = .error (.variableIdentifierNotFound x)) :
    x ∈ (Node.mk .rootNode [toTree e]).iterIdents .variable := by
  rw [evalMut_root1] at h
  rw [mem_iterIdents, C14_source]
  rcases (toTree_unk e s hnf).1 x h with hx | hx
  · exact ⟨.read, rfl, hx⟩
  · exact ⟨.write, rfl, hx⟩

/-- evaluation of an expression can only report an unknown function that the iterators list -/
theorem C14_unknown_fn (e : Expr) (s : St) (f : Str) (hnf : NoFabricate s.ctx)
    (h : ((Node.mk .rootNode [toTree e]).evalMut s).1 = .error (.functionIdentifierNotFound f)) :
    f ∈ (Node.mk .rootNode [toTree e]).iterIdents .function := by
  rw [evalMut_root1] at h
  rw [mem_iterIdents, C14_source]
  exact ⟨.function, rfl, (toTree_unk e s hnf).2 f h⟩

/-! ### the planned statement of `C14_rename` (no hypothesis on the user functions) is false -/

def cexH : HashMapCtx :=
  { vars := [], funs := [(cl!"f", fun _ => .error (.variableIdentifierNotFound cl!"a"))], noBuiltins := false }
def cexE : Expr := .call cl!"f" (.lit (.int 1))
def cexR : Str → Str := fun s => 'z' :: s

theorem cexR_inj : Function.Injective cexR := fun a b h => by
  simpa [cexR] using h

/-- the statement of `C14_rename` without a hypothesis on the user functions is false -/
theorem C14_rename_unrestricted_false :
    ¬ (∀ (e : Expr) (r : Str → Str) (_ : Function.Injective r) (h : HashMapCtx) (log : List (Str × Value)),
      let t : Node := ⟨.rootNode, [toTree e]⟩
      let out := t.evalMut ⟨.hashMap h, log⟩
      let out' := (t.renameDesc .variable r).evalMut ⟨.hashMap (renameVars r h), log⟩
      out'.1 = renameRes r out.1 ∧ out'.2.log = out.2.log ∧
        (∃ h₁, out.2.ctx = .hashMap h₁ ∧ out'.2.ctx = .hashMap (renameVars r h₁))) := by
  intro hall
  have h1 := (hall cexE cexR cexR_inj cexH []).1
  have e1 : ((Node.mk .rootNode [toTree cexE]).evalMut ⟨.hashMap cexH, []⟩).1
      = .error (.variableIdentifierNotFound cl!"a") := rfl
  have e2 : (((Node.mk .rootNode [toTree cexE]).renameDesc .variable cexR).evalMut
      ⟨.hashMap (renameVars cexR cexH), []⟩).1 = .error (.variableIdentifierNotFound cl!"a") := by
    have : (Node.mk .rootNode [toTree cexE]).renameDesc .variable cexR
        = Node.mk .rootNode [toTree cexE] := by
      simp [cexE, toTree, wrapTree, needsParenArg, Expr.headPrec,
        Node.renameDesc, renameList_cons, renameList_nil, rnNode, Operator.renameWith,
        IterKind.keeps]
    rw [this]
    rfl
  simp only [e1, e2, renameRes, Err.renameVar, cexR] at h1
  simp at h1
/-- consistently renaming the variables (injectively) in the tree and in the context does not
change the result, provided the answers of the user functions are not themselves affected by the
renaming (`FnStable`: `renameRes r (f arg) = f arg` for every function of the context).

CHANGED w.r.t. the planned statement: the hypothesis `hst` is new. Without it the statement is
false: with `h.funs = [("f", fun _ => .error (.variableIdentifierNotFound "a"))]`, `e = f(1)` and
`r s = 'z' :: s`, both runs answer `VariableIdentifierNotFound("a")`, but the claimed result of the
renamed run is `VariableIdentifierNotFound("za")` (machine-checked: `C14_rename_unrestricted_false`). -/
theorem C14_rename_stable (e : Expr) (r : Str → Str) (hinj : Function.Injective r) (h : HashMapCtx)
    (log : List (Str × Value)) (hst : FnStable r h.funs) :
    let t : Node := ⟨.rootNode, [toTree e]⟩
    let out := t.evalMut ⟨.hashMap h, log⟩
    let out' := (t.renameDesc .variable r).evalMut ⟨.hashMap (renameVars r h), log⟩
    out'.1 = renameRes r out.1 ∧ out'.2.log = out.2.log ∧
      (∃ h₁, out.2.ctx = .hashMap h₁ ∧ out'.2.ctx = .hashMap (renameVars r h₁)) := by
  intro t out out'
  have ht : t.renameDesc .variable r = ⟨.rootNode, [rnNode .variable r (toTree e)]⟩ := by
    simp only [t, Node.renameDesc, renameList_cons, renameList_nil]
  have hsim := sim_toTree hinj hst e h log rfl
  have ho : out = (toTree e).evalMut ⟨.hashMap h, log⟩ := evalMut_root1 _ _
  have ho' : out' = (rnNode .variable r (toTree e)).evalMut ⟨.hashMap (renameVars r h), log⟩ := by
    simp only [out', ht, evalMut_root1]
  rw [ho, ho', renameRes_eq]
  obtain ⟨h1, h2, h₁, h3, h4, _⟩ := hsim
  exact ⟨h1, h2, h₁, h3, h4⟩

/-- consistently renaming the variables (injectively) in the tree and in the context does not
change the result (user functions must not fabricate unknown-identifier errors themselves).

CHANGED w.r.t. the planned statement: the hypothesis `hnf` is new (see `C14_rename_stable` for the
counterexample and the weakest hypothesis used). -/
theorem C14_rename (e : Expr) (r : Str → Str) (hinj : Function.Injective r) (h : HashMapCtx)
    (log : List (Str × Value)) (hnf : NoFabricate (.hashMap h)) :
    let t : Node := ⟨.rootNode, [toTree e]⟩
    let out := t.evalMut ⟨.hashMap h, log⟩
    let out' := (t.renameDesc .variable r).evalMut ⟨.hashMap (renameVars r h), log⟩
    out'.1 = renameRes r out.1 ∧ out'.2.log = out.2.log ∧
      (∃ h₁, out.2.ctx = .hashMap h₁ ∧ out'.2.ctx = .hashMap (renameVars r h₁)) :=
  C14_rename_stable e r hinj h log (FnStable.of_noFabricate hnf)

end Evalexpr.Spec
