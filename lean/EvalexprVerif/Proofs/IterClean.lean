/-
Proofs/IterClean.lean — auxiliary to property C14: neither the context-free operator arms, nor
the builtin functions, nor `set_value` ever answer with `VariableIdentifierNotFound` /
`FunctionIdentifierNotFound`.
-/
import EvalexprVerif.Spec.Idents

namespace Evalexpr.Spec
open Evalexpr

/-- the two unknown-identifier errors -/
def Err.isUnknown : Err → Bool
  | .variableIdentifierNotFound _ | .functionIdentifierNotFound _ => true
  | _ => false

/-- a result that is not an unknown-identifier error -/
def Clean {α : Type} : Res α → Prop
  | .ok _ => True
  | .error e => Err.isUnknown e = false

@[simp] theorem clean_ok {α : Type} (a : α) : Clean (.ok a : Res α) := trivial
@[simp] theorem clean_error {α : Type} (e : Err) :
    Clean (.error e : Res α) ↔ Err.isUnknown e = false := Iff.rfl

@[simp] theorem clean_map {α β : Type} (f : α → β) (r : Res α) : Clean (Except.map f r) ↔ Clean r := by
  cases r <;> rfl

theorem Clean.not_var {α : Type} {r : Res α} (h : Clean r) (x : Str) :
    r ≠ .error (.variableIdentifierNotFound x) := by
  rintro rfl; simp [Err.isUnknown] at h

theorem Clean.not_fn {α : Type} {r : Res α} (h : Clean r) (x : Str) :
    r ≠ .error (.functionIdentifierNotFound x) := by
  rintro rfl; simp [Err.isUnknown] at h

theorem Clean.renameRes {r : Res Value} (h : Clean r) (ρ : Str → Str) : renameRes ρ r = r := by
  cases r with
  | ok v => rfl
  | error e => cases e <;> first | rfl | simp [Err.isUnknown] at h

/-! ### accessors and checked arithmetic -/

@[simp] theorem clean_asString (v : Value) : Clean v.asString := by
  cases v <;> simp [Value.asString, Err.isUnknown]
@[simp] theorem clean_asInt (v : Value) : Clean v.asInt := by
  cases v <;> simp [Value.asInt, Err.isUnknown]
@[simp] theorem clean_asNumber (v : Value) : Clean v.asNumber := by
  cases v <;> simp [Value.asNumber, Err.isUnknown]
@[simp] theorem clean_asBoolean (v : Value) : Clean v.asBoolean := by
  cases v <;> simp [Value.asBoolean, Err.isUnknown]
@[simp] theorem clean_expectNumberOrString (v : Value) : Clean (expectNumberOrString v) := by
  cases v <;> simp [expectNumberOrString, Err.isUnknown]
@[simp] theorem clean_asFixedLenTuple (v : Value) (n : Nat) : Clean (v.asFixedLenTuple n) := by
  cases v <;> simp [Value.asFixedLenTuple, Err.isUnknown]
  split <;> simp [Err.isUnknown]
@[simp] theorem clean_asRangedLenTuple (v : Value) (a b : Nat) : Clean (v.asRangedLenTuple a b) := by
  cases v <;> simp [Value.asRangedLenTuple, Err.isUnknown]
  split <;> simp [Err.isUnknown]

/-- from a clean scrutinee: the error branch of a `match` is clean -/
theorem clean_of_eq_error {α : Type} {r : Res α} {e : Err} (h : Clean r) (he : r = .error e) :
    Err.isUnknown e = false := by
  subst he; exact h

@[simp] theorem clean_checkedAdd (a b : Int64) : Clean (checkedAdd a b) := by
  unfold checkedAdd; split <;> simp [Err.isUnknown]
@[simp] theorem clean_checkedSub (a b : Int64) : Clean (checkedSub a b) := by
  unfold checkedSub; split <;> simp [Err.isUnknown]
@[simp] theorem clean_checkedMul (a b : Int64) : Clean (checkedMul a b) := by
  unfold checkedMul; split <;> simp [Err.isUnknown]
@[simp] theorem clean_checkedNeg (a : Int64) : Clean (checkedNeg a) := by
  unfold checkedNeg; split <;> simp [Err.isUnknown]
/- `checkedAbs a` must not be unfolded naively: reducing `i64Of ↑a.toInt.natAbs` sends both the
elaborator and the kernel into `Nat.sub _ (2 ^ 63)`; the function `i64Of` is abstracted first. -/
@[simp] theorem clean_checkedAbs (a : Int64) : Clean (checkedAbs a) := by
  revert a
  generalize hf : checkedAbs = f
  delta checkedAbs at hf
  generalize i64Of = j at hf
  subst hf
  intro a
  dsimp only
  cases j _
  · rfl
  · trivial
@[simp] theorem clean_checkedDiv (a b : Int64) : Clean (checkedDiv a b) := by
  unfold checkedDiv; repeat' split
  all_goals simp [Err.isUnknown]
@[simp] theorem clean_checkedRem (a b : Int64) : Clean (checkedRem a b) := by
  unfold checkedRem; repeat' split
  all_goals simp [Err.isUnknown]
@[simp] theorem clean_intFromUsize (n : Nat) : Clean (intFromUsize n) := by
  unfold intFromUsize; split <;> simp [Err.isUnknown]

/-- closes a goal `Clean r` after all matches have been split -/
macro "clean_close" : tactic => `(tactic| first
  | (simp [Err.isUnknown, wrongArgs]; done)
  | exact clean_of_eq_error (clean_asInt _) (by assumption)
  | exact clean_of_eq_error (clean_asString _) (by assumption)
  | exact clean_of_eq_error (clean_asNumber _) (by assumption)
  | exact clean_of_eq_error (clean_asBoolean _) (by assumption)
  | exact clean_of_eq_error (clean_expectNumberOrString _) (by assumption)
  | exact clean_of_eq_error (clean_asFixedLenTuple _ _) (by assumption)
  | exact clean_of_eq_error (clean_asRangedLenTuple _ _ _) (by assumption))

macro "clean_split" : tactic => `(tactic| (repeat' (first | split | dsimp only)) <;> clean_close)

/-! ### the context-free operator arms -/

theorem clean_arith (fi : Int64 → Int64 → Res Int64) (ff : Float → Float → Float)
    (hfi : ∀ a b, Clean (fi a b)) (args : List Value) : Clean (arith fi ff args) := by
  unfold arith
  repeat' split
  all_goals first | clean_close | simp [hfi]

theorem clean_compare (c : Cmp) (args : List Value) : Clean (compare c args) := by
  unfold compare; clean_split

theorem clean_logic (f : Bool → Bool → Bool) (args : List Value) : Clean (logic f args) := by
  unfold logic; clean_split

theorem clean_evalPure (op : Operator) (args : List Value) : Clean (op.evalPure args) := by
  cases op
  case sub => exact clean_arith _ _ clean_checkedSub _
  case mul => exact clean_arith _ _ clean_checkedMul _
  case div => exact clean_arith _ _ clean_checkedDiv _
  case mod => exact clean_arith _ _ clean_checkedRem _
  case gt => exact clean_compare _ _
  case lt => exact clean_compare _ _
  case geq => exact clean_compare _ _
  case leq => exact clean_compare _ _
  case and => exact clean_logic _ _
  case or => exact clean_logic _ _
  all_goals
    simp only [Operator.evalPure]
    first | clean_close | clean_split

/-! ### `set_value` -/

theorem expectedType_not_unknown (a b : Value) : Err.isUnknown (Err.expectedType a b) = false := by
  unfold Err.expectedType; split <;> rfl

theorem clean_hashMap_setValue (h : HashMapCtx) (id : Str) (v : Value) : Clean (h.setValue id v) := by
  unfold HashMapCtx.setValue
  split
  · split <;> simp [expectedType_not_unknown]
  · simp

theorem clean_ctx_setValue (c : Ctx) (id : Str) (v : Value) : Clean (c.setValue id v) := by
  cases c <;> simp [Ctx.setValue, clean_hashMap_setValue, Err.isUnknown]

/-! ### builtins -/

theorem clean_simpleMath1 (f : Float → Float) (arg : Value) : Clean (simpleMath1 f arg) := by
  unfold simpleMath1; clean_split

theorem clean_floatIs (f : Float → Bool) (arg : Value) : Clean (floatIs f arg) := by
  unfold floatIs; clean_split

theorem clean_simpleMath2 (f : Float → Float → Float) (arg : Value) : Clean (simpleMath2 f arg) := by
  unfold simpleMath2; clean_split

theorem clean_intFunction1 (f : Int64 → Int64) (arg : Value) : Clean (intFunction1 f arg) := by
  unfold intFunction1; clean_split

theorem clean_intFunction2 (f : Int64 → Int64 → Int64) (arg : Value) : Clean (intFunction2 f arg) := by
  unfold intFunction2; clean_split

theorem clean_minMaxFold (fi : Int64 → Int64 → Int64) (ff : Float → Float → Float) :
    ∀ (l : List Value) (mi : Option Int64) (mf : Option Float), Clean (minMaxFold fi ff l mi mf)
  | [], _, _ => by simp [minMaxFold]
  | .float f :: rest, mi, mf => by simp only [minMaxFold]; exact clean_minMaxFold fi ff rest _ _
  | .int i :: rest, mi, mf => by simp only [minMaxFold]; exact clean_minMaxFold fi ff rest _ _
  | .string _ :: _, _, _ => by simp [minMaxFold, Err.isUnknown]
  | .boolean _ :: _, _, _ => by simp [minMaxFold, Err.isUnknown]
  | .tuple _ :: _, _, _ => by simp [minMaxFold, Err.isUnknown]
  | .empty :: _, _, _ => by simp [minMaxFold, Err.isUnknown]

theorem clean_minMax (fi : Int64 → Int64 → Int64) (ff : Float → Float → Float)
    (p : Float → Float → Bool) (arg : Value) : Clean (minMax fi ff p arg) := by
  unfold minMax
  repeat' split
  all_goals first
    | clean_close
    | exact clean_of_eq_error (clean_minMaxFold _ _ _ _ _) (by assumption)

theorem clean_containsAnyLoop (a : List Value) :
    ∀ (l : List Value) (acc : Bool), Clean (containsAnyLoop a l acc)
  | [], _ => by simp [containsAnyLoop]
  | v :: rest, acc => by
    simp only [containsAnyLoop]
    split
    · exact clean_containsAnyLoop a rest _
    · simp [Err.isUnknown]

theorem clean_substring (arg : Value) : Clean (substring arg) := by
  unfold substring; clean_split

theorem clean_builtin_call (b : Builtin) (arg : Value) : Clean (b.call arg) := by
  cases b
  all_goals simp only [Builtin.call]
  case min => exact clean_minMax _ _ _ _
  case max => exact clean_minMax _ _ _ _
  case containsAny =>
    repeat' split
    all_goals first | clean_close | simp [clean_containsAnyLoop]
  case strSubstring => exact clean_substring _
  all_goals first
    | exact clean_simpleMath1 _ _
    | exact clean_simpleMath2 _ _
    | exact clean_intFunction1 _ _
    | exact clean_intFunction2 _ _
    | exact clean_floatIs _ _
    | clean_close
    | clean_split

end Evalexpr.Spec
