/-
Proofs/AgreeFnTree.lean — `Node::eval_with_context` and `Node::eval_with_context_mut` as translated from
src/tree/mod.rs on this run (`Generated/FnTree.lean`) equal the Model's `Node.evalRO` / `Node.evalMut`
for ALL trees and states.

Generic scripts: well-founded induction on the tree; the `for child in self.children()` loop is
identified with the Model's list evaluator through `Rs.M.run_forIn_push_bind`, whose hypothesis (one
iteration = evaluate the child, stop on error, append the value) is discharged by symbolic execution
of the generated loop body, whatever its syntactic shape.
-/
import EvalexprVerif.Generated.FnTree
import EvalexprVerif.Translate.Lemmas
import EvalexprVerif.Proofs.AgreeFnOperator

namespace Evalexpr.AgreeFn
open Evalexpr

theorem fn_Node_children_agree (n : Node) : Gen.Node.children n = n.children := rfl
theorem fn_Node_operator_agree (n : Node) : Gen.Node.operator n = n.op := rfl

theorem evalROList_eq (cs : List Node) (s : St) : evalROList cs s = Rs.seqList Node.evalRO cs s := by
  induction cs generalizing s with
  | nil => rfl
  | cons c cs ih =>
    rw [evalROList, Rs.seqList]
    generalize Node.evalRO c s = r
    rcases r with ⟨_ | v, s1⟩
    · rfl
    · simp only [ih]
      generalize Rs.seqList Node.evalRO cs s1 = r
      rcases r with ⟨_ | _, _⟩ <;> rfl

theorem evalMutList_eq (cs : List Node) (s : St) : evalMutList cs s = Rs.seqList Node.evalMut cs s := by
  induction cs generalizing s with
  | nil => rfl
  | cons c cs ih =>
    rw [evalMutList, Rs.seqList]
    generalize Node.evalMut c s = r
    rcases r with ⟨_ | v, s1⟩
    · rfl
    · simp only [ih]
      generalize Rs.seqList Node.evalMut cs s1 = r
      rcases r with ⟨_ | _, _⟩ <;> rfl

theorem fn_Node_eval_with_context_agree (n : Node) (s : St) :
    Gen.Node.eval_with_context n s = Node.evalRO n s := by
  have IH : ∀ c ∈ n.children, ∀ s, Gen.Node.eval_with_context c s = Node.evalRO c s :=
    fun c _ s => fn_Node_eval_with_context_agree c s
  rcases n with ⟨op, cs⟩
  rw [Gen.Node.eval_with_context.eq_1]
  simp only [fn_Node_children_agree, fn_Node_operator_agree, Rs.Vec.new_def]
  rw [Rs.M.run_forIn_push_bind Node.evalRO]
  · simp [fn_Operator_eval_agree, Node.evalRO, evalROList_eq]
    generalize Rs.seqList Node.evalRO cs s = r
    rcases r with ⟨_ | _, _⟩ <;> simp
  · rintro ⟨c, hc⟩ acc k s
    simp [IH c hc]
    generalize Node.evalRO c s = r
    rcases r with ⟨_ | _, _⟩ <;> simp
termination_by sizeOf n
decreasing_by exact Rs.node_lt (by assumption)

theorem fn_Node_eval_with_context_mut_agree (n : Node) (s : St) :
    Gen.Node.eval_with_context_mut n s = Node.evalMut n s := by
  have IH : ∀ c ∈ n.children, ∀ s, Gen.Node.eval_with_context_mut c s = Node.evalMut c s :=
    fun c _ s => fn_Node_eval_with_context_mut_agree c s
  rcases n with ⟨op, cs⟩
  rw [Gen.Node.eval_with_context_mut.eq_1]
  simp only [fn_Node_children_agree, fn_Node_operator_agree, Rs.Vec.new_def]
  rw [Rs.M.run_forIn_push_bind Node.evalMut]
  · simp [fn_Operator_eval_mut_agree, Node.evalMut, evalMutList_eq]
    generalize Rs.seqList Node.evalMut cs s = r
    rcases r with ⟨_ | _, _⟩ <;> simp
  · rintro ⟨c, hc⟩ acc k s
    simp [IH c hc]
    generalize Node.evalMut c s = r
    rcases r with ⟨_ | _, _⟩ <;> simp
termination_by sizeOf n
decreasing_by exact Rs.node_lt (by assumption)

end Evalexpr.AgreeFn
