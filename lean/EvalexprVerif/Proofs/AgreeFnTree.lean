/-
Proofs/AgreeFnTree.lean — `Node::eval_with_context` and `Node::eval_with_context_mut` as translated from
src/tree/mod.rs on this run (`Generated/FnTree.lean`) equal the Model's `Node.evalRO` / `Node.evalMut`
for ALL trees and states.

Generic scripts: well-founded induction on the tree; the `for child in self.children()` loop is
identified with the Model's list evaluator through `Rs.M.run_forIn_push_bind`, whose hypothesis (one
iteration = evaluate the child, stop on error, append the value) is discharged by symbolic execution
of the generated loop body, whatever its syntactic shape.
-/
import EvalexprVerif.Generated.FnTree
import EvalexprVerif.Translate.Lemmas
import EvalexprVerif.Proofs.AgreeFnOperator
import EvalexprVerif.Proofs.AgreeFnContext
import EvalexprVerif.Model.Interface

set_option linter.unusedSimpArgs false

namespace Evalexpr.AgreeFn
open Evalexpr

theorem fn_Node_children_agree (n : Node) : Gen.Node.children n = n.children := rfl
theorem fn_Node_operator_agree (n : Node) : Gen.Node.operator n = n.op := rfl

theorem evalROList_eq (cs : List Node) (s : St) : evalROList cs s = Rs.seqList Node.evalRO cs s := by
  induction cs generalizing s with
  | nil => rfl
  | cons c cs ih =>
    rw [evalROList, Rs.seqList]
    generalize Node.evalRO c s = r
    rcases r with ⟨_ | v, s1⟩
    · rfl
    · simp only [ih]
      generalize Rs.seqList Node.evalRO cs s1 = r
      rcases r with ⟨_ | _, _⟩ <;> rfl

theorem evalMutList_eq (cs : List Node) (s : St) : evalMutList cs s = Rs.seqList Node.evalMut cs s := by
  induction cs generalizing s with
  | nil => rfl
  | cons c cs ih =>
    rw [evalMutList, Rs.seqList]
    generalize Node.evalMut c s = r
    rcases r with ⟨_ | v, s1⟩
    · rfl
    · simp only [ih]
      generalize Rs.seqList Node.evalMut cs s1 = r
      rcases r with ⟨_ | _, _⟩ <;> rfl

theorem fn_Node_eval_with_context_agree (n : Node) (s : St) :
    Gen.Node.eval_with_context n s = Node.evalRO n s := by
  have IH : ∀ c ∈ n.children, ∀ s, Gen.Node.eval_with_context c s = Node.evalRO c s :=
    fun c _ s => fn_Node_eval_with_context_agree c s
  rcases n with ⟨op, cs⟩
  rw [Gen.Node.eval_with_context.eq_1]
  simp only [fn_Node_children_agree, fn_Node_operator_agree, Rs.Vec.new_def]
  rw [Rs.M.run_forIn_push_bind Node.evalRO]
  · simp [fn_Operator_eval_agree, Node.evalRO, evalROList_eq]
    generalize Rs.seqList Node.evalRO cs s = r
    rcases r with ⟨_ | _, _⟩ <;> simp
  · rintro ⟨c, hc⟩ acc k s
    simp [IH c hc]
    generalize Node.evalRO c s = r
    rcases r with ⟨_ | _, _⟩ <;> simp
termination_by sizeOf n
decreasing_by exact Rs.node_lt (by assumption)

theorem fn_Node_eval_with_context_mut_agree (n : Node) (s : St) :
    Gen.Node.eval_with_context_mut n s = Node.evalMut n s := by
  have IH : ∀ c ∈ n.children, ∀ s, Gen.Node.eval_with_context_mut c s = Node.evalMut c s :=
    fun c _ s => fn_Node_eval_with_context_mut_agree c s
  rcases n with ⟨op, cs⟩
  rw [Gen.Node.eval_with_context_mut.eq_1]
  simp only [fn_Node_children_agree, fn_Node_operator_agree, Rs.Vec.new_def]
  rw [Rs.M.run_forIn_push_bind Node.evalMut]
  · simp [fn_Operator_eval_mut_agree, Node.evalMut, evalMutList_eq]
    generalize Rs.seqList Node.evalMut cs s = r
    rcases r with ⟨_ | _, _⟩ <;> simp
  · rintro ⟨c, hc⟩ acc k s
    simp [IH c hc]
    generalize Node.evalMut c s = r
    rcases r with ⟨_ | _, _⟩ <;> simp
termination_by sizeOf n
decreasing_by exact Rs.node_lt (by assumption)

/-! ### the typed and the context-free tree-level entry points (`Model/Interface.lean`: `runTree`)

A Rust entry point of kind `k` returns the payload (`String`, `i64`, `f64`, `bool`, `TupleType`, `()`);
the Model represents a typed result by the `Value` of that variant: the agreement is stated through
that embedding (`Except.map Value.string` …; `eval_number*` embeds with `Value.float`). The context-free
forms build `&mut HashMapContext::new()` in place: result only, the caller's state is untouched
(`Mode.fresh`). -/


/-- unfold the wrapper, execute it, then split on the evaluator's answer and on the value variant -/
macro "typed_tree" ev:term : tactic => `(tactic| (
  simp only [Gen.Node.eval_string_with_context, Gen.Node.eval_int_with_context, Gen.Node.eval_float_with_context, Gen.Node.eval_number_with_context, Gen.Node.eval_boolean_with_context, Gen.Node.eval_tuple_with_context, Gen.Node.eval_empty_with_context, Gen.Node.eval_string_with_context_mut, Gen.Node.eval_int_with_context_mut, Gen.Node.eval_float_with_context_mut, Gen.Node.eval_number_with_context_mut, Gen.Node.eval_boolean_with_context_mut, Gen.Node.eval_tuple_with_context_mut, Gen.Node.eval_empty_with_context_mut, Gen.Node.eval_string, Gen.Node.eval_int, Gen.Node.eval_float, Gen.Node.eval_number, Gen.Node.eval_boolean, Gen.Node.eval_tuple, Gen.Node.eval_empty, Gen.Node.eval,
    Rs.call_fresh, Rs.M.run_call_bind, Rs.M.run_pure, Rs.M.run_call, Rs.M.run_try_ok, Rs.M.run_try_error, Rs.M.run_ret, Rs.M.run_pure_bind,
    fn_Node_eval_with_context_agree, fn_Node_eval_with_context_mut_agree, runTree, runTreeUntyped,
    fn_HashMapContext_new_agree, St.fresh]
  generalize $ev _ _ = r
  rcases r with ⟨_ | v, s'⟩
  · first | rfl | simp [Kind.project, Except.map]
  · cases v <;> first | rfl | simp [Kind.project, Except.map]))

theorem fn_Node_eval_agree (n : Node) (s : St) : (Gen.Node.eval n, s) = runTreeUntyped .fresh n s := by
  simp only [Gen.Node.eval, Rs.call_fresh, fn_Node_eval_with_context_mut_agree, runTreeUntyped, fn_HashMapContext_new_agree, St.fresh]

theorem fn_Node_eval_string_with_context_agree (n : Node) (s : St) :
    Prod.map (Except.map Value.string) id (Gen.Node.eval_string_with_context n s) = runTree .string .ro n s := by typed_tree Node.evalRO

theorem fn_Node_eval_int_with_context_agree (n : Node) (s : St) :
    Prod.map (Except.map Value.int) id (Gen.Node.eval_int_with_context n s) = runTree .int .ro n s := by typed_tree Node.evalRO

theorem fn_Node_eval_float_with_context_agree (n : Node) (s : St) :
    Prod.map (Except.map Value.float) id (Gen.Node.eval_float_with_context n s) = runTree .float .ro n s := by typed_tree Node.evalRO

theorem fn_Node_eval_number_with_context_agree (n : Node) (s : St) :
    Prod.map (Except.map Value.float) id (Gen.Node.eval_number_with_context n s) = runTree .number .ro n s := by typed_tree Node.evalRO

theorem fn_Node_eval_boolean_with_context_agree (n : Node) (s : St) :
    Prod.map (Except.map Value.boolean) id (Gen.Node.eval_boolean_with_context n s) = runTree .boolean .ro n s := by typed_tree Node.evalRO

theorem fn_Node_eval_tuple_with_context_agree (n : Node) (s : St) :
    Prod.map (Except.map Value.tuple) id (Gen.Node.eval_tuple_with_context n s) = runTree .tuple .ro n s := by typed_tree Node.evalRO

theorem fn_Node_eval_empty_with_context_agree (n : Node) (s : St) :
    Prod.map (Except.map (fun _ => Value.empty)) id (Gen.Node.eval_empty_with_context n s) = runTree .empty .ro n s := by typed_tree Node.evalRO

theorem fn_Node_eval_string_with_context_mut_agree (n : Node) (s : St) :
    Prod.map (Except.map Value.string) id (Gen.Node.eval_string_with_context_mut n s) = runTree .string .mut_ n s := by typed_tree Node.evalMut

theorem fn_Node_eval_int_with_context_mut_agree (n : Node) (s : St) :
    Prod.map (Except.map Value.int) id (Gen.Node.eval_int_with_context_mut n s) = runTree .int .mut_ n s := by typed_tree Node.evalMut

theorem fn_Node_eval_float_with_context_mut_agree (n : Node) (s : St) :
    Prod.map (Except.map Value.float) id (Gen.Node.eval_float_with_context_mut n s) = runTree .float .mut_ n s := by typed_tree Node.evalMut

theorem fn_Node_eval_number_with_context_mut_agree (n : Node) (s : St) :
    Prod.map (Except.map Value.float) id (Gen.Node.eval_number_with_context_mut n s) = runTree .number .mut_ n s := by typed_tree Node.evalMut

theorem fn_Node_eval_boolean_with_context_mut_agree (n : Node) (s : St) :
    Prod.map (Except.map Value.boolean) id (Gen.Node.eval_boolean_with_context_mut n s) = runTree .boolean .mut_ n s := by typed_tree Node.evalMut

theorem fn_Node_eval_tuple_with_context_mut_agree (n : Node) (s : St) :
    Prod.map (Except.map Value.tuple) id (Gen.Node.eval_tuple_with_context_mut n s) = runTree .tuple .mut_ n s := by typed_tree Node.evalMut

theorem fn_Node_eval_empty_with_context_mut_agree (n : Node) (s : St) :
    Prod.map (Except.map (fun _ => Value.empty)) id (Gen.Node.eval_empty_with_context_mut n s) = runTree .empty .mut_ n s := by typed_tree Node.evalMut

theorem fn_Node_eval_string_agree (n : Node) (s : St) :
    ((Gen.Node.eval_string n).map Value.string, s) = runTree .string .fresh n s := by typed_tree Node.evalMut

theorem fn_Node_eval_int_agree (n : Node) (s : St) :
    ((Gen.Node.eval_int n).map Value.int, s) = runTree .int .fresh n s := by typed_tree Node.evalMut

theorem fn_Node_eval_float_agree (n : Node) (s : St) :
    ((Gen.Node.eval_float n).map Value.float, s) = runTree .float .fresh n s := by typed_tree Node.evalMut

theorem fn_Node_eval_number_agree (n : Node) (s : St) :
    ((Gen.Node.eval_number n).map Value.float, s) = runTree .number .fresh n s := by typed_tree Node.evalMut

theorem fn_Node_eval_boolean_agree (n : Node) (s : St) :
    ((Gen.Node.eval_boolean n).map Value.boolean, s) = runTree .boolean .fresh n s := by typed_tree Node.evalMut

theorem fn_Node_eval_tuple_agree (n : Node) (s : St) :
    ((Gen.Node.eval_tuple n).map Value.tuple, s) = runTree .tuple .fresh n s := by typed_tree Node.evalMut

theorem fn_Node_eval_empty_agree (n : Node) (s : St) :
    ((Gen.Node.eval_empty n).map (fun _ => Value.empty), s) = runTree .empty .fresh n s := by typed_tree Node.evalMut

end Evalexpr.AgreeFn
