/-
Proofs/AgreeFnValue.lean — the functions of src/value/mod.rs and src/value/value_type.rs translated on
this run (`Generated/FnValue.lean`) equal the Model's definitions, for all inputs.
-/
import EvalexprVerif.Generated.FnValue

namespace Evalexpr.AgreeFn
open Evalexpr

theorem fn_Value_as_string_agree (v : Value) : Gen.Value.as_string v = v.asString := by cases v <;> rfl
theorem fn_Value_as_int_agree (v : Value) : Gen.Value.as_int v = v.asInt := by cases v <;> rfl
theorem fn_Value_as_float_agree (v : Value) : Gen.Value.as_float v = v.asFloat := by cases v <;> rfl
theorem fn_Value_as_number_agree (v : Value) : Gen.Value.as_number v = v.asNumber := by cases v <;> rfl
theorem fn_Value_as_boolean_agree (v : Value) : Gen.Value.as_boolean v = v.asBoolean := by cases v <;> rfl
theorem fn_Value_as_tuple_agree (v : Value) : Gen.Value.as_tuple v = v.asTuple := by cases v <;> rfl
theorem fn_Value_as_empty_agree (v : Value) : Gen.Value.as_empty v = v.asEmpty := by cases v <;> rfl
theorem fn_Value_as_fixed_len_tuple_agree (v : Value) (len : Nat) :
    Gen.Value.as_fixed_len_tuple v len = v.asFixedLenTuple len := by cases v <;> rfl

/-- `impl From<String> for Value` (the meaning of `.into()` at `String → Value`) -/
theorem fn_Value_from_String_agree (s : Str) : (Rs.into s : Value) = .string s := rfl
theorem fn_Value_from_float_agree (f : Float) : Gen.Value.from_float f = .float f := rfl
theorem fn_Value_as_ranged_len_tuple_agree (v : Value) (lo hi : Nat) :
    Gen.Value.as_ranged_len_tuple v ⟨lo, hi⟩ = v.asRangedLenTuple lo hi := by cases v <;> rfl
theorem fn_Value_str_from_agree (v : Value) : Gen.Value.str_from v = v.strFrom := by cases v <;> rfl
/-- `impl From<bool> for Value`, `impl From<&str> for Value` -/
theorem fn_Value_from_bool_agree (b : Bool) : (Rs.into b : Value) = .boolean b := rfl
theorem fn_Value_from_str_agree (s : Str) : Gen.Value.from_str s = .string s := rfl

end Evalexpr.AgreeFn
