/- Proofs/AgreeFpTree.lean — the `Tree` functions of /repo/src are textually the ones the model was validated against. -/
import EvalexprVerif.Generated.FpTree
import EvalexprVerif.Spec.Fingerprints

namespace Evalexpr.Agree

theorem fpTree_agree : Generated.fpTree = Spec.Fingerprints.fpTree := by decide

end Evalexpr.Agree
