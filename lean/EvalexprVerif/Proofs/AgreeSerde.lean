/- Proofs/AgreeSerde.lean — extracted tables equal the expected ones (see Spec/Tables.lean). -/
import EvalexprVerif.Generated.SerdeShape
import EvalexprVerif.Spec.Tables

namespace Evalexpr.Agree
open Evalexpr.Spec

theorem serdeShape_agree : Generated.serdeShape = Tables.serdeShape := by decide +kernel

end Evalexpr.Agree
