/- Proofs/AgreeBuiltin.lean — extracted tables equal the expected ones (see Spec/Tables.lean). -/
import EvalexprVerif.Generated.BuiltinTable
import EvalexprVerif.Spec.Tables
import EvalexprVerif.Model.Builtin

namespace Evalexpr.Agree
open Evalexpr.Spec

theorem builtinTable_agree : Generated.builtinTable = Tables.builtinTable := by decide +kernel
theorem builtinHelpers_agree : Generated.builtinHelpersRecognised = true := rfl
/-- the model's name → builtin table has the documented names, in the documented order -/
theorem builtinNames_agree :
    Evalexpr.builtinTable.map (fun p => String.ofList p.1) = Tables.builtinTable.map (·.1) := by decide +kernel

end Evalexpr.Agree
