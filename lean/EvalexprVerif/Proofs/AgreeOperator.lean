/-
Proofs/AgreeOperator.lean — the operator tables extracted from src/operator/mod.rs on this run
equal the model's tables (which the tree-builder theorems are about).
-/
import EvalexprVerif.Generated.OperatorTables
import EvalexprVerif.Model.Operator

namespace Evalexpr.Agree

theorem precedence_agree (k : OpKind) :
    Generated.precedence.lookup k = some k.precedence := by cases k <;> rfl

theorem precedence_rows : Generated.precedence.length = 32 := by rfl

theorem maxArgumentAmount_agree (k : OpKind) :
    Generated.maxArgumentAmount.lookup k = some k.maxArgumentAmount := by cases k <;> rfl

theorem maxArgumentAmount_rows : Generated.maxArgumentAmount.length = 32 := by rfl

theorem isLeftToRight_agree (k : OpKind) :
    k.isLeftToRight = !(Generated.notLeftToRight.contains k) := by cases k <;> rfl

theorem isSequence_agree (k : OpKind) :
    k.isSequence = Generated.sequence.contains k := by cases k <;> rfl

theorem derived_agree : Generated.derivedPredicatesRecognised = true := rfl

end Evalexpr.Agree
