/-
Proofs/AgreeFnLexer.lean — the lexer of src/token/mod.rs as translated on this run (`Generated/FnLexer.lean`) against
`Model/Lexer.lean`.

The Rust functions are loops over a character iterator (`while let Some(c) = iter.next()`, `for c in iter`, with
`break` / `continue`, helpers taking `&mut iter`); the generated functions are fuel-indexed (`Rs.loopB`), a cursor is the list of
the remaining characters, and a helper hands the advanced cursor back with its result. The Model's functions are
mutually recursive over the character list with the result accumulated in reverse. Every theorem has the form
`input.length < fuel → Gen.f fuel input = Model …`: the loops terminate within `length + 1` iterations — proved through
`Rs.Flow.run_loopB_spec` (one run of the generated loop body refines one unfolding of a recursive specification), not
assumed. The helper specifications (`escapeSpec`, `stringLit`, `lineComment`, `blockComment`, `skipCommentSpec`) are
stated here, and the Model's `lexString` / `lexLine` / `lexBlock` / `lexNormal` are shown to be built from them.
-/
import EvalexprVerif.Generated.FnLexer
import EvalexprVerif.Translate.Lemmas

set_option linter.unusedSimpArgs false

namespace Evalexpr.AgreeFn
open Evalexpr

/-- on each of the 16 special characters both sides compute; on any other character every test of both chains fails -/
theorem fn_char_to_partial_token_agree (c : Char) : Gen.char_to_partial_token c = charToPartialToken c := by
  by_cases h0 : c = '+'
  · subst h0; rfl
  by_cases h1 : c = '-'
  · subst h1; rfl
  by_cases h2 : c = '*'
  · subst h2; rfl
  by_cases h3 : c = '/'
  · subst h3; rfl
  by_cases h4 : c = '%'
  · subst h4; rfl
  by_cases h5 : c = '^'
  · subst h5; rfl
  by_cases h6 : c = '('
  · subst h6; rfl
  by_cases h7 : c = ')'
  · subst h7; rfl
  by_cases h8 : c = ','
  · subst h8; rfl
  by_cases h9 : c = ';'
  · subst h9; rfl
  by_cases h10 : c = '='
  · subst h10; rfl
  by_cases h11 : c = '!'
  · subst h11; rfl
  by_cases h12 : c = '>'
  · subst h12; rfl
  by_cases h13 : c = '<'
  · subst h13; rfl
  by_cases h14 : c = '&'
  · subst h14; rfl
  by_cases h15 : c = '|'
  · subst h15; rfl
  simp [Gen.char_to_partial_token, charToPartialToken, *]

theorem fn_i64_from_hex_str_agree (s : Str) : Gen.i64.from_hex_str s = Rs.ofOption (F64.parseHex s) := by
  unfold Gen.i64.from_hex_str Rs.i64_from_str_radix Rs.map_err
  cases F64.parseHex s <;> rfl

theorem parseDecOrHex_eq (lit : Str) : parseDecOrHex lit =
    if cl!"0x".isPrefixOf lit then F64.parseHex (lit.drop 2) else F64.parseDec lit := by
  unfold parseDecOrHex
  split
  · rfl
  · rename_i h
    rcases lit with _ | ⟨a, _ | ⟨b, rest⟩⟩
    · rfl
    · simp [List.isPrefixOf]
    · by_cases ha : a = '0'
      · by_cases hb : b = 'x'
        · exact absurd (by rw [ha, hb]) (h rest)
        · simp [List.isPrefixOf, hb, Ne.symm hb]
      · have : ('0' == a) = false := by simp [Ne.symm ha]
        simp [List.isPrefixOf, this]

theorem fn_parse_dec_or_hex_agree (lit : Str) : Gen.parse_dec_or_hex lit = Rs.ofOption (parseDecOrHex lit) := by
  rw [parseDecOrHex_eq]
  unfold Gen.parse_dec_or_hex Rs.strip_prefix
  by_cases hp : cl!"0x".isPrefixOf lit = true
  · simp only [hp, if_true, fn_i64_from_hex_str_agree]; rfl
  · simp only [hp, if_false]
    unfold Rs.i64_from_str Rs.map_err
    cases F64.parseDec lit <;> rfl

/-- `parse_escape_sequence`: the character after a backslash -/
def escapeSpec : List Char → Res (Char × List Char)
  | [] => .error (.illegalEscapeSequence ['\\'])
  | e :: rest =>
    if e == '"' then .ok ('"', rest)
    else if e == '\\' then .ok ('\\', rest)
    else .error (.illegalEscapeSequence ['\\', e])

theorem fn_parse_escape_sequence_agree (cs : List Char) : Gen.parse_escape_sequence cs = escapeSpec cs := by
  cases cs with
  | nil => rfl
  | cons e rest =>
    by_cases h1 : (e == '"') = true <;> by_cases h2 : (e == '\\') = true <;>
      simp [Gen.parse_escape_sequence, escapeSpec, h1, h2]

/-- `parse_string_literal` from inside a string, `s` = the characters read so far: the string token and the rest
(written like the Model's `lexString`) -/
def stringLit : List Char → Str → Res (PartialToken × List Char)
  | [], _ => .error .unmatchedDoubleQuote
  | [c], s =>
    if c == '"' then .ok (.token (.string s), [])
    else if c == '\\' then .error (.illegalEscapeSequence ['\\'])
    else stringLit [] (s ++ [c])
  | c :: e :: cs, s =>
    if c == '"' then .ok (.token (.string s), e :: cs)
    else if c == '\\' then
      if e == '"' then stringLit cs (s ++ ['"'])
      else if e == '\\' then stringLit cs (s ++ ['\\'])
      else .error (.illegalEscapeSequence ['\\', e])
    else stringLit (e :: cs) (s ++ [c])

theorem fn_parse_string_literal_agree (cs : List Char) (fuel : Nat) (h : cs.length < fuel) :
    Gen.parse_string_literal fuel cs = stringLit cs [] := by
  unfold Gen.parse_string_literal
  simp only [Rs.Vec.new_def]
  rw [Rs.Flow.run_loopB_spec _ _ _ (fun st => st.1.length) (fun st => stringLit st.1 st.2) fuel ?_ fuel (cs, []) h h]
  rintro ⟨cs, s⟩ hlt
  rcases cs with _ | ⟨c, _ | ⟨e, cs⟩⟩
  · simp [stringLit]
  · by_cases h1 : (c == '"') = true <;> by_cases h2 : (c == '\\') = true <;>
      simp [stringLit, h1, h2, fn_parse_escape_sequence_agree, escapeSpec]
  · by_cases h1 : (c == '"') = true <;> by_cases h2 : (c == '\\') = true <;>
      by_cases h3 : (e == '"') = true <;> by_cases h4 : (e == '\\') = true <;>
      simp [stringLit, h1, h2, h3, h4, fn_parse_escape_sequence_agree, escapeSpec] <;> (try omega)

/-- the line-comment branch of `try_skip_comment`: what is left after the end of the line -/
def lineComment : List Char → List Char
  | [] => []
  | c :: cs => if c == '\n' then cs else lineComment cs
/-- the inline-comment branch: what is left after the closing `*/`, if there is one -/
def blockComment : List Char → Option (List Char)
  | [] => none
  | [_] => none
  | c :: n :: cs => if c == '*' && n == '/' then some cs else blockComment (n :: cs)
/-- `try_skip_comment` right after a `/`: was a comment skipped, and the rest -/
def skipCommentSpec : List Char → Res (Bool × List Char)
  | [] => .ok (false, [])
  | n :: rest =>
    if n == '/' then .ok (true, lineComment rest)
    else if n == '*' then
      match blockComment rest with
      | some r => .ok (true, r)
      | none => .error unmatchedInlineComment
    else .ok (false, n :: rest)

theorem fn_try_skip_comment_agree (cs : List Char) (fuel : Nat) (h : cs.length < fuel) :
    Gen.try_skip_comment fuel cs = skipCommentSpec cs := by
  unfold Gen.try_skip_comment
  rcases cs with _ | ⟨n, rest⟩
  · rfl
  · by_cases h1 : (n == '/') = true
    · simp [skipCommentSpec, h1]
      rw [Rs.Flow.run_loopB_spec _ _ _ (fun st => st.length) (fun st => .ok (true, lineComment st)) fuel ?_ fuel rest
        (by simp at h; omega) (by simp at h; omega)]
      intro st _
      cases st with
      | nil => simp [lineComment]
      | cons c cs => by_cases hc : c = '\n' <;> simp [lineComment, hc]
    · by_cases h2 : (n == '*') = true
      · simp [skipCommentSpec, h1, h2]
        rw [Rs.Flow.run_loopB_spec _ _ _ (fun st => st.1.length)
          (fun st => match blockComment st.1 with
            | some r => .ok (true, r)
            | none => if st.2 = false then .error unmatchedInlineComment else .ok (st.2, [])) fuel ?_ fuel (rest, false)
          (by simp at h ⊢; omega) (by simp at h ⊢; omega)]
        · cases blockComment rest <;> rfl
        · rintro ⟨st, m⟩ _
          rcases st with _ | ⟨c, _ | ⟨d, cs⟩⟩
          · cases m <;> simp [blockComment, unmatchedInlineComment]
          · simp [blockComment]
          · by_cases hc : c = '*' <;> by_cases hd : d = '/' <;> simp [blockComment, hc, hd]
      · simp [skipCommentSpec, h1, h2]

/-! ### the Model's mutually recursive lexer functions in terms of the helper specifications -/

theorem stringLit_length (cs : List Char) (s : Str) (tok : PartialToken) (rest : List Char)
    (h : stringLit cs s = .ok (tok, rest)) : rest.length < cs.length := by
  induction cs, s using stringLit.induct with
  | case1 s => simp [stringLit] at h
  | case2 c s hc => simp [stringLit, hc] at h; simp [h.2.symm]
  | case3 c s hc1 hc2 => simp [stringLit, hc1, hc2] at h
  | case4 c s hc1 hc2 ih => simp [stringLit, hc1, hc2] at h
  | case5 c e cs s hc => simp [stringLit, hc] at h; simp [h.2.symm]
  | case6 c e cs s hc1 hc2 he ih => simp [stringLit, hc1, hc2, he] at h; have := ih h; simp; omega
  | case7 c e cs s hc1 hc2 he1 he2 ih => simp [stringLit, hc1, hc2, he1, he2] at h; have := ih h; simp; omega
  | case8 c e cs s hc1 hc2 he1 he2 => simp [stringLit, hc1, hc2, he1, he2] at h
  | case9 c e cs s hc1 hc2 ih => simp [stringLit, hc1, hc2] at h; have := ih h; simp at this ⊢; omega

theorem lexString_eq (cs : List Char) (s : Str) (acc : List PartialToken) :
    lexString cs s acc = match stringLit cs s with
      | .error e => .error e
      | .ok (tok, rest) => lexNormal rest (tok :: acc) := by
  induction cs, s using stringLit.induct with
  | case1 s => simp [stringLit, lexString]
  | case2 c s hc => simp [stringLit, lexString, hc]
  | case3 c s hc1 hc2 => simp [stringLit, lexString, hc1, hc2]
  | case4 c s hc1 hc2 ih => simp [stringLit, lexString, hc1, hc2] at ih ⊢
  | case5 c e cs s hc => simp [stringLit, lexString, hc]
  | case6 c e cs s hc1 hc2 he ih => simp [stringLit, lexString, hc1, hc2, he, ih]
  | case7 c e cs s hc1 hc2 he1 he2 ih => simp [stringLit, lexString, hc1, hc2, he1, he2, ih]
  | case8 c e cs s hc1 hc2 he1 he2 => simp [stringLit, lexString, hc1, hc2, he1, he2]
  | case9 c e cs s hc1 hc2 ih => simp [stringLit, lexString, hc1, hc2, ih]
theorem lexLine_eq (cs : List Char) (acc : List PartialToken) :
    lexLine cs acc = lexNormal (lineComment cs) (.whitespace :: acc) := by
  induction cs with
  | nil => simp [lexLine, lineComment]
  | cons c cs ih => by_cases h : (c == '\n') = true <;> simp [lexLine, lineComment, h, ih]
theorem lexBlock_eq (cs : List Char) (acc : List PartialToken) :
    lexBlock cs acc = match blockComment cs with
      | some r => lexNormal r (.whitespace :: acc)
      | none => .error unmatchedInlineComment := by
  induction cs using blockComment.induct with
  | case1 => simp [blockComment, lexBlock]
  | case2 c => simp [blockComment, lexBlock]
  | case3 c n cs h => simp [blockComment, lexBlock, h]
  | case4 c n cs h ih => simp [blockComment, lexBlock, h, ih]

theorem lineComment_length (cs : List Char) : (lineComment cs).length ≤ cs.length := by
  induction cs with
  | nil => simp [lineComment]
  | cons c cs ih => by_cases h : (c == '\n') = true <;> simp [lineComment, h] <;> omega
theorem blockComment_length (cs r : List Char) (h : blockComment cs = some r) : r.length ≤ cs.length := by
  induction cs using blockComment.induct with
  | case1 => simp [blockComment] at h
  | case2 c => simp [blockComment] at h
  | case3 c n cs hc => simp [blockComment, hc] at h; simp [← h]; omega
  | case4 c n cs hc ih => simp [blockComment, hc] at h; have := ih h; simp at this ⊢; omega

/-- one step of the Model's `lexNormal`, in terms of the helper specifications -/
theorem lexNormal_cons (c : Char) (cs : List Char) (acc : List PartialToken) :
    lexNormal (c :: cs) acc =
      if c == '"' then
        match stringLit cs [] with
        | .error e => .error e
        | .ok (tok, rest) => lexNormal rest (tok :: acc)
      else if c == '/' then
        match skipCommentSpec cs with
        | .error e => .error e
        | .ok (true, rest) => lexNormal rest (.whitespace :: acc)
        | .ok (false, rest) => lexNormal rest (pushPartial acc .slash)
      else lexNormal cs (pushPartial acc (charToPartialToken c)) := by
  rcases cs with _ | ⟨n, rest⟩
  · by_cases h1 : (c == '"') = true
    · simp [lexNormal, h1, lexString_eq]
    · by_cases h2 : (c == '/') = true
      · have : c = '/' := by simpa using h2
        subst this
        simp [lexNormal, skipCommentSpec]; rfl
      · simp [lexNormal, h1, h2]
  · by_cases h1 : (c == '"') = true
    · simp [lexNormal, h1, lexString_eq]
    · by_cases h2 : (c == '/') = true
      · by_cases h3 : (n == '/') = true
        · simp [lexNormal, h1, h2, h3, skipCommentSpec, lexLine_eq]
        · by_cases h4 : (n == '*') = true
          · simp [lexNormal, h1, h2, h3, h4, skipCommentSpec, lexBlock_eq]
            cases blockComment rest <;> rfl
          · simp [lexNormal, h1, h2, h3, h4, skipCommentSpec]
      · simp [lexNormal, h1, h2]

theorem ite_ne {α : Type} (c : Prop) [Decidable c] (a b z : α) (ha : a ≠ z) (hb : b ≠ z) : (if c then a else b) ≠ z := by
  split <;> assumption
theorem ctp_ne_slash (c : Char) (h : (c == '/') = false) : charToPartialToken c ≠ .slash := by
  unfold charToPartialToken
  simp only [h, Bool.false_eq_true, if_false]
  repeat' (first | apply ite_ne | (intro hc; cases hc))

theorem skipCommentSpec_length (cs : List Char) (b : Bool) (rest : List Char) (h : skipCommentSpec cs = .ok (b, rest)) :
    rest.length ≤ cs.length := by
  rcases cs with _ | ⟨n, cs⟩
  · simp [skipCommentSpec] at h; simp [h.2.symm]
  · by_cases h1 : (n == '/') = true
    · simp [skipCommentSpec, h1] at h
      have := lineComment_length cs
      simp [← h.2]; omega
    · by_cases h2 : (n == '*') = true
      · simp [skipCommentSpec, h1, h2] at h
        cases hb : blockComment cs with
        | none => simp [hb] at h
        | some r =>
          simp [hb] at h
          have := blockComment_length cs r hb
          simp [← h.2]; omega
      · simp [skipCommentSpec, h1, h2] at h
        simp [← h.2]

theorem fn_str_to_partial_tokens_agree (s : Str) (fuel : Nat) (h : s.length < fuel) :
    Gen.str_to_partial_tokens fuel s = strToPartialTokens s := by
  unfold Gen.str_to_partial_tokens strToPartialTokens
  simp only [Rs.Vec.new_def, Rs.chars_def, Rs.iter_def]
  rw [Rs.Flow.run_loopB_spec _ _ _ (fun st => st.2.length) (fun st => lexNormal st.2 st.1.reverse) fuel ?_ fuel ([], s) h h]
  · rfl
  · rintro ⟨result, cs⟩ hlt
    obtain ⟨acc, rfl⟩ : ∃ acc, result = acc.reverse := ⟨result.reverse, by simp⟩
    simp only [List.reverse_reverse]
    rcases cs with _ | ⟨c, cs⟩
    · simp [lexNormal]
    · have hcs : cs.length < fuel := by simp at hlt; omega
      rw [lexNormal_cons]
      by_cases hq : (c == '"') = true
      · simp [hq, fn_parse_string_literal_agree cs fuel hcs]
        cases hs : stringLit cs [] with
        | error e => simp
        | ok p =>
          rcases p with ⟨tok, rest⟩
          have := stringLit_length cs [] tok rest hs
          simp; omega
      · by_cases hsl : (c == '/') = true
        · have : c = '/' := by simpa using hsl
          subst this
          simp [fn_try_skip_comment_agree cs fuel hcs, fn_char_to_partial_token_agree, charToPartialToken]
          cases hs : skipCommentSpec cs with
          | error e => simp
          | ok p =>
            rcases p with ⟨b, rest⟩
            have := skipCommentSpec_length cs b rest hs
            cases b <;> simp [pushPartial] <;> omega
        · have hne := ctp_ne_slash c (by simpa using hsl)
          simp [hq, hsl, fn_char_to_partial_token_agree]
          generalize charToPartialToken c = p at hne ⊢
          rcases acc with _ | ⟨a, acc⟩
          · cases p <;> first | exact absurd rfl hne | simp [pushPartial]
          · cases a <;> cases p <;> first | exact absurd rfl hne | simp [pushPartial]

/-! ### the second phase: `partial_tokens_to_tokens`, and `tokenize` -/

theorem tokenStep_k (a : PartialToken) (s t : Option PartialToken) (tk : Option Token) (k : Nat)
    (h : tokenStep a s t = .ok (tk, k)) : 1 ≤ k ∧ k ≤ 3 := by
  unfold tokenStep at h
  repeat' split at h
  all_goals (first | (cases h; done) | (simp at h; omega) | (simp at h))

/-- one unfolding of the Model's `partialTokensToTokens` -/
theorem partialTokensToTokens_cons (a : PartialToken) (rest : List PartialToken) :
    partialTokensToTokens (a :: rest) =
      match tokenStep a rest[0]? rest[1]? with
      | .error e => .error e
      | .ok (t, k) =>
        if k ≤ (a :: rest).length then (partialTokensToTokens ((a :: rest).drop k)).map (t.toList ++ ·)
        else .error slicePanic := by
  rcases rest with _ | ⟨b, _ | ⟨c, rest⟩⟩
  · simp only [partialTokensToTokens, List.getElem?_nil]
    cases hs : tokenStep a none none with
    | error e => rfl
    | ok p =>
      rcases p with ⟨t, k⟩
      have hk := tokenStep_k _ _ _ _ _ hs
      by_cases h1 : k = 1
      · subst h1; simp [partialTokensToTokens, Except.map]
      · have : ¬ k ≤ 1 := by omega
        simp [h1, this]
  · simp only [partialTokensToTokens, List.getElem?_cons_zero, List.getElem?_cons_succ, List.getElem?_nil]
    cases hs : tokenStep a (some b) none with
    | error e => rfl
    | ok p =>
      rcases p with ⟨t, k⟩
      have hk := tokenStep_k _ _ _ _ _ hs
      by_cases h1 : k = 1
      · subst h1; simp [partialTokensToTokens]
      · by_cases h2 : k = 2
        · subst h2; simp [partialTokensToTokens, Except.map]
        · have : ¬ k ≤ 2 := by omega
          simp [h1, h2, this]
  · simp only [partialTokensToTokens, List.getElem?_cons_zero, List.getElem?_cons_succ]
    cases hs : tokenStep a (some b) (some c) with
    | error e => rfl
    | ok p =>
      rcases p with ⟨t, k⟩
      have hk := tokenStep_k _ _ _ _ _ hs
      have : k = 1 ∨ k = 2 ∨ k = 3 := by omega
      rcases this with rfl | rfl | rfl <;> simp

theorem float_attempt (lit : Str) :
    Rs.flatten (Rs.bool_then (Rs.starts_with lit fun c => F64.isDigit c || c == '.') fun _ => Rs.ok (Rs.parse_f64 lit)) =
      if startsLikeNumber lit then F64.parse lit else none := by
  have hs : (Rs.starts_with lit fun c => F64.isDigit c || c == '.') = startsLikeNumber lit := by cases lit <;> rfl
  rw [hs]
  cases startsLikeNumber lit
  · rfl
  · simp [Rs.bool_then, Rs.flatten, Rs.parse_f64, Rs.ok, Rs.ofOption]
    cases F64.parse lit <;> rfl
theorem plus_or_minus (p : PartialToken) :
    (Rs.eq p PartialToken.minus || Rs.eq p PartialToken.plus) = isPlusOrMinus p := by cases p <;> rfl
theorem to_string_partial (p : PartialToken) : Rs.to_string p = p.display := rfl
theorem emap_emap {α β γ : Type} (f : β → γ) (g : α → β) (X : Res α) :
    Except.map f (Except.map g X) = Except.map (fun x => f (g x)) X := by cases X <;> rfl
theorem fn_unmatched_partial_token_agree (a : PartialToken) (b : Option PartialToken) :
    Gen.EvalexprError.unmatched_partial_token a b = .unmatchedPartialToken a b := rfl

theorem fn_partial_tokens_to_tokens_agree (ts : List PartialToken) (fuel : Nat) (h : ts.length < fuel) :
    Gen.partial_tokens_to_tokens fuel ts = partialTokensToTokens ts := by
  unfold Gen.partial_tokens_to_tokens
  simp only [Rs.Vec.new_def]
  rw [Rs.Flow.run_loopB_spec _ _ _ (fun st => st.1.length)
    (fun st => (partialTokensToTokens st.1).map (st.2 ++ ·)) fuel ?_ fuel (ts, []) h h]
  · cases partialTokensToTokens ts <;> simp [Except.map]
  · rintro ⟨tokens, result⟩ hlt
    rcases tokens with _ | ⟨a, rest⟩
    · simp [partialTokensToTokens, Except.map]
    · simp only [partialTokensToTokens_cons]
      simp only [Rs.is_empty_def, List.isEmpty_cons, Rs.not_def, Bool.not_false, if_true, Rs.Flow.index_zero,
        Rs.clone_def, Rs.cloned_def, Rs.get_list, List.getElem?_cons_succ, Rs.Flow.val_bind, Rs.Flow.bind_assoc]
      generalize rest[0]? = second
      generalize rest[1]? = third
      cases a
      case literal lit =>
        simp only [fn_parse_dec_or_hex_agree, Rs.eq_char, float_attempt, Rs.parse_bool, Rs.to_string_str, Rs.push_str_def,
          to_string_partial, tokenStep, lexWord]
        cases h1 : parseDecOrHex lit with
        | some i => simp [Rs.ofOption, slicePanic, emap_emap]
        | none =>
          cases h2 : (if startsLikeNumber lit then F64.parse lit else none) with
          | some f => simp [Rs.ofOption, slicePanic, emap_emap]
          | none =>
            cases h3 : parseBool lit with
            | some bb => simp [Rs.ofOption, slicePanic, emap_emap]
            | none =>
              rcases second with _ | sd <;> rcases third with _ | td <;>
                simp [Rs.ofOption, slicePanic, emap_emap, plus_or_minus]
              cases hpm : isPlusOrMinus sd
              · simp [slicePanic, emap_emap]
              · simp only [if_true, Rs.parse_f64, List.append_assoc]
                cases F64.parse (lit ++ (sd.display ++ td.display)) <;>
                  by_cases hr : 2 ≤ rest.length <;> simp [Rs.ofOption, slicePanic, emap_emap, hr] <;> (try omega) <;> (try rfl)
      case token t => simp [tokenStep, slicePanic, emap_emap]
      all_goals (rcases second with _ | b <;> (try cases b) <;>
        simp [tokenStep, slicePanic, fn_unmatched_partial_token_agree, emap_emap])
      all_goals (try (rcases third with _ | c <;> (try cases c) <;> simp [tokenStep, slicePanic, emap_emap]))
      all_goals (by_cases h1 : 1 ≤ rest.length <;> by_cases h2 : 2 ≤ rest.length <;>
        (try simp [h1, h2, slicePanic, emap_emap, List.drop_one]) <;> (try omega) <;> (try rfl))

theorem pushPartial_length (acc : List PartialToken) (p : PartialToken) : (pushPartial acc p).length ≤ acc.length + 1 := by
  unfold pushPartial
  split <;> simp

/-- the lexer's first phase produces at most one partial token per character -/
theorem lexNormal_length (n : Nat) : ∀ (cs : List Char) (acc ps : List PartialToken), cs.length ≤ n →
    lexNormal cs acc = .ok ps → ps.length ≤ cs.length + acc.length := by
  induction n with
  | zero =>
    intro cs acc ps hn h
    cases cs with
    | nil => simp [lexNormal] at h; simp [← h]
    | cons c cs => simp at hn
  | succ n ih =>
    intro cs acc ps hn h
    cases cs with
    | nil => simp [lexNormal] at h; simp [← h]
    | cons c cs =>
      have hcs : cs.length ≤ n := by simp at hn; omega
      rw [lexNormal_cons] at h
      split at h
      · cases hs : stringLit cs [] with
        | error e => simp [hs] at h
        | ok p =>
          rcases p with ⟨tok, rest⟩
          have hl := stringLit_length cs [] tok rest hs
          simp [hs] at h
          have := ih rest (tok :: acc) ps (by omega) h
          simp at this ⊢; omega
      · split at h
        · cases hs : skipCommentSpec cs with
          | error e => simp [hs] at h
          | ok p =>
            rcases p with ⟨b, rest⟩
            have hl := skipCommentSpec_length cs b rest hs
            cases b
            · simp [hs] at h
              have := ih rest _ ps (by omega) h
              have hp := pushPartial_length acc PartialToken.slash
              simp at this ⊢; omega
            · simp [hs] at h
              have := ih rest _ ps (by omega) h
              simp at this ⊢; omega
        · have := ih cs _ ps hcs h
          have hp := pushPartial_length acc (charToPartialToken c)
          simp at this ⊢; omega

theorem fn_tokenize_agree (s : Str) (fuel : Nat) (h : s.length < fuel) : Gen.tokenize fuel s = Evalexpr.tokenize s := by
  unfold Gen.tokenize Evalexpr.tokenize
  rw [fn_str_to_partial_tokens_agree s fuel h]
  cases hs : strToPartialTokens s with
  | error e => rfl
  | ok ps =>
    have hl := lexNormal_length s.length s [] ps (Nat.le_refl _) hs
    simp at hl
    simp [fn_partial_tokens_to_tokens_agree ps fuel (by omega)]

end Evalexpr.AgreeFn
