/- Proofs/AgreeFpLexer.lean — the `Lexer` functions of /repo/src are textually the ones the model was validated against. -/
import EvalexprVerif.Generated.FpLexer
import EvalexprVerif.Spec.Fingerprints

namespace Evalexpr.Agree

theorem fpLexer_agree : Generated.fpLexer = Spec.Fingerprints.fpLexer := by decide

end Evalexpr.Agree
