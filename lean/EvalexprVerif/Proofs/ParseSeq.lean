/-
Proofs/ParseSeq.lean — property C05: the tree builder parses the rendering of a well-formed
sequence level (a chain by `;` of tuples by `,` of optional operands, nesting through parentheses)
to the reference tree of `Spec/Seq.lean`.

Structure: an element is parsed by the expression-level result under a context
(`ParseSeqExpr.lean`) or, for a parenthesised level, by the level result one nesting deeper; the
separator steps are direct computations of `pushSequence` on the four stack shapes of a level
(`stackA`: no `;` seen yet, `stackC`: below an open chain); the final `collapseAllSequences` folds
these shapes into the level root. The nested induction goes through `Operand.rec`.
-/
import EvalexprVerif.Spec.Seq
import EvalexprVerif.Proofs.ParseExpr
import EvalexprVerif.Proofs.ParseSeqExpr

namespace Evalexpr.Spec
open Evalexpr

/-! ### the tokens that may follow an element -/

def Token.isSep : Token → Bool
  | .comma | .semicolon | .rBrace => true
  | _ => false

def Token.isRB : Token → Bool
  | .rBrace => true
  | _ => false

/-- after an element: `,` `;` `)` or the end of the input -/
def sepNext (suf : List Token) : Prop := ∀ t, suf.head? = some t → Token.isSep t = true

/-- after a level: `)` or the end of the input -/
def endNext (suf : List Token) : Prop := ∀ t, suf.head? = some t → Token.isRB t = true

theorem endNext.sep {suf : List Token} (h : endNext suf) : sepNext suf := by
  intro t ht
  have := h t ht
  cases t <;> simp [Token.isRB] at this ⊢ <;> rfl

theorem sepNext.ok {suf : List Token} (h : sepNext suf) : okNext suf := by
  intro t ht
  have := h t ht
  cases t <;> simp [Token.isSep] at this <;> exact ⟨rfl, rfl⟩

theorem sepNext_comma (ts : List Token) : sepNext (.comma :: ts) := by
  intro t ht; simp at ht; subst ht; rfl

theorem sepNext_semicolon (ts : List Token) : sepNext (.semicolon :: ts) := by
  intro t ht; simp at ht; subst ht; rfl

theorem sepNext_rBrace (ts : List Token) : sepNext (.rBrace :: ts) := by
  intro t ht; simp at ht; subst ht; rfl

theorem endNext_rBrace (ts : List Token) : endNext (.rBrace :: ts) := by
  intro t ht; simp at ht; subst ht; rfl

theorem endNext_nil : endNext [] := by
  intro t ht; cases ht

/-- the two flags of the token loop do not matter in front of a separator -/
theorem flags_irrelevant (suf : List Token) (st : List Node) (lr li : Bool) (h : sepNext suf) :
    treeLoop suf st lr li = treeLoop suf st false false := by
  cases suf with
  | nil => simp [treeLoop]
  | cons t ts =>
    have := h t rfl
    cases t <;> simp [Token.isSep] at this <;>
      simp [treeLoop, treeStep, juxtaposed, tokenToNode, Token.isNot, Token.isLeftsidedValue]

/-! ### the separator steps -/

theorem step_comma (ts : List Token) (top : Node) (rest : List Node) (lr li : Bool)
    (st' : List Node) (h : pushSequence rest top (Node.new .tuple) = .ok st') :
    treeLoop (.comma :: ts) (top :: rest) lr li = treeLoop ts st' false false := by
  have hs : (Node.new .tuple).op.isSequence = true := rfl
  simp [treeLoop, treeStep, juxtaposed, Token.isNot, Token.isLeftsidedValue, tokenToNode, hs, h,
    Token.isRightsidedValue, Token.isIdentifier]

theorem step_semicolon (ts : List Token) (top : Node) (rest : List Node) (lr li : Bool)
    (st' : List Node) (h : pushSequence rest top (Node.new .chain) = .ok st') :
    treeLoop (.semicolon :: ts) (top :: rest) lr li = treeLoop ts st' false false := by
  have hs : (Node.new .chain).op.isSequence = true := rfl
  simp [treeLoop, treeStep, juxtaposed, Token.isNot, Token.isLeftsidedValue, tokenToNode, hs, h,
    Token.isRightsidedValue, Token.isIdentifier]

/-- `,` on a plain element root: start a tuple above a fresh placeholder -/
theorem comma_root (cs : List Node) (rest : List Node) :
    pushSequence rest ⟨.rootNode, cs⟩ (Node.new .tuple)
      = .ok (⟨.tuple, [⟨.rootNode, cs⟩, ⟨.rootNode, []⟩]⟩ :: ⟨.rootNode, []⟩ :: rest) := by
  simp [pushSequence, Node.new, Node.rootNode, Operator.kind, Operator.isRoot]

/-- `,` on an open tuple: a fresh element root -/
theorem comma_tuple (cs : List Node) (rest : List Node) :
    pushSequence rest ⟨.tuple, cs⟩ (Node.new .tuple)
      = .ok (⟨.tuple, cs ++ [⟨.rootNode, []⟩]⟩ :: rest) := by
  simp [pushSequence, Node.new, Node.rootNode, Operator.kind]

/-- `,` on an open chain: the chain's current element starts a tuple above the chain -/
theorem comma_chain (cpre : List Node) (r : Node) (rest : List Node) :
    pushSequence rest ⟨.chain, cpre ++ [r]⟩ (Node.new .tuple)
      = .ok (⟨.tuple, [r, ⟨.rootNode, []⟩]⟩ :: ⟨.chain, cpre⟩ :: rest) := by
  simp [pushSequence, Node.new, Node.rootNode, Operator.kind, Operator.isRoot,
    Operator.precedence, OpKind.precedence]

/-- `;` on a plain element root: start a chain above a fresh placeholder -/
theorem semi_root (cs : List Node) (rest : List Node) :
    pushSequence rest ⟨.rootNode, cs⟩ (Node.new .chain)
      = .ok (⟨.chain, [⟨.rootNode, cs⟩, ⟨.rootNode, []⟩]⟩ :: ⟨.rootNode, []⟩ :: rest) := by
  simp [pushSequence, Node.new, Node.rootNode, Operator.kind, Operator.isRoot]

/-- `;` on an open chain: a fresh element root -/
theorem semi_chain (cs : List Node) (rest : List Node) :
    pushSequence rest ⟨.chain, cs⟩ (Node.new .chain)
      = .ok (⟨.chain, cs ++ [⟨.rootNode, []⟩]⟩ :: rest) := by
  simp [pushSequence, Node.new, Node.rootNode, Operator.kind]

/-- `;` on a tuple above the placeholder: start a chain with the tuple as its first member -/
theorem semi_tuple_root (ts cs : List Node) (rest : List Node) :
    pushSequence (⟨.rootNode, cs⟩ :: rest) ⟨.tuple, ts⟩ (Node.new .chain)
      = .ok (⟨.chain, [⟨.tuple, ts⟩, ⟨.rootNode, []⟩]⟩ :: ⟨.rootNode, cs⟩ :: rest) := by
  simp [pushSequence, Node.new, Node.rootNode, Operator.kind, Operator.isRoot,
    Operator.precedence, OpKind.precedence, collapseRootStackTo, Operator.isSequence,
    OpKind.isSequence]

/-- `;` on a tuple above an open chain: the tuple becomes the chain's next member -/
theorem semi_tuple_chain (ts cpre : List Node) (rest : List Node) :
    pushSequence (⟨.chain, cpre⟩ :: rest) ⟨.tuple, ts⟩ (Node.new .chain)
      = .ok (⟨.chain, cpre ++ [⟨.tuple, ts⟩, ⟨.rootNode, []⟩]⟩ :: rest) := by
  simp [pushSequence, Node.new, Node.rootNode, Operator.kind, Operator.isRoot,
    Operator.precedence, OpKind.precedence, collapseRootStackTo, Operator.isSequence,
    OpKind.isSequence]

/-! ### the reference trees -/

/-- the children of an element root -/
def elemKids : Option Operand → List Node
  | none => []
  | some o => [operandTree o]

theorem elemTree_eq (x : Option Operand) : elemTree x = ⟨.rootNode, elemKids x⟩ := by
  cases x <;> simp [elemTree, elemKids, rootOf]

theorem elemKids_len (x : Option Operand) : (elemKids x).length ≤ 1 := by
  cases x <;> simp [elemKids]

theorem levelTreeAux_op (ms : List (List (Option Operand))) :
    (levelTreeAux ms).op = .rootNode := by
  match ms with
  | [] => rw [levelTreeAux.eq_1]; rfl
  | [[]] => rw [levelTreeAux.eq_2]; rfl
  | [[x]] => rw [levelTreeAux.eq_3, elemTree_eq]
  | [x :: y :: r] => rw [levelTreeAux.eq_4 _ (by simp) (by simp)]; rfl
  | m :: m' :: r => rw [levelTreeAux.eq_5]; rfl

/-! ### the final collapse -/

theorem collapseLoop_root (stack : List Node) (cs : List Node) (h : cs.length ≤ 1) :
    collapseAllLoop stack ⟨.rootNode, cs⟩ = .ok (⟨.rootNode, cs⟩ :: stack) := by
  unfold collapseAllLoop
  simp [Operator.isRoot, Operator.kind, Node.hasTooManyChildren, Operator.maxArgumentAmount,
    OpKind.maxArgumentAmount]
  omega

theorem collapseLoop_seq (higher : Node) (stack : List Node) (root : Node)
    (h : root.op.isSequence = true) :
    collapseAllLoop (higher :: stack) root
      = collapseAllLoop stack ⟨higher.op, higher.children ++ [root]⟩ := by
  have hr : root.op.isRoot = false := by
    revert h
    simp only [Operator.isSequence, Operator.isRoot]
    cases root.op.kind <;> simp [OpKind.isSequence]
  rw [collapseAllLoop]
  simp [hr, h]

/-! ### the goals of the nested induction -/

/-- an element: its rendering fills the empty element root -/
def ElemGoal (x : Option Operand) : Prop :=
  ∀ (K : Node → Node), KOK K → ∀ (rest : List Node) (suf : List Token), sepNext suf →
    treeLoop (renderOpt x ++ suf) (K ⟨.rootNode, []⟩ :: rest) false false
      = treeLoop suf (K (elemTree x) :: rest) false false

def OperandGoal (o : Operand) : Prop :=
  ∀ (K : Node → Node), KOK K → ∀ (rest : List Node) (suf : List Token), sepNext suf →
    treeLoop (renderOperand o ++ suf) (K ⟨.rootNode, []⟩ :: rest) false false
      = treeLoop suf (K (rootOf [operandTree o]) :: rest) false false

/-- a level: its rendering leaves a stack part that collapses to the level root -/
def LevelGoal (ms : List (List (Option Operand))) : Prop :=
  ∀ (rest : List Node) (suf : List Token), endNext suf →
    ∃ st : List Node, st ≠ [] ∧
      treeLoop (renderLevelAux ms ++ suf) (⟨.rootNode, []⟩ :: rest) false false
        = treeLoop suf (st ++ rest) false false ∧
      collapseAllSequences (st ++ rest) = .ok (levelTreeAux ms :: rest)

theorem operand_expr (e : Expr) : OperandGoal (.expr e) := by
  intro K hK rest suf hs
  have h := parse_mainK e K hK [] rest suf false false (by intro f hf; cases hf) (Adm.nil e)
    (.inl rfl) hs.ok
  simp only [openS, R, plug, List.nil_append] at h
  simp only [renderOperand, operandTree, rootOf]
  rw [h]
  exact flags_irrelevant suf _ _ _ hs

theorem operand_group (ms : List (List (Option Operand))) (h : LevelGoal ms) :
    OperandGoal (.group ms) := by
  intro K hK rest suf hs
  simp only [renderOperand, operandTree, rootOf, List.cons_append, List.append_assoc,
    List.nil_append]
  rw [step_lBrace _ _ _ _ (.inl rfl)]
  obtain ⟨st, hne, hrun, hcol⟩ := h (K ⟨.rootNode, []⟩ :: rest) (.rBrace :: suf)
    (endNext_rBrace suf)
  simp only [openS, R]
  rw [hrun]
  have hins : (openS R []).insertBackPrioritized (levelTreeAux ms) true
      = .ok (plug (R :: []) (levelTreeAux ms)) :=
    ins_atom (F := []) (by intro f hf; cases hf) _ (by rw [levelTreeAux_op]; rfl)
  simp only [openS, R, plug, List.nil_append] at hins
  rw [step_rBrace_gen hK suf st (levelTreeAux ms) ⟨.rootNode, []⟩ _ rest false false hne hcol
    (by rw [levelTreeAux_op]; rfl) rfl hins]
  exact flags_irrelevant suf _ _ _ hs

theorem elem_none : ElemGoal none := by
  intro K hK rest suf hs
  simp [renderOpt, elemTree, rootOf]

theorem elem_some (o : Operand) (h : OperandGoal o) : ElemGoal (some o) := by
  intro K hK rest suf hs
  have := h K hK rest suf hs
  simpa [renderOpt, elemTree] using this

/-! ### one member -/

/-- the remaining elements of an open tuple -/
theorem tuple_tail (xs : List (Option Operand)) (hne : xs ≠ []) (hx : ∀ x ∈ xs, ElemGoal x)
    (pre : List Node) (rest : List Node) (suf : List Token) (hs : sepNext suf) :
    treeLoop (renderMemberAux xs ++ suf) (⟨.tuple, pre ++ [⟨.rootNode, []⟩]⟩ :: rest) false false
      = treeLoop suf (⟨.tuple, pre ++ elemTrees xs⟩ :: rest) false false := by
  induction xs generalizing pre with
  | nil => exact absurd rfl hne
  | cons x xs ih =>
    cases xs with
    | nil =>
      have := hx x (by simp) (seqCtx .tuple pre) (KOK_seq _ _ rfl) rest suf hs
      simpa [renderMemberAux, elemTrees, seqCtx] using this
    | cons y r =>
      have h1 := hx x (by simp) (seqCtx .tuple pre) (KOK_seq _ _ rfl) rest
        (.comma :: (renderMemberAux (y :: r) ++ suf)) (sepNext_comma _)
      simp only [seqCtx] at h1
      rw [renderMemberAux.eq_3, List.append_assoc, List.cons_append, h1,
        step_comma _ _ _ _ _ _ (comma_tuple _ _),
        ih (by simp) (fun z hz => hx z (by simp [hz])) (pre ++ [elemTree x])]
      simp [elemTrees]

/-- the stack part of a level after its first member, no `;` seen yet -/
def stackA : List (Option Operand) → List Node
  | [] => []
  | [x] => [elemTree x]
  | x :: y :: r => [⟨.tuple, elemTree x :: elemTrees (y :: r)⟩, ⟨.rootNode, []⟩]

/-- the stack part of a level after a member below the open chain with earlier members `cpre` -/
def stackC (cpre : List Node) : List (Option Operand) → List Node
  | [] => []
  | [x] => [⟨.chain, cpre ++ [elemTree x]⟩]
  | x :: y :: r => [⟨.tuple, elemTree x :: elemTrees (y :: r)⟩, ⟨.chain, cpre⟩]

theorem member_A (m : List (Option Operand)) (hne : m ≠ []) (hx : ∀ x ∈ m, ElemGoal x)
    (rest : List Node) (suf : List Token) (hs : sepNext suf) :
    treeLoop (renderMemberAux m ++ suf) (⟨.rootNode, []⟩ :: rest) false false
      = treeLoop suf (stackA m ++ rest) false false := by
  match m, hne, hx with
  | [x], _, hx =>
    have := hx x (by simp) id KOK_id rest suf hs
    simpa [renderMemberAux, stackA] using this
  | x :: y :: r, _, hx =>
    have h1 := hx x (by simp) id KOK_id rest
      (.comma :: (renderMemberAux (y :: r) ++ suf)) (sepNext_comma _)
    simp only [id] at h1
    rw [renderMemberAux.eq_3, List.append_assoc, List.cons_append, h1, elemTree_eq x,
      step_comma _ _ _ _ _ _ (comma_root _ _)]
    have h2 := tuple_tail (y :: r) (by simp) (fun z hz => hx z (by simp [hz]))
      [⟨.rootNode, elemKids x⟩] (⟨.rootNode, []⟩ :: rest) suf hs
    simp only [List.cons_append, List.nil_append] at h2
    rw [h2]
    simp [stackA, elemTree_eq x]

theorem member_C (m : List (Option Operand)) (hne : m ≠ []) (hx : ∀ x ∈ m, ElemGoal x)
    (cpre : List Node) (rest : List Node) (suf : List Token) (hs : sepNext suf) :
    treeLoop (renderMemberAux m ++ suf) (⟨.chain, cpre ++ [⟨.rootNode, []⟩]⟩ :: rest) false false
      = treeLoop suf (stackC cpre m ++ rest) false false := by
  match m, hne, hx with
  | [x], _, hx =>
    have := hx x (by simp) (seqCtx .chain cpre) (KOK_seq _ _ rfl) rest suf hs
    simpa [renderMemberAux, stackC, seqCtx] using this
  | x :: y :: r, _, hx =>
    have h1 := hx x (by simp) (seqCtx .chain cpre) (KOK_seq _ _ rfl) rest
      (.comma :: (renderMemberAux (y :: r) ++ suf)) (sepNext_comma _)
    simp only [seqCtx] at h1
    rw [renderMemberAux.eq_3, List.append_assoc, List.cons_append, h1,
      step_comma _ _ _ _ _ _ (comma_chain _ _ _)]
    have h2 := tuple_tail (y :: r) (by simp) (fun z hz => hx z (by simp [hz]))
      [elemTree x] (⟨.chain, cpre⟩ :: rest) suf hs
    simp only [List.cons_append, List.nil_append] at h2
    rw [h2]
    simp [stackC]

/-- `;` after the first member -/
theorem semi_A (m : List (Option Operand)) (hne : m ≠ []) (ts : List Token) (rest : List Node) :
    treeLoop (.semicolon :: ts) (stackA m ++ rest) false false
      = treeLoop ts (⟨.chain, [memberTree m, ⟨.rootNode, []⟩]⟩ :: ⟨.rootNode, []⟩ :: rest)
          false false := by
  match m, hne with
  | [x], _ =>
    simp only [stackA, memberTree, List.cons_append, List.nil_append, elemTree_eq x]
    exact step_semicolon _ _ _ _ _ _ (semi_root _ _)
  | x :: y :: r, _ =>
    simp only [stackA, memberTree, List.cons_append, List.nil_append]
    exact step_semicolon _ _ _ _ _ _ (semi_tuple_root _ _ _)

/-- `;` after a later member -/
theorem semi_C (m : List (Option Operand)) (hne : m ≠ []) (cpre : List Node) (ts : List Token)
    (rest : List Node) :
    treeLoop (.semicolon :: ts) (stackC cpre m ++ rest) false false
      = treeLoop ts (⟨.chain, (cpre ++ [memberTree m]) ++ [⟨.rootNode, []⟩]⟩ :: rest)
          false false := by
  match m, hne with
  | [x], _ =>
    simp only [stackC, memberTree, List.cons_append, List.nil_append]
    exact step_semicolon _ _ _ _ _ _ (semi_chain _ _)
  | x :: y :: r, _ =>
    simp only [stackC, memberTree, List.cons_append, List.nil_append]
    rw [step_semicolon _ _ _ _ _ _ (semi_tuple_chain _ _ _)]
    simp

/-- the end of a level without `;` -/
theorem collapse_A (m : List (Option Operand)) (hne : m ≠ []) (rest : List Node) :
    collapseAllSequences (stackA m ++ rest) = .ok (levelTreeAux [m] :: rest) := by
  match m, hne with
  | [x], _ =>
    rw [levelTreeAux.eq_3]
    simp only [stackA, List.cons_append, List.nil_append, elemTree_eq x, collapseAllSequences]
    exact collapseLoop_root rest _ (elemKids_len x)
  | x :: y :: r, _ =>
    rw [levelTreeAux.eq_4 _ (by simp) (by simp)]
    simp only [stackA, memberTree, rootOf, List.cons_append, List.nil_append,
      collapseAllSequences]
    rw [collapseLoop_seq _ _ _ rfl]
    exact collapseLoop_root rest _ (by simp)

/-- the end of a level with `;` -/
theorem collapse_C (m : List (Option Operand)) (hne : m ≠ []) (cpre : List Node)
    (rest : List Node) :
    collapseAllSequences (stackC cpre m ++ ⟨.rootNode, []⟩ :: rest)
      = .ok (rootOf [⟨.chain, cpre ++ [memberTree m]⟩] :: rest) := by
  match m, hne with
  | [x], _ =>
    simp only [stackC, memberTree, rootOf, List.cons_append, List.nil_append,
      collapseAllSequences]
    rw [collapseLoop_seq _ _ _ rfl]
    exact collapseLoop_root rest _ (by simp)
  | x :: y :: r, _ =>
    simp only [stackC, memberTree, rootOf, List.cons_append, List.nil_append,
      collapseAllSequences]
    rw [collapseLoop_seq _ _ _ rfl, collapseLoop_seq _ _ _ rfl]
    exact collapseLoop_root rest _ (by simp)

/-! ### one level -/

/-- what is needed of the members of a level -/
def MembersOK (ms : List (List (Option Operand))) : Prop :=
  ∀ m ∈ ms, m ≠ [] ∧ ∀ x ∈ m, ElemGoal x

/-- the members after the first `;` -/
theorem chain_rest (ms : List (List (Option Operand))) (hne : ms ≠ []) (hms : MembersOK ms)
    (cpre : List Node) (rest : List Node) (suf : List Token) (hs : endNext suf) :
    ∃ st : List Node, st ≠ [] ∧
      treeLoop (renderLevelAux ms ++ suf)
          (⟨.chain, cpre ++ [⟨.rootNode, []⟩]⟩ :: ⟨.rootNode, []⟩ :: rest) false false
        = treeLoop suf (st ++ rest) false false ∧
      collapseAllSequences (st ++ rest)
        = .ok (rootOf [⟨.chain, cpre ++ memberTrees ms⟩] :: rest) := by
  induction ms generalizing cpre with
  | nil => exact absurd rfl hne
  | cons m ms ih =>
    obtain ⟨hmne, hmx⟩ := hms m (by simp)
    cases ms with
    | nil =>
      refine ⟨stackC cpre m ++ [⟨.rootNode, []⟩], by simp, ?_, ?_⟩
      · rw [renderLevelAux.eq_2, member_C m hmne hmx cpre _ suf hs.sep]
        simp
      · have := collapse_C m hmne cpre rest
        simpa [memberTrees] using this
    | cons m' r =>
      obtain ⟨st, hst, hrun, hcol⟩ := ih (by simp) (fun z hz => hms z (by simp [hz]))
        (cpre ++ [memberTree m])
      refine ⟨st, hst, ?_, ?_⟩
      · rw [renderLevelAux.eq_3, List.append_assoc, List.cons_append,
          member_C m hmne hmx cpre _ _ (sepNext_semicolon _), semi_C m hmne, hrun]
      · rw [hcol]; simp [memberTrees]

theorem level_main (ms : List (List (Option Operand))) (hne : ms ≠ []) (hms : MembersOK ms) :
    LevelGoal ms := by
  intro rest suf hs
  match ms, hne, hms with
  | [m], _, hms =>
    obtain ⟨hmne, hmx⟩ := hms m (by simp)
    refine ⟨stackA m, ?_, ?_, collapse_A m hmne rest⟩
    · match m, hmne with
      | [x], _ => simp [stackA]
      | x :: y :: r, _ => simp [stackA]
    · rw [renderLevelAux.eq_2, member_A m hmne hmx rest suf hs.sep]
  | m :: m' :: r, _, hms =>
    obtain ⟨hmne, hmx⟩ := hms m (by simp)
    obtain ⟨st, hst, hrun, hcol⟩ := chain_rest (m' :: r) (by simp)
      (fun z hz => hms z (by simp [hz])) [memberTree m] rest suf hs
    refine ⟨st, hst, ?_, ?_⟩
    · rw [renderLevelAux.eq_3, List.append_assoc, List.cons_append,
        member_A m hmne hmx rest _ (sepNext_semicolon _), semi_A m hmne]
      simpa using hrun
    · rw [hcol, levelTreeAux.eq_5]; simp

/-! ### well-formedness -/

theorem memberWf_ne {m : List (Option Operand)} (h : memberWf m = true) : m ≠ [] := by
  intro hm; subst hm; simp [memberWf] at h

theorem memberWf_mem {m : List (Option Operand)} (h : memberWf m = true) :
    ∀ x ∈ m, optWf x = true := by
  induction m with
  | nil => intro x hx; cases hx
  | cons a m ih =>
    cases m with
    | nil =>
      intro x hx
      simp at hx; subst hx
      simpa [memberWf] using h
    | cons b r =>
      rw [memberWf.eq_3] at h
      simp only [Bool.and_eq_true] at h
      intro x hx
      rcases List.mem_cons.mp hx with rfl | hx
      · exact h.1
      · exact ih h.2 x hx

theorem levelWf_ne {ms : List (List (Option Operand))} (h : levelWf ms = true) : ms ≠ [] := by
  intro hm; subst hm; simp [levelWf] at h

theorem levelWf_mem {ms : List (List (Option Operand))} (h : levelWf ms = true) :
    ∀ m ∈ ms, memberWf m = true := by
  induction ms with
  | nil => intro x hx; cases hx
  | cons a ms ih =>
    cases ms with
    | nil =>
      intro x hx
      simp at hx; subst hx
      simpa [levelWf] using h
    | cons b r =>
      rw [levelWf.eq_3] at h
      simp only [Bool.and_eq_true] at h
      intro x hx
      rcases List.mem_cons.mp hx with rfl | hx
      · exact h.1
      · exact ih h.2 x hx

/-! ### the nested induction -/

/-- every element of every member satisfies `ElemGoal` if it is well-formed -/
def ElemsOK (m : List (Option Operand)) : Prop := ∀ x ∈ m, optWf x = true → ElemGoal x

theorem level_of_elems (ms : List (List (Option Operand))) (h : ∀ m ∈ ms, ElemsOK m)
    (hwf : levelWf ms = true) : LevelGoal ms :=
  level_main ms (levelWf_ne hwf) (fun m hm =>
    ⟨memberWf_ne (levelWf_mem hwf m hm),
      fun x hx => h m hm x hx (memberWf_mem (levelWf_mem hwf m hm) x hx)⟩)

theorem operand_main (o : Operand) : o.wf = true → OperandGoal o := by
  refine Operand.rec
    (motive_1 := fun o => o.wf = true → OperandGoal o)
    (motive_2 := fun ms => ∀ m ∈ ms, ElemsOK m)
    (motive_3 := fun m => ElemsOK m)
    (motive_4 := fun x => optWf x = true → ElemGoal x)
    ?_ ?_ ?_ ?_ ?_ ?_ ?_ ?_ o
  · intro e _; exact operand_expr e
  · intro ms ih hwf
    exact operand_group ms (level_of_elems ms ih (by simpa [Operand.wf] using hwf))
  · intro m hm; cases hm
  · intro m ms ihm ihms z hz
    rcases List.mem_cons.mp hz with rfl | hz
    · exact ihm
    · exact ihms z hz
  · intro x hx; cases hx
  · intro x m ihx ihm z hz
    rcases List.mem_cons.mp hz with rfl | hz
    · exact ihx
    · exact ihm z hz
  · intro _; exact elem_none
  · intro o ih hwf
    exact elem_some o (ih (by simpa [optWf] using hwf))

theorem level_goal (l : Level) (h : levelWf l = true) : LevelGoal l := by
  refine level_of_elems l ?_ h
  intro m _ x _ hwf
  cases x with
  | none => exact elem_none
  | some o => exact elem_some o (operand_main o (by simpa [optWf] using hwf))

/-- the tree builder on the rendering of any well-formed sequence level is the reference tree -/
theorem C05_tree (l : Level) (h : levelWf l = true) :
    tokensToOperatorTree (renderLevel l) = .ok (levelTree l) := by
  obtain ⟨st, _, hrun, hcol⟩ := level_goal l h [] [] endNext_nil
  simp only [List.append_nil, treeLoop] at hrun hcol
  simp [tokensToOperatorTree, renderLevel, levelTree, Node.rootNode, hrun, hcol]

end Evalexpr.Spec
