/-
Proofs/MalformedInv.lean — the potential of the whole root stack and the three kinds of steps
(push of an operand/operator node, push of a separator, opening and closing a parenthesis).
-/
import EvalexprVerif.Proofs.MalformedLvlSeq

namespace Evalexpr.Spec
open Evalexpr

def flat : List Lvl → List Node
  | [] => []
  | L :: ls => L.toList ++ flat ls

def Psi : List Lvl → Nat
  | [] => 0
  | L :: ls => L.pot + Psi ls

def WFs (lv : List Lvl) : Prop := ∀ L ∈ lv, L.WF

def topOpen : List Lvl → Nat
  | [] => 0
  | L :: _ => L.open

theorem WFs.stk {lv : List Lvl} (h : WFs lv) : Stk lv.length (flat lv) := by
  induction lv with
  | nil => exact Stk.nil
  | cons L ls ih =>
    exact Stk.cons (h L (by simp)).level (ih (fun L' h' => h L' (by simp [h'])))

theorem WFs.cons {L : Lvl} {ls : List Lvl} (hL : L.WF) (h : WFs ls) : WFs (L :: ls) := by
  intro L' h'
  rcases List.mem_cons.mp h' with rfl | h'
  · exact hL
  · exact h L' h'

theorem WFs.tail {L : Lvl} {ls : List Lvl} (h : WFs (L :: ls)) : WFs ls :=
  fun L' h' => h L' (by simp [h'])

theorem WFs.head {L : Lvl} {ls : List Lvl} (h : WFs (L :: ls)) : L.WF := h L (by simp)

theorem pushAny_cons (L : Lvl) (s : List Node) (node : Node) :
    pushAny (L.toList ++ s) node =
      if node.op.isSequence then pushSequence (L.below ++ s) L.top node
      else pushNode (L.below ++ s) L.top node := by
  rw [Lvl.toList_eq]; rfl

/-- (P1) push of a non-sequence node -/
theorem push_plain {L : Lvl} {ls : List Lvl} (hL : L.WF) (node : Node)
    (hn : node.op.isSequence = false) (st1 : List Node)
    (h : pushAny (flat (L :: ls)) node = .ok st1) :
    ∃ L' : Lvl, st1 = flat (L' :: ls) ∧ L'.WF ∧ L'.open = 0 ∧ L'.pot + 1 ≥ L.pot + defect node := by
  simp only [flat, pushAny_cons, hn, Bool.false_eq_true, if_false] at h
  rcases pushNode_lvl hL (flat ls) node with ⟨e, he⟩ | ⟨L', h1, h2, h3, h4⟩
  · rw [he] at h; cases h
  · rw [h2] at h; cases h
    exact ⟨L', rfl, h1, h3, h4⟩

/-- (P2) push of a separator -/
theorem push_sep {L : Lvl} {ls : List Lvl} (hL : L.WF) (node : Node)
    (hn : node.op.isSequence = true) (st1 : List Node)
    (h : pushAny (flat (L :: ls)) node = .ok st1) :
    ∃ L' : Lvl, st1 = flat (L' :: ls) ∧ L'.WF ∧ L'.open = 1 ∧ L'.pot + L.open ≥ L.pot + 1 := by
  simp only [flat, pushAny_cons, hn, if_true] at h
  rcases pushSequence_lvl hL (flat ls) node hn with ⟨e, he⟩ | ⟨L', h1, h2, h3, h4⟩
  · rw [he] at h; cases h
  · rw [h2] at h; cases h
    exact ⟨L', rfl, h1, h3, h4⟩

/-- (P3) closing a parenthesis -/
theorem step_close {L : Lvl} {ls : List Lvl} (hw : WFs (L :: ls)) (lr li : Bool)
    (next : Option Token) (st1 : List Node)
    (h : treeStep (flat (L :: ls)) lr li .rBrace next = .ok st1) :
    ∃ (L2 L2' : Lvl) (ls' : List Lvl), ls = L2 :: ls' ∧ st1 = flat (L2' :: ls') ∧ L2'.WF ∧
      L2'.open = 0 ∧ L2'.pot + 1 + L.open ≥ L2.pot + L.pot := by
  rw [treeStep_eq, juxt_rBrace] at h
  simp only [Bool.false_eq_true, if_false, tokenToNode] at h
  by_cases hlen : (flat (L :: ls)).length ≤ 1
  · simp only [hlen, if_true] at h; cases h
  · simp only [hlen, if_false] at h
    simp only [flat] at h
    rcases collapse_lvl hw.head (flat ls) with ⟨e, he⟩ | ⟨R, hR, hc, hd⟩
    · rw [he] at h; cases h
    · rw [hc] at h
      simp only at h
      cases ls with
      | nil => simp [flat, pushAny] at h
      | cons L2 ls' =>
        obtain ⟨L2', k1, k2, k3, k4⟩ := push_plain hw.tail.head R (kind_root_isSeq hR) st1 h
        refine ⟨L2, L2', ls', rfl, k1, k2, k3, ?_⟩
        rw [hd] at k4
        simp only [Lvl.pot] at k4 ⊢
        omega

/-- (P4) opening a parenthesis -/
theorem step_open (lv : List Lvl) (lr li : Bool) (next : Option Token) (st1 : List Node)
    (h : treeStep (flat lv) lr li .lBrace next = .ok st1) :
    juxtaposed lr li .lBrace = false ∧ st1 = flat (.r Node.rootNode :: lv) := by
  rw [treeStep_eq] at h
  cases hj : juxtaposed lr li .lBrace with
  | true => rw [hj] at h; simp at h
  | false =>
    rw [hj] at h
    simp only [Bool.false_eq_true, if_false, tokenToNode] at h
    cases h
    exact ⟨rfl, rfl⟩

theorem rootLvl_WF : (Lvl.r Node.rootNode).WF := rfl
theorem rootLvl_pot : (Lvl.r Node.rootNode).pot = 1 := by
  simp [Lvl.pot, Lvl.toList, Lvl.open, rootNode_defect, rootNode_open]

end Evalexpr.Spec
