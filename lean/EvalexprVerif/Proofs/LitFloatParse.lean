/-
Proofs/LitFloatParse.lean — C06 helpers: `F64.parseBits` / `F64.parse` on float literals, in both
directions: a mantissa followed by an exponent part parses to `magOf …`, and a sign-free word
starting like a number that parses is a float literal.
-/
import EvalexprVerif.Proofs.LitParts

namespace Evalexpr.Spec
open Evalexpr

/-- the digits of a mantissa without the dot (as in `floatLitValue`) -/
def mantDigits (m : Str) : Str := m.takeWhile F64.isDigit ++ (m.dropWhile F64.isDigit).drop 1
/-- the number of fraction digits of a mantissa (as in `floatLitValue`) -/
def mantFracLen (m : Str) : Nat := ((m.dropWhile F64.isDigit).drop 1).length

theorem mantissa_chars (m : Str) (h : isMantissa m = true) :
    ∀ c ∈ m, F64.isDigit c = true ∨ c = '.' := by
  intro c hc
  rcases isMantissa_cases m h with ⟨-, hd⟩ | ⟨ip, fp, rfl, hip, hfp, -⟩
  · exact Or.inl (List.all_eq_true.1 hd c hc)
  · simp only [List.mem_append, List.mem_cons] at hc
    rcases hc with hc | hc | hc
    · exact Or.inl (List.all_eq_true.1 hip c hc)
    · exact Or.inr hc
    · exact Or.inl (List.all_eq_true.1 hfp c hc)

theorem mantissa_head (m : Str) (h : isMantissa m = true) :
    ∃ c r, m = c :: r ∧ (F64.isDigit c = true ∨ c = '.') := by
  cases m with
  | nil => simp [isMantissa] at h
  | cons c r => exact ⟨c, r, rfl, mantissa_chars _ h c (by simp)⟩

theorem not_isSignChar_of_digit_or_dot (c : Char) (h : F64.isDigit c = true ∨ c = '.') :
    ¬ isSignChar c = true := by
  rcases h with h | rfl
  · exact not_isSignChar_of_isDigit c h
  · decide

theorem startsLikeNumber_mantissa (m tail : Str) (h : isMantissa m = true) :
    startsLikeNumber (m ++ tail) = true := by
  obtain ⟨c, r, rfl, hc⟩ := mantissa_head m h
  rcases hc with hc | rfl <;> simp [startsLikeNumber, *]

theorem parseBits_of_startsLikeNumber (w : Str) (h : startsLikeNumber w = true) :
    F64.parseBits w = F64.parseMagnitude w := by
  cases w with
  | nil => simp [startsLikeNumber] at h
  | cons c r =>
    apply parseBits_eq_parseMagnitude
    apply not_isSignChar_of_digit_or_dot
    simpa [startsLikeNumber] using h

/-- forward direction: a mantissa followed by a tail that starts with neither a digit nor a dot -/
theorem parseBits_mantissa (m tail : Str) (hm : isMantissa m = true)
    (ht : ∀ c r, tail = c :: r → F64.isDigit c = false ∧ c ≠ '.') :
    F64.parseBits (m ++ tail) = (expoOf tail).map (magOf (mantDigits m) (mantFracLen m)) := by
  rw [parseBits_of_startsLikeNumber _ (startsLikeNumber_mantissa m tail hm)]
  rcases isMantissa_cases m hm with ⟨hne, hd⟩ | ⟨ip, fp, rfl, hip, hfp, hne⟩
  · obtain ⟨h1, h2⟩ := takeWhile_digits_append m [] hd (by intro c r h; cases h)
    rw [List.append_nil] at h1 h2
    rw [parseMagnitude_nodot m tail hd hne ht]
    simp [mantDigits, mantFracLen, h1, h2]
  · obtain ⟨h1, h2⟩ := takeWhile_digits_append ip ('.' :: fp) hip
      (fun c r h => by simp only [List.cons.injEq] at h; rw [← h.1]; decide)
    have := parseMagnitude_dot ip fp tail hip hfp hne (fun c r h => (ht c r h).1)
    rw [List.append_assoc, List.cons_append, this]
    simp [mantDigits, mantFracLen, h1, h2]

theorem tail_exp_ok (e : Char) (r : Str) (he : e = 'e' ∨ e = 'E') :
    ∀ c r', e :: r = c :: r' → F64.isDigit c = false ∧ c ≠ '.' := by
  intro c r' h
  simp only [List.cons.injEq] at h
  rw [← h.1]
  rcases he with rfl | rfl <;> decide

theorem parseBits_plain (m : Str) (hm : isMantissa m = true) :
    F64.parseBits m = some (magOf (mantDigits m) (mantFracLen m) 0) := by
  have := parseBits_mantissa m [] hm (by intro c r h; cases h)
  rw [List.append_nil] at this
  rw [this]; rfl

theorem parseBits_exp (m ex : Str) (e : Char) (hm : isMantissa m = true) (he : e = 'e' ∨ e = 'E')
    (hex : isDigits ex = true) :
    F64.parseBits (m ++ e :: ex) = some (magOf (mantDigits m) (mantFracLen m) (decValue ex)) := by
  rw [parseBits_mantissa m _ hm (tail_exp_ok e ex he), expoOf_unsigned e ex he hex]; rfl

theorem parseBits_exp_plus (m ex : Str) (e : Char) (hm : isMantissa m = true)
    (he : e = 'e' ∨ e = 'E') (hex : isDigits ex = true) :
    F64.parseBits (m ++ e :: '+' :: ex) =
      some (magOf (mantDigits m) (mantFracLen m) (decValue ex)) := by
  rw [parseBits_mantissa m _ hm (tail_exp_ok e _ he), expoOf_plus e ex he hex]; rfl

theorem parseBits_exp_minus (m ex : Str) (e : Char) (hm : isMantissa m = true)
    (he : e = 'e' ∨ e = 'E') (hex : isDigits ex = true) :
    F64.parseBits (m ++ e :: '-' :: ex) =
      some (magOf (mantDigits m) (mantFracLen m) (-(decValue ex : Int))) := by
  rw [parseBits_mantissa m _ hm (tail_exp_ok e _ he), expoOf_minus e ex he hex]; rfl

/-- a float literal is accepted by `F64.parseBits` -/
theorem parseBits_isFloatLit (w : Str) (h : isFloatLit w = true) : ∃ b, F64.parseBits w = some b := by
  rcases isFloatLit_cases w h with hm | ⟨m, e, ex, rfl, he, hm, hex⟩
  · exact ⟨_, parseBits_plain w hm⟩
  · exact ⟨_, parseBits_exp m ex e hm he hex⟩

theorem startsLikeNumber_isFloatLit (w : Str) (h : isFloatLit w = true) :
    startsLikeNumber w = true := by
  rcases isFloatLit_cases w h with hm | ⟨m, e, ex, rfl, he, hm, hex⟩
  · have := startsLikeNumber_mantissa w [] hm; rwa [List.append_nil] at this
  · exact startsLikeNumber_mantissa m _ hm

/-! ### converse: what `F64.parse` accepts among sign-free words that start like a number -/

theorem expoOf_signfree (rest : Str) (e10 : Int) (h : expoOf rest = some e10)
    (hs : ∀ c ∈ rest, ¬ isSignChar c = true) :
    rest = [] ∨ ∃ e ex, rest = e :: ex ∧ (e = 'e' ∨ e = 'E') ∧ isDigits ex = true := by
  rcases expoOf_shape rest e10 h with rfl | ⟨e, r, rfl, he, hr | ⟨sg, r', rfl, hsg, -, -⟩⟩
  · exact Or.inl rfl
  · exact Or.inr ⟨e, r, rfl, he, (isDigits_iff r).2 hr⟩
  · exact absurd hsg (hs sg (by simp))

theorem dropWhile_head_not_digit (w : Str) :
    ∀ c r, w.dropWhile F64.isDigit = c :: r → F64.isDigit c = false := by
  intro c r h
  have := List.head?_dropWhile_not F64.isDigit w
  rw [h] at this
  simpa using this

/-- a sign-free word that starts like a number and is accepted by `F64.parseMagnitude` is a float
literal -/
theorem isFloatLit_of_parseMagnitude (w : Str) (hs : ∀ c ∈ w, ¬ isSignChar c = true)
    (hn : startsLikeNumber w = true) (h : F64.parseMagnitude w ≠ none) : isFloatLit w = true := by
  have hw : w = w.takeWhile F64.isDigit ++ w.dropWhile F64.isDigit := by simp
  have hI : (w.takeWhile F64.isDigit).all F64.isDigit = true := List.all_takeWhile
  have hD := dropWhile_head_not_digit w
  generalize w.takeWhile F64.isDigit = I at *
  generalize w.dropWhile F64.isDigit = D at *
  subst hw
  by_cases hdot : ∃ r, D = '.' :: r
  · obtain ⟨r, rfl⟩ := hdot
    have hr : r = r.takeWhile F64.isDigit ++ r.dropWhile F64.isDigit := by simp
    have hF : (r.takeWhile F64.isDigit).all F64.isDigit = true := List.all_takeWhile
    have hR := dropWhile_head_not_digit r
    generalize r.takeWhile F64.isDigit = F at *
    generalize r.dropWhile F64.isDigit = R at *
    subst hr
    by_cases hne : I = [] ∧ F = []
    · exfalso
      obtain ⟨rfl, rfl⟩ := hne
      obtain ⟨h1, h2⟩ := special_false _ hn
      apply h
      rw [parseMagnitude_eq _ h1 h2]
      have hd : dotSplit ('.' :: ([] ++ R)) = ([], R) := dotSplit_dot [] R rfl hR
      obtain ⟨h3, h4⟩ := takeWhile_digits_append [] ('.' :: ([] ++ R)) rfl
        (fun c r h => by simp only [List.cons.injEq] at h; rw [← h.1]; decide)
      rw [h3, h4, hd]; rfl
    · rw [parseMagnitude_dot I F R hI hF hne hR] at h
      cases hx : expoOf R with
      | none => rw [hx] at h; exact absurd rfl h
      | some e10 =>
        have hm : isMantissa (I ++ '.' :: F) = true := isMantissa_dot I F hI hF hne
        rcases expoOf_signfree R e10 hx (fun c hc => hs c (by simp [hc])) with
          rfl | ⟨e, ex, rfl, he, hex⟩
        · rw [List.append_nil]; exact isFloatLit_of_mantissa _ hm
        · have := isFloatLit_of_exp _ ex e hm he hex
          simpa using this
  · have hnd : ∀ c r, D = c :: r → F64.isDigit c = false ∧ c ≠ '.' := by
      intro c r hc
      refine ⟨hD c r hc, ?_⟩
      rintro rfl
      exact hdot ⟨r, hc⟩
    have hne : I ≠ [] := by
      rintro rfl
      cases D with
      | nil => simp [startsLikeNumber] at hn
      | cons c r =>
        obtain ⟨h1, h2⟩ := hnd c r rfl
        simp [startsLikeNumber, h1, h2] at hn
    rw [parseMagnitude_nodot I D hI hne hnd] at h
    cases hx : expoOf D with
    | none => rw [hx] at h; exact absurd rfl h
    | some e10 =>
      have hm : isMantissa I = true := isMantissa_digits I hI hne
      rcases expoOf_signfree D e10 hx (fun c hc => hs c (by simp [hc])) with
        rfl | ⟨e, ex, rfl, he, hex⟩
      · rw [List.append_nil]; exact isFloatLit_of_mantissa _ hm
      · exact isFloatLit_of_exp _ ex e hm he hex

theorem isFloatLit_of_parse (w : Str) (hs : ∀ c ∈ w, ¬ isSignChar c = true)
    (hn : startsLikeNumber w = true) (h : F64.parse w ≠ none) : isFloatLit w = true := by
  apply isFloatLit_of_parseMagnitude w hs hn
  intro hm
  apply h
  rw [F64.parse, parseBits_of_startsLikeNumber w hn, hm]; rfl

end Evalexpr.Spec
