/-
Proofs/IteratorsSeq.lean — property C14 over the whole domain of C05: on the tree of any sequence
level (chains of tuples of optional operands, parenthesised levels, absent elements and empty
groups included) the iterators list every identifier occurrence in source order, correctly
classified; with `C05_tree`, the same holds on the tree the builder returns for the level's tokens.
-/
import EvalexprVerif.Spec.IdentsSeq
import EvalexprVerif.Proofs.Iterators
import EvalexprVerif.Proofs.ParseSeq

namespace Evalexpr.Spec
open Evalexpr

/-- a node whose operator carries no identifier contributes its children's occurrences -/
theorem occList_cons_noIdent (op : Operator) (cs rest : List Node) (h : op.ident = none) :
    occList (⟨op, cs⟩ :: rest) = occList cs ++ occList rest := by
  simp [occList_cons, h]

theorem occList_rootOf (cs rest : List Node) :
    occList (rootOf cs :: rest) = occList cs ++ occList rest :=
  occList_cons_noIdent _ _ _ rfl

mutual
theorem occList_operandTree : ∀ (o : Operand) (rest : List Node),
    occList (operandTree o :: rest) = occOperand o ++ occList rest
  | .expr e, rest => by simp only [operandTree, occOperand, occList_toTree]
  | .group ms, rest => by simp only [operandTree, occOperand, occList_levelTreeAux ms rest]
theorem occList_elemTree : ∀ (x : Option Operand) (rest : List Node),
    occList (elemTree x :: rest) = occOpt x ++ occList rest
  | none, rest => by simp only [elemTree, occOpt, occList_rootOf, occList_nil, List.nil_append]
  | some o, rest => by
    simp only [elemTree, occOpt, occList_rootOf, occList_operandTree o [], occList_nil,
      List.append_nil]
theorem occList_elemTrees : ∀ (xs : List (Option Operand)),
    occList (elemTrees xs) = occMember xs
  | [] => by simp only [elemTrees, occMember, occList_nil]
  | x :: xs => by
    simp only [elemTrees, occMember, occList_elemTree x (elemTrees xs), occList_elemTrees xs]
theorem occList_memberTree : ∀ (m : List (Option Operand)) (rest : List Node),
    occList (memberTree m :: rest) = occMember m ++ occList rest
  | [], rest => by simp only [memberTree, occMember, occList_rootOf, occList_nil]
  | [x], rest => by
    simp only [memberTree, occMember, occList_elemTree x rest, List.append_nil]
  | x :: y :: xs, rest => by
    have ht : Operator.tuple.ident = none := rfl
    rw [memberTree, occList_cons_noIdent _ _ _ ht, occList_elemTree x (elemTrees (y :: xs)),
      occList_elemTrees (y :: xs)]
    simp only [occMember]
theorem occList_memberTrees : ∀ (ms : List (List (Option Operand))),
    occList (memberTrees ms) = occLevelAux ms
  | [] => by simp only [memberTrees, occLevelAux, occList_nil]
  | m :: ms => by
    simp only [memberTrees, occLevelAux, occList_memberTree m (memberTrees ms),
      occList_memberTrees ms]
theorem occList_levelTreeAux : ∀ (ms : List (List (Option Operand))) (rest : List Node),
    occList (levelTreeAux ms :: rest) = occLevelAux ms ++ occList rest
  | [], rest => by simp only [levelTreeAux, occLevelAux, occList_rootOf, occList_nil]
  | [[]], rest => by
    simp only [levelTreeAux, occLevelAux, occMember, occList_rootOf, occList_nil, List.append_nil]
  | [[x]], rest => by
    simp only [levelTreeAux, occLevelAux, occMember, occList_elemTree x rest, List.append_nil]
  | [x :: y :: xs], rest => by
    simp only [levelTreeAux, occLevelAux, occList_rootOf, occList_memberTree (x :: y :: xs) [],
      occList_nil, List.append_nil]
  | m :: m' :: ms, rest => by
    have hc : Operator.chain.ident = none := rfl
    rw [levelTreeAux, occList_rootOf, occList_cons_noIdent _ _ _ hc,
      occList_memberTree m (memberTrees (m' :: ms)), occList_memberTrees (m' :: ms)]
    simp only [occLevelAux, occList_nil, List.append_nil]
end

/-- the root node of a level's tree is a plain root node, so its children carry the occurrences -/
theorem levelTreeAux_children (ms : List (List (Option Operand))) :
    occList (levelTreeAux ms).children = occLevelAux ms := by
  have h := occList_levelTreeAux ms []
  have hop := levelTreeAux_op ms
  generalize levelTreeAux ms = n at h hop
  obtain ⟨op, cs⟩ := n
  simp only at hop
  subst hop
  have hr : Operator.rootNode.ident = none := rfl
  rw [occList_cons_noIdent _ _ _ hr, occList_nil, List.append_nil, List.append_nil] at h
  exact h

/-- on the tree of ANY sequence level (absent elements and empty groups included) the iterators list
every identifier occurrence in source order, correctly classified -/
theorem C14_source_level (l : Level) : identOccurrences (levelTree l) = occLevel l := by
  rw [identOccurrences_eq]
  exact levelTreeAux_children l

/-- … hence on the tree the builder returns for the level's tokens -/
theorem C14_source_level_built (l : Level) (h : levelWf l = true) :
    (tokensToOperatorTree (renderLevel l)).map identOccurrences = .ok (occLevel l) := by
  rw [C05_tree l h]
  simp only [Except.map, C14_source_level]

end Evalexpr.Spec
