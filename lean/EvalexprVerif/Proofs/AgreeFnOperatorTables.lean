/-
Proofs/AgreeFnOperatorTables.lean — the static operator predicates of src/operator/mod.rs (`precedence`,
`is_left_to_right`, `is_sequence`, `is_leaf`, `max_argument_amount`, `is_unary`, the four constructor helpers) and the
token predicates of src/token/mod.rs (`is_leftsided_value`, `is_rightsided_value`, `is_assignment`) as translated on this
run (`Generated/FnOperatorTables.lean`, `Generated/FnToken.lean`) equal the Model's tables (`Model/Operator.lean`,
`Model/Lexer.lean`) for ALL operators / tokens. Generic scripts: split on the constructor, then `rfl`.
-/
import EvalexprVerif.Generated.FnOperatorTables
import EvalexprVerif.Generated.FnToken
import EvalexprVerif.Translate.Lemmas
import EvalexprVerif.Model.Operator
import EvalexprVerif.Model.Lexer

namespace Evalexpr.AgreeFn
open Evalexpr

theorem fn_Operator_precedence_agree (o : Operator) : Gen.Operator.precedence o = o.precedence := by
  cases o <;> rfl
theorem fn_Operator_is_left_to_right_agree (o : Operator) : Gen.Operator.is_left_to_right o = o.isLeftToRight := by
  cases o <;> rfl
theorem fn_Operator_is_sequence_agree (o : Operator) : Gen.Operator.is_sequence o = o.isSequence := by
  cases o <;> rfl
theorem fn_Operator_max_argument_amount_agree (o : Operator) : Gen.Operator.max_argument_amount o = o.maxArgumentAmount := by
  cases o <;> rfl
theorem fn_Operator_is_leaf_agree (o : Operator) : Gen.Operator.is_leaf o = o.isLeaf := by
  cases o <;> rfl
theorem fn_Operator_is_unary_agree (o : Operator) : Gen.Operator.is_unary o = o.isUnary := by
  cases o <;> rfl
theorem fn_Operator_value_agree (v : Value) : Gen.Operator.value v = .const v := rfl
theorem fn_Operator_variable_identifier_write_agree (id : Str) : Gen.Operator.variable_identifier_write id = .varWrite id := rfl
theorem fn_Operator_variable_identifier_read_agree (id : Str) : Gen.Operator.variable_identifier_read id = .varRead id := rfl
theorem fn_Operator_function_identifier_agree (id : Str) : Gen.Operator.function_identifier id = .fn id := rfl

theorem fn_Token_is_leftsided_value_agree (t : Token) : Gen.Token.is_leftsided_value t = t.isLeftsidedValue := by
  cases t <;> rfl
theorem fn_Token_is_rightsided_value_agree (t : Token) : Gen.Token.is_rightsided_value t = t.isRightsidedValue := by
  cases t <;> rfl
theorem fn_Token_is_assignment_agree (t : Token) : Gen.Token.is_assignment t = t.isAssignment := by
  cases t <;> rfl

end Evalexpr.AgreeFn
