/-
Proofs/MalformedDefect.lean — the number of missing operands in a tree (`defect`), and how
`Node.insertBackPrioritized` changes it (for C13 (ii)).
-/
import EvalexprVerif.Proofs.MalformedBalance

namespace Evalexpr.Spec
open Evalexpr

/-- missing operands of one node: `arity - children` for the operators with a fixed arity other
than the parenthesis node -/
def slot (op : Operator) (k : Nat) : Nat :=
  match op.maxArgumentAmount with
  | some n => if op.isRoot then 0 else n - k
  | none => 0

mutual
/-- the number of missing operands in a tree -/
def defect : Node → Nat
  | ⟨op, cs⟩ => slot op cs.length + defectList cs
def defectList : List Node → Nat
  | [] => 0
  | c :: cs => defect c + defectList cs
end

theorem defect_mk (op : Operator) (cs : List Node) :
    defect ⟨op, cs⟩ = slot op cs.length + defectList cs := by rw [defect]

theorem defect_eq (n : Node) : defect n = slot n.op n.children.length + defectList n.children := by
  cases n; rw [defect]

@[simp] theorem defectList_nil : defectList [] = 0 := by rw [defectList]
@[simp] theorem defectList_cons (c : Node) (cs : List Node) :
    defectList (c :: cs) = defect c + defectList cs := by rw [defectList]

@[simp] theorem defectList_append (a b : List Node) :
    defectList (a ++ b) = defectList a + defectList b := by
  induction a with
  | nil => simp
  | cons c a ih => simp [ih]; omega

theorem slot_succ (op : Operator) (k : Nat) : slot op (k + 1) + 1 ≥ slot op k := by
  unfold slot
  split
  · split <;> omega
  · omega

theorem slot_root {op : Operator} (h : op.isRoot = true) (k : Nat) : slot op k = 0 := by
  unfold slot
  split <;> simp [h]

mutual
theorem defect_pos_deficient : ∀ (t : Node), 0 < defect t → deficient t = true
  | ⟨op, cs⟩, h => by
    rw [defect] at h
    rw [deficient]
    by_cases h1 : 0 < slot op cs.length
    · have : (match op.maxArgumentAmount with
          | some n => !op.isRoot && cs.length != n
          | none => false) = true := by
        unfold slot at h1
        split at h1
        · split at h1
          · omega
          · rename_i n _ hr
            simp [hr]; omega
        · omega
      rw [Bool.or_eq_true]; exact .inl this
    · have h2 : 0 < defectList cs := by omega
      simp [defectList_pos_deficient cs h2]
theorem defectList_pos_deficient : ∀ (cs : List Node), 0 < defectList cs → deficientList cs = true
  | [], h => by simp at h
  | c :: cs, h => by
    rw [defectList] at h
    rw [deficientList]
    by_cases h1 : 0 < defect c
    · simp [defect_pos_deficient c h1]
    · have h2 : 0 < defectList cs := by omega
      simp [defectList_pos_deficient cs h2]
end

/-- an empty parenthesis node is an open operand position -/
def openSlot (n : Node) : Nat := if n.op.isRoot && n.children.isEmpty then 1 else 0

theorem openSlot_le (n : Node) : openSlot n ≤ 1 := by unfold openSlot; split <;> omega

theorem openSlot_nonempty {n : Node} (h : n.children ≠ []) : openSlot n = 0 := by
  unfold openSlot
  cases hc : n.children with
  | nil => exact absurd hc h
  | cons _ _ => simp

theorem insert_defect :
    (∀ (X node : Node) (b : Bool) (X' : Node), X.insertBackPrioritized node b = .ok X' →
      X'.children ≠ [] ∧ defect X' + 1 ≥ defect X + openSlot X + defect node) ∧
    (∀ (op : Operator) (pre cs : List Node) (node X' : Node),
      insertAtLast op pre cs node = .ok X' →
      X'.children ≠ [] ∧ defect X' + 1 ≥ defect ⟨op, pre ++ cs⟩ + defect node) := by
  apply Node.insertBackPrioritized.mutual_induct
  case case1 => intro op cs node b h1 h2 X' h; simp [Node.insertBackPrioritized, h1, h2] at h
  case case2 =>
    intro op cs node b h1 h2 h3 ih X' h
    simp only [Node.insertBackPrioritized, h1, h2, h3, if_true] at h
    have := ih X' (by simpa using h)
    have ho : openSlot ⟨op, cs⟩ = 0 := by
      cases cs with
      | nil => simp [insertAtLast] at h
      | cons _ _ => exact openSlot_nonempty (by simp)
    simp only [List.nil_append] at this
    rw [ho]; exact ⟨this.1, by omega⟩
  case case3 =>
    intro op cs node b h1 h2 h3 X' h
    simp [Node.insertBackPrioritized, h1, h2, h3] at h
    subst h
    refine ⟨by simp, ?_⟩
    simp only [defect_mk, defectList_append, defectList_cons, defectList_nil, List.length_append,
      List.length_singleton]
    have := slot_succ op cs.length
    unfold openSlot
    split
    · rename_i hr
      simp only [Bool.and_eq_true] at hr
      rw [slot_root hr.1, slot_root hr.1]; omega
    · omega
  case case4 => intro op cs node b h1 X' h; simp [Node.insertBackPrioritized, h1] at h
  case case5 => intro op pre x X' h; simp [insertAtLast] at h
  case case6 =>
    intro op pre c node h1 c' h2 ih X' h
    simp [insertAtLast, h1, h2] at h
    subst h
    have := (ih c' h2).2
    refine ⟨by simp, ?_⟩
    simp only [defect_mk, defectList_append, defectList_cons, defectList_nil, List.length_append,
      List.length_singleton]
    omega
  case case7 =>
    intro op pre c node h1 e' h2 ih X' h
    simp [insertAtLast, h1, h2] at h
  case case13 =>
    intro op pre c node h1 h2 h3 h4 h5 h6 X' h
    simp only [insertAtLast, h1, h2, h3, h4, h5, h6, Bool.false_eq_true, if_false] at h
    have h := Except.ok.inj h
    subst h
    refine ⟨by simp, ?_⟩
    rw [defect_eq node]
    simp only [defect_mk, defectList_append, defectList_cons, defectList_nil, List.length_append,
      List.length_singleton]
    have := slot_succ node.op node.children.length
    omega
  case case14 =>
    intro op pre c c2 cs node ih X' h
    rw [insertAtLast] at h
    have := ih X' h
    simpa using this
  all_goals
    intro op pre c node
    intros
    rename_i X' h
    simp [insertAtLast, *] at h

theorem insertBack_defect (X node X' : Node) (b : Bool)
    (h : X.insertBackPrioritized node b = .ok X') :
    X'.children ≠ [] ∧ defect X' + 1 ≥ defect X + openSlot X + defect node :=
  insert_defect.1 X node b X' h

end Evalexpr.Spec
