/-
Proofs/AgreeFnTreeBuild.lean — the helpers of the operator-tree builder of src/tree/mod.rs as translated on this run
(`Generated/FnTreeBuild.lean`, by /verif/translate_fn.py) against the Model (`Model/Tree.lean`), for ALL inputs:

* `Node::new`, `Node::root_node`, `Node::has_enough_children`, `Node::has_too_many_children`;
* `collapse_root_stack_to`, `collapse_all_sequences` — translated `loop`s (`Rs.loop`, defined by `partial_fixpoint`, `none` =
  divergence): the theorems state that the translation returns `some _` (TERMINATION, by induction on the stack) and that the
  result is the Model's; the final value of the `&mut Vec<Node>` parameter is compared (reversed: the Model's stack has its top at
  the head) where the result is `Ok`, like `fn_HashMapContext_set_value_agree` does;
* `Node::insert_back_prioritized` — `&mut self`, recursion through `self.children.last_mut().unwrap()` (translated with
  `partial_fixpoint`): terminates and equals `Node.insertBackPrioritized`; in particular its `unwrap()`s do not fire.

Generic scripts: unfold the generated definition, replace the translated callees by the Model's (agreement theorems), evaluate
the Prelude vocabulary (`Translate/Lemmas.lean`), split on the conditions that remain (`rs_split_ifs`), close every case by
computation (`out_close`). They follow the case structure of the MODEL (empty / non-empty stack, no child / a last child), not the
syntactic shape of the Rust bodies.
-/
import EvalexprVerif.Generated.FnTreeBuild
import EvalexprVerif.Translate.Tactics
import EvalexprVerif.Proofs.AgreeFnOperatorTables
import EvalexprVerif.Proofs.AgreeFnTree
import EvalexprVerif.Model.Tree

set_option linter.unusedSimpArgs false
set_option linter.unusedVariables false

namespace Evalexpr.AgreeFn
open Evalexpr

-- the evaluation lemmas of the `Vec` / comparison vocabulary the tree builder uses (as global simp lemmas they would disturb the other agreement proofs)
attribute [local simp] Rs.lt_nat Rs.le_nat Rs.gt_nat Rs.ge_nat Rs.eq_option_some Rs.eq_option_none_some Rs.eq_option_some_none Rs.eq_option_none Rs.set_last_def Rs.last_def

theorem fn_Node_new_agree (op : Operator) : Gen.Node.new op = Node.new op := rfl
theorem fn_Node_root_node_agree : Gen.Node.root_node = Node.rootNode := rfl
theorem fn_Node_has_enough_children_agree (n : Node) : Gen.Node.has_enough_children n = n.hasEnoughChildren := by
  simp only [Gen.Node.has_enough_children, Node.hasEnoughChildren, fn_Node_children_agree, fn_Node_operator_agree,
    fn_Operator_max_argument_amount_agree, Rs.len_nodes]
  cases n.op.maxArgumentAmount <;> rfl
theorem fn_Node_has_too_many_children_agree (n : Node) : Gen.Node.has_too_many_children n = n.hasTooManyChildren := by
  simp only [Gen.Node.has_too_many_children, Node.hasTooManyChildren, fn_Node_children_agree, fn_Node_operator_agree,
    fn_Operator_max_argument_amount_agree, Rs.len_nodes]
  cases n.op.maxArgumentAmount <;> rfl

/-- a function with a `&mut Vec<Node>` parameter (Gen: the vector, last = top; Model: a list, head = top) against the Model:
the results agree, and the final stacks agree (reversed) when the result is `Ok` -/
def OutAgrees {α β : Type} (f : α → β) (m : Res (α × List Node)) (g : Res β × List Node) : Prop :=
  match m with
  | .ok (a, st) => g = (.ok (f a), st.reverse)
  | .error e => g.1 = .error e

theorem fn_collapse_root_stack_to_agree (st : List Node) (root goal : Node) :
    ∃ g, Gen.collapse_root_stack_to st.reverse root goal = some g ∧ OutAgrees id (collapseRootStackTo st root goal) g := by
  induction st generalizing root with
  | nil =>
    simp only [Gen.collapse_root_stack_to, List.reverse_nil]
    rw [Rs.loopFix_unfold]
    simp [collapseRootStackTo, OutAgrees]
  | cons h t ih =>
    simp [Gen.collapse_root_stack_to, fn_Node_operator_agree, fn_Operator_is_sequence_agree, fn_Operator_precedence_agree] at ih ⊢
    rw [Rs.loopFix_unfold, collapseRootStackTo]
    simp
    repeat' split
    all_goals first | exact ih _ | simp_all [OutAgrees]

theorem collapse_all_loop_agree (stack : List Node) (root : Node) :
    ∃ g, Gen.collapse_all_sequences (root :: stack).reverse = some g ∧
      OutAgrees id ((collapseAllLoop stack root).map fun s => ((), s)) g := by
  induction stack generalizing root with
  | nil =>
    simp [Gen.collapse_all_sequences, fn_Node_operator_agree, fn_Operator_is_sequence_agree, fn_Node_has_too_many_children_agree]
    rw [Rs.loopFix_unfold, collapseAllLoop]
    simp [Operator.isRoot]
    repeat' split
    all_goals simp_all [OutAgrees, Except.map]
  | cons h t ih =>
    simp [Gen.collapse_all_sequences, fn_Node_operator_agree, fn_Operator_is_sequence_agree, fn_Node_has_too_many_children_agree] at ih ⊢
    rw [Rs.loopFix_unfold, collapseAllLoop]
    simp [Operator.isRoot]
    repeat' split
    all_goals first | exact ih _ | simp_all [OutAgrees, Except.map]

theorem fn_collapse_all_sequences_agree (st : List Node) :
    ∃ g, Gen.collapse_all_sequences st.reverse = some g ∧
      OutAgrees id ((collapseAllSequences st).map fun s => ((), s)) g := by
  cases st with
  | nil => simp [Gen.collapse_all_sequences, collapseAllSequences, OutAgrees, Except.map]
  | cons root stack => exact collapse_all_loop_agree stack root


theorem insertAtLast_snoc (op : Operator) (pre l : List Node) (x node : Node) :
    insertAtLast op pre (l ++ [x]) node = insertAtLast op (pre ++ l) [x] node := by
  induction l generalizing pre with
  | nil => simp
  | cons c l ih =>
    cases l with
    | nil => simp [insertAtLast]
    | cons c2 l' =>
      have h := ih (pre ++ [c])
      simp only [List.cons_append, List.append_assoc, List.nil_append] at h ⊢
      rw [← h]
      conv => lhs; rw [insertAtLast]

theorem not_leaf_ne_nil {op : Operator} {cs : List Node} (hl : op.isLeaf = false)
    (h : some cs.length = op.maxArgumentAmount) : cs ≠ [] := by
  rintro rfl
  simp [Operator.isLeaf, OpKind.isLeaf, Operator.maxArgumentAmount] at hl h
  exact hl h.symm

/-- close a goal `∃ a b, <generated computation> = some (a, b) ∧ <model value> = …` whose two sides are already determined -/
macro "out_close" : tactic =>
  `(tactic| first
    | exact ⟨_, _, rfl, rfl⟩
    | exact ⟨_, _, ⟨rfl, rfl⟩, rfl⟩
    | exact ⟨_, rfl, rfl⟩
    | (simp [Except.map]; done))

/-- symbolic execution: the translated callees are replaced by the Model's functions (agreement theorems proved so far),
the Prelude vocabulary is evaluated by the `Translate/Lemmas.lean` simp set -/
macro "tb_simp" "[" ts:Lean.Parser.Tactic.simpLemma,* "]" : tactic =>
  `(tactic| simp [fn_Node_operator_agree, fn_Node_children_agree, fn_Operator_precedence_agree, fn_Operator_is_unary_agree,
    fn_Operator_is_left_to_right_agree, fn_Operator_is_leaf_agree, fn_Operator_is_sequence_agree,
    fn_Node_has_enough_children_agree, fn_Node_has_too_many_children_agree, fn_Node_new_agree, fn_Node_root_node_agree,
    Node.hasEnoughChildren, descends, Operator.isRoot, $ts,*])

theorem fn_Node_insert_back_prioritized_agree (n node : Node) (b : Bool) :
    ∃ g, Gen.Node.insert_back_prioritized n node b = some g ∧
      n.insertBackPrioritized node b = g.1.map (fun _ => g.2) := by
  have IH : ∀ c ∈ n.children, ∀ node b, ∃ g, Gen.Node.insert_back_prioritized c node b = some g ∧
      c.insertBackPrioritized node b = g.1.map (fun _ => g.2) :=
    fun c _ node b => fn_Node_insert_back_prioritized_agree c node b
  rcases n with ⟨op, cs⟩
  rw [Gen.Node.insert_back_prioritized.eq_1, Node.insertBackPrioritized]
  rcases List.eq_nil_or_concat cs with rfl | ⟨init, c, rfl⟩
  · -- no children: the `unwrap` sites are unreachable (`is_leaf` is false and `has_enough_children` is true)
    tb_simp [insertAtLast]
    rs_split_ifs
    all_goals first | out_close | exact absurd rfl (not_leaf_ne_nil (cs := []) (by simpa using ‹¬ op.isLeaf = true›) ‹_›)
  · -- the last child `c`: the recursive call is the induction hypothesis
    obtain ⟨g, hg, hm⟩ := IH c (by simp) node false
    rcases g with ⟨_ | _, g2⟩ <;> tb_simp [insertAtLast_snoc, insertAtLast, hg, hm] <;> rs_split_ifs
    all_goals out_close
termination_by sizeOf n
decreasing_by exact Rs.node_lt (by assumption)

end Evalexpr.AgreeFn
