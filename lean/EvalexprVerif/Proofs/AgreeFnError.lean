/-
Proofs/AgreeFnError.lean — the functions of src/error/mod.rs translated on this run
(`Generated/FnError.lean`, by /verif/translate_fn.py) equal the Model's definitions, for all inputs.
-/
import EvalexprVerif.Generated.FnError

namespace Evalexpr.AgreeFn
open Evalexpr

/-! ### the error constructor functions -/

theorem fn_wrong_operator_argument_amount_agree (actual expected : Nat) :
    Gen.EvalexprError.wrong_operator_argument_amount actual expected = wrongArgs expected actual := rfl
theorem fn_expected_string_agree (v : Value) : Gen.EvalexprError.expected_string v = .expectedString v := rfl
theorem fn_expected_int_agree (v : Value) : Gen.EvalexprError.expected_int v = .expectedInt v := rfl
theorem fn_expected_float_agree (v : Value) : Gen.EvalexprError.expected_float v = .expectedFloat v := rfl
theorem fn_expected_number_agree (v : Value) : Gen.EvalexprError.expected_number v = .expectedNumber v := rfl
theorem fn_expected_number_or_string_agree (v : Value) :
    Gen.EvalexprError.expected_number_or_string v = .expectedNumberOrString v := rfl
theorem fn_expected_boolean_agree (v : Value) : Gen.EvalexprError.expected_boolean v = .expectedBoolean v := rfl
theorem fn_expected_tuple_agree (v : Value) : Gen.EvalexprError.expected_tuple v = .expectedTuple v := rfl
theorem fn_expected_fixed_len_tuple_agree (n : Nat) (v : Value) :
    Gen.EvalexprError.expected_fixed_len_tuple n v = .expectedFixedLengthTuple n v := rfl
theorem fn_expected_empty_agree (v : Value) : Gen.EvalexprError.expected_empty v = .expectedEmpty v := rfl
theorem fn_wrong_type_combination_agree (op : Operator) (ts : List ValueType) :
    Gen.EvalexprError.wrong_type_combination op ts = .wrongTypeCombination op ts := rfl

theorem fn_addition_error_agree (a b : Value) : Gen.EvalexprError.addition_error a b = .additionError a b := rfl
theorem fn_subtraction_error_agree (a b : Value) : Gen.EvalexprError.subtraction_error a b = .subtractionError a b := rfl
theorem fn_negation_error_agree (a : Value) : Gen.EvalexprError.negation_error a = .negationError a := rfl
theorem fn_multiplication_error_agree (a b : Value) :
    Gen.EvalexprError.multiplication_error a b = .multiplicationError a b := rfl
theorem fn_division_error_agree (a b : Value) : Gen.EvalexprError.division_error a b = .divisionError a b := rfl
theorem fn_modulation_error_agree (a b : Value) : Gen.EvalexprError.modulation_error a b = .modulationError a b := rfl

theorem fn_type_error_agree (v : Value) (ts : List ValueType) : Gen.EvalexprError.type_error v ts = .typeError ts v := rfl
theorem fn_wrong_function_argument_amount_range_agree (actual lo hi : Nat) :
    Gen.EvalexprError.wrong_function_argument_amount_range actual ⟨lo, hi⟩ = .wrongFunctionArgumentAmount lo hi actual := rfl
theorem fn_expected_ranged_len_tuple_agree (lo hi : Nat) (v : Value) :
    Gen.EvalexprError.expected_ranged_len_tuple ⟨lo, hi⟩ v = .expectedRangedLengthTuple lo hi v := rfl

/-- `EvalexprError::expected_type` -/
theorem fn_expected_type_agree (expected actual : Value) :
    Gen.EvalexprError.expected_type expected actual = Err.expectedType expected actual := by cases expected <;> rfl

/-! ### `expect_*` -/

/-- `expect_operator_argument_amount`: the Model inlines this check as a match on the shape of the
argument list; this is its meaning as a function. -/
theorem fn_expect_operator_argument_amount_agree (actual expected : Nat) :
    Gen.expect_operator_argument_amount actual expected =
      if actual == expected then .ok () else .error (wrongArgs expected actual) := rfl

theorem fn_expect_number_or_string_agree (v : Value) :
    Gen.expect_number_or_string v = expectNumberOrString v := by cases v <;> rfl

end Evalexpr.AgreeFn
