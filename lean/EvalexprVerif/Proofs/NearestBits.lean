/-
Proofs/NearestBits.lean — bit-level facts about binary64 patterns used by the `roundRat` proofs:
the fields as div/mod, the value grid, injectivity of `scaledValue` on finite non-negative doubles,
and the fields of the patterns `roundRat` assembles.
-/
import EvalexprVerif.Spec.Nearest

namespace Evalexpr.Spec.Nearest

theorem expField_eq (y : UInt64) : expField y = y.toNat / 2 ^ 52 % 2048 := by
  unfold expField
  rw [UInt64.toNat_and, UInt64.toNat_shiftRight, Nat.shiftRight_eq_div_pow]
  have h1 : (52 : UInt64).toNat % 64 = 52 := by decide
  have h2 : (0x7ff : UInt64).toNat = 2 ^ 11 - 1 := by decide
  rw [h1, h2, Nat.and_two_pow_sub_one_eq_mod]

theorem fracField_eq (y : UInt64) : fracField y = y.toNat % 2 ^ 52 := by
  unfold fracField
  rw [UInt64.toNat_and]
  have h2 : (0xfffffffffffff : UInt64).toNat = 2 ^ 52 - 1 := by decide
  rw [h2, Nat.and_two_pow_sub_one_eq_mod]

theorem fracField_lt (y : UInt64) : fracField y < 2 ^ 52 := by
  rw [fracField_eq]; exact Nat.mod_lt _ (by decide)

theorem isFinitePos_iff (y : UInt64) : isFinitePos y = true ↔ y.toNat < 0x7ff0000000000000 := by
  unfold isFinitePos
  rw [decide_eq_true_iff, UInt64.lt_iff_toNat_lt]
  have : (0x7ff0000000000000 : UInt64).toNat = 0x7ff0000000000000 := by decide
  rw [this]

theorem scaledValue_zero_exp (y : UInt64) (h : expField y = 0) : scaledValue y = fracField y := by
  unfold scaledValue; simp [h]

theorem scaledValue_pos_exp (y : UInt64) (h : expField y ≠ 0) :
    scaledValue y = (2 ^ 52 + fracField y) * 2 ^ (expField y - 1) := by
  unfold scaledValue; simp [h]

/-- every double's scaled value is on the grid of spacing `2^E` or below `2^52·2^E` -/
theorem scaledValue_grid (y : UInt64) (E : Nat) :
    2 ^ E ∣ scaledValue y ∨ scaledValue y < 2 ^ 52 * 2 ^ E := by
  have hf := fracField_lt y
  have hE : 0 < 2 ^ E := Nat.pow_pos (by decide)
  by_cases h : expField y = 0
  · right
    rw [scaledValue_zero_exp y h]
    calc fracField y < 2 ^ 52 * 1 := by omega
      _ ≤ 2 ^ 52 * 2 ^ E := Nat.mul_le_mul_left _ hE
  · rw [scaledValue_pos_exp y h]
    rcases Nat.lt_or_ge (expField y - 1) E with hlt | hge
    · right
      obtain ⟨j, hj⟩ : ∃ j, E = (expField y - 1) + 1 + j := ⟨E - (expField y - 1) - 1, by omega⟩
      rw [hj, Nat.pow_add, Nat.pow_add]
      have hP : 0 < 2 ^ (expField y - 1) := Nat.pow_pos (by decide)
      have hj' : 0 < 2 ^ j := Nat.pow_pos (by decide)
      calc (2 ^ 52 + fracField y) * 2 ^ (expField y - 1)
          < (2 ^ 52 * 2) * 2 ^ (expField y - 1) := Nat.mul_lt_mul_of_pos_right (by omega) hP
        _ = 2 ^ 52 * (2 ^ (expField y - 1) * 2 ^ 1 * 1) := by
            rw [Nat.mul_one, Nat.pow_one, Nat.mul_assoc, Nat.mul_comm 2]
        _ ≤ 2 ^ 52 * (2 ^ (expField y - 1) * 2 ^ 1 * 2 ^ j) :=
            Nat.mul_le_mul_left _ (Nat.mul_le_mul_left _ hj')
    · left
      exact Nat.dvd_mul_left_of_dvd (Nat.pow_dvd_pow 2 hge) _

theorem normal_lt_of_exp_lt (f1 f2 k1 k2 : Nat) (h1 : f1 < 2 ^ 52) (hk : k1 < k2) :
    (2 ^ 52 + f1) * 2 ^ k1 < (2 ^ 52 + f2) * 2 ^ k2 := by
  have hP : 0 < 2 ^ k1 := Nat.pow_pos (by decide)
  calc (2 ^ 52 + f1) * 2 ^ k1 < (2 ^ 52 * 2) * 2 ^ k1 := Nat.mul_lt_mul_of_pos_right (by omega) hP
    _ = 2 ^ 52 * 2 ^ (k1 + 1) := by rw [Nat.mul_assoc, Nat.mul_comm 2 (2 ^ k1), ← Nat.pow_succ]
    _ ≤ 2 ^ 52 * 2 ^ k2 := Nat.mul_le_mul_left _ (Nat.pow_le_pow_right (by decide) hk)
    _ ≤ (2 ^ 52 + f2) * 2 ^ k2 := Nat.mul_le_mul_right _ (by omega)

/-- a finite non-negative pattern is its exponent field times 2^52 plus its fraction field -/
theorem toNat_eq_fields (y : UInt64) (hy : isFinitePos y = true) :
    y.toNat = expField y * 2 ^ 52 + fracField y := by
  rw [isFinitePos_iff] at hy
  rw [expField_eq, fracField_eq]
  omega

/-- `scaledValue` is injective on finite non-negative doubles -/
theorem scaledValue_inj (y1 y2 : UInt64) (h1 : isFinitePos y1 = true) (h2 : isFinitePos y2 = true)
    (h : scaledValue y1 = scaledValue y2) : y1 = y2 := by
  apply UInt64.toNat_inj.1
  rw [toNat_eq_fields y1 h1, toNat_eq_fields y2 h2]
  have hf1 := fracField_lt y1
  have hf2 := fracField_lt y2
  have big : ∀ (f k : Nat), 2 ^ 52 ≤ (2 ^ 52 + f) * 2 ^ k := by
    intro f k
    have hP : 0 < 2 ^ k := Nat.pow_pos (by decide)
    calc 2 ^ 52 = 2 ^ 52 * 1 := by omega
      _ ≤ (2 ^ 52 + f) * 2 ^ k := Nat.mul_le_mul (by omega) hP
  by_cases e1 : expField y1 = 0
  · by_cases e2 : expField y2 = 0
    · rw [scaledValue_zero_exp y1 e1, scaledValue_zero_exp y2 e2] at h
      rw [e1, e2, h]
    · rw [scaledValue_zero_exp y1 e1, scaledValue_pos_exp y2 e2] at h
      have := big (fracField y2) (expField y2 - 1)
      omega
  · by_cases e2 : expField y2 = 0
    · rw [scaledValue_pos_exp y1 e1, scaledValue_zero_exp y2 e2] at h
      have := big (fracField y1) (expField y1 - 1)
      omega
    · rw [scaledValue_pos_exp y1 e1, scaledValue_pos_exp y2 e2] at h
      rcases Nat.lt_trichotomy (expField y1 - 1) (expField y2 - 1) with hk | hk | hk
      · have := normal_lt_of_exp_lt (fracField y1) (fracField y2) _ _ hf1 hk
        omega
      · rw [hk] at h
        have hP : 0 < 2 ^ (expField y2 - 1) := Nat.pow_pos (by decide)
        have := Nat.eq_of_mul_eq_mul_right hP h
        have : expField y1 = expField y2 := by omega
        rw [this]; omega
      · have := normal_lt_of_exp_lt (fracField y2) (fracField y1) _ _ hf2 hk
        omega

/-! ### the patterns `roundRat` assembles -/

theorem toUInt64_toNat (N : Nat) (h : N < 2 ^ 64) : N.toUInt64.toNat = N := by
  simp [Nat.toUInt64]; omega

/-- subnormal result -/
theorem sub_bits (q : Nat) (hq : q < 2 ^ 52) :
    isFinitePos q.toUInt64 = true ∧ scaledValue q.toUInt64 = q ∧ fracField q.toUInt64 = q := by
  have ht : q.toUInt64.toNat = q := toUInt64_toNat q (by omega)
  have he : expField q.toUInt64 = 0 := by rw [expField_eq, ht]; omega
  have hf : fracField q.toUInt64 = q := by rw [fracField_eq, ht]; omega
  refine ⟨?_, ?_, hf⟩
  · rw [isFinitePos_iff, ht]; omega
  · rw [scaledValue_zero_exp _ he, hf]

theorem norm_bits_aux (y : UInt64) (q eb : Nat) (hq1 : 2 ^ 52 ≤ q) (hq2 : q < 2 ^ 53) (he1 : 1 ≤ eb)
    (he2 : eb ≤ 2046) (ht : y.toNat = eb * 2 ^ 52 + (q - 2 ^ 52)) :
    isFinitePos y = true ∧ scaledValue y = q * 2 ^ (eb - 1) ∧ fracField y = q - 2 ^ 52 := by
  have he : expField y = eb := by rw [expField_eq, ht]; omega
  have hf : fracField y = q - 2 ^ 52 := by rw [fracField_eq, ht]; omega
  refine ⟨?_, ?_, hf⟩
  · rw [isFinitePos_iff, ht]; omega
  · rw [scaledValue_pos_exp _ (by omega), hf, he]
    have e : 2 ^ 52 + (q - 2 ^ 52) = q := by omega
    rw [e]

/-- normal result with biased exponent `eb` and significand `q` -/
theorem norm_bits (q eb : Nat) (hq1 : 2 ^ 52 ≤ q) (hq2 : q < 2 ^ 53) (he1 : 1 ≤ eb) (he2 : eb ≤ 2046) :
    isFinitePos (eb * 2 ^ 52 + (q - 2 ^ 52)).toUInt64 = true ∧
    scaledValue (eb * 2 ^ 52 + (q - 2 ^ 52)).toUInt64 = q * 2 ^ (eb - 1) ∧
    fracField (eb * 2 ^ 52 + (q - 2 ^ 52)).toUInt64 = q - 2 ^ 52 :=
  norm_bits_aux _ q eb hq1 hq2 he1 he2 (toUInt64_toNat _ (by omega))

end Evalexpr.Spec.Nearest
