/- Proofs/AgreeIter.lean — extracted tables equal the expected ones (see Spec/Tables.lean). -/
import EvalexprVerif.Generated.IterBodies
import EvalexprVerif.Spec.Tables

namespace Evalexpr.Agree
open Evalexpr.Spec

/-- the two `next` bodies are the same loop, modulo `iter`/`iter_mut` and node/operator -/
theorem iterNext_agree : Generated.operatorIterMutNext = Generated.nodeIterNextAsMut := by
  decide +kernel
theorem iterFilters_agree : Generated.iterFilters = Tables.iterFilters := by decide +kernel

end Evalexpr.Agree
