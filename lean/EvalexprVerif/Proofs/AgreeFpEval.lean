/- Proofs/AgreeFpEval.lean — the `Eval` functions of /repo/src are textually the ones the model was validated against. -/
import EvalexprVerif.Generated.FpEval
import EvalexprVerif.Spec.Fingerprints

namespace Evalexpr.Agree

theorem fpEval_agree : Generated.fpEval = Spec.Fingerprints.fpEval := by decide

end Evalexpr.Agree
