/-
Proofs/Nearest.lean — `F64.roundRat` returns a nearest double (ties to even), and +infinity exactly
at or beyond the overflow threshold (Spec/Nearest.lean).

Structure: `NearestArith` (round-half-even minimises |a − k·b|; grid of spacing 2^E),
`NearestBits` (fields as div/mod, value grid, injectivity of `scaledValue`, assembled patterns),
`NearestCore` (`roundRat` as top-level pieces; invariants of the exponent search),
`NearestAssemble` (the renormalise/assemble tail), and this file (putting it together).
-/
import EvalexprVerif.Proofs.NearestAssemble

namespace Evalexpr.Spec.Nearest
open Evalexpr

/-- everything the final theorems need to know about `roundRat n d` -/
theorem roundRat_core (n d : Nat) (hn : 0 < n) (hd : 0 < d) :
    ∃ a b E : Nat, 0 < b ∧ n * P1074 * b = a * d * 2 ^ E ∧ a / b < 2 ^ 53 ∧
      (2 ^ 52 ≤ a / b ∨ E = 0) ∧
      ((InfCond (roundHE a b) E ∧ F64.roundRat n d = 0x7ff0000000000000) ∨
       (¬ InfCond (roundHE a b) E ∧ isFinitePos (F64.roundRat n d) = true ∧
        scaledValue (F64.roundRat n d) = roundHE a b * 2 ^ E ∧
        fracField (F64.roundRat n d) % 2 = roundHE a b % 2)) := by
  have hb := scaledP_snd_pos n d hd (finalE n d)
  have hge := finalE_ge n d
  have hlt := finalE_lt n d hn hd
  have hor := finalE_ge_or n d hn hd
  refine ⟨(scaledP n d (finalE n d)).1, (scaledP n d (finalE n d)).2, (finalE n d + 1074).toNat,
    hb, scaledP_rel n d _ hge, hlt, ?_, ?_⟩
  · rcases hor with h | h
    · exact Or.inl h
    · right; rw [h]; rfl
  · rw [roundRat_eq n d (by omega)]
    have h1 := roundHE_le (scaledP n d (finalE n d)).1 (scaledP n d (finalE n d)).2 hb
    have h2 := roundHE_ge (scaledP n d (finalE n d)).1 (scaledP n d (finalE n d)).2 hb
    apply assemble_cases
    · omega
    · omega
    · rcases hor with h | h
      · left; omega
      · right; rw [h]; rfl

/-- `scaledError` expressed through `errp` -/
theorem scaledError_mul (n d a b E : Nat) (hrel : n * P1074 * b = a * d * 2 ^ E) (y : UInt64) :
    scaledError n d y * b = d * errp a b E (scaledValue y) := by
  rw [scaledError_eq]
  unfold errp
  generalize scaledValue y = v
  have hpow : ((2 : Int) ^ E) = ((2 ^ E : Nat) : Int) := by norm_cast
  rw [hpow]
  generalize P1074 = P at *
  generalize 2 ^ E = Q at *
  have hrel' : (n : Int) * P * b = a * d * Q := by exact_mod_cast hrel
  have e : ((n : Int) * P - v * d) * b = d * ((a : Int) * Q - v * b) := by
    rw [sub_mul, hrel']; ring
  have := congrArg Int.natAbs e
  rw [Int.natAbs_mul, Int.natAbs_mul, Int.natAbs_natCast, Int.natAbs_natCast] at this
  exact this

/-! ### overflow arithmetic -/

/- `omega` is given only the facts it needs in the lemmas below: with coefficients around 2^53 its
elimination can blow up on a large context. -/
theorem half_up_aux (a b q r : Nat) (hdm : b * q + r = a) (hq : q = 2 ^ 53 - 1) (c2 : b ≤ 2 * r) :
    (2 ^ 54 - 1) * b ≤ 2 * a := by
  subst hq; omega

theorem half_up_aux' (a b q r : Nat) (hdm : b * q + r = a) (hq : q = 2 ^ 53 - 1)
    (h : (2 ^ 54 - 1) * b ≤ 2 * a) : b ≤ 2 * r := by
  subst hq; omega

theorem infCond_iff_aux (a b E Y : Nat) (hb : 0 < b) (hlt : a / b < 2 ^ 53)
    (hge : 2 ^ 52 ≤ a / b ∨ E = 0) (hY : 0 < Y) (hA : 2046 ≤ E → Y * 4 ≤ 2 ^ E)
    (hB : 2045 ≤ E → Y * 2 ≤ 2 ^ E) (hC : E ≤ 2044 → 2 ^ E ≤ Y) (hD : E = 2045 → 2 ^ E = Y * 2) :
    InfCond (roundHE a b) E ↔ (2 ^ 54 - 1) * Y * b ≤ a * 2 ^ E := by
  have hdm : b * (a / b) + a % b = a := Nat.div_add_mod a b
  have hr : a % b < b := Nat.mod_lt a hb
  have h1 := roundHE_le a b hb
  have h2 := roundHE_ge a b hb
  unfold InfCond
  constructor
  · rintro ⟨h52, h | h⟩
    · -- E ≥ 2046
      have hE := hA h.2
      clear hA hB hC hD
      have hq : 2 ^ 52 ≤ a / b := by omega
      have hqb : 2 ^ 52 * b ≤ a := (Nat.le_div_iff_mul_le hb).1 hq
      calc (2 ^ 54 - 1) * Y * b ≤ 2 ^ 54 * Y * b :=
            Nat.mul_le_mul_right _ (Nat.mul_le_mul_right _ (by omega))
        _ = (2 ^ 52 * b) * (Y * 4) := by ring
        _ ≤ a * 2 ^ E := Nat.mul_le_mul hqb hE
    · -- E ≥ 2045, rounded up to 2^53
      have hE := hB h.2
      clear hA hB hC hD
      have hq : a / b = 2 ^ 53 - 1 := by omega
      have h2a : (2 ^ 54 - 1) * b ≤ 2 * a := by
        rcases roundHE_cases a b hb with ⟨c1, _, _⟩ | ⟨_, c2, _⟩
        · exfalso; clear hdm hr hlt hge hE hb; omega
        · exact half_up_aux a b _ _ hdm hq c2
      calc (2 ^ 54 - 1) * Y * b = ((2 ^ 54 - 1) * b) * Y := by ring
        _ ≤ (2 * a) * Y := Nat.mul_le_mul_right _ h2a
        _ = a * (Y * 2) := by ring
        _ ≤ a * 2 ^ E := Nat.mul_le_mul_left _ hE
  · intro h
    have hab : a < 2 ^ 53 * b := (Nat.div_lt_iff_lt_mul hb).1 hlt
    have hE : 2045 ≤ E := by
      by_contra hc
      have hE := hC (by omega)
      clear hA hB hC hD
      have : a * 2 ^ E < (2 ^ 54 - 1) * Y * b :=
        calc a * 2 ^ E ≤ a * Y := Nat.mul_le_mul_left _ hE
          _ < (2 ^ 53 * b) * Y := Nat.mul_lt_mul_of_pos_right hab hY
          _ = 2 ^ 53 * Y * b := by ring
          _ ≤ (2 ^ 54 - 1) * Y * b :=
            Nat.mul_le_mul_right _ (Nat.mul_le_mul_right _ (by omega))
      omega
    clear hA hB hC
    have hq : 2 ^ 52 ≤ a / b := by omega
    refine ⟨by omega, ?_⟩
    by_cases hE2 : 2046 ≤ E
    · rcases Nat.lt_or_ge (roundHE a b) (2 ^ 53) with c | c
      · exact Or.inl ⟨c, hE2⟩
      · exact Or.inr ⟨by omega, hE⟩
    · right
      refine ⟨?_, hE⟩
      have hE' : E = 2045 := by omega
      rw [hD hE'] at h
      clear hD
      have h2a : (2 ^ 54 - 1) * b ≤ 2 * a := by
        apply Nat.le_of_mul_le_mul_right _ hY
        calc (2 ^ 54 - 1) * b * Y = (2 ^ 54 - 1) * Y * b := by ring
          _ ≤ a * (Y * 2) := h
          _ = 2 * a * Y := by ring
      have hq1 : (2 ^ 53 - 1) * b ≤ a := by omega
      have hq2 : 2 ^ 53 - 1 ≤ a / b := (Nat.le_div_iff_mul_le hb).2 hq1
      have hq3 : a / b = 2 ^ 53 - 1 := by omega
      have hbr : b ≤ 2 * (a % b) := half_up_aux' a b _ _ hdm hq3 h2a
      rcases roundHE_cases a b hb with ⟨_, c2, c3⟩ | ⟨c1, _, _⟩
      · have h2r : 2 * (a % b) = b := Nat.le_antisymm c2 hbr
        have hev := c3 h2r
        exfalso; clear hdm hr hlt hge h h2a hq1 hq2 hab hq h1 h2 hbr c2 c3 h2r hb hY
        omega
      · rw [c1, hq3]; decide

theorem infCond_iff (a b E : Nat) (hb : 0 < b) (hlt : a / b < 2 ^ 53)
    (hge : 2 ^ 52 ≤ a / b ∨ E = 0) :
    InfCond (roundHE a b) E ↔ (2 ^ 54 - 1) * Y2044 * b ≤ a * 2 ^ E := by
  obtain ⟨hY, hA, hB, hC, hD⟩ := Y2044_facts E
  exact infCond_iff_aux a b E Y2044 hb hlt hge hY hA hB hC hD

theorem overflows_iff_aux (n d a b P Q W : Nat) (hd : 0 < d) (hb : 0 < b)
    (hrel : n * P * b = a * d * Q) : W * d ≤ n * P ↔ W * b ≤ a * Q := by
  constructor
  · intro h
    apply Nat.le_of_mul_le_mul_right _ hd
    calc W * b * d = W * d * b := by ring
      _ ≤ n * P * b := Nat.mul_le_mul_right _ h
      _ = a * Q * d := by rw [hrel]; ring
  · intro h
    apply Nat.le_of_mul_le_mul_right _ hb
    calc W * d * b = W * b * d := by ring
      _ ≤ a * Q * d := Nat.mul_le_mul_right _ h
      _ = n * P * b := by rw [hrel]; ring

theorem overflows_iff (n d a b E : Nat) (hd : 0 < d) (hb : 0 < b)
    (hrel : n * P1074 * b = a * d * 2 ^ E) :
    overflows n d = true ↔ (2 ^ 54 - 1) * Y2044 * b ≤ a * 2 ^ E :=
  (overflows_iff_const n d).trans
    (overflows_iff_aux n d a b P1074 (2 ^ E) ((2 ^ 54 - 1) * Y2044) hd hb hrel)

end Evalexpr.Spec.Nearest

namespace Evalexpr.Spec
open Evalexpr.Spec.Nearest

set_option linter.unusedVariables false in
/-- no finite non-negative double is strictly closer to n/d than the one `roundRat` returns
(`hy` is not needed: the inequality holds for every bit pattern `y`) -/
theorem roundRat_nearest (n d : Nat) (hn : 0 < n) (hd : 0 < d)
    (hfin : isFinitePos (F64.roundRat n d) = true) (y : UInt64) (hy : isFinitePos y = true) :
    scaledError n d (F64.roundRat n d) ≤ scaledError n d y := by
  obtain ⟨a, b, E, hb, hrel, hlt, hge, hres⟩ := roundRat_core n d hn hd
  rcases hres with ⟨_, hinf⟩ | ⟨_, _, hval, _⟩
  · rw [hinf] at hfin; exact absurd hfin (by decide)
  · apply Nat.le_of_mul_le_mul_right _ hb
    rw [scaledError_mul n d a b E hrel, scaledError_mul n d a b E hrel, hval]
    exact Nat.mul_le_mul_left _ (errp_min a b E _ hb hge (scaledValue_grid y E))

/-- ties are broken towards the even significand -/
theorem roundRat_ties_even (n d : Nat) (hn : 0 < n) (hd : 0 < d)
    (hfin : isFinitePos (F64.roundRat n d) = true) (y : UInt64) (hy : isFinitePos y = true)
    (hne : y ≠ F64.roundRat n d) (htie : scaledError n d y = scaledError n d (F64.roundRat n d)) :
    fracField (F64.roundRat n d) % 2 = 0 := by
  obtain ⟨a, b, E, hb, hrel, hlt, hge, hres⟩ := roundRat_core n d hn hd
  rcases hres with ⟨_, hinf⟩ | ⟨_, _, hval, hpar⟩
  · rw [hinf] at hfin; exact absurd hfin (by decide)
  · rw [hpar]
    have h1 : scaledError n d y * b = scaledError n d (F64.roundRat n d) * b := by rw [htie]
    rw [scaledError_mul n d a b E hrel, scaledError_mul n d a b E hrel, hval] at h1
    have h2 := Nat.eq_of_mul_eq_mul_left hd h1
    refine errp_tie a b E (scaledValue y) hb hge (scaledValue_grid y E) ?_ h2
    intro h
    exact hne (scaledValue_inj y _ hy hfin (h.trans hval.symm))

/-- the result is +infinity exactly when n/d is at or beyond the overflow threshold; otherwise it
is finite -/
theorem roundRat_overflow (n d : Nat) (hn : 0 < n) (hd : 0 < d) :
    (F64.roundRat n d = 0x7ff0000000000000 ↔ overflows n d = true) ∧
    (overflows n d = false → isFinitePos (F64.roundRat n d) = true) := by
  obtain ⟨a, b, E, hb, hrel, hlt, hge, hres⟩ := roundRat_core n d hn hd
  have hiff := (infCond_iff a b E hb hlt hge).trans (overflows_iff n d a b E hd hb hrel).symm
  rcases hres with ⟨hc, hinf⟩ | ⟨hc, hfin, _, _⟩
  · have hov := hiff.1 hc
    refine ⟨⟨fun _ => hov, fun _ => hinf⟩, ?_⟩
    intro h; rw [hov] at h; exact absurd h (by decide)
  · refine ⟨⟨?_, ?_⟩, fun _ => hfin⟩
    · intro h; rw [h] at hfin; exact absurd hfin (by decide)
    · intro h; exact absurd (hiff.2 h) hc

theorem roundRat_zero (d : Nat) : F64.roundRat 0 d = 0 := by
  unfold F64.roundRat
  rfl

end Evalexpr.Spec
