/-
Proofs/IterRename.lean — auxiliary to property C14: evaluating a consistently (injectively)
renamed tree in the consistently renamed context is a simulation of the original evaluation.
-/
import EvalexprVerif.Proofs.IterEval

namespace Evalexpr.Spec
open Evalexpr

/-! ### association lists under an injective renaming of the keys -/

/-- the renamed variable list of `renameVars` -/
def rnVars (r : Str → Str) (l : List (Str × Value)) : List (Str × Value) :=
  l.map fun (k, v) => (r k, v)

theorem renameVars_vars (r : Str → Str) (h : HashMapCtx) : (renameVars r h).vars = rnVars r h.vars := rfl

theorem beq_rename {r : Str → Str} (hinj : Function.Injective r) (a b : Str) :
    (r a == r b) = (a == b) := by
  rw [Bool.eq_iff_iff, beq_iff_eq, beq_iff_eq]
  exact ⟨fun h => hinj h, fun h => congrArg r h⟩

theorem alookup_rename {r : Str → Str} (hinj : Function.Injective r) (k : Str) :
    ∀ l : List (Str × Value), alookup (r k) (rnVars r l) = alookup k l
  | [] => rfl
  | (k', v) :: rest => by
    simp only [rnVars, List.map_cons, alookup, beq_rename hinj]
    rw [← rnVars, alookup_rename hinj k rest]

theorem ainsert_rename {r : Str → Str} (hinj : Function.Injective r) (k : Str) (v : Value) :
    ∀ l : List (Str × Value), ainsert (r k) v (rnVars r l) = rnVars r (ainsert k v l)
  | [] => rfl
  | (k', v') :: rest => by
    simp only [rnVars, List.map_cons, ainsert, beq_rename hinj]
    split
    · rfl
    · rw [← rnVars, ainsert_rename hinj k v rest]; rfl

/-- the result of an operation, with the variable named in an unknown-variable error renamed -/
def rnRes {α : Type} (r : Str → Str) : Res α → Res α
  | .ok v => .ok v
  | .error e => .error (Err.renameVar r e)

theorem renameRes_eq (r : Str → Str) (x : Res Value) : renameRes r x = rnRes r x := by
  cases x <;> rfl

theorem Clean.rnRes {α : Type} {x : Res α} (h : Clean x) (r : Str → Str) : Spec.rnRes r x = x := by
  cases x with
  | ok v => rfl
  | error e => cases e <;> first | rfl | simp [Err.isUnknown] at h

theorem hashMap_setValue_rename {r : Str → Str} (hinj : Function.Injective r) (h : HashMapCtx)
    (x : Str) (v : Value) :
    (renameVars r h).setValue (r x) v = (h.setValue x v).map (renameVars r) := by
  unfold HashMapCtx.setValue
  rw [renameVars_vars, alookup_rename hinj]
  cases alookup x h.vars with
  | none =>
    simp only [Except.map, renameVars, ainsert_rename hinj]
    rfl
  | some ex =>
    dsimp only
    split
    · simp only [Except.map, renameVars, ainsert_rename hinj]
      rfl
    · rfl

/-! ### the simulation relation -/

/-- `out'` is the renamed image of `out`; the functions of the context are `F` -/
def Sim {α : Type} (r : Str → Str) (F : List (Str × UserFn)) (out out' : Res α × St) : Prop :=
  out'.1 = rnRes r out.1 ∧ out'.2.log = out.2.log ∧
    ∃ h₁, out.2.ctx = .hashMap h₁ ∧ out'.2.ctx = .hashMap (renameVars r h₁) ∧ h₁.funs = F

theorem Sim.mk' {α : Type} {r : Str → Str} {F : List (Str × UserFn)} {h : HashMapCtx}
    {log : List (Str × Value)} {x x' : Res α} (hh : h.funs = F) (hx : x' = rnRes r x) :
    Sim r F (x, ⟨.hashMap h, log⟩) (x', ⟨.hashMap (renameVars r h), log⟩) :=
  ⟨hx, rfl, h, rfl, rfl, hh⟩

theorem Sim.clean {α : Type} {r : Str → Str} {F : List (Str × UserFn)} {h : HashMapCtx}
    {log : List (Str × Value)} {x : Res α} (hh : h.funs = F) (hx : Clean x) :
    Sim r F (x, ⟨.hashMap h, log⟩) (x, ⟨.hashMap (renameVars r h), log⟩) :=
  Sim.mk' hh (hx.rnRes r).symm

theorem Sim.bindE {α β : Type} {r : Str → Str} {F : List (Str × UserFn)} {a a' : Res α × St}
    {k k' : α → St → Res β × St} (ha : Sim r F a a')
    (hk : ∀ v h₁ log, h₁.funs = F →
      Sim r F (k v ⟨.hashMap h₁, log⟩) (k' v ⟨.hashMap (renameVars r h₁), log⟩)) :
    Sim r F (bindE a k) (bindE a' k') := by
  obtain ⟨x, ⟨c, l⟩⟩ := a
  obtain ⟨x', ⟨c', l'⟩⟩ := a'
  obtain ⟨hx, hl, h₁, hc, hc', hF⟩ := ha
  dsimp only at hx hl hc hc'
  subst hx hl hc hc'
  cases x with
  | error e => exact ⟨rfl, rfl, h₁, rfl, rfl, hF⟩
  | ok v => exact hk v h₁ _ hF

/-! ### the context-dependent steps -/

theorem sim_varRead {r : Str → Str} (hinj : Function.Injective r) {F : List (Str × UserFn)}
    (x : Str) (h : HashMapCtx) (log : List (Str × Value)) (hh : h.funs = F) :
    Sim r F (Operator.eval (.varRead x) [] ⟨.hashMap h, log⟩)
      (Operator.eval (.varRead (r x)) [] ⟨.hashMap (renameVars r h), log⟩) := by
  rw [eval_varRead, eval_varRead]
  simp only [Ctx.getValue, renameVars_vars, alookup_rename hinj]
  cases alookup x h.vars with
  | none => exact Sim.mk' hh rfl
  | some v => exact Sim.mk' hh rfl

theorem sim_setValue {r : Str → Str} (hinj : Function.Injective r) {F : List (Str × UserFn)}
    (x : Str) (v : Value) (h : HashMapCtx) (log : List (Str × Value)) (hh : h.funs = F) :
    Sim r F (setValue ⟨.hashMap h, log⟩ x v)
      (setValue ⟨.hashMap (renameVars r h), log⟩ (r x) v) := by
  simp only [setValue, Ctx.setValue, hashMap_setValue_rename hinj]
  cases hs : h.setValue x v with
  | error e =>
    have : Clean (h.setValue x v) := clean_hashMap_setValue h x v
    rw [hs] at this
    exact Sim.clean (x := (.error e : Res Unit)) hh this
  | ok h' =>
    have hf := (iter_hashMap_setValue_funs hs).1
    simp only [Except.map]
    exact Sim.mk' (hf.trans hh) rfl

/-- user functions whose answers are not affected by the renaming -/
def FnStable (r : Str → Str) (F : List (Str × UserFn)) : Prop :=
  ∀ id f arg, alookup id F = some f → renameRes r (f arg) = f arg

theorem FnStable.of_noFabricate {r : Str → Str} {h : HashMapCtx} (hnf : NoFabricate (.hashMap h)) :
    FnStable r h.funs := by
  intro id f arg hf
  have := hnf id f arg
  cases hfa : f arg with
  | ok v => rfl
  | error e =>
    cases e <;> first | rfl | skip
    next x => exact absurd hfa (this x hf).1

/-- `call_function` only looks at the function of that name and the builtin switch -/
theorem callFunction_congr (id : Str) (arg : Value) (c c' : Ctx) (log : List (Str × Value))
    (hu : c'.userFn id = c.userFn id) (hb : c'.builtinsDisabled = c.builtinsDisabled) :
    callFunction id arg ⟨c', log⟩ =
      ((callFunction id arg ⟨c, log⟩).1, ⟨c', (callFunction id arg ⟨c, log⟩).2.log⟩) := by
  unfold callFunction
  dsimp only
  rw [hu]
  cases c.userFn id <;> dsimp only <;> rw [hb] <;> repeat' split
  all_goals rfl

/-- a result the renaming leaves alone -/
def Stable {α : Type} (r : Str → Str) (x : Res α) : Prop := rnRes r x = x

theorem callFunction_stable {r : Str → Str} {s : St} {id : Str}
    (hF : ∀ f arg, s.ctx.userFn id = some f → renameRes r (f arg) = f arg) (arg : Value) :
    Stable r (callFunction id arg s).1 := by
  unfold callFunction
  cases hu : s.ctx.userFn id with
  | some f =>
    have hst : Stable r (f arg) := by
      unfold Stable; rw [← renameRes_eq]; exact hF f arg hu
    dsimp only
    repeat' split
    all_goals first
      | exact hst
      | exact (clean_builtin_call _ _).rnRes r
      | rfl
  | none =>
    dsimp only
    repeat' split
    all_goals first
      | exact (clean_builtin_call _ _).rnRes r
      | rfl

theorem sim_callFunction {r : Str → Str} {F : List (Str × UserFn)} (hF : FnStable r F) (id : Str)
    (arg : Value) (h : HashMapCtx) (log : List (Str × Value)) (hh : h.funs = F) :
    Sim r F (callFunction id arg ⟨.hashMap h, log⟩)
      (callFunction id arg ⟨.hashMap (renameVars r h), log⟩) := by
  rw [callFunction_congr id arg (.hashMap h) (.hashMap (renameVars r h)) log rfl rfl]
  have hctx := callFunction_ctx id arg ⟨.hashMap h, log⟩
  have hst : rnRes r (callFunction id arg ⟨.hashMap h, log⟩).1 = _ :=
    callFunction_stable (r := r) (id := id) (s := ⟨.hashMap h, log⟩)
      (fun f arg hf => hF id f arg (by rw [← hh]; exact hf)) arg
  revert hctx hst
  generalize callFunction id arg ⟨.hashMap h, log⟩ = out
  obtain ⟨x, ⟨c, l⟩⟩ := out
  intro hctx hst
  dsimp only at hctx hst
  subst hctx
  exact Sim.mk' hh hst.symm

theorem sim_assignOp {r : Str → Str} (hinj : Function.Injective r) {F : List (Str × UserFn)}
    (op : AssignOp) (x : Str) (v : Value) (h : HashMapCtx) (log : List (Str × Value))
    (hh : h.funs = F) :
    Sim r F (op.toOperator.evalMut [.string x, v] ⟨.hashMap h, log⟩)
      (op.toOperator.evalMut [.string (r x), v] ⟨.hashMap (renameVars r h), log⟩) := by
  rcases assignOp_cases op with ho | ⟨base, ho⟩
  · rw [ho, evalMut_assign, evalMut_assign]
    simp only [assignBody, Value.asString]
    exact Sim.bindE (sim_setValue hinj x v h log hh) fun _ h₁ log₁ hF₁ => Sim.mk' hF₁ rfl
  · rw [evalMut_opAssign ho, evalMut_opAssign ho]
    simp only [opAssignBody, Value.asString]
    refine Sim.bindE (sim_varRead hinj x h log hh) fun left h₁ log₁ hF₁ => ?_
    rw [iterEval_pure (assignBase_pure ho), iterEval_pure (assignBase_pure ho)]
    refine Sim.bindE (Sim.clean hF₁ (clean_evalPure _ _)) fun res h₂ log₂ hF₂ => ?_
    exact Sim.bindE (sim_setValue hinj x res h₂ log₂ hF₂) fun _ h₃ log₃ hF₃ => Sim.mk' hF₃ rfl

/-! ### the renamed tree -/

/-- a node with its own operator and all descendants renamed -/
def rnNode (k : IterKind) (f : Str → Str) (n : Node) : Node :=
  ⟨n.op.renameWith k f, renameList k f n.children⟩

theorem renameList_cons (k : IterKind) (f : Str → Str) (n : Node) (rest : List Node) :
    renameList k f (n :: rest) = rnNode k f n :: renameList k f rest := by
  cases n; rw [renameList]; rfl

theorem renameList_nil (k : IterKind) (f : Str → Str) : renameList k f [] = [] := by
  rw [renameList]

theorem rnNode_leaf (k : IterKind) (f : Str → Str) (op : Operator) :
    rnNode k f ⟨op, []⟩ = ⟨op.renameWith k f, []⟩ := by
  simp only [rnNode, renameList_nil]

theorem rnNode_one (k : IterKind) (f : Str → Str) (op : Operator) (c : Node) :
    rnNode k f ⟨op, [c]⟩ = ⟨op.renameWith k f, [rnNode k f c]⟩ := by
  simp only [rnNode, renameList_cons, renameList_nil]

theorem rnNode_two (k : IterKind) (f : Str → Str) (op : Operator) (c d : Node) :
    rnNode k f ⟨op, [c, d]⟩ = ⟨op.renameWith k f, [rnNode k f c, rnNode k f d]⟩ := by
  simp only [rnNode, renameList_cons, renameList_nil]

theorem rnNode_wrapTree (k : IterKind) (f : Str → Str) (b : Bool) (n : Node) :
    rnNode k f (wrapTree b n) = wrapTree b (rnNode k f n) := by
  cases b
  · rfl
  · simp only [wrapTree, rnNode_one, Operator.renameWith, if_true]

theorem binOp_renameWith (k : IterKind) (f : Str → Str) (op : BinOp) :
    op.toOperator.renameWith k f = op.toOperator := by cases op <;> rfl

theorem assignOp_renameWith (k : IterKind) (f : Str → Str) (op : AssignOp) :
    op.toOperator.renameWith k f = op.toOperator := by cases op <;> rfl

theorem renameWith_variable_varRead (r : Str → Str) (x : Str) :
    (Operator.varRead x).renameWith .variable r = .varRead (r x) := rfl
theorem renameWith_variable_varWrite (r : Str → Str) (x : Str) :
    (Operator.varWrite x).renameWith .variable r = .varWrite (r x) := rfl
theorem renameWith_variable_fn (r : Str → Str) (x : Str) :
    (Operator.fn x).renameWith .variable r = .fn x := rfl

/-- the simulation for the trees of expressions -/
theorem sim_toTree {r : Str → Str} (hinj : Function.Injective r) {F : List (Str × UserFn)}
    (hF : FnStable r F) :
    ∀ (e : Expr) (h : HashMapCtx) (log : List (Str × Value)), h.funs = F →
      Sim r F ((toTree e).evalMut ⟨.hashMap h, log⟩)
        ((rnNode .variable r (toTree e)).evalMut ⟨.hashMap (renameVars r h), log⟩)
  | .lit l, h, log, hh => by
    simp only [toTree, rnNode_leaf, evalMut_leaf]
    exact Sim.mk' hh rfl
  | .var x, h, log, hh => by
    simp only [toTree, rnNode_leaf, renameWith_variable_varRead, evalMut_leaf]
    exact sim_varRead hinj x h log hh
  | .call f a, h, log, hh => by
    simp only [toTree, rnNode_one, renameWith_variable_fn, rnNode_wrapTree, evalMut_node1,
      evalMut_wrapTree]
    exact Sim.bindE (sim_toTree hinj hF a h log hh) fun v h₁ log₁ hF₁ =>
      sim_callFunction hF f v h₁ log₁ hF₁
  | .neg e, h, log, hh => by
    simp only [toTree, rnNode_one, rnNode_wrapTree, evalMut_node1, evalMut_wrapTree]
    exact Sim.bindE (sim_toTree hinj hF e h log hh) fun v h₁ log₁ hF₁ =>
      Sim.clean hF₁ (clean_evalPure .neg _)
  | .not e, h, log, hh => by
    simp only [toTree, rnNode_one, rnNode_wrapTree, evalMut_node1, evalMut_wrapTree]
    exact Sim.bindE (sim_toTree hinj hF e h log hh) fun v h₁ log₁ hF₁ =>
      Sim.clean hF₁ (clean_evalPure .not _)
  | .bin op l rr, h, log, hh => by
    simp only [toTree, rnNode_two, binOp_renameWith, rnNode_wrapTree, evalMut_node2,
      evalMut_wrapTree]
    refine Sim.bindE (sim_toTree hinj hF l h log hh) fun v h₁ log₁ hF₁ => ?_
    refine Sim.bindE (sim_toTree hinj hF rr h₁ log₁ hF₁) fun w h₂ log₂ hF₂ => ?_
    rw [evalMut_pure (binOp_notAssign op) (binOp_pure op),
      evalMut_pure (binOp_notAssign op) (binOp_pure op)]
    exact Sim.clean hF₂ (clean_evalPure _ _)
  | .assign op x rhs, h, log, hh => by
    have hw : ∀ (y : Str) (s : St), Operator.evalMut (.varWrite y) [] s = (.ok (.string y), s) :=
      fun _ _ => rfl
    simp only [toTree, rnNode_two, rnNode_leaf, assignOp_renameWith, renameWith_variable_varWrite,
      rnNode_wrapTree, evalMut_node2, evalMut_wrapTree, evalMut_leaf, hw, bindE_ok]
    exact Sim.bindE (sim_toTree hinj hF rhs h log hh) fun v h₁ log₁ hF₁ =>
      sim_assignOp hinj op x v h₁ log₁ hF₁
  | .paren e, h, log, hh => by
    have hr : Operator.rootNode.renameWith .variable r = .rootNode := rfl
    simp only [toTree, rnNode_one, hr, evalMut_root1]
    exact sim_toTree hinj hF e h log hh

end Evalexpr.Spec
