/-
Proofs/MalformedTok.lean — token classes used by the invariant of C13 (ii), and the node a
token is turned into.
-/
import EvalexprVerif.Proofs.MalformedInv

namespace Evalexpr.Spec
open Evalexpr

def isSepTok : Token → Bool
  | .comma | .semicolon => true
  | _ => false

/-- the previous token starts an item: start of input, `(`, `,`, `;` -/
def itemStart : Option Token → Bool
  | none => true
  | some .lBrace | some .comma | some .semicolon => true
  | _ => false

/-- the previous token is a prefix or binary operator -/
def opTok : Option Token → Bool
  | none => false
  | some p => isBinaryTok p || p.isNot

def optLeft : Option Token → Bool
  | none => false
  | some c => c.isLeftsidedValue

def optAssign : Option Token → Bool
  | none => false
  | some c => c.isAssignment

/-- after `prev`, with `cur` the token that follows, an operand is complete -/
def complete (prev cur : Option Token) : Bool :=
  prevRS prev && !(prevId prev && optLeft cur)

/-- 1 if an operand is awaited -/
def aw (prev cur : Option Token) : Nat := if complete prev cur then 0 else 1

/-- the violation that becomes visible when `t` is read after `prev` -/
def viol (prev : Option Token) (t : Token) : Bool :=
  lacksLeftAt prev t || (opTok prev && !startsOperand t)

theorem prev_facts (prev : Option Token) :
    (prevRS prev = true → opTok prev = false) ∧ (prevRS prev = true → itemStart prev = false) ∧
    (opTok prev = true → itemStart prev = false) := by
  cases prev with
  | none => simp [prevRS, opTok]
  | some p => cases p <;> simp [prevRS, opTok, itemStart, Token.isRightsidedValue, isBinaryTok, Token.isNot]

theorem lacksLeftAt_eq (prev : Option Token) (t : Token) :
    lacksLeftAt prev t = (isBinaryTok t && !isMinus t && !prevRS prev) := by
  cases prev <;> simp [lacksLeftAt, prevRS]

theorem optLeft_not_assign (n : Option Token) (h : optLeft n = true) : optAssign n = false := by
  cases n with
  | none => cases h
  | some c => cases c <;> simp [optLeft, optAssign, Token.isLeftsidedValue, Token.isAssignment] at h ⊢

/-- the number of operands the node of a token still needs -/
def arityB (lr : Bool) (t : Token) (na nl : Bool) : Nat :=
  match t with
  | .identifier _ => if na then 0 else if nl then 1 else 0
  | .float _ | .int _ | .boolean _ | .string _ => 0
  | .not => 1
  | .minus => if lr then 2 else 1
  | _ => 2

def arityTok (lr : Bool) (t : Token) (next : Option Token) : Nat :=
  arityB lr t (optAssign next) (optLeft next)

theorem defect_new (op : Operator) : defect (Node.new op) = slot op 0 := by
  simp [Node.new, defect_mk]

theorem tok_node (stack : List Node) (lr : Bool) (t : Token) (next : Option Token)
    (h1 : t.isLBrace = false) (h2 : isRBraceTok t = false) :
    ∃ node, tokenToNode stack lr t next = .ok (some node, stack) ∧
      node.op.isSequence = isSepTok t ∧ (isSepTok t = false → defect node = arityTok lr t next) := by
  cases t
  case lBrace => cases h1
  case rBrace => cases h2
  case identifier id =>
    cases next with
    | none => exact ⟨_, rfl, rfl, fun _ => rfl⟩
    | some n =>
      simp only [tokenToNode, arityTok, arityB, optAssign, optLeft]
      rcases Bool.eq_false_or_eq_true n.isAssignment with ha | ha <;>
        rcases Bool.eq_false_or_eq_true n.isLeftsidedValue with hl | hl <;>
        simp only [ha, hl, if_true, if_false, Bool.false_eq_true] <;>
        exact ⟨_, rfl, rfl, fun _ => rfl⟩
  case minus =>
    cases lr
    · exact ⟨_, rfl, rfl, fun _ => rfl⟩
    · exact ⟨_, rfl, rfl, fun _ => rfl⟩
  all_goals exact ⟨_, rfl, rfl, fun h => by first | rfl | cases h⟩

/-- the arithmetic of an operand/operator token: `k + aw + b ≥ 1 + aw' + b'` -/
theorem tok_arith (rs id op : Bool) (t : Token) (nl na : Bool) (b : Nat)
    (hro : rs = true → op = false) (hna : nl = true → na = false)
    (hj : juxtaposed rs id t = false)
    (h1 : t.isLBrace = false) (h2 : isRBraceTok t = false) (h3 : isSepTok t = false) :
    arityB rs t na nl + (if (rs && !(id && t.isLeftsidedValue)) then 0 else 1) + b
    ≥ 1 + (if (t.isRightsidedValue && !(t.isIdentifier && nl)) then 0 else 1) +
      (if ((isBinaryTok t && !isMinus t && !rs) || (op && !startsOperand t)) then 1 else b) := by
  cases rs <;> cases id <;> cases op <;> simp at hro
  all_goals
    cases t
    all_goals first | (cases h1; done) | (cases h2; done) | (cases h3; done) | skip
    all_goals
      simp [juxtaposed, Token.isNot, Token.isLeftsidedValue] at hj
    all_goals
      cases nl <;> cases na <;> simp at hna <;>
      simp [arityB, Token.isLeftsidedValue, Token.isRightsidedValue, Token.isIdentifier,
        isBinaryTok, isMinus, startsOperand, Token.isNot] <;> omega

end Evalexpr.Spec
