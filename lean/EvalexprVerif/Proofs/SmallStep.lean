/-
Proofs/SmallStep.lean — adequacy of the small-step machine (`Spec/SmallStep.lean`) for the big-step
model function `Node.evalRO`, with an explicit step bound.
-/
import EvalexprVerif.Spec.SmallStep
import EvalexprVerif.Proofs.EvalOrder

namespace Evalexpr.Machine
open Evalexpr Evalexpr.Spec

/-! ### running -/

theorem run_zero (c : Ctx) (st : MState) : run c 0 st = st := rfl
theorem run_succ (c : Ctx) (k : Nat) (st : MState) : run c (k + 1) st = run c k (step c st) := rfl

theorem run_add (c : Ctx) (a b : Nat) (st : MState) : run c (a + b) st = run c b (run c a st) := by
  induction a generalizing st with
  | zero => simp [run]
  | succ a ih => rw [Nat.add_right_comm, run_succ, run_succ, ih]

theorem step_finished (c : Ctx) (r : Res Value) (K : List Frame) (log : List (Str × Value)) :
    step c ⟨.finished r, K, log⟩ = ⟨.finished r, K, log⟩ := rfl

theorem run_finished (c : Ctx) (k : Nat) (r : Res Value) (K : List Frame)
    (log : List (Str × Value)) : run c k ⟨.finished r, K, log⟩ = ⟨.finished r, K, log⟩ := by
  induction k with
  | zero => rfl
  | succ k ih => rw [run_succ, step_finished, ih]

/-- reaching `st'` in at most `b` steps -/
def Reaches (c : Ctx) (b : Nat) (st st' : MState) : Prop := ∃ k, k ≤ b ∧ run c k st = st'

theorem Reaches.refl (c : Ctx) (st : MState) : Reaches c 0 st st := ⟨0, Nat.le_refl _, rfl⟩

theorem Reaches.step {c : Ctx} {b : Nat} {st st' : MState} (h : Reaches c b (step c st) st') :
    Reaches c (b + 1) st st' := by
  rcases h with ⟨k, hk, h⟩
  exact ⟨k + 1, Nat.succ_le_succ hk, h⟩

theorem Reaches.trans {c : Ctx} {a b : Nat} {s₁ s₂ s₃ : MState} (h₁ : Reaches c a s₁ s₂)
    (h₂ : Reaches c b s₂ s₃) : Reaches c (a + b) s₁ s₃ := by
  rcases h₁ with ⟨k₁, hk₁, h₁⟩
  rcases h₂ with ⟨k₂, hk₂, h₂⟩
  exact ⟨k₁ + k₂, Nat.add_le_add hk₁ hk₂, by rw [run_add, h₁, h₂]⟩

theorem Reaches.mono {c : Ctx} {a b : Nat} {s₁ s₂ : MState} (h : Reaches c a s₁ s₂) (hab : a ≤ b) :
    Reaches c b s₁ s₂ := by
  rcases h with ⟨k, hk, h⟩
  exact ⟨k, Nat.le_trans hk hab, h⟩

/-- a terminal state reached within `b` steps is the state after ANY `f ≥ b` steps -/
theorem Reaches.run_finished {c : Ctx} {b : Nat} {st : MState} {r : Res Value} {K : List Frame}
    {log : List (Str × Value)} (h : Reaches c b st ⟨.finished r, K, log⟩) (f : Nat) (hf : b ≤ f) :
    run c f st = ⟨.finished r, K, log⟩ := by
  rcases h with ⟨k, hk, h⟩
  have : f = k + (f - k) := by omega
  rw [this, run_add, h, Machine.run_finished]

/-! ### at most one access per step -/

theorem step_local {st st' : MState} (h : st.pending = .local st') (c : Ctx) : step c st = st' := by
  simp [step, h]

theorem step_read {st : MState} {q : Access} {k : q.Ans → MState} (h : st.pending = .read q k)
    (c : Ctx) : step c st = k (read c q) := by
  simp [step, h]

/-- every step is thread-local (the successor does not depend on the context at all) or depends on
the context through the answer to ONE access, fixed by the thread's own state -/
theorem step_one_access (st : MState) :
    (∃ st', ∀ c, step c st = st') ∨ (∃ (q : Access) (k : q.Ans → MState), ∀ c, step c st = k (read c q)) := by
  cases h : st.pending with
  | «local» st' => exact Or.inl ⟨st', step_local h⟩
  | read q k => exact Or.inr ⟨q, k, step_read h⟩

/-! ### the operator application -/

/-- the match on the answer of `call_function` in the `FunctionIdentifier` arm -/
def afterCall (c : Ctx) (id : Str) (arg : Value) (r : Res Value) : Res Value :=
  match r with
  | .error (.functionIdentifierNotFound _) =>
    if !c.builtinsDisabled then
      match builtinFunction id with
      | some b => b.call arg
      | none => .error (.functionIdentifierNotFound id)
    else r
  | r => r

theorem callFunction_eq (id : Str) (arg : Value) (c : Ctx) (log : List (Str × Value)) :
    callFunction id arg ⟨c, log⟩ =
      match c.userFn id with
      | some f => (afterCall c id arg (f arg), ⟨c, log ++ [(id, arg)]⟩)
      | none => (afterCall c id arg (.error (.functionIdentifierNotFound id)), ⟨c, log⟩) := by
  unfold callFunction afterCall
  cases c.userFn id with
  | none =>
    simp only
    cases c.builtinsDisabled <;> simp only [Bool.not_true, Bool.not_false] <;> try rfl
    cases builtinFunction id <;> rfl
  | some f =>
    simp only
    cases f arg with
    | ok v => rfl
    | error e =>
      cases e <;> try rfl
      cases c.builtinsDisabled <;> simp only [Bool.not_true, Bool.not_false] <;> try rfl
      cases builtinFunction id <;> rfl

theorem fnRet_reaches (c : Ctx) (id : Str) (arg : Value) (r : Res Value) (K : List Frame)
    (log : List (Str × Value)) :
    Reaches c 2 ⟨.fnRet id arg r, K, log⟩ ⟨ofRes (afterCall c id arg r), K, log⟩ := by
  cases r with
  | ok v => exact ⟨1, by omega, rfl⟩
  | error e =>
    cases e
    case functionIdentifierNotFound x =>
      cases hb : c.builtinsDisabled
      · refine ⟨2, by omega, ?_⟩
        rw [run_succ, run_succ, run_zero]
        have h1 : step c ⟨.fnRet id arg (.error (.functionIdentifierNotFound x)), K, log⟩ =
            ⟨.builtin id arg, K, log⟩ := by
          simp [step, MState.pending, read, hb]
        rw [h1]
        simp only [afterCall, hb]
        cases hf : builtinFunction id <;> simp [step, MState.pending, hf, ofRes]
      · refine ⟨1, by omega, ?_⟩
        rw [run_succ, run_zero]
        simp [step, MState.pending, read, hb, afterCall, ofRes]
    all_goals exact ⟨1, by omega, rfl⟩

/-- `op.eval(args, context)` takes at most four steps and arrives at `ret`/`raise` of its result,
with the call log `Operator.eval` leaves -/
theorem apply_reaches (c : Ctx) (op : Operator) (args : List Value) (K : List Frame)
    (log : List (Str × Value)) :
    Reaches c 4 ⟨.apply op args, K, log⟩
      ⟨ofRes (op.eval args ⟨c, log⟩).1, K, (op.eval args ⟨c, log⟩).2.log⟩ := by
  cases op
  case varRead id =>
    cases args with
    | nil =>
      refine ⟨1, by omega, ?_⟩
      rw [run_succ, run_zero]
      simp only [step, MState.pending, applyPending, read, Operator.eval]
      cases c.getValue id <;> rfl
    | cons a as => exact ⟨1, by omega, rfl⟩
  case fn id =>
    cases args with
    | nil => exact ⟨1, by omega, rfl⟩
    | cons arg as =>
      cases as with
      | cons b bs => exact ⟨1, by omega, rfl⟩
      | nil =>
        have he : Operator.eval (.fn id) [arg] ⟨c, log⟩ = callFunction id arg ⟨c, log⟩ := rfl
        rw [he, callFunction_eq]
        cases hu : c.userFn id with
        | none =>
          have h1 : step c ⟨.apply (.fn id) [arg], K, log⟩ =
              ⟨.fnRet id arg (.error (.functionIdentifierNotFound id)), K, log⟩ := by
            simp [step, MState.pending, applyPending, read, hu]
          exact ((h1 ▸ fnRet_reaches c id arg _ K log : Reaches c 2 (step c _) _).step).mono
            (by omega)
        | some f =>
          have h1 : step c ⟨.apply (.fn id) [arg], K, log⟩ = ⟨.call id arg f, K, log⟩ := by
            simp [step, MState.pending, applyPending, read, hu]
          have h2 : step c ⟨.call id arg f, K, log⟩ =
              ⟨.fnRet id arg (f arg), K, log ++ [(id, arg)]⟩ := rfl
          have h3 := fnRet_reaches c id arg (f arg) K (log ++ [(id, arg)])
          rw [← h2] at h3
          have h4 := h3.step
          rw [← h1] at h4
          exact h4.step
  all_goals exact ⟨1, by omega, rfl⟩

/-! ### the tree walk -/

theorem evalROList_ctx (cs : List Node) (s : St) : (evalROList cs s).2.ctx = s.ctx :=
  evalROList_rel (fun s s' => s'.ctx = s.ctx) (fun _ => rfl)
    (fun _ _ _ h₁ h₂ => h₂.trans h₁) eval_ctx cs s

theorem st_eta (s : St) (c : Ctx) (h : s.ctx = c) : s = ⟨c, s.log⟩ := by
  cases s; cases h; rfl

/-- where the child loop of an `op` node arrives -/
def kidsTarget (op : Operator) (done : List Value) (K : List Frame) :
    Res (List Value) × St → MState
  | (.ok vs, s') => ⟨.apply op (done ++ vs), K, s'.log⟩
  | (.error e, s') => ⟨.raise e, K, s'.log⟩

mutual
/-- from `enter n` the machine arrives, within `cost n` steps and with the control stack it started
with, at `ret v` / `raise e` for exactly the result of `n.evalRO`, with exactly its log -/
theorem enter_reaches (c : Ctx) (n : Node) (K : List Frame) (log : List (Str × Value)) :
    Reaches c (cost n) ⟨.enter n, K, log⟩
      ⟨ofRes (n.evalRO ⟨c, log⟩).1, K, (n.evalRO ⟨c, log⟩).2.log⟩ :=
  match n with
  | ⟨op, cs⟩ => by
    have ih := kids_reaches c op [] cs K log
    have hctx := evalROList_ctx cs ⟨c, log⟩
    rw [evalRO_mk]
    rcases h : evalROList cs ⟨c, log⟩ with ⟨r, s'⟩
    rw [h] at ih hctx
    have h0 : step c ⟨.enter ⟨op, cs⟩, K, log⟩ = ⟨.kids op [] cs, K, log⟩ := rfl
    rw [← h0] at ih
    have ih' := ih.step
    cases r with
    | error e =>
      refine ih'.mono ?_
      rw [cost]; omega
    | ok args =>
      have hs : s' = ⟨c, s'.log⟩ := st_eta s' c hctx
      have ha := apply_reaches c op args K s'.log
      rw [← hs] at ha
      simp only [kidsTarget, List.nil_append] at ih'
      refine (ih'.trans ha).mono ?_
      rw [cost]; omega
/-- the `for child in self.children()` loop: all values collected in order, or the first error,
which has already unwound through this node -/
theorem kids_reaches (c : Ctx) (op : Operator) (done : List Value) (cs : List Node)
    (K : List Frame) (log : List (Str × Value)) :
    Reaches c (costList cs) ⟨.kids op done cs, K, log⟩
      (kidsTarget op done K (evalROList cs ⟨c, log⟩)) :=
  match cs with
  | [] => by
    rw [evalROList_nil, costList]
    exact ⟨1, Nat.le_refl _, by simp [kidsTarget, run, step, MState.pending]⟩
  | k :: cs => by
    have ih := enter_reaches c k (⟨op, done, cs⟩ :: K) log
    have hctx := C11_readonly k ⟨c, log⟩
    rw [evalROList_cons]
    rcases h : Node.evalRO k ⟨c, log⟩ with ⟨r, s₁⟩
    rw [h] at ih hctx
    have h0 : step c ⟨.kids op done (k :: cs), K, log⟩ = ⟨.enter k, ⟨op, done, cs⟩ :: K, log⟩ :=
      rfl
    rw [← h0] at ih
    have ih' := ih.step
    cases r with
    | error e =>
      have h1 : Reaches c 1 ⟨.raise e, ⟨op, done, cs⟩ :: K, s₁.log⟩ ⟨.raise e, K, s₁.log⟩ :=
        ⟨1, Nat.le_refl _, rfl⟩
      refine (ih'.trans h1).mono ?_
      rw [costList]; omega
    | ok v =>
      have hs : s₁ = ⟨c, s₁.log⟩ := st_eta s₁ c hctx
      have h1 : Reaches c 1 ⟨.ret v, ⟨op, done, cs⟩ :: K, s₁.log⟩
          ⟨.kids op (done ++ [v]) cs, K, s₁.log⟩ := ⟨1, Nat.le_refl _, rfl⟩
      have ih2 := kids_reaches c op (done ++ [v]) cs K s₁.log
      rw [← hs] at ih2
      have hfin : kidsTarget op (done ++ [v]) K (evalROList cs s₁) =
          kidsTarget op done K
            (match evalROList cs s₁ with
              | (.error e, s) => (.error e, s)
              | (.ok vs, s) => (.ok (v :: vs), s)) := by
        rcases evalROList cs s₁ with ⟨r2, s₂⟩
        cases r2 <;> simp [kidsTarget]
      rw [hfin] at ih2
      refine ((ih'.trans h1).trans ih2).mono ?_
      rw [costList]; omega
end

/-! ### adequacy -/

/-- **Adequacy, with an explicit step bound.** From the initial state of `(n, log)` over the context
`c`, ANY amount of fuel `f ≥ bound n` (`bound` is linear in the size of `n`) runs the machine to the
terminal state that carries exactly the result of `n.evalRO ⟨c, log⟩` and exactly its final log, on
an empty control stack. -/
theorem adequacy (c : Ctx) (n : Node) (log : List (Str × Value)) (f : Nat) (hf : bound n ≤ f) :
    run c f (init n log) =
      ⟨.finished (n.evalRO ⟨c, log⟩).1, [], (n.evalRO ⟨c, log⟩).2.log⟩ := by
  have h := enter_reaches c n [] log
  have h1 : Reaches c 1 ⟨ofRes (n.evalRO ⟨c, log⟩).1, [], (n.evalRO ⟨c, log⟩).2.log⟩
      ⟨.finished (n.evalRO ⟨c, log⟩).1, [], (n.evalRO ⟨c, log⟩).2.log⟩ := by
    refine ⟨1, Nat.le_refl _, ?_⟩
    cases (n.evalRO ⟨c, log⟩).1 <;> rfl
  exact (h.trans h1).run_finished f hf

/-- the observable form: result and final log -/
theorem adequacy_result (c : Ctx) (n : Node) (log : List (Str × Value)) (f : Nat)
    (hf : bound n ≤ f) :
    (run c f (init n log)).result? = some ((n.evalRO ⟨c, log⟩).1, (n.evalRO ⟨c, log⟩).2.log) := by
  rw [adequacy c n log f hf]; rfl

/-- a finished thread stays finished, with the same result and log -/
theorem run_of_result {c : Ctx} {st : MState} {r : Res Value} {l : List (Str × Value)}
    (h : st.result? = some (r, l)) (k : Nat) : run c k st = st := by
  rcases st with ⟨fo, K, log⟩
  cases fo <;> simp [MState.result?] at h
  exact run_finished c k _ K log

/-- partial correctness without a fuel hypothesis: WHENEVER a run from the initial state is
finished, what it carries is the big-step result -/
theorem result_of_finished (c : Ctx) (n : Node) (log : List (Str × Value)) (k : Nat)
    (r : Res Value) (l : List (Str × Value)) (h : (run c k (init n log)).result? = some (r, l)) :
    r = (n.evalRO ⟨c, log⟩).1 ∧ l = (n.evalRO ⟨c, log⟩).2.log := by
  have h1 := run_of_result (c := c) h (bound n)
  rw [← run_add] at h1
  rw [← h1, adequacy_result c n log (k + bound n) (Nat.le_add_left _ _)] at h
  simp only [Option.some.injEq, Prod.mk.injEq] at h
  exact ⟨h.1.symm, h.2.symm⟩

end Evalexpr.Machine
