/-
Proofs/MalformedStep.lean — the invariant of the token loop for C13 (ii) and its preservation.
-/
import EvalexprVerif.Proofs.MalformedTok

namespace Evalexpr.Spec
open Evalexpr

/-- the invariant: the potential of the stack pays for every open level, for an awaited operand,
and for a violation seen so far (`b`) -/
def Inv (prev cur : Option Token) (lv : List Lvl) (b : Nat) : Prop :=
  WFs lv ∧ lv ≠ [] ∧ Psi lv + 1 ≥ lv.length + aw prev cur + b ∧
    (itemStart prev = false → topOpen lv = 0)

theorem tok_arith' (prev : Option Token) (t : Token) (next : Option Token) (b : Nat)
    (hj : juxtaposed (prevRS prev) (prevId prev) t = false)
    (h1 : t.isLBrace = false) (h2 : isRBraceTok t = false) (h3 : isSepTok t = false) :
    arityTok (prevRS prev) t next + aw prev (some t) + b
      ≥ 1 + aw (some t) next + (if viol prev t then 1 else b) := by
  have := tok_arith (prevRS prev) (prevId prev) (opTok prev) t (optLeft next) (optAssign next) b
    (prev_facts prev).1 (optLeft_not_assign next) hj h1 h2 h3
  rw [viol, lacksLeftAt_eq]
  exact this

theorem step_plain (prev : Option Token) (t : Token) (next : Option Token) (lv : List Lvl)
    (b : Nat) (h : Inv prev (some t) lv b) (st1 : List Node)
    (h1 : t.isLBrace = false) (h2 : isRBraceTok t = false) (h3 : isSepTok t = false)
    (hs : treeStep (flat lv) (prevRS prev) (prevId prev) t next = .ok st1) :
    ∃ lv1, st1 = flat lv1 ∧ Inv (some t) next lv1 (if viol prev t then 1 else b) := by
  obtain ⟨hw, hne, hpsi, _⟩ := h
  rw [treeStep_eq] at hs
  cases hj : juxtaposed (prevRS prev) (prevId prev) t with
  | true => rw [hj] at hs; simp at hs
  | false =>
    rw [hj] at hs
    obtain ⟨node, hn, hseq, hdef⟩ := tok_node (flat lv) (prevRS prev) t next h1 h2
    simp only [Bool.false_eq_true, if_false, hn] at hs
    cases lv with
    | nil => exact absurd rfl hne
    | cons L ls =>
      obtain ⟨L', k1, k2, k3, k4⟩ := push_plain hw.head node (by rw [hseq, h3]) st1 hs
      refine ⟨L' :: ls, k1, WFs.cons k2 hw.tail, by simp, ?_, fun _ => k3⟩
      have ha := tok_arith' prev t next b hj h1 h2 h3
      rw [hdef h3] at k4
      simp only [Psi, List.length_cons] at hpsi ⊢
      omega

theorem step_sep (prev : Option Token) (t : Token) (next : Option Token) (lv : List Lvl)
    (b : Nat) (h : Inv prev (some t) lv b) (st1 : List Node)
    (h3 : isSepTok t = true)
    (hs : treeStep (flat lv) (prevRS prev) (prevId prev) t next = .ok st1) :
    ∃ lv1, st1 = flat lv1 ∧ Inv (some t) next lv1 (if viol prev t then 1 else b) := by
  obtain ⟨hw, hne, hpsi, hopen⟩ := h
  have h1 : t.isLBrace = false := by cases t <;> simp [isSepTok] at h3 <;> rfl
  have h2 : isRBraceTok t = false := by cases t <;> simp [isSepTok] at h3 <;> rfl
  have hl : t.isLeftsidedValue = false := by cases t <;> simp [isSepTok] at h3 <;> rfl
  have hr : t.isRightsidedValue = false := by cases t <;> simp [isSepTok] at h3 <;> rfl
  have hb' : isBinaryTok t = false := by cases t <;> simp [isSepTok] at h3 <;> rfl
  have hso : startsOperand t = false := by cases t <;> simp [isSepTok] at h3 <;> rfl
  rw [treeStep_eq] at hs
  cases hj : juxtaposed (prevRS prev) (prevId prev) t with
  | true => rw [hj] at hs; simp at hs
  | false =>
    rw [hj] at hs
    obtain ⟨node, hn, hseq, _⟩ := tok_node (flat lv) (prevRS prev) t next h1 h2
    simp only [Bool.false_eq_true, if_false, hn] at hs
    cases lv with
    | nil => exact absurd rfl hne
    | cons L ls =>
      obtain ⟨L', k1, k2, k3, k4⟩ := push_sep hw.head node (by rw [hseq, h3]) st1 hs
      refine ⟨L' :: ls, k1, WFs.cons k2 hw.tail, by simp, ?_, ?_⟩
      · have haw1 : aw (some t) next = 1 := by simp [aw, complete, prevRS, hr]
        have hv : viol prev t = opTok prev := by
          simp [viol, lacksLeftAt_eq, hb', hso]
        have haw : aw prev (some t) = if prevRS prev then 0 else 1 := by
          simp [aw, complete, optLeft, hl]
        obtain ⟨f1, f2, f3⟩ := prev_facts prev
        have hlo := L.open_le
        simp only [topOpen] at hopen
        rw [haw1, hv]
        rw [haw] at hpsi
        simp only [Psi, List.length_cons] at hpsi ⊢
        cases hrs : prevRS prev with
        | true =>
          have := hopen (f2 hrs)
          simp [f1 hrs]; simp [hrs] at hpsi; omega
        | false =>
          simp [hrs] at hpsi
          cases hop : opTok prev with
          | true =>
            have := hopen (f3 hop)
            simp; omega
          | false => simp; omega
      · intro hi; cases t <;> simp [isSepTok] at h3 <;> simp [itemStart] at hi

theorem step_lb (prev : Option Token) (next : Option Token) (lv : List Lvl)
    (b : Nat) (h : Inv prev (some .lBrace) lv b) (st1 : List Node)
    (hs : treeStep (flat lv) (prevRS prev) (prevId prev) .lBrace next = .ok st1) :
    ∃ lv1, st1 = flat lv1 ∧ Inv (some .lBrace) next lv1 (if viol prev .lBrace then 1 else b) := by
  obtain ⟨hw, hne, hpsi, hopen⟩ := h
  obtain ⟨hj, rfl⟩ := step_open lv _ _ next st1 hs
  refine ⟨_, rfl, WFs.cons rootLvl_WF hw, by simp, ?_, ?_⟩
  · have hv : viol prev .lBrace = false := by
      simp [viol, lacksLeftAt_eq, isBinaryTok, startsOperand, Token.isLeftsidedValue]
    have haw1 : aw (some .lBrace) next = 1 := by
      simp [aw, complete, prevRS, Token.isRightsidedValue]
    have haw : aw prev (some .lBrace) = 1 := by
      simp [juxtaposed, Token.isNot, Token.isLeftsidedValue] at hj
      simp [aw, complete, optLeft, Token.isLeftsidedValue]
      intro h1; simp [hj h1]
    rw [haw] at hpsi
    rw [haw1, hv]
    simp only [Psi, rootLvl_pot, List.length_cons, Bool.false_eq_true, if_false]
    omega
  · intro hi; simp [itemStart] at hi

theorem step_rb (prev : Option Token) (next : Option Token) (lv : List Lvl)
    (b : Nat) (h : Inv prev (some .rBrace) lv b) (st1 : List Node)
    (hs : treeStep (flat lv) (prevRS prev) (prevId prev) .rBrace next = .ok st1) :
    ∃ lv1, st1 = flat lv1 ∧ Inv (some .rBrace) next lv1 (if viol prev .rBrace then 1 else b) := by
  obtain ⟨hw, hne, hpsi, hopen⟩ := h
  cases lv with
  | nil => exact absurd rfl hne
  | cons L ls =>
    obtain ⟨L2, L2', ls', rfl, k1, k2, k3, k4⟩ := step_close hw _ _ next st1 hs
    refine ⟨L2' :: ls', k1, WFs.cons k2 hw.tail.tail, by simp, ?_, fun _ => k3⟩
    have haw1 : aw (some .rBrace) next = 0 := by
      simp [aw, complete, prevRS, prevId, Token.isRightsidedValue, Token.isIdentifier]
    have hv : viol prev .rBrace = opTok prev := by
      simp [viol, lacksLeftAt_eq, isBinaryTok, startsOperand, Token.isLeftsidedValue, Token.isNot,
        isMinus]
    have haw : aw prev (some .rBrace) = if prevRS prev then 0 else 1 := by
      simp [aw, complete, optLeft, Token.isLeftsidedValue]
    obtain ⟨f1, f2, f3⟩ := prev_facts prev
    have hlo := L.open_le
    simp only [topOpen] at hopen
    rw [haw1, hv]
    rw [haw] at hpsi
    simp only [Psi, List.length_cons] at hpsi ⊢
    cases hrs : prevRS prev with
    | true =>
      have := hopen (f2 hrs)
      simp [f1 hrs]; simp [hrs] at hpsi; omega
    | false =>
      simp [hrs] at hpsi
      cases hop : opTok prev with
      | true =>
        have := hopen (f3 hop)
        simp; omega
      | false => simp; omega

theorem step_inv (prev : Option Token) (t : Token) (next : Option Token) (lv : List Lvl)
    (b : Nat) (h : Inv prev (some t) lv b) (st1 : List Node)
    (hs : treeStep (flat lv) (prevRS prev) (prevId prev) t next = .ok st1) :
    ∃ lv1, st1 = flat lv1 ∧ Inv (some t) next lv1 (if viol prev t then 1 else b) := by
  cases h1 : t.isLBrace with
  | true =>
    have : t = .lBrace := by cases t <;> simp [Token.isLBrace] at h1 ⊢
    subst this
    exact step_lb prev next lv b h st1 hs
  | false =>
    cases h2 : isRBraceTok t with
    | true =>
      have : t = .rBrace := by cases t <;> simp [isRBraceTok] at h2 ⊢
      subst this
      exact step_rb prev next lv b h st1 hs
    | false =>
      cases h3 : isSepTok t with
      | true => exact step_sep prev t next lv b h st1 h3 hs
      | false => exact step_plain prev t next lv b h st1 h1 h2 h3 hs

end Evalexpr.Spec
