/-
Proofs/NoPanicTree.lean — property C01 for the tree builder: the three panic sites of
src/tree/mod.rs (`children.last().unwrap()` in `insert_back_prioritized`, the two `unreachable!()`
of the token loop) are never reached, for ANY token sequence.

The root stack is described by a list of levels (`Lvl` of Proofs/MalformedLvl.lean) whose top
sequence node has at least one child (`Lvl.NE`); every step of the token loop is an explicit
function on levels (`LvStep`), which Proofs/NoPanicDepth.lean uses again for the depth bound.
-/
import EvalexprVerif.Proofs.Malformed
import EvalexprVerif.Proofs.NoPanicLex

namespace Evalexpr.Spec
open Evalexpr

/-! ### (a) `insertBackPrioritized` never unwraps `None` -/

theorem leaf_of_zero {op : Operator} (h : (some 0 == op.maxArgumentAmount) = true) :
    op.isLeaf = true := by
  unfold Operator.isLeaf OpKind.isLeaf
  unfold Operator.maxArgumentAmount at h
  cases hm : op.kind.maxArgumentAmount with
  | none => rw [hm] at h; cases h
  | some k =>
    rw [hm] at h
    have : k = 0 := by simp at h; omega
    subst this; rfl

theorem insert_noPanic :
    (∀ (n node : Node) (b : Bool), (n.insertBackPrioritized node b).isPanic = false) ∧
    (∀ (op : Operator) (pre cs : List Node) (node : Node), cs ≠ [] →
      (insertAtLast op pre cs node).isPanic = false) := by
  apply Node.insertBackPrioritized.mutual_induct
  case case1 => intro op cs node b h1 h2; simp [Node.insertBackPrioritized, h1, h2]; rfl
  case case2 =>
    intro op cs node b h1 h2 h3 ih
    simp only [Node.insertBackPrioritized, h1, h2, h3, if_true]
    refine ih ?_
    intro hcs
    subst hcs
    exact h2 (leaf_of_zero h3)
  case case3 => intro op cs node b h1 h2 h3; simp [Node.insertBackPrioritized, h1, h2, h3]
  case case4 => intro op cs node b h1; simp [Node.insertBackPrioritized, h1]; rfl
  case case5 => intro op pre x h; exact absurd rfl h
  case case6 => intro op pre c node h1 c' h2 _ _; simp [insertAtLast, h1, h2]
  case case7 =>
    intro op pre c node h1 e' h2 ih _
    rw [h2] at ih
    simp [insertAtLast, h1, h2]; exact ih
  case case14 =>
    intro op pre c c2 cs node ih _
    rw [insertAtLast]; exact ih (by simp)
  all_goals
    intro op pre c node
    intros
    simp [insertAtLast, *]
    try rfl

theorem insertBack_noPanic (n node : Node) (b : Bool) :
    (n.insertBackPrioritized node b).isPanic = false := insert_noPanic.1 n node b

/-! ### levels whose top sequence node has a child -/

/-- the top sequence node of the level (if there is one) has at least one child -/
def Lvl.NE : Lvl → Prop
  | .r _ => True
  | .t T _ => T.children ≠ []
  | .c C _ => C.children ≠ []
  | .tc T _ _ => T.children ≠ []

/-- the node a non-sequence node is inserted into: the parenthesis node itself, or the current
item (last child) of the top sequence node -/
def Lvl.item : Lvl → Option Node
  | .r R => some R
  | .t T _ => T.children.getLast?
  | .c C _ => C.children.getLast?
  | .tc T _ _ => T.children.getLast?

/-- replace the last child -/
def setLast (X x : Node) : Node := ⟨X.op, X.children.dropLast ++ [x]⟩

def Lvl.withItem : Lvl → Node → Lvl
  | .r _, x => .r x
  | .t T P, x => .t (setLast T x) P
  | .c C P, x => .c (setLast C x) P
  | .tc T C P, x => .tc (setLast T x) C P

theorem getLast?_of_ne {α} {l : List α} (h : l ≠ []) : ∃ a, l.getLast? = some a := by
  cases hl : l.getLast? with
  | some a => exact ⟨a, rfl⟩
  | none => exact absurd (List.getLast?_eq_none_iff.mp hl) h

theorem Lvl.item_some {L : Lvl} (hn : L.NE) : ∃ I, L.item = some I := by
  cases L with
  | r R => exact ⟨R, rfl⟩
  | t T P => exact getLast?_of_ne hn
  | c C P => exact getLast?_of_ne hn
  | tc T C P => exact getLast?_of_ne hn

theorem Lvl.withItem_NE (L : Lvl) (x : Node) : (L.withItem x).NE := by
  cases L <;> simp [Lvl.withItem, Lvl.NE, setLast]

theorem Lvl.withItem_WF {L : Lvl} (hw : L.WF) {I x : Node} (hi : L.item = some I)
    (hx : x.op = I.op) : (L.withItem x).WF := by
  cases L with
  | r R =>
    simp only [Lvl.item, Option.some.injEq] at hi
    subst hi
    show x.op.kind = .rootNode
    rw [hx]; exact hw
  | t T P => exact hw
  | c C P => exact hw
  | tc T C P => exact hw

/-! ### (b) pushing a non-sequence node -/

theorem pushNode_seqTop (s : List Node) (X I node : Node) (hs : X.op.isSequence = true)
    (hl : X.children.getLast? = some I) :
    pushNode s X node =
      match I.insertBackPrioritized node true with
      | .ok x => .ok (setLast X x :: s)
      | .error e => .error e := by
  simp only [pushNode, hs, if_true, hl]
  rfl

theorem pushNode_explicit {L : Lvl} (hw : L.WF) {I : Node} (hi : L.item = some I)
    (s : List Node) (node : Node) :
    pushNode (L.below ++ s) L.top node =
      match I.insertBackPrioritized node true with
      | .ok x => .ok ((L.withItem x).toList ++ s)
      | .error e => .error e := by
  cases L with
  | r R =>
    simp only [Lvl.item, Option.some.injEq] at hi
    subst hi
    have hs : R.op.isSequence = false := kind_root_isSeq hw
    simp only [Lvl.below, Lvl.top, List.nil_append, pushNode, hs, Bool.false_eq_true, if_false]
    cases R.insertBackPrioritized node true <;> rfl
  | t T P =>
    rw [Lvl.top, pushNode_seqTop _ T I node (kind_tuple_isSeq hw.1) hi]
    cases I.insertBackPrioritized node true <;> rfl
  | c C P =>
    rw [Lvl.top, pushNode_seqTop _ C I node (kind_chain_isSeq hw.1) hi]
    cases I.insertBackPrioritized node true <;> rfl
  | tc T C P =>
    rw [Lvl.top, pushNode_seqTop _ T I node (kind_tuple_isSeq hw.1) hi]
    cases I.insertBackPrioritized node true <;> rfl

/-! ### (b) pushing a separator -/

/-- the level after a `,` (`tup = true`) or a `;` -/
def pushSeqLvl (L : Lvl) (node : Node) (tup : Bool) : Lvl :=
  if tup then
    match L with
    | .r R => .t ⟨node.op, node.children ++ [R, Node.rootNode]⟩ Node.rootNode
    | .t T P => .t ⟨T.op, T.children ++ [Node.rootNode]⟩ P
    | .c C P =>
      match C.children.getLast? with
      | some last => .tc ⟨node.op, node.children ++ [last, Node.rootNode]⟩ ⟨C.op, C.children.dropLast⟩ P
      | none => .c C P
    | .tc T C P => .tc ⟨T.op, T.children ++ [Node.rootNode]⟩ C P
  else
    match L with
    | .r R => .c ⟨node.op, node.children ++ [R, Node.rootNode]⟩ Node.rootNode
    | .t T P => .c ⟨node.op, node.children ++ [T, Node.rootNode]⟩ P
    | .c C P => .c ⟨C.op, C.children ++ [Node.rootNode]⟩ P
    | .tc T C P => .c ⟨C.op, C.children ++ [T, Node.rootNode]⟩ P

theorem pushSeq_tuple {L : Lvl} (hL : L.WF) (hn : L.NE) (s : List Node) (node : Node)
    (hk : node.op.kind = .tuple) :
    pushSequence (L.below ++ s) L.top node = .ok ((pushSeqLvl L node true).toList ++ s) ∧
    (pushSeqLvl L node true).WF ∧ (pushSeqLvl L node true).NE := by
  cases L with
  | r R =>
    have h1 : R.op.kind = .rootNode := hL
    refine ⟨?_, ⟨hk, rfl⟩, by simp [pushSeqLvl, Lvl.NE]⟩
    simp [pushSeqLvl, Lvl.toList, Lvl.top, Lvl.below, pushSequence, h1, hk, Operator.isRoot]
  | t T P =>
    obtain ⟨h1, h2⟩ := hL
    refine ⟨?_, ⟨h1, h2⟩, by simp [pushSeqLvl, Lvl.NE]⟩
    simp [pushSeqLvl, Lvl.toList, Lvl.top, Lvl.below, pushSequence, h1, hk]
  | c C P =>
    obtain ⟨h1, h2⟩ := hL
    obtain ⟨last, hl⟩ := getLast?_of_ne (show C.children ≠ [] from hn)
    refine ⟨?_, ?_, ?_⟩
    · simp [pushSeqLvl, Lvl.toList, Lvl.top, Lvl.below, pushSequence, h1, hk, Operator.isRoot,
        prec_of_kind h1, prec_of_kind hk, OpKind.precedence, hl]
    · simp only [pushSeqLvl, if_true, hl]; exact ⟨hk, h1, h2⟩
    · simp [pushSeqLvl, hl, Lvl.NE]
  | tc T C P =>
    obtain ⟨h1, h2, h3⟩ := hL
    refine ⟨?_, ⟨h1, h2, h3⟩, by simp [pushSeqLvl, Lvl.NE]⟩
    simp [pushSeqLvl, Lvl.toList, Lvl.top, Lvl.below, pushSequence, h1, hk]

theorem pushSeq_chain {L : Lvl} (hL : L.WF) (s : List Node) (node : Node)
    (hk : node.op.kind = .chain) :
    pushSequence (L.below ++ s) L.top node = .ok ((pushSeqLvl L node false).toList ++ s) ∧
    (pushSeqLvl L node false).WF ∧ (pushSeqLvl L node false).NE := by
  cases L with
  | r R =>
    have h1 : R.op.kind = .rootNode := hL
    refine ⟨?_, ⟨hk, rfl⟩, by simp [pushSeqLvl, Lvl.NE]⟩
    simp [pushSeqLvl, Lvl.toList, Lvl.top, Lvl.below, pushSequence, h1, hk, Operator.isRoot]
  | t T P =>
    obtain ⟨h1, h2⟩ := hL
    refine ⟨?_, ⟨hk, h2⟩, by simp [pushSeqLvl, Lvl.NE]⟩
    simp [pushSeqLvl, Lvl.toList, Lvl.top, Lvl.below, pushSequence, h1, hk, h2, Operator.isRoot,
      prec_of_kind h1, prec_of_kind hk, OpKind.precedence, collapseRootStackTo, kind_root_isSeq h2]
  | c C P =>
    obtain ⟨h1, h2⟩ := hL
    refine ⟨?_, ⟨h1, h2⟩, by simp [pushSeqLvl, Lvl.NE]⟩
    simp [pushSeqLvl, Lvl.toList, Lvl.top, Lvl.below, pushSequence, h1, hk]
  | tc T C P =>
    obtain ⟨h1, h2, h3⟩ := hL
    refine ⟨?_, ⟨h2, h3⟩, by simp [pushSeqLvl, Lvl.NE]⟩
    simp [pushSeqLvl, Lvl.toList, Lvl.top, Lvl.below, pushSequence, h1, hk, h2, Operator.isRoot,
      prec_of_kind h1, prec_of_kind hk, prec_of_kind h2, OpKind.precedence, collapseRootStackTo]

/-- is the separator a tuple separator? -/
def isTupleOp (op : Operator) : Bool := op.kind == .tuple

theorem pushSeq_explicit {L : Lvl} (hL : L.WF) (hn : L.NE) (s : List Node) (node : Node)
    (hs : node.op.isSequence = true) :
    pushSequence (L.below ++ s) L.top node =
      .ok ((pushSeqLvl L node (isTupleOp node.op)).toList ++ s) ∧
    (pushSeqLvl L node (isTupleOp node.op)).WF ∧ (pushSeqLvl L node (isTupleOp node.op)).NE := by
  rcases seq_kind hs with hk | hk
  · have : isTupleOp node.op = true := by simp [isTupleOp, hk]
    rw [this]; exact pushSeq_tuple hL hn s node hk
  · have : isTupleOp node.op = false := by simp [isTupleOp, hk]
    rw [this]; exact pushSeq_chain hL s node hk

/-! ### closing a level -/

/-- the parenthesis node a level is folded into -/
def Lvl.collapse : Lvl → Node
  | .r R => R
  | .t T P => ⟨P.op, P.children ++ [T]⟩
  | .c C P => ⟨P.op, P.children ++ [C]⟩
  | .tc T C P => ⟨P.op, P.children ++ [⟨C.op, C.children ++ [T]⟩]⟩

theorem Lvl.collapse_kind {L : Lvl} (hL : L.WF) : L.collapse.op.kind = .rootNode := by
  cases L with
  | r R => exact hL
  | t T P => exact hL.2
  | c C P => exact hL.2
  | tc T C P => exact hL.2.2

theorem np_collapseLoop_root (R : Node) (s : List Node) (h : R.op.kind = .rootNode) :
    collapseAllLoop s R =
      if R.hasTooManyChildren then .error .missingOperatorOutsideOfBrace else .ok (R :: s) := by
  rw [collapseAllLoop.eq_def]
  simp only [kind_root_isRoot h, if_true]

theorem collapse_explicit {L : Lvl} (hL : L.WF) (s : List Node) :
    collapseAllSequences (L.toList ++ s) =
      if L.collapse.hasTooManyChildren then .error .missingOperatorOutsideOfBrace
      else .ok (L.collapse :: s) := by
  cases L with
  | r R =>
    simp only [Lvl.toList, List.cons_append, List.nil_append, collapseAllSequences]
    exact np_collapseLoop_root R s hL
  | t T P =>
    obtain ⟨h1, h2⟩ := hL
    simp only [Lvl.toList, List.cons_append, List.nil_append, collapseAllSequences]
    rw [collapseAllLoop]
    simp only [kind_tuple_isRoot h1, kind_tuple_isSeq h1, Bool.false_eq_true, if_false, if_true]
    exact np_collapseLoop_root _ s h2
  | c C P =>
    obtain ⟨h1, h2⟩ := hL
    simp only [Lvl.toList, List.cons_append, List.nil_append, collapseAllSequences]
    rw [collapseAllLoop]
    simp only [kind_chain_isRoot h1, kind_chain_isSeq h1, Bool.false_eq_true, if_false, if_true]
    exact np_collapseLoop_root _ s h2
  | tc T C P =>
    obtain ⟨h1, h2, h3⟩ := hL
    simp only [Lvl.toList, List.cons_append, List.nil_append, collapseAllSequences]
    rw [collapseAllLoop]
    simp only [kind_tuple_isRoot h1, kind_tuple_isSeq h1, Bool.false_eq_true, if_false, if_true]
    rw [collapseAllLoop]
    simp only [kind_chain_isRoot h2, kind_chain_isSeq h2, Bool.false_eq_true, if_false, if_true]
    exact np_collapseLoop_root _ s h3

/-! ### one step of the token loop, on levels -/

/-- every level is well-shaped and its top sequence node has a child -/
def Good (lv : List Lvl) : Prop := ∀ L ∈ lv, L.WF ∧ L.NE

theorem Good.cons {L : Lvl} {ls : List Lvl} (h1 : L.WF) (h2 : L.NE) (h : Good ls) :
    Good (L :: ls) := by
  intro L' h'
  rcases List.mem_cons.mp h' with rfl | h'
  · exact ⟨h1, h2⟩
  · exact h L' h'

theorem Good.tail {L : Lvl} {ls : List Lvl} (h : Good (L :: ls)) : Good ls :=
  fun L' h' => h L' (by simp [h'])

theorem Good.head {L : Lvl} {ls : List Lvl} (h : Good (L :: ls)) : L.WF ∧ L.NE := h L (by simp)

/-- the effect of one token on the levels, with the number of tree levels it can add -/
inductive LvStep : List Lvl → Nat → List Lvl → Prop
  /-- `(` -/
  | opened (lv : List Lvl) : LvStep lv 1 (.r Node.rootNode :: lv)
  /-- an operand or operator token: a fresh node without children is inserted -/
  | node (L : Lvl) (ls : List Lvl) (I node x : Node) : L.item = some I → node.children = [] →
      I.insertBackPrioritized node true = .ok x → LvStep (L :: ls) 1 (L.withItem x :: ls)
  /-- `,` or `;` -/
  | sep (L : Lvl) (ls : List Lvl) (node : Node) (tup : Bool) : L.WF → L.NE → node.children = [] →
      LvStep (L :: ls) 2 (pushSeqLvl L node tup :: ls)
  /-- `)`: the top level is folded and inserted into the level below -/
  | closed (L L2 : Lvl) (ls : List Lvl) (I x : Node) : L2.item = some I →
      I.insertBackPrioritized L.collapse true = .ok x → LvStep (L :: L2 :: ls) 0 (L2.withItem x :: ls)

/-- the number of tree levels a token can add -/
def tokCost : Token → Nat
  | .comma | .semicolon => 2
  | .rBrace => 0
  | _ => 1

/-- the outcome of a step: an error that is not a panic, or a good stack again -/
def StepFine (lv : List Lvl) (k : Nat) (r : Res (List Node)) : Prop :=
  match r with
  | .error e => e.isPanic = false
  | .ok st => ∃ lv', st = flat lv' ∧ Good lv' ∧ LvStep lv k lv'

theorem tok_fresh (stack : List Node) (lr : Bool) (t : Token) (next : Option Token)
    (h1 : t.isLBrace = false) (h2 : isRBraceTok t = false) :
    ∃ node, tokenToNode stack lr t next = .ok (some node, stack) ∧
      node.op.isSequence = isSepTok t ∧ node.children = [] := by
  cases t
  case lBrace => cases h1
  case rBrace => cases h2
  case identifier id =>
    cases next with
    | none => exact ⟨_, rfl, rfl, rfl⟩
    | some n =>
      simp only [tokenToNode]
      rcases Bool.eq_false_or_eq_true n.isAssignment with ha | ha <;>
        rcases Bool.eq_false_or_eq_true n.isLeftsidedValue with hl | hl <;>
        simp only [ha, hl, if_true, if_false, Bool.false_eq_true] <;>
        exact ⟨_, rfl, rfl, rfl⟩
  case minus =>
    cases lr
    · exact ⟨_, rfl, rfl, rfl⟩
    · exact ⟨_, rfl, rfl, rfl⟩
  all_goals exact ⟨_, rfl, rfl, rfl⟩

/-- pushing a fresh non-sequence node -/
theorem push_plain_fine {L : Lvl} {ls : List Lvl} (hg : Good (L :: ls)) (node : Node)
    (hn : node.op.isSequence = false) (hc : node.children = []) :
    StepFine (L :: ls) 1 (pushAny (flat (L :: ls)) node) := by
  obtain ⟨hw, hne⟩ := hg.head
  obtain ⟨I, hi⟩ := Lvl.item_some hne
  simp only [flat, pushAny_cons, hn, Bool.false_eq_true, if_false]
  rw [pushNode_explicit hw hi]
  have hp := insertBack_noPanic I node true
  cases hx : I.insertBackPrioritized node true with
  | error e => rw [hx] at hp; exact hp
  | ok x =>
    refine ⟨L.withItem x :: ls, rfl, ?_, LvStep.node L ls I node x hi hc hx⟩
    exact Good.cons (Lvl.withItem_WF hw hi (insertBack_op _ _ _ _ hx)) (Lvl.withItem_NE L x) hg.tail

/-- pushing a separator -/
theorem push_sep_fine {L : Lvl} {ls : List Lvl} (hg : Good (L :: ls)) (node : Node)
    (hn : node.op.isSequence = true) (hc : node.children = []) :
    StepFine (L :: ls) 2 (pushAny (flat (L :: ls)) node) := by
  obtain ⟨hw, hne⟩ := hg.head
  simp only [flat, pushAny_cons, hn, if_true]
  obtain ⟨k1, k2, k3⟩ := pushSeq_explicit hw hne (flat ls) node hn
  rw [k1]
  exact ⟨_ :: ls, rfl, Good.cons k2 k3 hg.tail, LvStep.sep L ls node _ hw hne hc⟩

theorem flat_length_ge (lv : List Lvl) : lv.length ≤ (flat lv).length := by
  induction lv with
  | nil => simp [flat]
  | cons L ls ih =>
    have : 0 < L.toList.length := by cases L <;> simp [Lvl.toList]
    simp only [flat, List.length_append, List.length_cons]
    omega

/-- `)` -/
theorem close_fine {lv : List Lvl} (hg : Good lv) (lr li : Bool) (next : Option Token) :
    StepFine lv 0 (treeStep (flat lv) lr li .rBrace next) := by
  rw [treeStep_eq, juxt_rBrace]
  simp only [Bool.false_eq_true, if_false, tokenToNode]
  by_cases hlen : (flat lv).length ≤ 1
  · simp only [hlen, if_true]; rfl
  · simp only [hlen, if_false]
    cases lv with
    | nil => simp [flat] at hlen
    | cons L ls =>
      obtain ⟨hw, hne⟩ := hg.head
      simp only [flat]
      rw [collapse_explicit hw]
      by_cases htm : L.collapse.hasTooManyChildren = true
      · simp only [htm, if_true]; rfl
      · simp only [htm, Bool.false_eq_true, if_false]
        cases ls with
        | nil => simp only [flat, pushAny]; rfl
        | cons L2 ls' =>
          obtain ⟨hw2, hne2⟩ := hg.tail.head
          obtain ⟨I, hi⟩ := Lvl.item_some hne2
          have hseq : L.collapse.op.isSequence = false := kind_root_isSeq (Lvl.collapse_kind hw)
          simp only [flat, pushAny_cons, hseq, Bool.false_eq_true, if_false]
          rw [pushNode_explicit hw2 hi]
          have hp := insertBack_noPanic I L.collapse true
          cases hx : I.insertBackPrioritized L.collapse true with
          | error e => rw [hx] at hp; exact hp
          | ok x =>
            refine ⟨L2.withItem x :: ls', rfl, ?_, LvStep.closed L L2 ls' I x hi hx⟩
            exact Good.cons (Lvl.withItem_WF hw2 hi (insertBack_op _ _ _ _ hx))
              (Lvl.withItem_NE L2 x) hg.tail.tail

theorem juxt_err_noPanic (tok : Token) :
    (if tok.isLBrace then Err.missingOperatorOutsideOfBrace else Err.appendedToLeafNode).isPanic
      = false := by
  cases tok.isLBrace <;> rfl

/-- one iteration of the token loop keeps the stack good, or fails without a panic -/
theorem step_fine {lv : List Lvl} (hg : Good lv) (lr li : Bool) (tok : Token)
    (next : Option Token) : StepFine lv (tokCost tok) (treeStep (flat lv) lr li tok next) := by
  cases h1 : tok.isLBrace with
  | true =>
    have : tok = .lBrace := by cases tok <;> simp [Token.isLBrace] at h1 ⊢
    subst this
    rw [treeStep_eq]
    cases juxtaposed lr li .lBrace with
    | true => exact rfl
    | false =>
      refine ⟨.r Node.rootNode :: lv, rfl, Good.cons rootLvl_WF trivial hg, LvStep.opened lv⟩
  | false =>
    cases h2 : isRBraceTok tok with
    | true =>
      have : tok = .rBrace := by cases tok <;> simp [isRBraceTok] at h2 ⊢
      subst this
      exact close_fine hg lr li next
    | false =>
      rw [treeStep_eq]
      cases juxtaposed lr li tok with
      | true => exact juxt_err_noPanic tok
      | false =>
        obtain ⟨node, hn, hseq, hc⟩ := tok_fresh (flat lv) lr tok next h1 h2
        simp only [Bool.false_eq_true, if_false, hn]
        cases lv with
        | nil => simp only [flat, pushAny]; rfl
        | cons L ls =>
          cases h3 : isSepTok tok with
          | true =>
            have : tokCost tok = 2 := by cases tok <;> simp [isSepTok] at h3 <;> rfl
            rw [this]
            exact push_sep_fine hg node (by rw [hseq, h3]) hc
          | false =>
            have : tokCost tok = 1 := by
              cases tok <;> simp [isSepTok, isRBraceTok] at h3 h2 <;> rfl
            rw [this]
            exact push_plain_fine hg node (by rw [hseq, h3]) hc

/-! ### the loop -/

/-- the cost of a token sequence -/
def tokCosts : List Token → Nat
  | [] => 0
  | t :: ts => tokCost t + tokCosts ts

/-- several steps -/
inductive LvSteps : List Lvl → Nat → List Lvl → Prop
  | refl (lv : List Lvl) : LvSteps lv 0 lv
  | step {lv lv1 lv2 : List Lvl} {k n : Nat} : LvStep lv k lv1 → LvSteps lv1 n lv2 →
      LvSteps lv (k + n) lv2

theorem loop_fine (ts : List Token) : ∀ (lv : List Lvl) (lr li : Bool), Good lv →
    match treeLoop ts (flat lv) lr li with
    | .error e => e.isPanic = false
    | .ok st => ∃ lv', st = flat lv' ∧ Good lv' ∧ LvSteps lv (tokCosts ts) lv' := by
  induction ts with
  | nil => intro lv lr li hg; exact ⟨lv, rfl, hg, LvSteps.refl lv⟩
  | cons tok rest ih =>
    intro lv lr li hg
    simp only [treeLoop]
    have hs := step_fine hg lr li tok rest.head?
    cases h1 : treeStep (flat lv) lr li tok rest.head? with
    | error e => rw [h1] at hs; exact hs
    | ok st1 =>
      rw [h1] at hs
      obtain ⟨lv1, rfl, hg1, hstep⟩ := hs
      have := ih lv1 tok.isRightsidedValue tok.isIdentifier hg1
      simp only
      cases h2 : treeLoop rest (flat lv1) tok.isRightsidedValue tok.isIdentifier with
      | error e => rw [h2] at this; exact this
      | ok st2 =>
        rw [h2] at this
        obtain ⟨lv2, rfl, hg2, hsteps⟩ := this
        exact ⟨lv2, rfl, hg2, LvSteps.step hstep hsteps⟩

theorem initial_good : Good [.r Node.rootNode] := Good.cons rootLvl_WF trivial (fun _ h => by cases h)

/-- building the operator tree never panics, for ANY token sequence -/
theorem build_noPanic (ts : List Token) : (tokensToOperatorTree ts).isPanic = false := by
  unfold tokensToOperatorTree
  have h := loop_fine ts [.r Node.rootNode] false false initial_good
  have hf : flat [.r Node.rootNode] = [Node.rootNode] := rfl
  rw [hf] at h
  cases hl : treeLoop ts [Node.rootNode] false false with
  | error e => rw [hl] at h; exact h
  | ok st =>
    rw [hl] at h
    obtain ⟨lv', rfl, hg, -⟩ := h
    simp only
    cases lv' with
    | nil => rfl
    | cons L ls =>
      simp only [flat]
      rw [collapse_explicit hg.head.1]
      by_cases htm : L.collapse.hasTooManyChildren = true
      · simp only [htm, if_true]; rfl
      · simp only [htm, Bool.false_eq_true, if_false]
        split
        · rfl
        · rfl

theorem buildString_noPanic (s : List Char) : (buildOperatorTree s).isPanic = false := by
  unfold buildOperatorTree
  have h := tokenize_noPanic s
  cases ht : tokenize s with
  | error e => rw [ht] at h; exact h
  | ok ts => exact build_noPanic ts

end Evalexpr.Spec
