/-
Proofs/MalformedSeq.lean — `pushSequence` and `collapseAllSequences` on a well-shaped stack.
-/
import EvalexprVerif.Proofs.MalformedShape

namespace Evalexpr.Spec
open Evalexpr

theorem prec_of_kind {o : Operator} {k : OpKind} (h : o.kind = k) : o.precedence = k.precedence := by
  simp [Operator.precedence, h]

theorem rootNode_kind : Node.rootNode.op.kind = .rootNode := rfl

theorem pushSequence_level {root : Node} {l s : List Node} (h : StkLevel (root :: l)) (node : Node)
    (hn : node.op.isSequence = true) : StepOK (pushSequence (l ++ s) root node) s := by
  rcases seq_kind hn with hk | hk
  · -- a tuple separator
    cases h with
    | r _ h1 =>
      refine .inr ⟨[⟨node.op, node.children ++ [root, Node.rootNode]⟩, Node.rootNode],
        .t _ _ hk rootNode_kind, ?_⟩
      simp [pushSequence, h1, hk, Operator.isRoot]
    | t _ P h1 h2 =>
      refine .inr ⟨[⟨root.op, root.children ++ [Node.rootNode]⟩, P], .t _ _ h1 h2, ?_⟩
      simp [pushSequence, h1, hk]
    | c _ P h1 h2 =>
      cases hl : root.children.getLast? with
      | none =>
        refine .inl ⟨unreachableSeq, ?_, rfl⟩
        simp [pushSequence, h1, hk, Operator.isRoot, prec_of_kind h1, prec_of_kind hk,
          OpKind.precedence, hl]
      | some last =>
        refine .inr ⟨[⟨node.op, node.children ++ [last, Node.rootNode]⟩,
          ⟨root.op, root.children.dropLast⟩, P], .tc _ _ _ hk h1 h2, ?_⟩
        simp [pushSequence, h1, hk, Operator.isRoot, prec_of_kind h1, prec_of_kind hk,
          OpKind.precedence, hl]
    | tc _ C P h1 h2 h3 =>
      refine .inr ⟨[⟨root.op, root.children ++ [Node.rootNode]⟩, C, P], .tc _ _ _ h1 h2 h3, ?_⟩
      simp [pushSequence, h1, hk]
  · -- a chain separator
    cases h with
    | r _ h1 =>
      refine .inr ⟨[⟨node.op, node.children ++ [root, Node.rootNode]⟩, Node.rootNode],
        .c _ _ hk rootNode_kind, ?_⟩
      simp [pushSequence, h1, hk, Operator.isRoot]
    | t _ P h1 h2 =>
      refine .inr ⟨[⟨node.op, node.children ++ [root, Node.rootNode]⟩, P], .c _ _ hk h2, ?_⟩
      simp [pushSequence, h1, hk, h2, Operator.isRoot, prec_of_kind h1, prec_of_kind hk,
        OpKind.precedence, collapseRootStackTo, kind_root_isSeq h2]
    | c _ P h1 h2 =>
      refine .inr ⟨[⟨root.op, root.children ++ [Node.rootNode]⟩, P], .c _ _ h1 h2, ?_⟩
      simp [pushSequence, h1, hk]
    | tc _ C P h1 h2 h3 =>
      refine .inr ⟨[⟨C.op, C.children ++ [root, Node.rootNode]⟩, P], .c _ _ h2 h3, ?_⟩
      simp [pushSequence, h1, hk, h2, Operator.isRoot, prec_of_kind h1, prec_of_kind hk,
        prec_of_kind h2, OpKind.precedence, collapseRootStackTo]

/-- the combined push of a non-brace token's node -/
def pushAny (stack : List Node) (node : Node) : Res (List Node) :=
  match stack with
  | [] => .error .unmatchedRBrace
  | root :: stack =>
    if node.op.isSequence then pushSequence stack root node else pushNode stack root node

theorem pushAny_level {l s : List Node} (h : StkLevel l) (node : Node) :
    StepOK (pushAny (l ++ s) node) s := by
  cases l with
  | nil => exact absurd rfl h.ne_nil
  | cons root l =>
    simp only [List.cons_append, pushAny]
    cases hn : node.op.isSequence with
    | true => simpa using pushSequence_level h node hn
    | false => simpa using pushNode_level h node

/-! ### `collapseAllSequences` folds the top level into one `RootNode` -/

theorem hasTooMany_root_error (R : Node) (s : List Node) (h : R.op.kind = .rootNode) :
    collapseAllLoop s R = .error .missingOperatorOutsideOfBrace ∨ collapseAllLoop s R = .ok (R :: s) := by
  rw [collapseAllLoop.eq_def]
  simp only [kind_root_isRoot h, if_true]
  cases R.hasTooManyChildren <;> simp

theorem collapse_level {l : List Node} (h : StkLevel l) (s : List Node) :
    collapseAllSequences (l ++ s) = .error .missingOperatorOutsideOfBrace ∨
    ∃ R, R.op.kind = .rootNode ∧ collapseAllSequences (l ++ s) = .ok (R :: s) := by
  cases h with
  | r R h1 =>
    simp only [List.cons_append, List.nil_append, collapseAllSequences]
    rcases hasTooMany_root_error R s h1 with h | h
    · exact .inl h
    · exact .inr ⟨R, h1, h⟩
  | t T P h1 h2 =>
    simp only [List.cons_append, List.nil_append, collapseAllSequences]
    rw [collapseAllLoop]
    simp only [kind_tuple_isRoot h1, kind_tuple_isSeq h1, Bool.false_eq_true, if_false, if_true]
    rcases hasTooMany_root_error ⟨P.op, P.children ++ [T]⟩ s h2 with h | h
    · exact .inl h
    · exact .inr ⟨⟨P.op, _⟩, h2, h⟩
  | c C P h1 h2 =>
    simp only [List.cons_append, List.nil_append, collapseAllSequences]
    rw [collapseAllLoop]
    simp only [kind_chain_isRoot h1, kind_chain_isSeq h1, Bool.false_eq_true, if_false, if_true]
    rcases hasTooMany_root_error ⟨P.op, P.children ++ [C]⟩ s h2 with h | h
    · exact .inl h
    · exact .inr ⟨⟨P.op, _⟩, h2, h⟩
  | tc T C P h1 h2 h3 =>
    simp only [List.cons_append, List.nil_append, collapseAllSequences]
    rw [collapseAllLoop]
    simp only [kind_tuple_isRoot h1, kind_tuple_isSeq h1, Bool.false_eq_true, if_false, if_true]
    rw [collapseAllLoop]
    simp only [kind_chain_isRoot h2, kind_chain_isSeq h2, Bool.false_eq_true, if_false, if_true]
    rcases hasTooMany_root_error ⟨P.op, P.children ++ [⟨C.op, C.children ++ [T]⟩]⟩ s h3 with h | h
    · exact .inl h
    · exact .inr ⟨⟨P.op, _⟩, h3, h⟩

end Evalexpr.Spec
