/-
Proofs/LexExt.lean — C06 / C07 for literals embedded between other tokens in every spelling:
`PrintableX` tokens (besides `Printable`: floats written with a signed exponent) with an
`AdmissibleX` gap assignment lex back to themselves (`C07_roundtrip_ext`), which subsumes
`C07_roundtrip`; and the instances `0x1e-3`, `5e-3-2e-3`, `a-1e+2`.

Phase 1 (characters → `partialsX`) is in `LexExtParts`; here phase 2 and the theorems.
-/
import EvalexprVerif.Proofs.LexExtParts

namespace Evalexpr.Spec
open Evalexpr

/-! ### `Printable → PrintableX`, `Admissible → AdmissibleX` -/

theorem printableX_of_printable (p : PTok) (h : p.Printable) : p.PrintableX := Or.inl h

theorem isWordTok_of_isIdentTok (t : Token) (h : isIdentTok t = true) : isWordTok t = true := by
  cases t <;> first | rfl | cases h

theorem admissibleX_of_admissible (ps : List (Gap × PTok)) (g : Gap) (h : Admissible ps g) :
    AdmissibleX ps g := by
  induction ps with
  | nil => exact h
  | cons r rest ih =>
    obtain ⟨g0, p⟩ := r
    obtain ⟨hv, hn, hsl, hrest⟩ := h
    refine ⟨hv, ?_, hsl, ih hrest⟩
    cases rest with
    | nil => trivial
    | cons r' rest' =>
      obtain ⟨g1, q⟩ := r'
      refine ⟨hn.1, fun hl hi hq gr r rest'' hr _ => ?_⟩
      subst hr
      exact hn.2 hl (isWordTok_of_isIdentTok _ hi) hq (by simp)

/-! ### phase 2: one `PrintableX` token -/

theorem pttt_ptokX (p : PTok) (hp : p.PrintableX) (l : List PartialToken)
    (hEq : absorbsEq p.tok = true → l.head? ≠ some .eq)
    (hId : ∀ w, p.tok = .identifier w → ∀ a b, l.head? = some a → l.tail.head? = some b →
      isPlusOrMinus a = true → F64.parse (w ++ a.display ++ b.display) = none) :
    partialTokensToTokens (ptokPartialsX p ++ l) = (partialTokensToTokens l).map (p.tok :: ·) := by
  rcases hp with hp | ⟨hs, f, hf, hparse⟩
  · rw [ptokPartialsX_of_printable p hp]; exact pttt_ptok p hp l hEq hId
  · obtain ⟨m, e, s, ex, ht, hm, he, hsg, hex, hpx⟩ := printableX_signed p hs f hf
    obtain ⟨sp, hsp1, hsp2, hsp3, -, -⟩ := sign_partial s hsg
    have hlw := (mantissaE_word m e hm he).2
    have h2 : tokenStep (.literal (m ++ [e])) (some sp) (some (.literal ex)) =
        .ok (some (.float f), 3) := by
      have e2 : m ++ [e] ++ [s] ++ ex = p.text := by rw [ht]; simp
      simp only [tokenStep, hlw, hsp2, ↓reduceIte, hsp3, PartialToken.display.eq_2, e2, hparse]
    rw [hpx, hsp1, hf]
    exact pttt_triple _ _ _ _ _ h2

/-! ### the side conditions of `pttt_ptokX` follow from admissibility -/

theorem hEq_of_admissibleX (g0 : Gap) (p : PTok) (rest : List (Gap × PTok)) (g : Gap)
    (ha : AdmissibleX ((g0, p) :: rest) g) (habs : absorbsEq p.tok = true) :
    (partialsX rest g).head? ≠ some .eq := by
  rcases partialsX_cases rest g with h | ⟨m, h⟩ | ⟨q, rest', rfl, h⟩
  · simp [h]
  · simp [h]
  · rw [h]
    intro hh
    have hs := head?_ptokPartialsX_eq q _ hh
    exact ha.2.1.1 (by simp [fuses, habs, hs]) rfl

theorem hId_of_admissibleX (g0 : Gap) (p : PTok) (rest : List (Gap × PTok)) (g : Gap)
    (hp : p.PrintableX) (ha : AdmissibleX ((g0, p) :: rest) g) (w : Str)
    (hw : p.tok = .identifier w) (a b : PartialToken)
    (h1 : (partialsX rest g).head? = some a) (h2 : (partialsX rest g).tail.head? = some b)
    (hpm : isPlusOrMinus a = true) : F64.parse (w ++ a.display ++ b.display) = none := by
  apply Classical.byContradiction
  intro hne
  have hp' : p.Printable := by
    rcases hp with hp | ⟨-, f, hf, -⟩
    · exact hp
    · rw [hw] at hf; cases hf
  obtain ⟨tok, text⟩ := p
  simp only at hw
  subst hw
  simp only [PTok.Printable] at hp'
  obtain ⟨rfl, hword, -⟩ := hp'
  obtain ⟨s, hs, hsign⟩ := display_of_isPlusOrMinus a hpm
  rw [hs, List.append_assoc, List.singleton_append] at hne
  obtain ⟨hlm, hd1, hd2⟩ := parse_join text b.display s hsign hword hne
  obtain ⟨w', rfl⟩ := literal_of_display_digits b hd1 hd2
  rcases partialsX_cases rest g with h | ⟨m, h⟩ | ⟨q, rest', rfl, h⟩
  · simp [h] at h1
  · rw [h] at h1; simp at h1; subst h1; simp [isPlusOrMinus] at hpm
  · rw [h] at h1 h2
    obtain ⟨hq, hm⟩ := ptokPartialsX_sign_literal q _ a w' h1 h2 hpm
    rcases partialsX_cases rest' g with h' | ⟨m', h'⟩ | ⟨r, rest'', rfl, h'⟩
    · simp [h'] at hm
    · simp [h'] at hm
    · rw [h'] at hm
      have hr := head?_ptokPartialsX_literal r _ w' hm
      rcases ha.2.1.2 hlm rfl hq [] r rest'' rfl hr with h0 | h0 <;> exact h0 rfl

/-! ### phase 2 -/

theorem pttt_partialsX (ps : List (Gap × PTok)) (g : Gap) (hp : ∀ p ∈ ps, p.2.PrintableX)
    (ha : AdmissibleX ps g) :
    partialTokensToTokens (partialsX ps g) = .ok (ps.map (·.2.tok)) := by
  induction ps with
  | nil =>
    have := pttt_gapPartials g []
    simpa [partialsX, partialTokensToTokens] using this
  | cons r rest ih =>
    obtain ⟨g0, p⟩ := r
    have hpp : p.PrintableX := hp (g0, p) (by simp)
    have hprest : ∀ q ∈ rest, q.2.PrintableX := fun q hq => hp q (by simp [hq])
    simp only [partialsX, List.append_assoc]
    rw [pttt_gapPartials, pttt_ptokX p hpp _ (hEq_of_admissibleX g0 p rest g ha)
      (hId_of_admissibleX g0 p rest g hpp ha), ih hprest ha.2.2.2]
    rfl

/-! ### the theorems -/

/-- extended round trip: literals in every spelling, embedded between other tokens -/
theorem C07_roundtrip_ext (ps : List (Gap × PTok)) (g : Gap)
    (hp : ∀ p ∈ ps, p.2.PrintableX) (ha : AdmissibleX ps g) :
    tokenize (renderFrom ps g) = .ok (ps.map (·.2.tok)) := by
  simp only [tokenize, strToPartialTokens_renderX ps g hp ha]
  exact pttt_partialsX ps g hp ha

/-! ### instances -/

/-- a float written with a signed exponent is `PrintableX` -/
theorem printableX_signed_float (m ex : Str) (hm : isMantissa m = true) (hex : isDigits ex = true)
    (e s : Char) (he : e = 'e' ∨ e = 'E') (hs : s = '+' ∨ s = '-') :
    ∃ f, F64.parse (m ++ e :: s :: ex) = some f ∧
      PTok.PrintableX ⟨.float f, m ++ e :: s :: ex⟩ := by
  obtain ⟨f, hf, -⟩ := C06_float_signed m ex hm hex e s he hs
  refine ⟨f, hf, Or.inr ⟨?_, f, rfl, hf⟩⟩
  show isSignedFloatText (m ++ e :: s :: ex) = true
  unfold isSignedFloatText
  rw [splitExp_some m (s :: ex) e (notE_of_isMantissa m hm) he]
  rcases hs with rfl | rfl <;> simp [hm, hex]

/-- `0x1e-3` is `30 - 3` -/
theorem C06_hex_embedded : tokenize cl!"0x1e-3" = .ok [.int 30, .minus, .int 3] := by
  have h30 : lexWord cl!"0x1e" = some (.int 30) := (C06_hex cl!"1e" (by decide) (by decide)).1
  have h3 : lexWord cl!"3" = some (.int 3) := (C06_dec cl!"3" (by decide) (by decide)).1
  have := C07_roundtrip_ext
    [([], ⟨.int 30, cl!"0x1e"⟩), ([], ⟨.minus, cl!"-"⟩), ([], ⟨.int 3, cl!"3"⟩)] []
    (by
      intro p hp
      simp only [List.mem_cons, List.not_mem_nil, or_false] at hp
      rcases hp with rfl | rfl | rfl
      · exact Or.inl ⟨by decide, h30⟩
      · exact Or.inl rfl
      · exact Or.inl ⟨by decide, h3⟩)
    (by simp [AdmissibleX, fuses, isWordTok, absorbsEq, startsWithEq, isIdentTok, isSlash])
  simpa [renderFrom, Gap.text] using this

/-- `5e-3-2e-3` -/
theorem C06_signed_embedded : ∃ f g, F64.parse cl!"5e-3" = some f ∧ F64.parse cl!"2e-3" = some g ∧
    tokenize cl!"5e-3-2e-3" = .ok [.float f, .minus, .float g] := by
  obtain ⟨f, hf, hpf⟩ := printableX_signed_float cl!"5" cl!"3" (by decide) (by decide) 'e' '-'
    (Or.inl rfl) (Or.inr rfl)
  obtain ⟨g, hg, hpg⟩ := printableX_signed_float cl!"2" cl!"3" (by decide) (by decide) 'e' '-'
    (Or.inl rfl) (Or.inr rfl)
  refine ⟨f, g, hf, hg, ?_⟩
  have := C07_roundtrip_ext
    [([], ⟨.float f, cl!"5e-3"⟩), ([], ⟨.minus, cl!"-"⟩), ([], ⟨.float g, cl!"2e-3"⟩)] []
    (by
      intro p hp
      simp only [List.mem_cons, List.not_mem_nil, or_false] at hp
      rcases hp with rfl | rfl | rfl
      · exact hpf
      · exact Or.inl rfl
      · exact hpg)
    (by simp [AdmissibleX, fuses, isWordTok, absorbsEq, startsWithEq, isIdentTok, isSlash])
  simpa [renderFrom, Gap.text] using this

/-- `a-1e+2` -/
theorem C06_signed_after_ident : ∃ f, F64.parse cl!"1e+2" = some f ∧
    tokenize cl!"a-1e+2" = .ok [.identifier cl!"a", .minus, .float f] := by
  obtain ⟨f, hf, hpf⟩ := printableX_signed_float cl!"1" cl!"2" (by decide) (by decide) 'e' '+'
    (Or.inl rfl) (Or.inl rfl)
  refine ⟨f, hf, ?_⟩
  have ha : lexWord cl!"a" = none :=
    C06_word cl!"a" (by decide) (by decide) (by decide) (by decide) (by decide) (by decide)
  have := C07_roundtrip_ext
    [([], ⟨.identifier cl!"a", cl!"a"⟩), ([], ⟨.minus, cl!"-"⟩), ([], ⟨.float f, cl!"1e+2"⟩)] []
    (by
      intro p hp
      simp only [List.mem_cons, List.not_mem_nil, or_false] at hp
      rcases hp with rfl | rfl | rfl
      · exact Or.inl ⟨rfl, by decide, ha⟩
      · exact Or.inl rfl
      · exact hpf)
    (by simp [AdmissibleX, fuses, isWordTok, absorbsEq, startsWithEq, isIdentTok, isSlash, looksLikeMantissaE])
  simpa [renderFrom, Gap.text] using this

/-- `1e+"3"`: an identifier, a plus and a string — not a float -/
theorem C07_sign_before_string :
    tokenize cl!"1e+\"3\"" = .ok [.identifier cl!"1e", .plus, .string cl!"3"] := by
  have h1e : lexWord cl!"1e" = none :=
    C06_word cl!"1e" (by decide) (by decide) (by decide) (by decide) (by decide) (by decide)
  have := C07_roundtrip_ext
    [([], ⟨.identifier cl!"1e", cl!"1e"⟩), ([], ⟨.plus, cl!"+"⟩), ([], ⟨.string cl!"3", cl!"\"3\""⟩)] []
    (by
      intro p hp
      simp only [List.mem_cons, List.not_mem_nil, or_false] at hp
      rcases hp with rfl | rfl | rfl
      · exact Or.inl ⟨rfl, by decide, h1e⟩
      · exact Or.inl rfl
      · exact Or.inl rfl)
    (by
      simp [AdmissibleX, fuses, isWordTok, absorbsEq, startsWithEq, isIdentTok, isSlash]
      -- the token after the sign is a string, not a word token
      intro _ _ gr r rest'' _ hr _ hw
      subst hr
      cases hw)
  simpa [renderFrom, Gap.text] using this

/-- `2E-(x)` -/
theorem C07_sign_before_paren :
    tokenize cl!"2E-(x)" =
      .ok [.identifier cl!"2E", .minus, .lBrace, .identifier cl!"x", .rBrace] := by
  have h2E : lexWord cl!"2E" = none :=
    C06_word cl!"2E" (by decide) (by decide) (by decide) (by decide) (by decide) (by decide)
  have hx : lexWord cl!"x" = none :=
    C06_word cl!"x" (by decide) (by decide) (by decide) (by decide) (by decide) (by decide)
  have := C07_roundtrip_ext
    [([], ⟨.identifier cl!"2E", cl!"2E"⟩), ([], ⟨.minus, cl!"-"⟩), ([], ⟨.lBrace, cl!"("⟩),
      ([], ⟨.identifier cl!"x", cl!"x"⟩), ([], ⟨.rBrace, cl!")"⟩)] []
    (by
      intro p hp
      simp only [List.mem_cons, List.not_mem_nil, or_false] at hp
      rcases hp with rfl | rfl | rfl | rfl | rfl
      · exact Or.inl ⟨rfl, by decide, h2E⟩
      · exact Or.inl rfl
      · exact Or.inl rfl
      · exact Or.inl ⟨rfl, by decide, hx⟩
      · exact Or.inl rfl)
    (by simp [AdmissibleX, fuses, isWordTok, absorbsEq, startsWithEq, isIdentTok, isSlash])
  simpa [renderFrom, Gap.text] using this

end Evalexpr.Spec
