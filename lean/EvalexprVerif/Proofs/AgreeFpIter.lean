/- Proofs/AgreeFpIter.lean — the `Iter` functions of /repo/src are textually the ones the model was validated against. -/
import EvalexprVerif.Generated.FpIter
import EvalexprVerif.Spec.Fingerprints

namespace Evalexpr.Agree

theorem fpIter_agree : Generated.fpIter = Spec.Fingerprints.fpIter := by decide

end Evalexpr.Agree
