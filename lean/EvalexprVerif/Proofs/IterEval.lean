/-
Proofs/IterEval.lean — auxiliary to property C14: the shape of `eval_with_context_mut` on the
trees of expressions (sequencing of early returns), invariance of the context's functions under
evaluation, and the origin of unknown-identifier errors.
-/
import EvalexprVerif.Proofs.IterClean

namespace Evalexpr.Spec
open Evalexpr

/-! ### sequencing -/

/-- the evaluator's `?`: an error returns early, keeping the state reached so far -/
def bindE {α β : Type} (a : Res α × St) (k : α → St → Res β × St) : Res β × St :=
  match a with
  | (.error e, s) => (.error e, s)
  | (.ok v, s) => k v s

@[simp] theorem bindE_ok {α β : Type} (v : α) (s : St) (k : α → St → Res β × St) :
    bindE (.ok v, s) k = k v s := rfl
@[simp] theorem bindE_error {α β : Type} (e : Err) (s : St) (k : α → St → Res β × St) :
    bindE (.error e, s) k = (.error e, s) := rfl

theorem evalMut_leaf (op : Operator) (s : St) : (Node.mk op []).evalMut s = op.evalMut [] s := by
  rw [Node.evalMut, evalMutList]

theorem evalMut_node1 (op : Operator) (c : Node) (s : St) :
    (Node.mk op [c]).evalMut s = bindE (c.evalMut s) fun v s => op.evalMut [v] s := by
  rw [Node.evalMut, evalMutList]
  rcases c.evalMut s with ⟨_ | v, s'⟩
  · rfl
  · simp only [evalMutList, bindE_ok]

theorem evalMut_node2 (op : Operator) (c d : Node) (s : St) :
    (Node.mk op [c, d]).evalMut s =
      bindE (c.evalMut s) fun v s => bindE (d.evalMut s) fun w s => op.evalMut [v, w] s := by
  rw [Node.evalMut, evalMutList]
  rcases c.evalMut s with ⟨_ | v, s'⟩
  · rfl
  · simp only [evalMutList, bindE_ok]
    rcases d.evalMut s' with ⟨_ | w, s''⟩
    · rfl
    · rfl

theorem evalMut_root1 (n : Node) (s : St) : (Node.mk .rootNode [n]).evalMut s = n.evalMut s := by
  rw [evalMut_node1]
  rcases n.evalMut s with ⟨_ | v, s'⟩ <;> rfl

theorem evalMut_wrapTree (b : Bool) (n : Node) (s : St) : (wrapTree b n).evalMut s = n.evalMut s := by
  cases b
  · rfl
  · exact evalMut_root1 n s

/-! ### the assignment arms of `eval_mut`, written with `bindE` -/

def assignBody (args : List Value) (s : St) : Res Value × St :=
  match args with
  | [t, v] =>
    match t.asString with
    | .error e => (.error e, s)
    | .ok target => bindE (setValue s target v) fun _ s => (.ok .empty, s)
  | _ => (.error (wrongArgs 2 args.length), s)

def opAssignBody (base : Operator) (args : List Value) (s : St) : Res Value × St :=
  match args with
  | [t, v] =>
    match t.asString with
    | .error e => (.error e, s)
    | .ok target =>
      bindE (Operator.eval (.varRead target) [] s) fun left s =>
        bindE (Operator.eval base [left, v] s) fun result s =>
          bindE (setValue s target result) fun _ s => (.ok .empty, s)
  | _ => (.error (wrongArgs 2 args.length), s)

theorem evalMut_assign (args : List Value) (s : St) :
    Operator.evalMut .assign args s = assignBody args s := by
  simp only [Operator.evalMut, assignBody]
  rcases args with _ | ⟨t, _ | ⟨v, _ | ⟨w, rest⟩⟩⟩ <;> try rfl
  dsimp only
  cases t.asString <;> dsimp only
  rcases setValue s _ v with ⟨_ | _, _⟩ <;> rfl

theorem evalMut_opAssign {op base : Operator} (h : op.assignBase = some base) (args : List Value)
    (s : St) : op.evalMut args s = opAssignBody base args s := by
  cases op <;> simp only [Operator.assignBase, reduceCtorEq, Option.some.injEq] at h <;>
    subst h <;> simp only [Operator.evalMut, opAssignBody, Operator.assignBase]
  all_goals
    rcases args with _ | ⟨t, _ | ⟨v, _ | ⟨w, rest⟩⟩⟩ <;> try rfl
    dsimp only
    cases t.asString <;> dsimp only
    rename_i target
    rcases Operator.eval (.varRead target) [] s with ⟨_ | left, s1⟩ <;> dsimp only [bindE]
    rcases Operator.eval _ [left, v] s1 with ⟨_ | res, s2⟩ <;> dsimp only
    rcases setValue s2 target res with ⟨_ | _, _⟩ <;> rfl

/-- operators whose `eval_mut` is `eval` -/
def isAssignOp : Operator → Bool
  | .assign | .addAssign | .subAssign | .mulAssign | .divAssign | .modAssign | .expAssign
  | .andAssign | .orAssign => true
  | _ => false

theorem evalMut_eq_eval {op : Operator} (h : isAssignOp op = false) (args : List Value) (s : St) :
    op.evalMut args s = op.eval args s := by
  cases op <;> first | rfl | simp [isAssignOp] at h

/-- operators that do not look at the context -/
def isPureOp : Operator → Bool
  | .varRead _ | .fn _ => false
  | _ => true

theorem iterEval_pure {op : Operator} (h : isPureOp op = true) (args : List Value) (s : St) :
    op.eval args s = (op.evalPure args, s) := by
  cases op <;> first | rfl | simp [isPureOp] at h

theorem evalMut_pure {op : Operator} (h₁ : isAssignOp op = false) (h₂ : isPureOp op = true)
    (args : List Value) (s : St) : op.evalMut args s = (op.evalPure args, s) := by
  rw [evalMut_eq_eval h₁, iterEval_pure h₂]

theorem eval_varRead (x : Str) (s : St) :
    Operator.eval (.varRead x) [] s =
      match s.ctx.getValue x with
      | some v => (.ok v, s)
      | none => (.error (.variableIdentifierNotFound x), s) := rfl

/-! ### evaluation never touches the functions of the context -/

theorem callFunction_ctx (id : Str) (arg : Value) (s : St) : (callFunction id arg s).2.ctx = s.ctx := by
  unfold callFunction
  cases s.ctx.userFn id <;> dsimp only <;> repeat' split
  all_goals rfl

theorem iterEval_ctx (op : Operator) (args : List Value) (s : St) : (op.eval args s).2.ctx = s.ctx := by
  unfold Operator.eval
  repeat' split
  all_goals first | rfl | exact callFunction_ctx _ _ _

theorem iter_hashMap_setValue_funs {h h' : HashMapCtx} {id : Str} {v : Value}
    (hs : h.setValue id v = .ok h') : h'.funs = h.funs ∧ h'.noBuiltins = h.noBuiltins := by
  unfold HashMapCtx.setValue at hs
  repeat' split at hs
  all_goals cases hs
  all_goals exact ⟨rfl, rfl⟩

theorem iter_ctx_setValue_userFn {c c' : Ctx} {id : Str} {v : Value} (hs : c.setValue id v = .ok c') :
    c'.userFn = c.userFn ∧ c'.builtinsDisabled = c.builtinsDisabled := by
  cases c with
  | hashMap h =>
    simp only [Ctx.setValue] at hs
    cases hh : h.setValue id v with
    | error e => rw [hh] at hs; cases hs
    | ok h' =>
      rw [hh] at hs
      cases hs
      have := iter_hashMap_setValue_funs hh
      refine ⟨?_, ?_⟩
      · funext k; simp only [Ctx.userFn, this.1]
      · simp only [Ctx.builtinsDisabled, this.2]
  | _ => cases hs

/-- `out` is reached from `s` without touching the functions / builtin switch -/
def PresFn {α : Type} (s : St) (out : Res α × St) : Prop :=
  out.2.ctx.userFn = s.ctx.userFn ∧ out.2.ctx.builtinsDisabled = s.ctx.builtinsDisabled

theorem PresFn.of_ctx {α : Type} {s : St} {out : Res α × St} (h : out.2.ctx = s.ctx) : PresFn s out := by
  simp only [PresFn, h, and_self]

theorem PresFn.refl {α : Type} (r : Res α) (s : St) : PresFn s (r, s) := ⟨rfl, rfl⟩

theorem PresFn.bindE {α β : Type} {s : St} {a : Res α × St} {k : α → St → Res β × St}
    (ha : PresFn s a) (hk : ∀ v s', PresFn s' (k v s')) : PresFn s (bindE a k) := by
  rcases a with ⟨e | v, s'⟩
  · exact ha
  · have := hk v s'
    exact ⟨this.1.trans ha.1, this.2.trans ha.2⟩

theorem setValue_presFn (s : St) (id : Str) (v : Value) : PresFn s (setValue s id v) := by
  unfold setValue
  split
  · next c hc => exact iter_ctx_setValue_userFn hc
  · exact ⟨rfl, rfl⟩

theorem eval_presFn (op : Operator) (args : List Value) (s : St) : PresFn s (op.eval args s) :=
  PresFn.of_ctx (iterEval_ctx op args s)

theorem assignBody_presFn (args : List Value) (s : St) : PresFn s (assignBody args s) := by
  unfold assignBody
  repeat' split
  · exact PresFn.refl _ _
  · exact PresFn.bindE (setValue_presFn _ _ _) fun _ _ => PresFn.refl _ _
  · exact PresFn.refl _ _

theorem opAssignBody_presFn (base : Operator) (args : List Value) (s : St) :
    PresFn s (opAssignBody base args s) := by
  unfold opAssignBody
  repeat' split
  · exact PresFn.refl _ _
  · exact PresFn.bindE (eval_presFn _ _ _) fun _ _ =>
      PresFn.bindE (eval_presFn _ _ _) fun _ _ =>
        PresFn.bindE (setValue_presFn _ _ _) fun _ _ => PresFn.refl _ _
  · exact PresFn.refl _ _

theorem evalMut_presFn (op : Operator) (args : List Value) (s : St) : PresFn s (op.evalMut args s) := by
  by_cases ha : isAssignOp op = true
  · cases hb : op.assignBase with
    | none =>
      have : op = .assign := by cases op <;> simp_all [isAssignOp, Operator.assignBase]
      subst this
      rw [evalMut_assign]
      exact assignBody_presFn args s
    | some base =>
      rw [evalMut_opAssign hb]
      exact opAssignBody_presFn base args s
  · rw [evalMut_eq_eval (by simpa using ha)]
    exact eval_presFn op args s

theorem PresFn.trans {α β : Type} {s s' : St} {r : Res α} {out : Res β × St}
    (h₁ : PresFn s (r, s')) (h₂ : PresFn s' out) : PresFn s out :=
  ⟨h₂.1.trans h₁.1, h₂.2.trans h₁.2⟩

mutual
theorem node_evalMut_presFn : ∀ (n : Node) (s : St), PresFn s (n.evalMut s)
  | ⟨op, cs⟩, s => by
    rw [Node.evalMut]
    have hl := list_evalMut_presFn cs s
    revert hl
    rcases evalMutList cs s with ⟨e | args, s'⟩ <;> intro hl
    · exact hl
    · exact hl.trans (evalMut_presFn op args s')
theorem list_evalMut_presFn : ∀ (cs : List Node) (s : St), PresFn s (evalMutList cs s)
  | [], s => ⟨rfl, rfl⟩
  | c :: cs, s => by
    rw [evalMutList]
    have hc := node_evalMut_presFn c s
    revert hc
    rcases Node.evalMut c s with ⟨e | v, s'⟩ <;> intro hc
    · exact hc
    · dsimp only
      have hl := list_evalMut_presFn cs s'
      revert hl
      rcases evalMutList cs s' with ⟨e | vs, s''⟩ <;> intro hl
      · exact hc.trans hl
      · exact hc.trans (r := Except.ok v) ⟨hl.1, hl.2⟩
end

/-- the functions of the context (and the builtin switch) never change during evaluation -/
theorem evalMut_userFn (n : Node) (s : St) : (n.evalMut s).2.ctx.userFn = s.ctx.userFn :=
  (node_evalMut_presFn n s).1

theorem NoFabricate.of_userFn {c c' : Ctx} (h : c'.userFn = c.userFn) (hnf : NoFabricate c) :
    NoFabricate c' := by
  intro id f arg x hf
  rw [h] at hf
  exact hnf id f arg x hf

theorem NoFabricate.evalMut {s : St} (hnf : NoFabricate s.ctx) (n : Node) :
    NoFabricate (n.evalMut s).2.ctx :=
  NoFabricate.of_userFn (evalMut_userFn n s) hnf

/-! ### where unknown-identifier errors come from -/

/-- an unknown-identifier error, if any, names an occurrence in `O` -/
def Unk {α : Type} (O : List (IdentClass × Str)) (res : Res α) : Prop :=
  (∀ x, res = .error (.variableIdentifierNotFound x) → (.read, x) ∈ O ∨ (.write, x) ∈ O) ∧
    (∀ f, res = .error (.functionIdentifierNotFound f) → (.function, f) ∈ O)

theorem Unk.of_clean {α : Type} {O : List (IdentClass × Str)} {res : Res α} (h : Clean res) :
    Unk O res :=
  ⟨fun x hx => absurd hx (h.not_var x), fun f hf => absurd hf (h.not_fn f)⟩

theorem Unk.of_clean_pair {α : Type} {O : List (IdentClass × Str)} {res : Res α} {s : St}
    (h : Clean res) : Unk O (res, s).1 := Unk.of_clean h

theorem Unk.ok_pair {α : Type} {O : List (IdentClass × Str)} {v : α} {s : St} :
    Unk O ((.ok v : Res α), s).1 := Unk.of_clean trivial

theorem Unk.mono {α : Type} {O O' : List (IdentClass × Str)} {res : Res α} (h : Unk O res)
    (hsub : ∀ p ∈ O, p ∈ O') : Unk O' res :=
  ⟨fun x hx => (h.1 x hx).imp (hsub _) (hsub _), fun f hf => hsub _ (h.2 f hf)⟩

theorem Unk.bindE {α β : Type} {O : List (IdentClass × Str)} {a : Res α × St}
    {k : α → St → Res β × St} (ha : Unk O a.1)
    (hk : ∀ v, a.1 = .ok v → Unk O (k v a.2).1) : Unk O (bindE a k).1 := by
  rcases a with ⟨e | v, s'⟩
  · refine ⟨fun x hx => ha.1 x ?_, fun f hf => ha.2 f ?_⟩
    · have : e = .variableIdentifierNotFound x := by simpa [Spec.bindE] using hx
      subst this; rfl
    · have : e = .functionIdentifierNotFound f := by simpa [Spec.bindE] using hf
      subst this; rfl
  · exact hk v rfl

theorem setValue_clean (s : St) (id : Str) (v : Value) : Clean (setValue s id v).1 := by
  unfold setValue
  split
  · trivial
  · next e he => exact clean_of_eq_error (clean_ctx_setValue _ _ _) he

theorem unk_fn_error (id : Str) : Unk (α := Value) [(.function, id)] (.error (.functionIdentifierNotFound id)) := by
  refine ⟨fun x hx => ?_, fun g hg => ?_⟩
  · cases hx
  · cases hg; simp

theorem callFunction_unk {s : St} (hnf : NoFabricate s.ctx) (id : Str) (arg : Value) :
    Unk [(.function, id)] (callFunction id arg s).1 := by
  unfold callFunction
  cases hu : s.ctx.userFn id with
  | some f =>
    have h1 := (hnf id f arg · hu)
    dsimp only
    split
    · next heq => exact absurd heq (h1 _).2
    · exact ⟨fun x hx => absurd hx (h1 x).1, fun g hg => absurd hg (h1 g).2⟩
  | none =>
    dsimp only
    split
    · split
      · exact Unk.of_clean_pair (clean_builtin_call _ _)
      · exact unk_fn_error id
    · exact unk_fn_error id

theorem eval_varRead_unk (x : Str) (s : St) (c : IdentClass) (hc : c ≠ .function) :
    Unk [(c, x)] (Operator.eval (.varRead x) [] s).1 := by
  rw [eval_varRead]
  split
  · exact Unk.ok_pair
  · refine ⟨fun y hy => ?_, fun g hg => ?_⟩
    · cases hy
      cases c
      · right; simp
      · left; simp
      · exact absurd rfl hc
    · cases hg

theorem assignOp_isAssign (op : AssignOp) : isAssignOp op.toOperator = true := by cases op <;> rfl
theorem binOp_notAssign (op : BinOp) : isAssignOp op.toOperator = false := by cases op <;> rfl
theorem binOp_pure (op : BinOp) : isPureOp op.toOperator = true := by cases op <;> rfl

theorem assignBase_pure {op base : Operator} (h : op.assignBase = some base) : isPureOp base = true := by
  cases op <;> simp only [Operator.assignBase, reduceCtorEq, Option.some.injEq] at h <;>
    subst h <;> rfl

theorem assignOp_cases (op : AssignOp) :
    op.toOperator = .assign ∨ ∃ base, op.toOperator.assignBase = some base := by
  cases op
  · left; rfl
  all_goals right; exact ⟨_, rfl⟩

theorem assignOp_unk (op : AssignOp) (x : Str) (v : Value) (s : St) :
    Unk [(.write, x)] (op.toOperator.evalMut [.string x, v] s).1 := by
  rcases assignOp_cases op with h | ⟨base, h⟩
  · rw [h, evalMut_assign]
    simp only [assignBody, Value.asString]
    refine Unk.bindE (Unk.of_clean (setValue_clean _ _ _)) fun _ _ => Unk.ok_pair
  · rw [evalMut_opAssign h]
    simp only [opAssignBody, Value.asString]
    refine Unk.bindE (eval_varRead_unk x s .write (by simp)) fun left _ => ?_
    rw [iterEval_pure (assignBase_pure h)]
    refine Unk.bindE (Unk.of_clean_pair (clean_evalPure _ _)) fun res _ => ?_
    exact Unk.bindE (Unk.of_clean (setValue_clean _ _ _)) fun _ _ => Unk.ok_pair

/-- evaluation of an expression's tree can only report unknown identifiers that occur in it -/
theorem toTree_unk : ∀ (e : Expr) (s : St), NoFabricate s.ctx → Unk (occ e) ((toTree e).evalMut s).1
  | .lit l, s, _ => by
    rw [toTree, evalMut_leaf]
    exact Unk.ok_pair
  | .var x, s, _ => by
    rw [toTree, evalMut_leaf]
    exact eval_varRead_unk x s .read (by simp)
  | .call f a, s, hnf => by
    rw [toTree, evalMut_node1, evalMut_wrapTree]
    refine Unk.bindE ((toTree_unk a s hnf).mono ?_) fun v _ => ?_
    · intro p hp; simp [occ, hp]
    · refine (callFunction_unk (hnf.evalMut _) f v).mono ?_
      intro p hp; simp only [List.mem_singleton] at hp; simp [occ, hp]
  | .neg e, s, hnf => by
    rw [toTree, evalMut_node1, evalMut_wrapTree]
    exact Unk.bindE (toTree_unk e s hnf) fun v _ => Unk.of_clean_pair (clean_evalPure .neg _)
  | .not e, s, hnf => by
    rw [toTree, evalMut_node1, evalMut_wrapTree]
    exact Unk.bindE (toTree_unk e s hnf) fun v _ => Unk.of_clean_pair (clean_evalPure .not _)
  | .bin op l r, s, hnf => by
    rw [toTree, evalMut_node2, evalMut_wrapTree]
    refine Unk.bindE ((toTree_unk l s hnf).mono ?_) fun v _ => ?_
    · intro p hp; simp [occ, hp]
    · rw [evalMut_wrapTree]
      refine Unk.bindE ((toTree_unk r _ (hnf.evalMut _)).mono ?_) fun w _ => ?_
      · intro p hp; simp [occ, hp]
      · rw [evalMut_pure (binOp_notAssign op) (binOp_pure op)]
        exact Unk.of_clean_pair (clean_evalPure _ _)
  | .assign op x rhs, s, hnf => by
    rw [toTree, evalMut_node2, evalMut_leaf]
    have : Operator.evalMut (.varWrite x) [] s = (.ok (.string x), s) := rfl
    rw [this, bindE_ok, evalMut_wrapTree]
    refine Unk.bindE ((toTree_unk rhs s hnf).mono ?_) fun v _ => ?_
    · intro p hp; simp [occ, hp]
    · refine (assignOp_unk op x v _).mono ?_
      intro p hp; simp only [List.mem_singleton] at hp; simp [occ, hp]
  | .paren e, s, hnf => by
    rw [toTree, evalMut_root1]
    exact toTree_unk e s hnf

end Evalexpr.Spec
