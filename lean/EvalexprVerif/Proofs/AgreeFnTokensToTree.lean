/-
Proofs/AgreeFnTokensToTree.lean — `tokens_to_operator_tree` of src/tree/mod.rs as translated on this run
(`Generated/FnTreeBuild.lean`) equals the Model's `tokensToOperatorTree` for ALL token sequences:

    fn_tokens_to_operator_tree_agree : Gen.tokens_to_operator_tree ts = some (tokensToOperatorTree ts)

`some`: the translation (peekable iteration `Rs.forPeek`, calling the `loop`s of `collapse_*` and the recursive
`insert_back_prioritized`, all `Option`-valued) TERMINATES on every input.

Structure (it follows the Model, `Model/Tree.lean`, not the Rust text):
* `Rs.run_forPeek_bind_sim` (Translate/Lemmas.lean): the `while let Some(token) = token_iter.next()` loop simulates the Model's
  fold of `treeStep` if ONE pass of the translated body simulates `treeStep` on related states (`RSt`: the `Vec` stack is the
  Model's stack reversed; the two flags are equal), and what follows the loop agrees with `treeFinish`;
* one pass: the juxtaposition test; then the first statement (`let node = match token { … }`) is `tokenToNode` (35 token cases,
  `collapse_all_sequences` by its agreement theorem); then `pushSequence` / `pushNode` by symbolic execution with the agreement
  theorems of `collapse_root_stack_to` and `insert_back_prioritized`.
* the two `unreachable!()` of the loop body are panics whose site string differs from the Model's `unreachableSeq`: the simulation
  is up to the panic site (`Rs.ErrSim`), and `Spec.build_noPanic` (Proofs/NoPanicTree.lean: the Model never panics here) turns
  the result into an equality.
-/
import EvalexprVerif.Proofs.AgreeFnTreeBuild
import EvalexprVerif.Proofs.NoPanicTree

set_option linter.unusedSimpArgs false
set_option linter.unusedVariables false

namespace Evalexpr.AgreeFn
open Evalexpr

-- the evaluation lemmas of the `Vec` / comparison vocabulary the tree builder uses (as global simp lemmas they would disturb the other agreement proofs)
attribute [local simp] Rs.lt_nat Rs.le_nat Rs.gt_nat Rs.ge_nat Rs.eq_option_some Rs.eq_option_none_some Rs.eq_option_some_none Rs.eq_option_none Rs.set_last_def Rs.last_def

/-- the Model's state of the token loop: (root stack, last_token_is_rightsided_value, last_token_is_identifier) -/
abbrev LoopSt := List Node × Bool × Bool

/-- one iteration of the Model's token loop as a step function on `LoopSt` -/
def treeStepSt (token : Token) (next : Option Token) (t : LoopSt) : Res LoopSt :=
  match treeStep t.1 t.2.1 t.2.2 token next with
  | .ok stack => .ok (stack, token.isRightsidedValue, token.isIdentifier)
  | .error e => .error e

theorem treeLoop_eq_foldPeek (ts : List Token) (t : LoopSt) :
    treeLoop ts t.1 t.2.1 t.2.2 = (Rs.foldPeek treeStepSt ts t).map (·.1) := by
  induction ts generalizing t with
  | nil => rfl
  | cons a l ih =>
    rw [treeLoop, Rs.foldPeek, treeStepSt]
    cases treeStep t.1 t.2.1 t.2.2 a l.head? with
    | error e => rfl
    | ok st => exact ih (st, _, _)

/-- the loop state of the translated function against the Model's: `f` says how the translated loop arranges the (reversed: `Vec`,
last element = top) root stack and the two flags in its state tuple -/
def RStBy {σ : Type} (f : LoopSt → σ) (s : σ) (t : LoopSt) : Prop := s = f t

/-- what `tokens_to_operator_tree` does after the loop, in the Model -/
def treeFinish (t : LoopSt) : Res Node :=
  match collapseAllSequences t.1 with
  | .error e => .error e
  | .ok stack =>
    if stack.length > 1 then .error .unmatchedLBrace
    else match stack with
      | root :: _ => .ok root
      | [] => .error .unmatchedRBrace

theorem tokensToOperatorTree_eq (ts : List Token) :
    tokensToOperatorTree ts = Rs.foldPeekThen treeStepSt treeFinish ts ([Node.rootNode], false, false) := by
  have h := treeLoop_eq_foldPeek ts ([Node.rootNode], false, false)
  simp only at h
  rw [tokensToOperatorTree, h, Rs.foldPeekThen]
  cases Rs.foldPeek treeStepSt ts ([Node.rootNode], false, false) <;> rfl

/-- the Model's `tokenToNode` as the first statement of the loop body: the node (if any) and the `Vec` stack, or the early return -/
def tokenToNodeL {σ : Type} (r : Res (Option Node × List Node)) : Rs.L (Res Node) σ (Option Node × List Node) :=
  match r with
  | .ok (n, st) => pure (n, st.reverse)
  | .error e => Rs.ret (.error e)

theorem eq_nil_or_snoc {α : Type} (l : List α) : l = [] ∨ ∃ init a, l = init ++ [a] := by
  rcases List.eq_nil_or_concat l with h | ⟨i, a, h⟩
  · exact .inl h
  · exact .inr ⟨i, a, by simpa using h⟩

/-- close a `StepSim` goal whose two sides are determined -/
macro "sim_close" : tactic =>
  `(tactic| first
    | (simp [RStBy, Rs.ErrSim, unreachableSeq, Err.isPanic, Except.map]; done)
    | (simp [RStBy, Rs.ErrSim, unreachableSeq, Err.isPanic, Except.map]; cases ‹Token› <;> rfl)
    | (simp_all [Operator.isRoot]; done))

set_option hygiene false in
/-- the simulation proof, for a given arrangement `f` of the loop state (see `RStBy`) -/
macro "tokens_loop_sim_for" f:term : tactic => `(tactic| (
  unfold Gen.tokens_to_operator_tree
  simp only []
  rw [tokensToOperatorTree_eq]
  refine Rs.run_forPeek_bind_sim (RStBy $f) treeStepSt treeFinish ?hR ?hbody ?hk
  case hR => rfl
  case hk =>
    rintro s ⟨stack, lr, li⟩ rfl
    obtain ⟨g, hg, ho⟩ := fn_collapse_all_sequences_agree stack
    rcases g with ⟨g1, g2⟩
    cases hc : collapseAllSequences stack with
    | error e =>
      simp [hc, OutAgrees, Except.map] at ho
      subst ho
      simp [hg, treeFinish, hc, Rs.PanicEq]
    | ok st' =>
      simp [hc, OutAgrees, Except.map] at ho
      obtain ⟨rfl, rfl⟩ := ho
      rcases st' with _ | ⟨a, _ | ⟨b, rest⟩⟩ <;> simp [hg, treeFinish, hc, Rs.PanicEq]
  case hbody =>
    rintro token nxt s ⟨stack, lr, li⟩ rfl
    tb_simp [treeStepSt, treeStep, juxtaposed, fn_Token_is_leftsided_value_agree, fn_Token_is_rightsided_value_agree, fn_Token_is_assignment_agree]
    rs_split_if
    · -- two operands juxtaposed: both return the same error
      simp [Rs.ErrSim]
    · refine Rs.StepSim.bind_left (x' := tokenToNodeL (tokenToNode stack lr token nxt)) ?hM ?hK
      case hM =>
        cases token <;> try (simp [tokenToNode, tokenToNodeL, fn_Operator_value_agree]; done)
        case minus => cases lr <;> simp [tokenToNode, tokenToNodeL]
        case identifier id =>
          rcases nxt with _ | next <;>
            simp [tokenToNode, tokenToNodeL, fn_Operator_variable_identifier_read_agree,
              fn_Operator_variable_identifier_write_agree, fn_Operator_function_identifier_agree]
          rs_split_ifs <;> simp
        case rBrace =>
          obtain ⟨g, hg, ho⟩ := fn_collapse_all_sequences_agree stack
          rcases g with ⟨g1, g2⟩
          simp only [tokenToNode, tokenToNodeL]
          cases hcs : collapseAllSequences stack with
          | error e =>
            simp [hcs, OutAgrees, Except.map] at ho
            subst ho
            rs_split_ifs <;> simp [hg]
          | ok st' =>
            simp [hcs, OutAgrees, Except.map] at ho
            obtain ⟨rfl, rfl⟩ := ho
            rcases st' with _ | ⟨top, st''⟩ <;> rs_split_ifs <;> simp [hg]
      case hK =>
        generalize tokenToNode stack lr token nxt = r
        rcases r with e | ⟨_ | node, st⟩
        · simp [tokenToNodeL, Rs.ErrSim]
        · simp [tokenToNodeL]; sim_close
        · rcases st with _ | ⟨root, rest⟩
          · simp [tokenToNodeL, Rs.ErrSim]
          · simp [tokenToNodeL]
            rs_split_if
            · -- a sequence operator (`,` / `;`): `pushSequence`
              obtain ⟨g, hg, ho⟩ := fn_collapse_root_stack_to_agree rest root node
              rcases g with ⟨g1, g2⟩
              generalize hcr : collapseRootStackTo rest root node = cr at ho
              rcases root with ⟨rop, rcs⟩
              rcases eq_nil_or_snoc rcs with rfl | ⟨init, last, rfl⟩ <;>
                rcases cr with e | ⟨root', _ | ⟨open_, st'⟩⟩ <;>
                simp [OutAgrees] at ho <;> (try obtain ⟨rfl, rfl⟩ := ho) <;> (try subst ho) <;>
                simp [pushSequence, hg, hcr, Operator.isRoot] <;> rs_split_ifs
              all_goals sim_close
            · -- any other operator / operand: `pushNode`
              rcases root with ⟨rop, rcs⟩
              obtain ⟨g, hg, hm⟩ := fn_Node_insert_back_prioritized_agree ⟨rop, rcs⟩ node true
              rcases eq_nil_or_snoc rcs with rfl | ⟨init, last, rfl⟩
              · rcases g with ⟨_ | _, g2⟩ <;> simp [pushNode, hg, hm, Operator.isRoot] <;> rs_split_ifs
                all_goals sim_close
              · obtain ⟨g', hg', hm'⟩ := fn_Node_insert_back_prioritized_agree last node true
                rcases g with ⟨_ | _, g2⟩ <;> rcases g' with ⟨_ | _, g2'⟩ <;>
                  simp [pushNode, hg, hm, hg', hm', Operator.isRoot] <;> rs_split_ifs
                all_goals sim_close
  ))

/-- The translated loop keeps (root_stack, last_token_is_rightsided_value, last_token_is_identifier) in a tuple whose order is the
declaration order of the Rust locals; the proof does not depend on it: it tries the arrangements (a wrong position of the stack
is a type error, found at once; swapped flags fail in the first case that looks at them). -/
theorem tokens_loop_sim (ts : List Token) :
    ∃ r, Gen.tokens_to_operator_tree ts = some r ∧ Rs.PanicEq r (tokensToOperatorTree ts) := by
  first
  | tokens_loop_sim_for (fun t : LoopSt => (t.1.reverse, t.2.1, t.2.2))
  | tokens_loop_sim_for (fun t : LoopSt => (t.1.reverse, t.2.2, t.2.1))
  | tokens_loop_sim_for (fun t : LoopSt => (t.2.1, t.1.reverse, t.2.2))
  | tokens_loop_sim_for (fun t : LoopSt => (t.2.2, t.1.reverse, t.2.1))
  | tokens_loop_sim_for (fun t : LoopSt => (t.2.1, t.2.2, t.1.reverse))
  | tokens_loop_sim_for (fun t : LoopSt => (t.2.2, t.2.1, t.1.reverse))

/-- `tokens_to_operator_tree` terminates and computes the Model's `tokensToOperatorTree`, for all token sequences -/
theorem fn_tokens_to_operator_tree_agree (ts : List Token) :
    Gen.tokens_to_operator_tree ts = some (tokensToOperatorTree ts) := by
  obtain ⟨r, hr, hp⟩ := tokens_loop_sim ts
  rw [hr, hp.eq_of_noPanic (Spec.build_noPanic ts)]

/-- corollaries about the code as translated: no input makes the translated builder diverge or panic -/
theorem fn_tokens_to_operator_tree_terminates (ts : List Token) : (Gen.tokens_to_operator_tree ts).isSome = true := by
  rw [fn_tokens_to_operator_tree_agree]; rfl
theorem fn_tokens_to_operator_tree_noPanic (ts : List Token) (r : Res Node)
    (h : Gen.tokens_to_operator_tree ts = some r) : r.isPanic = false := by
  rw [fn_tokens_to_operator_tree_agree] at h
  cases h
  exact Spec.build_noPanic ts

end Evalexpr.AgreeFn
